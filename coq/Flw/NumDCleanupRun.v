(* NumbersDirect naming with a cleanup strategy, part 2: the invariant NumDKInv, one rotation (mount_next with cleanup),
   every history of basic operations, and the end-to-end theorem numbersdirect_cleanup_stream:
   after the writer is stopped the directory holds exactly the file that was written last (r<L>, L = number of closed files),
   the newest n - 1 closed files as plain files, the next m closed files as archives with the same content, nothing else
   ((n, m) = klimd k: the effective limits, the current file counts as one of the n plain files, see NumDCleanupStep.v).
   The abstract side (aview, a_run, trace_ok, ...) is the one of Numbers naming (NumRun.v, NumCleanupRun.v). *)
Require Import FL.Base.Bytes FL.Base.BytesFacts FL.Base.PathName FL.Fs.Fs FL.Fs.FsFacts FL.Time.Civil FL.Time.TsFormat
  FL.Names.FileSpec FL.Names.NamesFacts FL.Names.SortFacts FL.Names.FamilyFacts FL.Flw.Model FL.Flw.ModelFacts FL.Flw.NumFs
  FL.Flw.NumInv FL.Flw.Run FL.Flw.RunFacts FL.Flw.NumRun FL.Oracles.O_Flw FL.Flw.NumTheorems FL.Flw.NumListing FL.Flw.CleanupFacts
  FL.Flw.NumKillRestart FL.Flw.NumDInv FL.Flw.NumDRun
  FL.Flw.NumCleanupNames FL.Flw.NumCleanupStep FL.Flw.NumCleanupRun FL.Flw.NumDCleanupStep.
From Coq Require Import ZifyN ZifyNat ZifyBool.
Open Scope nat_scope.

(* ------------------------------------------------------------------ configurations, limits, shape *)
Definition numdkcfg (c : config) (crit : criterion) (k : cleanup) : Prop :=
  c_rot c = Some (crit, NNumbersDirect, k) /\ fts (c_spec c) = false /\ c_symlink c = false /\ c_async c = false
  /\ c_bg c = false.

(* side condition, needed only when there is a cleanup: the suffix is not (and does not end with .)gz.  There is no
   condition on the number L of closed files any more (the listing is ordered by the NUMBER of the infix); the argument is
   kept for the statements that mention it *)
Definition dside (c : config) (k : cleanup) (L : nat) : Prop :=
  match klimd k with None => True | Some _ => sfx_ok (c_spec c) end.

(* with L closed files (the current file is r<L>): the archives are lo <= i < mid, the plain files mid <= i <= L *)
Definition d_lo (k : cleanup) (L : nat) : nat := match klimd k with None => 0 | Some (n, m) => S L - (n + m) end.
Definition d_mid (k : cleanup) (L : nat) : nat := match klimd k with None => 0 | Some (n, m) => S L - n end.
Definition dnew_lo (k : cleanup) (lo L : nat) : nat := match klimd k with None => lo | Some (n, m) => Nat.max lo (S L - (n + m)) end.
Definition dnew_mid (k : cleanup) (mid L : nat) : nat := match klimd k with None => mid | Some (n, m) => Nat.max mid (S L - n) end.

Lemma dnew_lo_step k L : dnew_lo k (d_lo k L) (S L) = d_lo k (S L).
Proof. unfold dnew_lo, d_lo. destruct (klimd k) as [[n m]|]; lia. Qed.
Lemma dnew_mid_step k L : dnew_mid k (d_mid k L) (S L) = d_mid k (S L).
Proof. unfold dnew_mid, d_mid. destruct (klimd k) as [[n m]|]; lia. Qed.
Lemma d_lo_0 k : d_lo k 0 = 0.
Proof. unfold d_lo. destruct (klimd k) as [[n m]|] eqn:E; [|reflexivity]. apply klimd_pos in E. lia. Qed.
Lemma d_mid_0 k : d_mid k 0 = 0.
Proof. unfold d_mid. destruct (klimd k) as [[n m]|] eqn:E; [|reflexivity]. apply klimd_pos in E. lia. Qed.
Lemma d_mid_le k L : d_mid k L <= L.
Proof. unfold d_mid. destruct (klimd k) as [[n m]|] eqn:E; [|lia]. apply klimd_pos in E. lia. Qed.
Lemma dside_le c k L L' : L <= L' -> dside c k L' -> dside c k L.
Proof. intros _ H. exact H. Qed.

(* ------------------------------------------------------------------ the invariant *)
(* the directory is described by kdir (NumCleanupStep.v) over the list of ALL numbered files: the closed ones and, as
   the last entry, what the current file holds on disk; the current file is in the plain part; there is no rCURRENT *)
Record NumDKInv (c : config) (w : world) (wr : writer) (closed : list bytes) (lo mid : nat) : Prop := {
  dk_quiet : quiet w;
  dk_wf : fs_wf (wfs w);
  dk_cur : lookup (wfs w) (rname c (length closed)) = Some (wino wr);
  dk_curplain : plain (inode (wfs w) (wino wr));
  dk_mid : mid <= length closed;
  dk_dir : kdir c (wfs w) (closed ++ [content (wfs w) (wino wr)]) lo mid;
  dk_nocur : lookup (wfs w) (cname c) = None;
  dk_wr : wr_ok wr;
  dk_cap : wcap wr = c_cap c }.

Definition st_ofdk (c : config) (k : cleanup) (n : nat) (roll : roll_state) (wr : writer) : flw :=
  {| f_cfg := c; f_inner := Active (Some (mk_rsk k (NSNumD (N.of_nat n)) roll)) wr (rname c n); f_poisoned := false |}.

Lemma len_snoc {A} (l : list A) x : length (l ++ [x]) = S (length l).
Proof. rewrite app_length. cbn [length]. lia. Qed.

(* ---- the cleanup keeps the invariant and moves the limits; the current file is not touched ---- *)
Lemma cleanup_dk c crit k w wr closed lo mid :
  numdkcfg c crit k -> dside c k (length closed) -> NumDKInv c w wr closed lo mid ->
  exists w', cleanup_impl c w k IFNum (Some (rname c (length closed))) = (Ok tt, w') /\ same_env w w'
    /\ NumDKInv c w' wr closed (dnew_lo k lo (length closed)) (dnew_mid k mid (length closed))
    /\ cur_view w' wr = cur_view w wr.
Proof.
  intros (Hrot & Hts & Hlink & Has & Hbg) Hside I. pose proof I as [Q W Hc Hcp Hmid KD Hnc Hwr Hcap].
  unfold dside, dnew_lo, dnew_mid in *. destruct (klimd k) as [[n m]|] eqn:Ek.
  - pose proof Hside as Hsfx. pose proof (klimd_pos _ _ _ Ek) as Hn.
    set (all := closed ++ [content (wfs w) (wino wr)]) in *.
    assert (Elen : length all = S (length closed)) by (unfold all; apply len_snoc).
    destruct (cleanup_numbers_d c w k n m all lo mid Hts Hsfx Ek Q W KD) as (w' & E & S & W' & KD' & SC & SR).
    rewrite Elen in KD', SR, E. replace (Datatypes.S (length closed) - 1) with (length closed) in E by lia.
    assert (SL : same_at (wfs w) (wfs w') (rname c (length closed))) by (apply SR; lia).
    destruct (same_at_content _ _ _ _ SL Hc) as [Lc' Ic'].
    assert (Ec : content (wfs w') (wino wr) = content (wfs w) (wino wr)) by (unfold content; rewrite Ic'; reflexivity).
    exists w'. split; [exact E|]. split; [exact S|]. split.
    + constructor; auto.
      * apply S.
      * rewrite Ic'. exact Hcp.
      * lia.
      * rewrite Ec. exact KD'.
      * destruct SC as [SC _]. rewrite SC. exact Hnc.
    + unfold cur_view. rewrite Ec. reflexivity.
  - apply klimd_none in Ek. subst k. exists w. split; [reflexivity|]. split; [apply same_env_refl; exact Q|]. split; [exact I | reflexivity].
Qed.

(* ---- the file system after create + flush of the old writer ---- *)
Lemma kdir_rotate_d c f closed lo mid old pend now :
  fs_wf f -> kdir c f (closed ++ [content f old]) lo mid -> mid <= length closed ->
  lookup f (rname c (length closed)) = Some old -> lookup f (cname c) = None ->
  lookup f (rname c (S (length closed))) = None /\
  let f3 := append_ino (fst (create_file f (rname c (S (length closed))) 0%N now)) old pend in
  let new := snd (create_file f (rname c (S (length closed))) 0%N now) in
  fs_wf f3 /\ lookup f3 (rname c (S (length closed))) = Some new /\ inode f3 new = fresh_file now
  /\ lookup f3 (cname c) = None
  /\ kdir c f3 ((closed ++ [content f old ++ pend]) ++ [content f3 new]) lo mid.
Proof.
  intros W KD Hmid Hc Hnc. pose proof KD as [Hle Hnd Hp Ha Hon]. set (L := length closed) in *.
  rewrite len_snoc in Hle, Hp, Hon. fold L in Hle, Hp, Hon.
  assert (Ht : lookup f (rname c (S L)) = None).
  { destruct (lookup f (rname c (S L))) as [j|] eqn:E; [|reflexivity].
    destruct (Hon _ _ E) as [E1|[(i & Hi & E1)|(i & Hi & E1)]].
    - exfalso; exact (rname_not_cname _ _ E1).
    - apply rname_inj in E1. lia.
    - symmetry in E1. exfalso. exact (gname_ne_rname _ _ _ E1). }
  split; [exact Ht|].
  pose proof (wf_bound _ W _ _ Hc) as Hold.
  pose proof (direct_fs_spec f (rname c (S L)) old pend now W Hold Ht) as R.
  cbn zeta in *. destruct R as [W3 [Hnew [L3t [L3o [Inew [Iold Ioth]]]]]].
  set (new := snd (create_file f (rname c (S L)) 0%N now)) in *.
  set (f3 := append_ino (fst (create_file f (rname c (S L)) 0%N now)) old pend) in *.
  split; [exact W3|]. split; [exact L3t|]. split; [exact Inew|].
  split. { rewrite L3o; [exact Hnc | intros E; exact (rname_not_cname _ _ (eq_sym E))]. }
  assert (Cnew : content f3 new = []) by (unfold content; rewrite Inew; reflexivity).
  rewrite Cnew.
  assert (Keep : forall x j, x <> rname c (S L) -> x <> rname c L -> lookup f x = Some j ->
                 lookup f3 x = Some j /\ inode f3 j = inode f j).
  { intros x j H1 H2 Lj. split; [rewrite L3o by assumption; exact Lj|]. apply Ioth.
    - pose proof (wf_bound _ W _ _ Lj). rewrite Hnew. lia.
    - intros ->. apply H2. exact (wf_inj _ W _ _ _ Lj Hc). }
  constructor.
  - rewrite !len_snoc. fold L. lia.
  - apply nd_append. apply nd_create; [exact Ht | exact Hnd].
  - rewrite !len_snoc. fold L. intros i Hi.
    destruct (Nat.eq_dec i (S L)) as [->|Hne1]; [|destruct (Nat.eq_dec i L) as [->|Hne2]].
    + exists new. split; [exact L3t|]. split; [rewrite Inew; split; reflexivity|].
      rewrite Cnew. rewrite app_nth2 by (rewrite len_snoc; fold L; lia). rewrite len_snoc. fold L. rewrite Nat.sub_diag. reflexivity.
    + destruct (Hp L ltac:(lia)) as (j & Lj & Pj & _). rewrite Hc in Lj. injection Lj as <-.
      exists old. split; [rewrite L3o; [exact Hc | intros E; apply rname_inj in E; lia]|]. split.
      * rewrite Iold. exact Pj.
      * unfold content at 1. rewrite Iold. cbn [with_data fdata].
        rewrite app_nth1 by (rewrite len_snoc; fold L; lia). rewrite app_nth2 by (fold L; lia). fold L. rewrite Nat.sub_diag. reflexivity.
    + destruct (Hp i ltac:(lia)) as (j & Lj & Pj & Cj).
      destruct (Keep (rname c i) j) as [Lj' Ij']; [intros E; apply rname_inj in E; lia | intros E; apply rname_inj in E; lia | exact Lj|].
      exists j. split; [exact Lj'|]. unfold content. rewrite Ij'. split; [exact Pj|].
      rewrite app_nth1 by (rewrite len_snoc; fold L; lia). rewrite app_nth1 by (fold L; lia).
      rewrite app_nth1 in Cj by (fold L; lia). exact Cj.
  - intros i Hi. destruct (Ha i Hi) as (j & Lj & Dj & Gj & Fj).
    destruct (Keep (gname c i) j) as [Lj' Ij']; [apply gname_ne_rname | apply gname_ne_rname | exact Lj|].
    exists j. rewrite Ij'. split; [exact Lj'|]. split; [|auto].
    rewrite app_nth1 by (rewrite len_snoc; fold L; lia). rewrite app_nth1 by (fold L; lia).
    rewrite app_nth1 in Dj by (fold L; lia). exact Dj.
  - intros x j Hx. rewrite !len_snoc. fold L.
    destruct (beq_spec x (rname c (S L))) as [->|Hn1].
    + right. left. exists (S L). split; [lia | reflexivity].
    + rewrite L3o in Hx by assumption. destruct (Hon _ _ Hx) as [E|[(i & Hi & E)|(i & Hi & E)]]; [left; exact E| |].
      * right. left. exists i. split; [lia | exact E].
      * right. right. exists i. split; [lia | exact E].
Qed.

(* ---- one rotation ---- *)
Lemma mount_next_rotates_dk c crit k w wr closed roll force :
  numdkcfg c crit k -> dside c k (S (length closed)) ->
  NumDKInv c w wr closed (d_lo k (length closed)) (d_mid k (length closed)) ->
  force || rotation_necessary w roll = true ->
  exists w' wr' roll',
    mount_next c w (Active (Some (mk_rsk k (NSNumD (N.of_nat (length closed))) roll)) wr (rname c (length closed))) force
      = (Ok tt, w', Active (Some (mk_rsk k (NSNumD (N.of_nat (length (closed ++ [cur_view w wr])))) roll')) wr'
                          (rname c (length (closed ++ [cur_view w wr]))))
    /\ NumDKInv c w' wr' (closed ++ [cur_view w wr]) (d_lo k (S (length closed))) (d_mid k (S (length closed)))
    /\ cur_view w' wr' = [] /\ roll_size_ok roll' 0 /\ same_env w w'
    /\ (forall m cur, roll = RSize m cur -> exists cur', roll' = RSize m cur')
    /\ roll' = roll_reset roll (wnow w).
Proof.
  intros Hcfg Hside I Hnec. pose proof Hcfg as (Hrot & Hts & Hlink & Has & Hbg).
  pose proof I as [Q W Hc Hcp Hmid KD Hnc Hwr Hcap].
  assert (Elen : length (closed ++ [cur_view w wr]) = S (length closed)) by apply len_snoc.
  rewrite Elen.
  unfold mount_next. cbn [mk_rsk rs_roll rs_naming rs_cleanup rs_bg]. rewrite Hnec.
  unfold open_log_file. rewrite (name_of_fixed c w) by assumption.
  fold (nm c (number_infix (N.of_nat (length closed) + 1))). rewrite rname_S.
  destruct (kdir_rotate_d c (wfs w) closed _ _ (wino wr) (wpend wr) (wnow w) W KD Hmid Hc Hnc) as (Ht & R).
  cbn zeta in R. destruct R as (W3 & L3t & Inew & Hnc3 & KD3).
  destruct (open_fresh_quiet c w (rname c (S (length closed))) Q Hlink Ht) as [w2 [Eop [F2 S2]]]. rewrite Eop.
  unfold w_drop. destruct (w_flush_quiet w2 wr (proj1 S2)) as [w3 [Efl [F3 S3]]]. rewrite Efl. cbn [fst snd].
  change (w_flush w3 {| wino := wino wr; wpend := []; wcap := wcap wr |})
    with (true, w3, {| wino := wino wr; wpend := []; wcap := wcap wr |}). cbn [fst snd].
  unfold cleanup_or_queue. cbn [ns_filter ns_writes_direct].
  set (new := snd (create_file (wfs w) (rname c (S (length closed))) 0%N (wnow w))) in *.
  set (f3 := append_ino (fst (create_file (wfs w) (rname c (S (length closed))) 0%N (wnow w))) (wino wr) (wpend wr)) in *.
  assert (F3' : wfs w3 = f3) by (rewrite F3, F2; reflexivity).
  set (wr' := {| wino := new; wpend := []; wcap := c_cap c |}).
  assert (SE : same_env w w3) by (eapply same_env_trans; eassumption).
  assert (I3 : NumDKInv c w3 wr' (closed ++ [cur_view w wr]) (d_lo k (length closed)) (d_mid k (length closed))).
  { constructor.
    - exact (proj1 S3).
    - rewrite F3'. exact W3.
    - rewrite F3', Elen. exact L3t.
    - rewrite F3'. cbn [wr' wino]. rewrite Inew. split; reflexivity.
    - rewrite Elen. lia.
    - rewrite F3'. exact KD3.
    - rewrite F3'. exact Hnc3.
    - unfold wr_ok, wr'. cbn. destruct (c_cap c); [lia | reflexivity].
    - reflexivity. }
  assert (Hside' : dside c k (length (closed ++ [cur_view w wr]))) by (rewrite Elen; exact Hside).
  destruct (cleanup_dk c crit k w3 wr' _ _ _ Hcfg Hside' I3) as (w4 & Ecl & S4 & I4 & V4).
  rewrite Elen in Ecl. rewrite Ecl. rewrite Elen, dnew_lo_step, dnew_mid_step in I4.
  exists w4, wr', (reset_size_and_date w3 roll (rname c (S (length closed)))).
  split. { replace (N.of_nat (S (length closed))) with (N.of_nat (length closed) + 1)%N by lia. reflexivity. }
  split; [exact I4|].
  split. { rewrite V4. unfold cur_view. rewrite F3'. cbn [wr' wino wpend]. unfold content. rewrite Inew. reflexivity. }
  split. { destruct roll; cbn; auto. }
  split; [eapply same_env_trans; eassumption|].
  split; [intros m cur ->; cbn; eauto|].
  assert (B : birth_or_now w3 (rname c (S (length closed))) = wnow w).
  { unfold birth_or_now, file_of. rewrite F3', L3t. fold new. rewrite Inew. reflexivity. }
  unfold reset_size_and_date. rewrite B. destruct roll; reflexivity.
Qed.

(* ---- appending to the current inode keeps the invariant ---- *)
Lemma numdkinv_append c w w' wr wr' closed lo mid x :
  NumDKInv c w wr closed lo mid -> wfs w' = append_ino (wfs w) (wino wr) x -> same_env w w' ->
  wino wr' = wino wr -> wcap wr' = wcap wr -> wr_ok wr' ->
  NumDKInv c w' wr' closed lo mid /\ content (wfs w') (wino wr') = content (wfs w) (wino wr) ++ x.
Proof.
  intros [Q W Hc Hcp Hmid KD Hnc Hwr Hcap] F SE Ei Ec Hok. destruct KD as [Hle Hnd Hp Ha Hon].
  rewrite len_snoc in Hle, Hp, Hon.
  pose proof (wf_bound _ W _ _ Hc) as Hold.
  assert (C' : content (wfs w') (wino wr') = content (wfs w) (wino wr) ++ x).
  { rewrite F, Ei, content_append, Nat.eqb_refl by assumption. reflexivity. }
  assert (Oth : forall n j, n <> rname c (length closed) -> lookup (wfs w) n = Some j -> inode (wfs w') j = inode (wfs w) j).
  { intros n j Hn Lj. rewrite F, inode_append by assumption. destruct (Nat.eqb_spec j (wino wr)) as [->|_]; [|reflexivity].
    exfalso. apply Hn. exact (wf_inj _ W _ _ _ Lj Hc). }
  split; [|exact C'].
  constructor.
  - exact (proj1 SE).
  - rewrite F. apply wf_append. exact W.
  - rewrite F, lookup_append, Ei. exact Hc.
  - rewrite F, Ei, inode_append, Nat.eqb_refl by assumption. exact Hcp.
  - exact Hmid.
  - rewrite C'. constructor.
    + rewrite len_snoc. exact Hle.
    + rewrite F. apply nd_append. exact Hnd.
    + rewrite len_snoc. intros i Hi. destruct (Nat.eq_dec i (length closed)) as [->|Hne].
      * exists (wino wr). rewrite F, lookup_append. split; [exact Hc|]. split.
        -- rewrite inode_append, Nat.eqb_refl by assumption. exact Hcp.
        -- rewrite content_append, Nat.eqb_refl by assumption. rewrite app_nth2, Nat.sub_diag by lia. reflexivity.
      * destruct (Hp i Hi) as (j & Lj & Pj & Cj). exists j. rewrite F, lookup_append. split; [exact Lj|].
        assert (Hn : rname c i <> rname c (length closed)) by (intros E; apply rname_inj in E; lia).
        unfold content. rewrite <- F, (Oth _ _ Hn Lj). split; [exact Pj|].
        rewrite app_nth1 by lia. rewrite app_nth1 in Cj by lia. exact Cj.
    + intros i Hi. destruct (Ha i Hi) as (j & Lj & Dj & R). exists j. rewrite F, lookup_append. split; [exact Lj|].
      rewrite <- F, (Oth _ _ (gname_ne_rname c i _) Lj). split; [|exact R].
      rewrite app_nth1 by lia. rewrite app_nth1 in Dj by lia. exact Dj.
    + rewrite len_snoc. intros n j. rewrite F, lookup_append. apply Hon.
  - rewrite F, lookup_append. exact Hnc.
  - exact Hok.
  - congruence.
Qed.

(* ---- a write on an active writer ---- *)
Lemma write_active_dk c crit k w wr closed roll b :
  numdkcfg c crit k -> NumDKInv c w wr closed (d_lo k (length closed)) (d_mid k (length closed)) ->
  roll_size_ok roll (length (cur_view w wr)) ->
  let rot := rotation_necessary w roll in
  (rot = true -> dside c k (S (length closed))) ->
  exists w' wr' roll' closed',
    write_buffer (st_ofdk c k (length closed) roll wr) w b = (Ok tt, w', st_ofdk c k (length closed') roll' wr', rot)
    /\ NumDKInv c w' wr' closed' (d_lo k (length closed')) (d_mid k (length closed'))
    /\ roll_size_ok roll' (length (cur_view w' wr')) /\ same_env w w'
    /\ (closed', cur_view w' wr') = (if rot then (closed ++ [cur_view w wr], b) else (closed, cur_view w wr ++ b))
    /\ (forall m cur, roll = RSize m cur -> exists cur', roll' = RSize m cur')
    /\ roll' = increase_size (if rot then roll_reset roll (wnow w) else roll) (N.of_nat (length b)).
Proof.
  intros Hcfg I Hsz rot Hside.
  unfold write_buffer, st_ofdk. cbn [f_cfg f_inner f_poisoned mk_rsk rs_roll]. fold rot.
  assert (M : exists w1 wr1 roll1 closed1,
            mount_next c w (Active (Some (mk_rsk k (NSNumD (N.of_nat (length closed))) roll)) wr (rname c (length closed))) false
            = (Ok tt, w1, Active (Some (mk_rsk k (NSNumD (N.of_nat (length closed1))) roll1)) wr1 (rname c (length closed1)))
            /\ NumDKInv c w1 wr1 closed1 (d_lo k (length closed1)) (d_mid k (length closed1))
            /\ roll_size_ok roll1 (length (cur_view w1 wr1)) /\ same_env w w1
            /\ (closed1, cur_view w1 wr1) = (if rot then (closed ++ [cur_view w wr], []) else (closed, cur_view w wr))
            /\ (forall m cur, roll = RSize m cur -> exists cur', roll1 = RSize m cur')
            /\ roll1 = (if rot then roll_reset roll (wnow w) else roll)).
  { destruct rot eqn:Er.
    - destruct (mount_next_rotates_dk c crit k w wr closed roll false Hcfg (Hside eq_refl) I) as [w1 [wr1 [roll1 [E [I1 [V1 [Z1 [S1 [R1 RR1]]]]]]]]]; [exact Er|].
      exists w1, wr1, roll1, (closed ++ [cur_view w wr]). rewrite V1.
      split; [exact E|]. split; [rewrite len_snoc; exact I1|]. split; [exact Z1|]. split; [exact S1|]. split; [reflexivity|]. split; [exact R1 | exact RR1].
    - exists w, wr, roll, closed. split.
      + unfold mount_next. cbn [mk_rsk rs_roll orb]. unfold rot in Er. rewrite Er. reflexivity.
      + split; [exact I|]. split; [exact Hsz|]. split; [apply same_env_refl; apply I|]. split; [reflexivity|]. split; [eauto | reflexivity]. }
  destruct M as [w1 [wr1 [roll1 [closed1 [E [I1 [Z1 [S1 [V1 [R1 RR1]]]]]]]]]].
  rewrite E.
  destruct (w_write_quiet w1 wr1 b (dk_quiet _ _ _ _ _ _ I1) (dk_wr _ _ _ _ _ _ I1)) as [w2 [wr2 [fl [Ew [S2 [F2 [Ei [Ec [Ep Hok]]]]]]]]].
  rewrite Ew.
  destruct (numdkinv_append c w1 w2 wr1 wr2 closed1 _ _ fl I1 F2 S2 Ei Ec Hok) as [I2 C2].
  exists w2, wr2, (increase_size roll1 (N.of_nat (length b))), closed1.
  assert (V2 : cur_view w2 wr2 = cur_view w1 wr1 ++ b).
  { unfold cur_view. rewrite C2, <- !app_assoc, Ep. reflexivity. }
  split; [reflexivity|]. split; [exact I2|].
  split. { rewrite V2, app_length. apply roll_size_increase. exact Z1. }
  split; [eapply same_env_trans; eassumption|].
  split. { rewrite V2. destruct rot; injection V1 as -> ->; reflexivity. }
  split; [intros m cur Hr; destruct (R1 m cur Hr) as [cur' ->]; cbn; eauto|].
  rewrite RR1. reflexivity.
Qed.

(* ---- flush ---- *)
Lemma flush_active_dk c k w wr closed lo mid roll :
  NumDKInv c w wr closed lo mid ->
  exists w' wr', flush_state (st_ofdk c k (length closed) roll wr) w = (true, w', st_ofdk c k (length closed) roll wr')
    /\ NumDKInv c w' wr' closed lo mid /\ cur_view w' wr' = cur_view w wr /\ wpend wr' = [] /\ same_env w w'.
Proof.
  intros I. unfold flush_state, st_ofdk. cbn [f_inner].
  destruct (w_flush_quiet w wr (dk_quiet _ _ _ _ _ _ I)) as [w1 [E [F S]]]. rewrite E.
  set (wr' := {| wino := wino wr; wpend := []; wcap := wcap wr |}).
  assert (Hok : wr_ok wr') by (unfold wr_ok, wr'; cbn; destruct (wcap wr); [lia | reflexivity]).
  destruct (numdkinv_append c w w1 wr wr' closed lo mid (wpend wr) I F S eq_refl eq_refl Hok) as [I1 C1].
  exists w1, wr'. split; [reflexivity|]. split; [exact I1|]. split; [|split; [reflexivity | exact S]].
  unfold cur_view. rewrite C1. cbn [wr' wpend]. rewrite app_nil_r. reflexivity.
Qed.

(* ---- the first write initialises the writer on the empty directory; the initial cleanup finds only r00000 ---- *)
Lemma initialize_empty_dk c crit k w :
  numdkcfg c crit k -> dside c k 0 -> quiet w -> names (wfs w) = [] -> inodes (wfs w) = [] ->
  exists w' wr roll,
    initialize c w = (Ok (Active (Some (mk_rsk k (NSNumD 0) roll)) wr (rname c 0)), w')
    /\ NumDKInv c w' wr [] 0 0 /\ cur_view w' wr = [] /\ roll_size_ok roll 0 /\ same_env w w'
    /\ (forall m, crit = CSize m -> roll = RSize m 0)
    /\ roll = roll_init crit (wnow w).
Proof.
  intros Hcfg Hside Q Hn Hi. pose proof Hcfg as (Hrot & Hts & Hlink & Has & Hbg).
  unfold initialize. rewrite Hrot. unfold init_naming, with_listing.
  rewrite tick_quiet by assumption.
  unfold get_highest_index, list_log_gz. rewrite existing_rot_empty by assumption. cbn [filter_map_opt max_opt bind].
  unfold open_log_file. rewrite (name_of_fixed c w) by assumption. fold (nm c (number_infix 0)).
  change (nm c (number_infix 0)) with (rname c 0).
  destruct (open_fresh_quiet c w (rname c 0) Q Hlink (lookup_empty _ _ Hn)) as [w2 [Eop [F2 S2]]]. rewrite Eop. cbn [bind fst snd].
  destruct (numdinv_first c w2 (wfs w) (wnow w) (proj1 S2) Hn Hi F2) as [ID [V2 Fo]].
  unfold create_file. cbn [snd]. rewrite Hi. cbn [length].
  set (wr := {| wino := 0; wpend := []; wcap := c_cap c |}) in *.
  assert (RN : exists roll, roll_new w2 crit (c_append c) (rname c 0) = (Ok roll, w2) /\ roll_size_ok roll 0
               /\ (forall m, crit = CSize m -> roll = RSize m 0) /\ roll = roll_init crit (wnow w)).
  { assert (B : birth_or_now w2 (rname c 0) = wnow w) by (unfold birth_or_now; rewrite Fo; reflexivity).
    unfold roll_new. destruct (c_append c).
    - rewrite tick_quiet by apply S2. rewrite Fo. cbn [fresh_file fdata length]. rewrite B.
      eexists. split; [reflexivity|]. split; [destruct crit; reflexivity|]. split; [intros m ->; reflexivity | destruct crit; reflexivity].
    - rewrite B. eexists. split; [reflexivity|]. split; [destruct crit; reflexivity|]. split; [intros m ->; reflexivity | destruct crit; reflexivity]. }
  destruct RN as [roll [Ern [Z [R RI]]]]. rewrite Ern. cbn [bind].
  pose proof ID as [_ WD HcD HcpD _ HonD HwrD _]. cbn [length] in HcD, HonD.
  assert (C0 : content (wfs w2) (wino wr) = []).
  { unfold cur_view in V2. cbn [wr wpend] in V2. rewrite app_nil_r in V2. exact V2. }
  assert (F2' : wfs w2 = {| names := [(rname c 0, 0)]; inodes := [fresh_file (wnow w)] |}).
  { rewrite F2. unfold create_file. cbn [fst]. rewrite Hn, Hi. reflexivity. }
  assert (I2 : NumDKInv c w2 wr [] 0 0).
  { constructor; cbn [length]; auto.
    - apply S2.
    - rewrite C0. constructor.
      + cbn [length app]. lia.
      + rewrite F2'. unfold nodup_names, dir_names. cbn [names map fst]. constructor; [intros [] | constructor].
      + cbn [length app]. intros i Hi'. assert (i = 0) by lia. subst i. exists 0. split; [exact HcD|].
        split; [exact HcpD|]. exact C0.
      + intros i Hi'. lia.
      + intros n j Lj. destruct (HonD _ _ Lj) as (i & Hi' & ->). right. left. exists i. cbn [length app]. split; [lia | reflexivity].
    - destruct (lookup (wfs w2) (cname c)) as [j|] eqn:E; [|reflexivity].
      destruct (HonD _ _ E) as (i & _ & X). symmetry in X. exfalso. exact (rname_not_cname _ _ X). }
  (* the initial cleanup *)
  assert (Ecl : forall d, match k with KNever => (Ok tt, w2) | _ => cleanup_impl c w2 k (ns_filter (NSNumD 0)) (if naming_writes_direct NNumbersDirect then Some d else None) end
                = cleanup_impl c w2 k IFNum (Some d)) by (intros d; destruct k; reflexivity).
  rewrite Ecl. clear Ecl.
  destruct (cleanup_dk c crit k w2 wr [] 0 0 Hcfg Hside I2) as (w4 & E4 & S4 & I4 & V4). cbn [length] in E4.
  rewrite E4. cbn [bind].
  assert (Ebg : match k with KNever => false | _ => c_bg c end = false) by (destruct k; auto).
  rewrite Ebg.
  assert (Z0 : dnew_lo k 0 (length (@nil bytes)) = 0 /\ dnew_mid k 0 (length (@nil bytes)) = 0).
  { unfold dnew_lo, dnew_mid. destruct (klimd k) as [[n m]|] eqn:Ek; cbn [length]; [|split; reflexivity].
    apply klimd_pos in Ek. split; lia. }
  destruct Z0 as [Z1 Z2]. rewrite Z1, Z2 in I4.
  exists w4, wr, roll. split; [reflexivity|]. split; [exact I4|].
  split; [rewrite V4; exact V2|].
  split; [exact Z|]. split; [eapply same_env_trans; eassumption|]. split; [exact R | exact RI].
Qed.

(* ------------------------------------------------------------------ the run *)
Definition RelDK (c : config) (crit : criterion) (k : cleanup) (x : sys) (a : aview) : Prop :=
  s_tl x = [] /\ wacts (s_w x) = 0 /\
  match a with
  | None => s_flw x = Some (new_flw c) /\ quiet (s_w x) /\ names (wfs (s_w x)) = [] /\ inodes (wfs (s_w x)) = []
  | Some (closed, cur) =>
    exists wr roll, s_flw x = Some (st_ofdk c k (length closed) roll wr)
      /\ NumDKInv c (s_w x) wr closed (d_lo k (length closed)) (d_mid k (length closed))
      /\ cur_view (s_w x) wr = cur /\ roll_size_ok roll (length cur)
      /\ (forall m, crit = CSize m -> exists z, roll = RSize m z)
  end.

Lemma write_buffer_rotflag_d c k L roll wr w b :
  snd (write_buffer (st_ofdk c k L roll wr) w b) = rotation_necessary w roll.
Proof.
  unfold write_buffer, st_ofdk. cbn [f_cfg f_inner mk_rsk rs_roll].
  destruct (mount_next c w (Active (Some (mk_rsk k (NSNumD (N.of_nat L)) roll)) wr (rname c L)) false) as [[r1 w1] st1].
  destruct r1; try reflexivity; destruct st1 as [|o_rot wr1 p1]; try reflexivity;
    destruct (w_write _ wr1 b) as [[ok w3] wr3]; destruct ok; reflexivity.
Qed.

Lemma write_rel_dk c crit k x a b :
  numdkcfg c crit k -> RelDK c crit k x a ->
  exists s, s_flw x = Some s /\ f_poisoned s = false /\
    let '(r, w', s', rot) := write_buffer s (s_w x) b in
    dside c k (nclosed (a_step a (OWrite b) rot)) ->
    r = Ok tt
    /\ RelDK c crit k {| s_flw := Some s'; s_w := w'; s_tl := []; s_dead := s_dead x |} (a_step a (OWrite b) rot)
    /\ (forall m, crit = CSize m ->
          rot = (m <? N.of_nat (length (match a with Some (_, cu) => cu | None => [] end)))%N)
    /\ (rot = flag_of crit (s_w x) (roll_of_sys x) (OWrite b)
        /\ roll_of_flw s' = ro_step crit (wnow (s_w x)) (roll_of_sys x) (OWrite b) rot
        /\ wnow w' = wnow (s_w x) /\ woff w' = woff (s_w x)).
Proof.
  intros Hcfg [Ht [Ha R]]. destruct a as [[closed cur]|].
  - destruct R as [wr [roll [Es [I [V [Z RS]]]]]].
    rewrite <- V in Z.
    exists (st_ofdk c k (length closed) roll wr). split; [exact Es|]. split; [reflexivity|].
    pose proof (write_buffer_rotflag_d c k (length closed) roll wr (s_w x) b) as RF.
    destruct (write_buffer (st_ofdk c k (length closed) roll wr) (s_w x) b) as [[[r w'] s'] rot] eqn:E. cbn [snd] in RF. subst rot.
    intros Hside.
    assert (Hs : rotation_necessary (s_w x) roll = true -> dside c k (S (length closed))).
    { intros Er. rewrite Er in Hside. cbn [a_step nclosed] in Hside. rewrite len_snoc in Hside. exact Hside. }
    destruct (write_active_dk c crit k (s_w x) wr closed roll b Hcfg I Z Hs) as [w1 [wr' [roll' [closed' [E' [I' [Z' [S' [V' [R' RR']]]]]]]]]].
    rewrite E in E'. injection E' as -> -> ->. split; [reflexivity|]. split; [|split].
    + split; [reflexivity|]. split; [cbn [s_w]; exact (same_env_acts _ _ S' Ha)|].
      cbn [a_step]. rewrite V in V'.
      destruct (rotation_necessary (s_w x) roll); injection V' as <- V''; (exists wr', roll'; cbn [s_flw s_w];
        split; [reflexivity|]; split; [exact I'|]; split; [exact V''|]; split; [rewrite <- V''; exact Z'|];
        intros m Hm; destruct (RS m Hm) as [z ->]; destruct (R' m z eq_refl) as [z' ->]; eauto).
    + intros m Hm. destruct (RS m Hm) as [z ->]. cbn in Z. subst z. rewrite V. reflexivity.
    + unfold roll_of_sys. rewrite Es. cbn [roll_of_flw st_ofdk f_inner mk_rsk rs_roll flag_of is_write ro_step].
      split; [reflexivity|]. split; [rewrite RR'; reflexivity|]. apply same_env_clock. exact S'.
  - destruct R as [Es [Q [Hn Hi]]].
    exists (new_flw c). split; [exact Es|]. split; [reflexivity|].
    destruct (write_buffer (new_flw c) (s_w x) b) as [[[r w'] s'] rot] eqn:E. intros Hside.
    assert (Hs0 : dside c k 0) by (eapply dside_le; [|exact Hside]; lia).
    destruct (initialize_empty_dk c crit k (s_w x) Hcfg Hs0 Q Hn Hi) as [w1 [wr [roll [Ei [I [V [Z [S1 [RS RI]]]]]]]]].
    rewrite (write_buffer_init c (s_w x) b _ _ _ w1 Ei) in E.
    change {| f_cfg := c; f_inner := Active (Some (mk_rsk k (NSNumD 0) roll)) wr (rname c 0); f_poisoned := false |}
      with (st_ofdk c k (length (@nil bytes)) roll wr) in E.
    pose proof (write_buffer_rotflag_d c k (length (@nil bytes)) roll wr w1 b) as RF. rewrite E in RF. cbn [snd] in RF. subst rot.
    assert (Z0 : roll_size_ok roll (length (cur_view w1 wr))) by (rewrite V; exact Z).
    assert (Hs : rotation_necessary w1 roll = true -> dside c k (S (length (@nil bytes)))).
    { intros Er. rewrite Er in Hside. cbn [a_step nclosed app length] in Hside. exact Hside. }
    assert (I0 : NumDKInv c w1 wr [] (d_lo k (length (@nil bytes))) (d_mid k (length (@nil bytes))))
      by (cbn [length]; rewrite d_lo_0, d_mid_0; exact I).
    destruct (write_active_dk c crit k w1 wr [] roll b Hcfg I0 Z0 Hs) as [w2 [wr' [roll' [closed' [E' [I' [Z' [S' [V' [R' RR']]]]]]]]]].
    rewrite E in E'. injection E' as -> -> ->. split; [reflexivity|]. split; [|split].
    + split; [reflexivity|]. split; [cbn [s_w]; exact (same_env_acts _ _ (same_env_trans _ _ _ S1 S') Ha)|].
      cbn [a_step]. rewrite V in V'. cbn [app] in V'.
      destruct (rotation_necessary w1 roll); injection V' as <- V''; (exists wr', roll'; cbn [s_flw s_w];
        split; [reflexivity|]; split; [exact I'|]; split; [exact V''|]; split; [rewrite <- V''; exact Z'|]).
      * intros m Hm. rewrite (RS m Hm) in R'. destruct (R' m 0%N eq_refl) as [z' ->]; eauto.
      * intros m Hm. rewrite (RS m Hm) in R'. destruct (R' m 0%N eq_refl) as [z' ->]; eauto.
    + intros m Hm. rewrite (RS m Hm). reflexivity.
    + destruct (same_env_clock _ _ S1) as [C1 C2]. destruct (same_env_clock _ _ S') as [C3 C4].
      unfold roll_of_sys. rewrite Es. cbn [roll_of_flw new_flw st_ofdk f_inner mk_rsk rs_roll flag_of is_write ro_step].
      rewrite <- RI. split; [apply rotation_necessary_env; assumption|]. split; [rewrite RR', C1; reflexivity|].
      split; congruence.
Qed.

Lemma numdkinv_env c w w' wr closed lo mid : NumDKInv c w wr closed lo mid -> wfs w' = wfs w -> quiet w' -> NumDKInv c w' wr closed lo mid.
Proof. intros [Q W Hc Hcp Hmid KD Hnc Hwr Hcap] F Q'. constructor; try rewrite F; assumption. Qed.

Lemma step_sync_rel_dk c crit k x a o : numdkcfg c crit k -> RelDK c crit k x a -> step x o = sync_step x o.
Proof.
  intros (_ & Hts & _ & Ha & _) [_ [_ R]].
  assert (E : exists s, s_flw x = Some s /\ f_cfg s = c).
  { destruct a as [[closed cur]|]; [destruct R as [wr [roll [Es _]]] | destruct R as [Es _]]; rewrite Es; eexists; split; reflexivity. }
  destruct E as [s [Es Ec]].
  rewrite step_plain by (intros s' Es'; rewrite Es in Es'; injection Es' as <-; rewrite Ec; exact Hts).
  unfold step_core. rewrite Es. unfold is_async. rewrite Ec, Ha. reflexivity.
Qed.

(* one basic operation: the relation is kept, the operation succeeds (no error, no panic); the rotation flag, the next
   rotation state and the clock are functions of the clock and the rotation state before *)
Lemma step_rel_dk c crit k x a o :
  numdkcfg c crit k -> RelDK c crit k x a -> basic_op o ->
  let '(x', ob) := step x o in
  dside c k (nclosed (a_step a o (rot_of ob))) ->
  RelDK c crit k x' (a_step a o (rot_of ob))
  /\ (forall b m, (o = OWrite b \/ o = OPlain b) -> crit = CSize m ->
        ob = ObsRes 0 (m <? N.of_nat (length (match a with Some (_, cu) => cu | None => [] end)))%N)
  /\ trace_ok crit x x' o ob
  /\ obs_ok ob.
Proof.
  intros Hcfg R Hb. rewrite (step_sync_rel_dk c crit k x a o Hcfg R). unfold trace_ok.
  destruct o; try contradiction; cbn [sync_step].
  - (* OWrite *)
    destruct (write_rel_dk c crit k x a b Hcfg R) as [s [Es [Hp WR]]].
    rewrite Es, Hp. rewrite (proj1 R). cbn [app].
    destruct (write_buffer s (s_w x) b) as [[[r w'] s'] rot]. cbn [rot_of]. intros Hside.
    destruct (WR Hside) as (-> & R' & C & T). split; [exact R'|]. split; [|split; [|reflexivity]].
    + intros b0 m _ Hm. rewrite (C m Hm). reflexivity.
    + cbn [s_w clock_step]. exact T.
  - (* OPlain *)
    destruct (write_rel_dk c crit k x a b Hcfg R) as [s [Es [Hp WR]]].
    rewrite Es, Hp.
    destruct (write_buffer s (s_w x) b) as [[[r w'] s'] rot]. cbn [rot_of]. intros Hside.
    destruct (WR Hside) as (-> & R' & C & T). cbn [code_of]. rewrite (proj1 R). split; [exact R'|]. split; [|split; [|reflexivity]].
    + intros b0 m _ Hm. rewrite (C m Hm). reflexivity.
    + cbn [s_w clock_step]. exact T.
  - (* OFlush *)
    destruct R as [Ht [Ha R]]. destruct a as [[closed cur]|].
    + destruct R as [wr [roll [Es [I [V [Z RS]]]]]]. unfold roll_of_sys. rewrite Es. cbn [st_ofdk f_poisoned].
      destruct (flush_active_dk c k (s_w x) wr closed _ _ roll I) as [w' [wr' [E [I' [V' [P' S']]]]]].
      fold (st_ofdk c k (length closed) roll wr). rewrite E. cbn [rot_of a_step]. intros _.
      split; [|split; [intros b m [H|H]; discriminate|split; [|reflexivity]]].
      * split; [exact Ht|]. split; [exact (same_env_acts _ _ S' Ha)|]. exists wr', roll. cbn [s_flw s_w].
        split; [reflexivity|]. split; [exact I'|]. split; [congruence|]. split; assumption.
      * cbn [s_flw s_w]. split; [reflexivity|]. split; [reflexivity|]. apply same_env_clock. exact S'.
    + destruct R as [Es R]. unfold roll_of_sys. rewrite Es. cbn [new_flw f_poisoned flush_state f_inner rot_of a_step]. intros _.
      split; [|split; [intros b m [H|H]; discriminate|split; [|reflexivity]]].
      * split; [exact Ht|]. split; [exact Ha|]. split; [reflexivity | exact R].
      * cbn [s_flw s_w]. repeat split.
  - (* OTrigger *)
    destruct R as [Ht [Ha R]]. destruct a as [[closed cur]|].
    + destruct R as [wr [roll [Es [I [V [Z RS]]]]]]. unfold roll_of_sys. rewrite Es. cbn [st_ofdk f_poisoned f_cfg f_inner].
      destruct (mount_next c (s_w x) (Active (Some (mk_rsk k (NSNumD (N.of_nat (length closed))) roll)) wr (rname c (length closed))) true)
        as [[r1 w1] st1] eqn:EM. cbn [rot_of a_step]. intros Hside.
      assert (Hs : dside c k (S (length closed))).
      { cbn [nclosed] in Hside. rewrite len_snoc in Hside. exact Hside. }
      destruct (mount_next_rotates_dk c crit k (s_w x) wr closed roll true Hcfg Hs I eq_refl) as [w' [wr' [roll' [E [I' [V' [Z' [S' [R' RR']]]]]]]]].
      rewrite EM in E. injection E as -> -> ->. cbn [code_of with_inner f_cfg f_poisoned].
      split; [|split; [intros b m [H|H]; discriminate|split; [|reflexivity]]].
      * split; [exact Ht|]. split; [exact (same_env_acts _ _ S' Ha)|]. rewrite V in *. exists wr', roll'. cbn [s_flw s_w].
        split; [reflexivity|]. split; [rewrite len_snoc; exact I'|]. split; [exact V'|]. split; [exact Z'|].
        intros m Hm. destruct (RS m Hm) as [z ->]. destruct (R' m z eq_refl) as [z' ->]. eauto.
      * cbn [s_flw s_w roll_of_flw f_inner mk_rsk rs_roll flag_of is_write ro_step clock_step].
        split; [reflexivity|]. split; [rewrite RR'; reflexivity|]. apply same_env_clock. exact S'.
    + destruct R as [Es R]. unfold roll_of_sys. rewrite Es.
      cbn [new_flw f_poisoned f_cfg f_inner mount_next with_inner rot_of a_step code_of]. intros _.
      split; [|split; [intros b m [H|H]; discriminate|split; [|reflexivity]]].
      * split; [exact Ht|]. split; [exact Ha|]. split; [reflexivity | exact R].
      * cbn [s_flw s_w]. repeat split.
  - (* OTick *)
    cbn [rot_of a_step]. intros _. split; [|split; [intros b m [H|H]; discriminate|split; [|reflexivity]]].
    + destruct R as [Ht [Ha R]]. split; [exact Ht|]. split; [exact Ha|]. destruct a as [[closed cur]|].
      * destruct R as [wr [roll [Es [I [V [Z RS]]]]]]. exists wr, roll. cbn [s_flw s_w].
        split; [exact Es|]. split; [apply (numdkinv_env c (s_w x)); [exact I | reflexivity | apply I]|].
        split; [exact V|]. split; assumption.
      * cbn [s_flw s_w]. exact R.
    + unfold roll_of_sys. cbn [s_flw s_w set_now wnow woff]. repeat split.
  - (* OSnap *)
    cbn [rot_of a_step]. intros _. split; [exact R|]. split; [intros b m [H|H]; discriminate|]. split; [repeat split | exact Logic.I].
Qed.

Lemma run_rel_dk c crit k : numdkcfg c crit k -> forall ops x a, RelDK c crit k x a -> Forall basic_op ops ->
  dside c k (nclosed (a_run a ops (snd (run x ops)))) ->
  RelDK c crit k (fst (run x ops)) (a_run a ops (snd (run x ops))) /\ Forall obs_ok (snd (run x ops)).
Proof.
  intros Hcfg. induction ops as [|o r IH]; intros x a R Hb Hside; [split; [exact R | constructor]|].
  cbn [run] in *. inversion Hb as [|o' r' Ho Hr]; subst.
  pose proof (step_rel_dk c crit k x a o Hcfg R Ho) as S. destruct (step x o) as [x1 ob].
  specialize (IH x1 (a_step a o (rot_of ob))). destruct (run x1 r) as [x2 obs]. cbn [fst snd a_run] in *.
  destruct S as (R1 & _ & _ & K1); [eapply dside_le; [apply nclosed_run | exact Hside]|].
  destruct (IH R1 Hr Hside) as [R2 K2]. split; [exact R2 | constructor; assumption].
Qed.

(* with a size criterion the abstract run is a function of the operations alone *)
Lemma run_size_dk c k m : numdkcfg c (CSize m) k -> forall ops x a, RelDK c (CSize m) k x a -> Forall basic_op ops ->
  dside c k (nclosed (a_run a ops (snd (run x ops)))) ->
  a_run a ops (snd (run x ops)) = s_run m a ops.
Proof.
  intros Hcfg. induction ops as [|o r IH]; intros x a R Hb Hside; [reflexivity|].
  cbn [run] in *. inversion Hb as [|o' r' Ho Hr]; subst.
  pose proof (step_rel_dk c (CSize m) k x a o Hcfg R Ho) as S. destruct (step x o) as [x1 ob].
  specialize (IH x1 (a_step a o (rot_of ob))). destruct (run x1 r) as [x2 obs]. cbn [fst snd a_run s_run] in *.
  destruct S as [R1 [C1 _]]; [eapply dside_le; [apply nclosed_run | exact Hside]|].
  assert (Erot : a_step a o (rot_of ob) = a_step a o (m <? N.of_nat (length (cur_of a)))%N).
  { destruct o; try reflexivity.
    - rewrite (C1 b m (or_introl eq_refl) eq_refl). reflexivity.
    - rewrite (C1 b m (or_intror eq_refl) eq_refl). reflexivity. }
  rewrite <- Erot. apply IH; assumption.
Qed.

(* ------------------------------------------------------------------ stop: what is left in the directory *)
(* the numbered files r<lo> .. r<L> with the contents closed ++ [cur]: archives below mid, plain from mid on (the last
   one, r<L>, is the file that was being written), no rCURRENT, nothing else *)
Definition dkreader_view (c : config) (f : fs) (closed : list bytes) (cur : bytes) (lo mid : nat) : Prop :=
  kdir c f (closed ++ [cur]) lo mid /\ mid <= length closed /\ lookup f (cname c) = None.

Lemma shutdown_active_dk c k w wr closed lo mid roll : NumDKInv c w wr closed lo mid -> wacts w = 0 ->
  exists w' wr', shutdown_state (st_ofdk c k (length closed) roll wr) w = (w', st_ofdk c k (length closed) roll wr')
    /\ NumDKInv c w' wr' closed lo mid /\ cur_view w' wr' = cur_view w wr /\ wpend wr' = [] /\ wacts w' = 0.
Proof.
  intros I Ha. unfold shutdown_state, st_ofdk, drain_acts. cbn [f_inner f_cfg mk_rsk rs_cleanup rs_naming rs_roll].
  destruct (w_flush_quiet w wr (dk_quiet _ _ _ _ _ _ I)) as [w1 [E [F S]]]. rewrite E.
  set (wr' := {| wino := wino wr; wpend := []; wcap := wcap wr |}).
  assert (Hok : wr_ok wr') by (unfold wr_ok, wr'; cbn; destruct (wcap wr); [lia | reflexivity]).
  destruct (numdkinv_append c w w1 wr wr' closed lo mid (wpend wr) I F S eq_refl eq_refl Hok) as [I1 C1].
  exists w1, wr'. split; [reflexivity|]. split; [exact I1|]. split; [|split; [reflexivity | exact (same_env_acts _ _ S Ha)]].
  unfold cur_view. rewrite C1. cbn [wr' wpend]. rewrite app_nil_r. reflexivity.
Qed.

Lemma stop_rel_dk c crit k x a : numdkcfg c crit k -> RelDK c crit k x a ->
  let '(x', ob) := step x OStop in
  ob = ObsRes 0%N false /\
  match a with
  | None => names (wfs (s_w x')) = []
  | Some (closed, cur) => dkreader_view c (wfs (s_w x')) closed cur (d_lo k (length closed)) (d_mid k (length closed))
  end.
Proof.
  intros Hcfg R0. rewrite (step_sync_rel_dk c crit k x a OStop Hcfg R0). destruct R0 as [Ht [Ha R]]. cbn [sync_step]. destruct a as [[closed cur]|].
  - destruct R as [wr [roll [Es [I [V [Z RS]]]]]]. rewrite Es. cbn [st_ofdk f_poisoned]. split; [reflexivity|]. unfold drop_state.
    destruct (shutdown_active_dk c k (s_w x) wr closed _ _ roll I Ha) as [w1 [wr1 [E1 [I1 [V1 [P1 A1]]]]]]. fold (st_ofdk c k (length closed) roll wr). rewrite E1.
    destruct (shutdown_active_dk c k w1 wr1 closed _ _ roll I1 A1) as [w2 [wr2 [E2 [I2 [V2 [P2 A2]]]]]]. rewrite E2.
    cbn [st_ofdk f_inner s_w]. unfold w_drop.
    destruct (w_flush_quiet w2 wr2 (dk_quiet _ _ _ _ _ _ I2)) as [w3 [E3 [F3 S3]]]. rewrite E3. cbn [fst snd].
    rewrite P2, append_ino_nil_id in F3. rewrite F3.
    destruct I2 as [Q W Hc Hcp Hmid KD Hnc Hwr Hcap].
    assert (Ec : content (wfs w2) (wino wr2) = cur).
    { unfold cur_view in *. rewrite P2, app_nil_r in V2. congruence. }
    rewrite Ec in KD. split; [exact KD|]. split; [exact Hmid | exact Hnc].
  - destruct R as [Es [Q [Hn Hi]]]. rewrite Es. cbn [new_flw f_poisoned drop_state shutdown_state f_inner s_w]. split; [reflexivity | exact Hn].
Qed.

Lemma start_rel_dk c crit k t0 off : RelDK c crit k (fst (step (sys0 t0 off) (OStart c))) None.
Proof. cbn. repeat split. Qed.

(* ------------------------------------------------------------------ THE THEOREM (stream form) *)
(* a is the reader's view that the run WOULD leave without cleanup (closed files in order, the file being written): its
   concatenation is what was written.  The directory left behind holds the file being written, the newest n - 1 closed
   files as they are and the next m as archives - and nothing else; and no operation fails or panics. *)
Theorem numbersdirect_cleanup_stream c crit k t0 off ops :
  numdkcfg c crit k -> Forall basic_op ops ->
  let x0 := fst (step (sys0 t0 off) (OStart c)) in
  let a := a_run None ops (snd (run x0 ops)) in
  dside c k (nclosed a) ->
  let r := run (sys0 t0 off) (OStart c :: ops ++ [OStop]) in
  let f := wfs (s_w (fst r)) in
  flat a = written ops
  /\ match a with
     | None => names f = []
     | Some (closed, cur) => dkreader_view c f closed cur (d_lo k (length closed)) (d_mid k (length closed))
     end
  /\ Forall obs_ok (snd r).
Proof.
  intros Hcfg Hb x0 a Hside r f. unfold f, r. clear f r. cbn [run]. fold x0.
  destruct (step (sys0 t0 off) (OStart c)) as [x0' ob0] eqn:E0. cbn [fst] in x0. subst x0.
  pose proof (start_rel_dk c crit k t0 off) as R0. rewrite E0 in R0. cbn [fst] in R0.
  assert (K0 : obs_ok ob0) by (cbn in E0; injection E0 as _ <-; reflexivity).
  rewrite run_app. pose proof (run_rel_dk c crit k Hcfg ops x0' None R0 Hb Hside) as [R1 K1]. pose proof (run_length ops x0') as Len.
  fold a in R1. unfold a in *. clear a.
  destruct (run x0' ops) as [x1 obs1]. cbn [fst snd] in *.
  pose proof (stop_rel_dk c crit k x1 _ Hcfg R1) as S. cbn [run]. destruct (step x1 OStop) as [x2 ob2]. cbn [fst snd].
  destruct S as [-> S].
  split; [|split; [exact S|]].
  - rewrite (a_run_flat ops None obs1 Hb Len). reflexivity.
  - constructor; [exact K0|]. apply Forall_app. split; [exact K1|]. repeat constructor.
Qed.
Print Assumptions numbersdirect_cleanup_stream.
