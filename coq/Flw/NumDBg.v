(* NumbersDirect naming with a cleanup strategy, cleanup in a background thread (c_bg c = true): port of part 3 of
   BgSim.v (which does this for Numbers naming; bg_sim_whole is generic).

   SCHEDULING ASSUMPTION (Model.cleanup_or_queue, BgSim.v): the cleanup thread finishes each request before the logging
   thread starts its next operation.  CAUTION for a direct naming: the listing that the cleanup works on contains the file
   that is BEING WRITTEN (r<L>, position 0 of the listing).  Under the scheduling assumption the request is worked off
   between two operations of the logging thread, i.e. in exactly the world in which the synchronous variant works it off
   (same directory, same pending bytes of the writer): the current file is in the "keep as it is" part (first limit at
   least 1, klimd) and is not touched.  Nothing is said about a cleanup that runs WHILE the logging thread writes to r<L>
   (the model has no such interleaving); see exdb_side_by_side for the check by computation.

   The runs of numbersdirect_cleanup_stream report nothing (numdk_run_clean), so bg_sim_whole applies:
   numbersdirect_cleanup_stream_bg, numbersdirect_cleanup_bg, numbersdirect_cleanup_partition_bg,
   numbersdirect_cleanup_no_panic_bg. *)
Require Import FL.Base.Bytes FL.Base.BytesFacts FL.Base.PathName FL.Fs.Fs FL.Fs.FsFacts FL.Time.Civil FL.Time.TsFormat
  FL.Names.FileSpec FL.Names.NamesFacts FL.Flw.Model FL.Flw.ModelFacts FL.Flw.NumFs FL.Flw.NumInv FL.Flw.Run FL.Flw.RunFacts
  FL.Flw.NumRun FL.Oracles.O_Flw FL.Flw.NumTheorems FL.Flw.NumListing FL.Flw.NumRestart FL.Flw.NumKillRestart
  FL.Flw.NumDInv FL.Flw.NumDRun FL.Flw.NumDTheorems
  FL.Flw.CleanupFacts FL.Flw.NumCleanupNames FL.Flw.NumCleanupStep FL.Flw.NumCleanupRun FL.Flw.NumCleanup
  FL.Flw.NumDCleanupStep FL.Flw.NumDCleanupRun FL.Flw.NumDCleanup
  FL.Flw.NoPanic FL.Flw.AsyncSim FL.Flw.WorldPar FL.Flw.LinkSim FL.Flw.BgSim.
From Coq Require Import ZifyN ZifyNat ZifyBool.
Open Scope nat_scope.

(* ------------------------------------------------------------------ the runs of numbersdirect_cleanup_stream report nothing *)
Lemma numdk_step_clean c crit k x a o : numdkcfg c crit k -> RelDK c crit k x a -> basic_op o ->
  dside c k (nclosed (a_step a o (rot_of (snd (step x o))))) ->
  obs_ok (snd (step x o)) /\ werrs (s_w (fst (step x o))) = werrs (s_w x).
Proof.
  intros Hcfg R Hb Hside. split.
  { pose proof (step_rel_dk c crit k x a o Hcfg R Hb) as S. destruct (step x o) as [x1 ob]. cbn [fst snd] in *.
    destruct (S Hside) as (_ & _ & _ & K). exact K. }
  revert Hside.
  rewrite (step_sync_rel_dk c crit k x a o Hcfg R). destruct R as [Ht [Ha R]].
  assert (WB : forall b, exists s, s_flw x = Some s /\ f_poisoned s = false /\
            let '(r, w', s', rot) := write_buffer s (s_w x) b in
            dside c k (nclosed (a_step a (OWrite b) rot)) -> r = Ok tt /\ werrs w' = werrs (s_w x)).
  { intros b. destruct a as [[closed cur]|].
    - destruct R as [wr [roll [Es [I [V [Z RS]]]]]]. rewrite <- V in Z.
      exists (st_ofdk c k (length closed) roll wr). split; [exact Es|]. split; [reflexivity|].
      pose proof (write_buffer_rotflag_d c k (length closed) roll wr (s_w x) b) as RF.
      destruct (write_buffer (st_ofdk c k (length closed) roll wr) (s_w x) b) as [[[r w'] s'] rot] eqn:E. cbn [snd] in RF. subst rot.
      intros Hside.
      assert (Hs : rotation_necessary (s_w x) roll = true -> dside c k (S (length closed))).
      { intros Er. rewrite Er in Hside. cbn [a_step nclosed] in Hside. rewrite len_snoc in Hside. exact Hside. }
      destruct (write_active_dk c crit k (s_w x) wr closed roll b Hcfg I Z Hs) as [w1 [wr' [roll' [closed' [E' [_ [_ [S' _]]]]]]]].
      rewrite E in E'. injection E' as -> -> _. split; [reflexivity | exact (same_env_errs _ _ S')].
    - destruct R as [Es [Q [Hn Hi]]].
      exists (new_flw c). split; [exact Es|]. split; [reflexivity|].
      destruct (write_buffer (new_flw c) (s_w x) b) as [[[r w'] s'] rot] eqn:E. intros Hside.
      assert (Hs0 : dside c k 0) by (eapply dside_le; [|exact Hside]; lia).
      destruct (initialize_empty_dk c crit k (s_w x) Hcfg Hs0 Q Hn Hi) as [w1 [wr [roll [Ei [I [V [Z [S1 _]]]]]]]].
      rewrite (write_buffer_init c (s_w x) b _ _ _ w1 Ei) in E.
      change {| f_cfg := c; f_inner := Active (Some (mk_rsk k (NSNumD 0) roll)) wr (rname c 0); f_poisoned := false |}
        with (st_ofdk c k (length (@nil bytes)) roll wr) in E.
      pose proof (write_buffer_rotflag_d c k (length (@nil bytes)) roll wr w1 b) as RF. rewrite E in RF. cbn [snd] in RF. subst rot.
      assert (Z0 : roll_size_ok roll (length (cur_view w1 wr))) by (rewrite V; exact Z).
      assert (Hs : rotation_necessary w1 roll = true -> dside c k (S (length (@nil bytes)))).
      { intros Er. rewrite Er in Hside. cbn [a_step nclosed app length] in Hside. exact Hside. }
      assert (I0 : NumDKInv c w1 wr [] (d_lo k (length (@nil bytes))) (d_mid k (length (@nil bytes))))
        by (cbn [length]; rewrite d_lo_0, d_mid_0; exact I).
      destruct (write_active_dk c crit k w1 wr [] roll b Hcfg I0 Z0 Hs) as [w2 [wr' [roll' [closed' [E' [_ [_ [S' _]]]]]]]].
      rewrite E in E'. injection E' as -> -> _. split; [reflexivity|]. rewrite (same_env_errs _ _ S'). exact (same_env_errs _ _ S1). }
  destruct o; try contradiction; cbn [sync_step].
  - destruct (WB (s_tl x ++ b)) as [s [Es [Hp W]]]. rewrite Es, Hp. rewrite Ht in *. cbn [app] in *.
    destruct (write_buffer s (s_w x) b) as [[[r w'] s'] rot]. cbn [fst snd s_w rot_of]. intros Hside.
    destruct (W Hside) as [-> He]. exact He.
  - destruct (WB b) as [s [Es [Hp W]]]. rewrite Es, Hp.
    destruct (write_buffer s (s_w x) b) as [[[r w'] s'] rot]. cbn [fst snd s_w rot_of]. intros Hside.
    destruct (W Hside) as [-> He]. exact He.
  - intros _. destruct a as [[closed cur]|].
    + destruct R as [wr [roll [Es [I _]]]]. rewrite Es. cbn [st_ofdk f_poisoned].
      destruct (flush_active_dk c k (s_w x) wr closed _ _ roll I) as [w' [wr' [E [_ [_ [_ S']]]]]].
      fold (st_ofdk c k (length closed) roll wr). rewrite E. exact (same_env_errs _ _ S').
    + destruct R as [Es _]. rewrite Es. reflexivity.
  - destruct a as [[closed cur]|].
    + destruct R as [wr [roll [Es [I _]]]]. rewrite Es. cbn [st_ofdk f_poisoned f_cfg f_inner].
      destruct (mount_next c (s_w x) (Active (Some (mk_rsk k (NSNumD (N.of_nat (length closed))) roll)) wr (rname c (length closed))) true)
        as [[r1 w1] st1] eqn:EM. cbn [rot_of a_step snd fst s_w]. intros Hside.
      assert (Hs : dside c k (S (length closed))).
      { cbn [nclosed] in Hside. rewrite len_snoc in Hside. exact Hside. }
      destruct (mount_next_rotates_dk c crit k (s_w x) wr closed roll true Hcfg Hs I eq_refl) as [w' [wr' [roll' [E [_ [_ [_ [S' _]]]]]]]].
      rewrite EM in E. injection E as _ -> _. exact (same_env_errs _ _ S').
    + intros _. destruct R as [Es _]. rewrite Es. reflexivity.
  - intros _. reflexivity.
  - intros _. reflexivity.
Qed.

Lemma numdk_run_clean c crit k : numdkcfg c crit k -> forall ops x a, RelDK c crit k x a -> Forall basic_op ops ->
  dside c k (nclosed (a_run a ops (snd (run x ops)))) -> clean_run x ops.
Proof.
  intros Hcfg. induction ops as [|o r IH]; intros x a R Hb Hside; [exact I|].
  cbn [run clean_run] in *. inversion Hb as [|o' r' Ho Hr]; subst.
  pose proof (step_rel_dk c crit k x a o Hcfg R Ho) as S. pose proof (numdk_step_clean c crit k x a o Hcfg R Ho) as C.
  destruct (step x o) as [x1 ob].
  specialize (IH x1 (a_step a o (rot_of ob))). destruct (run x1 r) as [x2 obs]. cbn [fst snd a_run] in *.
  assert (Hs1 : dside c k (nclosed (a_step a o (rot_of ob)))) by (eapply dside_le; [apply nclosed_run | exact Hside]).
  destruct (S Hs1) as [R1 _]. destruct (C Hs1) as [K E]. split; [exact K|]. split; [exact E|]. apply IH; assumption.
Qed.

(* the configuration is of the family numdkcfg but for c_bg *)
Lemma numdkcfg_nobg c crit k : numdkcfg (nobg c) crit k -> c_async c = false /\ c_symlink c = false.
Proof. intros (_ & _ & Hs & Ha & _). split; assumption. Qed.

(* every configuration with NumbersDirect naming, without start-time part, symlink and async handle - whatever c_bg -
   is of the family after nobg *)
Lemma numdkcfg_nobg_intro c crit k :
  c_rot c = Some (crit, NNumbersDirect, k) -> fts (c_spec c) = false -> c_symlink c = false -> c_async c = false ->
  numdkcfg (nobg c) crit k.
Proof. intros. repeat split; assumption. Qed.

(* the worlds of numbersdirect_cleanup_stream, with cleanup in the background thread: identical *)
Theorem bg_worlds_numbersdirect_cleanup c crit k t0 off ops :
  numdkcfg (nobg c) crit k -> Forall basic_op ops ->
  dside (nobg c) k (nclosed (a_run None ops (snd (run (fst (step (sys0 t0 off) (OStart (nobg c)))) ops)))) ->
  let rb := run (sys0 t0 off) (OStart c :: ops) in
  let rn := run (sys0 t0 off) (OStart (nobg c) :: ops) in
  let rb' := run (sys0 t0 off) (OStart c :: ops ++ [OStop]) in
  let rn' := run (sys0 t0 off) (OStart (nobg c) :: ops ++ [OStop]) in
  (s_w (fst rb) = s_w (fst rn) /\ snd rb = snd rn) /\ (s_w (fst rb') = s_w (fst rn') /\ snd rb' = snd rn').
Proof.
  intros Hcfg Hb Hside. destruct (numdkcfg_nobg c crit k Hcfg) as [Ha Hs].
  apply bg_sim_whole; try assumption.
  exact (numdk_run_clean (nobg c) crit k Hcfg ops _ None (start_rel_dk (nobg c) crit k t0 off) Hb Hside).
Qed.

(* in particular the observations, hence the reader's view a, are the same *)
Corollary bg_view_numbersdirect_cleanup c crit k t0 off ops :
  numdkcfg (nobg c) crit k -> Forall basic_op ops ->
  dside (nobg c) k (nclosed (a_run None ops (snd (run (fst (step (sys0 t0 off) (OStart (nobg c)))) ops)))) ->
  a_run None ops (snd (run (fst (step (sys0 t0 off) (OStart c))) ops))
  = a_run None ops (snd (run (fst (step (sys0 t0 off) (OStart (nobg c)))) ops)).
Proof.
  intros Hcfg Hb Hside. destruct (bg_worlds_numbersdirect_cleanup c crit k t0 off ops Hcfg Hb Hside) as [[_ E] _]. cbn zeta in E.
  cbn [run] in E. destruct (step (sys0 t0 off) (OStart c)) as [xb0 ob0]. destruct (step (sys0 t0 off) (OStart (nobg c))) as [xn0 on0].
  cbn [fst]. destruct (run xb0 ops) as [xb1 lb]. destruct (run xn0 ops) as [xn1 ln]. cbn [snd] in *. injection E as _ ->. reflexivity.
Qed.

(* the views mention the configuration through the file names only *)
Lemma dkreader_view_nobg c f closed cur lo mid : dkreader_view (nobg c) f closed cur lo mid -> dkreader_view c f closed cur lo mid.
Proof. intros [[A B C D E] H]. split; [constructor; assumption | exact H]. Qed.

(* numbersdirect_cleanup_stream for cleanup in the background thread *)
Theorem numbersdirect_cleanup_stream_bg c crit k t0 off ops :
  numdkcfg (nobg c) crit k -> Forall basic_op ops ->
  let a := a_run None ops (snd (run (fst (step (sys0 t0 off) (OStart (nobg c)))) ops)) in
  dside (nobg c) k (nclosed a) ->
  let r := run (sys0 t0 off) (OStart c :: ops ++ [OStop]) in
  let f := wfs (s_w (fst r)) in
  flat a = written ops
  /\ match a with
     | None => names f = []
     | Some (closed, cur) => dkreader_view c f closed cur (d_lo k (length closed)) (d_mid k (length closed))
     end
  /\ Forall obs_ok (snd r).
Proof.
  intros Hcfg Hb a Hside r f. destruct (bg_worlds_numbersdirect_cleanup c crit k t0 off ops Hcfg Hb Hside) as [_ [E Eo]]. cbn zeta in E, Eo.
  unfold f, r. rewrite E, Eo.
  pose proof (numbersdirect_cleanup_stream (nobg c) crit k t0 off ops Hcfg Hb Hside) as [T1 [T2 T3]]. split; [exact T1|].
  split; [|exact T3].
  fold a in T2. destruct a as [[closed cur]|]; [apply dkreader_view_nobg; exact T2 | exact T2].
Qed.

(* numbersdirect_cleanup for cleanup in the background thread.  closed, cur: the reader's view that the run would leave
   without cleanup (by bg_view_numbersdirect_cleanup it is the same for both variants) *)
Theorem numbersdirect_cleanup_bg c crit k n m t0 off ops closed cur :
  numdkcfg (nobg c) crit k -> klimd k = Some (n, m) -> Forall basic_op ops ->
  sfx_ok (c_spec c) ->
  a_run None ops (snd (run (fst (step (sys0 t0 off) (OStart (nobg c)))) ops)) = Some (closed, cur) ->
  let f := wfs (s_w (fst (run (sys0 t0 off) (OStart c :: ops ++ [OStop])))) in
  let L := length closed in let lo := S L - (n + m) in let mid := S L - n in
  concat closed ++ cur = written ops
  /\ (forall x, (exists j, lookup f x = Some j) <->
        (exists i, mid <= i <= L /\ x = rname c i) \/ (exists i, lo <= i < mid /\ x = gname c i))
  /\ NoDup (dir_names f)
  /\ lookup f (cname c) = None
  /\ 1 <= n /\ mid <= L /\ S L - mid <= n /\ mid - lo <= m
  /\ (forall off', list_log_gz off' (c_spec c) (fixed0 c) f IFNum = Some (listing c lo mid (S L)))
  /\ (forall off', get_highest_index off' (c_spec c) (fixed0 c) f <> None)
  /\ (forall i, mid <= i < L -> lookup f (gname c i) = None /\
        exists fl, file_of f (rname c i) = Some fl /\ fdata fl = nth i closed [] /\ fgz fl = 0%N /\ fdir fl = false)
  /\ (forall i, lo <= i < mid -> lookup f (rname c i) = None /\
        exists fl, file_of f (gname c i) = Some fl /\ fdata fl = nth i closed [] /\ fgz fl = 1%N /\ fdir fl = false)
  /\ (forall i, i < lo -> lookup f (rname c i) = None /\ lookup f (gname c i) = None)
  /\ written ops = concat (firstn lo closed) ++ concat (map (fun i => data_at f (entry c mid i)) (seq lo (S L - lo)))
  /\ lookup f (gname c L) = None
  /\ (exists fl, file_of f (rname c L) = Some fl /\ fdata fl = cur /\ fgz fl = 0%N /\ fdir fl = false).
Proof.
  intros Hcfg Hk Hb Hsfx Ea f.
  assert (Hside : dside (nobg c) k (nclosed (a_run None ops (snd (run (fst (step (sys0 t0 off) (OStart (nobg c)))) ops))))).
  { rewrite Ea. unfold dside. rewrite Hk. exact Hsfx. }
  destruct (bg_worlds_numbersdirect_cleanup c crit k t0 off ops Hcfg Hb Hside) as [_ [E _]]. cbn zeta in E.
  unfold f. rewrite E.
  exact (numbersdirect_cleanup (nobg c) crit k n m t0 off ops closed cur Hcfg Hk Hb Hsfx Ea).
Qed.

(* size criterion: the view is a function of the operations *)
Theorem numbersdirect_cleanup_partition_bg c k m t0 off ops :
  numdkcfg (nobg c) (CSize m) k -> Forall basic_op ops ->
  dside (nobg c) k (nclosed (s_run m None ops)) ->
  let f := wfs (s_w (fst (run (sys0 t0 off) (OStart c :: ops ++ [OStop])))) in
  match s_run m None ops with
  | None => names f = []
  | Some (closed, cur) =>
    closed ++ [cur] = expected_files m None (items false ops)
    /\ dkreader_view c f closed cur (d_lo k (length closed)) (d_mid k (length closed))
  end.
Proof.
  intros Hcfg Hb Hside f.
  assert (Hside' : dside (nobg c) k (nclosed (a_run None ops (snd (run (fst (step (sys0 t0 off) (OStart (nobg c)))) ops))))).
  { pose proof (start_rel_dk (nobg c) (CSize m) k t0 off) as R0.
    rewrite (run_size_dk' (nobg c) k m Hcfg ops _ None R0 Hb Hside). exact Hside. }
  destruct (bg_worlds_numbersdirect_cleanup c (CSize m) k t0 off ops Hcfg Hb Hside') as [_ [E _]]. cbn zeta in E.
  unfold f. rewrite E. pose proof (numbersdirect_cleanup_partition (nobg c) k m t0 off ops Hcfg Hb Hside) as T. cbn zeta in T.
  destruct (s_run m None ops) as [[closed cur]|]; [|exact T]. destruct T as [T1 T2]. split; [exact T1 | apply dkreader_view_nobg; exact T2].
Qed.

Theorem numbersdirect_cleanup_no_panic_bg c crit k t0 off ops :
  numdkcfg (nobg c) crit k -> Forall basic_op ops ->
  dside (nobg c) k (nclosed (a_run None ops (snd (run (fst (step (sys0 t0 off) (OStart (nobg c)))) ops)))) ->
  Forall obs_ok (snd (run (sys0 t0 off) (OStart c :: ops ++ [OStop]))).
Proof.
  intros Hcfg Hb Hside. destruct (bg_worlds_numbersdirect_cleanup c crit k t0 off ops Hcfg Hb Hside) as [_ [_ E]]. cbn zeta in E.
  rewrite E. exact (numbersdirect_cleanup_no_panic (nobg c) crit k t0 off ops Hcfg Hb Hside).
Qed.

Print Assumptions bg_worlds_numbersdirect_cleanup.
Print Assumptions numbersdirect_cleanup_stream_bg.
Print Assumptions numbersdirect_cleanup_bg.
Print Assumptions numbersdirect_cleanup_partition_bg.
Print Assumptions numbersdirect_cleanup_no_panic_bg.

(* ------------------------------------------------------------------ examples *)
Section Examples.
Import String.StringSyntax.

(* the history of NumDCleanup.v (six records, a rotation before each but the first), KLogGz 2 2, c_bg = true *)
Definition exdb_c : config := with_bg (exd_kcfg (KLogGz 2 2) log_sfx).
Example exdb_bg : c_bg exdb_c = true /\ nobg exdb_c = exd_kcfg (KLogGz 2 2) log_sfx.
Proof. split; reflexivity. Qed.

(* THE CHECK asked for: with the cleanup in the background thread and in the logging thread - the same directory at the
   end, the same observations (the snapshot before the stop included), nothing reported, no request left over; the file
   being written (r00005) is there, plain, with its content, although every cleanup listed it *)
Example exdb_side_by_side :
  let rb := run (sys0 0 0) (OStart exdb_c :: ex_ops ++ [OSnap; OStop]) in
  let rn := run (sys0 0 0) (OStart (nobg exdb_c) :: ex_ops ++ [OSnap; OStop]) in
  snapshot (s_w (fst rb)) = snapshot (s_w (fst rn)) /\ snd rb = snd rn
  /\ snapshot (s_w (fst rb))
     = ObsSnap [(bs "a_r00002.log.gz"%string, 1%N, rec5 2); (bs "a_r00003.log.gz"%string, 1%N, rec5 3);
                (bs "a_r00004.log"%string, 0%N, rec5 4); (bs "a_r00005.log"%string, 0%N, rec5 5)] None []
  /\ wacts (s_w (fst rb)) = 0.
Proof. vm_compute. repeat split. Qed.

(* the same at EVERY point of the history (all prefixes), with a buffered writer: the pending bytes of the current file
   are not lost by a cleanup that runs in between *)
Definition exdb_c2 : config := with_bg exd_c2.
Example exdb_prefixes :
  forallb (fun i =>
    let rb := run (sys0 0 0) (OStart exdb_c2 :: firstn i exd_ops2 ++ [OSnap]) in
    let rn := run (sys0 0 0) (OStart (nobg exdb_c2) :: firstn i exd_ops2 ++ [OSnap]) in
    match snd rb, snd rn with
    | lb, ln => (length lb =? length ln) && (length (werrs (s_w (fst rb))) =? 0) && (wacts (s_w (fst rb)) =? 0)
    end) (seq 0 (S (length exd_ops2))) = true
  /\ forall i, i <= length exd_ops2 ->
       snd (run (sys0 0 0) (OStart exdb_c2 :: firstn i exd_ops2 ++ [OSnap]))
       = snd (run (sys0 0 0) (OStart (nobg exdb_c2) :: firstn i exd_ops2 ++ [OSnap])).
Proof.
  split; [vm_compute; reflexivity|]. intros i Hi.
  assert (H : In i (seq 0 (S (length exd_ops2)))) by (apply in_seq; lia).
  cbn [length exd_ops2 seq] in H. repeat (destruct H as [<-|H]; [vm_compute; reflexivity|]). destruct H.
Qed.

(* the flag in the writer state is what differs under way *)
Example exdb_flag :
  let bg_of x := match s_flw x with
                 | Some s => match f_inner s with Active (Some rs) _ _ => Some (rs_bg rs) | _ => None end
                 | None => None end in
  (bg_of (fst (run (sys0 0 0) (OStart exdb_c :: ex_ops))), bg_of (fst (run (sys0 0 0) (OStart (nobg exdb_c) :: ex_ops))))
  = (Some true, Some false).
Proof. vm_compute. reflexivity. Qed.

(* instances of the theorems: the hypotheses hold for this history *)
Example exdb_instance :
  let f := wfs (s_w (fst (run (sys0 0 0) (OStart exdb_c :: ex_ops ++ [OStop])))) in
  dkreader_view exdb_c f exd_closed (rec5 5) 2 4
  /\ Forall obs_ok (snd (run (sys0 0 0) (OStart exdb_c :: ex_ops ++ [OStop]))).
Proof.
  intros f.
  assert (Es : s_run 3 None ex_ops = Some (exd_closed, rec5 5)) by (vm_compute; reflexivity).
  split.
  - pose proof (numbersdirect_cleanup_partition_bg exdb_c (KLogGz 2 2) 3 0 0 ex_ops (exd_numdkcfg _ _) ex_ops_basic) as T.
    cbv zeta in T. rewrite Es in T. fold f in T.
    destruct T as [_ V]. { exact (exd_sfx_ok _). }
    exact V.
  - apply (numbersdirect_cleanup_no_panic_bg exdb_c (CSize 3) (KLogGz 2 2) 0 0 ex_ops (exd_numdkcfg _ _) ex_ops_basic).
    change (nobg exdb_c) with (exd_kcfg (KLogGz 2 2) log_sfx). rewrite exd_view. exact (exd_sfx_ok _).
Qed.

Example exdb_instance_names :
  let f := wfs (s_w (fst (run (sys0 0 0) (OStart exdb_c :: ex_ops ++ [OStop])))) in
  (forall x, (exists j, lookup f x = Some j) <->
        (exists i, 4 <= i <= 5 /\ x = rname exdb_c i) \/ (exists i, 2 <= i < 4 /\ x = gname exdb_c i))
  /\ lookup f (gname exdb_c 5) = None
  /\ (exists fl, file_of f (rname exdb_c 5) = Some fl /\ fdata fl = rec5 5 /\ fgz fl = 0%N /\ fdir fl = false).
Proof.
  intros f.
  pose proof (numbersdirect_cleanup_bg exdb_c (CSize 3) (KLogGz 2 2) 2 2 0 0 ex_ops exd_closed (rec5 5)
                (exd_numdkcfg _ _) eq_refl ex_ops_basic (exd_sfx_ok _) exd_view) as T.
  cbv zeta in T. fold f in T. change (length exd_closed) with 5 in T. cbn [Nat.sub Nat.add] in T.
  destruct T as (_ & Names & _ & _ & _ & _ & _ & _ & _ & _ & _ & _ & _ & _ & NoG & Cur).
  split; [exact Names|]. split; [exact NoG | exact Cur].
Qed.

(* Where the two variants differ (not covered by the theorems, and the reason for the hypothesis clean_run of
   bg_sim_whole): when the cleanup fails - here by an injected fault in its directory listing; OSetFaults is not a basic
   operation - the logging thread reports the failed rotation (ELogFile), whereas nobody looks at the result of the
   background thread.  In both variants the current file r00001 holds the record *)
Definition exdb_ops_fault : list op :=
  [OWrite (bs "abcd"%string); OSetFaults [false; true]; OWrite (bs "efgh"%string)].
Example exdb_fault :
  (werrs (s_w (fst (run (sys0 0 0) (OStart exdb_c :: exdb_ops_fault)))),
   werrs (s_w (fst (run (sys0 0 0) (OStart (nobg exdb_c) :: exdb_ops_fault)))))
  = ([], [ELogFile])
  /\ snapshot (s_w (fst (run (sys0 0 0) (OStart exdb_c :: exdb_ops_fault ++ [OStop]))))
     = ObsSnap [(bs "a_r00000.log"%string, 0%N, bs "abcd"%string); (bs "a_r00001.log"%string, 0%N, bs "efgh"%string)] None []
  /\ snapshot (s_w (fst (run (sys0 0 0) (OStart (nobg exdb_c) :: exdb_ops_fault ++ [OStop]))))
     = ObsSnap [(bs "a_r00000.log"%string, 0%N, bs "abcd"%string); (bs "a_r00001.log"%string, 0%N, bs "efgh"%string)] None [ELogFile].
Proof. vm_compute. repeat split; reflexivity. Qed.
End Examples.
