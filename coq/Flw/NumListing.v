(* Numbers naming: what the directory listing of a writer that starts on a directory left behind by an earlier
   writer finds.  The directory holds r00000 .. r(n-1) and rCURRENT (reader_view): the highest index found is n-1. *)
Require Import FL.Base.Bytes FL.Base.BytesFacts FL.Base.PathName FL.Fs.Fs FL.Fs.FsFacts FL.Time.Civil FL.Time.TsFormat
  FL.Names.FileSpec FL.Names.NamesFacts FL.Names.FamilyFacts FL.Flw.Model FL.Flw.ModelFacts FL.Flw.NumFs FL.Flw.NumInv
  FL.Flw.Run FL.Flw.NumRun.
From Coq Require Import ZifyN ZifyNat ZifyBool.
Open Scope nat_scope.

(* ------------------------------------------------------------------ digits *)
Definition digs (i : N) : bytes := pad_left 5 48%N (dec i).

Lemma number_infix_digs i : number_infix i = r_char :: digs i.
Proof. reflexivity. Qed.

Lemma is_digit_mod n : is_digit (48 + n mod 10)%N = true.
Proof. pose proof (N.mod_upper_bound n 10 ltac:(lia)) as M. unfold is_digit. lia. Qed.

Lemma dec_digits_alld fuel : forall n acc, all_digits acc = true -> all_digits (dec_digits fuel n acc) = true.
Proof.
  induction fuel as [|f IH]; intros n acc Hacc; cbn [dec_digits]; [exact Hacc|].
  assert (H : all_digits ((48 + n mod 10)%N :: acc) = true) by (cbn [all_digits]; rewrite is_digit_mod, Hacc; reflexivity).
  destruct (n <? 10)%N; [exact H | apply IH; exact H].
Qed.

Lemma all_digits_app a b : all_digits (a ++ b) = all_digits a && all_digits b.
Proof. induction a as [|x a IH]; cbn [all_digits app]; [reflexivity|]. rewrite IH, andb_assoc. reflexivity. Qed.

Lemma all_digits_zeros k : all_digits (repeat 48%N k) = true.
Proof. induction k as [|k IH]; cbn [repeat all_digits]; [reflexivity|]. rewrite IH. reflexivity. Qed.

Lemma digs_all i : all_digits (digs i) = true.
Proof.
  unfold digs, pad_left. rewrite all_digits_app, all_digits_zeros. cbn [andb].
  unfold dec. apply dec_digits_alld. reflexivity.
Qed.

Lemma digs_length i : 5 <= length (digs i).
Proof. unfold digs, pad_left. rewrite app_length, repeat_length. lia. Qed.

Lemma digs_value i : dec_value (digs i) = i.
Proof. unfold digs, pad_left. rewrite dec_value_zeros, dec_value_dec. reflexivity. Qed.

Lemma all_digits_in s c : all_digits s = true -> In c s -> is_digit c = true.
Proof.
  induction s as [|x s IH]; cbn [all_digits In]; intros H I; [destruct I|].
  apply andb_prop in H. destruct H as [H1 H2]. destruct I as [<-|I]; [exact H1 | exact (IH H2 I)].
Qed.

Lemma digs_no c i : is_digit c = false -> ~ In c (digs i).
Proof. intros H I. rewrite (all_digits_in _ _ (digs_all i) I) in H. discriminate. Qed.

Lemma digs_cons i : exists a b r, digs i = a :: b :: r /\ is_digit a = true.
Proof.
  pose proof (digs_length i) as L. pose proof (digs_all i) as A.
  destruct (digs i) as [|a [|b r]]; cbn [length] in L; try lia.
  exists a, b, r. split; [reflexivity|]. cbn [all_digits] in A. apply andb_prop in A. tauto.
Qed.

Lemma forallb_is_digit s : forallb is_digit s = all_digits s.
Proof. induction s as [|x s IH]; cbn [forallb all_digits]; [reflexivity|]. rewrite IH. reflexivity. Qed.

(* the number filter: "r" and one or more digits, nothing else *)
Lemma filter_num_spec off infix :
  filter_infix off IFNum infix = true <-> exists ds, infix = r_char :: ds /\ ds <> [] /\ all_digits ds = true.
Proof.
  unfold filter_infix. split.
  - destruct infix as [|a [|d ds]]; try discriminate. intros H. apply andb_prop in H. destruct H as [Ha Hd].
    apply N.eqb_eq in Ha. subst a. rewrite forallb_is_digit in Hd. exists (d :: ds). split; [reflexivity|]. split; [discriminate | exact Hd].
  - intros [ds [-> [Hne Hd]]]. destruct ds as [|d ds]; [congruence|]. rewrite forallb_is_digit, Hd. reflexivity.
Qed.

Lemma filter_num_infix off i : filter_infix off IFNum (number_infix i) = true.
Proof.
  rewrite number_infix_digs. apply filter_num_spec. exists (digs i). split; [reflexivity|]. split; [|apply digs_all].
  destruct (digs_cons i) as [a [b [r [E _]]]]. rewrite E. discriminate.
Qed.

Lemma number_infix_no_dot i : no_dot (number_infix i).
Proof.
  unfold no_dot. rewrite number_infix_digs. cbn [In]. intros [H|H]; [discriminate|].
  revert H. apply digs_no. reflexivity.
Qed.

(* parse::<u32>() of a digit string *)
Definition strip_plus (s : bytes) : bytes := match s with 43%N :: r => r | _ => s end.
Lemma parse_uint_unfold max s : parse_uint max s =
  match strip_plus s with
  | [] => None
  | _ => if all_digits (strip_plus s) then let v := dec_value (strip_plus s) in if (v <=? max)%N then Some v else None else None
  end.
Proof. reflexivity. Qed.

Lemma plus_strip (c : N) (r : bytes) : c <> 43%N -> strip_plus (c :: r) = c :: r.
Proof.
  intros H. unfold strip_plus. destruct c as [|p]; [reflexivity|].
  repeat (destruct p as [p|p|]; try reflexivity). exfalso. apply H. reflexivity.
Qed.

Lemma parse_uint_digits max s : s <> [] -> all_digits s = true ->
  parse_uint max s = if (dec_value s <=? max)%N then Some (dec_value s) else None.
Proof.
  intros Hne Hd. destruct s as [|c r]; [congruence|]. rewrite parse_uint_unfold.
  assert (Hc : c <> 43%N). { intros ->. cbn in Hd. discriminate. }
  rewrite (plus_strip c r Hc). rewrite Hd. reflexivity.
Qed.

Lemma parse_digs i : (i <= u32_max)%N -> parse_uint u32_max (digs i) = Some i.
Proof.
  intros H. rewrite parse_uint_digits.
  - rewrite digs_value. destruct (N.leb_spec i u32_max); [reflexivity | lia].
  - destruct (digs_cons i) as [a [b [r [E _]]]]. rewrite E. discriminate.
  - apply digs_all.
Qed.

(* ------------------------------------------------------------------ the names *)
Definition sfxs (sp : file_spec) : bytes := match fsfx sp with Some s => dot :: s | None => [] end.

Lemma with_suffix_sfxs sp f : with_suffix sp f = f ++ sfxs sp.
Proof. unfold with_suffix, sfxs. destruct (fsfx sp); [reflexivity | rewrite app_nil_r; reflexivity]. Qed.

Lemma rname_shape c i : rname c i = under (fixed0 c) ++ (r_char :: digs (N.of_nat i)) ++ sfxs (c_spec c).
Proof.
  unfold rname, nm. rewrite as_name_some by apply number_infix_nonempty. rewrite with_suffix_sfxs, <- app_assoc. reflexivity.
Qed.
Lemma cname_shape c : cname c = under (fixed0 c) ++ cur_infix ++ sfxs (c_spec c).
Proof.
  unfold cname, nm. rewrite as_name_some by apply cur_infix_nonempty. rewrite with_suffix_sfxs, <- app_assoc. reflexivity.
Qed.

Lemma is_prefix_under fixed z : is_prefix fixed (under fixed ++ z) = true.
Proof. destruct fixed as [|f0 fr]; [reflexivity|]. unfold under. rewrite <- app_assoc. apply is_prefix_app. Qed.

Lemma digits_of_tail i sp :
  match find_byte dot (digs i ++ sfxs sp) with Some e => firstn e (digs i ++ sfxs sp) | None => digs i ++ sfxs sp end = digs i.
Proof.
  assert (Hd : ~ In dot (digs i)) by (apply digs_no; reflexivity).
  unfold sfxs. destruct (fsfx sp) as [s|].
  - rewrite find_byte_app by exact Hd. apply firstn_length_app.
  - rewrite app_nil_r. apply find_byte_none in Hd. rewrite Hd. reflexivity.
Qed.

(* the index is read back from a listed name: the fixed name part (with "_") and "r" are stripped, the number ends
   at the first dot *)
Lemma index_of_rname c i : (N.of_nat i <= u32_max)%N ->
  index_of_listed (fixed0 c) (rname c i) = Some (N.of_nat i).
Proof.
  intros Hi. unfold index_of_listed. rewrite rname_shape.
  assert (E : under (fixed0 c) ++ (r_char :: digs (N.of_nat i)) ++ sfxs (c_spec c)
              = (match fixed0 c with [] => [r_char] | _ => fixed0 c ++ [uscore; r_char] end)
                ++ (digs (N.of_nat i) ++ sfxs (c_spec c))).
  { unfold under. destruct (fixed0 c) as [|f0 fr]; [reflexivity|]. rewrite <- !app_assoc. reflexivity. }
  rewrite E, strip_prefix_app, digits_of_tail, parse_digs by exact Hi. reflexivity.
Qed.

(* ------------------------------------------------------------------ the family test on the names of the directory *)
Lemma infix_candidate_prefix a b fixed name infix :
  infix_candidate a b fixed name = Some infix -> exists y, name = under fixed ++ infix ++ y.
Proof.
  unfold infix_candidate. intros H.
  destruct (match b with Some l => strip_suffix (dot :: l) name | None => Some name end) as [stem|] eqn:E1; [|discriminate].
  assert (N1 : exists z1, name = stem ++ z1).
  { destruct b as [l|]; [apply strip_suffix_spec in E1; eauto | injection E1 as <-; exists []; rewrite app_nil_r; reflexivity]. }
  destruct N1 as [z1 N1].
  destruct (match b, a with
            | Some l, Some s => if beq l [103%N; 122%N] && negb (beq s [103%N; 122%N]) then strip_suffix (dot :: s) stem else Some stem
            | _, _ => Some stem end) as [st|] eqn:E2; [|discriminate].
  assert (N2 : exists z2, stem = st ++ z2).
  { destruct b as [l|], a as [s|]; try (injection E2 as <-; exists []; rewrite app_nil_r; reflexivity).
    destruct (beq l [103%N; 122%N] && negb (beq s [103%N; 122%N])).
    - apply strip_suffix_spec in E2; eauto.
    - injection E2 as <-; exists []; rewrite app_nil_r; reflexivity. }
  destruct N2 as [z2 N2].
  destruct (match fixed with [] => Some st | _ => strip_prefix (fixed ++ [uscore]) st end) as [rest|] eqn:E3; [|discriminate].
  apply strip_fixed_iff in E3. destruct rest as [|r0 rr]; [discriminate|].
  set (rest := r0 :: rr) in *. clearbody rest.
  destruct (find_byte dot rest) as [e|] eqn:E4.
  - destruct (tail_ok (skipn (S e) rest)); [|discriminate]. injection H as <-.
    exists (skipn e rest ++ z2 ++ z1). rewrite N1, N2, E3. rewrite <- (firstn_skipn e rest) at 1.
    rewrite <- !app_assoc. reflexivity.
  - injection H as <-. exists (z2 ++ z1). rewrite N1, N2, E3, <- !app_assoc. reflexivity.
Qed.

(* the predicate that filter_files applies *)
Definition qf (off : Z) (sp_sfx : option bytes) (fixed : bytes) (flt : infix_filter) (o_sfx : option bytes) (n : bytes) : bool :=
  match infix_candidate sp_sfx o_sfx fixed n with None => false | Some i => filter_infix off flt i end.

Lemma filter_opt_total {A} (p : A -> option bool) (q : A -> bool) l :
  (forall x, p x = Some (q x)) -> filter_opt p l = Some (filter q l).
Proof.
  intros H. induction l as [|x l IH]; cbn [filter_opt filter]; [reflexivity|]. rewrite H, IH. reflexivity.
Qed.

Lemma filter_files_total off sp_sfx fixed files flt o_sfx :
  filter_files off sp_sfx fixed files flt o_sfx = Some (filter (qf off sp_sfx fixed flt o_sfx) files).
Proof.
  unfold filter_files. apply filter_opt_total. intros n. unfold qf.
  destruct (infix_candidate sp_sfx o_sfx fixed n); reflexivity.
Qed.

(* rCURRENT is never taken for a numbered file, whatever suffix the listing asks for *)
Lemma qf_cname off c o_sfx : qf off (fsfx (c_spec c)) (fixed0 c) IFNum o_sfx (cname c) = false.
Proof.
  unfold qf. destruct (infix_candidate (fsfx (c_spec c)) o_sfx (fixed0 c) (cname c)) as [infix|] eqn:E; [|reflexivity].
  apply infix_candidate_prefix in E. destruct E as [y E]. rewrite cname_shape in E.
  apply app_inv_head in E. unfold cur_infix in E. cbn [app] in E.
  destruct infix as [|a [|b r]]; try reflexivity. cbn [app] in E.
  injection E as _ E _. subst b. cbn [filter_infix forallb]. rewrite andb_false_r. reflexivity.
Qed.

Lemma qf_rname off c i : qf off (fsfx (c_spec c)) (fixed0 c) IFNum (fsfx (c_spec c)) (rname c i) = true.
Proof.
  unfold qf. rewrite (family_is_candidate (c_spec c) (fixed0 c) (rname c i) (number_infix (N.of_nat i))).
  - apply filter_num_infix.
  - apply family_plain_alt. exists []. split; [left; reflexivity|]. split; [apply number_infix_nonempty|].
    split; [apply number_infix_no_dot|]. rewrite rname_shape, app_nil_r, number_infix_digs, <- app_assoc. reflexivity.
Qed.

(* ------------------------------------------------------------------ the listing *)
Lemma insert_by_in' le x l y : In y (insert_by le x l) <-> y = x \/ In y l.
Proof.
  induction l as [|z l IH]; cbn [insert_by]; [cbn; intuition|]. destruct (le x z); cbn [In]; [intuition|]. rewrite IH. intuition.
Qed.
Lemma sort_by_key_in' sfx l y : In y (sort_by_key sfx l) <-> In y l.
Proof.
  induction l as [|x l IH]; cbn [sort_by_key fold_right]; [tauto|]. fold (sort_by_key sfx l). rewrite insert_by_in', IH. cbn [In]. intuition.
Qed.

Lemma related_files_in f sfx fixed n :
  In n (related_files f sfx fixed) <-> In n (dir_names f) /\ is_reg_file f n = true /\ is_prefix fixed n = true.
Proof.
  unfold related_files. rewrite <- in_rev, sort_by_key_in', filter_In, andb_true_iff. tauto.
Qed.

Lemma dir_names_lookup f n : In n (dir_names f) <-> exists j, lookup f n = Some j.
Proof.
  unfold dir_names, lookup. split.
  - intros I. apply in_map_iff in I. destruct I as [p [<- I]].
    destruct (find (fun q => beq (fst q) (fst p)) (names f)) as [p'|] eqn:E; [eauto|].
    pose proof (find_none _ _ E p I) as X. cbn in X. rewrite beq_refl in X. discriminate.
  - intros [j H]. destruct (find (fun q => beq (fst q) n) (names f)) as [p|] eqn:E; [|discriminate].
    apply find_some in E. destruct E as [I B]. apply beq_eq in B. subst n. apply in_map. exact I.
Qed.

Lemma filter_map_opt_in {A B} (g : A -> option B) l y :
  In y (filter_map_opt g l) <-> exists x, In x l /\ g x = Some y.
Proof.
  induction l as [|x l IH]; cbn [filter_map_opt In].
  - split; [tauto | intros [x [[] _]]].
  - destruct (g x) as [y0|] eqn:E0; cbn [In]; rewrite IH; split.
    + intros [<-|[z [Hz Ez]]]; [exists x; auto | exists z; auto].
    + intros [z [[<-|Hz] Ez]]; [left; congruence | right; eauto].
    + intros [z [Hz Ez]]; exists z; auto.
    + intros [z [[<-|Hz] Ez]]; [congruence | eauto].
Qed.

Lemma max_opt_spec l : match max_opt l with
                       | None => l = []
                       | Some m => In m l /\ forall v, In v l -> (v <= m)%N
                       end.
Proof.
  induction l as [|x l IH]; cbn [max_opt]; [reflexivity|].
  destruct (max_opt l) as [m|].
  - destruct IH as [Im Hm]. split.
    + cbn [In]. destruct (N.max_spec x m) as [[_ ->]|[_ ->]]; auto.
    + intros v [<-|Hv]; [lia|]. specialize (Hm v Hv). lia.
  - subst l. split; [left; reflexivity|]. intros v [<-|[]]. lia.
Qed.

Lemma max_opt_range l n : (forall v, In v l <-> exists i, i < n /\ v = N.of_nat i) ->
  max_opt l = match n with O => None | S k => Some (N.of_nat k) end.
Proof.
  intros H. pose proof (max_opt_spec l) as S. destruct (max_opt l) as [m|].
  - destruct S as [Im Hm]. destruct (proj1 (H m) Im) as [i [Hi ->]]. destruct n as [|k]; [lia|].
    assert (Ik : In (N.of_nat k) l) by (apply H; exists k; split; [lia | reflexivity]).
    specialize (Hm _ Ik). f_equal. lia.
  - subst l. destruct n as [|k]; [reflexivity|].
    assert (Ik : In (N.of_nat k) []) by (apply H; exists k; split; [lia | reflexivity]). destruct Ik.
Qed.

(* the directory that a stopped writer leaves behind: the highest index in it *)
Lemma highest_index_view c off f cl cu :
  reader_view c f cl cu ->
  (N.of_nat (length cl) <= u32_max)%N ->
  get_highest_index off (c_spec c) (fixed0 c) f = Some (match length cl with O => None | S k => Some (N.of_nat k) end).
Proof.
  intros [Hcl [Hcur Hon]] Hb.
  unfold get_highest_index, list_log_gz, existing_rot, sel_log_gz. cbn [sel_plain sel_gz sel_rcur sel_custom].
  rewrite !filter_files_total. cbn [app_opt]. rewrite !app_nil_r.
  set (rel := related_files f (fsfx (c_spec c)) (fixed0 c)).
  set (L := filter (qf off (fsfx (c_spec c)) (fixed0 c) IFNum (fsfx (c_spec c))) rel
            ++ filter (qf off (fsfx (c_spec c)) (fixed0 c) IFNum (Some gz_sfx)) rel).
  (* every listed name is a numbered file of the view *)
  assert (A : forall n, In n L -> exists i, i < length cl /\ n = rname c i).
  { intros n I. unfold L in I. apply in_app_or in I.
    assert (X : exists o, In n rel /\ qf off (fsfx (c_spec c)) (fixed0 c) IFNum o n = true).
    { destruct I as [I|I]; apply filter_In in I; destruct I; eauto. }
    destruct X as [o [Ir Q]]. apply related_files_in in Ir. destruct Ir as [Id _].
    apply dir_names_lookup in Id. destruct Id as [j Lj].
    destruct (Hon n j Lj) as [->|X]; [rewrite qf_cname in Q; discriminate | exact X]. }
  (* every numbered file of the view is listed *)
  assert (B : forall i, i < length cl -> In (rname c i) L).
  { intros i Hi. unfold L. apply in_or_app. left. apply filter_In. split; [|apply qf_rname].
    destruct (Hcl i Hi) as [j [Lj [[_ Pd] _]]]. apply related_files_in. split; [apply dir_names_lookup; eauto|]. split.
    - unfold is_reg_file, file_of. rewrite Lj, Pd. reflexivity.
    - rewrite rname_shape. apply is_prefix_under. }
  f_equal. apply max_opt_range. intros v. rewrite filter_map_opt_in. split.
  - intros [n [Hn En]]. destruct (A n Hn) as [i [Hi ->]]. rewrite index_of_rname in En by lia.
    injection En as <-. eauto.
  - intros [i [Hi ->]]. exists (rname c i). split; [apply B; exact Hi | apply index_of_rname; lia].
Qed.
