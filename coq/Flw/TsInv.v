(* Timestamps naming (rCURRENT + r<time stamp>[.restart-NNNN]): the invariant that ties the concrete state to the
   abstract reader's view (closed files in the order of their closing, current content ++ pending bytes), and the
   one-rotation step. *)
Require Import FL.Base.Bytes FL.Base.BytesFacts FL.Base.PathName FL.Fs.Fs FL.Fs.FsFacts FL.Time.Civil FL.Time.TsFormat
  FL.Names.FileSpec FL.Names.NamesFacts FL.Names.SortFacts FL.Flw.Model FL.Flw.ModelFacts FL.Flw.NumFs FL.Flw.NumInv
  FL.Flw.NumListing FL.Flw.TsCal FL.Flw.TsTime FL.Flw.TsNames.
From Coq Require Import ZifyN ZifyNat ZifyBool.
Open Scope nat_scope.

(* ------------------------------------------------------------------ the sequence of keys *)
Definition count (t : Z) (l : list key) : nat := length (filter (fun k => Z.eqb (fst k) t) l).

(* each new key carries the second of the file's creation - not earlier than any before - and the number of
   earlier files of the same second *)
Inductive keys_ok : list key -> Prop :=
| ko_nil : keys_ok []
| ko_snoc l t : keys_ok l -> (forall k, In k l -> (fst k <= t)%Z) -> keys_ok (l ++ [(t, count t l)]).

Lemma count_app t l1 l2 : count t (l1 ++ l2) = count t l1 + count t l2.
Proof. unfold count. rewrite filter_app, app_length. reflexivity. Qed.
Lemma count_one t k : count t [k] = if Z.eqb (fst k) t then 1 else 0.
Proof. unfold count. cbn [filter]. destruct (Z.eqb (fst k) t); reflexivity. Qed.
Lemma count_le_length t l : count t l <= length l.
Proof. unfold count. induction l as [|k l IH]; cbn [filter length]; [lia|]. destruct (Z.eqb (fst k) t); cbn [length]; lia. Qed.

(* the keys of one second are exactly (t,0) .. (t, count-1) *)
Lemma keys_count l : keys_ok l -> forall t m, In (t, m) l <-> m < count t l.
Proof.
  induction 1 as [|l t0 Hl IH Hle]; intros t m.
  - cbn. split; [tauto | lia].
  - rewrite in_app_iff, count_app, count_one, IH. cbn [In fst].
    destruct (Z.eqb_spec t0 t) as [->|Hne].
    + split; [intros [H|[H|[]]]; [lia | injection H as <-; lia] | intros H].
      destruct (Nat.eq_dec m (count t l)) as [->|]; [right; left; reflexivity | left; lia].
    + split; [intros [H|[H|[]]]; [lia | congruence] | intros H; left; lia].
Qed.

Definition klt (a b : key) : Prop := (fst a < fst b)%Z \/ (fst a = fst b /\ snd a < snd b).
Definition kd : key := (0%Z, 0).

(* the order of closing is the strict order of (second, position) ... *)
Lemma keys_sorted l : keys_ok l -> forall i j, i < j < length l -> klt (nth i l kd) (nth j l kd).
Proof.
  induction 1 as [|l t0 Hl IH Hle]; intros i j Hij; [cbn in Hij; lia|].
  rewrite app_length in Hij. cbn [length] in Hij.
  destruct (Nat.eq_dec j (length l)) as [->|Hj].
  - rewrite (app_nth1 l _ kd) by lia. rewrite app_nth2, Nat.sub_diag by lia. cbn [nth].
    assert (Ii : In (nth i l kd) l) by (apply nth_In; lia). pose proof (Hle _ Ii) as Hle'.
    unfold klt. cbn [fst snd]. destruct (Z.eq_dec (fst (nth i l kd)) t0) as [E|N]; [right | left; lia].
    split; [exact E|]. apply (keys_count l Hl). rewrite <- E. destruct (nth i l kd); exact Ii.
  - rewrite !(app_nth1 l _ kd) by lia. apply IH. lia.
Qed.

(* ... and within one second the positions are 0, 1, 2, .. without gaps *)
Lemma keys_position l : keys_ok l -> forall i, i < length l -> snd (nth i l kd) = count (fst (nth i l kd)) (firstn i l).
Proof.
  induction 1 as [|l t0 Hl IH Hle]; intros i Hi; [cbn in Hi; lia|].
  rewrite app_length in Hi. cbn [length] in Hi.
  destruct (Nat.eq_dec i (length l)) as [->|Hne].
  - rewrite app_nth2, Nat.sub_diag by lia. cbn [nth fst snd].
    rewrite firstn_app, Nat.sub_diag, firstn_all. cbn [firstn]. rewrite app_nil_r. reflexivity.
  - rewrite (app_nth1 l _ kd) by lia. rewrite firstn_app. replace (i - length l) with 0 by lia. cbn [firstn]. rewrite app_nil_r.
    apply IH. lia.
Qed.

Lemma klt_irrefl a : ~ klt a a.
Proof. unfold klt. lia. Qed.

(* no key twice *)
Lemma keys_distinct l : keys_ok l -> forall i j, i < length l -> j < length l -> nth i l kd = nth j l kd -> i = j.
Proof.
  intros Hl i j Hi Hj E. destruct (Nat.lt_trichotomy i j) as [H|[H|H]]; [exfalso|exact H|exfalso].
  - pose proof (keys_sorted l Hl i j ltac:(lia)) as X. rewrite E in X. exact (klt_irrefl _ X).
  - pose proof (keys_sorted l Hl j i ltac:(lia)) as X. rewrite E in X. exact (klt_irrefl _ X).
Qed.

(* ------------------------------------------------------------------ no directory entry twice *)
Lemma dir_names_filter f (p : bytes -> bool) :
  List.map fst (filter (fun q : bytes * nat => p (fst q)) (names f)) = filter p (dir_names f).
Proof. unfold dir_names. induction (names f) as [|[n j] l IH]; cbn [filter List.map fst]; [reflexivity|].
  destruct (p n); cbn [List.map fst]; rewrite IH; reflexivity. Qed.

Lemma rename_nodup f a b f1 : NoDup (dir_names f) -> rename f a b = Some f1 -> NoDup (dir_names f1).
Proof.
  intros H E. unfold rename in E. destruct (lookup f a) as [i|]; [|discriminate]. injection E as <-.
  unfold dir_names at 1. cbn [names List.map fst].
  rewrite (dir_names_filter f (fun n => negb (beq n a) && negb (beq n b))). constructor.
  - intros I. apply filter_In in I. destruct I as [_ I]. rewrite beq_refl, andb_false_r in I. discriminate.
  - apply NoDup_filter. exact H.
Qed.

Lemma create_nodup f a gz now : NoDup (dir_names f) -> lookup f a = None -> NoDup (dir_names (fst (create_file f a gz now))).
Proof.
  intros H L. unfold create_file, dir_names. cbn [fst names List.map]. constructor; [|exact H].
  intros I. apply (proj1 (dir_names_lookup f a)) in I. destruct I as [j Lj]. congruence.
Qed.

(* ------------------------------------------------------------------ configurations and the invariant *)
(* Timestamps naming, no cleanup, no start-time part, no symlink, synchronous; use_utc either way *)
Definition tscfg (c : config) (crit : criterion) : Prop :=
  c_rot c = Some (crit, NTimestamps, KNever) /\ fts (c_spec c) = false /\ c_symlink c = false /\ c_async c = false.

(* the offset that enters the time-stamp text *)
Definition eoff (c : config) (w : world) : Z := if c_utc c then 0%Z else woff w.

Lemma infix_from_ts_tsx c w t : infix_from_ts c w std_fmt t = tsx (eoff c w) t.
Proof. unfold infix_from_ts, eoff, tsx, local_civil. destruct (c_utc c); [rewrite Z.add_0_r|]; reflexivity. Qed.

Lemma fixed_of_fixed0 c w : fts (c_spec c) = false -> fixed_of c w = fixed0 c.
Proof. intros H. unfold fixed_of, fixed0, fixed_name_part. rewrite H. reflexivity. Qed.

(* the seconds lo .. hi lie in the years 1970..9999 (as seen through the offset) *)
Definition years_ok (e lo hi : Z) : Prop := (0 <= lo + e)%Z /\ (hi + e < sec_max)%Z.
Lemma years_in e lo hi t : years_ok e lo hi -> (lo <= t <= hi)%Z -> in_years e t.
Proof. unfold years_ok, in_years. lia. Qed.

Record TsInv (c : config) (e lo : Z) (w : world) (wr : writer) (keys : list key) (closed : list bytes) (ts : Z) : Prop := {
  ti_quiet : quiet w;
  ti_wf : fs_wf (wfs w);
  ti_nodup : NoDup (dir_names (wfs w));
  ti_off : eoff c w = e;
  ti_cur : lookup (wfs w) (cname c) = Some (wino wr);
  ti_curplain : plain (inode (wfs w) (wino wr));
  ti_len : length keys = length closed;
  ti_closed : forall i, i < length closed ->
      exists j, lookup (wfs w) (kname c e (nth i keys kd)) = Some j /\ plain (inode (wfs w) j) /\ content (wfs w) j = nth i closed []
                /\ j <> wino wr;
  ti_only : forall n j, lookup (wfs w) n = Some j -> n = cname c \/ exists i, i < length closed /\ n = kname c e (nth i keys kd);
  ti_keys : keys_ok keys;
  ti_range : forall k, In k keys -> (lo <= fst k <= ts)%Z;
  ti_ts : (lo <= ts <= wnow w)%Z;
  ti_wr : wr_ok wr;
  ti_cap : wcap wr = c_cap c }.

Definition st_ts (c : config) (ts : Z) (roll : roll_state) (wr : writer) : flw :=
  {| f_cfg := c; f_inner := Active (Some (mk_rs (NSTs ts (Some cur_infix) std_fmt) roll)) wr (cname c); f_poisoned := false |}.

Lemma tsinv_dir c e lo w wr keys closed ts : TsInv c e lo w wr keys closed ts -> dir_is c e (wfs w) keys.
Proof.
  intros I. split.
  - intros k Ik. destruct (In_nth keys k kd Ik) as [i [Hi E]]. rewrite (ti_len _ _ _ _ _ _ _ _ I) in Hi.
    destruct (ti_closed _ _ _ _ _ _ _ _ I i Hi) as [j [Lj [[_ Pd] _]]]. rewrite E in Lj. eauto.
  - intros n j L. destruct (ti_only _ _ _ _ _ _ _ _ I n j L) as [->|[i [Hi ->]]]; [left; reflexivity | right].
    exists (nth i keys kd). split; [apply nth_In; rewrite (ti_len _ _ _ _ _ _ _ _ I); exact Hi | reflexivity].
Qed.

(* ------------------------------------------------------------------ one rotation *)
Lemma mount_next_rotates_ts c crit e lo hi w wr keys closed ts roll force :
  tscfg c crit -> tag_ok c -> years_ok e lo hi -> TsInv c e lo w wr keys closed ts ->
  (wnow w <= hi)%Z -> (N.of_nat (length closed) <= usize_max)%N ->
  force || rotation_necessary w roll = true ->
  exists w' wr' roll',
    mount_next c w (Active (Some (mk_rs (NSTs ts (Some cur_infix) std_fmt) roll)) wr (cname c)) force
      = (Ok tt, w', Active (Some (mk_rs (NSTs (wnow w) (Some cur_infix) std_fmt) roll')) wr' (cname c))
    /\ TsInv c e lo w' wr' (keys ++ [(ts, count ts keys)]) (closed ++ [cur_view w wr]) (wnow w)
    /\ cur_view w' wr' = [] /\ same_env w w'.
Proof.
  intros [Hrot [Hts [Hlink _]]] T Y I Hhi Hmax Hnec.
  pose proof I as [Q W Hnd Hoff Hc Hcp Hlen Hcl Hon Hko Hrg Htsr Hwr Hcap].
  assert (Yk : forall k, In k keys -> in_years e (fst k)).
  { intros k Ik. apply (years_in e lo hi); [exact Y|]. specialize (Hrg k Ik). lia. }
  assert (Yts : in_years e ts) by (apply (years_in e lo hi); [exact Y | lia]).
  set (knew := (ts, count ts keys)).
  unfold mount_next. cbn [mk_rs rs_roll rs_naming rs_cleanup rs_bg]. rewrite Hnec.
  unfold creation_ts_of_current, collision_free. rewrite !tick_quiet by assumption.
  rewrite !(name_of_fixed c w) by assumption. rewrite (fixed_of_fixed0 c w Hts), infix_from_ts_tsx, Hoff.
  rewrite (collision_free_infix_ts c e (woff w) (wfs w) keys ts (count ts keys) T Yts Yk (tsinv_dir _ _ _ _ _ _ _ _ I)
             (keys_count keys Hko ts)) by (pose proof (count_le_length ts keys); lia).
  rewrite ?(name_of_fixed c w) by assumption.
  fold (nm c cur_infix). fold (cname c).
  change (as_name (c_spec c) (fixed0 c) (Some (infix_of e (ts, count ts keys)))) with (kname c e knew).
  (* the target name is free *)
  assert (Ht : lookup (wfs w) (kname c e knew) = None).
  { destruct (lookup (wfs w) (kname c e knew)) as [j|] eqn:E; [|reflexivity].
    destruct (Hon _ _ E) as [E1|[i [Hi E1]]]; [exfalso; exact (kname_not_cname c e knew Yts E1)|].
    apply kname_inj in E1; [|exact Yts | apply Yk, nth_In; lia].
    assert (Ik : In knew keys) by (rewrite E1; apply nth_In; lia).
    apply (keys_count keys Hko) in Ik. lia. }
  destruct (rotate_fs_spec (wfs w) (cname c) (kname c e knew) (wino wr) (wpend wr) (wnow w) W
              (fun E => kname_not_cname c e knew Yts (eq_sym E)) Hc Ht) as [f1 [Er R]].
  cbn zeta in R. destruct R as [L1c [Hino1 [W3 [Hnew [L3c [L3t [L3o [Hlenf [Inew [Iold Ioth]]]]]]]]]].
  pose proof (p_rename_quiet w (cname c) (kname c e knew) Q) as PR. rewrite Er in PR.
  destruct PR as [w1 [Epr [F1 S1]]]. rewrite Epr.
  (* the creation time of the new current file: it does not exist yet, so the clock is read *)
  assert (Eb : birth_or_now w1 (cname c) = wnow w).
  { unfold birth_or_now, file_of. rewrite F1, L1c. apply S1. }
  rewrite Eb.
  (* open the new current file *)
  unfold open_log_file. rewrite (name_of_fixed c w1) by assumption. fold (nm c cur_infix) (cname c).
  unfold do_symlink. rewrite Hlink.
  assert (D1 : match file_of (wfs w1) (cname c) with Some fl => fdir fl = false | None => True end).
  { unfold file_of. rewrite F1, L1c. exact Logic.I. }
  destruct (p_open_quiet w1 (cname c) (c_append c) (proj1 S1) D1) as [w2 [Eop [F2 S2]]]. rewrite Eop.
  assert (Eopen : (if c_append c then open_append (wfs w1) (cname c) (wnow w1) else open_trunc (wfs w1) (cname c) 0%N (wnow w1))
                  = create_file f1 (cname c) 0%N (wnow w)).
  { rewrite F1. destruct S1 as [_ [-> _]]. destruct (c_append c); [apply open_append_fresh | apply open_trunc_fresh]; exact L1c. }
  rewrite Eopen in *. clear Eopen.
  (* the old writer is dropped *)
  unfold w_drop. destruct (w_flush_quiet w2 wr (proj1 S2)) as [w3 [Efl [F3 S3]]]. rewrite Efl. cbn [fst snd].
  unfold cleanup_or_queue. cbn [mk_rs rs_roll rs_naming rs_cleanup rs_bg cleanup_impl].
  set (new := snd (create_file f1 (cname c) 0%N (wnow w))) in *.
  set (f3 := append_ino (fst (create_file f1 (cname c) 0%N (wnow w))) (wino wr) (wpend wr)) in *.
  assert (F3' : wfs w3 = f3) by (rewrite F3, F2; reflexivity).
  set (wr' := {| wino := new; wpend := []; wcap := c_cap c |}).
  exists w3, wr', (reset_size_and_date w3 roll (cname c)).
  split; [reflexivity|].
  assert (SE : same_env w w3) by (eapply same_env_trans; [eapply same_env_trans|]; eassumption).
  pose proof (wf_bound _ W _ _ Hc) as Hold.
  split.
  { constructor.
    - exact (proj1 S3).
    - rewrite F3'. exact W3.
    - rewrite F3'. unfold f3. change (dir_names (append_ino ?g _ _)) with (dir_names g).
      apply create_nodup; [exact (rename_nodup _ _ _ _ Hnd Er) | exact L1c].
    - unfold eoff in *. destruct SE as [_ [_ [-> _]]]. exact Hoff.
    - rewrite F3'. exact L3c.
    - rewrite F3'. cbn [wr' wino]. rewrite Inew. split; reflexivity.
    - rewrite !app_length, Hlen. reflexivity.
    - intros i Hi. rewrite app_length in Hi. cbn [length] in Hi. rewrite F3'.
      destruct (Nat.eq_dec i (length closed)) as [->|Hne].
      + exists (wino wr). rewrite app_nth2, Hlen, Nat.sub_diag by lia. cbn [nth]. split; [exact L3t|]. split.
        * rewrite Iold. exact Hcp.
        * split; [|cbn [wr' wino]; rewrite Hnew; lia].
          unfold content at 1. rewrite Iold. cbn [with_data fdata]. rewrite app_nth2, Nat.sub_diag by lia. reflexivity.
      + assert (Hi' : i < length closed) by lia. destruct (Hcl i Hi') as [j [Lj [Pj [Cj Hj2]]]].
        assert (Ik : In (nth i keys kd) keys) by (apply nth_In; lia).
        exists j. rewrite (app_nth1 keys _ kd) by lia.
        rewrite L3o; [|apply kname_not_cname, Yk, Ik |].
        2:{ intros E. apply kname_inj in E; [|apply Yk, Ik | exact Yts]. rewrite E in Ik. apply (keys_count keys Hko) in Ik. lia. }
        split; [exact Lj|].
        assert (Hj1 : j <> new). { pose proof (wf_bound _ W _ _ Lj). rewrite Hnew. lia. }
        unfold content. rewrite Ioth by assumption. split; [exact Pj|]. rewrite app_nth1 by assumption. split; [exact Cj | exact Hj1].
    - intros n j Hn. rewrite F3' in Hn.
      destruct (beq_spec n (cname c)) as [->|Hn1]; [left; reflexivity|].
      destruct (beq_spec n (kname c e knew)) as [->|Hn2].
      + right. exists (length closed). rewrite app_length. cbn [length]. split; [lia|].
        rewrite app_nth2, Hlen, Nat.sub_diag by lia. reflexivity.
      + rewrite L3o in Hn by assumption. destruct (Hon _ _ Hn) as [E|[i [Hi E]]]; [contradiction|].
        right. exists i. rewrite app_length. cbn [length]. split; [lia|]. rewrite (app_nth1 keys _ kd) by lia. exact E.
    - apply ko_snoc; [exact Hko|]. intros k Ik. specialize (Hrg k Ik). lia.
    - intros k Ik. apply in_app_or in Ik. destruct Ik as [Ik|[<-|[]]].
      + specialize (Hrg k Ik). lia.
      + unfold knew. cbn [fst]. lia.
    - destruct SE as [_ [-> _]]. lia.
    - unfold wr_ok, wr'. cbn. destruct (c_cap c); [lia | reflexivity].
    - reflexivity. }
  split. { unfold cur_view. rewrite F3'. cbn [wr' wino wpend]. unfold content. rewrite Inew. reflexivity. }
  exact SE.
Qed.

(* ------------------------------------------------------------------ appending to the current inode keeps the invariant *)
Lemma tsinv_append c e lo w w' wr wr' keys closed ts x :
  TsInv c e lo w wr keys closed ts -> wfs w' = append_ino (wfs w) (wino wr) x -> same_env w w' ->
  wino wr' = wino wr -> wcap wr' = wcap wr -> wr_ok wr' ->
  TsInv c e lo w' wr' keys closed ts /\ content (wfs w') (wino wr') = content (wfs w) (wino wr) ++ x.
Proof.
  intros [Q W Hnd Hoff Hc Hcp Hlen Hcl Hon Hko Hrg Htsr Hwr Hcap] F SE Ei Ec Hok.
  pose proof (wf_bound _ W _ _ Hc) as Hold.
  split.
  - constructor.
    + exact (proj1 SE).
    + rewrite F. apply wf_append. exact W.
    + rewrite F. exact Hnd.
    + unfold eoff in *. destruct SE as [_ [_ [-> _]]]. exact Hoff.
    + rewrite F, lookup_append, Ei. exact Hc.
    + rewrite F, Ei, inode_append, Nat.eqb_refl by assumption. exact Hcp.
    + exact Hlen.
    + intros i Hi. destruct (Hcl i Hi) as [j [Lj [Pj [Cj Hj]]]]. exists j. rewrite F, lookup_append. split; [exact Lj|].
      unfold content. rewrite inode_append by assumption. destruct (Nat.eqb_spec j (wino wr)); [contradiction|]. rewrite Ei. auto.
    + intros n j. rewrite F, lookup_append. apply Hon.
    + exact Hko.
    + exact Hrg.
    + destruct SE as [_ [-> _]]. exact Htsr.
    + exact Hok.
    + congruence.
  - rewrite F, Ei, content_append, Nat.eqb_refl by assumption. reflexivity.
Qed.

(* ------------------------------------------------------------------ a write on an active writer *)
Lemma write_active_ts c crit e lo hi w wr keys closed ts roll b :
  tscfg c crit -> tag_ok c -> years_ok e lo hi -> TsInv c e lo w wr keys closed ts ->
  (wnow w <= hi)%Z -> (N.of_nat (length closed) <= usize_max)%N ->
  let rot := rotation_necessary w roll in
  exists w' wr' roll' keys' closed' ts',
    write_buffer (st_ts c ts roll wr) w b = (Ok tt, w', st_ts c ts' roll' wr', rot)
    /\ TsInv c e lo w' wr' keys' closed' ts' /\ same_env w w'
    /\ (closed', cur_view w' wr') = (if rot then (closed ++ [cur_view w wr], b) else (closed, cur_view w wr ++ b)).
Proof.
  intros Hcfg T Y I Hhi Hmax rot.
  unfold write_buffer, st_ts. cbn [f_cfg f_inner f_poisoned mk_rs rs_roll]. fold rot.
  assert (M : exists w1 wr1 roll1 keys1 closed1 ts1,
            mount_next c w (Active (Some (mk_rs (NSTs ts (Some cur_infix) std_fmt) roll)) wr (cname c)) false
            = (Ok tt, w1, Active (Some (mk_rs (NSTs ts1 (Some cur_infix) std_fmt) roll1)) wr1 (cname c))
            /\ TsInv c e lo w1 wr1 keys1 closed1 ts1 /\ same_env w w1
            /\ (closed1, cur_view w1 wr1) = (if rot then (closed ++ [cur_view w wr], []) else (closed, cur_view w wr))).
  { destruct rot eqn:Er.
    - destruct (mount_next_rotates_ts c crit e lo hi w wr keys closed ts roll false Hcfg T Y I Hhi Hmax) as [w1 [wr1 [roll1 [E [I1 [V1 S1]]]]]]; [exact Er|].
      exists w1, wr1, roll1, (keys ++ [(ts, count ts keys)]), (closed ++ [cur_view w wr]), (wnow w). rewrite V1.
      split; [exact E|]. split; [exact I1|]. split; [exact S1 | reflexivity].
    - exists w, wr, roll, keys, closed, ts. split.
      + unfold mount_next. cbn [mk_rs rs_roll orb]. unfold rot in Er. rewrite Er. reflexivity.
      + split; [exact I|]. split; [apply same_env_refl; apply I | reflexivity]. }
  destruct M as [w1 [wr1 [roll1 [keys1 [closed1 [ts1 [E [I1 [S1 V1]]]]]]]]].
  rewrite E.
  destruct (w_write_quiet w1 wr1 b (ti_quiet _ _ _ _ _ _ _ _ I1) (ti_wr _ _ _ _ _ _ _ _ I1)) as [w2 [wr2 [fl [Ew [S2 [F2 [Ei [Ec [Ep Hok]]]]]]]]].
  rewrite Ew.
  destruct (tsinv_append c e lo w1 w2 wr1 wr2 keys1 closed1 ts1 fl I1 F2 S2 Ei Ec Hok) as [I2 C2].
  exists w2, wr2, (increase_size roll1 (N.of_nat (length b))), keys1, closed1, ts1.
  assert (V2 : cur_view w2 wr2 = cur_view w1 wr1 ++ b).
  { unfold cur_view. rewrite C2, <- !app_assoc, Ep. reflexivity. }
  split; [reflexivity|]. split; [exact I2|].
  split; [eapply same_env_trans; eassumption|].
  rewrite V2. destruct rot; injection V1 as -> ->; reflexivity.
Qed.

(* ------------------------------------------------------------------ flush *)
Lemma flush_active_ts c e lo w wr keys closed ts roll :
  TsInv c e lo w wr keys closed ts ->
  exists w' wr', flush_state (st_ts c ts roll wr) w = (true, w', st_ts c ts roll wr')
    /\ TsInv c e lo w' wr' keys closed ts /\ cur_view w' wr' = cur_view w wr /\ wpend wr' = [] /\ same_env w w'.
Proof.
  intros I. unfold flush_state, st_ts. cbn [f_inner].
  destruct (w_flush_quiet w wr (ti_quiet _ _ _ _ _ _ _ _ I)) as [w1 [E [F S]]]. rewrite E.
  set (wr' := {| wino := wino wr; wpend := []; wcap := wcap wr |}).
  assert (Hok : wr_ok wr') by (unfold wr_ok, wr'; cbn; destruct (wcap wr); [lia | reflexivity]).
  destruct (tsinv_append c e lo w w1 wr wr' keys closed ts (wpend wr) I F S eq_refl eq_refl Hok) as [I1 C1].
  exists w1, wr'. split; [reflexivity|]. split; [exact I1|]. split; [|split; [reflexivity | exact S]].
  unfold cur_view. rewrite C1. cbn [wr' wpend]. rewrite app_nil_r. reflexivity.
Qed.

(* ------------------------------------------------------------------ the first write initialises the writer: empty directory *)
Lemma collision_free_infix_empty off sp fixed f infix : names f = [] ->
  collision_free_infix off sp fixed f infix = Some (Some infix).
Proof.
  intros H. unfold collision_free_infix. rewrite related_files_empty by assumption.
  cbn [filter_files filter_opt app filter]. rewrite !lookup_empty by assumption. reflexivity.
Qed.

Lemma initialize_empty_ts c crit e lo w :
  tscfg c crit -> quiet w -> names (wfs w) = [] -> inodes (wfs w) = [] -> eoff c w = e -> (lo <= wnow w)%Z ->
  exists w' wr roll,
    initialize c w = (Ok (Active (Some (mk_rs (NSTs (wnow w) (Some cur_infix) std_fmt) roll)) wr (cname c)), w')
    /\ TsInv c e lo w' wr [] [] (wnow w) /\ cur_view w' wr = [] /\ same_env w w'.
Proof.
  intros [Hrot [Hts [Hlink _]]] Q Hn Hi Hoff Hlo.
  unfold initialize. rewrite Hrot. unfold init_naming.
  (* the creation time of the current file: it does not exist, the clock is read *)
  assert (E0 : creation_ts_of_current c w cur_infix (negb (c_append c)) None std_fmt = (Ok (wnow w), w)).
  { unfold creation_ts_of_current. rewrite (name_of_fixed c w) by assumption. fold (nm c cur_infix) (cname c).
    assert (Eb : birth_or_now w (cname c) = wnow w).
    { unfold birth_or_now, file_of. rewrite lookup_empty by assumption. reflexivity. }
    rewrite Eb. destruct (negb (c_append c)); [|reflexivity].
    unfold collision_free. rewrite !tick_quiet by assumption. rewrite collision_free_infix_empty by assumption.
    pose proof (p_rename_quiet w (cname c) (name_of c w (Some (infix_from_ts c w std_fmt (wnow w)))) Q) as PR.
    rewrite rename_none in PR by (apply lookup_empty; assumption). rewrite PR, Eb. reflexivity. }
  rewrite E0. cbn [bind].
  unfold open_log_file. rewrite (name_of_fixed c w) by assumption. fold (nm c cur_infix) (cname c).
  unfold do_symlink. rewrite Hlink.
  assert (D1 : match file_of (wfs w) (cname c) with Some fl => fdir fl = false | None => True end).
  { unfold file_of. rewrite lookup_empty by assumption. exact Logic.I. }
  destruct (p_open_quiet w (cname c) (c_append c) Q D1) as [w2 [Eop [F2 S2]]]. rewrite Eop.
  assert (Eopen : (if c_append c then open_append (wfs w) (cname c) (wnow w) else open_trunc (wfs w) (cname c) 0%N (wnow w))
                  = create_file (wfs w) (cname c) 0%N (wnow w)).
  { destruct (c_append c); [apply open_append_fresh | apply open_trunc_fresh]; apply lookup_empty; assumption. }
  rewrite Eopen in *. clear Eopen. cbn [bind fst snd].
  unfold create_file in F2. cbn [fst snd] in F2. rewrite Hn, Hi in F2. cbn [length app] in F2.
  unfold create_file. cbn [snd]. rewrite Hi. cbn [length].
  set (wr := {| wino := 0; wpend := []; wcap := c_cap c |}).
  assert (Lc : lookup (wfs w2) (cname c) = Some 0) by (rewrite F2; unfold lookup; cbn; rewrite beq_refl; reflexivity).
  assert (Fo : file_of (wfs w2) (cname c) = Some (fresh_file (wnow w))) by (unfold file_of; rewrite Lc, F2; reflexivity).
  assert (RN : exists roll, roll_new w2 crit (c_append c) (cname c) = (Ok roll, w2)).
  { unfold roll_new. destruct (c_append c).
    - rewrite tick_quiet by apply S2. rewrite Fo. cbn [fresh_file fdata length]. eexists. reflexivity.
    - eexists. reflexivity. }
  destruct RN as [roll Ern]. rewrite Ern. cbn [bind].
  exists w2, wr, roll. split; [reflexivity|].
  split.
  { constructor.
    - apply S2.
    - rewrite F2. split.
      + intros a j. unfold lookup; cbn. destruct (beq (cname c) a); [|discriminate]. intros E; injection E as <-. lia.
      + intros a b j. unfold lookup; cbn. destruct (beq_spec (cname c) a), (beq_spec (cname c) b); try discriminate. congruence.
    - rewrite F2. unfold dir_names. cbn [names List.map fst]. constructor; [intros [] | constructor].
    - unfold eoff in *. destruct S2 as [_ [_ [-> _]]]. exact Hoff.
    - exact Lc.
    - rewrite F2. split; reflexivity.
    - reflexivity.
    - cbn [length]. intros i Hi'. lia.
    - intros n j. rewrite F2. unfold lookup; cbn. destruct (beq_spec (cname c) n); [auto | discriminate].
    - constructor.
    - intros k [].
    - destruct S2 as [_ [-> _]]. lia.
    - unfold wr_ok, wr. cbn. destruct (c_cap c); [lia | reflexivity].
    - reflexivity. }
  split. { unfold cur_view, content, inode. rewrite F2. reflexivity. }
  exact S2.
Qed.
Print Assumptions mount_next_rotates_ts.
