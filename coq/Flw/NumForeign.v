(* Files that are not members of the logger's file family are ignored (Numbers naming):
   a run in a directory that holds foreign files is, step by step, the embedding (ForeignFs.embed) of the run in the
   empty directory - same results, same rotation flags, same family files; the foreign files are never touched.

   - foreign name: the family test of the model rejects it (ForeignModel.num_member c n = false): it is not listed as a
     numbered file, neither plain nor as an archive, and it is not the current file.  Since the repair of the number
     filter ("r" and one or more digits, nothing else) this is exactly "the name does not follow the pattern
     <fixed>_r<digits>[.restart-NNNN][.suffix][.gz] and is not the rCURRENT file" (MemberPattern.num_member_iff); before
     it, the filter accepted "r", a digit and anything, and a_r1x.log was a member (near_miss_not_member).
   - numbers_foreign_ignored: no cleanup, every criterion, every history OStart c :: ops ++ [OStop] of basic operations
     (snapshots included: a snapshot shows the foreign entries in addition, strip_obs removes them).
   - numbers_stream_foreign: numbers_stream carries over.
   - with a cleanup strategy: NumCleanupForeign.v.
   The section Run is generic in the cleanup strategy; run_embed_gen only needs that the states of the clean run have a
   writer of the kind considered and no foreign name in the directory (fam_sys). *)
Require Import FL.Base.Bytes FL.Base.BytesFacts FL.Base.PathName FL.Fs.Fs FL.Fs.FsFacts FL.Time.Civil FL.Time.TsFormat
  FL.Names.FileSpec FL.Names.NamesFacts FL.Names.SortFacts FL.Names.FamilyFacts
  FL.Flw.Model FL.Flw.ModelFacts FL.Flw.NumFs FL.Flw.NumInv FL.Flw.Run FL.Flw.RunFacts FL.Flw.NumRun FL.Flw.NumTheorems
  FL.Flw.NumListing FL.Flw.ForeignFs FL.Flw.ForeignSort FL.Flw.ForeignModel FL.Oracles.O_Flw.
From Coq Require Import ZifyN ZifyNat ZifyBool.
Open Scope nat_scope.

(* an observation without the entries of the foreign files: only snapshots show the whole directory *)
Definition is_foreign (fnm : list bytes) (n : bytes) : bool := existsb (beq n) fnm.
Definition strip_obs (fnm : list bytes) (ob : obs) : obs :=
  match ob with
  | ObsSnap files link errs => ObsSnap (filter (fun e => negb (is_foreign fnm (fst (fst e)))) files) link errs
  | _ => ob
  end.

Lemma is_foreign_iff fnm n : is_foreign fnm n = true <-> In n fnm.
Proof.
  unfold is_foreign. rewrite existsb_exists. split.
  - intros [x [Hx B]]. apply beq_eq in B. subst x. exact Hx.
  - intros H. exists n. split; [exact H | apply beq_refl].
Qed.
Lemma is_foreign_false fnm n : ~ In n fnm -> is_foreign fnm n = false.
Proof. intros H. destruct (is_foreign fnm n) eqn:E; [|reflexivity]. apply is_foreign_iff in E. contradiction. Qed.

Lemma filter_map_comm {A B} (g : A -> B) (p : B -> bool) l : filter p (List.map g l) = List.map g (filter (fun x => p (g x)) l).
Proof. induction l as [|x l IH]; cbn [List.map filter]; [reflexivity|]. rewrite IH. destruct (p (g x)); reflexivity. Qed.

Section Run.
Variable fn : list (bytes * nat).
Variable fi : list file.
Variable c : config.
Variable crit : criterion.
Variable kc : cleanup.
Hypothesis Hrot : c_rot c = Some (crit, NNumbers, kc).
Hypothesis Hts : fts (c_spec c) = false.
Hypothesis Hlink : c_symlink c = false.
Hypothesis Hasync : c_async c = false.
Hypothesis Hk : kc = KNever \/ (c_bg c = false /\ fsfx (c_spec c) <> Some gz_sfx).
Hypothesis Hforeign : forall n, In n (fnames fn) -> num_member c n = false.
Notation fnm := (fnames fn).
Notation embw := (embedw fn fi).
Notation embs := (embeds fi).

Definition embedx (x : sys) : sys :=
  {| s_flw := match s_flw x with Some s => Some (embs s) | None => None end;
     s_w := embw (s_w x); s_tl := s_tl x; s_dead := s_dead x |}.

Definition good_sys (x : sys) : Prop := forall s, s_flw x = Some s -> good_flw c kc s.

Lemma good_embedx x : good_sys x -> good_sys (embedx x).
Proof.
  intros G s Es. unfold embedx in Es. cbn [s_flw] in Es. destruct (s_flw x) as [s0|] eqn:E0; [|discriminate].
  injection Es as <-. destruct (G s0 E0) as [Ec [Hp Gi]]. split; [exact Ec|]. split; [exact Hp|].
  cbn [embeds f_inner]. destruct (f_inner s0) as [|[rs|] wr path]; exact Gi.
Qed.

Lemma step_sync_good x o : good_sys x -> step x o = sync_step x o.
Proof.
  intros G.
  rewrite step_plain by (intros s Es; destruct (G s Es) as [Ec _]; rewrite Ec; exact Hts).
  unfold step_core. destruct (s_flw x) as [s|] eqn:Es; [|reflexivity].
  unfold is_async. destruct (G s Es) as [Ec _]. rewrite Ec, Hasync. reflexivity.
Qed.

(* ---- one step: every operation of the histories considered, except the snapshot ---- *)
Definition run_op (o : op) : Prop :=
  match o with OWrite _ | OPlain _ | OFlush | OTrigger | OTick _ | OStop => True | _ => False end.

Lemma sync_step_embed x o : good_sys x -> run_op o ->
  sync_step (embedx x) o = (embedx (fst (sync_step x o)), snd (sync_step x o)).
Proof.
  intros G Ho. destruct o; try contradiction; cbn [sync_step embedx s_flw s_w s_tl s_dead].
  - (* OWrite *)
    destruct (s_flw x) as [s|] eqn:Es; [|reflexivity]. destruct (G s Es) as [Ec [Hp Gi]].
    change (f_poisoned (embs s)) with (f_poisoned s). rewrite Hp.
    rewrite (write_buffer_embed fn fi c crit kc Hrot Hts Hlink Hk Hforeign) by (repeat split; assumption).
    destruct (write_buffer s (s_w x) (s_tl x ++ b)) as [[[r w1] s1] rot]. cbn [lwb].
    destruct r; cbn [fst snd embedx s_flw s_w s_tl s_dead]; try reflexivity. rewrite report_embed. reflexivity.
  - (* OPlain *)
    destruct (s_flw x) as [s|] eqn:Es; [|reflexivity]. destruct (G s Es) as [Ec [Hp Gi]].
    change (f_poisoned (embs s)) with (f_poisoned s). rewrite Hp.
    rewrite (write_buffer_embed fn fi c crit kc Hrot Hts Hlink Hk Hforeign) by (repeat split; assumption).
    destruct (write_buffer s (s_w x) b) as [[[r w1] s1] rot]. reflexivity.
  - (* OFlush *)
    destruct (s_flw x) as [s|] eqn:Es; [|reflexivity]. destruct (G s Es) as [Ec [Hp Gi]].
    change (f_poisoned (embs s)) with (f_poisoned s). rewrite Hp.
    rewrite flush_state_embed. destruct (flush_state s (s_w x)) as [[ok w1] s1]. reflexivity.
  - (* OTrigger *)
    destruct (s_flw x) as [s|] eqn:Es; [|reflexivity]. destruct (G s Es) as [Ec [Hp Gi]].
    change (f_poisoned (embs s)) with (f_poisoned s). rewrite Hp.
    change (f_cfg (embs s)) with (f_cfg s). change (f_inner (embs s)) with (shin fi (f_inner s)). rewrite Ec.
    rewrite (mount_next_embed fn fi c crit kc Hrot Hts Hlink Hk Hforeign) by exact Gi.
    destruct (mount_next c (s_w x) (f_inner s) true) as [[r w1] st1]. cbn [lm]. destruct r; reflexivity.
  - (* OStop *)
    destruct (s_flw x) as [s|] eqn:Es; [|reflexivity]. destruct (G s Es) as [Ec [Hp Gi]].
    change (f_poisoned (embs s)) with (f_poisoned s). rewrite Hp. rewrite drop_state_embed. reflexivity.
  - (* OTick *) reflexivity.
Qed.

Lemma step_embed x o : good_sys x -> run_op o ->
  step (embedx x) o = (embedx (fst (step x o)), snd (step x o)).
Proof.
  intros G Ho. rewrite (step_sync_good (embedx x)) by (apply good_embedx; exact G).
  rewrite (step_sync_good x) by exact G. apply sync_step_embed; assumption.
Qed.

(* ---- the snapshot ---- *)
Lemma snapshot_embed w : (forall n, In n (dir_names (wfs w)) -> ~ In n fnm) ->
  strip_obs fnm (snapshot (embw w)) = snapshot w.
Proof.
  intros Hown. unfold snapshot. change (wfs (embw w)) with (embed fn fi (wfs w)). cbn [strip_obs]. f_equal.
  rewrite filter_map_comm, dir_names_embed.
  rewrite (filter_ext (fun n => negb (is_foreign fnm (fst (fst
             match file_of (embed fn fi (wfs w)) n with
             | Some fl => (n, if fdir fl then 3%N else fgz fl, fdata fl) | None => (n, 0%N, []) end))))
           (fun n => negb (is_foreign fnm n))) by (intros n; destruct (file_of (embed fn fi (wfs w)) n); reflexivity).
  rewrite filter_sort_names_app by (intros b Hb; apply is_foreign_iff in Hb; rewrite Hb; reflexivity).
  rewrite filter_all by (intros n Hn; apply (proj1 (sort_names_in_iff _ _)) in Hn; rewrite is_foreign_false by (apply Hown; exact Hn); reflexivity).
  apply map_ext_in. intros n Hn. apply (proj1 (sort_names_in_iff _ _)) in Hn. apply dir_names_lookup in Hn. destruct Hn as [j Hj].
  rewrite (file_of_embed_known fn fi _ _ _ Hj). reflexivity.
Qed.

(* a system whose writer (if any) is of the kind considered and whose directory holds no name of the stock *)
Definition fam_sys (x : sys) : Prop := good_sys x /\ forall n, In n (dir_names (wfs (s_w x))) -> ~ In n fnm.

Lemma step_embed_fam x o : fam_sys x -> basic_op o ->
  fst (step (embedx x) o) = embedx (fst (step x o))
  /\ strip_obs fnm (snd (step (embedx x) o)) = snd (step x o)
  /\ (o <> OSnap -> snd (step (embedx x) o) = snd (step x o)).
Proof.
  intros [G Hown] Hb. destruct o; try contradiction;
    try (rewrite step_embed by (try exact G; exact Logic.I); cbn [fst snd]; split; [reflexivity|]; split; [|reflexivity];
         rewrite (step_sync_good x) by exact G; cbn [sync_step];
         repeat match goal with
                | |- context [match ?X with _ => _ end] => destruct X
                end; reflexivity).
  (* OSnap *)
  rewrite (step_sync_good (embedx x)) by (apply good_embedx; exact G). rewrite (step_sync_good x) by exact G.
  cbn [sync_step fst snd]. split; [reflexivity|]. split; [|congruence].
  cbn [embedx s_w]. apply snapshot_embed. exact Hown.
Qed.

(* ---- a history: every state that the run in the clean directory passes through is of the kind considered ---- *)
Lemma run_embed_gen : forall ops x, (forall i, fam_sys (fst (run x (firstn i ops)))) -> Forall basic_op ops ->
  fst (run (embedx x) ops) = embedx (fst (run x ops))
  /\ List.map (strip_obs fnm) (snd (run (embedx x) ops)) = snd (run x ops)
  /\ (Forall (fun o => o <> OSnap) ops -> snd (run (embedx x) ops) = snd (run x ops)).
Proof.
  induction ops as [|o r IH]; intros x F Hb; [repeat split|].
  inversion Hb as [|o' r' Ho Hr]; subst. cbn [run].
  pose proof (step_embed_fam x o (F 0) Ho) as [E1 [E2 E3]].
  assert (F1 : forall i, fam_sys (fst (run (fst (step x o)) (firstn i r)))).
  { intros i. specialize (F (S i)). cbn [firstn run] in F. destruct (step x o) as [x1 ob]. cbn [fst].
    destruct (run x1 (firstn i r)) as [x2 obs]. exact F. }
  destruct (step (embedx x) o) as [xf1 obf] eqn:Ef. destruct (step x o) as [x1 ob] eqn:Ex. cbn [fst snd] in *.
  subst xf1. specialize (IH x1 F1 Hr).
  destruct (run (embedx x1) r) as [xf2 obsf]. destruct (run x1 r) as [x2 obs]. cbn [fst snd] in *.
  destruct IH as [I1 [I2 I3]]. split; [exact I1|]. split.
  - cbn [List.map]. rewrite E2, I2. reflexivity.
  - intros Hs. inversion Hs as [|o'' r'' Hso Hsr]. rewrite (E3 Hso), (I3 Hsr). reflexivity.
Qed.

(* ---- a whole run: start, history, stop ---- *)
Lemma run_full_embed_gen t0 off ops : Forall basic_op ops ->
  (forall i, fam_sys (fst (run (fst (step (sys0 t0 off) (OStart c))) (firstn i ops)))) ->
  let ops' := OStart c :: ops ++ [OStop] in
  fst (run (embedx (sys0 t0 off)) ops') = embedx (fst (run (sys0 t0 off) ops'))
  /\ List.map (strip_obs fnm) (snd (run (embedx (sys0 t0 off)) ops')) = snd (run (sys0 t0 off) ops')
  /\ (Forall (fun o => o <> OSnap) ops -> snd (run (embedx (sys0 t0 off)) ops') = snd (run (sys0 t0 off) ops')).
Proof.
  intros Hb F ops'. subst ops'. cbn [run].
  assert (E0 : step (embedx (sys0 t0 off)) (OStart c) = (embedx (fst (step (sys0 t0 off) (OStart c))), ObsRes 0 false)) by reflexivity.
  rewrite E0. clear E0.
  destruct (step (sys0 t0 off) (OStart c)) as [x0 ob0] eqn:Ex0.
  assert (Eob : ob0 = ObsRes 0 false) by (cbn in Ex0; congruence).
  cbn [fst] in *. rewrite !run_app.
  pose proof (run_embed_gen ops x0 F Hb) as [E1 [E2 E3]].
  pose proof (F (length ops)) as [G1 _]. rewrite firstn_all in G1.
  destruct (run (embedx x0) ops) as [xf1 obsf1]. destruct (run x0 ops) as [x1 obs1]. cbn [fst snd] in *. subst xf1.
  cbn [run]. pose proof (step_embed x1 OStop G1 Logic.I) as ES.
  assert (Eob2 : strip_obs fnm (snd (step x1 OStop)) = snd (step x1 OStop)).
  { rewrite (step_sync_good x1) by exact G1. cbn [sync_step]. destruct (s_flw x1); reflexivity. }
  destruct (step (embedx x1) OStop) as [xf2 obf2]. destruct (step x1 OStop) as [x2 ob2]. cbn [fst snd] in *.
  injection ES as -> ->.
  split; [reflexivity|]. split.
  - cbn [List.map]. rewrite map_app, E2, Eob. cbn [List.map]. rewrite Eob2. reflexivity.
  - intros Hs. rewrite (E3 Hs), Eob. reflexivity.
Qed.

End Run.

Lemma Forall_firstn' {A} (P : A -> Prop) (l : list A) i : Forall P l -> Forall P (firstn i l).
Proof. revert i. induction l as [|x l IH]; intros [|i] H; cbn [firstn]; auto. inversion H; subst. constructor; auto. Qed.

(* ---- without cleanup: the states related to an abstract view are of the kind considered ---- *)
Lemma rel_fam fn c crit x a : (forall n, In n (fnames fn) -> num_member c n = false) ->
  Rel c crit x a -> fam_sys fn c KNever x.
Proof.
  intros Hforeign [_ [_ R]]. split.
  - intros s Es. destruct a as [[closed cur]|].
    + destruct R as [wr [roll [E _]]]. rewrite E in Es. injection Es as <-. repeat split. cbn. eauto.
    + destruct R as [E _]. rewrite E in Es. injection Es as <-. repeat split.
  - intros n Hn. destruct a as [[closed cur]|].
    + destruct R as [wr [roll [_ [I _]]]]. apply dir_names_lookup in Hn. destruct Hn as [j Hj].
      destruct (ni_only _ _ _ _ I n j Hj) as [->|[i [_ ->]]].
      * exact (cname_own fn c Hforeign).
      * apply (rname_own fn c Hforeign).
    + destruct R as [_ [_ [E _]]]. unfold dir_names in Hn. rewrite E in Hn. destruct Hn.
Qed.

(* ------------------------------------------------------------------ the directory with the foreign files *)
Definition plain_file (t0 : Z) (d : bytes) : file := {| fdata := d; fgz := 0%N; fborn := t0; fdir := false |}.

(* the foreign files are there before the logger starts: created one after the other (the last of the list first) *)
Definition fs0f (t0 : Z) (foreign : list (bytes * bytes)) : fs :=
  fold_right (fun p f => ext_create f (fst p) 0%N (snd p) t0) empty_fs foreign.
Definition sys0f (t0 off : Z) (foreign : list (bytes * bytes)) : sys :=
  {| s_flw := None; s_w := set_fs (world0 t0 off) (fs0f t0 foreign); s_tl := []; s_dead := false |}.

Lemma upd_app_last {A} (l : list A) x y : upd (l ++ [x]) (length l) y = l ++ [y].
Proof. induction l as [|z l IH]; cbn [app length upd]; [reflexivity|]. rewrite IH. reflexivity. Qed.

Lemma ext_create_fresh f a d now : lookup f a = None ->
  ext_create f a 0%N d now = {| names := (a, length (inodes f)) :: names f; inodes := inodes f ++ [plain_file now d] |}.
Proof.
  intros H. unfold ext_create. rewrite open_trunc_fresh by exact H. unfold create_file. cbn [names inodes].
  rewrite upd_app_last. unfold inode. cbn [inodes]. rewrite inode_app_new. reflexivity.
Qed.

Lemma fs0f_spec t0 foreign : NoDup (List.map fst foreign) ->
  dir_names (fs0f t0 foreign) = List.map fst foreign
  /\ (forall n j, lookup (fs0f t0 foreign) n = Some j -> j < length (inodes (fs0f t0 foreign)))
  /\ (forall n d, In (n, d) foreign -> file_of (fs0f t0 foreign) n = Some (plain_file t0 d)).
Proof.
  induction foreign as [|[a d0] r IH]; intros ND.
  - split; [reflexivity|]. split; [intros n j H; discriminate | intros n d []].
  - cbn [List.map fst] in ND. inversion ND as [|a' r' Ha NDr]; subst. destruct (IH NDr) as [Hd [Hb Hf]].
    assert (La : lookup (fs0f t0 r) a = None).
    { destruct (lookup (fs0f t0 r) a) as [j|] eqn:E; [|reflexivity]. exfalso. apply Ha. rewrite <- Hd.
      apply dir_names_lookup. eauto. }
    cbn [fs0f fold_right fst snd]. fold (fs0f t0 r). rewrite (ext_create_fresh _ _ _ _ La).
    set (F := fs0f t0 r) in *.
    assert (Lk : forall n, lookup {| names := (a, length (inodes F)) :: names F; inodes := inodes F ++ [plain_file t0 d0] |} n
                 = if beq a n then Some (length (inodes F)) else lookup F n).
    { intros n. unfold lookup. cbn [names find fst snd]. destruct (beq a n); reflexivity. }
    split; [|split].
    + unfold dir_names. cbn [names List.map fst]. fold (dir_names F). rewrite Hd. reflexivity.
    + intros n j. rewrite Lk. cbn [inodes]. rewrite app_length. cbn [length]. destruct (beq a n).
      * intros E. injection E as <-. lia.
      * intros E. apply Hb in E. lia.
    + intros n d Hin. unfold file_of. rewrite Lk. destruct Hin as [E|Hin].
      * injection E as <- <-. rewrite beq_refl. unfold inode. cbn [inodes]. rewrite inode_app_new. reflexivity.
      * assert (Hne : a <> n). { intros <-. apply Ha. apply (in_map fst) in Hin. exact Hin. }
        rewrite beq_neq by exact Hne. pose proof (Hf n d Hin) as Fo. unfold file_of in Fo.
        destruct (lookup F n) as [j|] eqn:Ej; [|discriminate]. unfold inode. cbn [inodes].
        rewrite inode_app_old by (eapply Hb; eassumption). exact Fo.
Qed.

Lemma sys0f_embed t0 off foreign :
  sys0f t0 off foreign = embedx (names (fs0f t0 foreign)) (inodes (fs0f t0 foreign)) (sys0 t0 off).
Proof.
  unfold sys0f, embedx, sys0. cbn [s_flw s_w s_tl s_dead]. f_equal. unfold embedw. cbn [world0 wfs]. rewrite stock_embed.
  unfold stock. destruct (fs0f t0 foreign); reflexivity.
Qed.

(* ------------------------------------------------------------------ the theorem *)
(* what "the foreign files are ignored" means for the histories  OStart c :: ops ++ [OStop] *)
Definition foreign_ignored (c : config) (t0 off : Z) (foreign : list (bytes * bytes)) (ops : list op) : Prop :=
  let ops' := OStart c :: ops ++ [OStop] in
  let rf := run (sys0f t0 off foreign) ops' in
  let r0 := run (sys0 t0 off) ops' in
  (* 1: the same observations; a snapshot shows the foreign files in addition *)
  List.map (strip_obs (List.map fst foreign)) (snd rf) = snd r0
  /\ (Forall (fun o => o <> OSnap) ops -> snd rf = snd r0)
  (* 2: the foreign files are in place, unchanged *)
  /\ (forall n d, In (n, d) foreign -> file_of (wfs (s_w (fst rf))) n = Some (plain_file t0 d))
  (* 3: every other name is what the run in the empty directory makes of it *)
  /\ (forall n, ~ In n (List.map fst foreign) -> file_of (wfs (s_w (fst rf))) n = file_of (wfs (s_w (fst r0))) n)
  /\ (forall n, In n (List.map fst foreign) -> file_of (wfs (s_w (fst r0))) n = None)
  (* the whole state: the run is the embedding of the run in the empty directory *)
  /\ fst rf = embedx (names (fs0f t0 foreign)) (inodes (fs0f t0 foreign)) (fst r0).

(* the common part: it suffices that the states of the run in the empty directory are of the kind considered and that
   its final directory holds none of the foreign names *)
Lemma foreign_ignored_gen c crit kc t0 off foreign ops :
  c_rot c = Some (crit, NNumbers, kc) -> fts (c_spec c) = false -> c_symlink c = false -> c_async c = false ->
  (kc = KNever \/ (c_bg c = false /\ fsfx (c_spec c) <> Some gz_sfx)) ->
  Forall basic_op ops -> NoDup (List.map fst foreign) ->
  (forall n, In n (List.map fst foreign) -> num_member c n = false) ->
  (forall i, fam_sys (names (fs0f t0 foreign)) c kc (fst (run (fst (step (sys0 t0 off) (OStart c))) (firstn i ops)))) ->
  (forall n, In n (List.map fst foreign) ->
     lookup (wfs (s_w (fst (run (sys0 t0 off) (OStart c :: ops ++ [OStop]))))) n = None) ->
  foreign_ignored c t0 off foreign ops.
Proof.
  intros Hrot Hts Hlink Hasync Hk Hb ND Hfor F E4. unfold foreign_ignored. cbv zeta.
  set (ops' := OStart c :: ops ++ [OStop]) in *.
  destruct (fs0f_spec t0 foreign ND) as [Hd [Hbd Hf]].
  set (fn := names (fs0f t0 foreign)) in *. set (fi := inodes (fs0f t0 foreign)) in *.
  assert (Hfn : fnames fn = List.map fst foreign) by exact Hd.
  assert (Hforeign : forall n, In n (fnames fn) -> num_member c n = false) by (rewrite Hfn; exact Hfor).
  rewrite sys0f_embed. fold fn fi.
  destruct (run_full_embed_gen fn fi c crit kc Hrot Hts Hlink Hasync Hk Hforeign t0 off ops Hb F) as [E1 [E2 E3]].
  fold ops' in E1, E2, E3. rewrite Hfn in E2.
  assert (Est : stock fn fi = fs0f t0 foreign) by (unfold stock, fn, fi; destruct (fs0f t0 foreign); reflexivity).
  split; [exact E2|]. split; [exact E3|]. rewrite E1. cbn [embedx s_w]. unfold embedw. cbn [set_fs wfs].
  split; [|split; [|split; [|reflexivity]]].
  - intros n d Hin. rewrite file_of_embed_stock.
    + rewrite Est. apply Hf. exact Hin.
    + apply E4. apply (in_map fst) in Hin. exact Hin.
    + rewrite Est. intros j Hj. apply Hbd in Hj. exact Hj.
  - intros n Hn. apply file_of_embed_own. rewrite Hfn. exact Hn.
  - intros n Hn. unfold file_of. rewrite (E4 n Hn). reflexivity.
Qed.

(* The foreign-name condition: the family test of the model (num_member) rejects the name - it is not listed as a
   numbered file, neither plain nor compressed, and it is not the current file. *)
Theorem numbers_foreign_ignored c crit t0 off foreign ops :
  numcfg c crit -> Forall basic_op ops ->
  NoDup (List.map fst foreign) ->
  (forall n, In n (List.map fst foreign) -> num_member c n = false) ->
  let ops' := OStart c :: ops ++ [OStop] in
  let rf := run (sys0f t0 off foreign) ops' in
  let r0 := run (sys0 t0 off) ops' in
  (* 1: the same observations; a snapshot shows the foreign files in addition *)
  List.map (strip_obs (List.map fst foreign)) (snd rf) = snd r0
  /\ (Forall (fun o => o <> OSnap) ops -> snd rf = snd r0)
  (* 2: the foreign files are in place, unchanged *)
  /\ (forall n d, In (n, d) foreign -> file_of (wfs (s_w (fst rf))) n = Some (plain_file t0 d))
  (* 3: every other name is what the run in the empty directory makes of it *)
  /\ (forall n, ~ In n (List.map fst foreign) -> file_of (wfs (s_w (fst rf))) n = file_of (wfs (s_w (fst r0))) n)
  /\ (forall n, In n (List.map fst foreign) -> file_of (wfs (s_w (fst r0))) n = None)
  (* the whole state: the run is the embedding of the run in the empty directory *)
  /\ fst rf = embedx (names (fs0f t0 foreign)) (inodes (fs0f t0 foreign)) (fst r0).
Proof.
  intros Hcfg Hb ND Hfor. pose proof Hcfg as [Hrot [Hts [Hlink Hasync]]].
  destruct (fs0f_spec t0 foreign ND) as [Hd _].
  assert (Hforeign : forall n, In n (fnames (names (fs0f t0 foreign))) -> num_member c n = false).
  { intros n Hn. apply Hfor. rewrite <- Hd. exact Hn. }
  apply (foreign_ignored_gen c crit KNever t0 off foreign ops Hrot Hts Hlink Hasync (or_introl eq_refl) Hb ND Hfor).
  - intros i. eapply rel_fam; [exact Hforeign|].
    apply (run_rel c crit Hcfg (firstn i ops) _ None (start_rel c crit t0 off)). apply Forall_firstn'. exact Hb.
  - intros n Hn. rewrite <- Hd in Hn. cbn [run]. destruct (step (sys0 t0 off) (OStart c)) as [x0 ob0] eqn:Ex0.
    pose proof (start_rel c crit t0 off) as R0. rewrite Ex0 in R0. cbn [fst] in R0. rewrite run_app.
    pose proof (run_rel c crit Hcfg ops x0 None R0 Hb) as R1.
    destruct (run x0 ops) as [x1 obs1]. cbn [fst snd] in *.
    pose proof (stop_rel c crit x1 _ Hcfg R1) as S. cbn [run]. destruct (step x1 OStop) as [x2 ob2]. cbn [fst].
    destruct (lookup (wfs (s_w x2)) n) as [j|] eqn:Ej; [exfalso|reflexivity].
    destruct (a_run None ops obs1) as [[closed cur]|].
    + destruct S as [_ [_ Hon]]. destruct (Hon n j Ej) as [->|[i [_ ->]]].
      * exact (cname_own _ c Hforeign Hn).
      * exact (rname_own _ c Hforeign _ Hn).
    + unfold lookup in Ej. rewrite S in Ej. discriminate.
Qed.
Print Assumptions numbers_foreign_ignored.

(* ------------------------------------------------------------------ the stream of records *)
Lemma member_rname c i : num_member c (rname c i) = true.
Proof. unfold num_member. rewrite qf_rname. reflexivity. Qed.
Lemma member_cname c : num_member c (cname c) = true.
Proof. unfold num_member. rewrite beq_refl, !orb_true_r. reflexivity. Qed.

(* the family files of a directory that may hold other files, too: r00000.., rCURRENT hold `files`, and no other
   name outside the foreign ones exists *)
Definition reads_family (c : config) (fnm : list bytes) (f : fs) (files : list bytes) : Prop :=
  match files with
  | [] => forall n, ~ In n fnm -> file_of f n = None
  | _ => exists closed cur, files = closed ++ [cur]
         /\ (forall i, i < length closed ->
               exists fl, file_of f (rname c i) = Some fl /\ plain fl /\ fdata fl = nth i closed [])
         /\ (exists fl, file_of f (cname c) = Some fl /\ plain fl /\ fdata fl = cur)
         /\ (forall n, ~ In n fnm -> file_of f n <> None -> n = cname c \/ exists i, i < length closed /\ n = rname c i)
  end.

(* numbers_stream carries over: with foreign files in the directory the family files still hold, in their order,
   exactly the bytes written *)
Theorem numbers_stream_foreign c crit t0 off foreign ops :
  numcfg c crit -> Forall basic_op ops ->
  NoDup (List.map fst foreign) ->
  (forall n, In n (List.map fst foreign) -> num_member c n = false) ->
  exists files,
    reads_family c (List.map fst foreign)
      (wfs (s_w (fst (run (sys0f t0 off foreign) (OStart c :: ops ++ [OStop]))))) files
    /\ concat files = written ops.
Proof.
  intros Hcfg Hb ND Hfor.
  destruct (numbers_foreign_ignored c crit t0 off foreign ops Hcfg Hb ND Hfor) as [_ [_ [_ [H3 _]]]].
  destruct (numbers_stream c crit t0 off ops Hcfg Hb) as [files [Hr Hc]].
  exists files. split; [|exact Hc].
  set (ff := wfs (s_w (fst (run (sys0f t0 off foreign) (OStart c :: ops ++ [OStop]))))) in *.
  set (f0 := wfs (s_w (fst (run (sys0 t0 off) (OStart c :: ops ++ [OStop]))))) in *.
  assert (Hrn : forall i, ~ In (rname c i) (List.map fst foreign)).
  { intros i Hi. apply Hfor in Hi. rewrite member_rname in Hi. discriminate. }
  assert (Hcn : ~ In (cname c) (List.map fst foreign)).
  { intros Hi. apply Hfor in Hi. rewrite member_cname in Hi. discriminate. }
  unfold reads in Hr. unfold reads_family. destruct files as [|f1 fr].
  - intros n Hn. rewrite (H3 n Hn). unfold file_of, lookup. rewrite Hr. reflexivity.
  - destruct Hr as [closed [cur [E [Hcl [Hcu Hon]]]]]. exists closed, cur. split; [exact E|]. split; [|split].
    + intros i Hi. destruct (Hcl i Hi) as [j [Lj [Pj Cj]]]. exists (inode f0 j).
      split; [rewrite (H3 _ (Hrn i)); unfold file_of; rewrite Lj; reflexivity|]. split; [exact Pj | exact Cj].
    + destruct Hcu as [j [Lj [Pj Cj]]]. exists (inode f0 j).
      split; [rewrite (H3 _ Hcn); unfold file_of; rewrite Lj; reflexivity|]. split; [exact Pj | exact Cj].
    + intros n Hn Hex. rewrite (H3 n Hn) in Hex. unfold file_of in Hex.
      destruct (lookup f0 n) as [j|] eqn:Lj; [|congruence]. exact (Hon n j Lj).
Qed.
Print Assumptions numbers_stream_foreign.

(* ------------------------------------------------------------------ which names are foreign *)
(* a member other than the current file has the shape  <fixed>_ r <one or more digits> <rest>  (the rest: the restart
   part, the suffix, ".gz"; MemberPattern.num_member_iff has the exact shape): names of another shape are foreign, in particular every
   name that does not start with the fixed name part, and every name with anything but digits between "r" and the
   first dot *)
Theorem num_member_shape c n : num_member c n = true ->
  n = cname c \/ exists ds y, ds <> [] /\ all_digits ds = true /\ n = under (fixed0 c) ++ r_char :: ds ++ y.
Proof.
  unfold num_member. intros H. apply orb_true_iff in H. destruct H as [H|H]; [|left; apply beq_eq; exact H].
  right. apply orb_true_iff in H. destruct H as [H|H]; eapply qf_num_shape; exact H.
Qed.

Corollary foreign_no_prefix c n : is_prefix (fixed0 c) n = false -> num_member c n = false.
Proof.
  intros Hp. destruct (num_member c n) eqn:E; [|reflexivity]. exfalso.
  apply num_member_shape in E. destruct E as [->|[ds [y [_ [_ ->]]]]].
  - rewrite cname_shape, is_prefix_under in Hp. discriminate.
  - rewrite is_prefix_under in Hp. discriminate.
Qed.

(* ------------------------------------------------------------------ examples *)
Import String.StringSyntax.
Open Scope string_scope.
Definition ex_c : config :=
  {| c_spec := {| fbase := bs "a"; fdisc := None; fts := false; fsfx := Some (bs "log") |};
     c_append := false; c_cap := None; c_rot := Some (CSize 3, NNumbers, KNever); c_utc := false;
     c_symlink := false; c_bg := false; c_async := false; c_start := None |}.

(* near misses of the family a_r<number>.log / a_rCURRENT.log: another suffix behind or instead of the suffix, no
   digit, another fixed part, no suffix, an archive of the current file, the fixed part alone - and the names that the
   number filter of the code took for numbered files before its repair ("r", a digit, anything): a letter behind the
   number, a word behind the number, a time-stamp infix *)
Definition ex_foreign : list (bytes * bytes) :=
  [ (bs "a_r00001.log.bak", bs "w"); (bs "a_rx.log", bs "x"); (bs "b.log", bs "y"); (bs "a_r00001.txt", bs "z");
    (bs "ax_r00001.log", bs "v"); (bs "a_r00001", bs "t"); (bs "a_rCURRENT.log.gz", bs "s");
    (bs "a.log", bs "q");
    (bs "a_r1x.log", bs "1"); (bs "a_r1backup.log", bs "2"); (bs "a_r00001x.log", bs "3");
    (bs "a_r2024-02-29_23-59-58.log", bs "4") ].

(* three rotations: "abcd" is larger than 3, the trigger, "ghij" is larger than 3 *)
Definition ex_ops : list op :=
  [OWrite (bs "abcd"); OWrite (bs "ef"); OTrigger; OWrite (bs "ghij"); OSnap; OWrite (bs "k")].

Definition ex_snap (x : sys) : list (bytes * N * bytes) :=
  match snapshot (s_w x) with ObsSnap l _ _ => l | _ => [] end.

Example foreign_hypotheses :
  numcfg ex_c (CSize 3) /\ Forall basic_op ex_ops /\ NoDup (List.map fst ex_foreign)
  /\ (forall n, In n (List.map fst ex_foreign) -> num_member ex_c n = false).
Proof.
  split; [repeat split|]. split; [repeat constructor|]. split.
  - repeat (constructor; [vm_compute; intuition discriminate|]). constructor.
  - intros n Hn. cbn [List.map fst ex_foreign In] in Hn.
    repeat (destruct Hn as [<-|Hn]; [vm_compute; reflexivity|]). destruct Hn.
Qed.

(* the theorem applied *)
Example foreign_instance :
  List.map (strip_obs (List.map fst ex_foreign)) (snd (run (sys0f 0 0 ex_foreign) (OStart ex_c :: ex_ops ++ [OStop])))
  = snd (run (sys0 0 0) (OStart ex_c :: ex_ops ++ [OStop])).
Proof.
  destruct foreign_hypotheses as [H1 [H2 [H3 H4]]].
  exact (proj1 (numbers_foreign_ignored ex_c (CSize 3) 0 0 ex_foreign ex_ops H1 H2 H3 H4)).
Qed.

(* ... and computed: the directory after the run *)
Example foreign_instance_dir :
  ex_snap (fst (run (sys0f 0 0 ex_foreign) (OStart ex_c :: ex_ops ++ [OStop])))
  = [ (bs "a.log", 0%N, bs "q");
      (bs "a_r00000.log", 0%N, bs "abcd");
      (bs "a_r00001", 0%N, bs "t");
      (bs "a_r00001.log", 0%N, bs "ef");
      (bs "a_r00001.log.bak", 0%N, bs "w");
      (bs "a_r00001.txt", 0%N, bs "z");
      (bs "a_r00001x.log", 0%N, bs "3");
      (bs "a_r00002.log", 0%N, bs "ghij");
      (bs "a_r1backup.log", 0%N, bs "2");
      (bs "a_r1x.log", 0%N, bs "1");
      (bs "a_r2024-02-29_23-59-58.log", 0%N, bs "4");
      (bs "a_rCURRENT.log", 0%N, bs "k");
      (bs "a_rCURRENT.log.gz", 0%N, bs "s");
      (bs "a_rx.log", 0%N, bs "x");
      (bs "ax_r00001.log", 0%N, bs "v");
      (bs "b.log", 0%N, bs "y") ]
  /\ ex_snap (fst (run (sys0 0 0) (OStart ex_c :: ex_ops ++ [OStop])))
  = [ (bs "a_r00000.log", 0%N, bs "abcd"); (bs "a_r00001.log", 0%N, bs "ef"); (bs "a_r00002.log", 0%N, bs "ghij");
      (bs "a_rCURRENT.log", 0%N, bs "k") ].
Proof. vm_compute. split; reflexivity. Qed.

(* the observations other than the snapshot are literally the same *)
Example foreign_instance_obs :
  filter (fun ob => match ob with ObsSnap _ _ _ => false | _ => true end)
    (snd (run (sys0f 0 0 ex_foreign) (OStart ex_c :: ex_ops ++ [OStop])))
  = [ObsRes 0 false; ObsRes 0 false; ObsRes 0 true; ObsRes 0 false; ObsRes 0 false; ObsRes 0 true; ObsRes 0 false].
Proof. vm_compute. reflexivity. Qed.

(* BEFORE THE REPAIR of the number filter (InfixFilter::Numbrs: "r", a digit and at least one more byte, whatever it is)
   the family test was wider than "r and a number": "a_r1x.log" was a member of the family, although no writer ever
   produces this name.  It could not be read as a number and counted as index 0: the numbering of a writer that found it
   started at 1 (the former counterexample near_miss_is_member: rotated files r00001, r00002, r00003), and a cleanup
   counted, compressed and deleted it.
   NOW the filter wants "r" and one or more digits and nothing else: these names are foreign (num_member rejects them),
   the run with such a file in the directory is the run without it, the file stays what it was. *)
Example near_miss_not_member :
  num_member ex_c (bs "a_r1x.log") = false
  /\ num_member ex_c (bs "a_r1backup.log") = false
  /\ num_member ex_c (bs "a_r00001x.log") = false
  /\ num_member ex_c (bs "a_r2024-02-29_23-59-58.log") = false
  /\ num_member ex_c (bs "a_r7x.log.gz") = false
  /\ ex_snap (fst (run (sys0f 0 0 [(bs "a_r1x.log", bs "w")]) (OStart ex_c :: ex_ops ++ [OStop])))
     = [ (bs "a_r00000.log", 0%N, bs "abcd"); (bs "a_r00001.log", 0%N, bs "ef"); (bs "a_r00002.log", 0%N, bs "ghij");
         (bs "a_r1x.log", 0%N, bs "w"); (bs "a_rCURRENT.log", 0%N, bs "k") ]
  /\ List.map (strip_obs [bs "a_r1x.log"]) (snd (run (sys0f 0 0 [(bs "a_r1x.log", bs "w")]) (OStart ex_c :: ex_ops ++ [OStop])))
     = snd (run (sys0 0 0) (OStart ex_c :: ex_ops ++ [OStop])).
Proof. vm_compute. repeat split; reflexivity. Qed.

(* What is "not foreign although no writer of this configuration wrote it": every name that does follow the pattern.
   The repaired filter accepts a number of any length: "a_r1.log" (one digit; the old filter wanted three bytes and
   rejected it), "a_r000000000007.log", a stranger's "a_r00005.log" or "a_rCURRENT.log", archives and restart siblings of
   such names.  They are taken for the logger's own: here a_r1.log counts as index 1, the numbering goes on at 2. *)
Example short_number_is_member :
  num_member ex_c (bs "a_r1.log") = true
  /\ num_member ex_c (bs "a_r000000000007.log") = true
  /\ num_member ex_c (bs "a_r1.log.gz") = true
  /\ num_member ex_c (bs "a_r1.restart-0000.log") = true
  /\ num_member ex_c (bs "a_rCURRENT.log") = true
  /\ ex_snap (fst (run (sys0f 0 0 [(bs "a_r1.log", bs "w")]) (OStart ex_c :: ex_ops ++ [OStop])))
     = [ (bs "a_r00002.log", 0%N, bs "abcd"); (bs "a_r00003.log", 0%N, bs "ef"); (bs "a_r00004.log", 0%N, bs "ghij");
         (bs "a_r1.log", 0%N, bs "w"); (bs "a_rCURRENT.log", 0%N, bs "k") ].
Proof. vm_compute. repeat split; reflexivity. Qed.
