(* Numbers naming with a cleanup strategy, restart after a kill (C11), part 3: what the next writer's listing and cleanup
   make of a directory of the shape xdir - in particular of an archive that stands next to its original (interrupted
   compression): it is listed, recognised as redundant (redundant_gz), removed before the cleanup proper, and the
   original is compressed anew if the limits say so. *)
Require Import FL.Base.Bytes FL.Base.BytesFacts FL.Base.PathName FL.Fs.Fs FL.Fs.FsFacts FL.Time.Civil FL.Time.TsFormat
  FL.Names.FileSpec FL.Names.NamesFacts FL.Names.SortFacts FL.Names.FamilyFacts FL.Flw.Model FL.Flw.ModelFacts FL.Flw.NumFs
  FL.Flw.NumInv FL.Flw.Run FL.Flw.RunFacts FL.Flw.NumRun FL.Flw.NumListing FL.Flw.CleanupFacts
  FL.Flw.NumCleanupNames FL.Flw.NumCleanupStep FL.Flw.NumCleanupRun FL.Flw.KillFacts FL.Flw.NumCleanupKillDir
  FL.Flw.NumCleanupKillStep.
From Coq Require Import ZifyN ZifyNat ZifyBool Permutation Sorted.
Open Scope nat_scope.

(* ------------------------------------------------------------------ the listing: archives lo <= i < amid, plain files mid <= i < L *)
Record dir_shape2 (c : config) (f : fs) (lo amid mid L : nat) : Prop := {
  d2_le : lo <= amid /\ mid <= L /\ amid <= L;
  d2_nodup : NoDup (dir_names f);
  d2_plain : forall i, mid <= i < L -> exists j, lookup f (rname c i) = Some j /\ fdir (inode f j) = false;
  d2_arch : forall i, lo <= i < amid -> exists j, lookup f (gname c i) = Some j /\ fdir (inode f j) = false;
  d2_only : forall n j, lookup f n = Some j ->
      n = cname c \/ (exists i, mid <= i < L /\ n = rname c i) \/ (exists i, lo <= i < amid /\ n = gname c i) }.

Definition listing2 (c : config) (lo amid mid L : nat) : list bytes :=
  rev (map (rname c) (seq mid (L - mid))) ++ rev (map (gname c) (seq lo (amid - lo))).

Section Listing2.
Variables (c : config) (f : fs) (off : Z) (lo amid mid L : nat).
Hypothesis Hsfx : sfx_ok (c_spec c).
Hypothesis DS : dir_shape2 c f lo amid mid L.

Let sfx := fsfx (c_spec c).
Let S := sort_by_key sfx (filter (fun n => is_reg_file f n && is_prefix (fixed0 c) n) (dir_names f)).

Lemma S2_sorted : StronglySorted (key_rel sfx) S.
Proof. apply sort_by_key_strongly_sorted. Qed.
Lemma S2_nodup : NoDup S.
Proof. eapply Permutation_NoDup; [apply Permutation_sym, sort_by_key_perm|]. apply NoDup_filter, DS. Qed.
Lemma S2_in n : In n S <-> (exists j, lookup f n = Some j) /\ is_reg_file f n = true /\ is_prefix (fixed0 c) n = true.
Proof. unfold S. rewrite In_sort_by_key, filter_In, andb_true_iff, dir_names_lookup. tauto. Qed.

Lemma plain_part2 :
  filter (qf off sfx (fixed0 c) IFNum sfx) S = map (rname c) (seq mid (L - mid)).
Proof.
  pose proof (d2_le _ _ _ _ _ _ DS) as Hle.
  apply (sorted_unique (key_rel sfx)).
  - intros x y. apply key_le_antisym.
  - apply StronglySorted_filter, S2_sorted.
  - apply StronglySorted_map_seq. intros i j Hi Hij Hj. unfold key_rel, sfx.
    apply (key_le_number_any c i j false false Hsfx Hij).
  - apply NoDup_filter, S2_nodup.
  - apply FinFun.Injective_map_NoDup; [intros i j E; exact (rname_inj _ _ _ E) | apply seq_NoDup].
  - intros x. rewrite filter_In, S2_in, in_map_iff. split.
    + intros [[[j Lj] _] Q]. destruct (d2_only _ _ _ _ _ _ DS x j Lj) as [->|[(i & Hi & ->)|(i & Hi & ->)]].
      * unfold sfx in Q. rewrite qf_cname in Q. discriminate.
      * exists i. split; [reflexivity | apply in_seq; lia].
      * unfold sfx in Q. rewrite qf_gname_plain in Q by exact Hsfx. discriminate.
    + intros (i & <- & Hi). apply in_seq in Hi. destruct (d2_plain _ _ _ _ _ _ DS i ltac:(lia)) as (j & Lj & Dj).
      split; [split; [eauto | split]|].
      * unfold is_reg_file, file_of. rewrite Lj, Dj. reflexivity.
      * rewrite rname_shape. apply is_prefix_under.
      * apply qf_rname.
Qed.

Lemma arch_part2 :
  filter (qf off sfx (fixed0 c) IFNum (Some gz_sfx)) S = map (gname c) (seq lo (amid - lo)).
Proof.
  pose proof (d2_le _ _ _ _ _ _ DS) as Hle.
  apply (sorted_unique (key_rel sfx)).
  - intros x y. apply key_le_antisym.
  - apply StronglySorted_filter, S2_sorted.
  - apply StronglySorted_map_seq. intros i j Hi Hij Hj. unfold key_rel, sfx. rewrite <- !add_gz_gname.
    apply (key_le_number_any c i j true true Hsfx Hij).
  - apply NoDup_filter, S2_nodup.
  - apply FinFun.Injective_map_NoDup; [intros i j E; exact (gname_inj _ _ _ E) | apply seq_NoDup].
  - intros x. rewrite filter_In, S2_in, in_map_iff. split.
    + intros [[[j Lj] _] Q]. destruct (d2_only _ _ _ _ _ _ DS x j Lj) as [->|[(i & Hi & ->)|(i & Hi & ->)]].
      * unfold sfx in Q. rewrite qf_cname in Q. discriminate.
      * unfold sfx in Q. rewrite qf_rname_gz in Q by exact Hsfx. discriminate.
      * exists i. split; [reflexivity | apply in_seq; lia].
    + intros (i & <- & Hi). apply in_seq in Hi. destruct (d2_arch _ _ _ _ _ _ DS i ltac:(lia)) as (j & Lj & Dj).
      split; [split; [eauto | split]|].
      * unfold is_reg_file, file_of. rewrite Lj, Dj. reflexivity.
      * rewrite gname_app, rname_shape, <- app_assoc. apply is_prefix_under.
      * apply qf_gname_gz. exact Hsfx.
Qed.

Theorem list_log_gz_numbers2 :
  list_log_gz off (c_spec c) (fixed0 c) f IFNum = Some (listing2 c lo amid mid L).
Proof.
  unfold list_log_gz, existing_rot, sel_log_gz. cbn [sel_plain sel_gz sel_rcur sel_custom].
  rewrite !filter_files_total. cbn [app_opt]. rewrite !app_nil_r. unfold related_files.
  fold sfx. fold S. rewrite !filter_rev', plain_part2, arch_part2. reflexivity.
Qed.
End Listing2.

(* the shape of an xdir: the redundant archive is one more archive, at the number mid *)
Definition amid_of (mid : nat) (red : option bool) : nat := match red with Some _ => S mid | None => mid end.

Lemma xdir_shape2 c f closed ocur lo mid red : xdir c (file_of f) closed ocur lo mid red -> nodup_names f ->
  dir_shape2 c f lo (amid_of mid red) mid (length closed).
Proof.
  intros [H1 H2 H3 H4 H5 H6] Hnd. constructor.
  - destruct red as [b|]; cbn [amid_of]; [destruct H5 as [Hm _]|]; lia.
  - exact Hnd.
  - intros i Hi. destruct (H2 i Hi) as (fl & Ff & _ & D & _). apply file_of_some in Ff. destruct Ff as (j & Lj & ->). eauto.
  - intros i Hi. destruct (Nat.lt_ge_cases i mid) as [Hlt|Hge].
    + destruct (H3 i ltac:(lia)) as (fl & Ff & _ & D & _). apply file_of_some in Ff. destruct Ff as (j & Lj & ->). eauto.
    + destruct red as [b|]; cbn [amid_of] in Hi; [|lia]. assert (i = mid) by lia. subst i.
      destruct H5 as [_ (fl & Ff & _ & D & _)]. apply file_of_some in Ff. destruct Ff as (j & Lj & ->). eauto.
  - intros x j Lj. assert (E : file_of f x = Some (inode f j)) by (unfold file_of; rewrite Lj; reflexivity).
    destruct (H6 _ _ E) as [H|[H|[(i & Hi & H)|(Hx & H)]]]; [auto | auto | |].
    + right. right. exists i. split; [destruct red; cbn [amid_of]; lia | exact H].
    + right. right. exists mid. split; [|exact H]. destruct red; cbn [amid_of]; [lia | congruence].
Qed.

(* ------------------------------------------------------------------ the redundant archive in the listing *)
Lemma listing2_red c lo mid L : lo <= mid ->
  listing2 c lo (S mid) mid L
  = rev (map (rname c) (seq mid (L - mid))) ++ gname c mid :: rev (map (gname c) (seq lo (mid - lo))).
Proof.
  intros H. unfold listing2. f_equal. replace (S mid - lo) with (mid - lo + 1) by lia.
  rewrite seq_app, map_app, rev_app_distr. cbn [seq map rev app]. do 2 f_equal. lia.
Qed.

Lemma filter_nil_all {A} (p : A -> bool) l : (forall x, In x l -> p x = false) -> filter p l = [].
Proof. apply filter_all_false. Qed.

Lemma redundant_gz_red c lo mid L : sfx_ok (c_spec c) -> lo <= mid < L ->
  redundant_gz (listing2 c lo (S mid) mid L) = [gname c mid].
Proof.
  intros Hs H. rewrite listing2_red by lia. unfold redundant_gz.
  set (P := rev (map (rname c) (seq mid (L - mid)))). set (A := rev (map (gname c) (seq lo (mid - lo)))).
  set (all := P ++ gname c mid :: A).
  assert (InP : forall x, In x P <-> exists i, mid <= i < L /\ x = rname c i).
  { intros x. unfold P. rewrite <- in_rev, in_map_iff. split.
    - intros (i & <- & Hi). apply in_seq in Hi. exists i. split; [lia | reflexivity].
    - intros (i & Hi & ->). exists i. split; [reflexivity | apply in_seq; lia]. }
  assert (InA : forall x, In x A <-> exists i, lo <= i < mid /\ x = gname c i).
  { intros x. unfold A. rewrite <- in_rev, in_map_iff. split.
    - intros (i & <- & Hi). apply in_seq in Hi. exists i. split; [lia | reflexivity].
    - intros (i & Hi & ->). exists i. split; [reflexivity | apply in_seq; lia]. }
  assert (Orig : forall i, existsb (beq (rname c i)) all = true <-> mid <= i < L).
  { intros i. rewrite existsb_exists. split.
    - intros (x & Hx & B). apply beq_eq in B. subst x. unfold all in Hx. apply in_app_or in Hx. destruct Hx as [Hx|[Hx|Hx]].
      + apply InP in Hx. destruct Hx as (i' & Hi' & E). apply rname_inj in E. lia.
      + exfalso. exact (gname_ne_rname _ _ _ Hx).
      + apply InA in Hx. destruct Hx as (i' & _ & E). exfalso. exact (gname_ne_rname _ _ _ (eq_sym E)).
    - intros Hi. exists (rname c i). split; [|apply beq_refl]. unfold all. apply in_or_app. left. apply InP. eauto. }
  assert (G : forall l, (forall i, existsb (beq (rname c i)) l = true <-> mid <= i < L) ->
              filter (fun x => ext_is x gz_sfx && existsb (beq (set_extension x [])) l) (P ++ gname c mid :: A) = [gname c mid]).
  { intros l Ol. rewrite filter_app. cbn [filter].
    rewrite (filter_nil_all _ P), (filter_nil_all _ A).
    - rewrite gname_is_gz, gname_strip. cbn [andb]. rewrite (proj2 (Ol mid)) by lia. reflexivity.
    - intros x Hx. apply InA in Hx. destruct Hx as (i & Hi & ->). rewrite gname_is_gz, gname_strip. cbn [andb].
      destruct (existsb (beq (rname c i)) l) eqn:E; [|reflexivity]. apply Ol in E. lia.
    - intros x Hx. apply InP in Hx. destruct Hx as (i & Hi & ->). rewrite rname_not_gz by exact Hs. reflexivity. }
  exact (G all Orig).
Qed.

Lemma filter_id_all {A} (p : A -> bool) l : (forall x, In x l -> p x = true) -> filter p l = l.
Proof. apply filter_all_true. Qed.

Lemma listing2_without_red c lo mid L : lo <= mid ->
  filter (fun x => negb (beq x (gname c mid))) (listing2 c lo (S mid) mid L) = listing c lo mid L.
Proof.
  intros H. rewrite listing2_red by lia. unfold listing. rewrite filter_app. cbn [filter]. rewrite beq_refl. cbn [negb].
  rewrite !filter_id_all; [reflexivity | |].
  - intros x Hx. rewrite <- in_rev, in_map_iff in Hx. destruct Hx as (i & <- & Hi). apply in_seq in Hi.
    rewrite beq_neq; [reflexivity|]. intros E. apply gname_inj in E. lia.
  - intros x Hx. rewrite <- in_rev, in_map_iff in Hx. destruct Hx as (i & <- & Hi).
    rewrite beq_neq; [reflexivity|]. intros E. exact (gname_ne_rname _ _ _ (eq_sym E)).
Qed.

Lemma listing2_none c lo mid L : listing2 c lo mid mid L = listing c lo mid L.
Proof. reflexivity. Qed.

(* ------------------------------------------------------------------ the loop on a directory without leftovers *)
Lemma cleanup_loop_numbers c crit k n m w closed lo mid :
  numkcfg c crit k -> sfx_ok (c_spec c) -> klim k = Some (n, m) ->
  quiet w -> fs_wf (wfs w) -> kdir c (wfs w) closed lo mid ->
  exists w', cleanup_loop w (listing c lo mid (length closed)) 0 n (n + m) None = (true, w') /\ same_env w w' /\ fs_wf (wfs w')
    /\ kdir c (wfs w') closed (Nat.max lo (length closed - (n + m))) (Nat.max mid (length closed - n))
    /\ same_at (wfs w) (wfs w') (cname c).
Proof.
  intros (Hrot & Hts & _) Hsfx Hk Q W KD.
  destruct (cleanup_numbers c w k n m closed lo mid Hts Hsfx Hk Q W KD) as (w' & E & S & W' & KD' & SC).
  rewrite (cleanup_impl_unfold c w k IFNum n m Hk Q), (fixed_of_fixed0 c w Hts) in E.
  rewrite (list_log_gz_numbers c (wfs w) (woff w) lo mid (length closed) Hsfx (kdir_shape _ _ _ _ _ KD)) in E.
  rewrite (listing_no_redundant c lo mid (length closed) Hsfx (kd_le _ _ _ _ _ KD)) in E. cbn [remove_redundant negb] in E.
  destruct (cleanup_loop w (listing c lo mid (length closed)) 0 n (n + m) None) as [ok w2].
  destruct ok; [|discriminate]. injection E as ->. exists w'. auto.
Qed.

(* ------------------------------------------------------------------ one cleanup on an xdir: the repair *)
Theorem cleanup_xdir c crit k n m w closed ocur lo mid red :
  numkcfg c crit k -> sfx_ok (c_spec c) -> klim k = Some (n, m) ->
  quiet w -> kst c (wfs w) (wfs w) closed ocur lo mid red ->
  exists w', cleanup_impl c w k IFNum None = (Ok tt, w') /\ same_env w w'
    /\ kst c (wfs w) (wfs w') closed ocur (Nat.max lo (length closed - (n + m))) (Nat.max mid (length closed - n)) None.
Proof.
  intros Hcfg Hsfx Hk Q K. pose proof Hcfg as (Hrot & Hts & _). pose proof K as [W Nd X Sc].
  pose proof (xd_le _ _ _ _ _ _ _ X) as Hle.
  rewrite (cleanup_impl_unfold c w k IFNum n m Hk Q), (fixed_of_fixed0 c w Hts).
  rewrite (list_log_gz_numbers2 c (wfs w) (woff w) lo (amid_of mid red) mid (length closed) Hsfx (xdir_shape2 c _ closed ocur lo mid red X Nd)).
  (* after the redundant archive has been removed *)
  assert (Rem : exists w1, remove_redundant w (redundant_gz (listing2 c lo (amid_of mid red) mid (length closed)))
                             (listing2 c lo (amid_of mid red) mid (length closed))
                           = (true, w1, listing c lo mid (length closed))
                /\ same_env w w1 /\ kst c (wfs w) (wfs w1) closed ocur lo mid None).
  { destruct red as [b|]; cbn [amid_of].
    - pose proof (xd_red _ _ _ _ _ _ _ X) as [Hm (g & Fg & _)]. apply file_of_some in Fg. destruct Fg as (ig & Lg & _).
      rewrite redundant_gz_red by (auto; lia). cbn [remove_redundant].
      destruct (p_remove_quiet w (gname c mid) ig Q Lg) as (w1 & E1 & F1 & S1). rewrite E1.
      rewrite listing2_without_red by lia. exists w1. split; [reflexivity|]. split; [exact S1|].
      rewrite F1. constructor.
      + apply wf_unlink. exact W.
      + apply nd_unlink. exact Nd.
      + eapply xdir_ext; [intros y; apply file_of_unlink|]. apply (xdir_remove_red c _ closed ocur lo mid b). exact X.
      + apply same_at_unlink. intros E. exact (gname_not_cname _ _ (eq_sym E)).
    - rewrite listing2_none, (listing_no_redundant c lo mid (length closed) Hsfx Hle). cbn [remove_redundant].
      exists w. split; [reflexivity|]. split; [apply same_env_refl; exact Q | exact K]. }
  destruct Rem as (w1 & E1 & S1 & K1). rewrite E1. cbn [negb].
  pose proof K1 as [W1 Nd1 X1 Sc1].
  assert (KD1 : kdir c (wfs w1) closed lo mid) by (eapply xdir_kdir; eassumption).
  destruct (cleanup_loop_numbers c crit k n m w1 closed lo mid Hcfg Hsfx Hk (proj1 S1) W1 KD1) as (w' & E & S & W' & KD' & SC).
  rewrite E. exists w'. split; [reflexivity|]. split; [eapply same_env_trans; eassumption|].
  constructor.
  - exact W'.
  - exact (kd_nodup _ _ _ _ _ KD').
  - apply kdir_xdir; [exact KD'|]. destruct ocur as [cu|].
    + destruct (xdir_cur_lookup c _ closed cu lo mid None X1) as (j & Lj & Pj & Cj).
      destruct (same_at_content _ _ _ _ SC Lj) as [Lj' Ij']. exists j. split; [exact Lj'|]. unfold content. rewrite Ij'. split; assumption.
    + destruct SC as [SL _]. rewrite SL. apply file_of_none. exact (xd_cur _ _ _ _ _ _ _ X1).
  - eapply same_at_trans; eassumption.
Qed.
Print Assumptions cleanup_xdir.

(* ------------------------------------------------------------------ the highest index *)
(* (the bound: get_highest_index parses the numbers as u32; it has nothing to do with the order of the listing) *)
Lemma index_of_gname c i : (N.of_nat i <= u32_max)%N ->
  index_of_listed (fixed0 c) (gname c i) = Some (N.of_nat i).
Proof.
  intros Hi. unfold index_of_listed. rewrite gname_app, rname_shape.
  assert (E : (under (fixed0 c) ++ (r_char :: digs (N.of_nat i)) ++ sfxs (c_spec c)) ++ dot_gz
              = (match fixed0 c with [] => [r_char] | _ => fixed0 c ++ [uscore; r_char] end)
                ++ (digs (N.of_nat i) ++ (sfxs (c_spec c) ++ dot_gz))).
  { unfold under. destruct (fixed0 c) as [|f0 fr]; cbn [app]; rewrite <- ?app_assoc; cbn [app]; rewrite <- ?app_assoc; reflexivity. }
  rewrite E, strip_prefix_app.
  assert (T : exists t, sfxs (c_spec c) ++ dot_gz = dot :: t).
  { unfold sfxs, dot_gz. destruct (fsfx (c_spec c)); cbn [app]; eauto. }
  destruct T as [t ->].
  rewrite find_byte_app by (apply digs_no; reflexivity). rewrite firstn_length_app, parse_digs by exact Hi. reflexivity.
Qed.

Lemma max_opt_top l L : 0 < L -> (forall v, In v l -> exists i, i < L /\ v = N.of_nat i) -> In (N.of_nat (L - 1)) l ->
  max_opt l = Some (N.of_nat (L - 1)).
Proof.
  intros HL Hall Hin. pose proof (max_opt_spec l) as S. destruct (max_opt l) as [mx|].
  - destruct S as [Im Hm]. destruct (Hall _ Im) as (i & Hi & ->). specialize (Hm _ Hin). f_equal. lia.
  - subst l. destruct Hin.
Qed.

Lemma highest_index_xdir c off f closed ocur lo mid red :
  sfx_ok (c_spec c) -> (N.of_nat (length closed) <= u32_max)%N ->
  xdir c (file_of f) closed ocur lo mid red -> nodup_names f -> (lo < length closed \/ length closed = 0) ->
  get_highest_index off (c_spec c) (fixed0 c) f
  = Some (match length closed with O => None | S l => Some (N.of_nat l) end).
Proof.
  intros Hsfx HL X Nd Hlo. unfold get_highest_index.
  rewrite (list_log_gz_numbers2 c f off lo (amid_of mid red) mid (length closed) Hsfx (xdir_shape2 c f closed ocur lo mid red X Nd)).
  f_equal. pose proof (xd_le _ _ _ _ _ _ _ X) as Hle. set (L := length closed) in *.
  assert (Ham : mid <= amid_of mid red <= L).
  { destruct red as [b|]; cbn [amid_of]; [destruct (xd_red _ _ _ _ _ _ _ X) as [Hm _]; fold L in Hm|]; lia. }
  assert (In2 : forall x, In x (listing2 c lo (amid_of mid red) mid L) <->
                (exists i, mid <= i < L /\ x = rname c i) \/ (exists i, lo <= i < amid_of mid red /\ x = gname c i)).
  { intros x. unfold listing2. rewrite in_app_iff, <- !in_rev, !in_map_iff. split.
    - intros [(i & <- & Hi)|(i & <- & Hi)]; apply in_seq in Hi; [left | right]; exists i; split; auto; lia.
    - intros [(i & Hi & ->)|(i & Hi & ->)]; [left | right]; exists i; split; auto; apply in_seq; lia. }
  destruct L as [|l] eqn:EL.
  - (* no closed file *)
    assert (E : listing2 c lo (amid_of mid red) mid 0 = []).
    { unfold listing2. replace (0 - mid) with 0 by lia. replace (amid_of mid red - lo) with 0 by lia. reflexivity. }
    rewrite E. reflexivity.
  - assert (El : N.of_nat l = N.of_nat (S l - 1)) by (f_equal; lia). rewrite El. apply max_opt_top; [lia | |].
    + intros v Hv. apply filter_map_opt_in in Hv. destruct Hv as (x & Hx & Ex). apply In2 in Hx.
      destruct Hx as [(i & Hi & ->)|(i & Hi & ->)].
      * rewrite index_of_rname in Ex by lia. injection Ex as <-. exists i. split; [lia | reflexivity].
      * rewrite index_of_gname in Ex by lia. injection Ex as <-. exists i. split; [lia | reflexivity].
    + apply filter_map_opt_in. destruct (Nat.lt_ge_cases (S l - 1) mid) as [Hlt|Hge].
      * exists (gname c (S l - 1)). split; [apply In2; right; exists (S l - 1); split; [lia | reflexivity]|].
        apply index_of_gname. lia.
      * exists (rname c (S l - 1)). split; [apply In2; left; exists (S l - 1); split; [lia | reflexivity]|].
        apply index_of_rname. lia.
Qed.
Print Assumptions highest_index_xdir.
