(* C14, "foreign" made explicit: the family tests of the model (ForeignModel.num_member, NumDForeign.numd_member,
   TsForeignFacts.tsd_member / ts_member), which are the hypotheses of the non-interference theorems, accept EXACTLY the
   names of the logger's own naming pattern

       <fixed name part> _ <infix of the ACTIVE naming> [.restart-NNNN] [.<suffix>] [.gz]      (or the rCURRENT file)

   - number namings: the infix is "r" and one or more ASCII digits, nothing else (num_member_iff, numd_member_iff);
   - time-stamp namings: the infix is what chrono reads as r%Y-%m-%d_%H-%M-%S, nothing else (tsd_member_iff, ts_member_iff).
   Hence a file whose name does not follow this pattern is foreign, and the theorems of NumForeign / NumCleanupForeign /
   NumDForeign / TsdForeign / TsForeign say that it is never modified, renamed, compressed, deleted, and that its presence
   changes nothing.

   This became true with two repairs of the code (and of the model):
   (A) InfixFilter::Numbrs accepted every infix "r<digit><anything>" of more than two bytes: a_r1backup.log,
       a_r00001x.log, a_r2024-02-29_23-59-58.log were numbered log files (listed, counted as index, compressed, deleted);
       now: "r" and digits only (FileSpec.filter_infix, NumListing.filter_num_spec);
   (B) latest_timestamp_file (TimestampsDirect with append) listed with that number filter and cut 20 bytes out of every
       name: a foreign a_r2030-01-01_00-00-00x.log made the writer continue a_r2030-01-01_00-00-00.log; now it lists
       with the time-stamp filter, and the family test of the time-stamp namings (TsForeignFacts.ts_like) is the
       time-stamp filter alone: a file with a NUMBER infix is foreign for a Timestamps / TimestampsDirect logger.
   The examples at the end: every name of the lists above is rejected by the member test of the respective naming; what is
   still "not foreign although the logger did not write it" (names that DO follow the pattern). *)
Require Import FL.Base.Bytes FL.Base.BytesFacts FL.Base.PathName FL.Fs.Fs FL.Fs.FsFacts FL.Time.Civil FL.Time.TsFormat
  FL.Names.FileSpec FL.Names.NamesFacts FL.Names.FamilyFacts
  FL.Flw.Model FL.Flw.ModelFacts FL.Flw.NumFs FL.Flw.NumInv FL.Flw.NumListing FL.Flw.CleanupFacts
  FL.Flw.Run FL.Flw.ForeignFs FL.Flw.ForeignModel FL.Flw.NumForeign FL.Flw.NumDForeign
  FL.Flw.TsForeignFacts FL.Flw.TsdForeign FL.Flw.TsForeign.
From Coq Require Import ZifyN ZifyNat ZifyBool.
Open Scope nat_scope.

(* ------------------------------------------------------------------ what a listing accepts, exactly *)
(* the listing of the plain files *)
Lemma qf_plain_spec off sp fixed flt n :
  qf off (fsfx sp) fixed flt (fsfx sp) n = true <->
  exists i rs, filter_infix off flt i = true /\ no_dot i /\ restart_part rs /\ i ++ rs <> []
               /\ n = under fixed ++ i ++ rs ++ sfxs sp.
Proof.
  unfold qf. rewrite infix_candidate_plain. unfold sfxs. split.
  - destruct (fsfx sp) as [s|].
    + destruct (strip_suffix (dot :: s) n) as [st|] eqn:Es; [|discriminate]. apply strip_suffix_iff in Es.
      destruct (cand_core fixed st) as [i|] eqn:Ec; [|discriminate]. intros Hf.
      apply cand_core_spec in Ec. destruct Ec as [rs [Hrs [Hnd [Hne Hst]]]].
      exists i, rs. repeat (split; [assumption|]). rewrite Es, Hst, <- !app_assoc. reflexivity.
    + destruct (cand_core fixed n) as [i|] eqn:Ec; [|discriminate]. intros Hf.
      apply cand_core_spec in Ec. destruct Ec as [rs [Hrs [Hnd [Hne Hst]]]].
      exists i, rs. repeat (split; [assumption|]). rewrite app_nil_r. exact Hst.
  - intros [i [rs [Hf [Hnd [Hrs [Hne Hn]]]]]].
    assert (Hc : cand_core fixed (under fixed ++ i ++ rs) = Some i).
    { apply cand_core_spec. exists rs. repeat (split; [assumption|]). reflexivity. }
    destruct (fsfx sp) as [s|].
    + replace n with ((under fixed ++ i ++ rs) ++ dot :: s) by (rewrite Hn, <- !app_assoc; reflexivity).
      rewrite strip_suffix_app, Hc. exact Hf.
    + rewrite app_nil_r in Hn. rewrite Hn, Hc. exact Hf.
Qed.

(* the listing of the archives: the same names followed by ".gz" - unless the suffix of the family is "gz" itself: then
   it is the listing of the plain files once more *)
Lemma qf_gz_spec off sp fixed flt n : fsfx sp <> Some gz_sfx ->
  (qf off (fsfx sp) fixed flt (Some gz_sfx) n = true <->
   exists i rs, filter_infix off flt i = true /\ no_dot i /\ restart_part rs /\ i ++ rs <> []
                /\ n = under fixed ++ i ++ rs ++ sfxs sp ++ dot_gz).
Proof.
  intros Hs. split.
  - intros H. assert (Hn : exists m, n = m ++ dot_gz).
    { unfold qf, infix_candidate in H. destruct (strip_suffix (dot :: gz_sfx) n) as [stem|] eqn:Es; [|discriminate].
      apply strip_suffix_iff in Es. exists stem. exact Es. }
    destruct Hn as [m ->].
    assert (Hm : qf off (fsfx sp) fixed flt (fsfx sp) m = true).
    { revert H. unfold qf. rewrite infix_candidate_plain. unfold infix_candidate, dot_gz. rewrite strip_suffix_app.
      destruct (fsfx sp) as [s|].
      - assert (Eb : beq s gz_sfx = false) by (apply beq_neq; congruence).
        change [103%N; 122%N] with gz_sfx. rewrite Eb. cbn [beq gz_sfx N.eqb Pos.eqb andb negb].
        destruct (strip_suffix (dot :: s) m) as [st|]; [|discriminate]. unfold cand_core. intros H. exact H.
      - unfold cand_core. intros H. exact H. }
    apply qf_plain_spec in Hm. destruct Hm as [i [rs [Hf [Hnd [Hrs [Hne Hm]]]]]].
    exists i, rs. repeat (split; [assumption|]). rewrite Hm, <- !app_assoc. reflexivity.
  - intros [i [rs [Hf [Hnd [Hrs [Hne Hn]]]]]].
    replace n with (gz_name (under fixed ++ i ++ rs ++ sfxs sp)) by (rewrite gz_name_app, Hn, <- !app_assoc; reflexivity).
    apply qf_plain_gz_name; [exact Hs|]. apply qf_plain_spec. exists i, rs. repeat (split; [assumption|]). reflexivity.
Qed.

Lemma qf_gz_is_plain off sp fixed flt n : fsfx sp = Some gz_sfx ->
  qf off (fsfx sp) fixed flt (Some gz_sfx) n = qf off (fsfx sp) fixed flt (fsfx sp) n.
Proof. intros ->. reflexivity. Qed.

(* ------------------------------------------------------------------ the number namings *)
Lemma digits_no_dot ds : all_digits ds = true -> no_dot (r_char :: ds).
Proof.
  intros Hd [H|H]; [discriminate|]. pose proof (all_digits_in _ _ Hd H) as X. vm_compute in X. discriminate.
Qed.

(* the pattern of the number namings: <fixed>_ r<digits> [.restart-NNNN] [.suffix] [.gz] *)
Definition num_pattern (c : config) (n : bytes) : Prop :=
  exists ds rs gz, ds <> [] /\ all_digits ds = true /\ restart_part rs
    /\ (gz = [] \/ (gz = dot_gz /\ fsfx (c_spec c) <> Some gz_sfx))
    /\ n = under (fixed0 c) ++ r_char :: ds ++ rs ++ sfxs (c_spec c) ++ gz.

Theorem numd_member_iff c n : numd_member c n = true <-> num_pattern c n.
Proof.
  unfold numd_member, num_pattern. rewrite orb_true_iff. split.
  - intros [H|H].
    + apply qf_plain_spec in H. destruct H as [i [rs [Hf [_ [Hrs [_ Hn]]]]]].
      apply filter_num_spec in Hf. destruct Hf as [ds [-> [Hne Hd]]].
      exists ds, rs, []. repeat (split; [assumption|]). split; [left; reflexivity|].
      rewrite Hn, app_nil_r. reflexivity.
    + assert (Eg : fsfx (c_spec c) = Some gz_sfx \/ fsfx (c_spec c) <> Some gz_sfx).
      { destruct (fsfx (c_spec c)) as [s|]; [|right; discriminate].
        destruct (beq_spec s gz_sfx) as [->|N]; [left; reflexivity | right; congruence]. }
      destruct Eg as [Eg|Eg].
      * rewrite qf_gz_is_plain in H by exact Eg.
        apply qf_plain_spec in H. destruct H as [i [rs [Hf [_ [Hrs [_ Hn]]]]]].
        apply filter_num_spec in Hf. destruct Hf as [ds [-> [Hne Hd]]].
        exists ds, rs, []. repeat (split; [assumption|]). split; [left; reflexivity|].
        rewrite Hn, app_nil_r. reflexivity.
      * apply (qf_gz_spec _ _ _ _ _ Eg) in H. destruct H as [i [rs [Hf [_ [Hrs [_ Hn]]]]]].
        apply filter_num_spec in Hf. destruct Hf as [ds [-> [Hne Hd]]].
        exists ds, rs, dot_gz. repeat (split; [assumption|]). split; [right; split; [reflexivity | exact Eg]|].
        rewrite Hn. reflexivity.
  - intros [ds [rs [gz [Hne [Hd [Hrs [Hgz Hn]]]]]]].
    assert (Hf : filter_infix 0 IFNum (r_char :: ds) = true) by (apply filter_num_spec; exists ds; auto).
    destruct Hgz as [->|[-> Eg]].
    + left. apply qf_plain_spec. exists (r_char :: ds), rs. split; [exact Hf|]. split; [apply digits_no_dot; exact Hd|].
      split; [exact Hrs|]. split; [discriminate|]. rewrite Hn, app_nil_r. reflexivity.
    + right. apply (qf_gz_spec _ _ _ _ _ Eg). exists (r_char :: ds), rs. split; [exact Hf|].
      split; [apply digits_no_dot; exact Hd|]. split; [exact Hrs|]. split; [discriminate|]. rewrite Hn. reflexivity.
Qed.
Print Assumptions numd_member_iff.

Theorem num_member_iff c n : num_member c n = true <-> n = cname c \/ num_pattern c n.
Proof.
  rewrite numd_member_num, orb_true_iff, numd_member_iff. split.
  - intros [H|H]; [right; exact H | left; apply beq_eq; exact H].
  - intros [->|H]; [right; apply beq_refl | left; exact H].
Qed.
Print Assumptions num_member_iff.

(* what follows the digits is empty or starts with a dot *)
Lemma pattern_tail_dot rs sx gz : restart_part rs -> (sx = [] \/ exists s, sx = dot :: s) -> (gz = [] \/ gz = dot_gz) ->
  rs ++ sx ++ gz = [] \/ exists z, rs ++ sx ++ gz = dot :: z.
Proof.
  intros [->|[d [-> _]]] Hs Hg; [|right; eexists; reflexivity]. cbn [app].
  destruct Hs as [->|[s ->]]; [|right; eexists; reflexivity]. cbn [app].
  destruct Hg as [->| ->]; [left; reflexivity | right; eexists; reflexivity].
Qed.

(* so: a member other than the current file has one or more digits, and nothing else, between "<fixed>_r" and the first
   dot (or the end of the name).  Anything else there - a letter, a word, "-" - makes the name foreign. *)
Definition upto_dot (s : bytes) : bytes := match find_byte dot s with Some e => firstn e s | None => s end.

Lemma upto_dot_digits ds tail : all_digits ds = true -> (tail = [] \/ exists z, tail = dot :: z) -> upto_dot (ds ++ tail) = ds.
Proof.
  intros Hd Ht. assert (Hnd : ~ In dot ds) by (intros I; pose proof (all_digits_in _ _ Hd I) as X; vm_compute in X; discriminate).
  unfold upto_dot. destruct Ht as [->|[z ->]].
  - rewrite app_nil_r. apply find_byte_none in Hnd. rewrite Hnd. reflexivity.
  - rewrite find_byte_app by exact Hnd. apply firstn_length_app.
Qed.

Theorem num_member_digits c n : num_member c n = true ->
  n = cname c \/ exists rest, n = under (fixed0 c) ++ r_char :: rest /\ upto_dot rest <> [] /\ all_digits (upto_dot rest) = true.
Proof.
  intros H. apply num_member_iff in H. destruct H as [H|[ds [rs [gz [Hne [Hd [Hrs [Hgz Hn]]]]]]]]; [left; exact H|].
  right. exists (ds ++ rs ++ sfxs (c_spec c) ++ gz). split; [exact Hn|].
  rewrite upto_dot_digits; [split; assumption | exact Hd |].
  apply pattern_tail_dot; [exact Hrs | | destruct Hgz as [->|[-> _]]; auto].
  unfold sfxs. destruct (fsfx (c_spec c)) as [s|]; [right; eexists; reflexivity | left; reflexivity].
Qed.
Print Assumptions num_member_digits.

Corollary num_foreign_non_digit c rest :
  (upto_dot rest = [] \/ all_digits (upto_dot rest) = false) ->
  under (fixed0 c) ++ r_char :: rest <> cname c ->
  num_member c (under (fixed0 c) ++ r_char :: rest) = false.
Proof.
  intros Hb Hc. destruct (num_member c _) eqn:E; [exfalso | reflexivity].
  apply num_member_digits in E. destruct E as [E|[rest' [E [Hne Hd]]]]; [exact (Hc E)|].
  apply under_app_inv in E. injection E as <-. destruct Hb as [Hb|Hb]; congruence.
Qed.

Theorem numd_member_digits c n : numd_member c n = true ->
  exists rest, n = under (fixed0 c) ++ r_char :: rest /\ upto_dot rest <> [] /\ all_digits (upto_dot rest) = true.
Proof.
  intros H. apply numd_member_iff in H. destruct H as [ds [rs [gz [Hne [Hd [Hrs [Hgz Hn]]]]]]].
  exists (ds ++ rs ++ sfxs (c_spec c) ++ gz). split; [exact Hn|].
  rewrite upto_dot_digits; [split; assumption | exact Hd |].
  apply pattern_tail_dot; [exact Hrs | | destruct Hgz as [->|[-> _]]; auto].
  unfold sfxs. destruct (fsfx (c_spec c)) as [s|]; [right; eexists; reflexivity | left; reflexivity].
Qed.
Print Assumptions numd_member_digits.

(* ------------------------------------------------------------------ the time-stamp namings *)
(* the pattern of the time-stamp namings: <fixed>_ <a time stamp r%Y-%m-%d_%H-%M-%S: read by chrono AND exactly the text the format writes for it> [.restart-NNNN] [.suffix] [.gz] *)
Definition ts_pattern (c : config) (n : bytes) : Prop :=
  exists i rs gz, canonical_ts std_fmt i = true /\ no_dot i /\ restart_part rs /\ (gz = [] \/ gz = dot_gz)
    /\ n = under (fixed0 c) ++ i ++ rs ++ sfxs (c_spec c) ++ gz.

Lemma ts_filter_iff off i : filter_infix off (IFTs std_fmt) i = true <-> canonical_ts std_fmt i = true.
Proof. cbn [filter_infix]. split; intros H; exact H. Qed.

Lemma fam_q_plain_iff c n : fam_q c (fsfx (c_spec c)) n = true <->
  exists i rs, canonical_ts std_fmt i = true /\ no_dot i /\ restart_part rs
               /\ n = under (fixed0 c) ++ i ++ rs ++ sfxs (c_spec c).
Proof.
  rewrite (fam_q_qf c _ _ 0%Z), qf_plain_spec. split.
  - intros [i [rs [Hf [Hnd [Hrs [_ Hn]]]]]]. exists i, rs. apply ts_filter_iff in Hf. auto.
  - intros [i [rs [Hp [Hnd [Hrs Hn]]]]]. exists i, rs. apply (ts_filter_iff 0%Z) in Hp. repeat (split; [assumption|]).
    split; [|exact Hn]. intros E. apply app_eq_nil in E. destruct E as [-> _]. vm_compute in Hp. discriminate.
Qed.

Theorem tsd_member_iff c n : tsd_member c n = true <-> ts_pattern c n.
Proof.
  unfold tsd_member, ts_pattern. rewrite !orb_true_iff. split.
  - intros [[H|H]|H].
    + apply fam_q_plain_iff in H. destruct H as [i [rs [Hp [Hnd [Hrs Hn]]]]].
      exists i, rs, []. repeat (split; [assumption|]). split; [left; reflexivity|]. rewrite Hn, app_nil_r. reflexivity.
    + assert (Eg : fsfx (c_spec c) = Some gz_sfx \/ fsfx (c_spec c) <> Some gz_sfx).
      { destruct (fsfx (c_spec c)) as [s|]; [|right; discriminate].
        destruct (beq_spec s gz_sfx) as [->|N]; [left; reflexivity | right; congruence]. }
      destruct Eg as [Eg|Eg].
      * rewrite (fam_q_qf c _ _ 0%Z), qf_gz_is_plain, <- (fam_q_qf c _ _ 0%Z) in H by exact Eg.
        apply fam_q_plain_iff in H. destruct H as [i [rs [Hp [Hnd [Hrs Hn]]]]].
        exists i, rs, []. repeat (split; [assumption|]). split; [left; reflexivity|]. rewrite Hn, app_nil_r. reflexivity.
      * rewrite (fam_q_qf c _ _ 0%Z) in H. apply (qf_gz_spec _ _ _ _ _ Eg) in H.
        destruct H as [i [rs [Hf [Hnd [Hrs [_ Hn]]]]]]. apply ts_filter_iff in Hf.
        exists i, rs, dot_gz. repeat (split; [assumption|]). split; [right; reflexivity | exact Hn].
    + destruct (strip_suffix dot_gz n) as [m|] eqn:E; [|discriminate]. apply strip_suffix_iff in E. subst n.
      apply fam_q_plain_iff in H. destruct H as [i [rs [Hp [Hnd [Hrs Hn]]]]].
      exists i, rs, dot_gz. repeat (split; [assumption|]). split; [right; reflexivity|]. rewrite Hn, <- !app_assoc. reflexivity.
  - intros [i [rs [gz [Hp [Hnd [Hrs [[->| ->] Hn]]]]]]].
    + left. left. apply fam_q_plain_iff. exists i, rs. repeat (split; [assumption|]). rewrite Hn, app_nil_r. reflexivity.
    + right. replace n with ((under (fixed0 c) ++ i ++ rs ++ sfxs (c_spec c)) ++ dot_gz) by (rewrite Hn, <- !app_assoc; reflexivity).
      rewrite strip_suffix_app. apply fam_q_plain_iff. exists i, rs. repeat (split; [assumption|]). reflexivity.
Qed.
Print Assumptions tsd_member_iff.

Theorem ts_member_iff c n : ts_member c n = true <-> n = cname c \/ ts_pattern c n.
Proof.
  unfold ts_member. rewrite orb_true_iff, tsd_member_iff. split.
  - intros [H|H]; [right; exact H | left; apply beq_eq; exact H].
  - intros [->|H]; [right; apply beq_refl | left; exact H].
Qed.
Print Assumptions ts_member_iff.

(* ------------------------------------------------------------------ the infix of the other naming is foreign *)
Lemma take_digits_rest max : forall s acc a r,
  TsFormat.take_digits max s acc = (a, r) -> all_digits s = true -> all_digits r = true.
Proof.
  induction max as [|m IH]; intros s acc a r H Hs; cbn [TsFormat.take_digits] in H.
  - injection H as _ <-. exact Hs.
  - destruct s as [|x s']; [injection H as _ <-; reflexivity|].
    cbn [all_digits] in Hs. apply andb_true_iff in Hs. destruct Hs as [Hx Hs']. rewrite Hx in H.
    eapply IH; eassumption.
Qed.

Lemma scan_number_rest max s v r : scan_number max s = Some (v, r) -> all_digits s = true -> all_digits r = true.
Proof.
  unfold scan_number. destruct (TsFormat.take_digits max s []) as [a r'] eqn:E. destruct a; [discriminate|].
  intros H. injection H as _ <-. eapply take_digits_rest. exact E.
Qed.

Lemma digit_cases d : is_digit d = true ->
  (d = 48 \/ d = 49 \/ d = 50 \/ d = 51 \/ d = 52 \/ d = 53 \/ d = 54 \/ d = 55 \/ d = 56 \/ d = 57)%N.
Proof. unfold is_digit. lia. Qed.

Lemma parse_year_digits ds p s' p' : all_digits ds = true -> parse_item TY ds p = Some (s', p') -> all_digits s' = true.
Proof.
  intros Hd. destruct ds as [|d ds']; [cbn; discriminate|].
  pose proof Hd as Hall. cbn [all_digits] in Hd. apply andb_true_iff in Hd. destruct Hd as [Hx Hs].
  assert (E : parse_item TY (d :: ds') p =
              match scan_number 4 (d :: ds') with
              | Some (v, r') => match set_field (py p) v with
                      | Some y => Some (r', {| py := y; pmo := pmo p; pd := pd p; ph := ph p; pmi := pmi p; ps := ps p |})
                      | None => None end
              | None => None end).
  { destruct (digit_cases d Hx) as [->|[->|[->|[->|[->|[->|[->|[->|[->| ->]]]]]]]]]; reflexivity. }
  rewrite E. destruct (scan_number 4 (d :: ds')) as [[v r']|] eqn:Es; [|discriminate].
  destruct (set_field (py p) v); [|discriminate]. intros H. injection H as <- _.
  eapply scan_number_rest; eassumption.
Qed.

(* "r" and digits is no time stamp: after (at most four digits of) the year the parser wants "-" *)
Theorem parse_number_infix ds : all_digits ds = true -> parse_ts_local std_fmt (r_char :: ds) = None.
Proof.
  intros Hd. unfold parse_ts_local.
  assert (E : parse_items std_fmt (r_char :: ds) parsed0 = None); [|rewrite E; reflexivity].
  unfold std_fmt. cbn [parse_items]. change (parse_item (TLit 114) (r_char :: ds) parsed0) with (Some (ds, parsed0)).
  cbv iota beta.
  destruct (parse_item TY ds parsed0) as [[s' p']|] eqn:E1; [|reflexivity].
  pose proof (parse_year_digits _ _ _ _ Hd E1) as X.
  destruct s' as [|x r]; [reflexivity|]. cbn [parse_item].
  destruct (N.eqb_spec x 45) as [->|N]; [cbn in X; discriminate | reflexivity].
Qed.

Lemma upto_dot_infix i tail : no_dot i -> (tail = [] \/ exists z, tail = dot :: z) -> upto_dot (i ++ tail) = i.
Proof.
  intros Hnd Ht. unfold upto_dot. destruct Ht as [->|[z ->]].
  - rewrite app_nil_r. apply find_byte_none in Hnd. rewrite Hnd. reflexivity.
  - rewrite find_byte_app by exact Hnd. apply firstn_length_app.
Qed.

Lemma sfxs_shape sp : sfxs sp = [] \/ exists s, sfxs sp = dot :: s.
Proof. unfold sfxs. destruct (fsfx sp) as [s|]; [right; eexists; reflexivity | left; reflexivity]. Qed.

(* a name of the number pattern and a name of the time-stamp pattern are never the same name *)
Theorem patterns_disjoint c n : num_pattern c n -> ts_pattern c n -> False.
Proof.
  intros [ds [rs [gz [Hne [Hd [Hrs [Hgz Hn]]]]]]] [i [rs' [gz' [Hp [Hnd [Hrs' [Hgz' Hn']]]]]]].
  rewrite Hn in Hn'. apply under_app_inv in Hn'.
  assert (E : upto_dot ((r_char :: ds) ++ rs ++ sfxs (c_spec c) ++ gz) = upto_dot (i ++ rs' ++ sfxs (c_spec c) ++ gz')).
  { cbn [app]. rewrite Hn'. reflexivity. }
  rewrite upto_dot_infix in E;
    [|apply digits_no_dot; exact Hd | apply pattern_tail_dot; [exact Hrs | apply sfxs_shape | destruct Hgz as [->|[-> _]]; auto]].
  rewrite upto_dot_infix in E; [|exact Hnd | apply pattern_tail_dot; [exact Hrs' | apply sfxs_shape | exact Hgz']].
  subst i. unfold canonical_ts in Hp. rewrite (parse_number_infix ds Hd) in Hp. discriminate.
Qed.

Lemma cname_not_num_pattern c : ~ num_pattern c (cname c).
Proof.
  intros [ds [rs [gz [Hne [Hd [_ [_ Hn]]]]]]]. rewrite cname_shape in Hn. apply under_app_inv in Hn.
  destruct ds as [|d ds]; [congruence|]. unfold cur_infix in Hn. cbn [app] in Hn. injection Hn as Hn _. subst d.
  cbn in Hd. discriminate.
Qed.

Lemma cname_not_ts_pattern c : ~ ts_pattern c (cname c).
Proof.
  intros [i [rs [gz [Hp [Hnd [Hrs [Hgz Hn]]]]]]]. rewrite cname_shape in Hn. apply under_app_inv in Hn.
  assert (E : upto_dot (cur_infix ++ [] ++ sfxs (c_spec c) ++ []) = upto_dot (i ++ rs ++ sfxs (c_spec c) ++ gz)).
  { cbn [app]. rewrite app_nil_r, Hn. reflexivity. }
  rewrite upto_dot_infix in E;
    [|intros I; vm_compute in I; intuition discriminate
     |apply pattern_tail_dot; [left; reflexivity | apply sfxs_shape | left; reflexivity]].
  rewrite upto_dot_infix in E; [|exact Hnd | apply pattern_tail_dot; [exact Hrs | apply sfxs_shape | exact Hgz]].
  subst i. vm_compute in Hp. discriminate.
Qed.

(* the files of a number naming (rCURRENT aside, which Timestamps naming uses, too) are foreign for a logger with a
   time-stamp naming, and the files of a time-stamp naming are foreign for a logger with a number naming - whatever
   the configurations have in common (the theorems compare the patterns of ONE configuration c: same name parts, same
   suffix) *)
Theorem number_files_foreign_ts c n : numd_member c n = true -> ts_member c n = false.
Proof.
  intros H. apply numd_member_iff in H. destruct (ts_member c n) eqn:E; [exfalso | reflexivity].
  apply ts_member_iff in E. destruct E as [->|E]; [exact (cname_not_num_pattern c H) | exact (patterns_disjoint c n H E)].
Qed.
Print Assumptions number_files_foreign_ts.

Theorem ts_files_foreign_number c n : tsd_member c n = true -> num_member c n = false.
Proof.
  intros H. apply tsd_member_iff in H. destruct (num_member c n) eqn:E; [exfalso | reflexivity].
  apply num_member_iff in E. destruct E as [->|E]; [exact (cname_not_ts_pattern c H) | exact (patterns_disjoint c n E H)].
Qed.
Print Assumptions ts_files_foreign_number.

(* ------------------------------------------------------------------ examples *)
Import String.StringSyntax.
Open Scope string_scope.

(* (A) what the number filter took for numbered log files before its repair is rejected by the member tests of the number
   namings (ex_c: Numbers, exdf_c: NumbersDirect; both a_<infix>.log) ... *)
Example former_numbered_files_rejected :
  let names := [bs "a_r1x.log"; bs "a_r1backup.log"; bs "a_r00001x.log"; bs "a_r2024-02-29_23-59-58.log";
                bs "a_r1x.log.gz"; bs "a_r00001x.restart-0000.log"] in
  List.map (num_member ex_c) names = List.map (fun _ => false) names
  /\ List.map (numd_member exdf_c) names = List.map (fun _ => false) names.
Proof. vm_compute. split; reflexivity. Qed.

(* ... by the theorem, too: something that is not a digit stands between "a_r" and the first dot *)
Example former_numbered_files_rejected_thm : num_member ex_c (bs "a_r1backup.log") = false.
Proof.
  change (bs "a_r1backup.log") with (under (fixed0 ex_c) ++ r_char :: bs "1backup.log").
  apply num_foreign_non_digit; [right; vm_compute; reflexivity | vm_compute; discriminate].
Qed.

(* (B) the files of the number namings, and everything that merely looks like them, are rejected by the member tests of
   the time-stamp namings (extd_c: TimestampsDirect, extf_c: Timestamps; both a_<infix>.log) *)
Example number_infixes_rejected_ts :
  let names := [bs "a_r00001.log"; bs "a_r00001.log.gz"; bs "a_r1.log"; bs "a_r1x.log"; bs "a_r1backup.log"; bs "a_r00001x.log";
                bs "a_r00001.restart-0000.log"; bs "a_r2030-01-01_00-00-00x.log"; bs "a_r1970-01-01.log"] in
  List.map (tsd_member extd_c) names = List.map (fun _ => false) names
  /\ List.map (ts_member extf_c) names = List.map (fun _ => false) names.
Proof. vm_compute. split; reflexivity. Qed.

(* ... by the theorem: a member of the number family is foreign for the time-stamp naming *)
Example number_infixes_rejected_ts_thm : ts_member extf_c (bs "a_r00001.log.gz") = false.
Proof. apply number_files_foreign_ts. vm_compute. reflexivity. Qed.

(* the patterns are inhabited (non-vacuity of the characterisations) *)
Example num_pattern_instance : num_pattern ex_c (bs "a_r00017.restart-0003.log.gz").
Proof. apply numd_member_iff. vm_compute. reflexivity. Qed.
Example ts_pattern_instance : ts_pattern extd_c (bs "a_r2024-02-29_23-59-58.restart-0003.log.gz").
Proof. apply tsd_member_iff. vm_compute. reflexivity. Qed.

(* What is still NOT foreign although no logger of this configuration wrote it: names that do follow the pattern.
   - number namings: a number of any length and value - one digit ("a_r1.log", which the old filter rejected for being
     too short), more than five digits, an index that the logger has not reached -, archives and restart siblings of
     such names, and for Numbers naming a stranger's a_rCURRENT.log (NumForeign.short_number_is_member: a_r1.log counts as
     index 1, the numbering goes on at 2);
   - time-stamp namings: a stranger's a_r1999-01-01_00-00-00.log and a_r2024-02-29_23-59-60.log (a leap second, which
     the format writes like this). What only chrono's lenient parser reads as a time stamp is FOREIGN since the repair of the
     time-stamp filter: a_r1970-1-1_0-0-0.log (no leading zeros), "a_r 1970-01-01_00-00-00.log" (white space),
     a_r+1970-01-01_00-00-00.log (a sign); for Timestamps naming a stranger's a_rCURRENT.log
     (TsdForeign.member_files_td, TsForeign.member_files_t: what the model does with them).
   This is legitimate: property C14 is about names that do NOT follow the logger's pattern. *)
Example still_members :
  List.map (num_member ex_c) [bs "a_r1.log"; bs "a_r000000000007.log"; bs "a_r99999.log"; bs "a_r1.log.gz";
                              bs "a_r1.restart-0000.log"; bs "a_rCURRENT.log"]
  = [true; true; true; true; true; true]
  /\ numd_member exdf_c (bs "a_rCURRENT.log") = false
  /\ List.map (tsd_member extd_c) [bs "a_r1999-01-01_00-00-00.log"; bs "a_r1970-1-1_0-0-0.log";
                                   bs "a_r 1970-01-01_00-00-00.log"; bs "a_r+1970-01-01_00-00-00.log";
                                   bs "a_r2024-02-29_23-59-60.log"; bs "a_r1999-01-01_00-00-00.restart-0000.log.gz"]
     = [true; false; false; false; true; true]
  /\ ts_member extf_c (bs "a_rCURRENT.log") = true /\ tsd_member extd_c (bs "a_rCURRENT.log") = false
  (* no date: 2023 was no leap year, there is no month 13 *)
  /\ tsd_member extd_c (bs "a_r2023-02-29_23-59-58.log") = false /\ tsd_member extd_c (bs "a_r2023-13-01_00-00-00.log") = false.
Proof. vm_compute. repeat split; reflexivity. Qed.
