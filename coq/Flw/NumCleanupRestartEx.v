(* Numbers naming with a cleanup strategy, sequences of runs (C06 with cleanup): examples.  Concrete histories meet the
   hypotheses of the theorems (they are not vacuous) and the final directories are computed (vm_compute); findings. *)
Require Import FL.Base.Bytes FL.Base.BytesFacts FL.Base.PathName FL.Fs.Fs FL.Fs.FsFacts FL.Time.Civil FL.Time.TsFormat
  FL.Names.FileSpec FL.Names.NamesFacts FL.Flw.Model FL.Flw.ModelFacts FL.Flw.NumFs FL.Flw.NumInv FL.Flw.Run FL.Flw.RunFacts
  FL.Flw.NumRun FL.Flw.NumListing FL.Oracles.O_Flw FL.Flw.NumTheorems FL.Flw.NumRestart FL.Flw.KillFacts FL.Flw.NumKill
  FL.Flw.NumKillRestart FL.Flw.CleanupFacts FL.Flw.NumCleanupNames FL.Flw.NumCleanupStep FL.Flw.NumCleanupRun FL.Flw.NumCleanup
  FL.Flw.NumCleanupKillDir FL.Flw.NumCleanupKillStep FL.Flw.NumCleanupKill
  FL.Flw.NumCleanupKillListing FL.Flw.NumCleanupKillRestart FL.Flw.NumCleanupRestart FL.Flw.NumCleanupRestartTheorems
  FL.Flw.NumCleanupRestartVar FL.Flw.NumCleanupRestartVarTheorems.
From Coq Require Import ZifyN ZifyNat ZifyBool.
Import String.StringSyntax.
Open Scope nat_scope.
Open Scope string_scope.

Definition xsp : file_spec := {| fbase := bs "a"; fdisc := None; fts := false; fsfx := Some (bs "log") |}.
Definition xc (app : bool) (crit : criterion) (cap : option nat) (k : cleanup) : config :=
  {| c_spec := xsp; c_append := app; c_cap := cap; c_rot := Some (crit, NNumbers, k); c_utc := false;
     c_symlink := false; c_bg := false; c_async := false; c_start := None |}.
Definition W (s : String.string) := OWrite (bs s).
Notation fsof rs := (wfs (s_w (fst (run (sys0 0 0) (runs_ops rs))))).
Definition dirof (rs : list (config * list op)) := snap_of (fst (run (sys0 0 0) (runs_ops rs))).

Lemma xsp_sfx : sfx_ok xsp.
Proof. vm_compute. reflexivity. Qed.

(* ------------------------------------------------------------------ one strategy for all runs: KLogGz 1 1 *)
(* run 1 (no append, rotation at more than 3 bytes): closes abcd, efgh; run 2 (append, buffered) continues rCURRENT;
   run 3 writes nothing; run 4 (no append, other criterion) closes rCURRENT at once and writes op *)
Definition k11 : cleanup := KLogGz 1 1.
Definition r1 (k : cleanup) : config * list op := (xc false (CSize 3) None k, [W "abcd"; W "efgh"; W "ijkl"]).
Definition ex_rs1 : list (config * list op) := [ r1 k11 ].
Definition ex_rs2 : list (config * list op) :=
  [ (xc true (CSize 100) (Some 8) k11, [W "m"; OFlush; W "n"]);
    (xc false (CAge ADay) None k11, [OTick 5; OFlush; OTrigger; OSnap]);
    (xc false (CAgeOrSize AHour 100) (Some 2) k11, [OPlain (bs "op")]) ].
Definition ex_rs : list (config * list op) := ex_rs1 ++ ex_rs2.

Lemma ex_rs_ok : Forall (fun r => c_spec (fst r) = xsp /\ (exists crit, numkcfg (fst r) crit k11) /\ Forall basic_op (snd r)) ex_rs.
Proof.
  unfold ex_rs, ex_rs1, ex_rs2. cbn [app].
  repeat (apply Forall_cons; [split; [reflexivity|]; split; [eexists; repeat split|]; repeat constructor|]).
  apply Forall_nil.
Qed.

Example restarts_k_dirs :
  dirof ex_rs1
  = [ (bs "a_r00000.log.gz", 1%N, bs "abcd"); (bs "a_r00001.log", 0%N, bs "efgh"); (bs "a_rCURRENT.log", 0%N, bs "ijkl") ]
  /\ dirof (ex_rs1 ++ firstn 1 ex_rs2)
  = [ (bs "a_r00000.log.gz", 1%N, bs "abcd"); (bs "a_r00001.log", 0%N, bs "efgh"); (bs "a_rCURRENT.log", 0%N, bs "ijklmn") ]
  (* a run without a write: no rotation (even with OTrigger), no cleanup *)
  /\ dirof (ex_rs1 ++ firstn 2 ex_rs2) = dirof (ex_rs1 ++ firstn 1 ex_rs2)
  (* no append: rCURRENT is closed under the next number with the FIRST WRITE and the cleanup runs at once *)
  /\ dirof ex_rs
  = [ (bs "a_r00001.log.gz", 1%N, bs "efgh"); (bs "a_r00002.log", 0%N, bs "ijklmn"); (bs "a_rCURRENT.log", 0%N, bs "op") ].
Proof. vm_compute. repeat split; reflexivity. Qed.

Example restarts_k_instance :
  exists closed cur,
    (forall c, c_spec c = xsp -> kreader_view c (fsof ex_rs) closed cur (length closed - (1 + 1)) (length closed - 1))
    /\ concat closed ++ cur = bs "abcdefghijklmnop".
Proof.
  destruct (numbers_cleanup_restarts xsp k11 1 1 0 0 ex_rs eq_refl xsp_sfx ltac:(vm_compute; discriminate) ex_rs_ok) as [[Hn _]|T].
  - vm_compute in Hn. discriminate Hn.
  - exact T.
Qed.

Example restarts_k_keep_instance :
  let c := xc false (CSize 3) None k11 in
  reads_at c (fsof ex_rs1) 1 (bs "efgh")
  /\ lookup (fsof ex_rs1) (rname c 1) <> None
  /\ reads_at c (fsof (ex_rs1 ++ ex_rs2)) 1 (bs "efgh")
  /\ lookup (fsof (ex_rs1 ++ ex_rs2)) (rname c 1) = None.
Proof.
  intros c.
  assert (R1 : reads_at c (fsof ex_rs1) 1 (bs "efgh")) by (vm_compute; repeat split; reflexivity).
  split; [exact R1|]. split; [vm_compute; discriminate|].
  pose proof (numbers_cleanup_restarts_keep_files xsp k11 1 1 0 0 ex_rs1 ex_rs2 c 1 (bs "efgh")
                eq_refl xsp_sfx ltac:(vm_compute; discriminate) ex_rs_ok eq_refl) as T.
  cbv zeta in T. destruct (T R1) as [[R2 _]|[G1 G2]].
  - split; [exact R2 | vm_compute; reflexivity].
  - vm_compute in G2. discriminate G2.
Qed.

(* ------------------------------------------------------------------ findings *)
(* 1. A run WITHOUT APPEND that finds rCURRENT closes it with its first write and runs the cleanup before the record is
      written: r00000.log.gz disappears although the new run itself has not rotated (limit 100 bytes). *)
Example restart_without_append_cleans_at_once :
  dirof [r1 k11]
  = [ (bs "a_r00000.log.gz", 1%N, bs "abcd"); (bs "a_r00001.log", 0%N, bs "efgh"); (bs "a_rCURRENT.log", 0%N, bs "ijkl") ]
  /\ dirof [r1 k11; (xc false (CSize 100) None k11, [W "m"])]
  = [ (bs "a_r00001.log.gz", 1%N, bs "efgh"); (bs "a_r00002.log", 0%N, bs "ijkl"); (bs "a_rCURRENT.log", 0%N, bs "m") ]
  (* with append nothing is closed and the cleanup finds nothing to do *)
  /\ dirof [r1 k11; (xc true (CSize 100) None k11, [W "m"])]
  = [ (bs "a_r00000.log.gz", 1%N, bs "abcd"); (bs "a_r00001.log", 0%N, bs "efgh"); (bs "a_rCURRENT.log", 0%N, bs "ijklm") ].
Proof. vm_compute. repeat split; reflexivity. Qed.

(* 2. Both limits 0: no closed file is ever left, so every new writer finds no number in the directory and starts again at
      r00000.  With one strategy for all runs this is invisible (the theorems hold: no closed file survives) ... *)
Definition k00 : cleanup := KLogGz 0 0.
Example index_restarts_at_0 :
  dirof [r1 k00] = [ (bs "a_rCURRENT.log", 0%N, bs "ijkl") ]
  /\ dirof [r1 k00; (xc false (CSize 3) None k00, [W "mnop"; W "qrst"])] = [ (bs "a_rCURRENT.log", 0%N, bs "qrst") ]
  (* ... but a following run with another strategy shows it: ijkl is closed as r00000, the number under which the first run closed abcd *)
  /\ dirof [r1 k00; (xc false (CSize 3) None KNever, [W "mnop"; W "qrst"])]
  = [ (bs "a_r00000.log", 0%N, bs "ijkl"); (bs "a_r00001.log", 0%N, bs "mnop"); (bs "a_rCURRENT.log", 0%N, bs "qrst") ].
Proof. vm_compute. repeat split; reflexivity. Qed.

(* 3. COUNTEREXAMPLE to "a later run never changes the content found under a number" when the strategies vary and one of
      them keeps nothing: run 1 (KNever) leaves r00000 = abcd; run 2 (limits 0 0) removes everything; run 3 (KNever) finds no
      number and closes mnop as r00000.  Nothing that survived was modified - every file was removed by the configured cleanup
      before its name was used again - but a reader that compares the two directories finds other records under the same name.
      Hence the hypothesis 1 <= A (every strategy keeps at least one closed file) of numbers_cleanup_restarts_varying_keep_files. *)
Definition cx_rs1 : list (config * list op) := [r1 KNever].
Definition cx_rs2 : list (config * list op) :=
  [ (xc false (CSize 100) None k00, [W "mnop"]); (xc false (CSize 100) None KNever, [W "qrst"]) ].
Example reused_number_counterexample :
  let c := xc false (CSize 3) None KNever in
  dirof cx_rs1 = [ (bs "a_r00000.log", 0%N, bs "abcd"); (bs "a_r00001.log", 0%N, bs "efgh"); (bs "a_rCURRENT.log", 0%N, bs "ijkl") ]
  /\ dirof (cx_rs1 ++ cx_rs2) = [ (bs "a_r00000.log", 0%N, bs "mnop"); (bs "a_rCURRENT.log", 0%N, bs "qrst") ]
  /\ reads_at c (fsof cx_rs1) 0 (bs "abcd")
  /\ reads_at c (fsof (cx_rs1 ++ cx_rs2)) 0 (bs "mnop")
  /\ ~ reads_at c (fsof (cx_rs1 ++ cx_rs2)) 0 (bs "abcd")
  /\ lookup (fsof (cx_rs1 ++ cx_rs2)) (rname c 0) <> None.
Proof.
  intros c. split; [vm_compute; reflexivity|]. split; [vm_compute; reflexivity|].
  assert (R2 : reads_at c (fsof (cx_rs1 ++ cx_rs2)) 0 (bs "mnop")) by (vm_compute; repeat split; reflexivity).
  split; [vm_compute; repeat split; reflexivity|]. split; [exact R2|]. split; [|vm_compute; discriminate].
  intros R. pose proof (reads_at_fun c _ 0 _ _ R R2) as E. vm_compute in E. discriminate E.
Qed.

(* 4. Strategies that vary: larger limits do not bring anything back, the window only moves forward; a file that is an
      archive stays an archive even when it is among the newest n (KGz 5, then KLogGz 2 1: three archives although m = 1,
      no plain file although n = 2 - the total n + m = 3 is respected). *)
Definition six : list op := [W "aaaa"; W "bbbb"; W "cccc"; W "dddd"; W "eeee"; W "ffff"].
Example varying_strategies :
  dirof [r1 k11; (xc false (CSize 3) None (KLogGz 2 2), [W "mnop"; W "qrst"; W "uvwx"])]
  = [ (bs "a_r00001.log.gz", 1%N, bs "efgh"); (bs "a_r00002.log.gz", 1%N, bs "ijkl"); (bs "a_r00003.log", 0%N, bs "mnop");
      (bs "a_r00004.log", 0%N, bs "qrst"); (bs "a_rCURRENT.log", 0%N, bs "uvwx") ]
  /\ dirof [(xc false (CSize 3) None (KGz 5), six)]
  = [ (bs "a_r00000.log.gz", 1%N, bs "aaaa"); (bs "a_r00001.log.gz", 1%N, bs "bbbb"); (bs "a_r00002.log.gz", 1%N, bs "cccc");
      (bs "a_r00003.log.gz", 1%N, bs "dddd"); (bs "a_r00004.log.gz", 1%N, bs "eeee"); (bs "a_rCURRENT.log", 0%N, bs "ffff") ]
  /\ dirof [(xc false (CSize 3) None (KGz 5), six); (xc true (CSize 100) None (KLogGz 2 1), [W "g"])]
  = [ (bs "a_r00002.log.gz", 1%N, bs "cccc"); (bs "a_r00003.log.gz", 1%N, bs "dddd"); (bs "a_r00004.log.gz", 1%N, bs "eeee");
      (bs "a_rCURRENT.log", 0%N, bs "ffffg") ].
Proof. vm_compute. repeat split; reflexivity. Qed.

(* ------------------------------------------------------------------ every run with its own strategy: the hypotheses can be met *)
Definition ex_vs1 : list (config * list op) := [ r1 k11 ].
Definition ex_vs2 : list (config * list op) := [ (xc true (CSize 100) (Some 8) KNever, [W "m"; OTrigger; W "n"]) ].
Definition ex_vs3 : list (config * list op) :=
  [ (xc false (CAge ADay) None (KLog 5), [OTick 5; OSnap]);
    (xc false (CSize 3) None (KLogGz 2 0), [OPlain (bs "opqr"); W "stuv"]) ].
Definition ex_vs : list (config * list op) := (ex_vs1 ++ ex_vs2) ++ ex_vs3.

Lemma ex_vs_ok :
  Forall (fun r => c_spec (fst r) = xsp /\ (exists crit k, numkcfg (fst r) crit k /\ kok 2 1 k) /\ Forall basic_op (snd r)) ex_vs.
Proof.
  unfold ex_vs, ex_vs1, ex_vs2, ex_vs3. cbn [app].
  repeat (apply Forall_cons; [split; [reflexivity|]; split; [do 2 eexists; split; [repeat split | cbn; try lia; exact I]|]; repeat constructor|]).
  apply Forall_nil.
Qed.

Example varying_dirs :
  dirof (ex_vs1 ++ ex_vs2)
  = [ (bs "a_r00000.log.gz", 1%N, bs "abcd"); (bs "a_r00001.log", 0%N, bs "efgh"); (bs "a_r00002.log", 0%N, bs "ijklm");
      (bs "a_rCURRENT.log", 0%N, bs "n") ]
  /\ dirof ex_vs
  = [ (bs "a_r00003.log", 0%N, bs "n"); (bs "a_r00004.log", 0%N, bs "opqr"); (bs "a_rCURRENT.log", 0%N, bs "stuv") ].
Proof. vm_compute. repeat split; reflexivity. Qed.

Example varying_instance :
  exists closed cur lo mid,
    (forall c, c_spec c = xsp -> kreader_view c (fsof ex_vs) closed cur lo mid)
    /\ concat closed ++ cur = bs "abcdefghijklmnopqrstuv"
    /\ Nat.min (length closed) 2 <= length closed - lo /\ Nat.min (length closed) 1 <= length closed - mid
    /\ length closed - mid <= 2 /\ length closed - lo <= 2 + 0.
Proof.
  destruct (numbers_cleanup_restarts_varying xsp 2 1 0 0 ex_vs ltac:(lia) xsp_sfx ltac:(vm_compute; discriminate) ex_vs_ok)
    as [[Hn _]|(closed & cur & lo & mid & V & F & X1 & X2 & U)].
  - vm_compute in Hn. discriminate Hn.
  - exists closed, cur, lo, mid. split; [exact V|]. split; [exact F|]. split; [exact X1|]. split; [exact X2|].
    apply (U ((ex_vs1 ++ ex_vs2) ++ firstn 1 ex_vs3) (xc false (CSize 3) None (KLogGz 2 0)) [OPlain (bs "opqr"); W "stuv"] (CSize 3) (KLogGz 2 0) 2 0);
      [reflexivity | reflexivity | repeat split | reflexivity].
Qed.

Example varying_keep_instance :
  let c := xc false (CSize 3) None k11 in
  reads_at c (fsof (ex_vs1 ++ ex_vs2)) 2 (bs "ijklm")
  /\ lookup (fsof ex_vs) (rname c 2) = None /\ lookup (fsof ex_vs) (gname c 2) = None
  /\ reads_at c (fsof ex_vs1) 1 (bs "efgh") /\ reads_at c (fsof (ex_vs1 ++ ex_vs2)) 1 (bs "efgh").
Proof.
  intros c.
  assert (R1 : reads_at c (fsof ex_vs1) 1 (bs "efgh")) by (vm_compute; repeat split; reflexivity).
  split; [vm_compute; repeat split; reflexivity|]. split; [vm_compute; reflexivity|]. split; [vm_compute; reflexivity|].
  split; [exact R1|].
  assert (Hok : Forall (fun r => c_spec (fst r) = xsp /\ (exists crit k, numkcfg (fst r) crit k /\ kok 2 1 k) /\ Forall basic_op (snd r))
                  (ex_vs1 ++ ex_vs2)).
  { pose proof ex_vs_ok as H. unfold ex_vs in H. apply Forall_app in H. exact (proj1 H). }
  pose proof (numbers_cleanup_restarts_varying_keep_files xsp 2 1 0 0 ex_vs1 ex_vs2 c 1 (bs "efgh")
                ltac:(lia) xsp_sfx ltac:(vm_compute; discriminate) Hok eq_refl) as T.
  cbv zeta in T. destruct (T R1) as [[R2 _]|[G1 _]].
  - exact R2.
  - vm_compute in G1. discriminate G1.
Qed.
