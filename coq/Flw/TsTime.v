(* Time stamps of rotated files: the text "r%Y-%m-%d_%H-%M-%S" of an instant of the years 1970..9999 has 20 bytes,
   no dot, and determines the instant. *)
Require Import FL.Base.Bytes FL.Base.BytesFacts FL.Time.Civil FL.Time.TsFormat FL.Names.NamesFacts FL.Names.SortFacts FL.Flw.TsCal.
From Coq Require Import ZifyN ZifyNat ZifyBool.
Open Scope Z_scope.

(* ------------------------------------------------------------------ civil_of on the seconds of these years *)
Definition sec_max : Z := 253402300800.      (* 10000-01-01 00:00:00 *)

Record civil_ok (c : civil) : Prop := {
  ok_y : 0 <= cy c <= 9999; ok_mo : 1 <= cmo c <= 12; ok_d : 1 <= cd c <= 31;
  ok_h : 0 <= ch c <= 23; ok_mi : 0 <= cmi c <= 59; ok_s : 0 <= cs c <= 59 }.

Lemma civil_of_ok t : 0 <= t < sec_max -> civil_ok (civil_of t) /\ secs_of_civil (civil_of t) = t.
Proof.
  unfold sec_max. intros Ht. unfold civil_of, secs_of_civil.
  pose proof (Z.div_mod t 86400 ltac:(lia)) as D. pose proof (Z.mod_pos_bound t 86400 ltac:(lia)) as M.
  set (days := t / 86400) in *. set (sod := t mod 86400) in *.
  assert (Hdays : 0 <= days < day_max) by (unfold day_max; lia).
  pose proof (civil_days_ok days Hdays) as C. destruct (civil_from_days days) as [[y m] d].
  destruct C as [Cd [Cy [Cm Cdd]]]. cbn [cy cmo cd ch cmi cs].
  pose proof (Z.div_mod sod 3600 ltac:(lia)) as D1. pose proof (Z.mod_pos_bound sod 3600 ltac:(lia)) as M1.
  pose proof (Z.div_mod (sod mod 3600) 60 ltac:(lia)) as D2. pose proof (Z.mod_pos_bound (sod mod 3600) 60 ltac:(lia)) as M2.
  pose proof (Z.div_mod sod 60 ltac:(lia)) as D3. pose proof (Z.mod_pos_bound sod 60 ltac:(lia)) as M3.
  set (h := sod / 3600) in *. set (r1 := sod mod 3600) in *. set (mi := r1 / 60) in *. set (s := sod mod 60) in *.
  assert (E60 : s = r1 mod 60).
  { symmetry. apply (Z.mod_unique sod 60 (60 * h + mi) (r1 mod 60)); [left; lia | lia]. }
  split.
  - constructor; cbn [cy cmo cd ch cmi cs]; try assumption; lia.
  - rewrite Cd. lia.
Qed.

Lemma civil_of_inj t1 t2 : 0 <= t1 < sec_max -> 0 <= t2 < sec_max -> civil_of t1 = civil_of t2 -> t1 = t2.
Proof.
  intros H1 H2 E. rewrite <- (proj2 (civil_of_ok t1 H1)), <- (proj2 (civil_of_ok t2 H2)), E. reflexivity.
Qed.

(* ------------------------------------------------------------------ fixed-width decimals *)
Open Scope nat_scope.
Lemma pad_dec_length w z bound : (0 <= z <= bound)%Z -> length (dec (Z.to_N bound)) <= w -> length (pad_dec w z) = w.
Proof.
  intros Hz Hb. unfold pad_dec, pad_left. rewrite app_length, repeat_length.
  pose proof (dec_length_mono (Z.to_N z) (Z.to_N bound) ltac:(lia)). lia.
Qed.
Lemma pad_dec_value w z : dec_value (pad_dec w z) = Z.to_N z.
Proof. unfold pad_dec, pad_left. rewrite dec_value_zeros. apply dec_value_dec. Qed.
Lemma pad_dec_digits w z : all_digits (pad_dec w z) = true.
Proof. unfold pad_dec, pad_left. rewrite all_digits_app, all_digits_repeat0, dec_all_digits. reflexivity. Qed.
Lemma pad_dec_inj w z1 z2 : (0 <= z1)%Z -> (0 <= z2)%Z -> pad_dec w z1 = pad_dec w z2 -> z1 = z2.
Proof. intros H1 H2 E. apply (f_equal dec_value) in E. rewrite !pad_dec_value in E. lia. Qed.

Lemma all_digits_in s c : all_digits s = true -> In c s -> is_digit c = true.
Proof.
  induction s as [|x s IH]; cbn [all_digits In]; [tauto|]. rewrite andb_true_iff. intros [H1 H2] [<-|H]; auto.
Qed.

Lemma app_inj_len {A} (a a' b b' : list A) : length a = length a' -> a ++ b = a' ++ b' -> a = a' /\ b = b'.
Proof.
  revert a'. induction a as [|x a IH]; intros [|y a'] Hl E; cbn [length app] in *; try discriminate; [auto|].
  injection E as -> E. injection Hl as Hl. destruct (IH a' Hl E) as [-> ->]. auto.
Qed.

(* ------------------------------------------------------------------ the text of std_fmt *)
Definition std_text (c : civil) : bytes :=
  114%N :: pad_dec 4 (cy c) ++ 45%N :: pad_dec 2 (cmo c) ++ 45%N :: pad_dec 2 (cd c) ++ 95%N :: pad_dec 2 (ch c)
        ++ 45%N :: pad_dec 2 (cmi c) ++ 45%N :: pad_dec 2 (cs c).

Lemma format_std c : (0 <= cy c <= 9999)%Z -> format_ts std_fmt c = std_text c.
Proof.
  intros Hy. unfold format_ts, std_fmt, std_text. cbn [flat_map fmt_item]. unfold fmt_year.
  destruct (Z.leb_spec 0 (cy c)); [|lia]. destruct (Z.leb_spec (cy c) 9999); [|lia]. cbn [andb app].
  rewrite app_nil_r. reflexivity.
Qed.

Section Text.
Variable c : civil.
Hypothesis Hc : civil_ok c.

Let L4 : length (pad_dec 4 (cy c)) = 4. Proof. apply (pad_dec_length 4 _ 9999); [apply Hc | vm_compute; lia]. Qed.
Let Lmo : length (pad_dec 2 (cmo c)) = 2. Proof. apply (pad_dec_length 2 _ 99); [pose proof (ok_mo c Hc); lia | vm_compute; lia]. Qed.
Let Ld : length (pad_dec 2 (cd c)) = 2. Proof. apply (pad_dec_length 2 _ 99); [pose proof (ok_d c Hc); lia | vm_compute; lia]. Qed.
Let Lh : length (pad_dec 2 (ch c)) = 2. Proof. apply (pad_dec_length 2 _ 99); [pose proof (ok_h c Hc); lia | vm_compute; lia]. Qed.
Let Lmi : length (pad_dec 2 (cmi c)) = 2. Proof. apply (pad_dec_length 2 _ 99); [pose proof (ok_mi c Hc); lia | vm_compute; lia]. Qed.
Let Ls : length (pad_dec 2 (cs c)) = 2. Proof. apply (pad_dec_length 2 _ 99); [pose proof (ok_s c Hc); lia | vm_compute; lia]. Qed.

Lemma std_text_length : length (std_text c) = 20.
Proof. unfold std_text. cbn [length]. rewrite !app_length. cbn [length]. rewrite !app_length. cbn [length].
  rewrite !app_length. cbn [length]. rewrite !app_length. cbn [length]. rewrite !app_length. cbn [length]. lia. Qed.

(* every byte is a digit, 'r', '-' or '_' *)
Lemma std_text_bytes b : In b (std_text c) -> is_digit b = true \/ b = 114%N \/ b = 45%N \/ b = 95%N.
Proof.
  unfold std_text. intros H.
  repeat (first [ apply in_app_or in H; destruct H as [H|H]; [left; eapply all_digits_in; [apply pad_dec_digits | exact H]|]
                | destruct H as [<-|H]; [auto|] ]).
  left; eapply all_digits_in; [apply pad_dec_digits | exact H].
Qed.

Lemma std_text_second : exists d r, std_text c = 114%N :: d :: r /\ is_digit d = true.
Proof.
  unfold std_text. pose proof (pad_dec_digits 4 (cy c)) as D. destruct (pad_dec 4 (cy c)) as [|d r] eqn:E; [discriminate L4|].
  cbn [all_digits] in D. apply andb_prop in D. destruct D as [D _]. cbn [app]. eauto.
Qed.
End Text.

Lemma std_text_inj c1 c2 : civil_ok c1 -> civil_ok c2 -> std_text c1 = std_text c2 -> c1 = c2.
Proof.
  intros H1 H2 E. unfold std_text in E. injection E as E.
  assert (P4 : forall c, civil_ok c -> length (pad_dec 4 (cy c)) = 4) by (intros c Hc; apply (pad_dec_length 4 _ 9999); [apply Hc | vm_compute; lia]).
  assert (P2 : forall z, (0 <= z <= 99)%Z -> length (pad_dec 2 z) = 2) by (intros z Hz; apply (pad_dec_length 2 _ 99); [exact Hz | vm_compute; lia]).
  destruct H1 as [Y1 Mo1 D1 Hh1 Mi1 S1], H2 as [Y2 Mo2 D2 Hh2 Mi2 S2].
  apply app_inj_len in E; [|rewrite !P4; [reflexivity | constructor; assumption | constructor; assumption]]. destruct E as [Ey E]. injection E as E.
  apply app_inj_len in E; [|rewrite !P2 by lia; reflexivity]. destruct E as [Emo E]. injection E as E.
  apply app_inj_len in E; [|rewrite !P2 by lia; reflexivity]. destruct E as [Ed E]. injection E as E.
  apply app_inj_len in E; [|rewrite !P2 by lia; reflexivity]. destruct E as [Eh E]. injection E as E.
  apply app_inj_len in E; [|rewrite !P2 by lia; reflexivity]. destruct E as [Emi E]. injection E as Es.
  apply pad_dec_inj in Ey, Emo, Ed, Eh, Emi, Es; try lia.
  destruct c1 as [y1 m1 d1 h1 i1 s1], c2 as [y2 m2 d2 h2 i2 s2]; cbn [cy cmo cd ch cmi cs] in *; subst; reflexivity.
Qed.

(* ------------------------------------------------------------------ the infix of an instant *)
Open Scope Z_scope.
(* e: the offset that the writer applies (0 with use_utc, the zone offset otherwise) *)
Definition tsx (e t : Z) : bytes := format_ts std_fmt (civil_of (t + e)).
Definition in_years (e t : Z) : Prop := 0 <= t + e < sec_max.

Lemma tsx_text e t : in_years e t -> tsx e t = std_text (civil_of (t + e)) /\ civil_ok (civil_of (t + e)).
Proof.
  intros H. destruct (civil_of_ok (t + e) H) as [Ok _]. split; [|exact Ok]. unfold tsx. apply format_std. apply Ok.
Qed.

Lemma tsx_length e t : in_years e t -> length (tsx e t) = 20%nat.
Proof. intros H. destruct (tsx_text e t H) as [-> Ok]. apply std_text_length. exact Ok. Qed.

Lemma tsx_inj e t1 t2 : in_years e t1 -> in_years e t2 -> tsx e t1 = tsx e t2 -> t1 = t2.
Proof.
  intros H1 H2 E. destruct (tsx_text e t1 H1) as [E1 Ok1], (tsx_text e t2 H2) as [E2 Ok2]. rewrite E1, E2 in E.
  apply std_text_inj in E; [|assumption|assumption]. apply civil_of_inj in E; [lia | exact H1 | exact H2].
Qed.

Lemma tsx_bytes e t b : in_years e t -> In b (tsx e t) -> is_digit b = true \/ b = 114%N \/ b = 45%N \/ b = 95%N.
Proof. intros H. destruct (tsx_text e t H) as [-> Ok]. apply std_text_bytes. Qed.

Lemma tsx_second e t : in_years e t -> exists d r, tsx e t = 114%N :: d :: r /\ is_digit d = true.
Proof. intros H. destruct (tsx_text e t H) as [-> Ok]. apply std_text_second. exact Ok. Qed.

Lemma tsx_no_dot e t : in_years e t -> ~ In 46%N (tsx e t).
Proof. intros H I. destruct (tsx_bytes e t 46%N H I) as [D|[D|[D|D]]]; [vm_compute in D|..]; discriminate. Qed.

Lemma tsx_nonempty e t : in_years e t -> tsx e t <> [].
Proof. intros H E. pose proof (tsx_length e t H) as L. rewrite E in L. discriminate. Qed.
