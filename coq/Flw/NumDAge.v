(* NumbersDirect naming (r00000, r00001, ...; no rCURRENT) with an age criterion (or age-or-size, or size): C09 for whole
   runs from an empty directory.  The timed abstract view of NumAgeInv.v (closed files and the current file, each with the
   instant at which it was started) is refined by the model; the roll state's `created` is that instant: the new file
   r(n+1) is created by the rotation, and its birth time is read back from the file system right afterwards.
   As for Numbers naming nothing is assumed about the clock: it may be set back (the decision is "another period").
   The lemmas of NumDInv.v hide the roll state of the new file behind an existential and do not say when the file was
   born; the three of them that create a file are proved again here with that information. *)
Require Import FL.Base.Bytes FL.Base.BytesFacts FL.Base.PathName FL.Fs.Fs FL.Fs.FsFacts FL.Time.Civil FL.Time.Period
  FL.Time.TsFormat FL.Names.FileSpec FL.Names.NamesFacts FL.Flw.Model FL.Flw.ModelFacts FL.Flw.NumFs FL.Flw.NumInv
  FL.Flw.Run FL.Flw.RunFacts FL.Flw.NumRun FL.Oracles.O_Flw FL.Oracles.O_Age FL.Flw.NumTheorems FL.Flw.NumAgeInv FL.Flw.NumAge
  FL.Flw.NumRestart FL.Flw.NumDInv FL.Flw.NumDRun FL.Flw.NumDTheorems.
From Coq Require Import ZifyN ZifyNat ZifyBool.
Open Scope nat_scope.

(* ------------------------------------------------------------------ one rotation, with the birth of the new file *)
Lemma mount_next_rotates_d_t c crit w wr closed roll force :
  numdcfg c crit -> NumDInv c w wr closed ->
  force || rotation_necessary w roll = true ->
  exists w' wr' roll',
    mount_next c w (Active (Some (mk_rs (NSNumD (N.of_nat (length closed))) roll)) wr (rname c (length closed))) force
      = (Ok tt, w', Active (Some (mk_rs (NSNumD (N.of_nat (length (closed ++ [cur_view w wr])))) roll')) wr'
                          (rname c (length (closed ++ [cur_view w wr]))))
    /\ NumDInv c w' wr' (closed ++ [cur_view w wr])
    /\ cur_view w' wr' = [] /\ roll_size_ok roll' 0 /\ same_env w w'
    /\ (forall st, roll_ok crit st roll -> roll_ok crit (wnow w) roll').
Proof.
  intros [Hrot [Hts [Hlink _]]] I Hnec.
  pose proof (nd_quiet _ _ _ _ I) as Q.
  assert (Elen : length (closed ++ [cur_view w wr]) = S (length closed)) by (rewrite app_length; cbn [length]; lia).
  rewrite Elen.
  unfold mount_next. cbn [mk_rs rs_roll rs_naming rs_cleanup rs_bg]. rewrite Hnec.
  unfold open_log_file. rewrite (name_of_fixed c w) by assumption.
  fold (nm c (number_infix (N.of_nat (length closed) + 1))). rewrite rname_S.
  destruct (rotate_numdinv c w wr closed (wnow w) I) as [Ht RI].
  destruct (open_fresh_quiet c w (rname c (S (length closed))) Q Hlink Ht) as [w2 [Eop [F2 S2]]]. rewrite Eop.
  unfold w_drop. destruct (w_flush_quiet w2 wr (proj1 S2)) as [w3 [Efl [F3 S3]]]. rewrite Efl. cbn [fst snd].
  unfold cleanup_or_queue. cbn [mk_rs rs_roll rs_naming rs_cleanup rs_bg cleanup_impl].
  rewrite F2 in F3. destruct (RI w3 (proj1 S3) F3) as [I3 [V3 Fo]].
  eexists w3, _, (reset_size_and_date w3 roll (rname c (S (length closed)))).
  split. { replace (N.of_nat (S (length closed))) with (N.of_nat (length closed) + 1)%N by lia. reflexivity. }
  split; [exact I3|]. split; [exact V3|].
  split. { destruct roll; cbn; auto. }
  split; [eapply same_env_trans; eassumption|].
  (* the new file was born now *)
  assert (B : birth_or_now w3 (rname c (S (length closed))) = wnow w).
  { unfold birth_or_now. rewrite Fo. reflexivity. }
  intros st Hst. destruct crit, roll; cbn [roll_ok reset_size_and_date] in *; try contradiction; rewrite ?B; tauto.
Qed.

(* ------------------------------------------------------------------ a write on an active writer *)
Lemma write_active_d_t c crit w wr closed roll b :
  numdcfg c crit -> NumDInv c w wr closed -> roll_size_ok roll (length (cur_view w wr)) ->
  let rot := rotation_necessary w roll in
  exists w' wr' roll' closed',
    write_buffer (st_of_d c (length closed) roll wr) w b = (Ok tt, w', st_of_d c (length closed') roll' wr', rot)
    /\ NumDInv c w' wr' closed' /\ roll_size_ok roll' (length (cur_view w' wr')) /\ same_env w w'
    /\ (closed', cur_view w' wr') = (if rot then (closed ++ [cur_view w wr], b) else (closed, cur_view w wr ++ b))
    /\ (forall st, roll_ok crit st roll -> roll_ok crit (if rot then wnow w else st) roll').
Proof.
  intros Hcfg I Hsz rot.
  unfold write_buffer, st_of_d. cbn [f_cfg f_inner f_poisoned mk_rs rs_roll]. fold rot.
  assert (M : exists w1 wr1 roll1 closed1,
            mount_next c w (Active (Some (mk_rs (NSNumD (N.of_nat (length closed))) roll)) wr (rname c (length closed))) false
            = (Ok tt, w1, Active (Some (mk_rs (NSNumD (N.of_nat (length closed1))) roll1)) wr1 (rname c (length closed1)))
            /\ NumDInv c w1 wr1 closed1 /\ roll_size_ok roll1 (length (cur_view w1 wr1)) /\ same_env w w1
            /\ (closed1, cur_view w1 wr1) = (if rot then (closed ++ [cur_view w wr], []) else (closed, cur_view w wr))
            /\ (forall st, roll_ok crit st roll -> roll_ok crit (if rot then wnow w else st) roll1)).
  { destruct rot eqn:Er.
    - destruct (mount_next_rotates_d_t c crit w wr closed roll false Hcfg I) as [w1 [wr1 [roll1 [E [I1 [V1 [Z1 [S1 R1]]]]]]]]; [exact Er|].
      exists w1, wr1, roll1, (closed ++ [cur_view w wr]). rewrite V1.
      split; [exact E|]. split; [exact I1|]. split; [exact Z1|]. split; [exact S1|]. split; [reflexivity | exact R1].
    - exists w, wr, roll, closed. split.
      + unfold mount_next. cbn [mk_rs rs_roll orb]. unfold rot in Er. rewrite Er. reflexivity.
      + split; [exact I|]. split; [exact Hsz|]. split; [apply same_env_refl; apply I|]. split; [reflexivity | auto]. }
  destruct M as [w1 [wr1 [roll1 [closed1 [E [I1 [Z1 [S1 [V1 R1]]]]]]]]].
  rewrite E.
  destruct (w_write_quiet w1 wr1 b (nd_quiet _ _ _ _ I1) (nd_wr _ _ _ _ I1)) as [w2 [wr2 [fl [Ew [S2 [F2 [Ei [Ec [Ep Hok]]]]]]]]].
  rewrite Ew.
  destruct (numdinv_append c w1 w2 wr1 wr2 closed1 fl I1 F2 S2 Ei Ec Hok) as [I2 C2].
  exists w2, wr2, (increase_size roll1 (N.of_nat (length b))), closed1.
  assert (V2 : cur_view w2 wr2 = cur_view w1 wr1 ++ b).
  { unfold cur_view. rewrite C2, <- !app_assoc, Ep. reflexivity. }
  split; [reflexivity|]. split; [exact I2|].
  split. { rewrite V2, app_length. apply roll_size_increase. exact Z1. }
  split; [eapply same_env_trans; eassumption|].
  split. { rewrite V2. destruct rot; injection V1 as -> ->; reflexivity. }
  intros st Hst. apply roll_ok_increase. apply R1. exact Hst.
Qed.

(* ------------------------------------------------------------------ the first write: r00000 is born now *)
Lemma initialize_empty_d_t c crit w :
  numdcfg c crit -> quiet w -> names (wfs w) = [] -> inodes (wfs w) = [] ->
  exists w' wr roll,
    initialize c w = (Ok (Active (Some (mk_rs (NSNumD 0) roll)) wr (rname c 0)), w')
    /\ NumDInv c w' wr [] /\ cur_view w' wr = [] /\ roll_size_ok roll 0 /\ same_env w w'
    /\ roll_ok crit (wnow w) roll.
Proof.
  intros [Hrot [Hts [Hlink _]]] Q Hn Hi.
  unfold initialize. rewrite Hrot. unfold init_naming, with_listing.
  rewrite tick_quiet by assumption.
  unfold get_highest_index, list_log_gz. rewrite existing_rot_empty by assumption. cbn [filter_map_opt max_opt bind].
  unfold open_log_file. rewrite (name_of_fixed c w) by assumption. fold (nm c (number_infix 0)).
  change (nm c (number_infix 0)) with (rname c 0).
  destruct (open_fresh_quiet c w (rname c 0) Q Hlink (lookup_empty _ _ Hn)) as [w2 [Eop [F2 S2]]]. rewrite Eop. cbn [bind fst snd].
  destruct (numdinv_first c w2 (wfs w) (wnow w) (proj1 S2) Hn Hi F2) as [I2 [V2 Fo]].
  unfold create_file. cbn [snd]. rewrite Hi. cbn [length].
  assert (RN : exists roll, roll_new w2 crit (c_append c) (rname c 0) = (Ok roll, w2) /\ roll_size_ok roll 0
               /\ roll_ok crit (wnow w) roll).
  { unfold roll_new, birth_or_now. destruct (c_append c).
    - rewrite tick_quiet by apply S2. rewrite Fo. cbn [fresh_file fdata fborn length].
      eexists. split; [reflexivity|]. split; destruct crit; cbn; rewrite ?Fo; cbn; auto.
    - rewrite Fo. cbn [fresh_file fborn]. eexists. split; [reflexivity|]. split; destruct crit; cbn; rewrite ?Fo; cbn; auto. }
  destruct RN as [roll [Ern [Z R]]]. rewrite Ern. cbn [bind].
  exists w2, {| wino := 0; wpend := []; wcap := c_cap c |}, roll. split; [reflexivity|].
  split; [exact I2|]. split; [exact V2|]. split; [exact Z|]. split; [exact S2 | exact R].
Qed.

(* ------------------------------------------------------------------ the invariant against the timed view *)
Definition RelDT (c : config) (crit : criterion) (x : sys) (v : tview) : Prop :=
  s_tl x = [] /\ wacts (s_w x) = 0 /\
  match v with
  | None => s_flw x = Some (new_flw c) /\ quiet (s_w x) /\ names (wfs (s_w x)) = [] /\ inodes (wfs (s_w x)) = []
  | Some (cl, (st, cu)) =>
    exists wr roll, s_flw x = Some (st_of_d c (length (List.map snd cl)) roll wr) /\ NumDInv c (s_w x) wr (List.map snd cl)
      /\ cur_view (s_w x) wr = cu /\ roll_size_ok roll (length cu) /\ roll_ok crit st roll
  end.

Lemma RelDT_RelD c crit x v : RelDT c crit x v -> RelD c crit x (untime v).
Proof.
  intros [Ht [Ha R]]. split; [exact Ht|]. split; [exact Ha|].
  destruct v as [[cl [st cu]]|]; cbn [untime]; [|exact R].
  destruct R as [wr [roll [Es [I [V [Z K]]]]]]. exists wr, roll.
  split; [exact Es|]. split; [exact I|]. split; [exact V|]. split; [exact Z|].
  intros m Hm. exact (roll_ok_size _ _ _ _ K Hm).
Qed.

Lemma start_relDT c crit t0 off : RelDT c crit (fst (step (sys0 t0 off) (OStart c))) None.
Proof. cbn. repeat split. Qed.

(* what a write does, from either kind of state *)
Lemma write_relDT c crit x v b :
  numdcfg c crit -> RelDT c crit x v ->
  exists s w' s', s_flw x = Some s /\ f_poisoned s = false /\
    write_buffer s (s_w x) b = (Ok tt, w', s', t_flag crit (woff (s_w x)) v (wnow (s_w x)))
    /\ RelDT c crit {| s_flw := Some s'; s_w := w'; s_tl := []; s_dead := s_dead x |}
             (t_step crit (woff (s_w x)) v (wnow (s_w x)) (OWrite b))
    /\ same_env (s_w x) w'.
Proof.
  intros Hcfg [Ht [Ha R]]. destruct v as [[cl [st cu]]|].
  - destruct R as [wr [roll [Es [I [V [Z K]]]]]].
    rewrite <- V in Z.
    destruct (write_active_d_t c crit (s_w x) wr (List.map snd cl) roll b Hcfg I Z) as [w' [wr' [roll' [closed' [E [I' [Z' [S' [V' R']]]]]]]]].
    assert (D : rotation_necessary (s_w x) roll = due crit (woff (s_w x)) st cu (wnow (s_w x))).
    { apply roll_decision; [exact K | rewrite <- V; exact Z]. }
    exists (st_of_d c (length (List.map snd cl)) roll wr), w', (st_of_d c (length closed') roll' wr').
    split; [exact Es|]. split; [reflexivity|]. cbn [t_flag]. rewrite <- D. split; [exact E|].
    split; [|exact S'].
    split; [reflexivity|]. split; [cbn [s_w]; exact (same_env_acts _ _ S' Ha)|].
    cbn [t_step]. rewrite <- D. rewrite V in V'. specialize (R' st K).
    destruct (rotation_necessary (s_w x) roll); injection V' as -> V''; exists wr', roll'; cbn [s_flw s_w].
    + rewrite map_app. cbn [List.map snd].
      split; [reflexivity|]. split; [exact I'|]. split; [exact V''|]. split; [rewrite <- V''; exact Z' | exact R'].
    + split; [reflexivity|]. split; [exact I'|]. split; [exact V''|]. split; [rewrite <- V''; exact Z' | exact R'].
  - destruct R as [Es [Q [Hn Hi]]].
    destruct (initialize_empty_d_t c crit (s_w x) Hcfg Q Hn Hi) as [w1 [wr [roll [Ei [I [V [Z [S1 K]]]]]]]].
    assert (Z0 : roll_size_ok roll (length (cur_view w1 wr))) by (rewrite V; exact Z).
    destruct (write_active_d_t c crit w1 wr [] roll b Hcfg I Z0) as [w' [wr' [roll' [closed' [E [I' [Z' [S' [V' R']]]]]]]]].
    assert (D : rotation_necessary w1 roll = false).
    { rewrite (roll_decision crit w1 (wnow (s_w x)) roll [] K Z).
      destruct S1 as [_ [-> _]]. apply due_self. }
    rewrite D in *.
    exists (new_flw c), w', (st_of_d c (length closed') roll' wr').
    split; [exact Es|]. split; [reflexivity|].
    split. { rewrite (write_buffer_init c (s_w x) b _ _ _ w1 Ei). exact E. }
    split; [|eapply same_env_trans; eassumption].
    split; [reflexivity|]. split; [cbn [s_w]; exact (same_env_acts _ _ (same_env_trans _ _ _ S1 S') Ha)|].
    cbn [t_step]. rewrite V in V'. cbn [app] in V'. injection V' as -> V''.
    exists wr', roll'. cbn [s_flw s_w List.map].
    split; [reflexivity|]. split; [exact I'|]. split; [exact V''|]. split; [rewrite <- V''; exact Z' | exact (R' _ K)].
Qed.

Lemma step_sync_relDT c crit x v o : numdcfg c crit -> RelDT c crit x v -> step x o = sync_step x o.
Proof. intros Hcfg R. exact (step_sync_rel_d c crit x _ o Hcfg (RelDT_RelD _ _ _ _ R)). Qed.

(* one basic operation *)
Lemma step_relDT c crit x v o :
  numdcfg c crit -> RelDT c crit x v -> basic_op o ->
  let '(x', ob) := step x o in
  RelDT c crit x' (t_step crit (woff (s_w x)) v (wnow (s_w x)) o)
  /\ woff (s_w x') = woff (s_w x) /\ wnow (s_w x') = clock (wnow (s_w x)) o
  /\ (forall b, (o = OWrite b \/ o = OPlain b) -> ob = ObsRes 0 (t_flag crit (woff (s_w x)) v (wnow (s_w x)))).
Proof.
  intros Hcfg R Hb. rewrite (step_sync_relDT c crit x v o Hcfg R). destruct o; try contradiction; cbn [sync_step clock].
  - (* OWrite *)
    destruct (write_relDT c crit x v b Hcfg R) as [s [w' [s' [Es [Hp [E [R' S']]]]]]].
    rewrite Es, Hp. rewrite (proj1 R). cbn [app]. rewrite E. cbn [s_w].
    split; [exact R'|]. split; [apply S'|]. split; [apply S'|]. intros b0 _. reflexivity.
  - (* OPlain *)
    destruct (write_relDT c crit x v b Hcfg R) as [s [w' [s' [Es [Hp [E [R' S']]]]]]].
    rewrite Es, Hp, E. cbn [code_of s_w]. rewrite (proj1 R).
    split; [exact R'|]. split; [apply S'|]. split; [apply S'|]. intros b0 _. reflexivity.
  - (* OFlush *)
    destruct R as [Ht [Ha R]]. destruct v as [[cl [st cu]]|].
    + destruct R as [wr [roll [Es [I [V [Z K]]]]]]. rewrite Es. cbn [st_of_d f_poisoned].
      destruct (flush_active_d c (s_w x) wr (List.map snd cl) roll I) as [w' [wr' [E [I' [V' [P' S']]]]]].
      fold (st_of_d c (length (List.map snd cl)) roll wr). rewrite E. cbn [t_step s_w].
      split; [|split; [apply S' | split; [apply S' | intros b [H|H]; discriminate]]].
      split; [exact Ht|]. split; [exact (same_env_acts _ _ S' Ha)|]. exists wr', roll. cbn [s_flw s_w].
      split; [reflexivity|]. split; [exact I'|]. split; [congruence|]. split; assumption.
    + destruct R as [Es R]. rewrite Es. cbn [new_flw f_poisoned flush_state f_inner t_step s_w].
      split; [|split; [reflexivity | split; [reflexivity | intros b [H|H]; discriminate]]].
      split; [exact Ht|]. split; [exact Ha|]. split; [reflexivity | exact R].
  - (* OTrigger *)
    destruct R as [Ht [Ha R]]. destruct v as [[cl [st cu]]|].
    + destruct R as [wr [roll [Es [I [V [Z K]]]]]]. rewrite Es. cbn [st_of_d f_poisoned f_cfg f_inner].
      destruct (mount_next_rotates_d_t c crit (s_w x) wr (List.map snd cl) roll true Hcfg I eq_refl) as [w' [wr' [roll' [E [I' [V' [Z' [S' R']]]]]]]].
      rewrite E. cbn [t_step code_of with_inner f_cfg f_poisoned s_w].
      split; [|split; [apply S' | split; [apply S' | intros b [H|H]; discriminate]]].
      split; [exact Ht|]. split; [exact (same_env_acts _ _ S' Ha)|]. rewrite V in *. exists wr', roll'. cbn [s_flw s_w].
      rewrite map_app. cbn [List.map snd].
      split; [reflexivity|]. split; [exact I'|]. split; [exact V'|]. split; [exact Z' | exact (R' _ K)].
    + destruct R as [Es R]. rewrite Es. cbn [new_flw f_poisoned f_cfg f_inner mount_next with_inner t_step code_of s_w].
      split; [|split; [reflexivity | split; [reflexivity | intros b [H|H]; discriminate]]].
      split; [exact Ht|]. split; [exact Ha|]. split; [reflexivity | exact R].
  - (* OTick *)
    cbn [t_step s_w set_now woff wnow].
    split; [|split; [reflexivity | split; [reflexivity | intros b [H|H]; discriminate]]].
    destruct R as [Ht [Ha R]]. split; [exact Ht|]. split; [exact Ha|]. destruct v as [[cl [st cu]]|].
    + destruct R as [wr [roll [Es [I [V [Z K]]]]]]. exists wr, roll. cbn [s_flw s_w].
      split; [exact Es|]. split; [apply (numdinv_env c (s_w x)); [exact I | reflexivity | apply I]|].
      split; [exact V|]. split; assumption.
    + cbn [s_flw s_w]. exact R.
  - (* OSnap *)
    cbn [t_step]. split; [exact R|]. split; [reflexivity|]. split; [reflexivity | intros b [H|H]; discriminate].
Qed.

(* a whole run: the invariant, the clock, and every rotation flag *)
Lemma run_relDT c crit : numdcfg c crit -> forall ops x v, RelDT c crit x v -> Forall basic_op ops ->
  let off := woff (s_w x) in let t := wnow (s_w x) in
  RelDT c crit (fst (run x ops)) (t_run crit off v t ops)
  /\ woff (s_w (fst (run x ops))) = off /\ wnow (s_w (fst (run x ops))) = clock_run t ops
  /\ (forall i o, nth_error ops i = Some o -> forall b, (o = OWrite b \/ o = OPlain b) ->
        nth_error (snd (run x ops)) i
        = Some (ObsRes 0 (t_flag crit off (t_run crit off v t (firstn i ops)) (clock_run t (firstn i ops))))).
Proof.
  intros Hcfg. induction ops as [|o r IH]; intros x v R Hb; cbn zeta.
  - split; [exact R|]. split; [reflexivity|]. split; [reflexivity|]. intros i o H. destruct i; discriminate.
  - cbn [run]. inversion Hb as [|o' r' Ho Hr]; subst.
    pose proof (step_relDT c crit x v o Hcfg R Ho) as S. destruct (step x o) as [x1 ob] eqn:Est.
    destruct S as [R1 [O1 [N1 F1]]]. specialize (IH x1 _ R1 Hr). cbn zeta in IH. rewrite O1, N1 in IH.
    destruct (run x1 r) as [x2 obs] eqn:Er. cbn [fst snd] in *.
    destruct IH as [IH1 [IH2 [IH3 IH4]]].
    split; [exact IH1|]. split; [exact IH2|]. split; [exact IH3|].
    intros i o0 Hi b Hw. destruct i as [|i].
    + cbn in Hi. injection Hi as <-. cbn [nth_error firstn t_run clock_run fold_left]. f_equal. exact (F1 b Hw).
    + cbn [nth_error firstn t_run clock_run fold_left] in *. exact (IH4 i o0 Hi b Hw).
Qed.

(* ------------------------------------------------------------------ 1. the rotation flags *)
(* The flag observed for the i-th operation, a write at clock value t = t0 + the ticks before it, is the oracle's
   decision `rotate_due` on the state before it: the start instant and the content (disk + buffer) of the file being
   written - the one with the highest number -, which is the last file of the oracle's partition of the history so far.
   No file yet: no rotation.  Every history: the clock may also be set back. *)
Theorem numbersdirect_age_flags c crit t0 off ops i o b :
  numdcfg c crit -> Forall basic_op ops -> nth_error ops i = Some o -> (o = OWrite b \/ o = OPlain b) ->
  nth_error (snd (run (sys0 t0 off) (OStart c :: ops))) (S i)
  = Some (ObsRes 0
      match last_opt (tpartition (age_of crit) (lim_of crit) off [] None (titems t0 (firstn i ops))) with
      | None => false
      | Some (start, content) => rotate_due (age_of crit) (lim_of crit) off start content (clock_run t0 (firstn i ops))
      end).
Proof.
  intros Hcfg Hb Hi Ho. cbn [run]. destruct (step (sys0 t0 off) (OStart c)) as [x0 ob0] eqn:E0.
  pose proof (start_relDT c crit t0 off) as R0. pose proof (start_clock c t0 off) as [N0 O0]. rewrite E0 in R0, N0, O0. cbn [fst] in R0, N0, O0.
  pose proof (run_relDT c crit Hcfg ops x0 None R0 Hb) as [_ [_ [_ Hr]]]. rewrite N0, O0 in Hr.
  destruct (run x0 ops) as [x1 obs1]. cbn [snd nth_error] in *. rewrite (Hr i o Hi b Ho). do 2 f_equal.
  pose proof (t_run_partition crit off (firstn i ops) None t0) as P. cbn [tcl tcu] in P. rewrite <- P, tfiles_last.
  unfold t_flag, tcu, due, age_of, lim_of. destruct (t_run crit off None t0 (firstn i ops)) as [[cl [st cu]]|]; reflexivity.
Qed.

(* the same for the two criteria, the decision spelled out *)
Corollary numbersdirect_age_flags_age c a t0 off ops i o b :
  numdcfg c (CAge a) -> Forall basic_op ops -> nth_error ops i = Some o -> (o = OWrite b \/ o = OPlain b) ->
  nth_error (snd (run (sys0 t0 off) (OStart c :: ops))) (S i)
  = Some (ObsRes 0
      match last_opt (tpartition (Some a) None off [] None (titems t0 (firstn i ops))) with
      | None => false
      | Some (start, _) => negb (period_of a (start + off) =? period_of a (clock_run t0 (firstn i ops) + off))%Z
      end).
Proof.
  intros Hcfg Hb Hi Ho. rewrite (numbersdirect_age_flags c (CAge a) t0 off ops i o b Hcfg Hb Hi Ho). do 2 f_equal.
  cbn [age_of lim_of crit_parts fst snd]. destruct (last_opt _) as [[st cu]|]; [|reflexivity].
  unfold rotate_due. apply Bool.orb_false_r.
Qed.

Corollary numbersdirect_age_flags_age_or_size c a m t0 off ops i o b :
  numdcfg c (CAgeOrSize a m) -> Forall basic_op ops -> nth_error ops i = Some o -> (o = OWrite b \/ o = OPlain b) ->
  nth_error (snd (run (sys0 t0 off) (OStart c :: ops))) (S i)
  = Some (ObsRes 0
      match last_opt (tpartition (Some a) (Some m) off [] None (titems t0 (firstn i ops))) with
      | None => false
      | Some (start, content) =>
        negb (period_of a (start + off) =? period_of a (clock_run t0 (firstn i ops) + off))%Z
        || (m <? N.of_nat (length content))%N
      end).
Proof.
  intros Hcfg Hb Hi Ho. rewrite (numbersdirect_age_flags c (CAgeOrSize a m) t0 off ops i o b Hcfg Hb Hi Ho). reflexivity.
Qed.

(* ------------------------------------------------------------------ 2. the files *)
(* After the writer is stopped the directory consists exactly (direct_view) of the plain files r00000 .. r(n) - nothing
   else; it is empty when nothing was written - and their contents, in number order, are exactly the contents the oracle
   computes from the timed history. *)
Theorem numbersdirect_age_partition c crit t0 off ops :
  numdcfg c crit -> Forall basic_op ops ->
  direct_view c (wfs (s_w (fst (run (sys0 t0 off) (OStart c :: ops ++ [OStop])))))
              (List.map snd (tpartition (age_of crit) (lim_of crit) off [] None (titems t0 ops))).
Proof.
  intros Hcfg Hb. cbn [run]. destruct (step (sys0 t0 off) (OStart c)) as [x0 ob0] eqn:E0.
  pose proof (start_relDT c crit t0 off) as R0. pose proof (start_clock c t0 off) as [N0 O0]. rewrite E0 in R0, N0, O0. cbn [fst] in R0, N0, O0.
  rewrite run_app. pose proof (run_relDT c crit Hcfg ops x0 None R0 Hb) as [R1 _]. rewrite N0, O0 in R1.
  destruct (run x0 ops) as [x1 obs1]. cbn [fst snd] in *.
  pose proof (stop_rel_d c crit x1 _ Hcfg (RelDT_RelD _ _ _ _ R1)) as S. cbn [run]. destruct (step x1 OStop) as [x2 ob2]. cbn [fst].
  pose proof (t_run_partition crit off ops None t0) as P. cbn [tcl tcu] in P. rewrite <- P, <- files_of_untime.
  apply files_of_direct. exact S.
Qed.

(* the executable oracle of C09 accepts the list of contents r00000, r00001, ... *)
Corollary numbersdirect_age_oracle c crit t0 off ops :
  numdcfg c crit -> Forall basic_op ops ->
  exists files, direct_view c (wfs (s_w (fst (run (sys0 t0 off) (OStart c :: ops ++ [OStop]))))) files
    /\ oracle_C09_partition crit off None (titems t0 ops) files = true.
Proof.
  intros Hcfg Hb. eexists. split; [exact (numbersdirect_age_partition c crit t0 off ops Hcfg Hb)|].
  unfold oracle_C09_partition, age_of, lim_of. destruct (crit_parts crit) as [a lim]. apply list_beq2_refl.
Qed.

(* ------------------------------------------------------------------ 3. the property, without the oracle *)
(* The record-level specification of NumAge.v (age_files: which record goes into which file, when each file was started and
   whether by rotate()) is independent of the naming. *)
Theorem numbersdirect_age_records c crit a t0 off ops :
  numdcfg c crit -> age_of crit = Some a -> Forall basic_op ops ->
  let fl := age_files crit off t0 ops in
    direct_view c (wfs (s_w (fst (run (sys0 t0 off) (OStart c :: ops ++ [OStop]))))) (List.map rbytes fl)
    /\ List.map rbytes fl = List.map snd (tpartition (age_of crit) (lim_of crit) off [] None (titems t0 ops))
    /\ concat (List.map rrecs fl) = trecs t0 ops
    /\ (forall f, In f fl -> one_period a off f /\ starts_with_record f)
    /\ trig_starts fl = trig_times false t0 ops
    /\ (forall i f1 f2, nth_error fl i = Some f1 -> nth_error fl (S i) = Some f2 -> was_due crit off f1 f2)
    /\ (ticks_nonneg ops -> forall i f1 f2, nth_error fl i = Some f1 -> nth_error fl (S i) = Some f2 -> start_le f1 f2).
Proof.
  intros Hcfg Ha Hb fl. unfold fl, age_files.
  assert (E : List.map rbytes (rfiles (r_run crit off None t0 ops))
              = List.map snd (tpartition (age_of crit) (lim_of crit) off [] None (titems t0 ops))).
  { pose proof (t_run_partition crit off ops None t0) as E. cbn [tcl tcu] in E. rewrite <- E.
    change (@None (list tfile * tfile)) with (forget None). rewrite <- r_run_forget, tfiles_forget. reflexivity. }
  split. { rewrite E. exact (numbersdirect_age_partition c crit t0 off ops Hcfg Hb). }
  split; [exact E|].
  split. { rewrite r_run_recs. reflexivity. }
  split. { apply Forall_forall. apply (r_run_files_ok crit a off ops Ha). constructor. }
  split. { rewrite r_run_trigs. reflexivity. }
  split. { apply chain_nth. apply r_run_chain. exact Logic.I. }
  intros Ht. apply chain_nth. apply r_run_mono; [exact Ht|]. split; exact Logic.I.
Qed.

(* C09 for the pure age criterion, without reference to the oracle: the directory r00000 .. r(n) is an in-order partition
   of the records such that each file holds records of ONE period (that of its start), and no rotation happens inside a
   period - two consecutive files belong to different periods unless rotate() separated them; with a clock that does not
   go backwards, to a LATER period. *)
Theorem numbersdirect_age_periods_pure c a t0 off ops :
  numdcfg c (CAge a) -> Forall basic_op ops ->
  exists fl : list rfile,
    direct_view c (wfs (s_w (fst (run (sys0 t0 off) (OStart c :: ops ++ [OStop]))))) (List.map rbytes fl)
    /\ concat (List.map rrecs fl) = trecs t0 ops
    /\ (forall f t b, In f fl -> In (t, b) (rrecs f) -> period_of a (t + off) = period_of a (rstart f + off))
    /\ (forall f, In f fl -> rtrig f = false -> exists b rest, rrecs f = (rstart f, b) :: rest)
    /\ List.map rstart (filter rtrig fl) = trig_times false t0 ops
    /\ (forall i f1 f2, nth_error fl i = Some f1 -> nth_error fl (S i) = Some f2 -> rtrig f2 = false ->
          period_of a (rstart f1 + off) <> period_of a (rstart f2 + off))
    /\ (ticks_nonneg ops -> forall i f1 f2, nth_error fl i = Some f1 -> nth_error fl (S i) = Some f2 ->
          (period_of a (rstart f1 + off) <= period_of a (rstart f2 + off))%Z
          /\ (rtrig f2 = false -> (period_of a (rstart f1 + off) < period_of a (rstart f2 + off))%Z)).
Proof.
  intros Hcfg Hb. destruct (numbersdirect_age_records c (CAge a) a t0 off ops Hcfg eq_refl Hb) as [H1 [_ [H2 [H3 [H4 [H5 H6]]]]]].
  exists (age_files (CAge a) off t0 ops). split; [exact H1|]. split; [exact H2|].
  split. { intros f t b Hf. apply (proj1 (H3 f Hf)). }
  split. { intros f Hf. apply (proj2 (H3 f Hf)). }
  split; [exact H4|].
  assert (N : forall i f1 f2, nth_error (age_files (CAge a) off t0 ops) i = Some f1 ->
              nth_error (age_files (CAge a) off t0 ops) (S i) = Some f2 -> rtrig f2 = false ->
              period_of a (rstart f1 + off) <> period_of a (rstart f2 + off)).
  { intros i f1 f2 E1 E2 Htr. specialize (H5 i f1 f2 E1 E2 Htr).
    unfold due, rotate_due in H5. cbn [crit_parts fst snd] in H5. rewrite Bool.orb_false_r in H5.
    apply Bool.negb_true_iff, Z.eqb_neq in H5. exact H5. }
  split; [exact N|].
  intros Ht i f1 f2 E1 E2. pose proof (H6 Ht i f1 f2 E1 E2) as L. unfold start_le in L.
  assert (M : (period_of a (rstart f1 + off) <= period_of a (rstart f2 + off))%Z) by (apply period_of_mono; lia).
  split; [exact M|]. intros Htr. pose proof (N i f1 f2 E1 E2 Htr). lia.
Qed.

(* age-or-size: one period per file as well; a file not started by rotate() follows a file of another period or one
   that had exceeded the size limit *)
Theorem numbersdirect_age_or_size_periods_pure c a m t0 off ops :
  numdcfg c (CAgeOrSize a m) -> Forall basic_op ops ->
  exists fl : list rfile,
    direct_view c (wfs (s_w (fst (run (sys0 t0 off) (OStart c :: ops ++ [OStop]))))) (List.map rbytes fl)
    /\ concat (List.map rrecs fl) = trecs t0 ops
    /\ (forall f t b, In f fl -> In (t, b) (rrecs f) -> period_of a (t + off) = period_of a (rstart f + off))
    /\ (forall f, In f fl -> rtrig f = false -> exists b rest, rrecs f = (rstart f, b) :: rest)
    /\ List.map rstart (filter rtrig fl) = trig_times false t0 ops
    /\ (forall i f1 f2, nth_error fl i = Some f1 -> nth_error fl (S i) = Some f2 -> rtrig f2 = false ->
          period_of a (rstart f1 + off) <> period_of a (rstart f2 + off) \/ (m < N.of_nat (length (rbytes f1)))%N)
    /\ (ticks_nonneg ops -> forall i f1 f2, nth_error fl i = Some f1 -> nth_error fl (S i) = Some f2 ->
          (period_of a (rstart f1 + off) <= period_of a (rstart f2 + off))%Z).
Proof.
  intros Hcfg Hb. destruct (numbersdirect_age_records c (CAgeOrSize a m) a t0 off ops Hcfg eq_refl Hb) as [H1 [_ [H2 [H3 [H4 [H5 H6]]]]]].
  exists (age_files (CAgeOrSize a m) off t0 ops). split; [exact H1|]. split; [exact H2|].
  split. { intros f t b Hf. apply (proj1 (H3 f Hf)). }
  split. { intros f Hf. apply (proj2 (H3 f Hf)). }
  split; [exact H4|].
  split.
  { intros i f1 f2 E1 E2 Htr. specialize (H5 i f1 f2 E1 E2 Htr).
    unfold due, rotate_due in H5. cbn [crit_parts fst snd] in H5.
    apply Bool.orb_true_iff in H5. destruct H5 as [H5|H5].
    - left. apply Bool.negb_true_iff, Z.eqb_neq in H5. exact H5.
    - right. apply N.ltb_lt. exact H5. }
  intros Ht i f1 f2 E1 E2. pose proof (H6 Ht i f1 f2 E1 E2) as L. unfold start_le in L. apply period_of_mono. lia.
Qed.

Print Assumptions numbersdirect_age_flags.
Print Assumptions numbersdirect_age_partition.
Print Assumptions numbersdirect_age_oracle.
Print Assumptions numbersdirect_age_records.
Print Assumptions numbersdirect_age_periods_pure.
Print Assumptions numbersdirect_age_or_size_periods_pure.

(* ------------------------------------------------------------------ examples (non-vacuity) *)
Import String.StringSyntax.
Open Scope string_scope.

(* Age::Minute, the history NumAge.minute_ops: the writer is started 59 s before the full minute, a record every 30 s -
   two records in minute 0, two in minute 1, one in minute 2 -, then rotate() and one more record in minute 2 *)
Definition nda_c : config := exd_cfg (ex_sp "log") false (CAge AMinute) (Some 8%nat).
Lemma nda_c_ok : numdcfg nda_c (CAge AMinute).
Proof. apply exd_cfg_ok. reflexivity. Qed.
Lemma nda_minute_ops_basic : Forall basic_op minute_ops.
Proof. repeat constructor. Qed.

Example numd_age_minute_dir :
  snap_of (fst (run (sys0 1 0) (OStart nda_c :: minute_ops ++ [OStop])))
  = [ (bs "app_r00000.log", 0%N, bs "ab"); (bs "app_r00001.log", 0%N, bs "cd"); (bs "app_r00002.log", 0%N, bs "e");
      (bs "app_r00003.log", 0%N, bs "f") ]
  /\ List.map rot_of (snd (run (sys0 1 0) (OStart nda_c :: minute_ops)))
     = [false; false; false; false; false; true; false; false; false; false; true; false; false]
  /\ tpartition (Some AMinute) None 0 [] None (titems 1 minute_ops) = [(1%Z, bs "ab"); (61%Z, bs "cd"); (121%Z, bs "e"); (121%Z, bs "f")].
Proof. repeat split; vm_compute; reflexivity. Qed.

(* the theorems apply: their hypotheses can be met *)
Example numd_age_partition_instance :
  direct_view nda_c (wfs (s_w (fst (run (sys0 1 0) (OStart nda_c :: minute_ops ++ [OStop])))))
    [bs "ab"; bs "cd"; bs "e"; bs "f"].
Proof. exact (numbersdirect_age_partition nda_c (CAge AMinute) 1 0 minute_ops nda_c_ok nda_minute_ops_basic). Qed.

Example numd_age_flag_instance :
  nth_error (snd (run (sys0 1 0) (OStart nda_c :: minute_ops))) 5 = Some (ObsRes 0 true).
Proof.
  rewrite (numbersdirect_age_flags_age nda_c AMinute 1 0 minute_ops 4 (OWrite (bs "c")) (bs "c")
             nda_c_ok nda_minute_ops_basic eq_refl (or_introl eq_refl)).
  vm_compute. reflexivity.
Qed.

Example numd_age_periods_instance :
  exists fl : list rfile,
    direct_view nda_c (wfs (s_w (fst (run (sys0 1 0) (OStart nda_c :: minute_ops ++ [OStop]))))) (List.map rbytes fl)
    /\ concat (List.map rrecs fl) = [(1%Z, bs "a"); (31%Z, bs "b"); (61%Z, bs "c"); (91%Z, bs "d"); (121%Z, bs "e"); (121%Z, bs "f")]
    /\ (forall f t b, In f fl -> In (t, b) (rrecs f) -> period_of AMinute (t + 0) = period_of AMinute (rstart f + 0)).
Proof.
  destruct (numbersdirect_age_periods_pure nda_c AMinute 1 0 minute_ops nda_c_ok nda_minute_ops_basic) as [fl [H1 [H2 [H3 _]]]].
  exists fl. split; [exact H1|]. split; [exact H2 | exact H3].
Qed.

(* age-or-size, limit 1 byte, append, no buffer: "ab" is closed by the write of "c" (size), "cd" by the write of "e"
   (another minute) *)
Example numd_age_or_size_dir :
  snap_of (fst (run (sys0 1 0) (OStart (exd_cfg (ex_sp "log") true (CAgeOrSize AMinute 1) None) ::
                                [OWrite (bs "ab"); OWrite (bs "c"); OWrite (bs "d"); OTick 60; OWrite (bs "e"); OStop])))
  = [ (bs "app_r00000.log", 0%N, bs "ab"); (bs "app_r00001.log", 0%N, bs "cd"); (bs "app_r00002.log", 0%N, bs "e") ].
Proof. vm_compute. reflexivity. Qed.

(* the comparison is "another period", not "a later period": a clock that is set back one minute rotates as well (this is
   why the statements above need no assumption about the ticks); the theorem applies to this history *)
Definition nda_back_ops : list op := [OWrite (bs "a"); OTick (-60); OWrite (bs "b")].
Example numd_clock_set_back :
  snap_of (fst (run (sys0 61 0) (OStart nda_c :: nda_back_ops ++ [OStop])))
  = [ (bs "app_r00000.log", 0%N, bs "a"); (bs "app_r00001.log", 0%N, bs "b") ]
  /\ tpartition (Some AMinute) None 0 [] None (titems 61 nda_back_ops) = [(61%Z, bs "a"); (1%Z, bs "b")].
Proof. split; vm_compute; reflexivity. Qed.
Example numd_clock_set_back_instance :
  direct_view nda_c (wfs (s_w (fst (run (sys0 61 0) (OStart nda_c :: nda_back_ops ++ [OStop]))))) [bs "a"; bs "b"].
Proof. apply (numbersdirect_age_partition nda_c (CAge AMinute) 61 0 nda_back_ops nda_c_ok). repeat constructor. Qed.

(* outside the scope of the theorems (which start from the empty directory): a writer that is restarted with append
   continues the file with the highest number, and the start instant of the continued file is the file's creation time,
   not the instant of the restart - written to in minute 0 by the first writer, it is closed by the first write of the
   second writer in minute 1.  One period per file holds here as well. *)
Example numd_restart_append_birth_time :
  snap_of (fst (run (sys0 1 0) [OStart (exd_cfg (ex_sp "log") true (CAge AMinute) None); OWrite (bs "a"); OStop; OTick 60;
                                OStart (exd_cfg (ex_sp "log") true (CAge AMinute) None); OWrite (bs "b"); OTick 1; OWrite (bs "c"); OStop]))
  = [ (bs "app_r00000.log", 0%N, bs "a"); (bs "app_r00001.log", 0%N, bs "bc") ].
Proof. vm_compute. reflexivity. Qed.
