(* C18 with rotation (Numbers naming): reopen_outputfile() after an external rename of the current file, reopen_outputfile()
   with the file in place, reset(builder) to another Numbers family.

   What the model does (found by experiments, then proved):
   - reopen_outputfile() keeps the whole rotation state: the next index AND the roll state (size count, creation date).
     After "rename rCURRENT -> moved; reopen" the new, empty rCURRENT inherits the size count of the file that was
     moved away: the greedy partition is NOT started afresh.  If the moved file was already over the limit, the first
     record after the reopen rotates the EMPTY new rCURRENT into r<k> (an empty numbered file appears), see
     ex_reopen_empty_file.  Nothing is lost, nothing is overwritten, the numbering continues.
   - the new writer is an unbuffered File (wcap = None) until the next rotation; the old BufWriter is dropped, its
     buffered tail is flushed into the inode it has open: the moved file.
   - reopen with the file in place: open_append finds the file, the same inode is continued, the directory at the end
     is the one of the history without the reopen.
   - reset(builder) to another family in the same write mode: the old writer is dropped (buffered tail flushed into the
     old rCURRENT), the new writer starts as in a directory of its own, provided the names of the old family are not
     members of the new family (num_member).  Without that proviso the families interfere: ex_reset_interference.
   - the name the current file is renamed to must not be a name of the family: renamed to the next numbered name, the file
     is overwritten by the next rotation and its records are lost without any error: ex_reopen_family_name_loses_records.
   Main statements: reopen_numbers, reopen_numbers_partition, reopen_numbers_at_once, reopen_numbers_in_place,
   reset_numbers, reset_numbers_prefix. *)
Require Import FL.Base.Bytes FL.Base.BytesFacts FL.Base.PathName FL.Fs.Fs FL.Fs.FsFacts FL.Time.Civil FL.Time.TsFormat
  FL.Names.FileSpec FL.Names.NamesFacts FL.Flw.Model FL.Flw.ModelFacts FL.Flw.NumFs FL.Flw.NumInv FL.Flw.Run FL.Flw.RunFacts
  FL.Flw.NumRun FL.Flw.NumTheorems FL.Oracles.O_Flw FL.Flw.NumListing FL.Flw.ForeignFs FL.Flw.ForeignModel FL.Flw.NumForeign.
From Coq Require Import ZifyN ZifyNat ZifyBool.
Open Scope nat_scope.

(* ================================================================== 1. the invariant with other files in the directory *)
(* extra: files that are not members of the family (name, content); the writer may have another buffer capacity
   than the configuration says (after reopen it is an unbuffered File) *)
Definition fresh_name (c : config) (n : bytes) : Prop := n <> cname c /\ forall i, n <> rname c i.

Record NumInvX (c : config) (w : world) (wr : writer) (closed : list bytes) (extra : list (bytes * bytes)) : Prop := {
  nx_quiet : quiet w;
  nx_wf : fs_wf (wfs w);
  nx_cur : lookup (wfs w) (cname c) = Some (wino wr);
  nx_curplain : plain (inode (wfs w) (wino wr));
  nx_closed : forall i, i < length closed ->
      exists j, lookup (wfs w) (rname c i) = Some j /\ plain (inode (wfs w) j) /\ content (wfs w) j = nth i closed [];
  nx_extra : forall n d, In (n, d) extra ->
      exists j, lookup (wfs w) n = Some j /\ plain (inode (wfs w) j) /\ content (wfs w) j = d;
  nx_only : forall n j, lookup (wfs w) n = Some j ->
      n = cname c \/ (exists i, i < length closed /\ n = rname c i) \/ In n (List.map fst extra);
  nx_fresh : forall n, In n (List.map fst extra) -> fresh_name c n;
  nx_wr : wr_ok wr }.

Lemma numinv_x c w wr closed : NumInv c w wr closed -> NumInvX c w wr closed [].
Proof.
  intros [Q W Hc Hcp Hcl Hon Hwr Hcap]. constructor; try assumption.
  - intros n d [].
  - intros n j H. destruct (Hon n j H) as [E|E]; [left; exact E | right; left; exact E].
  - intros n [].
Qed.

(* ---- one rotation ---- *)
Lemma mount_next_rotates_x c crit w wr closed extra roll force :
  numcfg c crit -> NumInvX c w wr closed extra ->
  force || rotation_necessary w roll = true ->
  exists w' wr' roll',
    mount_next c w (Active (Some (mk_rs (NSNumR (N.of_nat (length closed))) roll)) wr (cname c)) force
      = (Ok tt, w', Active (Some (mk_rs (NSNumR (N.of_nat (length (closed ++ [cur_view w wr])))) roll')) wr' (cname c))
    /\ NumInvX c w' wr' (closed ++ [cur_view w wr]) extra
    /\ cur_view w' wr' = [] /\ roll_size_ok roll' 0 /\ same_env w w'
    /\ (forall m cur, roll = RSize m cur -> exists cur', roll' = RSize m cur').
Proof.
  intros [Hrot [Hts [Hlink _]]] I Hnec.
  pose proof I as [Q W Hc Hcp Hcl Hex Hon Hfr Hwr].
  unfold mount_next. cbn [mk_rs rs_roll rs_naming rs_cleanup rs_bg]. rewrite Hnec.
  unfold index_for_rcurrent. rewrite !(name_of_fixed c w) by assumption. fold (nm c cur_infix) (nm c (number_infix (N.of_nat (length closed)))).
  fold (cname c) (rname c (length closed)).
  (* the target name is free *)
  assert (Ht : lookup (wfs w) (rname c (length closed)) = None).
  { destruct (lookup (wfs w) (rname c (length closed))) as [j|] eqn:E; [|reflexivity].
    destruct (Hon _ _ E) as [E1|[[i [Hi E1]]|E1]].
    - exfalso; exact (rname_not_cname _ _ E1).
    - apply rname_inj in E1. lia.
    - exfalso. destruct (Hfr _ E1) as [_ F]. exact (F _ eq_refl). }
  destruct (rotate_fs_spec (wfs w) (cname c) (rname c (length closed)) (wino wr) (wpend wr) (wnow w) W
              (fun E => rname_not_cname c _ (eq_sym E)) Hc Ht) as [f1 [Er R]].
  cbn zeta in R. destruct R as [L1c [Hino1 [W3 [Hnew [L3c [L3t [L3o [Hlen [Inew [Iold Ioth]]]]]]]]]].
  pose proof (p_rename_quiet w (cname c) (rname c (length closed)) Q) as PR. rewrite Er in PR.
  destruct PR as [w1 [Epr [F1 S1]]]. rewrite Epr.
  (* open the new current file *)
  unfold open_log_file. rewrite (name_of_fixed c w1) by assumption. fold (nm c cur_infix) (cname c).
  unfold do_symlink. rewrite Hlink.
  assert (D1 : match file_of (wfs w1) (cname c) with Some fl => fdir fl = false | None => True end).
  { unfold file_of. rewrite F1, L1c. exact Logic.I. }
  destruct (p_open_quiet w1 (cname c) (c_append c) (proj1 S1) D1) as [w2 [Eop [F2 S2]]]. rewrite Eop.
  assert (Eopen : (if c_append c then open_append (wfs w1) (cname c) (wnow w1) else open_trunc (wfs w1) (cname c) 0%N (wnow w1))
                  = create_file f1 (cname c) 0%N (wnow w)).
  { rewrite F1. destruct S1 as [_ [-> _]]. destruct (c_append c); [apply open_append_fresh | apply open_trunc_fresh]; exact L1c. }
  rewrite Eopen in *. clear Eopen.
  (* the old writer is dropped *)
  unfold w_drop. destruct (w_flush_quiet w2 wr (proj1 S2)) as [w3 [Efl [F3 S3]]]. rewrite Efl. cbn [fst snd].
  unfold cleanup_or_queue. cbn [mk_rs rs_roll rs_naming rs_cleanup rs_bg cleanup_impl].
  set (new := snd (create_file f1 (cname c) 0%N (wnow w))) in *.
  set (f3 := append_ino (fst (create_file f1 (cname c) 0%N (wnow w))) (wino wr) (wpend wr)) in *.
  assert (F3' : wfs w3 = f3) by (rewrite F3, F2; reflexivity).
  set (wr' := {| wino := new; wpend := []; wcap := c_cap c |}).
  exists w3, wr', (reset_size_and_date w3 roll (cname c)).
  assert (Elen : N.of_nat (length (closed ++ [cur_view w wr])) = (N.of_nat (length closed) + 1)%N).
  { rewrite app_length. cbn [length]. lia. }
  split. { rewrite Elen. reflexivity. }
  assert (SE : same_env w w3) by (eapply same_env_trans; [eapply same_env_trans|]; eassumption).
  pose proof (wf_bound _ W _ _ Hc) as Hold.
  split.
  { constructor.
    - exact (proj1 S3).
    - rewrite F3'. exact W3.
    - rewrite F3'. exact L3c.
    - rewrite F3'. cbn [wr' wino]. rewrite Inew. split; reflexivity.
    - intros i Hi. rewrite app_length in Hi. cbn [length] in Hi. rewrite F3'.
      destruct (Nat.eq_dec i (length closed)) as [->|Hne].
      + exists (wino wr). split; [exact L3t|]. split.
        * rewrite Iold. exact Hcp.
        * unfold content at 1. rewrite Iold. cbn [with_data fdata]. rewrite app_nth2, Nat.sub_diag by lia. reflexivity.
      + assert (Hi' : i < length closed) by lia. destruct (Hcl i Hi') as [j [Lj [Pj Cj]]].
        exists j. rewrite L3o; [|apply rname_not_cname | intros E; apply rname_inj in E; lia].
        split; [exact Lj|].
        assert (Hj1 : j <> new). { pose proof (wf_bound _ W _ _ Lj). rewrite Hnew. lia. }
        assert (Hj2 : j <> wino wr). { intros ->. pose proof (wf_inj _ W _ _ _ Lj Hc) as E. exact (rname_not_cname _ _ E). }
        unfold content. rewrite Ioth by assumption. split; [exact Pj|]. rewrite app_nth1 by assumption. exact Cj.
    - intros n d Hin. rewrite F3'. destruct (Hex n d Hin) as [j [Lj [Pj Cj]]].
      assert (Hn : fresh_name c n) by (apply Hfr; apply (in_map fst) in Hin; exact Hin).
      destruct Hn as [Hn1 Hn2]. exists j. rewrite L3o by (auto; apply Hn2). split; [exact Lj|].
      assert (Hj1 : j <> new). { pose proof (wf_bound _ W _ _ Lj). rewrite Hnew. lia. }
      assert (Hj2 : j <> wino wr). { intros ->. pose proof (wf_inj _ W _ _ _ Lj Hc) as E. exact (Hn1 E). }
      unfold content. rewrite Ioth by assumption. split; [exact Pj | exact Cj].
    - intros n j Hn. rewrite F3' in Hn.
      destruct (beq_spec n (cname c)) as [->|Hn1]; [left; reflexivity|].
      destruct (beq_spec n (rname c (length closed))) as [->|Hn2].
      + right. left. exists (length closed). rewrite app_length. cbn [length]. split; [lia | reflexivity].
      + rewrite L3o in Hn by assumption. destruct (Hon _ _ Hn) as [E|[[i [Hi E]]|E]]; [contradiction| |].
        * right. left. exists i. rewrite app_length. cbn [length]. split; [lia | exact E].
        * right. right. exact E.
    - exact Hfr.
    - unfold wr_ok, wr'. cbn. destruct (c_cap c); [lia | reflexivity]. }
  split. { unfold cur_view. rewrite F3'. cbn [wr' wino wpend]. unfold content. rewrite Inew. reflexivity. }
  split. { destruct roll; cbn; auto. }
  split; [exact SE|].
  intros m cur ->. cbn. eauto.
Qed.

(* ---- appending to the current inode keeps the invariant ---- *)
Lemma numinvx_append c w w' wr wr' closed extra x :
  NumInvX c w wr closed extra -> wfs w' = append_ino (wfs w) (wino wr) x -> same_env w w' ->
  wino wr' = wino wr -> wr_ok wr' ->
  NumInvX c w' wr' closed extra /\ content (wfs w') (wino wr') = content (wfs w) (wino wr) ++ x.
Proof.
  intros [Q W Hc Hcp Hcl Hex Hon Hfr Hwr] F SE Ei Hok.
  pose proof (wf_bound _ W _ _ Hc) as Hold.
  split.
  - constructor.
    + exact (proj1 SE).
    + rewrite F. apply wf_append. exact W.
    + rewrite F, lookup_append, Ei. exact Hc.
    + rewrite F, Ei, inode_append, Nat.eqb_refl by assumption. exact Hcp.
    + intros i Hi. destruct (Hcl i Hi) as [j [Lj [Pj Cj]]]. exists j. rewrite F, lookup_append. split; [exact Lj|].
      assert (Hj : j <> wino wr). { intros ->. pose proof (wf_inj _ W _ _ _ Lj Hc) as E. exact (rname_not_cname _ _ E). }
      unfold content. rewrite inode_append by assumption. destruct (Nat.eqb_spec j (wino wr)); [contradiction|]. auto.
    + intros n d Hin. destruct (Hex n d Hin) as [j [Lj [Pj Cj]]]. exists j. rewrite F, lookup_append. split; [exact Lj|].
      assert (Hn : fresh_name c n) by (apply Hfr; apply (in_map fst) in Hin; exact Hin).
      assert (Hj : j <> wino wr). { intros ->. pose proof (wf_inj _ W _ _ _ Lj Hc) as E. exact (proj1 Hn E). }
      unfold content. rewrite inode_append by assumption. destruct (Nat.eqb_spec j (wino wr)); [contradiction|]. auto.
    + intros n j. rewrite F, lookup_append. apply Hon.
    + exact Hfr.
    + exact Hok.
  - rewrite F, Ei, content_append, Nat.eqb_refl by assumption. reflexivity.
Qed.

(* ---- a write on an active writer; g: the part of the size count that is not in the current file ---- *)
Lemma write_active_x c crit w wr closed extra roll g b :
  numcfg c crit -> NumInvX c w wr closed extra -> roll_size_ok roll (g + length (cur_view w wr)) ->
  let rot := rotation_necessary w roll in
  exists w' wr' roll' closed',
    write_buffer (st_of c (length closed) roll wr) w b = (Ok tt, w', st_of c (length closed') roll' wr', rot)
    /\ NumInvX c w' wr' closed' extra
    /\ roll_size_ok roll' ((if rot then 0 else g) + length (cur_view w' wr')) /\ same_env w w'
    /\ (closed', cur_view w' wr') = (if rot then (closed ++ [cur_view w wr], b) else (closed, cur_view w wr ++ b))
    /\ (forall m cur, roll = RSize m cur -> exists cur', roll' = RSize m cur').
Proof.
  intros Hcfg I Hsz rot.
  unfold write_buffer, st_of. cbn [f_cfg f_inner f_poisoned mk_rs rs_roll]. fold rot.
  assert (M : exists w1 wr1 roll1 closed1,
            mount_next c w (Active (Some (mk_rs (NSNumR (N.of_nat (length closed))) roll)) wr (cname c)) false
            = (Ok tt, w1, Active (Some (mk_rs (NSNumR (N.of_nat (length closed1))) roll1)) wr1 (cname c))
            /\ NumInvX c w1 wr1 closed1 extra
            /\ roll_size_ok roll1 ((if rot then 0 else g) + length (cur_view w1 wr1)) /\ same_env w w1
            /\ (closed1, cur_view w1 wr1) = (if rot then (closed ++ [cur_view w wr], []) else (closed, cur_view w wr))
            /\ (forall m cur, roll = RSize m cur -> exists cur', roll1 = RSize m cur')).
  { destruct rot eqn:Er.
    - destruct (mount_next_rotates_x c crit w wr closed extra roll false Hcfg I) as [w1 [wr1 [roll1 [E [I1 [V1 [Z1 [S1 R1]]]]]]]]; [exact Er|].
      exists w1, wr1, roll1, (closed ++ [cur_view w wr]). rewrite V1.
      split; [exact E|]. split; [exact I1|]. split; [exact Z1|]. split; [exact S1|]. split; [reflexivity | exact R1].
    - exists w, wr, roll, closed. split.
      + unfold mount_next. cbn [mk_rs rs_roll orb]. unfold rot in Er. rewrite Er. reflexivity.
      + split; [exact I|]. split; [exact Hsz|]. split; [apply same_env_refl; apply I|]. split; [reflexivity | eauto]. }
  destruct M as [w1 [wr1 [roll1 [closed1 [E [I1 [Z1 [S1 [V1 R1]]]]]]]]].
  rewrite E.
  destruct (w_write_quiet w1 wr1 b (nx_quiet _ _ _ _ _ I1) (nx_wr _ _ _ _ _ I1)) as [w2 [wr2 [fl [Ew [S2 [F2 [Ei [Ec [Ep Hok]]]]]]]]].
  rewrite Ew.
  destruct (numinvx_append c w1 w2 wr1 wr2 closed1 extra fl I1 F2 S2 Ei Hok) as [I2 C2].
  exists w2, wr2, (increase_size roll1 (N.of_nat (length b))), closed1.
  assert (V2 : cur_view w2 wr2 = cur_view w1 wr1 ++ b).
  { unfold cur_view. rewrite C2, <- !app_assoc, Ep. reflexivity. }
  split; [reflexivity|]. split; [exact I2|].
  split. { rewrite V2, app_length, Nat.add_assoc. apply roll_size_increase. exact Z1. }
  split; [eapply same_env_trans; eassumption|].
  split. { rewrite V2. destruct rot; injection V1 as -> ->; reflexivity. }
  intros m cur Hr. destruct (R1 m cur Hr) as [cur' ->]. cbn. eauto.
Qed.

Lemma flush_active_x c w wr closed extra roll :
  NumInvX c w wr closed extra ->
  exists w' wr', flush_state (st_of c (length closed) roll wr) w = (true, w', st_of c (length closed) roll wr')
    /\ NumInvX c w' wr' closed extra /\ cur_view w' wr' = cur_view w wr /\ wpend wr' = [] /\ same_env w w'.
Proof.
  intros I. unfold flush_state, st_of. cbn [f_inner].
  destruct (w_flush_quiet w wr (nx_quiet _ _ _ _ _ I)) as [w1 [E [F S]]]. rewrite E.
  set (wr' := {| wino := wino wr; wpend := []; wcap := wcap wr |}).
  assert (Hok : wr_ok wr') by (unfold wr_ok, wr'; cbn; destruct (wcap wr); [lia | reflexivity]).
  destruct (numinvx_append c w w1 wr wr' closed extra (wpend wr) I F S eq_refl Hok) as [I1 C1].
  exists w1, wr'. split; [reflexivity|]. split; [exact I1|]. split; [|split; [reflexivity | exact S]].
  unfold cur_view. rewrite C1. cbn [wr' wpend]. rewrite app_nil_r. reflexivity.
Qed.

Lemma numinvx_env c w w' wr closed extra : NumInvX c w wr closed extra -> wfs w' = wfs w -> quiet w' -> NumInvX c w' wr closed extra.
Proof. intros [Q W Hc Hcp Hcl Hex Hon Hfr Hwr] F Q'. constructor; try rewrite F; assumption. Qed.

Lemma shutdown_active_x c w wr closed extra roll : NumInvX c w wr closed extra -> wacts w = 0 ->
  exists w' wr', shutdown_state (st_of c (length closed) roll wr) w = (w', st_of c (length closed) roll wr')
    /\ NumInvX c w' wr' closed extra /\ cur_view w' wr' = cur_view w wr /\ wpend wr' = [] /\ wacts w' = 0.
Proof.
  intros I Ha. unfold shutdown_state, st_of, drain_acts. cbn [f_inner f_cfg mk_rs rs_cleanup rs_naming].
  destruct (w_flush_quiet w wr (nx_quiet _ _ _ _ _ I)) as [w1 [E [F S]]]. rewrite E.
  set (wr' := {| wino := wino wr; wpend := []; wcap := wcap wr |}).
  assert (Hok : wr_ok wr') by (unfold wr_ok, wr'; cbn; destruct (wcap wr); [lia | reflexivity]).
  destruct (numinvx_append c w w1 wr wr' closed extra (wpend wr) I F S eq_refl Hok) as [I1 C1].
  exists w1, wr'. split; [reflexivity|]. split; [exact I1|]. split; [|split; [reflexivity | exact (same_env_acts _ _ S Ha)]].
  unfold cur_view. rewrite C1. cbn [wr' wpend]. rewrite app_nil_r. reflexivity.
Qed.

(* ================================================================== 2. histories on the generalised invariant *)
(* the abstract view: closed files, content of the current file, and the ghost part g of the size count: the number of
   bytes that the roll state counts for the current file but that are not in it (they are in the file moved away) *)
Definition xview := (list bytes * bytes * nat)%type.

Definition x_step (v : xview) (o : op) (rot : bool) : xview :=
  let '(cl, cu, g) := v in
  match o with
  | OWrite b | OPlain b => if rot then (cl ++ [cu], b, 0) else (cl, cu ++ b, g)
  | OTrigger => (cl ++ [cu], [], 0)
  | _ => v
  end.

Definition RelX (c : config) (crit : criterion) (extra : list (bytes * bytes)) (x : sys) (v : xview) : Prop :=
  let '(closed, cur, g) := v in
  s_tl x = [] /\ wacts (s_w x) = 0 /\
  exists wr roll, s_flw x = Some (st_of c (length closed) roll wr) /\ NumInvX c (s_w x) wr closed extra
    /\ cur_view (s_w x) wr = cur /\ roll_size_ok roll (g + length cur)
    /\ (forall m, crit = CSize m -> exists k, roll = RSize m k).

Lemma step_sync_relx c crit extra x v o : numcfg c crit -> RelX c crit extra x v -> step x o = sync_step x o.
Proof.
  intros [_ [Hts [_ Ha]]] R. destruct v as [[closed cur] g]. destruct R as [_ [_ [wr [roll [Es _]]]]].
  rewrite step_plain by (intros s' Es'; rewrite Es in Es'; injection Es' as <-; exact Hts).
  unfold step_core. rewrite Es. unfold is_async. cbn [st_of f_cfg]. rewrite Ha. reflexivity.
Qed.

Definition size_of (v : xview) : nat := let '(_, cu, g) := v in g + length cu.

Lemma write_relx c crit extra x v b :
  numcfg c crit -> RelX c crit extra x v ->
  exists s w' s' rot, s_flw x = Some s /\ f_poisoned s = false /\
    write_buffer s (s_w x) b = (Ok tt, w', s', rot)
    /\ RelX c crit extra {| s_flw := Some s'; s_w := w'; s_tl := []; s_dead := s_dead x |} (x_step v (OWrite b) rot)
    /\ (forall m, crit = CSize m -> rot = (m <? N.of_nat (size_of v))%N).
Proof.
  intros Hcfg R. destruct v as [[closed cur] g]. destruct R as [Ht [Ha [wr [roll [Es [I [V [Z RS]]]]]]]].
  rewrite <- V in Z.
  destruct (write_active_x c crit (s_w x) wr closed extra roll g b Hcfg I Z) as [w' [wr' [roll' [closed' [E [I' [Z' [S' [V' R']]]]]]]]].
  exists (st_of c (length closed) roll wr), w', (st_of c (length closed') roll' wr'), (rotation_necessary (s_w x) roll).
  split; [exact Es|]. split; [reflexivity|]. split; [exact E|].
  split.
  - cbn [x_step]. rewrite V in V'.
    destruct (rotation_necessary (s_w x) roll); injection V' as <- V''; (split; [reflexivity|]; split; [cbn [s_w]; exact (same_env_acts _ _ S' Ha)|];
      exists wr', roll'; cbn [s_flw s_w];
      split; [reflexivity|]; split; [exact I'|]; split; [exact V''|]; split; [rewrite <- V''; exact Z'|];
      intros m Hm; destruct (RS m Hm) as [k ->]; destruct (R' m k eq_refl) as [k' ->]; eauto).
  - intros m Hm. destruct (RS m Hm) as [k ->]. cbn in Z. subst k. cbn [size_of]. rewrite V. reflexivity.
Qed.

Definition is_wr (o : op) : bool := match o with OWrite _ | OPlain _ => true | _ => false end.

Lemma step_relx c crit extra x v o :
  numcfg c crit -> RelX c crit extra x v -> basic_op o ->
  let '(x', ob) := step x o in
  RelX c crit extra x' (x_step v o (rot_of ob))
  /\ (forall m, is_wr o = true -> crit = CSize m -> ob = ObsRes 0 (m <? N.of_nat (size_of v))%N).
Proof.
  intros Hcfg R Hb. rewrite (step_sync_relx c crit extra x v o Hcfg R). destruct o; try contradiction; cbn [sync_step].
  - (* OWrite *)
    destruct (write_relx c crit extra x v b Hcfg R) as [s [w' [s' [rot [Es [Hp [E [R' C]]]]]]]].
    assert (Ht : s_tl x = []) by (destruct v as [[? ?] ?]; apply R).
    rewrite Es, Hp. rewrite Ht. cbn [app]. rewrite E. cbn [rot_of]. split; [exact R'|].
    intros m _ Hm. rewrite (C m Hm). reflexivity.
  - (* OPlain *)
    destruct (write_relx c crit extra x v b Hcfg R) as [s [w' [s' [rot [Es [Hp [E [R' C]]]]]]]].
    assert (Ht : s_tl x = []) by (destruct v as [[? ?] ?]; apply R).
    rewrite Es, Hp, E. cbn [rot_of code_of]. rewrite Ht. split; [exact R'|].
    intros m _ Hm. rewrite (C m Hm). reflexivity.
  - (* OFlush *)
    destruct v as [[closed cur] g]. destruct R as [Ht [Ha [wr [roll [Es [I [V [Z RS]]]]]]]]. rewrite Es. cbn [st_of f_poisoned].
    destruct (flush_active_x c (s_w x) wr closed extra roll I) as [w' [wr' [E [I' [V' [P' S']]]]]].
    fold (st_of c (length closed) roll wr). rewrite E. cbn [rot_of x_step].
    split; [|intros m H; discriminate].
    split; [exact Ht|]. split; [exact (same_env_acts _ _ S' Ha)|]. exists wr', roll. cbn [s_flw s_w].
    split; [reflexivity|]. split; [exact I'|]. split; [congruence|]. split; assumption.
  - (* OTrigger *)
    destruct v as [[closed cur] g]. destruct R as [Ht [Ha [wr [roll [Es [I [V [Z RS]]]]]]]]. rewrite Es. cbn [st_of f_poisoned f_cfg f_inner].
    destruct (mount_next_rotates_x c crit (s_w x) wr closed extra roll true Hcfg I eq_refl) as [w' [wr' [roll' [E [I' [V' [Z' [S' R']]]]]]]].
    rewrite E. cbn [rot_of x_step code_of with_inner f_cfg f_poisoned].
    split; [|intros m H; discriminate].
    split; [exact Ht|]. split; [exact (same_env_acts _ _ S' Ha)|]. rewrite V in *. exists wr', roll'. cbn [s_flw s_w].
    split; [reflexivity|]. split; [exact I'|]. split; [exact V'|]. split; [exact Z'|].
    intros m Hm. destruct (RS m Hm) as [k ->]. destruct (R' m k eq_refl) as [k' ->]. eauto.
  - (* OTick *)
    cbn [rot_of x_step]. split; [|intros m H; discriminate].
    destruct v as [[closed cur] g]. destruct R as [Ht [Ha [wr [roll [Es [I [V [Z RS]]]]]]]].
    split; [exact Ht|]. split; [exact Ha|]. exists wr, roll. cbn [s_flw s_w].
    split; [exact Es|]. split; [apply (numinvx_env c (s_w x)); [exact I | reflexivity | apply I]|].
    split; [exact V|]. split; assumption.
  - (* OSnap *)
    cbn [rot_of x_step]. split; [|intros m H; discriminate]. destruct v as [[closed cur] g]. exact R.
Qed.

Fixpoint x_run (v : xview) (ops : list op) (obs : list obs) : xview :=
  match ops, obs with
  | o :: r, ob :: robs => x_run (x_step v o (rot_of ob)) r robs
  | _, _ => v
  end.

Lemma run_relx c crit extra : numcfg c crit -> forall ops x v, RelX c crit extra x v -> Forall basic_op ops ->
  RelX c crit extra (fst (run x ops)) (x_run v ops (snd (run x ops))).
Proof.
  intros Hcfg. induction ops as [|o r IH]; intros x v R Hb; [exact R|].
  cbn [run]. inversion Hb as [|o' r' Ho Hr]; subst.
  pose proof (step_relx c crit extra x v o Hcfg R Ho) as S. destruct (step x o) as [x1 ob].
  destruct S as [R1 _]. specialize (IH x1 _ R1 Hr). destruct (run x1 r) as [x2 obs]. exact IH.
Qed.

(* ---- the size rule ---- *)
Fixpoint sx_run (m : N) (v : xview) (ops : list op) : xview :=
  match ops with
  | [] => v
  | o :: r => sx_run m (x_step v o (m <? N.of_nat (size_of v))%N) r
  end.

Lemma run_sizex c m extra : numcfg c (CSize m) -> forall ops x v, RelX c (CSize m) extra x v -> Forall basic_op ops ->
  x_run v ops (snd (run x ops)) = sx_run m v ops.
Proof.
  intros Hcfg. induction ops as [|o r IH]; intros x v R Hb; [reflexivity|].
  cbn [run]. inversion Hb as [|o' r' Ho Hr]; subst.
  pose proof (step_relx c (CSize m) extra x v o Hcfg R Ho) as S. destruct (step x o) as [x1 ob] eqn:Est.
  destruct S as [R1 C1]. specialize (IH x1 _ R1 Hr). destruct (run x1 r) as [x2 obs] eqn:Er. cbn [snd] in *.
  assert (Erot : x_step v o (rot_of ob) = x_step v o (m <? N.of_nat (size_of v))%N).
  { destruct o; try reflexivity; rewrite (C1 m eq_refl eq_refl); reflexivity. }
  cbn [x_run sx_run]. rewrite <- Erot. exact IH.
Qed.

(* ---- the directory at the end ---- *)
Fixpoint numbered (c : config) (k : nat) (l : list bytes) : list (bytes * bytes) :=
  match l with [] => [] | d :: r => (rname c k, d) :: numbered c (S k) r end.

(* every listed file is there, a plain file with exactly this content; no other name exists *)
Definition dir_holds (f : fs) (files : list (bytes * bytes)) : Prop :=
  (forall n d, In (n, d) files -> exists j, lookup f n = Some j /\ plain (inode f j) /\ content f j = d)
  /\ (forall n j, lookup f n = Some j -> In n (List.map fst files)).

Lemma numbered_in c l : forall k n d, In (n, d) (numbered c k l) <-> exists i, i < length l /\ n = rname c (k + i) /\ d = nth i l [].
Proof.
  induction l as [|x l IH]; intros k n d; cbn [numbered In length].
  - split; [intros [] | intros [i [Hi _]]; lia].
  - rewrite IH. split.
    + intros [E|[i [Hi [En Ed]]]].
      * injection E as <- <-. exists 0. rewrite Nat.add_0_r. split; [lia|]. split; reflexivity.
      * exists (S i). split; [lia|]. split; [rewrite En; f_equal; lia | exact Ed].
    + intros [[|i] [Hi [En Ed]]].
      * left. rewrite Nat.add_0_r in En. cbn [nth] in Ed. congruence.
      * right. exists i. split; [lia|]. split; [rewrite En; f_equal; lia | exact Ed].
Qed.

Lemma numbered_names c l : forall k n, In n (List.map fst (numbered c k l)) <-> exists i, i < length l /\ n = rname c (k + i).
Proof.
  intros k n. rewrite in_map_iff. split.
  - intros [[n' d] [E H]]. cbn [fst] in E. subst n'. apply numbered_in in H. destruct H as [i [Hi [En _]]]. eauto.
  - intros [i [Hi En]]. exists (n, nth i l []). split; [reflexivity|]. apply numbered_in. eauto.
Qed.

Lemma numbered_app c l1 l2 k : numbered c k (l1 ++ l2) = numbered c k l1 ++ numbered c (k + length l1) l2.
Proof.
  revert k. induction l1 as [|x l1 IH]; intros k; cbn [app numbered length].
  - rewrite Nat.add_0_r. reflexivity.
  - rewrite IH. do 3 f_equal. lia.
Qed.

Lemma stop_relx c crit extra x closed cur g : numcfg c crit -> RelX c crit extra x (closed, cur, g) ->
  dir_holds (wfs (s_w (fst (step x OStop)))) (numbered c 0 closed ++ (cname c, cur) :: extra).
Proof.
  intros Hcfg R0. rewrite (step_sync_relx c crit extra x _ OStop Hcfg R0). destruct R0 as [Ht [Ha R]]. cbn [sync_step].
  destruct R as [wr [roll [Es [I [V [Z RS]]]]]]. rewrite Es. cbn [st_of f_poisoned]. unfold drop_state.
  destruct (shutdown_active_x c (s_w x) wr closed extra roll I Ha) as [w1 [wr1 [E1 [I1 [V1 [P1 A1]]]]]]. fold (st_of c (length closed) roll wr). rewrite E1.
  destruct (shutdown_active_x c w1 wr1 closed extra roll I1 A1) as [w2 [wr2 [E2 [I2 [V2 [P2 A2]]]]]]. rewrite E2.
  cbn [st_of f_inner s_w fst]. unfold w_drop.
  destruct (w_flush_quiet w2 wr2 (nx_quiet _ _ _ _ _ I2)) as [w3 [E3 [F3 S3]]]. rewrite E3. cbn [fst snd].
  rewrite P2, append_ino_nil_id in F3. rewrite F3.
  destruct I2 as [Q W Hc Hcp Hcl Hex Hon Hfr Hwr].
  assert (Ecur : content (wfs w2) (wino wr2) = cur).
  { unfold cur_view in *. rewrite P2, app_nil_r in V2. congruence. }
  split.
  - intros n d Hin. apply in_app_or in Hin. destruct Hin as [Hin|[Hin|Hin]].
    + apply numbered_in in Hin. destruct Hin as [i [Hi [-> ->]]]. cbn [Nat.add]. exact (Hcl i Hi).
    + injection Hin as <- <-. exists (wino wr2). split; [exact Hc|]. split; [exact Hcp | exact Ecur].
    + exact (Hex n d Hin).
  - intros n j Hn. rewrite map_app. cbn [List.map fst]. apply in_or_app.
    destruct (Hon n j Hn) as [->|[[i [Hi ->]]|Hin]].
    + right. left. reflexivity.
    + left. apply numbered_names. exists i. split; [exact Hi | reflexivity].
    + right. right. exact Hin.
Qed.

(* ---- the abstract view only ever appends what was written ---- *)
Definition x_flat (v : xview) : bytes := let '(cl, cu, _) := v in concat cl ++ cu.

Lemma x_step_flat v o rot : basic_op o -> x_flat (x_step v o rot) = x_flat v ++ written [o].
Proof.
  destruct v as [[cl cu] g].
  destruct o; try contradiction; intros _; cbn [x_step written]; rewrite ?app_nil_r; try reflexivity.
  - destruct rot; cbn [x_flat]; rewrite ?concat_app; cbn [concat app]; rewrite ?app_nil_r, ?app_assoc; reflexivity.
  - destruct rot; cbn [x_flat]; rewrite ?concat_app; cbn [concat app]; rewrite ?app_nil_r, ?app_assoc; reflexivity.
  - cbn [x_flat]; rewrite ?concat_app; cbn [concat app]; rewrite ?app_nil_r; reflexivity.
Qed.

Lemma x_run_flat ops : forall v obs, Forall basic_op ops -> length obs = length ops ->
  x_flat (x_run v ops obs) = x_flat v ++ written ops.
Proof.
  induction ops as [|o r IH]; intros v obs Hb Hl; [cbn; rewrite app_nil_r; reflexivity|].
  destruct obs as [|ob robs]; [discriminate|]. inversion Hb as [|o' r' Ho Hr]; subst.
  cbn [x_run]. rewrite IH by (auto; cbn in Hl; lia). rewrite x_step_flat by assumption.
  rewrite (written_cons o r), app_assoc. reflexivity.
Qed.

(* the closed files stay, the view is extended *)
Definition x_ext (v v' : xview) : Prop :=
  let '(cl, cu, _) := v in let '(cl', cu', _) := v' in
  (cl' = cl /\ exists t, cu' = cu ++ t) \/ (exists t rest, cl' = cl ++ (cu ++ t) :: rest).

Lemma x_ext_refl v : x_ext v v.
Proof. destruct v as [[cl cu] g]. left. split; [reflexivity|]. exists []. rewrite app_nil_r. reflexivity. Qed.

Lemma x_ext_trans a b c : x_ext a b -> x_ext b c -> x_ext a c.
Proof.
  destruct a as [[cl1 cu1] g1], b as [[cl2 cu2] g2], c as [[cl3 cu3] g3]. cbn [x_ext].
  intros [[-> [t ->]]|[t [rest ->]]] [[-> [t' ->]]|[t' [rest' ->]]].
  - left. split; [reflexivity|]. exists (t ++ t'). rewrite app_assoc. reflexivity.
  - right. exists (t ++ t'), rest'. rewrite app_assoc. reflexivity.
  - right. eauto.
  - right. exists t, (rest ++ (cu2 ++ t') :: rest'). rewrite <- app_assoc. reflexivity.
Qed.

Lemma x_step_ext v o rot : x_ext v (x_step v o rot).
Proof.
  destruct v as [[cl cu] g]. destruct o; cbn [x_step]; try apply (x_ext_refl (cl, cu, g)).
  - destruct rot; [right; exists [], []; rewrite app_nil_r; reflexivity | left; eauto].
  - destruct rot; [right; exists [], []; rewrite app_nil_r; reflexivity | left; eauto].
  - right. exists [], []. rewrite app_nil_r. reflexivity.
Qed.

Lemma x_run_ext ops : forall v obs, x_ext v (x_run v ops obs).
Proof.
  induction ops as [|o r IH]; intros v obs; [apply x_ext_refl|]. destruct obs as [|ob robs]; [apply x_ext_refl|].
  cbn [x_run]. eapply x_ext_trans; [apply x_step_ext | apply IH].
Qed.

(* ================================================================== 3. reopen_outputfile() *)
Lemma step_sync_cfg x o s : s_flw x = Some s -> fts (c_spec (f_cfg s)) = false -> c_async (f_cfg s) = false ->
  step x o = sync_step x o.
Proof.
  intros Es Hts Ha. rewrite step_plain by (intros s' Es'; rewrite Es in Es'; injection Es' as <-; exact Hts).
  unfold step_core. rewrite Es. unfold is_async. rewrite Ha. reflexivity.
Qed.

Lemma plain_with_data fl d : plain fl -> plain (with_data fl d).
Proof. intros H. exact H. Qed.

(* somebody renames the current file to a fresh name, then reopen_outputfile(): the renamed file gets the buffered tail,
   a new empty current file exists, the rotation state is kept: the size count still includes the bytes moved away *)
Lemma reopen_moved_step c crit x cl cu moved :
  numcfg c crit -> Rel c crit x (Some (cl, cu)) -> fresh_name c moved ->
  exists x2, run x [OExtRename (cname c) moved; OReopen] = (x2, [ObsRes 0 false; ObsRes 0 false])
    /\ RelX c crit [(moved, cu)] x2 (cl, [], length cu).
Proof.
  intros Hcfg R [Hm1 Hm2]. pose proof Hcfg as [Hrot [Hts [Hlink Hasync]]].
  cbn [run]. rewrite (step_sync_rel c crit x _ (OExtRename (cname c) moved) Hcfg R).
  destruct R as [Ht [Ha [wr [roll [Es [I [V [Z RS]]]]]]]].
  pose proof I as [Q W Hc Hcp Hcl Hon Hwr Hcap].
  assert (Hfree : lookup (wfs (s_w x)) moved = None).
  { destruct (lookup (wfs (s_w x)) moved) as [j|] eqn:E; [|reflexivity]. exfalso.
    destruct (Hon _ _ E) as [E1|[i [_ E1]]]; [exact (Hm1 E1) | exact (Hm2 i E1)]. }
  destruct (rotate_fs_spec (wfs (s_w x)) (cname c) moved (wino wr) (wpend wr) (wnow (s_w x)) W
              (fun E => Hm1 (eq_sym E)) Hc Hfree) as [f1 [Er R]].
  cbn zeta in R. destruct R as [L1c [Hino1 [W3 [Hnew [L3c [L3t [L3o [Hlen [Inew [Iold Ioth]]]]]]]]]].
  cbn [sync_step]. rewrite Er.
  set (w1 := set_fs (s_w x) f1).
  set (x1 := {| s_flw := s_flw x; s_w := w1; s_tl := s_tl x; s_dead := s_dead x |}).
  assert (Q1 : quiet w1) by exact Q.
  rewrite (step_sync_cfg x1 OReopen (st_of c (length cl) roll wr) Es Hts Hasync).
  cbn [sync_step x1 s_flw s_w s_tl s_dead]. rewrite Es. cbn [st_of f_poisoned].
  unfold reopen_state. cbn [f_inner st_of]. rewrite (tick_quiet w1 Q1). cbv beta iota zeta.
  assert (Eopen : open_append (wfs w1) (cname c) (wnow w1) = create_file f1 (cname c) 0%N (wnow (s_w x))).
  { apply open_append_fresh. exact L1c. }
  destruct (effect_quiet w1 (fun f => fst (open_append f (cname c) (wnow w1))) Q1) as [F2 S2].
  set (w2 := effect w1 (fun f => fst (open_append f (cname c) (wnow w1)))) in *.
  rewrite Eopen in F2. rewrite Eopen.
  unfold w_drop. destruct (w_flush_quiet w2 wr (proj1 S2)) as [w3 [Efl [F3 S3]]]. rewrite Efl. cbn [fst snd code_of].
  set (new := snd (create_file f1 (cname c) 0%N (wnow (s_w x)))) in *.
  set (f3 := append_ino (fst (create_file f1 (cname c) 0%N (wnow (s_w x)))) (wino wr) (wpend wr)) in *.
  assert (F3' : wfs w3 = f3) by (rewrite F3, F2; reflexivity).
  set (wr' := {| wino := new; wpend := []; wcap := None |}).
  eexists. split; [reflexivity|].
  pose proof (wf_bound _ W _ _ Hc) as Hold.
  assert (A3 : wacts w3 = 0).
  { apply (same_env_acts w2 w3 S3). apply (same_env_acts w1 w2 S2). exact Ha. }
  split; [exact Ht|]. split; [exact A3|]. exists wr', roll. cbn [s_flw s_w with_inner st_of f_cfg f_poisoned].
  split; [reflexivity|]. split.
  { constructor.
    - exact (proj1 S3).
    - rewrite F3'. exact W3.
    - rewrite F3'. exact L3c.
    - rewrite F3'. cbn [wr' wino]. rewrite Inew. split; reflexivity.
    - intros i Hi. rewrite F3'. destruct (Hcl i Hi) as [j [Lj [Pj Cj]]].
      exists j. rewrite L3o; [|apply rname_not_cname | intros E; exact (Hm2 i (eq_sym E))].
      split; [exact Lj|].
      assert (Hj1 : j <> new). { pose proof (wf_bound _ W _ _ Lj). rewrite Hnew. lia. }
      assert (Hj2 : j <> wino wr). { intros ->. pose proof (wf_inj _ W _ _ _ Lj Hc) as E. exact (rname_not_cname _ _ E). }
      unfold content. rewrite Ioth by assumption. split; [exact Pj | exact Cj].
    - intros n d [E|[]]. injection E as <- <-. rewrite F3'. exists (wino wr). split; [exact L3t|]. split.
      + rewrite Iold. exact Hcp.
      + unfold content at 1. rewrite Iold. cbn [with_data fdata]. exact V.
    - intros n j Hn. rewrite F3' in Hn.
      destruct (beq_spec n (cname c)) as [->|Hn1]; [left; reflexivity|].
      destruct (beq_spec n moved) as [->|Hn2]; [right; right; left; reflexivity|].
      rewrite L3o in Hn by assumption. destruct (Hon _ _ Hn) as [E|E]; [contradiction|]. right. left. exact E.
    - intros n [<-|[]]. split; assumption.
    - reflexivity. }
  split. { unfold cur_view. rewrite F3'. cbn [wr' wino wpend]. unfold content. rewrite Inew. reflexivity. }
  split. { cbn [length]. rewrite Nat.add_0_r. exact Z. }
  exact RS.
Qed.

(* reopen_outputfile() with the file in place: the same inode is continued, the buffered tail is flushed into it *)
Lemma reopen_inplace_step c crit x cl cu :
  numcfg c crit -> Rel c crit x (Some (cl, cu)) ->
  exists x2, step x OReopen = (x2, ObsRes 0 false) /\ RelX c crit [] x2 (cl, cu, 0).
Proof.
  intros Hcfg R. pose proof Hcfg as [Hrot [Hts [Hlink Hasync]]].
  rewrite (step_sync_rel c crit x _ OReopen Hcfg R).
  destruct R as [Ht [Ha [wr [roll [Es [I [V [Z RS]]]]]]]].
  pose proof (numinv_x _ _ _ _ I) as IX. pose proof I as [Q W Hc Hcp Hcl Hon Hwr Hcap].
  cbn [sync_step]. rewrite Es. cbn [st_of f_poisoned].
  unfold reopen_state. cbn [f_inner st_of]. rewrite (tick_quiet _ Q). cbv beta iota zeta.
  assert (Eopen : open_append (wfs (s_w x)) (cname c) (wnow (s_w x)) = (wfs (s_w x), wino wr)).
  { unfold open_append. rewrite Hc. reflexivity. }
  destruct (effect_quiet (s_w x) (fun f => fst (open_append f (cname c) (wnow (s_w x)))) Q) as [F2 S2].
  set (w2 := effect (s_w x) (fun f => fst (open_append f (cname c) (wnow (s_w x))))) in *.
  rewrite Eopen in F2. rewrite Eopen. cbn [fst snd] in F2 |- *.
  pose proof (numinvx_env c (s_w x) w2 wr cl [] IX F2 (proj1 S2)) as I2.
  unfold w_drop. destruct (w_flush_quiet w2 wr (proj1 S2)) as [w3 [Efl [F3 S3]]]. rewrite Efl. cbn [fst snd code_of].
  set (wr' := {| wino := wino wr; wpend := []; wcap := None |}).
  destruct (numinvx_append c w2 w3 wr wr' cl [] (wpend wr) I2 F3 S3 eq_refl eq_refl) as [I3 C3].
  eexists. split; [reflexivity|].
  split; [exact Ht|]. split. { apply (same_env_acts w2 w3 S3). apply (same_env_acts _ w2 S2). exact Ha. }
  exists wr', roll. cbn [s_flw s_w with_inner st_of f_cfg f_poisoned].
  split; [reflexivity|]. split; [exact I3|].
  split. { unfold cur_view. rewrite C3. cbn [wr' wpend]. rewrite app_nil_r, F2. exact V. }
  split; [exact Z | exact RS].
Qed.

(* before the first record there is no file and no writer: the rename finds nothing, reopen does nothing *)
Lemma reopen_initial_steps c crit x a b :
  numcfg c crit -> Rel c crit x None ->
  exists x2, run x [OExtRename a b; OReopen] = (x2, [ObsRes 0 false; ObsRes 0 false]) /\ Rel c crit x2 None.
Proof.
  intros Hcfg R. cbn [run]. rewrite (step_sync_rel c crit x _ (OExtRename a b) Hcfg R).
  cbn [sync_step]. destruct R as [Ht [Ha [Es [Q [Hn Hi]]]]].
  rewrite rename_none by (apply lookup_empty; exact Hn).
  set (x1 := {| s_flw := s_flw x; s_w := set_fs (s_w x) (wfs (s_w x)); s_tl := s_tl x; s_dead := s_dead x |}).
  assert (R1 : Rel c crit x1 None).
  { split; [exact Ht|]. split; [exact Ha|]. split; [exact Es|]. split; [exact Q|]. split; assumption. }
  rewrite (step_sync_rel c crit x1 _ OReopen Hcfg R1). cbn [sync_step x1 s_flw]. rewrite Es.
  cbn [new_flw f_poisoned reopen_state f_inner code_of]. eexists. split; [reflexivity|].
  split; [exact Ht|]. split; [exact Ha|]. split; [reflexivity|]. split; [exact Q|]. split; assumption.
Qed.

Lemma reopen_initial_step c crit x :
  numcfg c crit -> Rel c crit x None ->
  exists x2, step x OReopen = (x2, ObsRes 0 false) /\ Rel c crit x2 None.
Proof.
  intros Hcfg R. rewrite (step_sync_rel c crit x _ OReopen Hcfg R). cbn [sync_step].
  pose proof R as [Ht [Ha [Es [Q [Hn Hi]]]]]. rewrite Es.
  cbn [new_flw f_poisoned reopen_state f_inner code_of]. eexists. split; [reflexivity|].
  split; [exact Ht|]. split; [exact Ha|]. split; [reflexivity|]. split; [exact Q|]. split; assumption.
Qed.

(* ================================================================== 4. whole histories *)
Definition wrote (ops : list op) : bool := existsb is_wr ops.

Lemma written_app ops1 ops2 : written (ops1 ++ ops2) = written ops1 ++ written ops2.
Proof.
  induction ops1 as [|o r IH]; [reflexivity|]. cbn [app]. rewrite (written_cons o (r ++ ops2)), (written_cons o r), IH, app_assoc.
  reflexivity.
Qed.

Lemma a_run_some ops : forall v obs, exists v', a_run (Some v) ops obs = Some v'.
Proof.
  induction ops as [|o r IH]; intros v obs; [exists v; reflexivity|]. destruct obs as [|ob robs]; [exists v; reflexivity|]. cbn [a_run].
  assert (E : exists v1, a_step (Some v) o (rot_of ob) = Some v1).
  { destruct v as [cl cu]. destruct o; cbn [a_step]; eauto. }
  destruct E as [v1 ->]. apply IH.
Qed.

Lemma a_run_none_wrote ops : forall obs, length obs = length ops ->
  if wrote ops then exists v, a_run None ops obs = Some v else a_run None ops obs = None.
Proof.
  induction ops as [|o r IH]; intros obs Hl; [reflexivity|]. destruct obs as [|ob robs]; [discriminate|].
  cbn [wrote existsb a_run]. fold (wrote r). destruct (is_wr o) eqn:Eo; cbn [orb].
  - assert (E : exists v1, a_step None o (rot_of ob) = Some v1) by (destruct o; try discriminate; cbn [a_step]; eauto).
    destruct E as [v1 ->]. apply a_run_some.
  - assert (E : a_step None o (rot_of ob) = None) by (destruct o; try discriminate; reflexivity).
    rewrite E. apply IH. cbn in Hl. lia.
Qed.

(* a history from a state of the original invariant, then stop *)
Lemma finish_rel c crit x a ops : numcfg c crit -> Rel c crit x a -> Forall basic_op ops ->
  let a' := a_run a ops (snd (run x ops)) in
  reads c (wfs (s_w (fst (run x (ops ++ [OStop]))))) (files_of a')
  /\ flat a' = flat a ++ written ops
  /\ (forall m, crit = CSize m -> a' = s_run m a ops).
Proof.
  intros Hcfg R Hb a'. subst a'. rewrite run_app.
  pose proof (run_rel c crit Hcfg ops x a R Hb) as R1. pose proof (run_length ops x) as L.
  assert (Hs : forall m, crit = CSize m -> a_run a ops (snd (run x ops)) = s_run m a ops).
  { intros m ->. exact (proj1 (run_size c m Hcfg ops x a R Hb)). }
  destruct (run x ops) as [x1 obs1]. cbn [fst snd] in *.
  pose proof (stop_rel c crit x1 _ Hcfg R1) as S. cbn [run]. destruct (step x1 OStop) as [x2 ob2]. cbn [fst].
  split; [apply files_of_reads; exact S|]. split; [apply a_run_flat; assumption | exact Hs].
Qed.

Lemma files_of_concat a : concat (files_of a) = flat a.
Proof. destruct a as [[cl cu]|]; cbn [files_of flat concat]; [|reflexivity]. rewrite concat_app. cbn [concat]. rewrite app_nil_r. reflexivity. Qed.

(* ---- the greedy partition with a ghost prefix ---- *)
Lemma partition_closed m items : forall cl cu, partition m cl cu items = cl ++ partition m [] cu items.
Proof.
  induction items as [|[r|] rest IH]; intros cl cu; cbn [partition app].
  - reflexivity.
  - destruct (m <? N.of_nat (length cu))%N.
    + rewrite (IH (cl ++ [cu])), (IH [cu]), <- app_assoc. reflexivity.
    + apply IH.
  - rewrite (IH (cl ++ [cu])), (IH [cu]), <- app_assoc. reflexivity.
Qed.

Definition x_files (v : xview) : list bytes := let '(cl, cu, _) := v in cl ++ [cu].

(* the files written under the size rule when the count starts with the ghost bytes gb: the greedy partition that starts
   with gb in the current file, with gb taken off its first file *)
Lemma sx_run_partition m ops : forall cl cu gb, Forall basic_op ops ->
  exists h tl, partition m [] (gb ++ cu) (items true ops) = (gb ++ h) :: tl
    /\ x_files (sx_run m (cl, cu, length gb) ops) = cl ++ h :: tl.
Proof.
  induction ops as [|o r IH]; intros cl cu gb Hb.
  - exists cu, []. split; reflexivity.
  - inversion Hb as [|o' r' Ho Hr]; subst.
    assert (Rot : forall b, exists h tl, partition m [gb ++ cu] b (items true r) = (gb ++ h) :: tl
                    /\ x_files (sx_run m (cl ++ [cu], b, 0) r) = cl ++ h :: tl).
    { intros b. destruct (IH (cl ++ [cu]) b [] Hr) as [h' [tl' [P F]]]. cbn [app length] in P, F.
      exists cu, (h' :: tl'). rewrite partition_closed, P. split; [reflexivity|]. rewrite <- app_assoc in F. exact F. }
    assert (Stay : forall b, exists h tl, partition m [] ((gb ++ cu) ++ b) (items true r) = (gb ++ h) :: tl
                    /\ x_files (sx_run m (cl, cu ++ b, length gb) r) = cl ++ h :: tl).
    { intros b. rewrite <- app_assoc. apply IH. exact Hr. }
    destruct o; try contradiction; cbn [sx_run x_step items partition size_of app]; rewrite ?app_length.
    + destruct (m <? N.of_nat (length gb + length cu))%N; [apply Rot | apply Stay].
    + destruct (m <? N.of_nat (length gb + length cu))%N; [apply Rot | apply Stay].
    + apply IH; exact Hr.
    + apply Rot.
    + apply IH; exact Hr.
    + apply IH; exact Hr.
Qed.

(* ---- the part of the history after the switch ---- *)
Lemma tail_relx c crit extra x cl cu g ops2 :
  numcfg c crit -> RelX c crit extra x (cl, cu, g) -> Forall basic_op ops2 ->
  exists closed2 cur2,
    dir_holds (wfs (s_w (fst (run x (ops2 ++ [OStop]))))) (numbered c 0 (cl ++ closed2) ++ (cname c, cur2) :: extra)
    /\ concat closed2 ++ cur2 = cu ++ written ops2
    /\ (exists t, closed2 ++ [cur2] = (cu ++ t) :: List.tl (closed2 ++ [cur2]))
    /\ (forall m, crit = CSize m -> cl ++ closed2 ++ [cur2] = x_files (sx_run m (cl, cu, g) ops2)).
Proof.
  intros Hcfg R Hb. rewrite run_app.
  pose proof (run_relx c crit extra Hcfg ops2 x _ R Hb) as R1. pose proof (run_length ops2 x) as L.
  assert (Hs : forall m, crit = CSize m -> x_run (cl, cu, g) ops2 (snd (run x ops2)) = sx_run m (cl, cu, g) ops2).
  { intros m ->. exact (run_sizex c m extra Hcfg ops2 x _ R Hb). }
  pose proof (x_run_ext ops2 (cl, cu, g) (snd (run x ops2))) as X.
  pose proof (x_run_flat ops2 (cl, cu, g) (snd (run x ops2)) Hb L) as Fl.
  destruct (run x ops2) as [x1 obs1]. cbn [fst snd] in *.
  destruct (x_run (cl, cu, g) ops2 obs1) as [[cl3 cu3] g3] eqn:Ev.
  pose proof (stop_relx c crit extra x1 cl3 cu3 g3 Hcfg R1) as S. cbn [run]. destruct (step x1 OStop) as [x2 ob2]. cbn [fst] in *.
  cbn [x_ext x_flat] in X, Fl.
  assert (Ecl : exists closed2, cl3 = cl ++ closed2 /\ exists t, closed2 ++ [cu3] = (cu ++ t) :: List.tl (closed2 ++ [cu3])).
  { destruct X as [[-> [t ->]]|[t [rest ->]]].
    - exists []. rewrite app_nil_r. split; [reflexivity|]. exists t. reflexivity.
    - exists ((cu ++ t) :: rest). split; [reflexivity|]. exists t. reflexivity. }
  destruct Ecl as [closed2 [-> Ht]]. exists closed2, cu3.
  split; [exact S|]. split.
  - rewrite concat_app, <- !app_assoc in Fl. apply app_inv_head in Fl. exact Fl.
  - split; [exact Ht|]. intros m Hm. rewrite <- (Hs m Hm). cbn [x_files]. rewrite app_assoc. reflexivity.
Qed.

Lemma nth_error_after {A} (pre : list A) a b rest n : length pre = n -> nth_error (pre ++ a :: b :: rest) (S n) = Some b.
Proof.
  intros <-. rewrite nth_error_app2 by lia. replace (S (length pre) - length pre) with 1 by lia. reflexivity.
Qed.

(* ------------------------------------------------------------------ theorem 1: external rename, then reopen *)
Theorem reopen_numbers c crit t0 off ops1 ops2 moved :
  numcfg c crit -> Forall basic_op ops1 -> Forall basic_op ops2 -> fresh_name c moved ->
  let r := run (sys0 t0 off) (OStart c :: ops1 ++ [OExtRename (cname c) moved; OReopen] ++ ops2 ++ [OStop]) in
  let f := wfs (s_w (fst r)) in
  (* reopen_outputfile() succeeds *)
  nth_error (snd r) (S (S (length ops1))) = Some (ObsRes 0 false)
  /\ if wrote ops1 then
       exists closed1 cur1 closed2 cur2,
         (* closed1, cur1: the files r00000.., rCURRENT of the history ops1 *)
         reads c (wfs (s_w (fst (run (sys0 t0 off) (OStart c :: ops1 ++ [OStop]))))) (closed1 ++ [cur1])
         /\ concat closed1 ++ cur1 = written ops1
         (* the directory: the closed files of ops1, the files of ops2 continuing the numbering, the new current file,
            and the renamed file with everything written since the last rotation of ops1 (buffered tail included) *)
         /\ dir_holds f (numbered c 0 (closed1 ++ closed2) ++ [(cname c, cur2); (moved, cur1)])
         /\ concat closed2 ++ cur2 = written ops2
         /\ concat (closed1 ++ [cur1] ++ closed2 ++ [cur2]) = written (ops1 ++ ops2)
     else
       (* no record before the switch: no file was there to be renamed, reopen did nothing *)
       exists files, reads c f files /\ concat files = written ops2.
Proof.
  intros Hcfg Hb1 Hb2 Hm. cbv zeta. cbn [run]. destruct (step (sys0 t0 off) (OStart c)) as [x0 ob0] eqn:E0.
  pose proof (start_rel c crit t0 off) as R0. rewrite E0 in R0. cbn [fst] in R0.
  rewrite !run_app.
  pose proof (run_rel c crit Hcfg ops1 x0 None R0 Hb1) as R1. pose proof (run_length ops1 x0) as L1.
  pose proof (a_run_none_wrote ops1 (snd (run x0 ops1)) L1) as Hw.
  pose proof (a_run_flat ops1 None (snd (run x0 ops1)) Hb1 L1) as Fl1. cbn [flat app] in Fl1.
  destruct (run x0 ops1) as [x1 obs1]. cbn [fst snd] in *.
  pose proof (stop_rel c crit x1 _ Hcfg R1) as S1. cbn [run] in S1 |- *.
  destruct (wrote ops1).
  - destruct Hw as [[cl cu] Ea]. rewrite Ea in *.
    destruct (reopen_moved_step c crit x1 cl cu moved Hcfg R1 Hm) as [x2 [E2 R2]].
    rewrite (run_app [OExtRename (cname c) moved; OReopen]). rewrite E2.
    destruct (tail_relx c crit [(moved, cu)] x2 cl [] (length cu) ops2 Hcfg R2 Hb2) as [closed2 [cur2 [D [C _]]]].
    destruct (run x2 (ops2 ++ [OStop])) as [x3 obs3]. cbn [fst snd] in *.
    split; [apply nth_error_after; exact L1|].
    exists cl, cu, closed2, cur2. cbn [flat app] in Fl1, C.
    destruct (step x1 OStop) as [x1s ob1s]. cbn [fst].
    split. { exact (files_of_reads c _ (Some (cl, cu)) S1). }
    split; [exact Fl1|]. split; [exact D|]. split; [exact C|].
    rewrite written_app, !concat_app. cbn [concat]. rewrite !app_nil_r, <- Fl1, <- C, <- !app_assoc. reflexivity.
  - rewrite Hw in *.
    destruct (reopen_initial_steps c crit x1 (cname c) moved Hcfg R1) as [x2 [E2 R2]].
    rewrite (run_app [OExtRename (cname c) moved; OReopen]). rewrite E2.
    pose proof (finish_rel c crit x2 None ops2 Hcfg R2 Hb2) as [Rd [Fl _]].
    destruct (run x2 (ops2 ++ [OStop])) as [x3 obs3]. cbn [fst snd] in *.
    split; [apply nth_error_after; exact L1|].
    eexists. split; [exact Rd|]. rewrite files_of_concat. exact Fl.
Qed.
Print Assumptions reopen_numbers.

(* size criterion: the size count survives the reopen.  The files after the switch are the greedy partition of ops2 that
   starts with cur1 (the content of the renamed file) in the current file - with cur1 taken off the first file,
   because these bytes are in the renamed file *)
Theorem reopen_numbers_partition c m t0 off ops1 ops2 moved :
  numcfg c (CSize m) -> Forall basic_op ops1 -> Forall basic_op ops2 -> fresh_name c moved -> wrote ops1 = true ->
  let r := run (sys0 t0 off) (OStart c :: ops1 ++ [OExtRename (cname c) moved; OReopen] ++ ops2 ++ [OStop]) in
  exists closed1 cur1 h tl closed2 cur2,
    expected_files m None (items false ops1) = closed1 ++ [cur1]
    /\ partition m [] cur1 (items true ops2) = (cur1 ++ h) :: tl
    /\ h :: tl = closed2 ++ [cur2]
    /\ dir_holds (wfs (s_w (fst r))) (numbered c 0 (closed1 ++ closed2) ++ [(cname c, cur2); (moved, cur1)]).
Proof.
  intros Hcfg Hb1 Hb2 Hm Hw1. cbv zeta. cbn [run]. destruct (step (sys0 t0 off) (OStart c)) as [x0 ob0] eqn:E0.
  pose proof (start_rel c (CSize m) t0 off) as R0. rewrite E0 in R0. cbn [fst] in R0.
  rewrite !run_app.
  pose proof (run_rel c (CSize m) Hcfg ops1 x0 None R0 Hb1) as R1. pose proof (run_length ops1 x0) as L1.
  pose proof (a_run_none_wrote ops1 (snd (run x0 ops1)) L1) as Hw. rewrite Hw1 in Hw.
  pose proof (proj1 (run_size c m Hcfg ops1 x0 None R0 Hb1)) as Sz.
  destruct (run x0 ops1) as [x1 obs1]. cbn [fst snd] in *.
  destruct Hw as [[cl cu] Ea]. rewrite Ea in *.
  destruct (reopen_moved_step c (CSize m) x1 cl cu moved Hcfg R1 Hm) as [x2 [E2 R2]].
  rewrite (run_app [OExtRename (cname c) moved; OReopen]). rewrite E2.
  destruct (tail_relx c (CSize m) [(moved, cu)] x2 cl [] (length cu) ops2 Hcfg R2 Hb2) as [closed2 [cur2 [D [_ [_ P]]]]].
  destruct (run x2 (ops2 ++ [OStop])) as [x3 obs3]. cbn [fst snd] in *.
  destruct (sx_run_partition m ops2 cl [] cu Hb2) as [h [tl [P1 P2]]]. rewrite app_nil_r in P1.
  exists cl, cu, h, tl, closed2, cur2.
  split. { rewrite <- s_run_none by assumption. rewrite <- Sz. reflexivity. }
  split; [exact P1|]. split; [|exact D].
  pose proof (eq_trans (P m eq_refl) P2) as P3. apply app_inv_head in P3. symmetry. exact P3.
Qed.
Print Assumptions reopen_numbers_partition.

Lemma s_run_app m l1 : forall a l2, s_run m a (l1 ++ l2) = s_run m (s_run m a l1) l2.
Proof. induction l1 as [|o r IH]; intros a l2; [reflexivity|]. cbn [app s_run]. apply IH. Qed.

(* with the size rule and no ghost bytes the generalised run is the greedy partition *)
Lemma sx_run_files m ops cl cu : Forall basic_op ops ->
  x_files (sx_run m (cl, cu, 0) ops) = files_of (s_run m (Some (cl, cu)) ops).
Proof.
  intros Hb. destruct (sx_run_partition m ops cl cu [] Hb) as [h [tl [P F]]]. cbn [app length] in P, F.
  rewrite s_run_partition, partition_closed, P by assumption. exact F.
Qed.

(* right after reopen_outputfile() has returned the renamed file holds every record written since the last rotation on
   disk - the buffered tail included -, and the new current file is empty *)
Theorem reopen_numbers_at_once c crit t0 off ops1 moved :
  numcfg c crit -> Forall basic_op ops1 -> fresh_name c moved -> wrote ops1 = true ->
  let f := wfs (s_w (fst (run (sys0 t0 off) (OStart c :: ops1 ++ [OExtRename (cname c) moved; OReopen])))) in
  exists closed1 cur1,
    concat closed1 ++ cur1 = written ops1
    /\ dir_holds f (numbered c 0 closed1 ++ [(cname c, []); (moved, cur1)]).
Proof.
  intros Hcfg Hb1 Hm Hw1. cbv zeta. cbn [run]. destruct (step (sys0 t0 off) (OStart c)) as [x0 ob0] eqn:E0.
  pose proof (start_rel c crit t0 off) as R0. rewrite E0 in R0. cbn [fst] in R0.
  rewrite run_app.
  pose proof (run_rel c crit Hcfg ops1 x0 None R0 Hb1) as R1. pose proof (run_length ops1 x0) as L1.
  pose proof (a_run_none_wrote ops1 (snd (run x0 ops1)) L1) as Hw. rewrite Hw1 in Hw.
  pose proof (a_run_flat ops1 None (snd (run x0 ops1)) Hb1 L1) as Fl1. cbn [flat app] in Fl1.
  destruct (run x0 ops1) as [x1 obs1]. cbn [fst snd] in *.
  destruct Hw as [[cl cu] Ea]. rewrite Ea in *. cbn [flat] in Fl1.
  destruct (reopen_moved_step c crit x1 cl cu moved Hcfg R1 Hm) as [x2 [E2 R2]]. rewrite E2. cbn [fst].
  exists cl, cu. split; [exact Fl1|].
  destruct R2 as [_ [_ [wr [roll [_ [I [V _]]]]]]]. destruct I as [Q W Hc Hcp Hcl Hex Hon Hfr Hwr].
  assert (Hp : wpend wr = []).
  { unfold cur_view in V. destruct (content (wfs (s_w x2)) (wino wr)); [exact V | discriminate]. }
  split.
  - intros n d Hin. apply in_app_or in Hin. destruct Hin as [Hin|[Hin|Hin]].
    + apply numbered_in in Hin. destruct Hin as [i [Hi [-> ->]]]. cbn [Nat.add]. exact (Hcl i Hi).
    + injection Hin as <- <-. exists (wino wr). split; [exact Hc|]. split; [exact Hcp|].
      unfold cur_view in V. rewrite Hp, app_nil_r in V. exact V.
    + exact (Hex n d Hin).
  - intros n j Hn. rewrite map_app. cbn [List.map fst]. apply in_or_app.
    destruct (Hon n j Hn) as [->|[[i [Hi ->]]|Hin]].
    + right. left. reflexivity.
    + left. apply numbered_names. exists i. split; [exact Hi | reflexivity].
    + right. right. exact Hin.
Qed.
Print Assumptions reopen_numbers_at_once.

(* ------------------------------------------------------------------ theorem 2: reopen with the file in place *)
(* nothing is lost, nothing is truncated: the closed files of ops1 stay, the current file of ops1 is continued (cur1 is a
   prefix of the file that follows the closed files of ops1), the family holds exactly the stream *)
Theorem reopen_numbers_in_place c crit t0 off ops1 ops2 :
  numcfg c crit -> Forall basic_op ops1 -> Forall basic_op ops2 ->
  let r := run (sys0 t0 off) (OStart c :: ops1 ++ [OReopen] ++ ops2 ++ [OStop]) in
  let f := wfs (s_w (fst r)) in
  nth_error (snd r) (S (length ops1)) = Some (ObsRes 0 false)
  /\ exists files1 files,
       reads c (wfs (s_w (fst (run (sys0 t0 off) (OStart c :: ops1 ++ [OStop]))))) files1
       /\ concat files1 = written ops1
       /\ reads c f files /\ concat files = written (ops1 ++ ops2)
       /\ (forall closed1 cur1, files1 = closed1 ++ [cur1] -> exists t rest, files = closed1 ++ (cur1 ++ t) :: rest)
       (* size criterion: exactly the files of the history without the reopen (numbers_partition) *)
       /\ (forall m, crit = CSize m -> files = expected_files m None (items false (ops1 ++ ops2))).
Proof.
  intros Hcfg Hb1 Hb2. cbv zeta. cbn [run]. destruct (step (sys0 t0 off) (OStart c)) as [x0 ob0] eqn:E0.
  pose proof (start_rel c crit t0 off) as R0. rewrite E0 in R0. cbn [fst] in R0.
  rewrite !run_app.
  pose proof (run_rel c crit Hcfg ops1 x0 None R0 Hb1) as R1. pose proof (run_length ops1 x0) as L1.
  pose proof (a_run_flat ops1 None (snd (run x0 ops1)) Hb1 L1) as Fl1. cbn [flat app] in Fl1.
  destruct (run x0 ops1) as [x1 obs1] eqn:E1. cbn [fst snd] in *.
  pose proof (stop_rel c crit x1 _ Hcfg R1) as S1. cbn [run] in S1 |- *.
  assert (Hex : forall m, crit = CSize m -> forall a, a_run None ops1 obs1 = a -> forall fl,
            fl = files_of (s_run m a ops2) -> fl = expected_files m None (items false (ops1 ++ ops2))).
  { intros m Hm a Ea fl ->. subst crit. rewrite <- s_run_none by (apply Forall_app; split; assumption).
    rewrite s_run_app. pose proof (proj1 (run_size c m Hcfg ops1 x0 None R0 Hb1)) as Sz.
    rewrite E1 in Sz. cbn [snd] in Sz. rewrite <- Sz, Ea. reflexivity. }
  assert (Hnth : forall (a : obs) rest, nth_error (obs1 ++ a :: rest) (length ops1) = Some a).
  { intros a rest. rewrite nth_error_app2 by lia. rewrite L1, Nat.sub_diag. reflexivity. }
  destruct (a_run None ops1 obs1) as [[cl cu]|] eqn:Ea.
  - destruct (reopen_inplace_step c crit x1 cl cu Hcfg R1) as [x2 [E2 R2]].
    assert (E2' : run x1 [OReopen] = (x2, [ObsRes 0 false])) by (cbn [run]; rewrite E2; reflexivity).
    rewrite (run_app [OReopen]), E2'.
    destruct (tail_relx c crit [] x2 cl cu 0 ops2 Hcfg R2 Hb2) as [closed2 [cur2 [D [C [[t Ht] P]]]]].
    destruct (run x2 (ops2 ++ [OStop])) as [x3 obs3]. cbn [fst snd] in *.
    split; [apply Hnth|].
    destruct (step x1 OStop) as [x1s ob1s]. cbn [fst].
    exists (cl ++ [cu]), (cl ++ closed2 ++ [cur2]).
    split. { exact (files_of_reads c _ (Some (cl, cu)) S1). }
    split. { rewrite concat_app. cbn [concat]. rewrite app_nil_r. exact Fl1. }
    split.
    { destruct D as [D1 D2]. unfold reads. destruct (cl ++ closed2 ++ [cur2]) eqn:Ef; [destruct cl, closed2; discriminate|].
      rewrite <- Ef. exists (cl ++ closed2), cur2. split; [rewrite app_assoc; reflexivity|].
      split; [|split].
      - intros i Hi. apply D1. apply in_or_app. left. apply numbered_in. exists i. split; [exact Hi|]. split; reflexivity.
      - apply D1. apply in_or_app. right. left. reflexivity.
      - intros n j Hn. specialize (D2 n j Hn). rewrite map_app in D2. apply in_app_or in D2. destruct D2 as [D2|[D2|[]]].
        + right. apply numbered_names in D2. exact D2.
        + left. symmetry. exact D2. }
    split.
    { rewrite written_app, !concat_app. cbn [concat]. rewrite app_nil_r, <- Fl1. cbn [flat]. rewrite <- app_assoc, <- C. reflexivity. }
    split.
    { intros closed1 cur1 E. apply app_inj_tail in E. destruct E as [<- <-].
      rewrite Ht. exists t, (List.tl (closed2 ++ [cur2])). reflexivity. }
    intros m Hm. apply (Hex m Hm _ eq_refl). rewrite (P m Hm). apply sx_run_files. exact Hb2.
  - destruct (reopen_initial_step c crit x1 Hcfg R1) as [x2 [E2 R2]].
    assert (E2' : run x1 [OReopen] = (x2, [ObsRes 0 false])) by (cbn [run]; rewrite E2; reflexivity).
    rewrite (run_app [OReopen]), E2'.
    pose proof (finish_rel c crit x2 None ops2 Hcfg R2 Hb2) as [Rd [Fl Sz2]].
    destruct (run x2 (ops2 ++ [OStop])) as [x3 obs3]. cbn [fst snd] in *.
    split; [apply Hnth|].
    destruct (step x1 OStop) as [x1s ob1s]. cbn [fst].
    exists [], (files_of (a_run None ops2 (snd (run x2 ops2)))).
    split; [exact S1|]. split; [exact Fl1|]. split; [exact Rd|].
    split. { rewrite files_of_concat, Fl, written_app, <- Fl1. reflexivity. }
    split; [intros closed1 cur1 E; destruct closed1; discriminate|].
    intros m Hm. apply (Hex m Hm _ eq_refl). rewrite (Sz2 m Hm). reflexivity.
Qed.
Print Assumptions reopen_numbers_in_place.

(* ================================================================== 5. reset(builder) to another Numbers family *)
(* the names of the family of c are not members of the family of c2 (the family test of the model, num_member) *)
Definition foreign_family (c c2 : config) : Prop :=
  num_member c2 (cname c) = false /\ forall i, num_member c2 (rname c i) = false.

(* the family files of a directory, as (name, content): r00000.. and rCURRENT *)
Definition fam (c : config) (files : list bytes) : list (bytes * bytes) :=
  match files with [] => [] | _ => numbered c 0 (removelast files) ++ [(cname c, last files [])] end.

Lemma fam_snoc c cl cu : fam c (cl ++ [cu]) = numbered c 0 cl ++ [(cname c, cu)].
Proof.
  unfold fam. destruct (cl ++ [cu]) eqn:E; [destruct cl; discriminate|]. rewrite <- E, removelast_last, last_last. reflexivity.
Qed.

Lemma fam_names c files n : In n (List.map fst (fam c files)) -> n = cname c \/ exists i, n = rname c i.
Proof.
  unfold fam. destruct files as [|f0 fr]; [intros []|]. rewrite map_app. intros H. apply in_app_or in H. destruct H as [H|[H|[]]].
  - apply numbered_names in H. destruct H as [i [_ ->]]. right. eauto.
  - left. symmetry. exact H.
Qed.

Lemma reads_dir_holds c f files : reads c f files -> dir_holds f (fam c files).
Proof.
  intros R. destruct files as [|f0 fr].
  - cbn in R |- *. split; [intros n d []|]. intros n j Hn. rewrite (lookup_empty f n R) in Hn. discriminate.
  - cbn [reads] in R. destruct R as [cl [cu [-> [Hcl [[j [Lj [Pj Cj]]] Hon]]]]]. rewrite fam_snoc. split.
    + intros n d Hin. apply in_app_or in Hin. destruct Hin as [Hin|[Hin|[]]].
      * apply numbered_in in Hin. destruct Hin as [i [Hi [-> ->]]]. exact (Hcl i Hi).
      * injection Hin as <- <-. eauto.
    + intros n j' Hn. rewrite map_app. apply in_or_app. destruct (Hon n j' Hn) as [->|[i [Hi ->]]].
      * right. left. reflexivity.
      * left. apply numbered_names. exists i. split; [exact Hi | reflexivity].
Qed.

(* a directory put on top of a stock of other files: both sets of files are there *)
Lemma dir_holds_embed fn fi f' l0 l' :
  fs_wf (stock fn fi) -> dir_holds (stock fn fi) l0 -> dir_holds f' l' ->
  (forall n, In n (List.map fst l0) -> ~ In n (List.map fst l')) ->
  dir_holds (embed fn fi f') (l0 ++ l').
Proof.
  intros W [A0 B0] [A1 B1] Hdis. split.
  - intros n d Hin. apply in_app_or in Hin. destruct Hin as [Hin|Hin].
    + destruct (A0 n d Hin) as [j [Lj [Pj Cj]]].
      assert (Ln : lookup f' n = None).
      { destruct (lookup f' n) as [i|] eqn:E; [|reflexivity]. exfalso. apply (Hdis n); [|exact (B1 n i E)].
        apply (in_map fst) in Hin. exact Hin. }
      pose proof (wf_bound _ W _ _ Lj) as Hj. exists j. rewrite lookup_embed, Ln. split; [exact Lj|].
      unfold content. rewrite inode_embed_stock by exact Hj. split; [exact Pj | exact Cj].
    + destruct (A1 n d Hin) as [i [Li [Pi Ci]]]. exists (fk fi + i). rewrite lookup_embed, Li. split; [reflexivity|].
      rewrite content_embed, inode_embed. split; [exact Pi | exact Ci].
  - intros n j Hn. rewrite lookup_embed in Hn. rewrite map_app. apply in_or_app.
    destruct (lookup f' n) as [i|] eqn:E.
    + right. exact (B1 n i E).
    + left. exact (B0 n j Hn).
Qed.

Lemma cap_eqb_refl a : cap_eqb a a = true.
Proof. destruct a as [n|]; cbn; [apply Nat.eqb_refl | reflexivity]. Qed.

Lemma stock_eta f : stock (names f) (inodes f) = f.
Proof. destruct f; reflexivity. Qed.

(* reset: the old writer is dropped - its buffered tail reaches the old current file -, a new writer is installed *)
Lemma reset_step c crit c2 crit2 x a :
  numcfg c crit -> numcfg c2 crit2 -> c_cap c2 = c_cap c -> Rel c crit x a ->
  exists x2, step x (OReset c2) = (x2, ObsRes 0 false)
    /\ s_flw x2 = Some (new_flw c2) /\ s_tl x2 = [] /\ wacts (s_w x2) = 0 /\ quiet (s_w x2)
    /\ fs_wf (wfs (s_w x2)) /\ reads c (wfs (s_w x2)) (files_of a).
Proof.
  intros Hcfg Hcfg2 Hcap R. rewrite (step_sync_rel c crit x _ (OReset c2) Hcfg R). cbn [sync_step].
  destruct Hcfg as [_ [_ [_ Has]]]. destruct Hcfg2 as [_ [_ [_ Has2]]].
  destruct R as [Ht [Ha R]]. destruct a as [[cl cu]|].
  - destruct R as [wr [roll [Es [I [V [Z RS]]]]]]. rewrite Es. cbn [st_of f_poisoned f_cfg f_inner].
    rewrite Hcap, cap_eqb_refl, Has, Has2. cbn [Bool.eqb andb negb]. unfold drain_acts, w_drop.
    destruct (w_flush_quiet (s_w x) wr (ni_quiet _ _ _ _ I)) as [w1 [E [F S]]]. rewrite E. cbn [fst snd].
    set (wr' := {| wino := wino wr; wpend := []; wcap := wcap wr |}).
    assert (Hok : wr_ok wr') by (unfold wr_ok, wr'; cbn; destruct (wcap wr); [lia | reflexivity]).
    destruct (numinv_append c (s_w x) w1 wr wr' cl (wpend wr) I F S eq_refl eq_refl Hok) as [I1 C1].
    eexists. split; [reflexivity|]. cbn [s_flw s_tl s_w].
    split; [reflexivity|]. split; [exact Ht|]. split; [exact (same_env_acts _ _ S Ha)|]. split; [exact (proj1 S)|].
    destruct I1 as [Q W Hc Hcp Hcl Hon Hwr Hcap']. split; [exact W|].
    apply (files_of_reads c _ (Some (cl, cu))). split; [exact Hcl|]. split; [|exact Hon].
    exists (wino wr). split; [exact Hc|]. split; [exact Hcp|]. cbn [wr' wino] in C1. rewrite C1. exact V.
  - destruct R as [Es [Q [Hn Hi]]]. rewrite Es. cbn [new_flw f_poisoned f_cfg f_inner].
    rewrite Hcap, cap_eqb_refl, Has, Has2. cbn [Bool.eqb andb negb]. unfold drain_acts.
    eexists. split; [reflexivity|]. cbn [s_flw s_tl s_w].
    split; [reflexivity|]. split; [exact Ht|]. split; [exact Ha|]. split; [exact Q|].
    split; [|exact Hn].
    split; intros n; intros; rewrite (lookup_empty _ n Hn) in *; discriminate.
Qed.

(* the history of the new writer in a directory that holds the old family: the embedding of its history in an empty one *)
Lemma run_stop_embed fn fi c2 crit2 x ops :
  numcfg c2 crit2 -> (forall n, In n (fnames fn) -> num_member c2 n = false) -> Rel c2 crit2 x None -> Forall basic_op ops ->
  fst (run (embedx fn fi x) (ops ++ [OStop])) = embedx fn fi (fst (run x (ops ++ [OStop]))).
Proof.
  intros Hcfg Hfor R Hb. pose proof Hcfg as [Hrot [Hts [Hlink Hasync]]].
  assert (F : forall i, fam_sys fn c2 KNever (fst (run x (firstn i ops)))).
  { intros i. eapply rel_fam; [exact Hfor|]. apply (run_rel c2 crit2 Hcfg (firstn i ops) x None R). apply Forall_firstn'. exact Hb. }
  rewrite !run_app.
  pose proof (run_embed_gen fn fi c2 crit2 KNever Hrot Hts Hlink Hasync (or_introl eq_refl) Hfor ops x F Hb) as [E1 _].
  pose proof (F (length ops)) as [G1 _]. rewrite firstn_all in G1.
  destruct (run (embedx fn fi x) ops) as [xf1 obsf1]. destruct (run x ops) as [x1 obs1]. cbn [fst snd] in *. subst xf1.
  cbn [run]. pose proof (step_embed fn fi c2 crit2 KNever Hrot Hts Hlink Hasync (or_introl eq_refl) Hfor x1 OStop G1 Logic.I) as ES.
  destruct (step (embedx fn fi x1) OStop) as [xf2 obf2]. destruct (step x1 OStop) as [x2 ob2]. cbn [fst snd] in *.
  injection ES as -> _. reflexivity.
Qed.

(* ------------------------------------------------------------------ theorem 3 *)
Theorem reset_numbers c crit c2 crit2 t0 off ops1 ops2 :
  numcfg c crit -> numcfg c2 crit2 -> c_cap c2 = c_cap c -> foreign_family c c2 ->
  Forall basic_op ops1 -> Forall basic_op ops2 ->
  let r := run (sys0 t0 off) (OStart c :: ops1 ++ [OReset c2] ++ ops2 ++ [OStop]) in
  (* the reset is accepted *)
  nth_error (snd r) (S (length ops1)) = Some (ObsRes 0 false)
  /\ exists files1 files2,
       (* files1: the family of c as the history ops1 alone leaves it (the buffered tail has reached its current file) *)
       reads c (wfs (s_w (fst (run (sys0 t0 off) (OStart c :: ops1 ++ [OStop]))))) files1
       /\ concat files1 = written ops1
       (* files2: the family of c2, as numbers_stream / numbers_partition describe it for a fresh start *)
       /\ concat files2 = written ops2
       /\ (forall m, crit = CSize m -> files1 = expected_files m None (items false ops1))
       /\ (forall m2, crit2 = CSize m2 -> files2 = expected_files m2 None (items false ops2))
       (* the directory: both families, nothing else *)
       /\ dir_holds (wfs (s_w (fst r))) (fam c files1 ++ fam c2 files2).
Proof.
  intros Hcfg Hcfg2 Hcap [Hf1 Hf2] Hb1 Hb2. cbv zeta. cbn [run]. destruct (step (sys0 t0 off) (OStart c)) as [x0 ob0] eqn:E0.
  pose proof (start_rel c crit t0 off) as R0. rewrite E0 in R0. cbn [fst] in R0.
  rewrite !run_app.
  pose proof (run_rel c crit Hcfg ops1 x0 None R0 Hb1) as R1. pose proof (run_length ops1 x0) as L1.
  pose proof (a_run_flat ops1 None (snd (run x0 ops1)) Hb1 L1) as Fl1. cbn [flat app] in Fl1.
  assert (Sz : forall m, crit = CSize m -> a_run None ops1 (snd (run x0 ops1)) = s_run m None ops1).
  { intros m ->. exact (proj1 (run_size c m Hcfg ops1 x0 None R0 Hb1)). }
  destruct (run x0 ops1) as [x1 obs1]. cbn [fst snd] in *.
  pose proof (stop_rel c crit x1 _ Hcfg R1) as S1. cbn [run] in S1 |- *.
  set (a1 := a_run None ops1 obs1) in *.
  destruct (reset_step c crit c2 crit2 x1 a1 Hcfg Hcfg2 Hcap R1) as [x2 [E2 [Es2 [Ht2 [Ha2 [Q2 [W2 Rd2]]]]]]].
  assert (E2' : run x1 [OReset c2] = (x2, [ObsRes 0 false])) by (cbn [run]; rewrite E2; reflexivity).
  rewrite (run_app [OReset c2]), E2'.
  (* the system after the reset is the embedding of a fresh one *)
  set (fn := names (wfs (s_w x2))). set (fi := inodes (wfs (s_w x2))).
  set (x2' := {| s_flw := Some (new_flw c2); s_w := set_fs (s_w x2) empty_fs; s_tl := s_tl x2; s_dead := s_dead x2 |}).
  assert (Eemb : x2 = embedx fn fi x2').
  { unfold embedx, x2'. cbn [s_flw s_w s_tl s_dead]. unfold embedw. cbn [set_fs wfs wnow woff wfaults wkill werrs wlink wacts].
    rewrite stock_embed. unfold fn, fi. rewrite stock_eta. destruct x2 as [fl w tl dd]. cbn [s_flw s_w s_tl s_dead] in *.
    rewrite Es2. destruct w. reflexivity. }
  assert (R2 : Rel c2 crit2 x2' None).
  { split; [exact Ht2|]. split; [exact Ha2|]. split; [reflexivity|]. split; [exact Q2|]. split; reflexivity. }
  pose proof (reads_dir_holds c _ _ Rd2) as D0.
  assert (Hfor : forall n, In n (fnames fn) -> num_member c2 n = false).
  { intros n Hn. change (fnames fn) with (dir_names (wfs (s_w x2))) in Hn. apply dir_names_lookup in Hn. destruct Hn as [j Hj].
    apply (proj2 D0) in Hj. apply fam_names in Hj. destruct Hj as [->|[i ->]]; [exact Hf1 | apply Hf2]. }
  pose proof (run_stop_embed fn fi c2 crit2 x2' ops2 Hcfg2 Hfor R2 Hb2) as Eend. rewrite <- Eemb in Eend.
  pose proof (finish_rel c2 crit2 x2' None ops2 Hcfg2 R2 Hb2) as [Rd [Fl Sz2]].
  destruct (run x2 (ops2 ++ [OStop])) as [x3 obs3]. cbn [fst snd] in *.
  assert (Hnth : forall (a : obs) rest, nth_error (obs1 ++ a :: rest) (length ops1) = Some a).
  { intros a rest. rewrite nth_error_app2 by lia. rewrite L1, Nat.sub_diag. reflexivity. }
  split; [apply Hnth|].
  destruct (step x1 OStop) as [x1s ob1s]. cbn [fst].
  exists (files_of a1), (files_of (a_run None ops2 (snd (run x2' ops2)))).
  split; [apply files_of_reads; exact S1|]. split; [rewrite files_of_concat; exact Fl1|].
  split; [rewrite files_of_concat; exact Fl|].
  split; [intros m Hm; rewrite (Sz m Hm); apply s_run_none; exact Hb1|].
  split; [intros m Hm; rewrite (Sz2 m Hm); apply s_run_none; exact Hb2|].
  rewrite Eend. cbn [embedx s_w]. unfold embedw. cbn [set_fs wfs].
  apply dir_holds_embed.
  - unfold fn, fi. rewrite stock_eta. exact W2.
  - unfold fn, fi. rewrite stock_eta. exact D0.
  - apply reads_dir_holds. exact Rd.
  - intros n Hn Hn'. apply fam_names in Hn. apply fam_names in Hn'.
    assert (M2 : num_member c2 n = true) by (destruct Hn' as [->|[i ->]]; [apply member_cname | apply member_rname]).
    destruct Hn as [->|[i ->]]; [rewrite Hf1 in M2 | rewrite Hf2 in M2]; discriminate.
Qed.
Print Assumptions reset_numbers.

(* a simple sufficient condition: the fixed name parts (basename [_discriminant]) differ, neither is a prefix of the other *)
Lemma not_prefix_app : forall a b t, is_prefix a b = false -> is_prefix b a = false -> is_prefix a (b ++ t) = false.
Proof.
  induction a as [|x a IH]; intros b t H1 H2; [discriminate|]. destruct b as [|y b]; [discriminate|].
  cbn [is_prefix app] in *. destruct (x =? y)%N eqn:E; [|reflexivity]. cbn [andb] in *.
  apply N.eqb_eq in E. subst y. rewrite N.eqb_refl in H2. cbn [andb] in H2. apply IH; assumption.
Qed.

Lemma foreign_family_prefix c c2 :
  is_prefix (fixed0 c) (fixed0 c2) = false -> is_prefix (fixed0 c2) (fixed0 c) = false -> foreign_family c c2.
Proof.
  intros H1 H2.
  assert (U : forall z, is_prefix (fixed0 c2) (under (fixed0 c) ++ z) = false).
  { intros z. unfold under. destruct (fixed0 c) as [|f0 fr] eqn:E; [discriminate|]. rewrite <- app_assoc. apply not_prefix_app; assumption. }
  split.
  - apply foreign_no_prefix. rewrite cname_shape. apply U.
  - intros i. apply foreign_no_prefix. rewrite rname_shape. apply U.
Qed.

Corollary reset_numbers_prefix c crit c2 crit2 t0 off ops1 ops2 :
  numcfg c crit -> numcfg c2 crit2 -> c_cap c2 = c_cap c ->
  is_prefix (fixed0 c) (fixed0 c2) = false -> is_prefix (fixed0 c2) (fixed0 c) = false ->
  Forall basic_op ops1 -> Forall basic_op ops2 ->
  let r := run (sys0 t0 off) (OStart c :: ops1 ++ [OReset c2] ++ ops2 ++ [OStop]) in
  exists files1 files2,
    concat files1 = written ops1 /\ concat files2 = written ops2
    /\ dir_holds (wfs (s_w (fst r))) (fam c files1 ++ fam c2 files2).
Proof.
  intros Hcfg Hcfg2 Hcap H1 H2 Hb1 Hb2.
  destruct (reset_numbers c crit c2 crit2 t0 off ops1 ops2 Hcfg Hcfg2 Hcap (foreign_family_prefix c c2 H1 H2) Hb1 Hb2)
    as [_ [files1 [files2 [_ [C1 [C2 [_ [_ D]]]]]]]].
  exists files1, files2. auto.
Qed.
Print Assumptions reset_numbers_prefix.

(* ================================================================== 6. examples (non-vacuity) and findings *)
Require FL.Flw.ReopenFacts.
Import String.StringSyntax.
Open Scope string_scope.

Definition ex_cfg (base : String.string) (cap : option nat) (app : bool) : config :=
  {| c_spec := {| fbase := bs base; fdisc := None; fts := false; fsfx := Some (bs "log") |};
     c_append := app; c_cap := cap; c_rot := Some (CSize 3, NNumbers, KNever); c_utc := false;
     c_symlink := false; c_bg := false; c_async := false; c_start := None |}.
(* the directory after a history from the empty directory: (name, content) in name order *)
Definition ex_dir (ops : list op) : list (bytes * bytes) := ReopenFacts.dir_list (ReopenFacts.end_of ops).

Definition ex_a := ex_cfg "a" (Some 8) false.          (* a_r00000.log .. a_rCURRENT.log, limit 3 bytes, BufWriter of 8 bytes *)
Definition ex_b := ex_cfg "b" (Some 8) true.           (* another family, the same write mode, append *)
Definition ex_moved := bs "a.old".
(* "abcd" is over the limit: closed by the next record; "efgh" is over the limit, too, and still in the buffer *)
Definition ex_ops1 : list op := [OWrite (bs "abcd"); OWrite (bs "ef"); OFlush; OPlain (bs "gh")].
Definition ex_ops2 : list op := [OWrite (bs "ij"); OWrite (bs "kl"); OTick 5; OWrite (bs "mnop"); OSnap; OWrite (bs "q")].

Lemma ex_fresh_old : fresh_name ex_a ex_moved.
Proof.
  split; [vm_compute; discriminate|]. intros i E. rewrite rname_shape in E.
  apply (f_equal (fun s => nth 1 s 0%N)) in E. vm_compute in E. discriminate.
Qed.

Example ex_hyps :
  numcfg ex_a (CSize 3) /\ numcfg ex_b (CSize 3) /\ Forall basic_op ex_ops1 /\ Forall basic_op ex_ops2
  /\ fresh_name ex_a ex_moved /\ wrote ex_ops1 = true /\ c_cap ex_b = c_cap ex_a
  /\ is_prefix (fixed0 ex_a) (fixed0 ex_b) = false /\ is_prefix (fixed0 ex_b) (fixed0 ex_a) = false.
Proof.
  split; [repeat split|]. split; [repeat split|]. split; [repeat constructor|]. split; [repeat constructor|].
  split; [exact ex_fresh_old|]. repeat split.
Qed.

(* ---- theorem 1 on a history ---- *)
(* at the rename "efgh" is partly on disk ("ef" was flushed), partly in the buffer ("gh"); reopen succeeds *)
Example ex_reopen_computed :
  ex_dir (OStart ex_a :: ex_ops1 ++ [OExtRename (cname ex_a) ex_moved])
  = [(bs "a.old", bs "ef"); (bs "a_r00000.log", bs "abcd")]
  /\ ex_dir (OStart ex_a :: ex_ops1 ++ [OExtRename (cname ex_a) ex_moved; OReopen])
  = [(bs "a.old", bs "efgh"); (bs "a_r00000.log", bs "abcd"); (bs "a_rCURRENT.log", [])]
  /\ ex_dir (OStart ex_a :: ex_ops1 ++ [OExtRename (cname ex_a) ex_moved; OReopen] ++ ex_ops2 ++ [OStop])
  = [(bs "a.old", bs "efgh"); (bs "a_r00000.log", bs "abcd"); (bs "a_r00001.log", []); (bs "a_r00002.log", bs "ijkl");
     (bs "a_r00003.log", bs "mnop"); (bs "a_rCURRENT.log", bs "q")]
  /\ nth_error (snd (run (sys0 0 0) (OStart ex_a :: ex_ops1 ++ [OExtRename (cname ex_a) ex_moved; OReopen] ++ ex_ops2 ++ [OStop])))
               (S (S (length ex_ops1))) = Some (ObsRes 0 false)
  /\ written ex_ops1 = bs "abcdefgh" /\ written ex_ops2 = bs "ijklmnopq".
Proof. repeat (split; [vm_compute; reflexivity|]); vm_compute; reflexivity. Qed.

(* ... what the theorems say about it *)
Example ex_reopen_thm :
  exists closed1 cur1 closed2 cur2,
    concat closed1 ++ cur1 = written ex_ops1 /\ concat closed2 ++ cur2 = written ex_ops2
    /\ dir_holds (wfs (s_w (fst (run (sys0 0 0) (OStart ex_a :: ex_ops1 ++ [OExtRename (cname ex_a) ex_moved; OReopen] ++ ex_ops2 ++ [OStop])))))
         (numbered ex_a 0 (closed1 ++ closed2) ++ [(cname ex_a, cur2); (ex_moved, cur1)]).
Proof.
  destruct ex_hyps as (Hc & _ & H1 & H2 & Hm & Hw & _).
  pose proof (reopen_numbers ex_a (CSize 3) 0 0 ex_ops1 ex_ops2 ex_moved Hc H1 H2 Hm) as [_ T]. cbv zeta in T.
  rewrite Hw in T. destruct T as (closed1 & cur1 & closed2 & cur2 & _ & C1 & D & C2 & _).
  exists closed1, cur1, closed2, cur2. auto.
Qed.

(* the witnesses of reopen_numbers_partition for this history: the renamed file holds "efgh", the greedy partition of
   ops2 that starts with "efgh" in the current file is  efgh | ijkl | mnop | q ; with "efgh" taken off:  "" | ijkl | mnop | q *)
Example ex_reopen_partition :
  expected_files 3 None (items false ex_ops1) = [bs "abcd"] ++ [bs "efgh"]
  /\ partition 3 [] (bs "efgh") (items true ex_ops2) = (bs "efgh" ++ []) :: [bs "ijkl"; bs "mnop"; bs "q"]
  /\ numbered ex_a 0 ([bs "abcd"] ++ [[]; bs "ijkl"; bs "mnop"]) ++ [(cname ex_a, bs "q"); (ex_moved, bs "efgh")]
     = [(bs "a_r00000.log", bs "abcd"); (bs "a_r00001.log", []); (bs "a_r00002.log", bs "ijkl"); (bs "a_r00003.log", bs "mnop");
        (bs "a_rCURRENT.log", bs "q"); (bs "a.old", bs "efgh")].
Proof. repeat (split; [vm_compute; reflexivity|]); vm_compute; reflexivity. Qed.

(* FINDING 1: the size count is not reset by reopen_outputfile().  The file that was moved away was over the limit, so
   the first record after the reopen rotates the new, still EMPTY rCURRENT: an empty a_r00001.log appears.
   The files of ops2 are therefore NOT the greedy partition started afresh (expected_files 3 None ...). *)
Example ex_reopen_empty_file :
  ReopenFacts.assoc (bs "a_r00001.log")
    (ex_dir (OStart ex_a :: ex_ops1 ++ [OExtRename (cname ex_a) ex_moved; OReopen] ++ ex_ops2 ++ [OStop])) = Some []
  /\ expected_files 3 None (items false ex_ops2) = [bs "ijkl"; bs "mnop"; bs "q"].
Proof. repeat (split; [vm_compute; reflexivity|]); vm_compute; reflexivity. Qed.

(* the same effect without an empty file: "ef" (2 bytes) is moved away, the count goes on at 2: "gh" alone fills the next
   file, whereas a fresh writer would put "ghij" into one file *)
Definition ex_ops1' : list op := [OWrite (bs "abcd"); OWrite (bs "ef")].
Definition ex_ops2' : list op := [OWrite (bs "gh"); OWrite (bs "ij"); OWrite (bs "k")].
Example ex_reopen_not_afresh :
  ex_dir (OStart ex_a :: ex_ops1' ++ [OExtRename (cname ex_a) ex_moved; OReopen] ++ ex_ops2' ++ [OStop])
  = [(bs "a.old", bs "ef"); (bs "a_r00000.log", bs "abcd"); (bs "a_r00001.log", bs "gh"); (bs "a_rCURRENT.log", bs "ijk")]
  /\ ex_dir (OStart ex_a :: ex_ops2' ++ [OStop]) = [(bs "a_r00000.log", bs "ghij"); (bs "a_rCURRENT.log", bs "k")]
  /\ partition 3 [] (bs "ef") (items true ex_ops2') = [bs "ef" ++ bs "gh"; bs "ijk"].
Proof. repeat (split; [vm_compute; reflexivity|]); vm_compute; reflexivity. Qed.

(* the rotation state after the reopen: next index 1, size count 4 (the bytes of a.old), an unbuffered writer *)
Example ex_reopen_state :
  match s_flw (ReopenFacts.end_of (OStart ex_a :: ex_ops1 ++ [OExtRename (cname ex_a) ex_moved; OReopen])) with
  | Some s => match f_inner s with
              | Active (Some rs) wr _ => (rs_naming rs, rs_roll rs, wcap wr, wpend wr) = (NSNumR 1, RSize 3 4, None, [])
              | _ => False end
  | None => False end.
Proof. vm_compute. reflexivity. Qed.

(* FINDING 3: the hypothesis fresh_name is needed, and its failure loses records.  Somebody "rotates by hand": renames
   a_rCURRENT.log to the next numbered name a_r00001.log, then reopen_outputfile().  The writer still has 1 as its next
   index; its next rotation renames the new (empty) rCURRENT to a_r00001.log, and rename replaces the target: the records
   "efgh" are gone, no error is reported, every call returned Ok. *)
Example ex_reopen_family_name_loses_records :
  ex_dir (OStart ex_a :: ex_ops1 ++ [OExtRename (cname ex_a) (rname ex_a 1); OReopen])
  = [(bs "a_r00000.log", bs "abcd"); (bs "a_r00001.log", bs "efgh"); (bs "a_rCURRENT.log", [])]
  /\ ex_dir (OStart ex_a :: ex_ops1 ++ [OExtRename (cname ex_a) (rname ex_a 1); OReopen] ++ ex_ops2 ++ [OStop])
  = [(bs "a_r00000.log", bs "abcd"); (bs "a_r00001.log", []); (bs "a_r00002.log", bs "ijkl"); (bs "a_r00003.log", bs "mnop");
     (bs "a_rCURRENT.log", bs "q")]
  /\ werrs (s_w (ReopenFacts.end_of (OStart ex_a :: ex_ops1 ++ [OExtRename (cname ex_a) (rname ex_a 1); OReopen] ++ ex_ops2 ++ [OStop]))) = []
  /\ List.map (fun ob => match ob with ObsRes code _ => code | _ => 0%N end)
       (snd (run (sys0 0 0) (OStart ex_a :: ex_ops1 ++ [OExtRename (cname ex_a) (rname ex_a 1); OReopen] ++ ex_ops2 ++ [OStop])))
     = List.repeat 0%N 14.
Proof. repeat (split; [vm_compute; reflexivity|]); vm_compute; reflexivity. Qed.

(* ---- theorem 2 on a history: the directory is the one of the history without the reopen ---- *)
Example ex_in_place_computed :
  ex_dir (OStart ex_a :: ex_ops1 ++ [OReopen] ++ ex_ops2 ++ [OStop])
  = [(bs "a_r00000.log", bs "abcd"); (bs "a_r00001.log", bs "efgh"); (bs "a_r00002.log", bs "ijkl");
     (bs "a_r00003.log", bs "mnop"); (bs "a_rCURRENT.log", bs "q")]
  /\ ex_dir (OStart ex_a :: ex_ops1 ++ ex_ops2 ++ [OStop]) = ex_dir (OStart ex_a :: ex_ops1 ++ [OReopen] ++ ex_ops2 ++ [OStop])
  /\ ex_dir (OStart ex_a :: ex_ops1 ++ [OReopen]) = [(bs "a_r00000.log", bs "abcd"); (bs "a_rCURRENT.log", bs "efgh")]
  /\ nth_error (snd (run (sys0 0 0) (OStart ex_a :: ex_ops1 ++ [OReopen] ++ ex_ops2 ++ [OStop]))) (S (length ex_ops1))
     = Some (ObsRes 0 false).
Proof. repeat (split; [vm_compute; reflexivity|]); vm_compute; reflexivity. Qed.

Example ex_in_place_thm :
  reads ex_a (wfs (s_w (fst (run (sys0 0 0) (OStart ex_a :: ex_ops1 ++ [OReopen] ++ ex_ops2 ++ [OStop])))))
        (expected_files 3 None (items false (ex_ops1 ++ ex_ops2)))
  /\ expected_files 3 None (items false (ex_ops1 ++ ex_ops2)) = [bs "abcd"; bs "efgh"; bs "ijkl"; bs "mnop"; bs "q"].
Proof.
  split; [|vm_compute; reflexivity].
  destruct ex_hyps as (Hc & _ & H1 & H2 & _).
  pose proof (reopen_numbers_in_place ex_a (CSize 3) 0 0 ex_ops1 ex_ops2 Hc H1 H2) as [_ T]. cbv zeta in T.
  destruct T as (files1 & files & _ & _ & R & _ & _ & P). rewrite (P 3%N eq_refl) in R. exact R.
Qed.

(* ---- theorem 3 on a history: reset from the family a_ to the family b_ ---- *)
Example ex_reset_computed :
  ex_dir (OStart ex_a :: ex_ops1)
  = [(bs "a_r00000.log", bs "abcd"); (bs "a_rCURRENT.log", bs "ef")]       (* "gh" is in the buffer *)
  /\ ex_dir (OStart ex_a :: ex_ops1 ++ [OReset ex_b] ++ ex_ops2 ++ [OStop])
  = [(bs "a_r00000.log", bs "abcd"); (bs "a_rCURRENT.log", bs "efgh");
     (bs "b_r00000.log", bs "ijkl"); (bs "b_r00001.log", bs "mnop"); (bs "b_rCURRENT.log", bs "q")]
  /\ nth_error (snd (run (sys0 0 0) (OStart ex_a :: ex_ops1 ++ [OReset ex_b] ++ ex_ops2 ++ [OStop]))) (S (length ex_ops1))
     = Some (ObsRes 0 false).
Proof. repeat (split; [vm_compute; reflexivity|]); vm_compute; reflexivity. Qed.

Example ex_reset_thm :
  dir_holds (wfs (s_w (fst (run (sys0 0 0) (OStart ex_a :: ex_ops1 ++ [OReset ex_b] ++ ex_ops2 ++ [OStop])))))
    (fam ex_a (expected_files 3 None (items false ex_ops1)) ++ fam ex_b (expected_files 3 None (items false ex_ops2)))
  /\ fam ex_a (expected_files 3 None (items false ex_ops1)) ++ fam ex_b (expected_files 3 None (items false ex_ops2))
     = [(bs "a_r00000.log", bs "abcd"); (bs "a_rCURRENT.log", bs "efgh");
        (bs "b_r00000.log", bs "ijkl"); (bs "b_r00001.log", bs "mnop"); (bs "b_rCURRENT.log", bs "q")].
Proof.
  split; [|vm_compute; reflexivity].
  destruct ex_hyps as (Hc & Hc2 & H1 & H2 & _ & _ & Hcap & P1 & P2).
  pose proof (reset_numbers ex_a (CSize 3) ex_b (CSize 3) 0 0 ex_ops1 ex_ops2 Hc Hc2 Hcap (foreign_family_prefix _ _ P1 P2) H1 H2)
    as [_ T]. cbv zeta in T.
  destruct T as (files1 & files2 & _ & _ & _ & E1 & E2 & D). rewrite (E1 3%N eq_refl), (E2 3%N eq_refl) in D. exact D.
Qed.

(* The hypothesis foreign_family and the family test.  Old family a_r0_ (basename "a_r0"), new family a_ (basename "a").  Before
   the repair of the number filter ("r" + digits and nothing else) the old files a_r0_r00000.log and a_r0_rCURRENT.log passed
   the family test of the new writer (infix "r0_r00000": an "r", a digit, one more byte), counted as index 0, and the numbering
   of the new family started at 1.  With the repaired filter they are foreign: the new family is exactly what a fresh start
   gives.  (foreign_family is still needed in general: a reset to a family whose names the old files DO follow.) *)
Definition ex_old := ex_cfg "a_r0" (Some 8) false.
Example ex_reset_no_interference :
  num_member ex_a (cname ex_old) = false /\ num_member ex_a (rname ex_old 0) = false
  /\ ex_dir (OStart ex_old :: ex_ops1 ++ [OReset ex_a] ++ ex_ops2 ++ [OStop])
     = [(bs "a_r00000.log", bs "ijkl"); (bs "a_r00001.log", bs "mnop"); (bs "a_r0_r00000.log", bs "abcd");
        (bs "a_r0_rCURRENT.log", bs "efgh"); (bs "a_rCURRENT.log", bs "q")]
  /\ ex_dir (OStart ex_a :: ex_ops2 ++ [OStop])
     = [(bs "a_r00000.log", bs "ijkl"); (bs "a_r00001.log", bs "mnop"); (bs "a_rCURRENT.log", bs "q")].
Proof. repeat (split; [vm_compute; reflexivity|]); vm_compute; reflexivity. Qed.

(* a reset to the SAME family: the old rCURRENT is closed by the start of the new writer (no append) or continued (append);
   the numbering continues, nothing is overwritten *)
Example ex_reset_same_family :
  ex_dir (OStart ex_a :: ex_ops1 ++ [OReset ex_a] ++ ex_ops2 ++ [OStop])
  = [(bs "a_r00000.log", bs "abcd"); (bs "a_r00001.log", bs "efgh"); (bs "a_r00002.log", bs "ijkl");
     (bs "a_r00003.log", bs "mnop"); (bs "a_rCURRENT.log", bs "q")]
  /\ ex_dir (OStart ex_a :: ex_ops1 ++ [OReset (ex_cfg "a" (Some 8) true)] ++ ex_ops2 ++ [OStop])
  = [(bs "a_r00000.log", bs "abcd"); (bs "a_r00001.log", bs "efgh"); (bs "a_r00002.log", bs "ijkl");
     (bs "a_r00003.log", bs "mnop"); (bs "a_rCURRENT.log", bs "q")].
Proof. repeat (split; [vm_compute; reflexivity|]); vm_compute; reflexivity. Qed.
