(* "Every file the logger creates is named as documented" for TimestampsDirect naming (NamesDocumented.v has Numbers,
   NumbersDirect and Timestamps): the oracle Oracles/O_Names.name_documented accepts every name in the directory, at every point
   of every history covered by timestampsdirect_stream.  The files are  <fixed>_r<time stamp>[.restart-NNNN][.suffix]; there is no
   rCURRENT file (cur_infix_of c = None), and the oracle would reject one (example tsd_rcurrent_not_documented).  Hypothesis
   not_gz as for the other namings: the family's suffix is not "gz" and does not end with ".gz". *)
Require Import FL.Base.Bytes FL.Base.BytesFacts FL.Base.PathName FL.Fs.Fs FL.Fs.FsFacts FL.Time.Civil FL.Time.TsFormat
  FL.Names.FileSpec FL.Names.NamesFacts FL.Names.SortFacts FL.Names.FamilyFacts FL.Flw.Model FL.Flw.ModelFacts FL.Flw.NumFs
  FL.Flw.NumInv FL.Flw.Run FL.Flw.RunFacts FL.Flw.NumRun FL.Oracles.O_Flw FL.Oracles.ReaderOrder FL.Oracles.O_Names
  FL.Flw.NumTheorems FL.Flw.NumListing FL.Flw.NumRestart FL.Flw.NumDTheorems
  FL.Flw.TsCal FL.Flw.TsTime FL.Flw.TsMono FL.Flw.TsNames FL.Flw.TsInv FL.Flw.TsRun FL.Flw.TsTheorems FL.Flw.TsReader
  FL.Flw.TsdInv FL.Flw.TsdRun FL.Flw.TsdTheorems
  FL.Flw.NumKillRestart FL.Flw.NoPanic FL.Flw.TsParse FL.Flw.NamesDocumented FL.Flw.TsdNoPanic.
From Coq Require Import ZifyN ZifyNat ZifyBool.
Open Scope nat_scope.

(* ------------------------------------------------------------------ the infixes *)
(* <time stamp> and <time stamp>.restart-NNNN are valid infixes of every naming whose format is the standard one
   (NamesDocumented.valid_ts_infix is the instance NTimestamps) *)
Lemma valid_std_infix nam cur e k : fmt_of nam = Some std_fmt -> in_years e (fst k) -> valid_infix nam cur (infix_of e k) = true.
Proof.
  intros F H. unfold valid_infix. rewrite F.
  assert (Hc : contains restart_tag (tsx e (fst k)) = false) by (apply no_dot_no_tag; exact (tsx_no_dot e _ H)).
  unfold infix_of. destruct (snd k) as [|m].
  - unfold split_restart. apply contains_false_iff in Hc. rewrite Hc, (parse_tsx e _ H). apply orb_true_r.
  - unfold split_restart, restart_infix. rewrite (sk_find_tag_app _ _ Hc), sk_firstn_app, (parse_tsx e _ H).
    rewrite sk_skipn_app, skipn_length_app. fold (restart_digits (N.of_nat m)). rewrite restart_digits_all.
    destruct (Nat.leb_spec 4 (length (restart_digits (N.of_nat m)))) as [_|X]; [|pose proof (restart_digits_length (N.of_nat m)); lia].
    apply orb_true_r.
Qed.

Lemma documented_kname_d c crit k e key : c_rot c = Some (crit, NTimestampsDirect, k) -> fts (c_spec c) = false -> not_gz c ->
  in_years e (fst key) -> name_documented c [] (kname c e key) = true.
Proof.
  intros Hrot Hts G Y. unfold name_documented. rewrite Hrot, (doc_fixed_fixed0 c [] Hts), (full_infix_kname c e key G Y).
  apply valid_std_infix; [reflexivity | exact Y].
Qed.

(* ------------------------------------------------------------------ the directory that the stopped writer leaves *)
Lemma tsd_view_documented c crit e lo hi f keys files : tsdcfg c crit -> not_gz c -> years_ok e lo hi ->
  (forall k, In k keys -> (lo <= fst k <= hi)%Z) -> tsd_view c e f keys files -> all_documented c f.
Proof.
  intros [Hrot [Hts _]] G Y Rg [Hlen [_ [Hon _]]] n In_. apply dir_names_lookup in In_. destruct In_ as [j Lj].
  destruct (Hon n j Lj) as [i [Hi ->]].
  apply (documented_kname_d c crit KNever e _ Hrot Hts G). apply (years_in e lo hi _ Y). apply Rg, nth_In. lia.
Qed.

(* hypotheses of timestampsdirect_stream, and not_gz *)
Theorem timestampsdirect_names_documented c crit t0 off ops :
  tsdcfg c crit -> tag_ok c -> not_gz c -> Forall basic_op ops -> Forall tick_ok ops ->
  (0 <= t0 + ts_e c off)%Z -> (t0 + elapsed ops + ts_e c off < sec_max)%Z -> (N.of_nat (length ops) <= usize_max)%N ->
  all_documented c (wfs (s_w (fst (run (sys0 t0 off) (OStart c :: ops ++ [OStop]))))).
Proof.
  intros Hcfg T G Hb Htk Hlo Hhi Hmax.
  destruct (timestampsdirect_stream_view c crit t0 off ops Hcfg T Hb Htk Hlo Hhi Hmax) as [keys [files [V [_ [_ Rg]]]]].
  assert (Y : years_ok (ts_e c off) t0 (t0 + elapsed ops)) by (split; assumption).
  exact (tsd_view_documented c crit _ _ _ _ keys files Hcfg G Y Rg V).
Qed.
Print Assumptions timestampsdirect_names_documented.

(* ------------------------------------------------------------------ at every point of the history *)
Lemma reltd_documented c crit e lo hi n x a : tsdcfg c crit -> not_gz c -> years_ok e lo hi -> (wnow (s_w x) <= hi)%Z ->
  RelTd c crit e lo n x a -> all_documented c (wfs (s_w x)).
Proof.
  intros [Hrot [Hts _]] G Y Hhi [_ [_ R]]. destruct a as [[closed cur]|].
  - destruct R as [keys [wr [roll [_ [Iv _]]]]]. intros m In_. apply dir_names_lookup in In_. destruct In_ as [j Lj].
    destruct (td_only _ _ _ _ _ _ _ Iv m j Lj) as [i [Hi ->]].
    apply (documented_kname_d c crit KNever e _ Hrot Hts G). apply (years_in e lo hi _ Y).
    pose proof (td_range _ _ _ _ _ _ _ Iv (nth i keys kd)) as Rg. pose proof (td_len _ _ _ _ _ _ _ Iv) as Hl.
    assert (Ik : In (nth i keys kd) keys) by (apply nth_In; lia). specialize (Rg Ik). lia.
  - destruct R as [_ [_ [Hn _]]]. apply all_documented_empty. exact Hn.
Qed.

(* the directory after  OStart c :: ops  - the writer is still open -, for every history *)
Theorem timestampsdirect_names_documented_always c crit t0 off ops :
  tsdcfg c crit -> tag_ok c -> not_gz c -> Forall basic_op ops -> Forall tick_ok ops ->
  (0 <= t0 + ts_e c off)%Z -> (t0 + elapsed ops + ts_e c off < sec_max)%Z -> (N.of_nat (length ops) <= usize_max)%N ->
  all_documented c (wfs (s_w (fst (run (sys0 t0 off) (OStart c :: ops))))).
Proof.
  intros Hcfg T G Hb Htk Hlo Hhi Hmax. cbn [run]. destruct (step (sys0 t0 off) (OStart c)) as [x0 ob0] eqn:E0.
  pose proof (start_rel_tsd c crit t0 off) as R0. rewrite E0 in R0. cbn [fst] in R0.
  assert (W0 : wnow (s_w x0) = t0) by (cbn in E0; injection E0 as <- _; reflexivity).
  assert (Y : years_ok (ts_e c off) t0 (t0 + elapsed ops)) by (split; assumption).
  pose proof (run_rel_tsd c crit _ _ _ Hcfg T Y ops x0 None 0 R0 Hb Htk ltac:(lia) ltac:(cbn [Nat.add]; exact Hmax)) as [R1 [W1 _]].
  destruct (run x0 ops) as [x1 obs1]. cbn [fst snd] in *.
  apply (reltd_documented c crit _ _ _ _ x1 _ Hcfg G Y ltac:(lia) R1).
Qed.
Print Assumptions timestampsdirect_names_documented_always.

(* ------------------------------------------------------------------ every snapshot taken during the run *)
Lemma run_snaps_documented_tsd c crit e lo hi : tsdcfg c crit -> tag_ok c -> not_gz c -> years_ok e lo hi ->
  forall ops x a n, RelTd c crit e lo n x a -> Forall basic_op ops -> Forall tick_ok ops ->
  (wnow (s_w x) + elapsed ops <= hi)%Z -> (N.of_nat (n + length ops) <= usize_max)%N ->
  Forall (snap_documented c) (snd (run x ops)).
Proof.
  intros Hcfg T G Y. induction ops as [|o r IH]; intros x a n R Hb Htk Hhi Hmax; [constructor|].
  cbn [run]. inversion Hb as [|o' r' Ho Hr]; subst. inversion Htk as [|o' r' Hto Htr]; subst.
  cbn [elapsed length] in *. pose proof (elapsed_nonneg r Htr) as Er.
  assert (Hdt : (0 <= dt_of o)%Z) by (destruct o; cbn [dt_of tick_ok] in *; lia).
  pose proof (step_rel_tsd c crit e lo hi n x a o Hcfg T Y R Ho Hto ltac:(lia) ltac:(lia)) as S.
  pose proof (step_rel_tsd_ok c crit e lo hi n x a o Hcfg T Y R Ho Hto ltac:(lia) ltac:(lia)) as K.
  pose proof (step_snap_documented c x o Ho K (reltd_documented c crit e lo hi n x a Hcfg G Y ltac:(lia) R)) as D.
  destruct (step x o) as [x1 ob].
  destruct S as [R1 [W1 _]]. specialize (IH x1 _ (S n) R1 Hr Htr ltac:(lia) ltac:(lia)). destruct (run x1 r) as [x2 obs].
  cbn [snd] in *. constructor; assumption.
Qed.

Theorem timestampsdirect_snapshots_documented c crit t0 off ops :
  tsdcfg c crit -> tag_ok c -> not_gz c -> Forall basic_op ops -> Forall tick_ok ops ->
  (0 <= t0 + ts_e c off)%Z -> (t0 + elapsed ops + ts_e c off < sec_max)%Z -> (N.of_nat (length ops) <= usize_max)%N ->
  Forall (snap_documented c) (snd (run (sys0 t0 off) (OStart c :: ops))).
Proof.
  intros Hcfg T G Hb Htk Hlo Hhi Hmax. cbn [run]. destruct (step (sys0 t0 off) (OStart c)) as [x0 ob0] eqn:E0.
  pose proof (start_rel_tsd c crit t0 off) as R0. rewrite E0 in R0. cbn [fst] in R0.
  assert (K0 : snap_documented c ob0) by (cbn in E0; injection E0 as _ <-; exact I).
  assert (W0 : wnow (s_w x0) = t0) by (cbn in E0; injection E0 as <- _; reflexivity).
  assert (Y : years_ok (ts_e c off) t0 (t0 + elapsed ops)) by (split; assumption).
  pose proof (run_snaps_documented_tsd c crit _ _ _ Hcfg T G Y ops x0 None 0 R0 Hb Htk ltac:(lia) ltac:(cbn [Nat.add]; exact Hmax)) as K1.
  destruct (run x0 ops) as [x1 obs1]. cbn [snd] in *. constructor; assumption.
Qed.
Print Assumptions timestampsdirect_snapshots_documented.

(* ------------------------------------------------------------------ instances *)
Import String.StringSyntax.
Open Scope string_scope.

Lemma tsd_instance_bounds : (0 <= 0 + ts_e tsd_c 0)%Z /\ (0 + elapsed ext_ops + ts_e tsd_c 0 < sec_max)%Z
  /\ (N.of_nat (length ext_ops) <= usize_max)%N.
Proof.
  split; [change (0 <= 0)%Z; lia|]. split; [change (1 < sec_max)%Z; unfold sec_max; lia | vm_compute; discriminate].
Qed.

(* six files, among them <ts>.restart-0002 *)
Example timestampsdirect_names_documented_instance :
  all_documented tsd_c (wfs (s_w (fst (run (sys0 0 0) (OStart tsd_c :: ext_ops ++ [OStop])))))
  /\ sort_names (dir_names (wfs (s_w (fst (run (sys0 0 0) (OStart tsd_c :: ext_ops ++ [OStop]))))))
     = List.map bs ["app_r1970-01-01_00-00-00.log"; "app_r1970-01-01_00-00-00.restart-0000.log";
                    "app_r1970-01-01_00-00-00.restart-0001.log"; "app_r1970-01-01_00-00-00.restart-0002.log";
                    "app_r1970-01-01_00-00-01.log"; "app_r1970-01-01_00-00-01.restart-0000.log"]
  /\ name_documented tsd_c [] (bs "app_r1970-01-01_00-00-00.restart-0002.log") = true.
Proof.
  split; [|split; vm_compute; reflexivity]. destruct tsd_instance_bounds as (B1 & B2 & B3).
  exact (timestampsdirect_names_documented tsd_c (CSize 100) 0 0 ext_ops tsd_c_ok tsd_c_tag_ok tsd_c_not_gz ext_ops_basic ext_ops_ticks
           B1 B2 B3).
Qed.

(* the snapshot inside this history (its last operation) shows the five files that exist then and the one being written *)
Example timestampsdirect_snapshots_documented_instance :
  Forall (snap_documented tsd_c) (snd (run (sys0 0 0) (OStart tsd_c :: ext_ops)))
  /\ exists link errs,
       last (snd (run (sys0 0 0) (OStart tsd_c :: ext_ops))) (ObsRes 9 false)
       = ObsSnap [ (bs "app_r1970-01-01_00-00-00.log", 0%N, bs "a");
                   (bs "app_r1970-01-01_00-00-00.restart-0000.log", 0%N, bs "b");
                   (bs "app_r1970-01-01_00-00-00.restart-0001.log", 0%N, bs "c");
                   (bs "app_r1970-01-01_00-00-00.restart-0002.log", 0%N, bs "d");
                   (bs "app_r1970-01-01_00-00-01.log", 0%N, bs "e");
                   (bs "app_r1970-01-01_00-00-01.restart-0000.log", 0%N, bs "") ] link errs.
Proof.
  split; [|vm_compute; eauto]. destruct tsd_instance_bounds as (B1 & B2 & B3).
  exact (timestampsdirect_snapshots_documented tsd_c (CSize 100) 0 0 ext_ops tsd_c_ok tsd_c_tag_ok tsd_c_not_gz ext_ops_basic ext_ops_ticks
           B1 B2 B3).
Qed.

Example timestampsdirect_names_documented_always_instance :
  all_documented tsd_c (wfs (s_w (fst (run (sys0 0 0) (OStart tsd_c :: ext_ops))))).
Proof.
  destruct tsd_instance_bounds as (B1 & B2 & B3).
  exact (timestampsdirect_names_documented_always tsd_c (CSize 100) 0 0 ext_ops tsd_c_ok tsd_c_tag_ok tsd_c_not_gz ext_ops_basic
           ext_ops_ticks B1 B2 B3).
Qed.

(* what is not documented for this naming is rejected: an rCURRENT file (TimestampsDirect has none), a number, a restart
   counter with three digits, a month 13 *)
Example tsd_rcurrent_not_documented :
  name_documented tsd_c [] (bs "app_rCURRENT.log") = false
  /\ name_documented tsd_c [] (bs "app_r00000.log") = false
  /\ name_documented tsd_c [] (bs "app_r1970-01-01_00-00-00.restart-002.log") = false
  /\ name_documented tsd_c [] (bs "app_r1970-13-01_00-00-00.log") = false
  /\ cur_infix_of tsd_c = None.
Proof. vm_compute. repeat split; reflexivity. Qed.

(* not_gz is needed, as for the other namings: with the suffix "gz" the oracle takes ".gz" for the mark of an archive and
   rejects the names the writer creates *)
Example tsd_gz_suffix_not_documented :
  let c := tsd_cfg (ex_sp "gz") false (CSize 100) None false in
  snap_of (fst (run (sys0 0 0) (OStart c :: [OWrite (bs "a"); OTrigger; OWrite (bs "b")] ++ [OStop])))
  = [ (bs "app_r1970-01-01_00-00-00.gz", 0%N, bs "a"); (bs "app_r1970-01-01_00-00-00.restart-0000.gz", 0%N, bs "b") ]
  /\ name_documented c [] (bs "app_r1970-01-01_00-00-00.gz") = false
  /\ name_documented c [] (bs "app_r1970-01-01_00-00-00.restart-0000.gz") = false
  /\ ~ not_gz c.
Proof. vm_compute. repeat split; try reflexivity. intros H; discriminate H. Qed.
