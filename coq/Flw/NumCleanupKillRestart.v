(* Numbers naming with a cleanup strategy: a new writer with the same configuration on the directory that a KILLED writer
   left behind.  It starts successfully whatever the kill point was, repairs the leftovers with its first write (the
   archive of an interrupted compression is removed - redundant_gz - and its original compressed anew if the limits say
   so; files beyond the limits are removed), and ends with a tail of (acknowledged records ++ its own records). *)
Require Import FL.Base.Bytes FL.Base.BytesFacts FL.Base.PathName FL.Fs.Fs FL.Fs.FsFacts FL.Time.Civil FL.Time.TsFormat
  FL.Names.FileSpec FL.Names.NamesFacts FL.Names.SortFacts FL.Names.FamilyFacts FL.Flw.Model FL.Flw.ModelFacts FL.Flw.NumFs
  FL.Flw.NumInv FL.Flw.Run FL.Flw.RunFacts FL.Flw.NumRun FL.Flw.NumListing FL.Oracles.O_Flw FL.Flw.NumTheorems FL.Flw.CleanupFacts
  FL.Flw.NumCleanupNames FL.Flw.NumCleanupStep FL.Flw.NumCleanupRun FL.Flw.NumRestart FL.Flw.KillFacts FL.Flw.NumKill
  FL.Flw.NumKillRestart FL.Flw.NoPanic FL.Flw.NumCleanupKillDir FL.Flw.NumCleanupKillStep FL.Flw.NumCleanupKill
  FL.Flw.NumCleanupKillListing.
From Coq Require Import ZifyN ZifyNat ZifyBool.
Open Scope nat_scope.

Section Restart.
Variables (c : config) (crit : criterion) (k : cleanup) (n m : nat).
Hypothesis Hcfg : numkcfg c crit k.
Hypothesis Hk : klim k = Some (n, m).
Hypothesis Hsfx : sfx_ok (c_spec c).

(* ------------------------------------------------------------------ the file system under rename / create of rCURRENT *)
Lemma kst_rename_cur f0 f closed cu lo mid red f1 : kst c f0 f closed (Some cu) lo mid red ->
  rename f (cname c) (rname c (length closed)) = Some f1 -> kst c f1 f1 (closed ++ [cu]) None lo mid red.
Proof.
  intros [W Nd X _] Er. destruct (xdir_cur_lookup c f closed cu lo mid red X) as (j & Lj & _). constructor.
  - exact (wf_rename _ _ _ _ W Er).
  - exact (nd_rename _ _ _ _ Er Nd).
  - eapply xdir_ext; [intros y; apply (file_of_rename f (cname c) (rname c (length closed)) j);
                       [intros E; exact (rname_not_cname c _ (eq_sym E)) | exact Lj | exact Er]|].
    apply xdir_rename_cur. exact X.
  - apply same_at_refl.
Qed.

Lemma kst_create_cur f0 f closed lo mid red now : kst c f0 f closed None lo mid red ->
  let f2 := fst (create_file f (cname c) 0%N now) in
  kst c f2 f2 closed (Some []) lo mid red /\ lookup f2 (cname c) = Some (length (inodes f))
  /\ file_of f2 (cname c) = Some (fresh_file now).
Proof.
  intros [W Nd X _] f2. assert (Lc : lookup f (cname c) = None) by (apply file_of_none; exact (xd_cur _ _ _ _ _ _ _ X)).
  assert (Ff : file_of f2 (cname c) = Some (fresh_file now)) by (unfold f2; rewrite file_of_create by exact W; apply fupd_same).
  split; [|split; [|exact Ff]].
  - constructor.
    + apply wf_create; assumption.
    + apply nd_create; assumption.
    + eapply xdir_ext; [intros y; apply file_of_create; exact W|]. apply (xdir_set_cur c _ closed None lo mid red); [exact X|]. repeat split.
    + apply same_at_refl.
  - pose proof (create_file_spec f (cname c) 0%N now) as CS. unfold create_file in CS. destruct CS as (_ & _ & La & _). exact La.
Qed.

(* ------------------------------------------------------------------ the index that the new writer reads from the directory *)
Lemma init_listing w closed ocur lo mid red :
  quiet w -> kst c (wfs w) (wfs w) closed ocur lo mid red -> (lo < length closed \/ length closed = 0) ->
  (N.of_nat (length closed) <= u32_max)%N ->
  with_listing w (fun w' =>
     match get_highest_index (woff w') (c_spec c) (fixed_of c w') (wfs w') with
     | None => None
     | Some (Some i) => Some (i + 1)%N
     | Some None => Some 0%N
     end) = (Ok (N.of_nat (length closed)), w).
Proof.
  intros Q [W Nd X _] Hlo HL. destruct Hcfg as (_ & Hts & _). unfold with_listing. rewrite tick_quiet by assumption.
  rewrite (fixed_of_fixed0 c w Hts). rewrite (highest_index_xdir c (woff w) (wfs w) closed ocur lo mid red Hsfx HL X Nd Hlo).
  destruct (length closed) as [|l]; [reflexivity|]. do 2 f_equal. lia.
Qed.

(* what the writer makes of the directory it finds, before anything is written (as init_view_o) *)
Definition init_view_k (closed : list bytes) (ocur : option bytes) : list bytes * bytes := init_view_o c (closed, ocur).

(* ------------------------------------------------------------------ initialisation on the directory of a killed writer *)
Lemma initialize_xdir w closed ocur lo mid red :
  quiet w -> kst c (wfs w) (wfs w) closed ocur lo mid red -> uncl k (length closed) lo mid ->
  (lo < length closed \/ length closed = 0) -> (N.of_nat (length closed) <= u32_max)%N ->
  exists w' wr roll,
    initialize c w = (Ok (Active (Some (mk_rsk k (NSNumR (N.of_nat (length (fst (init_view_k closed ocur))))) roll)) wr (cname c)), w')
    /\ NumKInv c w' wr (fst (init_view_k closed ocur))
         (k_lo k (length (fst (init_view_k closed ocur)))) (k_mid k (length (fst (init_view_k closed ocur))))
    /\ cur_view w' wr = snd (init_view_k closed ocur)
    /\ roll_size_ok roll (length (snd (init_view_k closed ocur)))
    /\ same_env w w'
    /\ (forall m0, crit = CSize m0 -> exists z, roll = RSize m0 z).
Proof.
  intros Q K U Hlo HL. pose proof Hcfg as (Hrot & Hts & Hlink & Has & Hbg).
  (* the naming step: index, rename *)
  assert (N1 : exists w1 cl1 oc1,
            init_naming c w NNumbers = (Ok (NSNumR (N.of_nat (length cl1)), cur_infix), w1) /\ same_env w w1
            /\ kst c (wfs w1) (wfs w1) cl1 oc1 lo mid red /\ uncl k (length cl1) lo mid
            /\ (cl1, ocb oc1) = init_view_k closed ocur /\ (oc1 <> None -> c_append c = true)).
  { unfold init_naming, index_for_rcurrent. rewrite (init_listing w closed ocur lo mid red Q K Hlo HL).
    unfold init_view_k, init_view_o. cbn [fst snd].
    destruct (c_append c) eqn:Happ; cbn [negb bind].
    - exists w, closed, ocur. split; [reflexivity|]. split; [apply same_env_refl; exact Q|]. split; [exact K|].
      split; [exact U|]. split; [destruct ocur; reflexivity | auto].
    - rewrite !(name_of_fixed c w) by assumption. fold (nm c cur_infix) (nm c (number_infix (N.of_nat (length closed)))).
      fold (cname c) (rname c (length closed)).
      pose proof (p_rename_quiet w (cname c) (rname c (length closed)) Q) as PR.
      destruct ocur as [cu|].
      + destruct (xdir_cur_lookup c _ closed cu lo mid red (ks_x _ _ _ _ _ _ _ _ K)) as (j & Lj & _).
        destruct (rename_spec (wfs w) (cname c) (rname c (length closed)) j (fun E => rname_not_cname c _ (eq_sym E)) Lj)
          as (f1 & Er & _).
        rewrite Er in PR. destruct PR as (w1 & Epr & F1 & S1). rewrite Epr. cbn [bind].
        exists w1, (closed ++ [cu]), None.
        assert (EL : length (closed ++ [cu]) = S (length closed)) by (rewrite app_length; cbn [length]; lia).
        split. { rewrite EL. replace (N.of_nat (length closed) + 1)%N with (N.of_nat (S (length closed))) by lia. reflexivity. }
        split; [exact S1|]. split; [rewrite F1; exact (kst_rename_cur _ _ _ _ _ _ _ _ K Er)|].
        split; [rewrite EL; apply uncl_grow; exact U|]. split; [reflexivity | congruence].
      + assert (Lc : lookup (wfs w) (cname c) = None) by (apply file_of_none; exact (xd_cur _ _ _ _ _ _ _ (ks_x _ _ _ _ _ _ _ _ K))).
        rewrite rename_none in PR by exact Lc. rewrite PR. cbn [bind].
        exists w, closed, None. split; [reflexivity|]. split; [apply same_env_refl; exact Q|]. split; [exact K|].
        split; [exact U|]. split; [reflexivity | congruence]. }
  destruct N1 as (w1 & cl1 & oc1 & En & S1 & K1 & U1 & Ev & Happ1).
  (* the current file is opened *)
  assert (O2 : exists w2 ino fl,
            open_log_file c w1 (Some cur_infix) = (Ok ({| wino := ino; wpend := []; wcap := c_cap c |}, cname c), w2) /\ same_env w1 w2
            /\ kst c (wfs w2) (wfs w2) cl1 (Some (ocb oc1)) lo mid red /\ lookup (wfs w2) (cname c) = Some ino
            /\ file_of (wfs w2) (cname c) = Some fl /\ fdata fl = ocb oc1).
  { unfold open_log_file. rewrite (name_of_fixed c w1) by assumption. fold (nm c cur_infix) (cname c).
    unfold do_symlink. rewrite Hlink. pose proof (proj1 S1) as Q1.
    destruct oc1 as [cu|].
    - rewrite (Happ1 ltac:(discriminate)).
      destruct (xdir_cur_lookup c _ cl1 cu lo mid red (ks_x _ _ _ _ _ _ _ _ K1)) as (j & Lj & [Gj Dj] & Cj).
      assert (Fo : file_of (wfs w1) (cname c) = Some (inode (wfs w1) j)) by (unfold file_of; rewrite Lj; reflexivity).
      assert (D1 : match file_of (wfs w1) (cname c) with Some fl => fdir fl = false | None => True end) by (rewrite Fo; exact Dj).
      destruct (p_open_quiet w1 (cname c) true Q1 D1) as [w2 [Eop [F2 S2]]]. rewrite Eop.
      assert (Eopen : open_append (wfs w1) (cname c) (wnow w1) = (wfs w1, j)) by (unfold open_append; rewrite Lj; reflexivity).
      rewrite Eopen in *. cbn [fst snd] in *.
      exists w2, j, (inode (wfs w1) j). split; [reflexivity|]. split; [exact S2|]. rewrite F2.
      split; [exact K1|]. split; [exact Lj|]. split; [exact Fo | exact Cj].
    - assert (Lc : lookup (wfs w1) (cname c) = None) by (apply file_of_none; exact (xd_cur _ _ _ _ _ _ _ (ks_x _ _ _ _ _ _ _ _ K1))).
      assert (D1 : match file_of (wfs w1) (cname c) with Some fl => fdir fl = false | None => True end).
      { unfold file_of. rewrite Lc. exact I. }
      destruct (p_open_quiet w1 (cname c) (c_append c) Q1 D1) as [w2 [Eop [F2 S2]]]. rewrite Eop.
      assert (Eopen : (if c_append c then open_append (wfs w1) (cname c) (wnow w1) else open_trunc (wfs w1) (cname c) 0%N (wnow w1))
                      = create_file (wfs w1) (cname c) 0%N (wnow w1)).
      { destruct (c_append c); [apply open_append_fresh | apply open_trunc_fresh]; exact Lc. }
      rewrite Eopen in *. clear Eopen.
      destruct (kst_create_cur _ _ _ _ _ _ (wnow w1) K1) as (K2 & L2 & F2').
      exists w2, (length (inodes (wfs w1))), (fresh_file (wnow w1)). split; [reflexivity|]. split; [exact S2|]. rewrite F2.
      split; [exact K2|]. split; [exact L2|]. split; [exact F2' | reflexivity]. }
  destruct O2 as (w2 & ino & fl & Eo & S2 & K2 & L2 & Ff2 & Dfl).
  set (wr := {| wino := ino; wpend := []; wcap := c_cap c |}) in *.
  pose proof (proj1 S2) as Q2.
  (* the rotation state *)
  assert (RN : exists roll, roll_new w2 crit (c_append c) (cname c) = (Ok roll, w2) /\ roll_size_ok roll (length (ocb oc1))
               /\ (forall m0, crit = CSize m0 -> exists z, roll = RSize m0 z)).
  { destruct (c_append c) eqn:Happ.
    - destruct (roll_new_append w2 crit (cname c) fl Q2 Ff2) as [roll [E [Z RS]]]. rewrite Dfl in Z. eauto.
    - assert (oc1 = None) by (destruct oc1; [exfalso; assert (false = true) by (apply Happ1; discriminate); discriminate | reflexivity]).
      subst oc1. apply roll_new_fresh. }
  destruct RN as (roll & Ern & Z & RS).
  (* the cleanup repairs the directory *)
  destruct (cleanup_xdir c crit k n m w2 cl1 (Some (ocb oc1)) lo mid red Hcfg Hsfx Hk Q2 K2) as (w4 & Ec & S4 & K4).
  assert (Emax : Nat.max lo (length cl1 - (n + m)) = k_lo k (length cl1) /\ Nat.max mid (length cl1 - n) = k_mid k (length cl1)).
  { destruct U1 as [U1a U1b]. unfold k_lo, k_mid in *. rewrite Hk in *. lia. }
  destruct Emax as [-> ->] in K4.
  destruct (kst_numkinv c w4 (wfs w2) (wfs w4) wr cl1 _ _ (ocb oc1) (proj1 S4) K4 L2) as [I4 V4].
  { unfold wr_ok, wr. cbn. destruct (c_cap c); [lia | reflexivity]. } { reflexivity. } { reflexivity. }
  assert (I4' : NumKInv c w4 wr cl1 (k_lo k (length cl1)) (k_mid k (length cl1)))
    by (apply (numkinv_env c (set_fs w4 (wfs w4))); [exact I4 | reflexivity | exact (proj1 S4)]).
  assert (V4' : cur_view w4 wr = ocb oc1) by exact V4.
  assert (Ecl : forall d, match k with KNever => (Ok tt, w2) | _ => cleanup_impl c w2 k (ns_filter (NSNumR (N.of_nat (length cl1)))) (if naming_writes_direct NNumbers then Some d else None) end
                = cleanup_impl c w2 k IFNum None) by (intros d; destruct k; reflexivity).
  assert (Ebg : match k with KNever => false | _ => c_bg c end = false) by (destruct k; auto).
  unfold initialize. rewrite Hrot, En. cbn [bind]. rewrite Eo. cbn [bind]. rewrite Ern. cbn [bind]. rewrite Ecl, Ec. cbn [bind]. rewrite Ebg.
  assert (E1 : fst (init_view_k closed ocur) = cl1) by (rewrite <- Ev; reflexivity).
  assert (E2 : snd (init_view_k closed ocur) = ocb oc1) by (rewrite <- Ev; reflexivity).
  rewrite E1, E2. exists w4, wr, roll. split; [reflexivity|]. split; [exact I4'|]. split; [exact V4'|]. split; [exact Z|].
  split; [|exact RS]. eapply same_env_trans; [exact S1|]. eapply same_env_trans; eassumption.
Qed.

(* ------------------------------------------------------------------ a writer that has not written yet *)
(* the directory, with the closed files numbered as the next writer will number them *)
Definition Based (f : fs) (cl : list bytes) (oc : option bytes) : Prop :=
  exists lo mid red, kst c f f cl oc lo mid red /\ uncl k (length cl) lo mid /\ (lo < length cl \/ length cl = 0).

(* when no closed file is left (possible with both limits 0 only), the numbering starts again *)
Lemma xd_rebase f cl oc : XD c k f cl oc ->
  exists pre cl', Based f cl' oc /\ concat cl = pre ++ concat cl' /\ (pre = [] \/ n + m = 0) /\ length cl' <= length cl.
Proof.
  intros (lo & mid & red & W & Nd & X & U). pose proof (xd_le _ _ _ _ _ _ _ X) as Hle.
  destruct (Nat.lt_ge_cases lo (length cl)) as [Hlt|Hge].
  - exists [], cl. split; [|split; [reflexivity | split; [left; reflexivity | lia]]].
    exists lo, mid, red. split; [|split; [exact U | left; exact Hlt]]. constructor; auto. apply same_at_refl.
  - assert (lo = length cl) by lia. assert (mid = length cl) by lia. subst lo mid.
    assert (red = None).
    { destruct red as [b|]; [|reflexivity]. destruct (xd_red _ _ _ _ _ _ _ X) as [Hm _]. lia. }
    subst red. exists (concat cl), []. split; [|split; [cbn [concat]; rewrite app_nil_r; reflexivity | split; [|cbn; lia]]].
    + exists 0, 0, None. split; [|split; [split; lia | right; reflexivity]].
      constructor; [exact W | exact Nd | apply (xdir_rebase c _ cl oc X) | apply same_at_refl].
    + destruct U as [U _]. unfold k_lo in U. rewrite Hk in U. destruct cl as [|x cl]; [left; reflexivity|]. right. cbn [length] in U. lia.
Qed.

Definition PreK (x : sys) (v : oview) : Prop :=
  s_tl x = [] /\ wacts (s_w x) = 0 /\ s_flw x = Some (new_flw c) /\ quiet (s_w x) /\ Based (wfs (s_w x)) (fst v) (snd v).

Lemma first_write_k x v b :
  PreK x v -> (N.of_nat (length (fst v)) <= u32_max)%N ->
  exists w' s' rot,
    write_buffer (new_flw c) (s_w x) b = (Ok tt, w', s', rot)
    /\ RelK c crit k {| s_flw := Some s'; s_w := w'; s_tl := []; s_dead := s_dead x |}
           (a_step (Some (init_view_o c v)) (OWrite b) rot).
Proof.
  intros (Ht & Ha & Es & Q & (lo & mid & red & K & U & Hlo)) HL. destruct v as [cl oc]. cbn [fst snd] in *.
  destruct (initialize_xdir (s_w x) cl oc lo mid red Q K U Hlo HL) as (w1 & wr & roll & Ei & I & V & Z & S1 & RS).
  unfold init_view_k in *. destruct (init_view_o c (cl, oc)) as [cl1 cu1] eqn:Ev. cbn [fst snd] in *.
  assert (Hl1 : length cl1 <= S (length cl)).
  { unfold init_view_o in Ev. cbn [fst snd] in Ev. destruct oc as [cu|]; [destruct (c_append c)|]; injection Ev as <- _;
      rewrite ?app_length; cbn [length]; lia. }
  assert (Z0 : roll_size_ok roll (length (cur_view w1 wr))) by (rewrite V; exact Z).
  assert (Hs : rotation_necessary w1 roll = true -> kside c k (S (length cl1))).
  { intros _. unfold kside. rewrite Hk. exact Hsfx. }
  destruct (NumCleanupRun.write_active_k c crit k w1 wr cl1 roll b Hcfg I Z0 Hs) as [w' [wr' [roll' [closed' [E [I' [Z' [S' [V' [R' _]]]]]]]]]].
  exists w', (st_ofk c k (length closed') roll' wr'), (rotation_necessary w1 roll).
  split. { rewrite (write_buffer_init c (s_w x) b _ _ _ w1 Ei). exact E. }
  split; [reflexivity|]. split; [cbn [s_w]; exact (same_env_acts _ _ (same_env_trans _ _ _ S1 S') Ha)|].
  cbn [a_step]. rewrite V in V'.
  destruct (rotation_necessary w1 roll); injection V' as <- V''; (exists wr', roll'; cbn [s_flw s_w];
    split; [reflexivity|]; split; [exact I'|]; split; [exact V''|]; split; [rewrite <- V''; exact Z'|];
    intros m0 Hm; destruct (RS m0 Hm) as [z ->]; destruct (R' m0 z eq_refl) as [z' ->]; eauto).
Qed.

(* ------------------------------------------------------------------ one run on the directory of a killed writer *)
Definition GRelK (x : sys) (v : oview) (a : aview) : Prop :=
  match a with None => PreK x v | Some _ => RelK c crit k x a end.

(* a bound for the number of closed files *)
Definition gp (v : oview) (a : aview) : nat := match a with None => S (length (fst v)) | Some (cl, _) => length cl end.

Lemma gp_step v a o rot : gp v (g_step_o c v a o rot) <= S (gp v a).
Proof.
  destruct a as [[cl cu]|].
  - cbn [g_step_o gp]. pose proof (a_step_apot (Some (cl, cu)) o rot) as H. cbn [apot] in H.
    destruct (a_step (Some (cl, cu)) o rot) as [[cl' cu']|] eqn:E; cbn [gp apot] in *; [lia|].
    destruct (a_step_some (cl, cu) o rot) as [q Eq]. congruence.
  - assert (Hi : length (fst (init_view_o c v)) <= S (length (fst v))).
    { unfold init_view_o. destruct (snd v) as [cu|]; [destruct (c_append c)|]; cbn [fst]; rewrite ?app_length; cbn [length]; lia. }
    destruct o; cbn [g_step_o gp]; try lia; destruct (init_view_o c v) as [cl1 cu1]; cbn [fst a_step] in *;
      destruct rot; cbn [gp]; rewrite ?app_length; cbn [length]; lia.
Qed.

Lemma step_sync_prek x v o : PreK x v -> step x o = sync_step x o.
Proof.
  intros (_ & _ & Es & _). destruct Hcfg as (_ & Hts & _ & Ha & _). apply (step_sync_cfg x o (new_flw c) Es); assumption.
Qed.

Lemma gstep_rel_k x v a o :
  GRelK x v a -> basic_op o -> (N.of_nat (length (fst v)) <= u32_max)%N ->
  let '(x', ob) := step x o in GRelK x' v (g_step_o c v a o (rot_of ob)) /\ obs_ok ob.
Proof.
  intros G Ho HL. destruct a as [p|].
  - cbn [GRelK g_step_o] in *. pose proof (step_rel_k c crit k x (Some p) o Hcfg G Ho) as S.
    pose proof (step_rel_k_ok c crit k x (Some p) o Hcfg G Ho) as Kk.
    destruct (step x o) as [x' ob]. cbn [snd] in Kk.
    assert (Hs : kside c k (nclosed (a_step (Some p) o (rot_of ob)))).
    { unfold kside. rewrite Hk. exact Hsfx. }
    destruct (S Hs) as [R1 _]. split; [|exact (Kk Hs)].
    destruct (a_step_some p o (rot_of ob)) as [q Eq]. rewrite Eq in *. exact R1.
  - cbn [GRelK] in G. rewrite (step_sync_prek x v o G).
    pose proof G as (Ht & Ha & Es & Q & B).
    destruct o; try contradiction; cbn [sync_step].
    + (* OWrite *)
      destruct (first_write_k x v (s_tl x ++ b) G HL) as [w' [s' [rot [E R']]]].
      rewrite Es. cbn [new_flw f_poisoned]. fold (new_flw c). rewrite E. cbn [rot_of g_step_o].
      split; [|reflexivity].
      rewrite Ht in R'. cbn [app] in R'.
      destruct (a_step_some (init_view_o c v) (OWrite b) rot) as [q Eq]. rewrite Eq in *. exact R'.
    + (* OPlain *)
      destruct (first_write_k x v b G HL) as [w' [s' [rot [E R']]]].
      rewrite Es. cbn [new_flw f_poisoned]. fold (new_flw c). rewrite E. cbn [rot_of g_step_o code_of]. rewrite Ht.
      split; [|reflexivity].
      change (a_step (Some (init_view_o c v)) (OPlain b) rot) with (a_step (Some (init_view_o c v)) (OWrite b) rot).
      destruct (a_step_some (init_view_o c v) (OWrite b) rot) as [q Eq]. rewrite Eq in *. exact R'.
    + (* OFlush *)
      rewrite Es. cbn [new_flw f_poisoned flush_state f_inner rot_of g_step_o GRelK].
      split; [|reflexivity]. split; [exact Ht|]. split; [exact Ha|]. split; [reflexivity|]. split; [exact Q | exact B].
    + (* OTrigger *)
      rewrite Es. cbn [new_flw f_poisoned f_cfg f_inner mount_next with_inner rot_of g_step_o code_of GRelK].
      split; [|reflexivity]. split; [exact Ht|]. split; [exact Ha|]. split; [reflexivity|]. split; [exact Q | exact B].
    + (* OTick *)
      cbn [rot_of g_step_o GRelK]. split; [|reflexivity]. split; [exact Ht|]. split; [exact Ha|]. split; [exact Es|].
      split; [apply quiet_set_now; exact Q | exact B].
    + (* OSnap *)
      cbn [rot_of g_step_o GRelK]. split; [exact G | exact Logic.I].
Qed.

Lemma grun_rel_k v : forall ops x a, GRelK x v a -> Forall basic_op ops -> (N.of_nat (length (fst v)) <= u32_max)%N ->
  GRelK (fst (run x ops)) v (g_run_o c v a ops (snd (run x ops))) /\ Forall obs_ok (snd (run x ops)).
Proof.
  induction ops as [|o r IH]; intros x a G Hbo HL; [split; [exact G | constructor]|].
  cbn [run]. inversion Hbo as [|o' r' Ho Hr]; subst.
  pose proof (gstep_rel_k x v a o G Ho HL) as S. destruct (step x o) as [x1 ob]. destruct S as [S Kk].
  pose proof (gp_step v a o (rot_of ob)) as Hg.
  specialize (IH x1 _ S Hr HL). destruct (run x1 r) as [x2 obs]. cbn [fst snd g_run_o] in *.
  split; [apply IH | constructor; [exact Kk | apply IH]].
Qed.

Lemma start_prek x cl oc : IdleK c k x cl oc ->
  exists pre cl', PreK (fst (step x (OStart c))) (cl', oc) /\ obs_ok (snd (step x (OStart c)))
    /\ concat cl = pre ++ concat cl' /\ (pre = [] \/ n + m = 0) /\ length cl' <= length cl.
Proof.
  intros (Ht & Ha & Es & Q & X). destruct (xd_rebase _ cl oc X) as (pre & cl' & B & Ec & Hp & Hl).
  exists pre, cl'. unfold step, apply_start. rewrite Es. unfold step_core. rewrite Es. cbn [sync_step fst snd].
  split; [|split; [reflexivity | auto]].
  split; [exact Ht|]. split; [exact Ha|]. split; [reflexivity|]. split; [exact Q | exact B].
Qed.

(* the directory after the run: either untouched (nothing was written: the leftovers are still there), or repaired *)
Lemma stop_k x v a : GRelK x v a ->
  obs_ok (snd (step x OStop))
  /\ match a with
     | None => Based (wfs (s_w (fst (step x OStop)))) (fst v) (snd v)
     | Some (cl, cu) => kreader_view c (wfs (s_w (fst (step x OStop)))) cl cu (k_lo k (length cl)) (k_mid k (length cl))
     end.
Proof.
  intros G. destruct a as [[closed cur]|]; cbn [GRelK] in *.
  - pose proof (stop_rel_k c crit k x _ Hcfg G) as S. pose proof (stop_ok_k c crit k x _ Hcfg G) as Kk.
    destruct (step x OStop) as [x' ob]. cbn [fst snd] in *. subst ob. split; [reflexivity | exact S].
  - rewrite (step_sync_prek x v OStop G). destruct G as (Ht & Ha & Es & Q & B). cbn [sync_step].
    rewrite Es. cbn [new_flw f_poisoned drop_state shutdown_state f_inner fst snd s_w]. split; [reflexivity | exact B].
Qed.


(* a record was written in the run *)
Definition is_wr (o : op) : bool := match o with OWrite _ | OPlain _ => true | _ => false end.

Lemma g_run_o_some v : forall ops p obs, exists q, g_run_o c v (Some p) ops obs = Some q.
Proof.
  induction ops as [|o r IH]; intros p obs; [cbn; eauto|]. destruct obs as [|ob robs]; [cbn; eauto|].
  cbn [g_run_o g_step_o]. destruct (a_step_some p o (rot_of ob)) as [q ->]. apply IH.
Qed.

Lemma g_run_o_written v : forall ops obs, length obs = length ops -> existsb is_wr ops = true ->
  exists q, g_run_o c v None ops obs = Some q.
Proof.
  induction ops as [|o r IH]; intros obs Hl Hw; [discriminate|]. destruct obs as [|ob robs]; [discriminate|].
  cbn [g_run_o]. cbn [existsb] in Hw. destruct (is_wr o) eqn:Eo.
  - assert (E : exists q, g_step_o c v None o (rot_of ob) = Some q).
    { destruct o; try discriminate; cbn [g_step_o]; apply a_step_some. }
    destruct E as [q ->]. apply g_run_o_some.
  - assert (E : g_step_o c v None o (rot_of ob) = None) by (destruct o; try discriminate; reflexivity).
    rewrite E. apply IH; [cbn in Hl; lia | exact Hw].
Qed.

(* ---- one whole run on the directory of a killed writer ---- *)
Lemma one_run_k x cl oc ops :
  IdleK c k x cl oc -> Forall basic_op ops -> (N.of_nat (length cl) <= u32_max)%N ->
  Forall obs_ok (snd (run x (OStart c :: ops ++ [OStop])))
  /\ exists pre closed ocur lo,
       kill_view c (wfs (s_w (fst (run x (OStart c :: ops ++ [OStop]))))) closed ocur lo
       /\ (concat cl ++ ocb oc) ++ written ops = pre ++ concat closed ++ ocb ocur
       /\ lo <= length closed - (n + m)
       /\ (pre = [] \/ n + m = 0)
       /\ (existsb is_wr ops = true ->
             exists cu, ocur = Some cu /\ lo = length closed - (n + m)
               /\ kreader_view c (wfs (s_w (fst (run x (OStart c :: ops ++ [OStop]))))) closed cu lo (length closed - n)).
Proof.
  intros Id Hops HL. cbn [run]. destruct (start_prek x cl oc Id) as (pre & cl' & P0 & K0 & Ec & Hp & Hl).
  destruct (step x (OStart c)) as [x0 ob0]. cbn [fst snd] in P0, K0.
  rewrite run_app. set (v := (cl', oc)) in *.
  destruct (grun_rel_k v ops x0 None P0 Hops ltac:(cbn [fst v]; lia)) as [G1 K1]. pose proof (run_length ops x0) as Len.
  destruct (run x0 ops) as [x1 obs1]. cbn [fst snd] in *.
  destruct (stop_k x1 v _ G1) as [K2 S]. cbn [run]. destruct (step x1 OStop) as [x2 ob2]. cbn [fst snd] in *.
  split; [constructor; [exact K0|]; apply Forall_app; split; [exact K1 | constructor; [exact K2 | constructor]]|].
  pose proof (g_run_o_flat c v ops None obs1 Hops Len) as F.
  assert (Eo : oflat v = concat cl' ++ ocb oc) by reflexivity.
  pose proof (g_run_o_written v ops obs1 Len) as Wr.
  destruct (g_run_o c v None ops obs1) as [[cl2 cu2]|].
  - (* something was written: the directory has been repaired *)
    destruct S as [KD Hc]. cbn [gflat_o flat] in F. rewrite Eo in F.
    exists pre, cl2, (Some cu2), (k_lo k (length cl2)). split.
    { apply (xdir_kill_view c _ cl2 (Some cu2) _ (k_mid k (length cl2)) None). apply kdir_xdir; assumption. }
    split. { cbn [ocb]. rewrite F, Ec, <- !app_assoc. reflexivity. }
    unfold k_lo, k_mid in *. rewrite Hk in *. split; [lia|]. split; [exact Hp|].
    intros _. exists cu2. split; [reflexivity|]. split; [reflexivity|]. split; assumption.
  - (* nothing was written: the directory is as it was *)
    destruct S as (lo & mid & red & Kk & U & _). cbn [fst snd v] in Kk, U. cbn [gflat_o] in F. rewrite Eo in F.
    exists pre, cl', oc, lo. split; [exact (xdir_kill_view c _ cl' oc lo mid red (ks_x _ _ _ _ _ _ _ _ Kk))|].
    split. { rewrite F, Ec, <- !app_assoc. reflexivity. }
    split. { destruct U as [U _]. unfold k_lo in U. rewrite Hk in U. exact U. }
    split; [exact Hp|]. intros Hw. destruct (Wr Hw) as [q Eq]. discriminate Eq.
Qed.

End Restart.

(* ------------------------------------------------------------------ Theorem 2 *)
(* The killed writer's directory (any history, ANY kill point) and then a new writer with the same configuration:
   - every operation of the new writer succeeds (no error, no panic) - whatever leftovers there are: no rCURRENT, an
     unfinished archive next to its original, a complete archive whose original was not removed yet, more files than the limits allow;
   - the final directory, read as the reader does, holds a tail of  acknowledged records ++ the new writer's records, at least
     as long as the limits allow (pre is what is missing at the old end; with n + m > 0 the bookkeeping is exact: pre = [] and
     concat closed ++ rCURRENT is the whole stream);
   - once the new writer has written a record, the leftovers are gone: the directory has exactly the shape that a run without
     kill leaves (kreader_view: plain files for the newest n closed files, complete archives for the next m, rCURRENT). The repair
     happens in the initialisation, which the code performs with the first write: the archive next to an original is removed
     (redundant_gz), the original is compressed again by the cleanup if it is beyond the limit for plain files.
   Side conditions: the suffix does not end with .gz; the number of the files closed by the killed writer (at most
   1 + the number of its operations) fits into u32 - the new writer reads the highest index from the directory and parses
   it as u32 (get_highest_index), as in the restart theorems without cleanup (NumRestart.v, NumKillRestart.v).  The order
   of the listing needs no bound any more. *)
Theorem numbers_cleanup_kill_restart c crit k n m t0 off ops1 kp ops2 ops3 :
  numkcfg c crit k -> klim k = Some (n, m) -> c_cap c = None -> sfx_ok (c_spec c) ->
  Forall basic_op ops1 -> Forall basic_op ops2 -> Forall basic_op ops3 ->
  (N.of_nat (S (length ops1 + length ops2)) <= u32_max)%N ->
  let x1 := fst (run (sys0 t0 off) (OStart c :: ops1 ++ [OSetKill kp])) in
  let xk := fst (run (sys0 t0 off) (OStart c :: ops1 ++ [OSetKill kp] ++ ops2 ++ [OCrash])) in
  let r2 := run xk (OStart c :: ops3 ++ [OStop]) in
  Forall obs_ok (snd r2)
  /\ exists pre closed ocur lo,
       kill_view c (wfs (s_w (fst r2))) closed ocur lo
       /\ written ops1 ++ acked x1 ops2 ++ written ops3 = pre ++ concat closed ++ ocb ocur
       /\ written ops1 ++ acked x1 ops2 ++ written ops3 = (pre ++ concat (firstn lo closed)) ++ kv_stream closed ocur lo
       /\ lo <= length closed - (n + m)
       /\ (pre = [] \/ n + m = 0)
       /\ (existsb is_wr ops3 = true ->
             exists cu, ocur = Some cu /\ lo = length closed - (n + m)
               /\ kreader_view c (wfs (s_w (fst r2))) closed cu lo (length closed - n)).
Proof.
  intros Hcfg Hk Hcap Hsfx Hb1 Hb2 Hb3 HL x1 xk r2.
  destruct (kill_history_k c crit k n m Hcfg Hk Hcap Hsfx t0 off ops1 kp ops2 Hb1 Hb2) as (cl & oc & Id & F & Len).
  fold xk in Id. fold x1 in F.
  destruct (one_run_k c crit k n m Hcfg Hk Hsfx xk cl oc ops3 Id Hb3 ltac:(lia)) as [Kk (pre & closed & ocur & lo & V & E & Hlo & Hp & Hr)].
  split; [exact Kk|]. exists pre, closed, ocur, lo. rewrite F in E.
  assert (E' : written ops1 ++ acked x1 ops2 ++ written ops3 = pre ++ concat closed ++ ocb ocur) by (rewrite <- E, <- app_assoc; reflexivity).
  split; [exact V|]. split; [exact E'|]. split; [|auto].
  rewrite E'. rewrite <- app_assoc. f_equal. apply kv_stream_tail.
Qed.
Print Assumptions numbers_cleanup_kill_restart.
