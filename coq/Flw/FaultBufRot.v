(* C19 for the buffered write modes WITH rotation: the model does what the specification FaultBufRotSpec.simrb_run says -
   for EVERY fault oracle and EVERY history of log calls, flushes and the final drop (Numbers naming, size criterion,
   a BufWriter of any capacity n, no cleanup, synchronous, no symlink, no start-time part; with and without append). *)
Require Import FL.Base.Bytes FL.Base.BytesFacts FL.Base.PathName FL.Fs.Fs FL.Fs.FsFacts FL.Time.Civil FL.Time.TsFormat
  FL.Names.FileSpec FL.Names.NamesFacts FL.Flw.Model FL.Flw.ModelFacts FL.Flw.NumFs FL.Flw.NumInv FL.Flw.Run FL.Flw.RunFacts
  FL.Flw.NumRun FL.Flw.NumListing FL.Oracles.O_Flw FL.Flw.NumTheorems FL.Flw.NumRestart FL.Flw.KillFacts FL.Flw.NumKill
  FL.Flw.NumKillRestart FL.Flw.FaultFacts FL.Flw.FaultRotSpec FL.Flw.FaultRotation FL.Flw.FaultBufSpec FL.Flw.FaultBuffered
  FL.Flw.FaultBufRotSpec.
From Coq Require Import ZifyN ZifyNat ZifyBool.
Open Scope nat_scope.

Section BufRot.
Variables (c : config) (n : nat) (m : N).
Hypothesis Hcfg : numcfg c (CSize m).
Hypothesis Hcap : c_cap c = Some n.

(* the invariant NumInv looks at the writer's inode, capacity and the size of its buffer only *)
Lemma numinv_wr q wr wr' cl : NumInv c q wr cl -> wino wr' = wino wr -> wcap wr' = wcap wr -> wr_ok wr' -> NumInv c q wr' cl.
Proof.
  intros [Q W Hc Hcp Hcl Hon Hwr Hcp'] Ei Ec Ho. constructor; try assumption; try (rewrite Ei; assumption). rewrite Ec. exact Hcp'.
Qed.

(* the writer with an empty buffer stands for the file in the invariant AInv of FaultRotation *)
Definition w0 (ino : nat) : writer := bwr n ino [].

Lemma ainv_append_b old q q' ino cl d b : AInv c old q (w0 ino) cl d -> quiet q' -> wfs q' = append_ino (wfs q) ino b ->
  AInv c old q' (w0 ino) cl (d ++ b).
Proof.
  intros A Q' F. destruct old; cbn [AInv] in *.
  - destruct A as [q0 [I [V R]]]. pose proof (ni_quiet _ _ _ _ I) as Q0.
    destruct (numinv_append c q0 (set_fs q0 (append_ino (wfs q0) ino b)) (w0 ino) (w0 ino) cl b I eq_refl
                (same_env_set_fs q0 _ Q0) eq_refl eq_refl (ni_wr _ _ _ _ I)) as [I2 C2].
    exists (set_fs q0 (append_ino (wfs q0) ino b)). split; [exact I2|]. split.
    + unfold cur_view in *. cbn [w0 bwr wino wpend concat] in *. rewrite C2, app_nil_r in *. rewrite V. reflexivity.
    + cbn [set_fs wfs]. rewrite F. apply rename_append. exact R.
  - destruct A as [I V].
    assert (I' : NumInv c (set_fs q' (wfs q)) (w0 ino) cl) by exact (numinv_env c q (set_fs q' (wfs q)) (w0 ino) cl I eq_refl (quiet_set_fs q' _ Q')).
    assert (S : same_env (set_fs q' (wfs q)) q') by (unfold same_env; cbn; repeat split; try apply Q'; reflexivity).
    destruct (numinv_append c (set_fs q' (wfs q)) q' (w0 ino) (w0 ino) cl b I' F S eq_refl eq_refl (ni_wr _ _ _ _ I)) as [I2 C2].
    split; [exact I2|]. unfold cur_view in *. cbn [set_fs wfs w0 bwr wino wpend concat] in *. rewrite C2, app_nil_r in *. rewrite V. reflexivity.
Qed.

(* the creation of the new rCURRENT completes a rotation; x is what the flush of the old writer still brought into the
   old file *)
Lemma ainv_create_b q ino cl d x q3 now : AInv c true q (w0 ino) cl d -> quiet q3 -> length x <= n ->
  wfs q3 = append_ino (fst (create_file (wfs q) (cname c) 0%N now)) ino x ->
  AInv c false q3 (w0 (snd (create_file (wfs q) (cname c) 0%N now))) (cl ++ [d ++ x]) [].
Proof.
  intros [q0 [I [V R]]] Q3 Hx F3.
  assert (Ix : NumInv c q0 {| wino := ino; wpend := x; wcap := Some n |} cl).
  { apply (numinv_wr q0 (w0 ino)); [exact I | reflexivity | reflexivity | exact Hx]. }
  destruct (rotate_numinv c q0 _ cl now Ix) as [f1 [Er [L1 RI]]]. rewrite Er in R. injection R as R. rewrite <- R in *.
  destruct (RI q3 Q3 F3) as [I3 [V3 _]]. cbn [wino wpend] in *. rewrite Hcap in I3, V3.
  unfold cur_view in V, I3. cbn [w0 bwr wino wpend concat] in *. rewrite app_nil_r in V. rewrite V in I3.
  split; assumption.
Qed.

(* ---- the rotation check of one write, computed: o is what the rename of rCURRENT finds ---- *)
Lemma mount_next_fwb q fl idx cur ino B o :
  quiet q -> rename (wfs q) (cname c) (nm c (number_infix idx)) = o ->
  let q1 := match o with Some f1 => set_fs q f1 | None => q end in
  let idx1 := match o with Some _ => (idx + 1)%N | None => idx end in
  lookup (wfs q1) (cname c) = None ->
  let wr := bwr n ino B in
  let fl1 := snd (pop fl) in
  let fl2 := snd (pop fl1) in
  let g1 := fst (wr_pop (concat B) fl2) in
  let fl3 := snd (wr_pop (concat B) fl2) in
  let g2 := if g1 then fst (wr_pop (concat B) fl3) else false in
  let fl4 := if g1 then snd (wr_pop (concat B) fl3) else fl3 in
  let cf := create_file (wfs q1) (cname c) 0%N (wnow q) in
  if (m <? cur)%N then
    if fst (pop fl) then mount_next c (fw q fl) (act c m idx cur wr) false = (Err, fw q fl1, act c m idx cur wr)
    else if fst (pop fl1) then mount_next c (fw q fl) (act c m idx cur wr) false = (Err, fw q1 fl2, act c m idx1 cur wr)
    else exists q3,
      mount_next c (fw q fl) (act c m idx cur wr) false = (Ok tt, fw q3 fl4, act c m idx1 0 (w0 (snd cf)))
      /\ reported q1 q3 (if g1 then [EFlush] else [])
      /\ wfs q3 = append_ino (fst cf) ino (if g1 && g2 then [] else concat B)
  else mount_next c (fw q fl) (act c m idx cur wr) false = (Ok tt, fw q fl, act c m idx cur wr).
Proof.
  intros Q Eo q1 idx1 L1 wr fl1 fl2 g1 fl3 g2 fl4 cf. destruct Hcfg as [Hrot [Hts [Hlink _]]].
  unfold mount_next, act. cbn [mk_rs rs_roll rs_naming rs_cleanup rs_bg orb rotation_necessary]. unfold size_rotation_necessary.
  destruct (m <? cur)%N; [|reflexivity].
  unfold index_for_rcurrent. rewrite !(name_of_fixed c (fw q fl)) by assumption.
  fold (nm c cur_infix) (nm c (number_infix idx)). fold (cname c).
  rewrite p_rename_fw by exact Q. rewrite Eo.
  unfold fl2, fl1 in *. destruct (pop fl) as [f1 fl1']; cbn [fst snd] in *. destruct f1; [reflexivity|].
  assert (Q1 : quiet q1) by (unfold q1; destruct o; [apply quiet_set_fs|]; exact Q).
  assert (N1 : wnow q1 = wnow q) by (unfold q1; destruct o; reflexivity).
  assert (X : forall ns,
    (if fst (pop fl1') then
      match open_log_file c (fw q1 fl1') (Some cur_infix) with
      | (Ok (wr', path'), w2) =>
        let '(okf, w2a, wra) := w_flush w2 wr in
        let w2b := if okf then w2a else report EFlush w2a in
        let w3 := w_drop w2b wra in
        let roll' := reset_size_and_date w3 (RSize m cur) path' in
        let '(rc, w4) := cleanup_or_queue c w3 false KNever (ns_filter ns) (if ns_writes_direct ns then Some path' else None) in
        let st' := Active (Some {| rs_naming := ns; rs_roll := roll'; rs_cleanup := KNever; rs_bg := false |}) wr' path' in
        (match rc with Ok _ => Ok tt | Err => Err | Panic => Panic end, w4, st')
      | (Err, w2) => (Err, w2, Active (Some {| rs_naming := ns; rs_roll := RSize m cur; rs_cleanup := KNever; rs_bg := false |}) wr (cname c))
      | (Panic, w2) => (Panic, w2, Active (Some {| rs_naming := ns; rs_roll := RSize m cur; rs_cleanup := KNever; rs_bg := false |}) wr (cname c))
      end = (Err, fw q1 (snd (pop fl1')), Active (Some (mk_rs ns (RSize m cur))) wr (cname c))
    else exists q3,
      match open_log_file c (fw q1 fl1') (Some cur_infix) with
      | (Ok (wr', path'), w2) =>
        let '(okf, w2a, wra) := w_flush w2 wr in
        let w2b := if okf then w2a else report EFlush w2a in
        let w3 := w_drop w2b wra in
        let roll' := reset_size_and_date w3 (RSize m cur) path' in
        let '(rc, w4) := cleanup_or_queue c w3 false KNever (ns_filter ns) (if ns_writes_direct ns then Some path' else None) in
        let st' := Active (Some {| rs_naming := ns; rs_roll := roll'; rs_cleanup := KNever; rs_bg := false |}) wr' path' in
        (match rc with Ok _ => Ok tt | Err => Err | Panic => Panic end, w4, st')
      | (Err, w2) => (Err, w2, Active (Some {| rs_naming := ns; rs_roll := RSize m cur; rs_cleanup := KNever; rs_bg := false |}) wr (cname c))
      | (Panic, w2) => (Panic, w2, Active (Some {| rs_naming := ns; rs_roll := RSize m cur; rs_cleanup := KNever; rs_bg := false |}) wr (cname c))
      end = (Ok tt, fw q3 fl4, Active (Some (mk_rs ns (RSize m 0))) (w0 (snd cf)) (cname c))
      /\ reported q1 q3 (if g1 then [EFlush] else [])
      /\ wfs q3 = append_ino (fst cf) ino (if g1 && g2 then [] else concat B))).
  { intros ns. unfold open_log_file. rewrite (name_of_fixed c (fw q1 fl1')) by assumption. fold (nm c cur_infix) (cname c).
    unfold do_symlink. rewrite Hlink. rewrite p_open_fw by exact Q1.
    subst fl4 g2 fl3 g1.
    destruct (pop fl1') as [f2 fl2']; cbn [fst snd] in *. destruct f2; [reflexivity|].
    unfold file_of at 1. rewrite L1.
    assert (Eopen : (if c_append c then open_append (wfs q1) (cname c) (wnow q1) else open_trunc (wfs q1) (cname c) 0%N (wnow q1))
                    = create_file (wfs q1) (cname c) 0%N (wnow q)).
    { rewrite N1. destruct (c_append c); [apply open_append_fresh | apply open_trunc_fresh]; exact L1. }
    rewrite Eopen. fold cf. rewrite Hcap.
    set (q2 := set_fs q1 (fst cf)). assert (Q2 : quiet q2) by (apply quiet_set_fs; exact Q1).
    (* the explicit flush *)
    destruct (w_flush_b q2 fl2' n ino B Q2) as [q2a [Ef [S2a F2a]]]. unfold wr. rewrite Ef.
    destruct (wr_pop (concat B) fl2') as [g1 fl3]. cbn [fst snd negb] in *. destruct g1; cbn [negb andb].
    - (* it fails: reported; the drop tries again *)
      rewrite report_fw by apply S2a. destruct (report_reported EFlush q2a (proj1 S2a)) as [R2b F2b].
      unfold w_drop. destruct (w_flush_b (report EFlush q2a) fl3 n ino B (proj1 R2b)) as [q3 [Ef3 [S3 F3]]]. rewrite Ef3.
      cbn [fst snd]. unfold cleanup_or_queue. cbn [cleanup_impl reset_size_and_date].
      exists q3. split; [reflexivity|]. split.
      + apply (reported_trans q1 q2 q3 [] [EFlush]); [apply same_env_reported, same_env_set_fs; exact Q1|].
        apply (reported_trans q2 q2a q3 [] [EFlush]); [apply same_env_reported; exact S2a|].
        apply (reported_trans q2a (report EFlush q2a) q3 [EFlush] []); [exact R2b | apply same_env_reported; exact S3].
      + rewrite F3, F2b, F2a, append_ino_nil_id. reflexivity.
    - unfold w_drop. destruct (w_flush_b q2a fl3 n ino [] (proj1 S2a)) as [q3 [Ef3 [S3 F3]]]. rewrite Ef3.
      cbn [fst snd concat wr_pop] in *. unfold cleanup_or_queue. cbn [cleanup_impl reset_size_and_date].
      exists q3. split; [reflexivity|]. split.
      + apply (reported_trans q1 q2 q3 [] []); [apply same_env_reported, same_env_set_fs; exact Q1|].
        apply (reported_trans q2 q2a q3 [] []); apply same_env_reported; assumption.
      + rewrite F3, append_ino_nil_id, F2a. reflexivity. }
  destruct o as [f1|]; [exact (X (NSNumR (idx + 1)%N)) | exact (X (NSNumR idx))].
Qed.

(* the accepted bytes: a record that is not lost adds its length *)
Lemma sb_write_total F B b fl :
  length (concat (st_file (o_st (sb_write n F B b fl)))) + length (concat (st_buf (o_st (sb_write n F B b fl))))
  = length (concat F) + length (concat B) + (match o_errs (sb_write n F B b fl) with [] => length b | _ => 0 end).
Proof.
  unfold sb_write.
  repeat match goal with
         | |- context [if ?x then _ else _] => match type of x with bool => destruct x end
         | |- context [let '(_, _) := ?p in _] => destruct p
         end; cbn [o_st o_errs st_file st_buf]; rewrite ?concat_app, ?app_length; cbn [concat length app]; rewrite ?app_length; cbn [length]; lia.
Qed.

(* ---- the rest of write_buffer after the rotation check ---- *)
Lemma wb_active_b q fl idx cur wr r1 q1 fl1 idx1 cur1 ino1 B1 D b :
  mount_next c (fw q fl) (act c m idx cur wr) false = (r1, fw q1 fl1, act c m idx1 cur1 (bwr n ino1 B1)) ->
  r1 <> Panic -> quiet q1 -> length (concat B1) <= n ->
  let out := sb_write n D B1 b fl1 in
  exists q3 delta,
    write_buffer (flw_of c (act c m idx cur wr)) (fw q fl) b
    = ((match o_errs out with [] => Ok tt | _ => Err end), fw q3 (o_fl out),
       flw_of c (act c m idx1 (match o_errs out with [] => (cur1 + N.of_nat (length b))%N | _ => cur1 end)
                     (bwr n ino1 (st_buf (o_st out)))), (m <? cur)%N)
    /\ reported q1 q3 (match r1 with Err => [ELogFile] | _ => [] end)
    /\ wfs q3 = append_ino (wfs q1) ino1 delta
    /\ concat (st_file (o_st out)) = concat D ++ delta
    /\ length (concat (st_buf (o_st out))) <= n
    /\ (o_errs out = [] \/ o_errs out = [EWrite]).
Proof.
  intros M Hr Q1 HB. cbv zeta. unfold act in *. unfold write_buffer, flw_of. cbn [f_cfg f_inner]. rewrite M.
  cbn [mk_rs rs_roll rotation_necessary]. unfold size_rotation_necessary.
  assert (Go : forall q2, reported q1 q2 (match r1 with Err => [ELogFile] | _ => [] end) ->
    exists q3 delta,
      (let '(ok, w3, wr') := w_write (fw q2 fl1) (bwr n ino1 B1) b in
       if ok then
         (Ok tt, w3, with_inner {| f_cfg := c; f_inner := Active (Some (mk_rs (NSNumR idx) (RSize m cur))) wr (cname c); f_poisoned := false |}
                       (Active (Some {| rs_naming := rs_naming (mk_rs (NSNumR idx1) (RSize m cur1));
                                        rs_roll := increase_size (rs_roll (mk_rs (NSNumR idx1) (RSize m cur1))) (N.of_nat (length b));
                                        rs_cleanup := rs_cleanup (mk_rs (NSNumR idx1) (RSize m cur1));
                                        rs_bg := rs_bg (mk_rs (NSNumR idx1) (RSize m cur1)) |}) wr' (cname c)), (m <? cur)%N)
       else (Err, w3, with_inner {| f_cfg := c; f_inner := Active (Some (mk_rs (NSNumR idx) (RSize m cur))) wr (cname c); f_poisoned := false |}
                        (Active (Some (mk_rs (NSNumR idx1) (RSize m cur1))) wr' (cname c)), (m <? cur)%N))
      = ((match o_errs (sb_write n D B1 b fl1) with [] => Ok tt | _ => Err end), fw q3 (o_fl (sb_write n D B1 b fl1)),
         {| f_cfg := c;
            f_inner := Active (Some (mk_rs (NSNumR idx1)
                         (RSize m (match o_errs (sb_write n D B1 b fl1) with [] => (cur1 + N.of_nat (length b))%N | _ => cur1 end))))
                         (bwr n ino1 (st_buf (o_st (sb_write n D B1 b fl1)))) (cname c);
            f_poisoned := false |}, (m <? cur)%N)
      /\ reported q1 q3 (match r1 with Err => [ELogFile] | _ => [] end)
      /\ wfs q3 = append_ino (wfs q2) ino1 delta
      /\ concat (st_file (o_st (sb_write n D B1 b fl1))) = concat D ++ delta
      /\ length (concat (st_buf (o_st (sb_write n D B1 b fl1)))) <= n
      /\ (o_errs (sb_write n D B1 b fl1) = [] \/ o_errs (sb_write n D B1 b fl1) = [EWrite])).
  { intros q2 R2.
    destruct (w_write_sb q2 fl1 n ino1 D B1 b (proj1 R2) HB) as [q3 [F' [B' [delta [Est [Hc [HB' [Ew [S [Hf [Herr Hcode]]]]]]]]]]].
    cbv zeta in *. rewrite Ew, Est. cbn [st_file st_buf]. exists q3, delta.
    split; [destruct Herr as [E|E]; rewrite E; reflexivity|].
    split. { pose proof (reported_trans _ _ _ _ _ R2 (same_env_reported _ _ S)) as R. rewrite app_nil_r in R. exact R. }
    auto. }
  destruct r1 as [[]| |]; [| |contradiction].
  - destruct (Go q1 (reported_refl q1 Q1)) as [q3 [delta [E R]]]. exists q3, delta. split; [exact E | exact R].
  - rewrite report_fw by exact Q1. destruct (report_reported ELogFile q1 Q1) as [R1 F1].
    destruct (Go (report ELogFile q1) R1) as [q3 [delta [E [R [F R']]]]]. exists q3, delta. split; [exact E|]. split; [exact R|].
    rewrite F, F1. auto.
Qed.

(* ------------------------------------------------------------------ the invariant of the run *)
Definition clb (cl : list (list bytes)) : list bytes := List.map (@concat N) cl.
Definition st_sameb (old : bool) (cl : list (list bytes)) (D B : list bytes) : rbst := if old then ROld cl D B else RCur cl D B.

Definition FInvB (x : sys) (st : rbst) (errs : list ecode) (fl : list bool) : Prop :=
  exists q, s_w x = fw q fl /\ quiet q /\ wacts q = 0 /\ werrs q = errs /\ s_tl x = [] /\
  match st with
  | RInit created =>
    s_flw x = Some (flw_of c Initial) /\ fs_wf (wfs q) /\ reader_view_opt c (wfs q) [] (if created then Some [] else None)
    /\ (created = true -> c_append c = true)
  | RCur cl D B => exists ino,
      s_flw x = Some (flw_of c (act c m (idx_of false (clb cl)) (N.of_nat (length (concat D) + length (concat B))) (bwr n ino B)))
      /\ AInv c false q (w0 ino) (clb cl) (concat D) /\ length (concat B) <= n
  | ROld cl D B => exists ino,
      s_flw x = Some (flw_of c (act c m (idx_of true (clb cl)) (N.of_nat (length (concat D) + length (concat B))) (bwr n ino B)))
      /\ AInv c true q (w0 ino) (clb cl) (concat D) /\ length (concat B) <= n
  | RStopped cl ocur =>
    s_flw x = None /\ fs_wf (wfs q) /\ reader_view_opt c (wfs q) (clb cl) (option_map (@concat N) ocur)
  end.

Lemma finvb_same x old cl D B errs fl q ino :
  s_w x = fw q fl -> quiet q -> wacts q = 0 -> werrs q = errs -> s_tl x = [] ->
  s_flw x = Some (flw_of c (act c m (idx_of old (clb cl)) (N.of_nat (length (concat D) + length (concat B))) (bwr n ino B))) ->
  AInv c old q (w0 ino) (clb cl) (concat D) -> length (concat B) <= n ->
  FInvB x (st_sameb old cl D B) errs fl.
Proof. intros. exists q. destruct old; cbn [st_sameb]; repeat (split; [assumption|]); exists ino; (split; [assumption|]); split; assumption. Qed.

(* the rotation check has been made (result r1, world q1, oracle fl1, writer on a file that holds D1, buffer B1): the write *)
Lemma tail_step_b x q fl idx cur wr r1 q1 fl1 old1 cl1 D1 B1 ino1 errs1 b :
  s_w x = fw q fl -> s_tl x = [] -> s_flw x = Some (flw_of c (act c m idx cur wr)) ->
  mount_next c (fw q fl) (act c m idx cur wr) false
    = (r1, fw q1 fl1, act c m (idx_of old1 (clb cl1)) (N.of_nat (length (concat D1) + length (concat B1))) (bwr n ino1 B1)) ->
  r1 <> Panic -> quiet q1 -> wacts q1 = 0 -> werrs q1 = errs1 -> AInv c old1 q1 (w0 ino1) (clb cl1) (concat D1) ->
  length (concat B1) <= n ->
  let out := sb_write n D1 B1 b fl1 in
  exists x' rot, step x (OWrite b) = (x', ObsRes 0 rot)
    /\ FInvB x' (st_sameb old1 cl1 (st_file (o_st out)) (st_buf (o_st out)))
             (errs1 ++ (match r1 with Err => [ELogFile] | _ => [] end) ++ o_errs out) (o_fl out).
Proof.
  intros Ew Ht Es M Hr Q1 Ha1 He1 A1 HB1. cbv zeta.
  destruct (wb_active_b q fl idx cur wr r1 q1 fl1 _ _ ino1 B1 D1 b M Hr Q1 HB1) as [q3 [delta [E [R3 [F3 [Hc [HB' Herr]]]]]]].
  cbv zeta in *. pose proof (sb_write_total D1 B1 b fl1) as Tot.
  rewrite <- Ew in E. pose proof (step_write c m Hcfg x _ b _ _ _ _ Es Ht E) as S.
  assert (A3 : AInv c old1 q3 (w0 ino1) (clb cl1) (concat (st_file (o_st (sb_write n D1 B1 b fl1))))).
  { rewrite Hc. apply (ainv_append_b old1 q1); [exact A1 | apply R3 | exact F3]. }
  destruct Herr as [Hr0|Hr0]; rewrite Hr0 in *.
  - eexists _, _. split; [apply S; discriminate|]. rewrite app_nil_r.
    apply (finvb_same _ old1 cl1 _ _ _ _ q3 ino1); cbn [s_w s_tl s_flw].
    + reflexivity.
    + apply R3.
    + exact (reported_acts _ _ _ R3 Ha1).
    + exact (reported_errs _ _ _ _ R3 He1).
    + reflexivity.
    + rewrite Tot. rewrite (Nat2N.inj_add (length (concat D1) + length (concat B1)) (length b)). reflexivity.
    + exact A3.
    + exact HB'.
  - eexists _, _. split; [apply S; discriminate|].
    destruct (report_reported EWrite q3 (proj1 R3)) as [R4 F4].
    pose proof (reported_trans _ _ _ _ _ R3 R4) as R.
    apply (finvb_same _ old1 cl1 _ _ _ _ (report EWrite q3) ino1); cbn [s_w s_tl s_flw].
    + apply report_fw. apply R3.
    + apply R.
    + exact (reported_acts _ _ _ R Ha1).
    + rewrite (reported_errs _ _ _ _ R He1). reflexivity.
    + reflexivity.
    + rewrite Tot, Nat.add_0_r. reflexivity.
    + apply (ainv_env c old1 q3); [exact A3 | exact F4 | apply R].
    + exact HB'.
Qed.

Lemma same_eq (old : bool) cl D B : (if old then ROld cl else RCur cl) D B = st_sameb old cl D B.
Proof. destruct old; reflexivity. Qed.

Lemma clb_snoc cl X : clb (cl ++ [X]) = clb cl ++ [concat X].
Proof. unfold clb. rewrite map_app. reflexivity. Qed.

(* one record on an initialised writer *)
Lemma active_step_b x old q fl errs cl D B ino b :
  s_w x = fw q fl -> quiet q -> wacts q = 0 -> werrs q = errs -> s_tl x = [] ->
  s_flw x = Some (flw_of c (act c m (idx_of old (clb cl)) (N.of_nat (length (concat D) + length (concat B))) (bwr n ino B))) ->
  AInv c old q (w0 ino) (clb cl) (concat D) -> length (concat B) <= n ->
  let out := rb_active n m old cl D B b fl in
  exists x' rot, step x (OWrite b) = (x', ObsRes (r_code out) rot) /\ FInvB x' (r_st out) (errs ++ r_errs out) (r_fl out).
Proof.
  intros Ew Q Ha He Ht Es A HB. cbv zeta.
  destruct (ainv_rename c old q (w0 ino) (clb cl) (concat D) A) as [o [Eo Ho]]. cbv zeta in Ho. destruct Ho as [L1 [A1 Ei]].
  pose proof (mount_next_fwb q fl (idx_of old (clb cl)) (N.of_nat (length (concat D) + length (concat B))) ino B o Q Eo L1) as M.
  cbv zeta in M. rewrite Ei in M.
  set (q1 := match o with Some f1 => set_fs q f1 | None => q end) in *.
  assert (Q1 : quiet q1) by (unfold q1; destruct o; [apply quiet_set_fs|]; exact Q).
  assert (Ha1 : wacts q1 = 0) by (unfold q1; destruct o; exact Ha).
  assert (He1 : werrs q1 = errs) by (unfold q1; destruct o; exact He).
  unfold rb_active.
  destruct (m <? N.of_nat (length (concat D) + length (concat B)))%N.
  - destruct (pop fl) as [f1 fl1]. cbn [fst snd] in M. destruct f1.
    + (* the rename fails *)
      destruct (tail_step_b x q fl _ _ _ Err q fl1 old cl D B ino errs b Ew Ht Es M (fun H => ltac:(discriminate H)) Q Ha He A HB)
        as [x' [rot [S I]]].
      exists x', rot. unfold rb_write. cbn [r_st r_errs r_fl r_code app]. rewrite same_eq. split; [exact S | exact I].
    + destruct (pop fl1) as [f2 fl2]. cbn [fst snd] in M. destruct f2.
      * (* the new current file cannot be created *)
        destruct (tail_step_b x q fl _ _ _ Err q1 fl2 true cl D B ino errs b Ew Ht Es M (fun H => ltac:(discriminate H)) Q1 Ha1 He1 A1 HB)
          as [x' [rot [S I]]].
        exists x', rot. unfold rb_write. cbn [r_st r_errs r_fl r_code app]. split; [exact S | exact I].
      * (* the rotation is completed; the old buffer is flushed (twice if need be) *)
        destruct M as [q3 [M [R3 F3]]].
        set (cf := create_file (wfs q1) (cname c) 0%N (wnow q)) in *.
        (* whatever the flush brought into the old file (x), the new writer starts on an empty file *)
        assert (Fin : forall (X : list bytes) (xb : bytes) (e0 : list ecode) (lost0 : list bytes) fl4,
                  wfs q3 = append_ino (fst cf) ino xb -> length xb <= n -> concat X = concat D ++ xb -> reported q1 q3 e0 ->
                  mount_next c (fw q fl) (act c m (idx_of old (clb cl)) (N.of_nat (length (concat D) + length (concat B))) (bwr n ino B)) false
                    = (Ok tt, fw q3 fl4, act c m (idx_of true (clb cl)) 0 (w0 (snd cf))) ->
                  exists x' rot, step x (OWrite b) = (x', ObsRes (r_code (rb_write n (RCur (cl ++ [X])) [] [] b e0 fl4 lost0)) rot)
                    /\ FInvB x' (r_st (rb_write n (RCur (cl ++ [X])) [] [] b e0 fl4 lost0))
                             (errs ++ r_errs (rb_write n (RCur (cl ++ [X])) [] [] b e0 fl4 lost0))
                             (r_fl (rb_write n (RCur (cl ++ [X])) [] [] b e0 fl4 lost0))).
        { intros X xb e0 lost0 fl4 Fx Hx Hc R M4.
          assert (A3 : AInv c false q3 (w0 (snd cf)) (clb (cl ++ [X])) (concat [])).
          { rewrite clb_snoc, Hc. apply (ainv_create_b q1 ino (clb cl) (concat D) xb q3 (wnow q) A1 (proj1 R) Hx Fx). }
          assert (Ei3 : idx_of true (clb cl) = idx_of false (clb (cl ++ [X])))
            by (cbn [idx_of]; rewrite clb_snoc, app_length; cbn [length]; lia).
          rewrite Ei3 in M4.
          destruct (tail_step_b x q fl _ _ _ (Ok tt) q3 fl4 false (cl ++ [X]) [] [] (snd cf) (errs ++ e0) b Ew Ht Es M4
                      (fun H => ltac:(discriminate H)) (proj1 R) (reported_acts _ _ _ R Ha1) (reported_errs _ _ _ _ R He1) A3 (Nat.le_0_l n))
            as [x' [rot [S I]]].
          exists x', rot. unfold rb_write. cbn [r_st r_errs r_fl r_code app]. cbn [st_sameb app] in I.
          split; [exact S|]. rewrite app_assoc. exact I. }
        destruct (wr_pop (concat B) fl2) as [g1 fl3]. cbn [fst snd andb] in *. destruct g1.
        -- destruct (wr_pop (concat B) fl3) as [g2 fl4]. cbn [fst snd andb] in *. destruct g2.
           ++ apply (Fin D [] [EFlush] B fl4); [exact F3 | cbn; lia | rewrite app_nil_r; reflexivity | exact R3 | exact M].
           ++ apply (Fin (D ++ B) (concat B) [EFlush] [] fl4); [exact F3 | exact HB | apply concat_app | exact R3 | exact M].
        -- apply (Fin (D ++ B) (concat B) [] [] fl3); [exact F3 | exact HB | apply concat_app | exact R3 | exact M].
  - destruct (tail_step_b x q fl _ _ _ (Ok tt) q fl old cl D B ino errs b Ew Ht Es M (fun H => ltac:(discriminate H)) Q Ha He A HB)
      as [x' [rot [S I]]].
    exists x', rot. unfold rb_write. cbn [r_st r_errs r_fl r_code app]. rewrite same_eq. split; [exact S | exact I].
Qed.

(* ------------------------------------------------------------------ the initialisation *)
Lemma numinv_of_view_b w cl cu j : quiet w -> fs_wf (wfs w) -> reader_view_opt c (wfs w) cl (Some cu) ->
  lookup (wfs w) (cname c) = Some j -> AInv c false w (w0 j) cl cu.
Proof.
  intros Q W [Hcl [[j' [Lj [Pj Cj]]] Hon]] L. assert (j' = j) by congruence. subst j'. split.
  - constructor; cbn [w0 bwr wino wpend wcap concat]; try assumption.
    + unfold wr_ok. cbn. lia.
    + symmetry. exact Hcap.
  - unfold cur_view. cbn [w0 bwr wino wpend concat]. rewrite app_nil_r. exact Cj.
Qed.

Lemma initialize_fwb q fl (created : bool) :
  quiet q -> fs_wf (wfs q) -> reader_view_opt c (wfs q) [] (if created then Some [] else None) ->
  (created = true -> c_append c = true) ->
  match s_init_pops (c_append c) fl with
  | (Some k, fl') =>
    exists q', initialize c (fw q fl) = (Err, fw q' fl') /\ same_env q q' /\ fs_wf (wfs q')
      /\ reader_view_opt c (wfs q') [] (if created || k then Some [] else None) /\ (created || k = true -> c_append c = true)
  | (None, fl') =>
    exists q' ino, initialize c (fw q fl) = (Ok (act c m 0 0 (w0 ino)), fw q' fl') /\ same_env q q' /\ AInv c false q' (w0 ino) [] []
  end.
Proof.
  intros Q W R Hc. pose proof Hcfg as [Hrot [Hts [Hlink _]]].
  assert (Fail : forall fl', exists q', (Err : res inner, fw q fl') = (Err, fw q' fl') /\ same_env q q' /\ fs_wf (wfs q')
      /\ reader_view_opt c (wfs q') [] (if created || false then Some [] else None) /\ (created || false = true -> c_append c = true)).
  { intros fl'. exists q. rewrite Bool.orb_false_r. split; [reflexivity|]. split; [apply same_env_refl; exact Q|]. auto. }
  unfold initialize. rewrite Hrot. unfold init_naming, index_for_rcurrent, with_listing. rewrite tick_fw.
  unfold s_init_pops. destruct (pop fl) as [f1 fl1]. cbn [fst snd]. destruct f1; [cbn [bind]; apply Fail|].
  rewrite fixed_of_fixed by assumption. change (woff (fw q fl1)) with (woff q). change (wfs (fw q fl1)) with (wfs q).
  rewrite (highest_index_view_opt c (woff q) (wfs q) [] _ R) by (cbn [length]; apply N.le_0_l). cbn [length].
  assert (E0 : (if negb (c_append c)
                then let '(r, w1) := p_rename (fw q fl1) (name_of c (fw q fl1) (Some cur_infix)) (name_of c (fw q fl1) (Some (number_infix 0))) in
                     match r with ROk => (Ok (0 + 1)%N, w1) | RNotFound => (Ok 0%N, w1) | RErr => (Err, w1) end
                else (Ok 0%N, fw q fl1))
               = (let '(f2, fl2) := if c_append c then (false, fl1) else pop fl1 in
                  if f2 then (Err, fw q fl2) else (Ok 0%N, fw q fl2))).
  { destruct (c_append c) eqn:Happ; cbn [negb]; [reflexivity|].
    rewrite p_rename_fw by exact Q. destruct (pop fl1) as [f2 fl2]. cbn [fst snd]. destruct f2; [reflexivity|].
    rewrite rename_none; [reflexivity|]. rewrite (name_of_fixed c (fw q fl1)) by assumption. fold (nm c cur_infix) (cname c).
    destruct created; [discriminate (Hc eq_refl)|]. apply R. }
  rewrite E0. clear E0.
  destruct (if c_append c then (false, fl1) else pop fl1) as [f2 fl2]. destruct f2; [cbn [bind]; apply Fail|]. cbn [bind].
  destruct (open_init c m Hcfg q fl2 created Q W R Hc) as [f2 [ino [Eop [W2 [R2 L2]]]]]. rewrite Eop.
  destruct (pop fl2) as [f3 fl3]. cbn [fst snd]. destruct f3; [cbn [bind]; apply Fail|]. cbn [bind].
  set (q2 := set_fs q f2). assert (Q2 : quiet q2) by (apply quiet_set_fs; exact Q).
  pose proof R2 as [_ [[j [Lj [Pj Cj]]] _]]. assert (j = ino) by congruence. subst j.
  assert (RN : roll_new (fw q2 fl3) (CSize m) (c_append c) (cname c)
               = (let '(f4, fl4) := if c_append c then pop fl3 else (false, fl3) in
                  if f4 then (Err, fw q2 fl4) else (Ok (RSize m 0), fw q2 fl4))).
  { unfold roll_new. destruct (c_append c); [|reflexivity]. rewrite tick_fw. destruct (pop fl3) as [f4 fl4]. cbn [fst snd].
    destruct f4; [reflexivity|]. change (wfs (fw q2 fl4)) with f2. unfold file_of. rewrite L2.
    unfold content in Cj. rewrite Cj. reflexivity. }
  rewrite RN. clear RN.
  destruct (if c_append c then pop fl3 else (false, fl3)) as [f4 fl4] eqn:E4. destruct f4; cbn [bind].
  - exists q2. rewrite Bool.orb_true_r. split; [reflexivity|]. split; [apply same_env_set_fs; exact Q|].
    split; [exact W2|]. split; [exact R2|]. intros _. destruct (c_append c); [reflexivity | discriminate E4].
  - exists q2, ino. rewrite Hcap. split; [reflexivity|]. split; [apply same_env_set_fs; exact Q|].
    exact (numinv_of_view_b q2 [] [] ino Q2 W2 R2 L2).
Qed.

(* one record on a writer that is not initialised *)
Lemma init_step_b x created errs fl b : FInvB x (RInit created) errs fl ->
  let out := rb_init n (c_append c) m created b fl in
  exists x' rot, step x (OWrite b) = (x', ObsRes (r_code out) rot) /\ FInvB x' (r_st out) (errs ++ r_errs out) (r_fl out).
Proof.
  intros [q [Ew [Q [Ha [He [Ht [Es [W [R Hc]]]]]]]]]. cbv zeta. unfold rb_init.
  pose proof (initialize_fwb q fl created Q W R Hc) as IF.
  destruct (s_init_pops (c_append c) fl) as [[k|] fl'].
  - destruct IF as [q' [Ei [S [W' [R' Hc']]]]].
    assert (E : write_buffer (flw_of c Initial) (s_w x) b = (Err, fw q' fl', flw_of c Initial, false)).
    { rewrite Ew. unfold write_buffer. cbn [flw_of f_cfg f_inner]. rewrite Ei. reflexivity. }
    eexists _, _. split; [apply (step_write c m Hcfg x Initial b Err _ Initial false Es Ht E); discriminate|].
    cbn [r_st r_errs r_fl].
    destruct (report_reported EWrite q' (proj1 S)) as [R4 F4].
    pose proof (reported_trans _ _ _ _ _ (same_env_reported _ _ S) R4) as RR. cbn [app] in RR.
    exists (report EWrite q'). cbn [s_w s_tl s_flw].
    split; [apply report_fw; apply S|]. split; [apply R4|]. split; [exact (reported_acts _ _ _ RR Ha)|].
    split; [exact (reported_errs _ _ _ _ RR He)|]. split; [reflexivity|]. split; [reflexivity|].
    rewrite F4. auto.
  - destruct IF as [q' [ino [Ei [S A]]]].
    set (x1 := {| s_flw := Some (flw_of c (act c m 0 0 (w0 ino))); s_w := fw q' fl'; s_tl := []; s_dead := s_dead x |}).
    assert (E : step x (OWrite b) = step x1 (OWrite b)).
    { apply (FaultRotation.step_write_eq c m Hcfg x x1 Initial (act c m 0 0 (w0 ino)) b Es eq_refl Ht eq_refl eq_refl). rewrite Ew. cbn [x1 s_w].
      exact (write_buffer_init c (fw q fl) b _ (w0 ino) (cname c) (fw q' fl') Ei). }
    rewrite E.
    apply (active_step_b x1 false q' fl' errs [] [] [] ino b eq_refl (proj1 S)).
    + exact (same_env_acts _ _ S Ha).
    + destruct S as [_ [_ [_ [H _]]]]. congruence.
    + reflexivity.
    + reflexivity.
    + exact A.
    + cbn. lia.
Qed.

(* ------------------------------------------------------------------ flush and drop *)
Lemma ainv_view old q ino cl d : AInv c old q (w0 ino) cl d ->
  fs_wf (wfs q) /\ reader_view_opt c (wfs q) (if old then cl ++ [d] else cl) (if old then None else Some d).
Proof.
  destruct old; cbn [AInv].
  - intros [q0 [I [V R]]]. destruct (rename_view c q0 (w0 ino) cl (wfs q) I R) as [W RV]. split; [exact W|].
    unfold cur_view in V. cbn [w0 bwr wino wpend concat] in *. rewrite app_nil_r in V. rewrite V in RV. exact RV.
  - intros [I V]. rewrite <- V. exact (numinv_view c q (w0 ino) cl I eq_refl).
Qed.

Lemma flush_ainv old q fl ino cl d B : AInv c old q (w0 ino) cl d -> quiet q ->
  exists q', w_flush (fw q fl) (bwr n ino B)
             = (negb (fst (wr_pop (concat B) fl)), fw q' (snd (wr_pop (concat B) fl)),
                bwr n ino (if fst (wr_pop (concat B) fl) then B else []))
    /\ same_env q q'
    /\ AInv c old q' (w0 ino) cl (d ++ (if fst (wr_pop (concat B) fl) then [] else concat B)).
Proof.
  intros A Q. destruct (w_flush_b q fl n ino B Q) as [q' [E [S Fs]]]. exists q'. split; [exact E|]. split; [exact S|].
  apply (ainv_append_b old q); [exact A | apply S | exact Fs].
Qed.

Lemma shutdown_ainv old q fl idx cur ino cl d B : AInv c old q (w0 ino) cl d -> quiet q ->
  exists q', shutdown_state (flw_of c (act c m idx cur (bwr n ino B))) (fw q fl)
             = (fw q' (snd (wr_pop (concat B) fl)),
                flw_of c (act c m idx cur (bwr n ino (if fst (wr_pop (concat B) fl) then B else []))))
    /\ reported q q' (if fst (wr_pop (concat B) fl) then [EFlush] else [])
    /\ AInv c old q' (w0 ino) cl (d ++ (if fst (wr_pop (concat B) fl) then [] else concat B)).
Proof.
  intros A Q. destruct (flush_ainv old q fl ino cl d B A Q) as [q1 [E [S A1]]].
  unfold shutdown_state, flw_of, act. cbn [f_inner mk_rs rs_naming rs_roll rs_cleanup rs_bg]. unfold drain_acts. rewrite E.
  destruct (fst (wr_pop (concat B) fl)); cbn [negb with_inner f_cfg f_poisoned].
  - rewrite report_fw by apply S. destruct (report_reported EFlush q1 (proj1 S)) as [R Fs].
    exists (report EFlush q1). split; [reflexivity|].
    split; [apply (reported_trans q q1 _ [] [EFlush]); [apply same_env_reported; exact S | exact R]|].
    apply (ainv_env c old q1); [exact A1 | exact Fs | apply R].
  - exists q1. split; [reflexivity|]. split; [apply same_env_reported; exact S | exact A1].
Qed.

Lemma step_sync_x x i o : s_flw x = Some (flw_of c i) -> step x o = sync_step x o.
Proof. intros Es. destruct Hcfg as [_ [Hts [_ Ha]]]. exact (step_sync_cfg x o (flw_of c i) Es Hts Ha). Qed.

Lemma active_flush x old q fl errs cl D B ino :
  s_w x = fw q fl -> quiet q -> wacts q = 0 -> werrs q = errs -> s_tl x = [] ->
  s_flw x = Some (flw_of c (act c m (idx_of old (clb cl)) (N.of_nat (length (concat D) + length (concat B))) (bwr n ino B))) ->
  AInv c old q (w0 ino) (clb cl) (concat D) -> length (concat B) <= n ->
  let out := rb_flush (st_sameb old cl) D B fl in
  exists x', step x OFlush = (x', ObsRes (r_code out) false) /\ FInvB x' (r_st out) (errs ++ r_errs out) (r_fl out).
Proof.
  intros Ew Q Ha He Ht Es A HB. cbv zeta. rewrite (step_sync_x x _ OFlush Es). unfold sync_step. rewrite Es.
  cbn [flw_of f_poisoned]. unfold flush_state, flw_of, act. cbn [f_inner]. rewrite Ew.
  destruct (flush_ainv old q fl ino (clb cl) (concat D) B A Q) as [q1 [E [S A1]]]. rewrite E. unfold rb_flush.
  destruct (wr_pop (concat B) fl) as [f fl1]. cbn [fst snd] in *.
  destruct f; cbn [negb r_st r_errs r_fl r_code with_inner f_cfg f_poisoned]; rewrite app_nil_r; eexists; (split; [reflexivity|]).
  - rewrite app_nil_r in A1.
    apply (finvb_same _ old cl D B _ _ q1 ino); cbn [s_w s_tl s_flw]; try assumption; try reflexivity.
    + apply S.
    + exact (same_env_acts _ _ S Ha).
    + destruct S as [_ [_ [_ [H _]]]]. congruence.
  - rewrite <- concat_app in A1.
    apply (finvb_same _ old cl (D ++ B) [] _ _ q1 ino); cbn [s_w s_tl s_flw]; try assumption; try reflexivity.
    + apply S.
    + exact (same_env_acts _ _ S Ha).
    + destruct S as [_ [_ [_ [H _]]]]. congruence.
    + rewrite concat_app, app_length. cbn [concat length]. rewrite Nat.add_0_r. reflexivity.
    + cbn. lia.
Qed.

Lemma active_stop x old q fl errs cl D B ino :
  s_w x = fw q fl -> quiet q -> wacts q = 0 -> werrs q = errs -> s_tl x = [] ->
  s_flw x = Some (flw_of c (act c m (idx_of old (clb cl)) (N.of_nat (length (concat D) + length (concat B))) (bwr n ino B))) ->
  AInv c old q (w0 ino) (clb cl) (concat D) ->
  let out := rb_stop old cl D B fl in
  exists x', step x OStop = (x', ObsRes (r_code out) false) /\ FInvB x' (r_st out) (errs ++ r_errs out) (r_fl out).
Proof.
  intros Ew Q Ha He Ht Es A. cbv zeta. rewrite (step_sync_x x _ OStop Es). unfold sync_step. rewrite Es.
  cbn [flw_of f_poisoned]. fold (flw_of c (act c m (idx_of old (clb cl)) (N.of_nat (length (concat D) + length (concat B))) (bwr n ino B))).
  rewrite Ew, Ht. unfold drop_state, rb_stop, sb_stop.
  assert (Fin : forall q3 fl3 F3 e3, AInv c old q3 (w0 ino) (clb cl) (concat F3) -> reported q q3 e3 ->
            FInvB {| s_flw := None; s_w := fw q3 fl3; s_tl := []; s_dead := s_dead x |}
                  (if old then RStopped (cl ++ [F3]) None else RStopped cl (Some F3)) (errs ++ e3) fl3).
  { intros q3 fl3 F3 e3 A3 R3. exists q3. cbn [s_w s_tl s_flw]. split; [reflexivity|]. split; [apply R3|].
    split; [exact (reported_acts _ _ _ R3 Ha)|]. split; [exact (reported_errs _ _ _ _ R3 He)|]. split; [reflexivity|].
    destruct (ainv_view old q3 ino (clb cl) (concat F3) A3) as [W V].
    destruct old; (split; [reflexivity|]); (split; [exact W|]); [rewrite clb_snoc|]; exact V. }
  destruct (shutdown_ainv old q fl (idx_of old (clb cl)) (N.of_nat (length (concat D) + length (concat B))) ino (clb cl) (concat D) B A Q) as [q1 [E1 [R1 A1]]]. rewrite E1.
  destruct (wr_pop (concat B) fl) as [f1 fl1]. cbn [fst snd] in *. destruct f1; cbn [negb].
  - rewrite app_nil_r in A1.
    destruct (shutdown_ainv old q1 fl1 (idx_of old (clb cl)) (N.of_nat (length (concat D) + length (concat B))) ino (clb cl) (concat D) B A1 (proj1 R1))
      as [q2 [E2 [R2 A2]]]. rewrite E2.
    destruct (wr_pop (concat B) fl1) as [f2 fl2]. cbn [fst snd] in *. destruct f2; cbn [negb].
    + rewrite app_nil_r in A2.
      destruct (flush_ainv old q2 fl2 ino (clb cl) (concat D) B A2 (proj1 R2)) as [q3 [E3 [S3 A3]]].
      unfold flw_of, act. cbn [f_inner]. unfold w_drop. rewrite E3. cbn [fst snd].
      destruct (wr_pop (concat B) fl2) as [f3 fl3]. cbn [fst snd] in *.
      pose proof (reported_trans _ _ _ _ _ (reported_trans _ _ _ _ _ R1 R2) (same_env_reported _ _ S3)) as R. cbn [app] in R.
      destruct f3; cbn [negb o_st o_errs o_fl o_code o_lost st_file r_st r_errs r_fl r_code]; eexists; (split; [reflexivity|]).
      * rewrite app_nil_r in A3. apply Fin; [exact A3 | exact R].
      * rewrite <- concat_app in A3. apply Fin; [exact A3 | exact R].
    + rewrite <- concat_app in A2.
      destruct (flush_ainv old q2 fl2 ino (clb cl) (concat (D ++ B)) [] A2 (proj1 R2)) as [q3 [E3 [S3 A3]]].
      unfold flw_of, act. cbn [f_inner]. unfold w_drop. rewrite E3. cbn [fst snd concat wr_pop] in *. rewrite app_nil_r in A3.
      pose proof (reported_trans _ _ _ _ _ (reported_trans _ _ _ _ _ R1 R2) (same_env_reported _ _ S3)) as R. cbn [app] in R.
      cbn [o_st o_errs o_fl o_code o_lost st_file r_st r_errs r_fl r_code]. eexists. split; [reflexivity|].
      apply Fin; [exact A3 | exact R].
  - rewrite <- concat_app in A1.
    destruct (shutdown_ainv old q1 fl1 (idx_of old (clb cl)) (N.of_nat (length (concat D) + length (concat B))) ino (clb cl) (concat (D ++ B)) [] A1 (proj1 R1))
      as [q2 [E2 [R2 A2]]]. rewrite E2. cbn [fst snd concat wr_pop] in *. rewrite app_nil_r in A2.
    destruct (flush_ainv old q2 fl1 ino (clb cl) (concat (D ++ B)) [] A2 (proj1 R2)) as [q3 [E3 [S3 A3]]].
    unfold flw_of, act. cbn [f_inner]. unfold w_drop. rewrite E3. cbn [fst snd concat wr_pop] in *. rewrite app_nil_r in A3.
    pose proof (reported_trans _ _ _ _ _ (reported_trans _ _ _ _ _ R1 R2) (same_env_reported _ _ S3)) as R. cbn [app] in R.
    cbn [o_st o_errs o_fl o_code o_lost st_file r_st r_errs r_fl r_code]. eexists. split; [reflexivity|].
    apply Fin; [exact A3 | exact R].
Qed.

(* ------------------------------------------------------------------ one operation, whole histories *)
Theorem fstep_b x st errs fl o : rop_stop o -> FInvB x st errs fl ->
  let out := rb_step n (c_append c) m st o fl in
  exists x' rot, step x o = (x', ObsRes (r_code out) rot) /\ FInvB x' (r_st out) (errs ++ r_errs out) (r_fl out).
Proof.
  intros Ho I. cbv zeta. destruct st as [created|cl D B|cl D B|cl ocur]; cbn [rb_step].
  - destruct o; try contradiction.
    + apply init_step_b. exact I.
    + destruct I as [q [Ew [Q [Ha [He [Ht [Es R]]]]]]]. cbn [r_st r_errs r_fl r_code]. eexists _, false.
      split; [rewrite (step_sync_x x _ OFlush Es); unfold sync_step; rewrite Es; reflexivity|].
      rewrite app_nil_r. exists q. cbn [s_w s_tl s_flw]. auto 10.
    + destruct I as [q [Ew [Q [Ha [He [Ht [Es [W [R Hc]]]]]]]]]. cbn [r_st r_errs r_fl r_code]. eexists _, false.
      split; [rewrite (step_sync_x x _ OStop Es); unfold sync_step; rewrite Es; reflexivity|].
      rewrite app_nil_r. exists q. cbn [s_w s_tl s_flw flw_of f_poisoned f_inner drop_state shutdown_state].
      split; [exact Ew|]. split; [exact Q|]. split; [exact Ha|]. split; [exact He|]. split; [exact Ht|].
      split; [reflexivity|]. split; [exact W|]. destruct created; exact R.
  - destruct I as [q [Ew [Q [Ha [He [Ht [ino [Es [A HB]]]]]]]]]. destruct o; try contradiction.
    + exact (active_step_b x false q fl errs cl D B ino b Ew Q Ha He Ht Es A HB).
    + destruct (active_flush x false q fl errs cl D B ino Ew Q Ha He Ht Es A HB) as [x' H]. exists x', false. exact H.
    + destruct (active_stop x false q fl errs cl D B ino Ew Q Ha He Ht Es A) as [x' H]. exists x', false. exact H.
  - destruct I as [q [Ew [Q [Ha [He [Ht [ino [Es [A HB]]]]]]]]]. destruct o; try contradiction.
    + exact (active_step_b x true q fl errs cl D B ino b Ew Q Ha He Ht Es A HB).
    + destruct (active_flush x true q fl errs cl D B ino Ew Q Ha He Ht Es A HB) as [x' H]. exists x', false. exact H.
    + destruct (active_stop x true q fl errs cl D B ino Ew Q Ha He Ht Es A) as [x' H]. exists x', false. exact H.
  - cbn [r_st r_errs r_fl r_code]. rewrite app_nil_r. exists x, false. split; [|exact I].
    destruct I as [q [_ [_ [_ [_ [_ [Es _]]]]]]].
    unfold step, apply_start. rewrite Es. unfold step_core. rewrite Es. unfold sync_step. rewrite Es.
    destruct o; try contradiction; reflexivity.
Qed.

Definition obs_code_is (k : N) (o : obs) : Prop := exists rot, o = ObsRes k rot.

Theorem frun_b : forall ops x st errs fl, Forall rop_stop ops -> FInvB x st errs fl ->
  let '(st', e, fl', codes, _) := simrb_run n (c_append c) m st fl ops in
  exists x' obs, run x ops = (x', obs) /\ FInvB x' st' (errs ++ e) fl' /\ Forall2 obs_code_is codes obs.
Proof.
  induction ops as [|o rest IH]; intros x st errs fl Hb I; cbn [simrb_run run].
  - exists x, []. rewrite app_nil_r. split; [reflexivity|]. split; [exact I | constructor].
  - inversion Hb as [|o' r' Ho Hr]; subst o' r'.
    destruct (fstep_b x st errs fl o Ho I) as [x1 [rot [S1 I1]]]. cbv zeta in S1, I1.
    specialize (IH x1 _ _ _ Hr I1).
    destruct (simrb_run n (c_append c) m (r_st (rb_step n (c_append c) m st o fl)) (r_fl (rb_step n (c_append c) m st o fl)) rest)
      as [[[[st2 e2] fl2] c2] l2].
    destruct IH as [x2 [obs [R2 [I2 O2]]]]. exists x2, (ObsRes (r_code (rb_step n (c_append c) m st o fl)) rot :: obs).
    rewrite S1, R2. split; [reflexivity|]. split; [rewrite app_assoc; exact I2|].
    constructor; [exists rot; reflexivity | exact O2].
Qed.

Lemma finvb_final x st errs fl : FInvB x st errs fl ->
  fs_wf (wfs (s_w x)) /\ reader_view_opt c (wfs (s_w x)) (rb_closed st) (rb_cur st)
  /\ pend_of x = rb_pend st /\ werrs (s_w x) = errs /\ wfaults (s_w x) = fl.
Proof.
  intros [q [Ew [Q [Ha [He [Ht I]]]]]]. rewrite Ew. cbn [fw set_faults wfs werrs wfaults].
  assert (V : fs_wf (wfs q) /\ reader_view_opt c (wfs q) (rb_closed st) (rb_cur st) /\ pend_of x = rb_pend st).
  { destruct st as [created|cl D B|cl D B|cl ocur]; cbn [rb_closed rb_cur rb_pend].
    - destruct I as [Es [W [R _]]]. split; [exact W|]. split; [exact R|]. unfold pend_of. rewrite Es. reflexivity.
    - destruct I as [ino [Es [A _]]]. destruct (ainv_view false q ino (clb cl) (concat D) A) as [W V].
      split; [exact W|]. split; [exact V|]. unfold pend_of. rewrite Es. reflexivity.
    - destruct I as [ino [Es [A _]]]. destruct (ainv_view true q ino (clb cl) (concat D) A) as [W V].
      split; [exact W|]. split; [exact V|]. unfold pend_of. rewrite Es. reflexivity.
    - destruct I as [Es [W R]]. split; [exact W|]. split; [exact R|]. unfold pend_of. rewrite Es. reflexivity. }
  destruct V as [W [V P]]. auto.
Qed.

Lemma finvb_start t0 off fl :
  FInvB (fst (step (fsys t0 off fl) (OStart c))) (RInit false) [] fl.
Proof.
  exists (world0 t0 off). split; [reflexivity|]. split; [split; reflexivity|]. split; [reflexivity|]. split; [reflexivity|].
  split; [reflexivity|]. split; [reflexivity|].
  destruct (empty_view c (wfs (world0 t0 off)) eq_refl) as [W V]. split; [exact W|]. split; [exact V | discriminate].
Qed.

End BufRot.

(* ------------------------------------------------------------------ the theorem *)
(* (1) with rotation.  For every fault oracle fl and every history ops of log calls, flushes and drops of a buffered
   writer with Numbers naming and size criterion: after  OStart c :: ops  from the empty directory with the oracle fl,
   the directory is exactly what simrb_run says (r00000, r00001, ... hold the closed contents, rCURRENT the current
   content or does not exist, nothing else is there), the BufWriter holds exactly the buffered bytes it lists, the
   error channel exactly the errors it lists, the oracle is consumed as it says, every call returns the code it says
   (0 for log calls and the drop whatever fails, 1 for a failing flush(), 3 after the drop) *)
Theorem faults_buffered_rotation c n m t0 off fl ops :
  numcfg c (CSize m) -> c_cap c = Some n -> Forall rop_stop ops ->
  let r := run (fsys t0 off fl) (OStart c :: ops) in
  let '(st, errs, rest, codes, _) := simrb_run n (c_append c) m (RInit false) fl ops in
  fs_wf (wfs (s_w (fst r)))
  /\ reader_view_opt c (wfs (s_w (fst r))) (rb_closed st) (rb_cur st)
  /\ pend_of (fst r) = rb_pend st
  /\ werrs (s_w (fst r)) = errs
  /\ wfaults (s_w (fst r)) = rest
  /\ exists obs, snd r = ObsRes 0 false :: obs /\ Forall2 obs_code_is codes obs.
Proof.
  intros Hcfg Hcap Hb. cbv zeta. rewrite run_start.
  pose proof (frun_b c n m Hcfg Hcap ops _ _ _ _ Hb (finvb_start c n m t0 off fl)) as R.
  destruct (simrb_run n (c_append c) m (RInit false) fl ops) as [[[[st e] fl'] codes] lost].
  destruct R as [x' [obs [R [I O]]]]. rewrite R. cbn [fst snd app] in *.
  destruct (finvb_final c n m x' st e fl' I) as [W [V [P [He Hf]]]].
  split; [exact W|]. split; [exact V|]. split; [exact P|]. split; [exact He|]. split; [exact Hf|].
  exists obs. split; [reflexivity | exact O].
Qed.
Print Assumptions faults_buffered_rotation.

(* ------------------------------------------------------------------ consequences at the level of the run *)
Lemma concat_concat {A} (l : list (list (list A))) : concat (List.map (@concat A) l) = concat (concat l).
Proof. induction l as [|x r IH]; [reflexivity|]. cbn [List.map concat]. rewrite concat_app, IH. reflexivity. Qed.

(* what a reader finds in the directory is the concatenation of the records on disk *)
Lemma rb_stream st : dir_stream (rb_closed st) (rb_cur st) = concat (rb_disk st).
Proof.
  unfold dir_stream. destruct st as [created|cl D B|cl D B|cl ocur]; cbn [rb_closed rb_cur rb_disk].
  - destruct created; reflexivity.
  - rewrite concat_app, concat_concat. reflexivity.
  - rewrite !concat_app, concat_concat. cbn [concat]. rewrite !app_nil_r. reflexivity.
  - rewrite concat_app, concat_concat. destruct ocur; cbn [option_map concat]; reflexivity.
Qed.

(* (2) with rotation, in terms of the run: a history of log calls and flushes, possibly ended by the drop.  The stream a
   reader finds in the directory (r00000 ++ r00001 ++ ... ++ rCURRENT), followed by what the BufWriter still holds, is
   the concatenation of a subsequence `kept` of the records; exactly the others are lost (`lost`, counted); with t the
   trace of the specification (state before, operation, oracle before, outcome): the error channel holds the reports of
   the operations; every operation satisfies rstep_ok (every report has its own failing call; without a failing call
   nothing is reported or lost; a loss of the buffer - both flush attempts of a rotation, or all three of the drop,
   failed - is announced by EFlush, a loss of the incoming record by EWrite; what is on disk stays there); the number of
   operations that lose something is at most the number of reports *)
Theorem buffered_rotation_loss_bounded c n m t0 off fl ops tail :
  numcfg c (CSize m) -> c_cap c = Some n -> Forall rop ops -> tail = [] \/ tail = [OStop] ->
  let x := fst (run (fsys t0 off fl) (OStart c :: ops ++ tail)) in
  let t := rb_trace n (c_append c) m (RInit false) fl (ops ++ tail) in
  let lost := concat (List.map (fun e => r_lost (tr_out e)) t) in
  exists closed ocur kept,
    reader_view_opt c (wfs (s_w x)) closed ocur
    /\ dir_stream closed ocur ++ pend_bytes x = concat kept
    /\ Subseq kept (recs_of ops)
    /\ length (recs_of ops) = length kept + length lost
    /\ werrs (s_w x) = concat (List.map (fun e => r_errs (tr_out e)) t)
    /\ Forall tr_ok t
    /\ length (filter tr_loses t) <= length (werrs (s_w x)).
Proof.
  intros Hcfg Hcap Hb Ht. cbv zeta.
  assert (Hbs : Forall rop_stop (ops ++ tail)).
  { apply Forall_app. split; [eapply Forall_impl; [|exact Hb]; intros o Ho; destruct o; try contradiction; exact I|].
    destruct Ht as [->| ->]; [constructor | constructor; [exact I | constructor]]. }
  pose proof (faults_buffered_rotation c n m t0 off fl (ops ++ tail) Hcfg Hcap Hbs) as T. cbv zeta in T.
  pose proof (simrb_run_records n (c_append c) m ops (RInit false) fl tail I Hb Ht) as R.
  pose proof (simrb_trace n (c_append c) m ops (RInit false) fl tail I Hb Ht) as Tr.
  destruct (simrb_run n (c_append c) m (RInit false) fl (ops ++ tail)) as [[[[st e] fl'] codes] lost]. cbv zeta in Tr.
  destruct T as [_ [V [P [He _]]]]. destruct R as [kept [used [add [K1 [K2 [K3 _]]]]]]. destruct Tr as [T1 [T2 [_ [T4 T5]]]].
  cbn [rb_disk rb_buf app] in K1, K2, K3.
  exists (rb_closed st), (rb_cur st), kept. split; [exact V|].
  split. { rewrite rb_stream. unfold pend_bytes. rewrite P, <- K2. unfold rb_all. rewrite concat_app.
           destruct st; reflexivity. }
  split; [exact K1|]. rewrite He, <- T2, <- T1. auto.
Qed.
Print Assumptions buffered_rotation_loss_bounded.

(* (3) with rotation, in terms of the run: once the rest of the oracle holds no failure, every further record reaches
   the directory with the next flush / drop, nothing more is reported *)
Theorem buffered_rotation_recovery_run c n m t0 off fl ops1 ops2 f :
  numcfg c (CSize m) -> c_cap c = Some n -> Forall rop ops1 -> Forall rop ops2 -> f = OFlush \/ f = OStop ->
  let x1 := fst (run (fsys t0 off fl) (OStart c :: ops1)) in
  let x2 := fst (run (fsys t0 off fl) (OStart c :: ops1 ++ ops2 ++ [f])) in
  all_false (wfaults (s_w x1)) ->
  exists cl1 cu1 cl2 cu2,
    reader_view_opt c (wfs (s_w x1)) cl1 cu1 /\ reader_view_opt c (wfs (s_w x2)) cl2 cu2
    /\ dir_stream cl2 cu2 = dir_stream cl1 cu1 ++ pend_bytes x1 ++ concat (recs_of ops2)
    /\ pend_bytes x2 = []
    /\ werrs (s_w x2) = werrs (s_w x1).
Proof.
  intros Hcfg Hcap H1 H2 Hfin. cbv zeta.
  assert (Up : forall l, Forall rop l -> Forall rop_stop l)
    by (intros l Hl; eapply Forall_impl; [|exact Hl]; intros o Ho; destruct o; try contradiction; exact I).
  assert (Hb2 : Forall rop_stop (ops1 ++ ops2 ++ [f])).
  { apply Forall_app. split; [apply Up; exact H1|]. apply Forall_app. split; [apply Up; exact H2|].
    constructor; [destruct Hfin as [->| ->]; exact I | constructor]. }
  pose proof (faults_buffered_rotation c n m t0 off fl ops1 Hcfg Hcap (Up _ H1)) as T1. cbv zeta in T1.
  pose proof (faults_buffered_rotation c n m t0 off fl _ Hcfg Hcap Hb2) as T2. cbv zeta in T2.
  pose proof (buffered_rotation_recovery n (c_append c) m fl ops1 ops2 f H1 H2 Hfin) as R.
  destruct (simrb_run n (c_append c) m (RInit false) fl ops1) as [[[[st1 e1] fl1] c1] l1].
  destruct (simrb_run n (c_append c) m (RInit false) fl (ops1 ++ ops2 ++ [f])) as [[[[st2 e2] fl2] c2] l2].
  destruct T1 as [_ [V1 [P1 [A3 [A4 _]]]]]. destruct T2 as [_ [V2 [P2 [B3 _]]]].
  rewrite A4. intros Hf. destruct (R Hf) as [-> [_ [Rd [Rb _]]]].
  exists (rb_closed st1), (rb_cur st1), (rb_closed st2), (rb_cur st2).
  split; [exact V1|]. split; [exact V2|].
  split. { rewrite !rb_stream, Rd. unfold pend_bytes. rewrite P1. unfold rb_all. rewrite !concat_app, <- app_assoc.
           destruct st1; reflexivity. }
  split; [unfold pend_bytes; rewrite P2; destruct st2; cbn [rb_pend rb_buf] in *; try reflexivity; rewrite Rb; reflexivity|].
  congruence.
Qed.
Print Assumptions buffered_rotation_recovery_run.

(* ------------------------------------------------------------------ the statement, computed on examples *)
Import String.StringSyntax.
Open Scope string_scope.
Definition rx_cfg (app : bool) (n : nat) (m : N) : config :=
  {| c_spec := {| fbase := bs "app"; fdisc := None; fts := false; fsfx := Some (bs "log") |};
     c_append := app; c_cap := Some n; c_rot := Some (CSize m, NNumbers, KNever); c_utc := false;
     c_symlink := false; c_bg := false; c_async := false; c_start := None |}.
Lemma rx_numcfg app n m : numcfg (rx_cfg app n m) (CSize m) /\ c_cap (rx_cfg app n m) = Some n.
Proof. repeat split. Qed.
(* the run: the directory (name, kind, content), the buffer, the error channel, the rest of the oracle, the result codes *)
Definition rx_run (app : bool) (n : nat) (m : N) (fl : list bool) (ops : list op)
  : list (bytes * N * bytes) * option bytes * list ecode * list bool * list N :=
  let r := run (fsys 0 0 fl) (OStart (rx_cfg app n m) :: ops) in
  (snap_of (fst r), pend_of (fst r), werrs (s_w (fst r)), wfaults (s_w (fst r)), List.map obs_code (tl (snd r))).
(* the specification as a directory; and the lost records *)
Definition rx_sim (app : bool) (n : nat) (m : N) (fl : list bool) (ops : list op)
  : list (bytes * N * bytes) * option bytes * list ecode * list bool * list N * list bytes :=
  let '(st, e, rest, codes, lost) := simrb_run n app m (RInit false) fl ops in
  (List.map (fun p => (rname (rx_cfg app n m) (fst p), 0%N, snd p)) (number 0 (rb_closed st))
   ++ match rb_cur st with Some d => [(cname (rx_cfg app n m), 0%N, d)] | None => [] end, rb_pend st, e, rest, codes, lost).

(* capacity 10, size limit 3, no append.  The first log call lists, renames, opens (three oracle entries); "ab" and "cd"
   stay in the buffer; "ef" finds 4 > 3 accepted bytes and rotates: rename (ok), create (ok), flush of the old buffer
   into r00000: fails (EFlush reported), its drop tries again: fails silently.  "ab" and "cd" are LOST - two records, one
   report -, an EMPTY r00000 stays, "ef" goes on in the new buffer and reaches rCURRENT with the drop *)
Example rx_rotation_loses_buffer :
  rx_run false 10 3 [F;F;F; F;F;T;T] [W "ab"; W "cd"; W "ef"; OStop]
  = ([(r0, 0%N, []); (rC, 0%N, bs "ef")], None, [EFlush], [], [0; 0; 0; 0]%N)
  /\ rx_sim false 10 3 [F;F;F; F;F;T;T] [W "ab"; W "cd"; W "ef"; OStop]
     = ([(r0, 0%N, []); (rC, 0%N, bs "ef")], None, [EFlush], [], [0; 0; 0; 0]%N, [bs "ab"; bs "cd"]).
Proof. split; vm_compute; reflexivity. Qed.
(* the second attempt (the silent one of the drop) succeeds: reported although nothing is lost *)
Example rx_rotation_second_attempt :
  rx_run false 10 3 [F;F;F; F;F;T;F] [W "ab"; W "cd"; W "ef"; OStop]
  = ([(r0, 0%N, bs "abcd"); (rC, 0%N, bs "ef")], None, [EFlush], [], [0; 0; 0; 0]%N).
Proof. vm_compute; reflexivity. Qed.
(* the rename fails: ELogFile; the record goes to the OLD BufWriter, the next record rotates *)
Example rx_rename_fails :
  rx_run false 10 3 [F;F;F; T] [W "ab"; W "cd"; W "ef"; W "g"; OStop]
  = ([(r0, 0%N, bs "abcdef"); (rC, 0%N, bs "g")], None, [ELogFile], [], [0; 0; 0; 0; 0]%N).
Proof. vm_compute; reflexivity. Qed.
(* no failure: the buffered bytes count for the size rule, each file is written when it is closed *)
Example rx_none :
  rx_run false 10 3 [] [W "ab"; W "cd"; W "ef"; W "gh"; W "i"]
  = ([(r0, 0%N, bs "abcd"); (r1, 0%N, bs "efgh"); (rC, 0%N, [])], Some (bs "i"), [], [], [0; 0; 0; 0; 0]%N).
Proof. vm_compute; reflexivity. Qed.

(* run and specification agree on ALL fault oracles up to length 9 (1023 oracles) / 8 (511), for five settings *)
Definition ragree (app : bool) (n : nat) (m : N) (ops : list op) (fl : list bool) : bool :=
  let '(d1, p1, e1, f1, c1) := rx_run app n m fl ops in
  let '(d2, p2, e2, f2, c2, _) := rx_sim app n m fl ops in
  leqb ent_eqb d1 d2 && opt_eqb p1 p2 && leqb ec_eqb e1 e2 && leqb Bool.eqb f1 f2 && leqb N.eqb c1 c2.
Example rx_agree_all :
  forallb (ragree false 3 3 [W "ab"; W "cd"; W "e"; W "fgh"; OFlush; W "ij"; W "k"; OStop]) (all_lists 9) = true
  /\ forallb (ragree true 3 3 [W "ab"; W "cd"; W "e"; W "fgh"; OFlush; W "ij"; W "k"; OStop]) (all_lists 9) = true
  /\ forallb (ragree false 4 2 [W "a"; W "bc"; W ""; W "defgh"; W "i"; OFlush; W "jk"; W "l"; OStop; W "x"]) (all_lists 9) = true
  /\ forallb (ragree true 10 3 [W "ab"; W "cd"; W "ef"; W "gh"; W "ij"; W "kl"; OStop]) (all_lists 9) = true
  /\ forallb (ragree false 0 3 [W "ab"; W "cd"; W "ef"; W "gh"; OStop]) (all_lists 8) = true.
Proof. repeat split; vm_compute; reflexivity. Qed.
