(* NumbersDirect naming (r00000, r00001, ...; the writer writes into the file with the highest number, a rotation
   opens the next number and renames nothing): the invariant that ties the concrete state to the abstract reader's
   view (closed files in order, current content ++ pending bytes).  The abstract view is the one of Numbers naming
   (NumInv.v / NumRun.v); only the name of the current file differs: it is rname c (length closed). *)
Require Import FL.Base.Bytes FL.Base.BytesFacts FL.Base.PathName FL.Fs.Fs FL.Fs.FsFacts FL.Time.Civil FL.Time.TsFormat
  FL.Names.FileSpec FL.Names.NamesFacts FL.Flw.Model FL.Flw.ModelFacts FL.Flw.NumFs FL.Flw.NumInv.
From Coq Require Import ZifyN ZifyNat ZifyBool.
Open Scope nat_scope.

(* the configurations covered: NumbersDirect naming, no cleanup, no start-time part, no symlink, synchronous *)
Definition numdcfg (c : config) (crit : criterion) : Prop :=
  c_rot c = Some (crit, NNumbersDirect, KNever) /\ fts (c_spec c) = false /\ c_symlink c = false /\ c_async c = false.

(* ---- file-system level description of one rotation without rename:
        create the next file, the old writer flushes into its own inode ---- *)
Lemma direct_fs_spec f tgt old pend now : fs_wf f -> old < length (inodes f) -> lookup f tgt = None ->
  let f2 := fst (create_file f tgt 0%N now) in
  let new := snd (create_file f tgt 0%N now) in
  let f3 := append_ino f2 old pend in
  fs_wf f3 /\ new = length (inodes f) /\ lookup f3 tgt = Some new
  /\ (forall n, n <> tgt -> lookup f3 n = lookup f n)
  /\ inode f3 new = fresh_file now
  /\ inode f3 old = with_data (inode f old) (content f old ++ pend)
  /\ (forall j, j <> new -> j <> old -> inode f3 j = inode f j).
Proof.
  intros W Hold Ht. cbn zeta.
  pose proof (create_file_spec f tgt 0%N now) as S. pose proof (wf_create f tgt 0%N now W Ht) as W2.
  destruct (create_file f tgt 0%N now) as [f2 new]. cbn [fst snd] in *. destruct S as [-> [Hino2 [L2c L2o]]].
  assert (Hold2 : old < length (inodes f2)) by (rewrite Hino2, app_length; cbn; lia).
  split; [apply wf_append; exact W2|]. split; [reflexivity|].
  split; [rewrite lookup_append; exact L2c|].
  split. { intros n H1. rewrite lookup_append. apply L2o; assumption. }
  split. { rewrite inode_append by assumption. destruct (Nat.eqb_spec (length (inodes f)) old) as [E0|_]; [lia|].
           unfold inode. rewrite Hino2, inode_app_new. reflexivity. }
  split. { rewrite inode_append, Nat.eqb_refl by assumption. unfold content, inode. rewrite Hino2, inode_app_old by assumption.
           reflexivity. }
  intros j Hj1 Hj2. rewrite inode_append by assumption. destruct (Nat.eqb_spec j old); [congruence|].
  unfold inode. rewrite Hino2. destruct (Nat.lt_ge_cases j (length (inodes f))) as [Hlt|Hge].
  - rewrite inode_app_old by assumption. reflexivity.
  - rewrite !nth_overflow; [reflexivity | lia | rewrite app_length; cbn; lia].
Qed.

Lemma rname_S c n : nm c (number_infix (N.of_nat n + 1)) = rname c (S n).
Proof. unfold rname. replace (N.of_nat (S n)) with (N.of_nat n + 1)%N by lia. reflexivity. Qed.

(* ---- the invariant ---- *)
Record NumDInv (c : config) (w : world) (wr : writer) (closed : list bytes) : Prop := {
  nd_quiet : quiet w;
  nd_wf : fs_wf (wfs w);
  nd_cur : lookup (wfs w) (rname c (length closed)) = Some (wino wr);
  nd_curplain : plain (inode (wfs w) (wino wr));
  nd_closed : forall i, i < length closed ->
      exists j, lookup (wfs w) (rname c i) = Some j /\ plain (inode (wfs w) j) /\ content (wfs w) j = nth i closed [];
  nd_only : forall n j, lookup (wfs w) n = Some j -> exists i, i <= length closed /\ n = rname c i;
  nd_wr : wr_ok wr;
  nd_cap : wcap wr = c_cap c }.

(* the opened-file step of open_log_file on a name that does not exist *)
Lemma open_fresh_quiet c w name : quiet w -> c_symlink c = false -> lookup (wfs w) name = None ->
  exists w2, p_open (do_symlink c w name) name (c_append c) = (Some (snd (create_file (wfs w) name 0%N (wnow w))), w2)
    /\ wfs w2 = fst (create_file (wfs w) name 0%N (wnow w)) /\ same_env w w2.
Proof.
  intros Q Hlink Ht. unfold do_symlink. rewrite Hlink.
  assert (D1 : match file_of (wfs w) name with Some fl => fdir fl = false | None => True end).
  { unfold file_of. rewrite Ht. exact Logic.I. }
  destruct (p_open_quiet w name (c_append c) Q D1) as [w2 [Eop [F2 S2]]].
  assert (Eopen : (if c_append c then open_append (wfs w) name (wnow w) else open_trunc (wfs w) name 0%N (wnow w))
                  = create_file (wfs w) name 0%N (wnow w)).
  { destruct (c_append c); [apply open_append_fresh | apply open_trunc_fresh]; exact Ht. }
  rewrite Eopen in *. exists w2. auto.
Qed.

(* ---- one rotation on the level of the invariant ---- *)
Lemma rotate_numdinv c w wr cl now : NumDInv c w wr cl ->
  lookup (wfs w) (rname c (S (length cl))) = None /\
  forall w3, quiet w3 ->
    wfs w3 = append_ino (fst (create_file (wfs w) (rname c (S (length cl))) 0%N now)) (wino wr) (wpend wr) ->
    NumDInv c w3 {| wino := snd (create_file (wfs w) (rname c (S (length cl))) 0%N now); wpend := []; wcap := c_cap c |}
            (cl ++ [cur_view w wr])
    /\ cur_view w3 {| wino := snd (create_file (wfs w) (rname c (S (length cl))) 0%N now); wpend := []; wcap := c_cap c |} = []
    /\ file_of (wfs w3) (rname c (S (length cl))) = Some (fresh_file now).
Proof.
  intros I. pose proof I as [Q W Hc Hcp Hcl Hon Hwr Hcap].
  assert (Elen : length (cl ++ [cur_view w wr]) = S (length cl)) by (rewrite app_length; cbn [length]; lia).
  (* the next name is free *)
  assert (Ht : lookup (wfs w) (rname c (S (length cl))) = None).
  { destruct (lookup (wfs w) (rname c (S (length cl)))) as [j|] eqn:E; [|reflexivity].
    destruct (Hon _ _ E) as [i [Hi E1]]. apply rname_inj in E1. lia. }
  split; [exact Ht|]. intros w3 Q3 F3'.
  pose proof (wf_bound _ W _ _ Hc) as Hold.
  pose proof (direct_fs_spec (wfs w) (rname c (S (length cl))) (wino wr) (wpend wr) now W Hold Ht) as R.
  cbn zeta in R. destruct R as [W3 [Hnew [L3t [L3o [Inew [Iold Ioth]]]]]].
  set (new := snd (create_file (wfs w) (rname c (S (length cl))) 0%N now)) in *.
  set (f3 := append_ino (fst (create_file (wfs w) (rname c (S (length cl))) 0%N now)) (wino wr) (wpend wr)) in *.
  split; [|split].
  { constructor; cbn [wino wpend wcap].
    - exact Q3.
    - rewrite F3'. exact W3.
    - rewrite F3', Elen. exact L3t.
    - rewrite F3'. rewrite Inew. split; reflexivity.
    - intros i Hi. rewrite Elen in Hi. rewrite F3'.
      destruct (Nat.eq_dec i (length cl)) as [->|Hne].
      + exists (wino wr). split; [rewrite L3o; [exact Hc | intros E; apply rname_inj in E; lia]|]. split.
        * rewrite Iold. exact Hcp.
        * unfold content at 1. rewrite Iold. cbn [with_data fdata]. rewrite app_nth2, Nat.sub_diag by lia. reflexivity.
      + assert (Hi' : i < length cl) by lia. destruct (Hcl i Hi') as [j [Lj [Pj Cj]]].
        exists j. rewrite L3o by (intros E; apply rname_inj in E; lia).
        split; [exact Lj|].
        assert (Hj1 : j <> new). { pose proof (wf_bound _ W _ _ Lj). rewrite Hnew. lia. }
        assert (Hj2 : j <> wino wr). { intros ->. pose proof (wf_inj _ W _ _ _ Lj Hc) as E. apply rname_inj in E. lia. }
        unfold content. rewrite Ioth by assumption. split; [exact Pj|]. rewrite app_nth1 by assumption. exact Cj.
    - intros n j Hn. rewrite F3' in Hn. rewrite Elen.
      destruct (beq_spec n (rname c (S (length cl)))) as [->|Hn1].
      + exists (S (length cl)). split; [lia | reflexivity].
      + rewrite L3o in Hn by assumption. destruct (Hon _ _ Hn) as [i [Hi E]]. exists i. split; [lia | exact E].
    - unfold wr_ok. cbn. destruct (c_cap c); [lia | reflexivity].
    - reflexivity. }
  { unfold cur_view. rewrite F3'. cbn [wino wpend]. unfold content. rewrite Inew. reflexivity. }
  { unfold file_of. rewrite F3', L3t, Inew. reflexivity. }
Qed.

(* ---- one rotation ---- *)
Lemma mount_next_rotates_d c crit w wr closed roll force :
  numdcfg c crit -> NumDInv c w wr closed ->
  force || rotation_necessary w roll = true ->
  exists w' wr' roll',
    mount_next c w (Active (Some (mk_rs (NSNumD (N.of_nat (length closed))) roll)) wr (rname c (length closed))) force
      = (Ok tt, w', Active (Some (mk_rs (NSNumD (N.of_nat (length (closed ++ [cur_view w wr])))) roll')) wr'
                          (rname c (length (closed ++ [cur_view w wr]))))
    /\ NumDInv c w' wr' (closed ++ [cur_view w wr])
    /\ cur_view w' wr' = [] /\ roll_size_ok roll' 0 /\ same_env w w'
    /\ (forall m cur, roll = RSize m cur -> exists cur', roll' = RSize m cur').
Proof.
  intros [Hrot [Hts [Hlink _]]] I Hnec.
  pose proof (nd_quiet _ _ _ _ I) as Q.
  assert (Elen : length (closed ++ [cur_view w wr]) = S (length closed)) by (rewrite app_length; cbn [length]; lia).
  rewrite Elen.
  unfold mount_next. cbn [mk_rs rs_roll rs_naming rs_cleanup rs_bg]. rewrite Hnec.
  unfold open_log_file. rewrite (name_of_fixed c w) by assumption.
  fold (nm c (number_infix (N.of_nat (length closed) + 1))). rewrite rname_S.
  destruct (rotate_numdinv c w wr closed (wnow w) I) as [Ht RI].
  destruct (open_fresh_quiet c w (rname c (S (length closed))) Q Hlink Ht) as [w2 [Eop [F2 S2]]]. rewrite Eop.
  (* the old writer is dropped *)
  unfold w_drop. destruct (w_flush_quiet w2 wr (proj1 S2)) as [w3 [Efl [F3 S3]]]. rewrite Efl. cbn [fst snd].
  unfold cleanup_or_queue. cbn [mk_rs rs_roll rs_naming rs_cleanup rs_bg cleanup_impl].
  rewrite F2 in F3. destruct (RI w3 (proj1 S3) F3) as [I3 [V3 _]].
  eexists w3, _, (reset_size_and_date w3 roll (rname c (S (length closed)))).
  split. { replace (N.of_nat (S (length closed))) with (N.of_nat (length closed) + 1)%N by lia. reflexivity. }
  split; [exact I3|]. split; [exact V3|].
  split. { destruct roll; cbn; auto. }
  split; [eapply same_env_trans; eassumption|].
  intros m cur ->. cbn. eauto.
Qed.

(* ---- appending to the current inode keeps the invariant ---- *)
Lemma numdinv_append c w w' wr wr' closed x :
  NumDInv c w wr closed -> wfs w' = append_ino (wfs w) (wino wr) x -> same_env w w' ->
  wino wr' = wino wr -> wcap wr' = wcap wr -> wr_ok wr' ->
  NumDInv c w' wr' closed /\ content (wfs w') (wino wr') = content (wfs w) (wino wr) ++ x.
Proof.
  intros [Q W Hc Hcp Hcl Hon Hwr Hcap] F SE Ei Ec Hok.
  pose proof (wf_bound _ W _ _ Hc) as Hold.
  split.
  - constructor.
    + exact (proj1 SE).
    + rewrite F. apply wf_append. exact W.
    + rewrite F, lookup_append, Ei. exact Hc.
    + rewrite F, Ei, inode_append, Nat.eqb_refl by assumption. exact Hcp.
    + intros i Hi. destruct (Hcl i Hi) as [j [Lj [Pj Cj]]]. exists j. rewrite F, lookup_append. split; [exact Lj|].
      assert (Hj : j <> wino wr). { intros ->. pose proof (wf_inj _ W _ _ _ Lj Hc) as E. apply rname_inj in E. lia. }
      unfold content. rewrite inode_append by assumption. destruct (Nat.eqb_spec j (wino wr)); [contradiction|]. auto.
    + intros n j. rewrite F, lookup_append. apply Hon.
    + exact Hok.
    + congruence.
  - rewrite F, Ei, content_append, Nat.eqb_refl by assumption. reflexivity.
Qed.

Definition st_of_d (c : config) (n : nat) (roll : roll_state) (wr : writer) : flw :=
  {| f_cfg := c; f_inner := Active (Some (mk_rs (NSNumD (N.of_nat n)) roll)) wr (rname c n); f_poisoned := false |}.

(* ---- a write on an active writer ---- *)
Lemma write_active_d c crit w wr closed roll b :
  numdcfg c crit -> NumDInv c w wr closed -> roll_size_ok roll (length (cur_view w wr)) ->
  let rot := rotation_necessary w roll in
  exists w' wr' roll' closed',
    write_buffer (st_of_d c (length closed) roll wr) w b = (Ok tt, w', st_of_d c (length closed') roll' wr', rot)
    /\ NumDInv c w' wr' closed' /\ roll_size_ok roll' (length (cur_view w' wr')) /\ same_env w w'
    /\ (closed', cur_view w' wr') = (if rot then (closed ++ [cur_view w wr], b) else (closed, cur_view w wr ++ b))
    /\ (forall m cur, roll = RSize m cur -> exists cur', roll' = RSize m cur').
Proof.
  intros Hcfg I Hsz rot.
  unfold write_buffer, st_of_d. cbn [f_cfg f_inner f_poisoned mk_rs rs_roll]. fold rot.
  assert (M : exists w1 wr1 roll1 closed1,
            mount_next c w (Active (Some (mk_rs (NSNumD (N.of_nat (length closed))) roll)) wr (rname c (length closed))) false
            = (Ok tt, w1, Active (Some (mk_rs (NSNumD (N.of_nat (length closed1))) roll1)) wr1 (rname c (length closed1)))
            /\ NumDInv c w1 wr1 closed1 /\ roll_size_ok roll1 (length (cur_view w1 wr1)) /\ same_env w w1
            /\ (closed1, cur_view w1 wr1) = (if rot then (closed ++ [cur_view w wr], []) else (closed, cur_view w wr))
            /\ (forall m cur, roll = RSize m cur -> exists cur', roll1 = RSize m cur')).
  { destruct rot eqn:Er.
    - destruct (mount_next_rotates_d c crit w wr closed roll false Hcfg I) as [w1 [wr1 [roll1 [E [I1 [V1 [Z1 [S1 R1]]]]]]]]; [exact Er|].
      exists w1, wr1, roll1, (closed ++ [cur_view w wr]). rewrite V1.
      split; [exact E|]. split; [exact I1|]. split; [exact Z1|]. split; [exact S1|]. split; [reflexivity | exact R1].
    - exists w, wr, roll, closed. split.
      + unfold mount_next. cbn [mk_rs rs_roll orb]. unfold rot in Er. rewrite Er. reflexivity.
      + split; [exact I|]. split; [exact Hsz|]. split; [apply same_env_refl; apply I|]. split; [reflexivity | eauto]. }
  destruct M as [w1 [wr1 [roll1 [closed1 [E [I1 [Z1 [S1 [V1 R1]]]]]]]]].
  rewrite E.
  destruct (w_write_quiet w1 wr1 b (nd_quiet _ _ _ _ I1) (nd_wr _ _ _ _ I1)) as [w2 [wr2 [fl [Ew [S2 [F2 [Ei [Ec [Ep Hok]]]]]]]]].
  rewrite Ew.
  destruct (numdinv_append c w1 w2 wr1 wr2 closed1 fl I1 F2 S2 Ei Ec Hok) as [I2 C2].
  exists w2, wr2, (increase_size roll1 (N.of_nat (length b))), closed1.
  assert (V2 : cur_view w2 wr2 = cur_view w1 wr1 ++ b).
  { unfold cur_view. rewrite C2, <- !app_assoc, Ep. reflexivity. }
  split; [reflexivity|]. split; [exact I2|].
  split. { rewrite V2, app_length. apply roll_size_increase. exact Z1. }
  split; [eapply same_env_trans; eassumption|].
  split. { rewrite V2. destruct rot; injection V1 as -> ->; reflexivity. }
  intros m cur Hr. destruct (R1 m cur Hr) as [cur' ->]. cbn. eauto.
Qed.

(* ---- flush ---- *)
Lemma flush_active_d c w wr closed roll :
  NumDInv c w wr closed ->
  exists w' wr', flush_state (st_of_d c (length closed) roll wr) w = (true, w', st_of_d c (length closed) roll wr')
    /\ NumDInv c w' wr' closed /\ cur_view w' wr' = cur_view w wr /\ wpend wr' = [] /\ same_env w w'.
Proof.
  intros I. unfold flush_state, st_of_d. cbn [f_inner].
  destruct (w_flush_quiet w wr (nd_quiet _ _ _ _ I)) as [w1 [E [F S]]]. rewrite E.
  set (wr' := {| wino := wino wr; wpend := []; wcap := wcap wr |}).
  assert (Hok : wr_ok wr') by (unfold wr_ok, wr'; cbn; destruct (wcap wr); [lia | reflexivity]).
  destruct (numdinv_append c w w1 wr wr' closed (wpend wr) I F S eq_refl eq_refl Hok) as [I1 C1].
  exists w1, wr'. split; [reflexivity|]. split; [exact I1|]. split; [|split; [reflexivity | exact S]].
  unfold cur_view. rewrite C1. cbn [wr' wpend]. rewrite app_nil_r. reflexivity.
Qed.

(* ---- the invariant on a directory that holds just the fresh file r00000 ---- *)
Lemma numdinv_first c w2 f now : quiet w2 -> names f = [] -> inodes f = [] ->
  wfs w2 = fst (create_file f (rname c 0) 0%N now) ->
  NumDInv c w2 {| wino := 0; wpend := []; wcap := c_cap c |} []
  /\ cur_view w2 {| wino := 0; wpend := []; wcap := c_cap c |} = []
  /\ file_of (wfs w2) (rname c 0) = Some (fresh_file now).
Proof.
  intros Q Hn Hi F2. unfold create_file in F2. cbn [fst] in F2. rewrite Hn, Hi in F2. cbn [length app] in F2.
  assert (Lc : lookup (wfs w2) (rname c 0) = Some 0) by (rewrite F2; unfold lookup; cbn; rewrite beq_refl; reflexivity).
  split; [|split].
  - constructor; cbn [length wino wpend wcap].
    + exact Q.
    + rewrite F2. split.
      * intros a j. unfold lookup; cbn. destruct (beq (rname c 0) a); [|discriminate]. intros E; injection E as <-. lia.
      * intros a b j. unfold lookup; cbn. destruct (beq_spec (rname c 0) a), (beq_spec (rname c 0) b); try discriminate. congruence.
    + exact Lc.
    + rewrite F2. split; reflexivity.
    + intros i Hi'. lia.
    + intros n j. rewrite F2. unfold lookup; cbn. destruct (beq_spec (rname c 0) n) as [<-|]; [|discriminate].
      intros _. exists 0. split; [lia | reflexivity].
    + unfold wr_ok. cbn. destruct (c_cap c); [lia | reflexivity].
    + reflexivity.
  - unfold cur_view, content, inode. rewrite F2. reflexivity.
  - unfold file_of. rewrite Lc, F2. reflexivity.
Qed.

(* ---- the first write initialises the writer: empty directory ---- *)
Lemma initialize_empty_d c crit w :
  numdcfg c crit -> quiet w -> names (wfs w) = [] -> inodes (wfs w) = [] ->
  exists w' wr roll,
    initialize c w = (Ok (Active (Some (mk_rs (NSNumD 0) roll)) wr (rname c 0)), w')
    /\ NumDInv c w' wr [] /\ cur_view w' wr = [] /\ roll_size_ok roll 0 /\ same_env w w'
    /\ (forall m, crit = CSize m -> roll = RSize m 0).
Proof.
  intros [Hrot [Hts [Hlink _]]] Q Hn Hi.
  unfold initialize. rewrite Hrot. unfold init_naming, with_listing.
  rewrite tick_quiet by assumption.
  unfold get_highest_index, list_log_gz. rewrite existing_rot_empty by assumption. cbn [filter_map_opt max_opt bind].
  unfold open_log_file. rewrite (name_of_fixed c w) by assumption. fold (nm c (number_infix 0)).
  change (nm c (number_infix 0)) with (rname c 0).
  destruct (open_fresh_quiet c w (rname c 0) Q Hlink (lookup_empty _ _ Hn)) as [w2 [Eop [F2 S2]]]. rewrite Eop. cbn [bind fst snd].
  destruct (numdinv_first c w2 (wfs w) (wnow w) (proj1 S2) Hn Hi F2) as [I2 [V2 Fo]].
  unfold create_file. cbn [snd]. rewrite Hi. cbn [length].
  assert (RN : exists roll, roll_new w2 crit (c_append c) (rname c 0) = (Ok roll, w2) /\ roll_size_ok roll 0
               /\ (forall m, crit = CSize m -> roll = RSize m 0)).
  { unfold roll_new. destruct (c_append c).
    - rewrite tick_quiet by apply S2. rewrite Fo. cbn [fresh_file fdata length].
      eexists. split; [reflexivity|]. split; [destruct crit; reflexivity|]. intros m ->. reflexivity.
    - eexists. split; [reflexivity|]. split; [destruct crit; reflexivity|]. intros m ->. reflexivity. }
  destruct RN as [roll [Ern [Z R]]]. rewrite Ern. cbn [bind].
  exists w2, {| wino := 0; wpend := []; wcap := c_cap c |}, roll. split; [reflexivity|].
  split; [exact I2|]. split; [exact V2|]. split; [exact Z|]. split; [exact S2 | exact R].
Qed.
