(* Timestamps naming (rCURRENT + r<time stamp>[.restart-NNNN]), direct mode (no user-space buffer), a process that is killed at
   an arbitrary effect: no acknowledged record is lost, nothing else is in the files.

   A rotation of Timestamps naming has TWO effects - the rename of rCURRENT to the name of its birth second (made
   collision-free by two directory listings, which are no effects), and the creation of the new rCURRENT -, as for Numbers
   naming (NumKill.v).  A kill between the two leaves a directory WITHOUT rCURRENT: all files are closed files.  The kill
   counter, `acked`, `with_w`, the dead process: NumKill.v / KillFacts.v; the clock after the death: KillEnv.v. *)
Require Import FL.Base.Bytes FL.Base.BytesFacts FL.Base.PathName FL.Fs.Fs FL.Fs.FsFacts FL.Time.Civil FL.Time.TsFormat
  FL.Names.FileSpec FL.Names.NamesFacts FL.Names.SortFacts FL.Flw.Model FL.Flw.ModelFacts FL.Flw.NumFs FL.Flw.NumInv
  FL.Flw.Run FL.Flw.RunFacts FL.Flw.NumRun FL.Flw.NumListing FL.Oracles.O_Flw FL.Flw.NumTheorems FL.Flw.NumRestart
  FL.Flw.KillFacts FL.Flw.NumKill FL.Flw.NumKillRestart FL.Flw.NumDInv FL.Flw.NumDTheorems
  FL.Flw.TsCal FL.Flw.TsTime FL.Flw.TsNames FL.Flw.TsInv FL.Flw.TsRun FL.Flw.TsTheorems FL.Flw.TsRestartInv FL.Flw.TsRestart
  FL.Flw.KillEnv.
From Coq Require Import ZifyN ZifyNat ZifyBool.
Import String.StringSyntax.
Open Scope nat_scope.

(* ------------------------------------------------------------------ the directory without rCURRENT *)
(* exactly the closed files, named by their keys *)
Record NoCurInv (c : config) (e lo : Z) (w : world) (keys : list key) (closed : list bytes) : Prop := {
  nc_quiet : quiet w;
  nc_wf : fs_wf (wfs w);
  nc_nodup : NoDup (dir_names (wfs w));
  nc_off : eoff c w = e;
  nc_nocur : lookup (wfs w) (cname c) = None;
  nc_len : length keys = length closed;
  nc_closed : forall i, i < length closed ->
      exists j, lookup (wfs w) (kname c e (nth i keys kd)) = Some j /\ plain (inode (wfs w) j) /\ content (wfs w) j = nth i closed [];
  nc_only : forall n j, lookup (wfs w) n = Some j -> exists i, i < length closed /\ n = kname c e (nth i keys kd);
  nc_keys : keys_ok keys;
  nc_range : forall k, In k keys -> (lo <= fst k <= wnow w)%Z;
  nc_lo : (lo <= wnow w)%Z }.

Lemma nocur_dir c e lo w keys closed : NoCurInv c e lo w keys closed -> dir_is c e (wfs w) keys.
Proof.
  intros [Q W Hnd Hoff Hnc Hlen Hcl Hon Hko Hrg Hlo]. split.
  - intros k Ik. destruct (In_nth keys k kd Ik) as [i [Hi E]]. rewrite Hlen in Hi.
    destruct (Hcl i Hi) as [j [Lj [[_ Pd] _]]]. rewrite E in Lj. eauto.
  - intros n j L. destruct (Hon n j L) as [i [Hi ->]]. right.
    exists (nth i keys kd). split; [apply nth_In; rewrite Hlen; exact Hi | reflexivity].
Qed.

Lemma nocur_later c e lo q q' keys closed : NoCurInv c e lo q keys closed ->
  wfs q' = wfs q -> quiet q' -> (wnow q <= wnow q')%Z -> eoff c q' = e -> NoCurInv c e lo q' keys closed.
Proof.
  intros [Q W Hnd Hoff Hnc Hlen Hcl Hon Hko Hrg Hlo] F Q' N' E'. constructor; try rewrite F; try assumption.
  - intros k Ik. specialize (Hrg k Ik). lia.
  - lia.
Qed.

(* the rename of a rotation: rCURRENT (born in the second ts) becomes the closed file of the key (ts, count ts keys) *)
Lemma rename_nocur c e lo hi q wr keys closed ts f1 :
  TsInv c e lo q wr keys closed ts -> wpend wr = [] -> years_ok e lo hi -> (wnow q <= hi)%Z ->
  rename (wfs q) (cname c) (kname c e (ts, count ts keys)) = Some f1 ->
  forall q1, quiet q1 -> wfs q1 = f1 -> eoff c q1 = e -> wnow q1 = wnow q ->
  NoCurInv c e lo q1 (keys ++ [(ts, count ts keys)]) (closed ++ [cur_view q wr]).
Proof.
  intros I Hp Y Hhi Er q1 Q1 F1 Ho1 N1.
  pose proof I as [Q W Hnd Hoff Hc Hcp Hlen Hcl Hon Hko Hrg Htsr Hwr Hcap].
  assert (Yk : forall k, In k keys -> in_years e (fst k)).
  { intros k Ik. apply (years_in e lo hi); [exact Y|]. specialize (Hrg k Ik). lia. }
  assert (Yts : in_years e ts) by (apply (years_in e lo hi); [exact Y | lia]).
  set (knew := (ts, count ts keys)) in *.
  destruct (rename_spec (wfs q) (cname c) (kname c e knew) (wino wr) (fun E => kname_not_cname c e knew Yts (eq_sym E)) Hc)
    as [f' [E [Hino [Lt [Lc Lo]]]]].
  rewrite Er in E. injection E as <-.
  assert (In1 : forall j, inode f1 j = inode (wfs q) j) by (intros j; unfold inode; rewrite Hino; reflexivity).
  assert (Ecur : cur_view q wr = content (wfs q) (wino wr)) by (unfold cur_view; rewrite Hp, app_nil_r; reflexivity).
  constructor.
  - exact Q1.
  - rewrite F1. exact (wf_rename _ _ _ _ W Er).
  - rewrite F1. exact (rename_nodup _ _ _ _ Hnd Er).
  - exact Ho1.
  - rewrite F1. exact Lc.
  - rewrite !app_length, Hlen. reflexivity.
  - intros i Hi. rewrite app_length in Hi. cbn [length] in Hi. rewrite F1.
    destruct (Nat.eq_dec i (length closed)) as [->|Hne].
    + exists (wino wr). rewrite app_nth2, Hlen, Nat.sub_diag by lia. cbn [nth]. split; [exact Lt|]. split; [rewrite In1; exact Hcp|].
      unfold content. rewrite In1, app_nth2, Nat.sub_diag by lia. cbn [nth]. rewrite Ecur. reflexivity.
    + assert (Hi' : i < length closed) by lia. destruct (Hcl i Hi') as [j [Lj [Pj [Cj _]]]]. exists j.
      assert (Ik : In (nth i keys kd) keys) by (apply nth_In; lia).
      rewrite (app_nth1 keys _ kd) by lia.
      rewrite Lo; [|apply kname_not_cname, Yk, Ik |].
      2:{ intros E. apply kname_inj in E; [|apply Yk, Ik | exact Yts]. rewrite E in Ik. apply (keys_count keys Hko) in Ik. lia. }
      split; [exact Lj|]. split; [rewrite In1; exact Pj|]. unfold content. rewrite In1, app_nth1 by assumption. exact Cj.
  - intros n j Hn. rewrite F1 in Hn.
    destruct (beq_spec n (kname c e knew)) as [->|Hn2].
    + exists (length closed). rewrite app_length. cbn [length]. split; [lia|].
      rewrite app_nth2, Hlen, Nat.sub_diag by lia. reflexivity.
    + destruct (beq_spec n (cname c)) as [->|Hn1]; [rewrite Lc in Hn; discriminate|].
      rewrite Lo in Hn by assumption. destruct (Hon _ _ Hn) as [E|[i [Hi E]]]; [contradiction|].
      exists i. rewrite app_length. cbn [length]. split; [lia|]. rewrite (app_nth1 keys _ kd) by lia. exact E.
  - apply ko_snoc; [exact Hko|]. intros k Ik. specialize (Hrg k Ik). lia.
  - rewrite N1. intros k Ik. apply in_app_or in Ik. destruct Ik as [Ik|[<-|[]]].
    + specialize (Hrg k Ik). lia.
    + unfold knew. cbn [fst]. lia.
  - rewrite N1. lia.
Qed.

(* the creation of rCURRENT in a directory without one: the invariant of a writer whose current file is empty and was born now *)
Lemma create_nocur c e lo q keys closed :
  NoCurInv c e lo q keys closed ->
  forall q3, quiet q3 -> eoff c q3 = e -> wnow q3 = wnow q ->
    wfs q3 = fst (create_file (wfs q) (cname c) 0%N (wnow q)) ->
    TsInvB c e lo q3 {| wino := snd (create_file (wfs q) (cname c) 0%N (wnow q)); wpend := []; wcap := c_cap c |} keys closed (wnow q)
    /\ cur_view q3 {| wino := snd (create_file (wfs q) (cname c) 0%N (wnow q)); wpend := []; wcap := c_cap c |} = [].
Proof.
  intros [Q W Hnd Hoff Hnc Hlen Hcl Hon Hko Hrg Hlo] q3 Q3 Ho3 N3 F3.
  pose proof (create_file_spec (wfs q) (cname c) 0%N (wnow q)) as S. pose proof (wf_create (wfs q) (cname c) 0%N (wnow q) W Hnc) as W2.
  pose proof (create_nodup (wfs q) (cname c) 0%N (wnow q) Hnd Hnc) as Nd2.
  destruct (create_file (wfs q) (cname c) 0%N (wnow q)) as [f2 new]. cbn [fst snd] in *. destruct S as [-> [Hino2 [L2c L2o]]].
  assert (Inew : inode f2 (length (inodes (wfs q))) = fresh_file (wnow q)).
  { unfold inode. rewrite Hino2, inode_app_new. reflexivity. }
  assert (Iold : forall j, j < length (inodes (wfs q)) -> inode f2 j = inode (wfs q) j).
  { intros j Hj. unfold inode. rewrite Hino2, inode_app_old by assumption. reflexivity. }
  set (wr' := {| wino := length (inodes (wfs q)); wpend := []; wcap := c_cap c |}).
  split; [split|].
  - constructor.
    + exact Q3.
    + rewrite F3. exact W2.
    + rewrite F3. exact Nd2.
    + exact Ho3.
    + rewrite F3. exact L2c.
    + rewrite F3. cbn [wr' wino]. rewrite Inew. split; reflexivity.
    + exact Hlen.
    + intros i Hi. destruct (Hcl i Hi) as [j [Lj [Pj Cj]]]. pose proof (wf_bound _ W _ _ Lj) as Hj. exists j. rewrite F3.
      rewrite L2o by (intros E; rewrite E, Hnc in Lj; discriminate).
      split; [exact Lj|]. unfold content. rewrite (Iold j Hj). split; [exact Pj|]. split; [exact Cj|]. cbn [wr' wino]. lia.
    + intros n j Hn. rewrite F3 in Hn. destruct (beq_spec n (cname c)) as [->|Hn1]; [left; reflexivity|].
      rewrite L2o in Hn by assumption. right. exact (Hon n j Hn).
    + exact Hko.
    + exact Hrg.
    + rewrite N3. lia.
    + unfold wr_ok, wr'. cbn. destruct (c_cap c); [lia | reflexivity].
    + reflexivity.
  - unfold born. rewrite F3. cbn [wr' wino]. rewrite Inew. reflexivity.
  - unfold cur_view. rewrite F3. cbn [wr' wino wpend]. unfold content. rewrite Inew. reflexivity.
Qed.

(* ------------------------------------------------------------------ what a killed process can leave *)
Inductive kdir :=
| KEmpty                                                                   (* the empty directory *)
| KCur (keys : list key) (closed : list bytes) (cur : bytes) (ts : Z)      (* closed files and rCURRENT, born in the second ts *)
| KNoCur (keys : list key) (closed : list bytes).                          (* closed files only *)

Definition kd_of (d : tview) : kdir := match d with None => KEmpty | Some (k, cl, cu, ts) => KCur k cl cu ts end.
Definition keysK (d : kdir) : list key := match d with KEmpty => [] | KCur k _ _ _ => k | KNoCur k _ => k end.
Definition closedK (d : kdir) : list bytes := match d with KEmpty => [] | KCur _ cl _ _ => cl | KNoCur _ cl => cl end.
Definition ocurK (d : kdir) : option bytes := match d with KCur _ _ cu _ => Some cu | _ => None end.
Definition flatK (d : kdir) : bytes := concat (closedK d) ++ match ocurK d with Some cu => cu | None => [] end.

Definition dir_k (c : config) (e lo : Z) (w : world) (d : kdir) : Prop :=
  match d with
  | KEmpty => dir_ts c e lo w None
  | KCur k cl cu ts => dir_ts c e lo w (Some (k, cl, cu, ts))
  | KNoCur k cl => NoCurInv c e lo w k cl
  end.

Lemma dir_k_of c e lo w d : dir_k c e lo w (kd_of d) <-> dir_ts c e lo w d.
Proof. destruct d as [[[[k cl] cu] ts]|]; reflexivity. Qed.
Lemma flatK_of d : flatK (kd_of d) = flatT d.
Proof. destruct d as [[[[k cl] cu] ts]|]; reflexivity. Qed.
Lemma closedK_of d : closedK (kd_of d) = closedT d.
Proof. destruct d as [[[[k cl] cu] ts]|]; reflexivity. Qed.

Lemma tsinv_later c e lo q q' wr keys closed ts : TsInv c e lo q wr keys closed ts ->
  wfs q' = wfs q -> quiet q' -> (wnow q <= wnow q')%Z -> eoff c q' = e -> TsInv c e lo q' wr keys closed ts.
Proof.
  intros [Q W Hnd Hoff Hc Hcp Hlen Hcl Hon Hko Hrg Htsr Hwr Hcap] F Q' N' E'. constructor; try rewrite F; try assumption. lia.
Qed.

Lemma dir_k_later c e lo q q' d : dir_k c e lo q d ->
  wfs q' = wfs q -> quiet q' -> (wnow q <= wnow q')%Z -> eoff c q' = e -> dir_k c e lo q' d.
Proof.
  intros D F Q' N' E'. destruct d as [|keys closed cur ts|keys closed]; cbn [dir_k dir_ts] in *.
  - destruct D as [A [B C]]. rewrite F. repeat split; try assumption. lia.
  - destruct D as [wr [[I B] [Hp V]]]. exists wr. split; [split; [exact (tsinv_later c e lo q q' wr keys closed ts I F Q' N' E')|]|].
    + unfold born in *. rewrite F. exact B.
    + split; [exact Hp|]. unfold cur_view in *. rewrite F. exact V.
  - exact (nocur_later c e lo q q' keys closed D F Q' N' E').
Qed.

(* the dead process: its world w (clock t) holds the directory d; n bounds the number of closed files *)
Definition DeadT (c : config) (e lo : Z) (n : nat) (t : Z) (w : world) (d : kdir) : Prop :=
  dead w /\ wnow w = t /\ eoff c w = e /\ dir_k c e lo (calm w) d /\ length (closedK d) <= n.

Lemma deadt_of_quiet c e lo qd d n : quiet qd -> eoff c qd = e -> dir_k c e lo qd d -> length (closedK d) <= n ->
  DeadT c e lo n (wnow qd) (kw qd 0) d.
Proof.
  intros Q Ho D Hn. split; [apply dead_kw; exact Q|]. split; [reflexivity|]. split; [exact Ho|].
  split; [|exact Hn]. apply (dir_k_later c e lo qd); [exact D | reflexivity | apply quiet_calm; apply Q | apply Z.le_refl | exact Ho].
Qed.

Lemma deadt_after c e lo n t w w' d dt : DeadT c e lo n t w d -> after_dead w w' dt -> (0 <= dt)%Z ->
  DeadT c e lo n (t + dt) w' d.
Proof.
  intros [Dw [Hn [He [D L]]]] [Dw' [F [N O]]] Hdt.
  split; [exact Dw'|]. split; [lia|].
  assert (He' : eoff c w' = e) by (unfold eoff in *; rewrite O; exact He).
  split; [exact He'|]. split; [|exact L].
  apply (dir_k_later c e lo (calm w)); [exact D | cbn [calm set_acts set_kill wfs]; exact F | apply quiet_calm; apply Dw'
    | cbn [calm set_acts set_kill wnow]; lia | exact He'].
Qed.

Lemma deadt_mono c e lo n m t w d : n <= m -> DeadT c e lo n t w d -> DeadT c e lo m t w d.
Proof. intros H [A [B [C [D E]]]]. repeat split; try assumption; try apply A. lia. Qed.

(* the world of x is a quiet world q (clock t) with the counter at S m (alive, m effects left); the state is the one of a run on
   the empty directory (TsRestart.GRelT with d0 = None) *)
Definition KRelT (c : config) (e lo : Z) (n : nat) (t : Z) (x : sys) (a : tview) : Prop :=
  exists q m, s_w x = kw q (S m) /\ wnow q = t /\ GRelT c e lo n (with_w x q) None a.

Section DirectT.
Variables (c : config) (crit : criterion) (e lo hi : Z).
Hypothesis Hcfg : tscfg c crit.
Hypothesis Hcap : c_cap c = None.
Hypothesis Htag : tag_ok c.
Hypothesis Hyears : years_ok e lo hi.

Lemma direct_wr_t q wr keys closed ts : TsInvB c e lo q wr keys closed ts -> wpend wr = [] /\ wcap wr = None.
Proof.
  intros [I _]. pose proof (ti_wr _ _ _ _ _ _ _ _ I) as Hw. pose proof (ti_cap _ _ _ _ _ _ _ _ I) as Hc. rewrite Hcap in Hc.
  unfold wr_ok in Hw. rewrite Hc in Hw. split; assumption.
Qed.

Lemma tsinvb_dirk q wr keys closed ts : TsInvB c e lo q wr keys closed ts -> dir_k c e lo q (KCur keys closed (cur_view q wr) ts).
Proof. intros I. exists wr. split; [exact I|]. split; [apply (direct_wr_t q wr keys closed ts I) | reflexivity]. Qed.

(* ---- one rotation with a budget: rename, create ---- *)
Lemma mount_next_kt q wr keys closed ts roll force n :
  TsInvB c e lo q wr keys closed ts -> (wnow q <= hi)%Z -> (N.of_nat (length closed) <= usize_max)%N ->
  force || rotation_necessary q roll = true ->
  let knew := (ts, count ts keys) in
  exists f1, rename (wfs q) (cname c) (kname c e knew) = Some f1 /\
  match n with
  | 0 => exists r st',
      mount_next c (kw q 1) (Active (Some (mk_rs (NSTs ts (Some cur_infix) std_fmt) roll)) wr (cname c)) force = (r, kw q 0, st')
  | 1 => exists r st',
      mount_next c (kw q 2) (Active (Some (mk_rs (NSTs ts (Some cur_infix) std_fmt) roll)) wr (cname c)) force
      = (r, kw (set_fs q f1) 0, st')
  | S (S n') => exists q' wr' roll',
      mount_next c (kw q (S (S (S n')))) (Active (Some (mk_rs (NSTs ts (Some cur_infix) std_fmt) roll)) wr (cname c)) force
      = (Ok tt, kw q' (S n'), Active (Some (mk_rs (NSTs (wnow q) (Some cur_infix) std_fmt) roll')) wr' (cname c))
      /\ TsInvB c e lo q' wr' (keys ++ [knew]) (closed ++ [cur_view q wr]) (wnow q) /\ cur_view q' wr' = [] /\ same_env q q'
  end.
Proof.
  intros IB Hhi Hmax Hnec knew. pose proof Hcfg as [Hrot [Hts [Hlink _]]]. pose proof IB as [I B].
  pose proof I as [Q W Hnd Hoff Hc Hcp Hlen Hcl Hon Hko Hrg Htsr Hwr Hca].
  destruct (direct_wr_t q wr keys closed ts IB) as [Hp Hc0].
  destruct (rotate_tsinv c e lo hi q wr keys closed ts I Hyears Hhi) as [f1 [Er [L1c RI]]]. fold knew in Er, RI.
  exists f1. split; [exact Er|].
  assert (CF : forall K, collision_free c (kw q K) (infix_from_ts c (kw q K) std_fmt ts) = (Ok (infix_of e knew), kw q K)).
  { intros K. unfold collision_free. rewrite tick_kw by exact Q. cbv beta iota. rewrite tick_kw by exact Q. cbv beta iota.
    rewrite (fixed_of_fixed0 c (kw q K) Hts), infix_from_ts_tsx.
    change (eoff c (kw q K)) with (eoff c q). rewrite Hoff. change (woff (kw q K)) with (woff q). change (wfs (kw q K)) with (wfs q).
    rewrite (cfi_tsinv c e lo hi q wr keys closed ts Htag Hyears I Hhi Hmax). reflexivity. }
  (* the naming step: the collision-free infix, then the rename *)
  assert (NS : forall K, creation_ts_of_current c (kw q K) cur_infix true (Some ts) std_fmt
                 = let w2 := eff q K (fun f => match rename f (cname c) (kname c e knew) with Some f' => f' | None => f end) in
                   (Ok (birth_or_now w2 (cname c)), w2)).
  { intros K. unfold creation_ts_of_current. cbv beta iota zeta. rewrite CF. cbv beta iota zeta.
    rewrite !(name_of_fixed c (kw q K)) by assumption. fold (nm c cur_infix). fold (cname c).
    change (as_name (c_spec c) (fixed0 c) (Some (infix_of e knew))) with (kname c e knew).
    rewrite p_rename_kw by exact Q. rewrite Er. reflexivity. }
  destruct n as [|[|n']].
  - (* killed at the rename *)
    unfold mount_next. cbn [mk_rs rs_roll rs_naming rs_cleanup rs_bg]. rewrite rot_nec_kw, Hnec.
    rewrite NS. cbv zeta. cbn [eff].
    pose proof (dead_kw q Q) as Hd.
    destruct (open_log_file_dead c (kw q 0) (Some cur_infix) Hd) as [r2 E2]. rewrite E2.
    destruct r2 as [[wr' path']| |]; [|eauto|eauto].
    destruct (w_flush_dead (kw q 0) wr Hd) as [wra Ef]. rewrite Ef. cbv beta iota zeta. rewrite w_drop_dead by assumption.
    unfold cleanup_or_queue. cbn [mk_rs rs_roll rs_naming rs_cleanup rs_bg cleanup_impl]. eauto.
  - (* killed at the creation of the new current file *)
    unfold mount_next. cbn [mk_rs rs_roll rs_naming rs_cleanup rs_bg]. rewrite rot_nec_kw, Hnec.
    rewrite NS. cbv zeta. cbn [eff]. rewrite Er.
    unfold open_log_file. rewrite (name_of_fixed c (kw (set_fs q f1) 1)) by assumption. fold (nm c cur_infix) (cname c).
    unfold do_symlink. rewrite Hlink.
    rewrite p_open_kw by (apply quiet_set_fs; exact Q). cbn [set_fs wfs]. unfold file_of at 1. rewrite L1c. cbn [eff].
    pose proof (dead_kw (set_fs q f1) (quiet_set_fs q f1 Q)) as Hd.
    destruct (w_flush_dead (kw (set_fs q f1) 0) wr Hd) as [wra Ef]. rewrite Ef. cbv beta iota zeta. rewrite w_drop_dead by assumption.
    unfold cleanup_or_queue. cbn [mk_rs rs_roll rs_naming rs_cleanup rs_bg cleanup_impl]. eauto.
  - (* the rotation is completed *)
    unfold mount_next. cbn [mk_rs rs_roll rs_naming rs_cleanup rs_bg]. rewrite rot_nec_kw, Hnec.
    rewrite NS. cbv zeta. cbn [eff]. rewrite Er.
    assert (Eb : birth_or_now (kw (set_fs q f1) (S (S n'))) (cname c) = wnow q).
    { unfold birth_or_now, file_of. cbn [kw set_kill set_fs wfs wnow]. rewrite L1c. reflexivity. }
    rewrite Eb.
    unfold open_log_file. rewrite (name_of_fixed c (kw (set_fs q f1) (S (S n')))) by assumption. fold (nm c cur_infix) (cname c).
    unfold do_symlink. rewrite Hlink.
    rewrite p_open_kw by (apply quiet_set_fs; exact Q). cbn [set_fs wfs wnow]. unfold file_of at 1. rewrite L1c. cbn [eff].
    cbn [set_fs wfs wnow].
    assert (Eopen : (if c_append c then open_append f1 (cname c) (wnow q) else open_trunc f1 (cname c) 0%N (wnow q))
                    = create_file f1 (cname c) 0%N (wnow q)).
    { destruct (c_append c); [apply open_append_fresh | apply open_trunc_fresh]; exact L1c. }
    rewrite Eopen. cbv beta iota zeta.
    rewrite w_flush_nop by exact Hp. cbv beta iota zeta. rewrite w_drop_nop by reflexivity.
    unfold cleanup_or_queue. cbn [mk_rs rs_roll rs_naming rs_cleanup rs_bg cleanup_impl].
    set (q2 := set_fs (set_fs q f1) (fst (create_file f1 (cname c) 0%N (wnow q)))).
    assert (Q2 : quiet q2) by (apply quiet_set_fs, quiet_set_fs; exact Q).
    assert (F3 : wfs q2 = append_ino (fst (create_file f1 (cname c) 0%N (wnow q))) (wino wr) (wpend wr)).
    { rewrite Hp, append_ino_nil_id. reflexivity. }
    destruct (RI q2 Q2 Hoff eq_refl F3) as [I2 V2].
    eexists q2, _, (reset_size_and_date q2 roll (cname c)).
    split. { rewrite reset_kw. reflexivity. }
    split; [exact I2|]. split; [exact V2|].
    eapply same_env_trans; [apply same_env_set_fs; exact Q | apply same_env_set_fs; apply quiet_set_fs; exact Q].
Qed.

(* ---- one write(2) of the unbuffered writer with a budget ---- *)
Lemma w_write_kt q wr keys closed ts b n :
  TsInvB c e lo q wr keys closed ts ->
  exists w', w_write (kw q (S n)) wr b = (true, w', wr) /\
   ( (exists q' n', w' = kw q' (S n') /\ TsInvB c e lo q' wr keys closed ts /\ cur_view q' wr = cur_view q wr ++ b /\ same_env q q')
     \/ w' = kw q 0 ).
Proof.
  intros IB. destruct (direct_wr_t q wr keys closed ts IB) as [Hp Hc0]. pose proof (ti_quiet _ _ _ _ _ _ _ _ (proj1 IB)) as Q.
  unfold w_write. rewrite Hc0. rewrite p_write_kw by exact Q.
  destruct b as [|x b].
  - eexists. split; [reflexivity|]. left. exists q, n. split; [reflexivity|]. split; [exact IB|].
    split; [rewrite app_nil_r; reflexivity | apply same_env_refl; exact Q].
  - destruct n as [|n']; cbn [eff].
    + eexists. split; [reflexivity|]. right. reflexivity.
    + eexists. split; [reflexivity|]. left. exists (set_fs q (append_ino (wfs q) (wino wr) (x :: b))), n'.
      split; [reflexivity|].
      destruct (tsinvb_append c e lo q (set_fs q (append_ino (wfs q) (wino wr) (x :: b))) wr wr keys closed ts (x :: b) IB eq_refl
                  (same_env_set_fs q _ Q) eq_refl eq_refl (ti_wr _ _ _ _ _ _ _ _ (proj1 IB))) as [I2 C2].
      split; [exact I2|]. split; [|apply same_env_set_fs; exact Q].
      unfold cur_view. rewrite C2, Hp, !app_nil_r. reflexivity.
Qed.

(* what the process leaves when it dies in a write on an active writer whose view is (cl, cu): the directory of the quiet world qd *)
Definition died_k (q : world) (w' : world) (cl : list bytes) (cu : bytes) : Prop :=
  exists qd d, w' = kw qd 0 /\ same_env q qd /\ eoff c qd = e /\ dir_k c e lo qd d /\ flatK d = concat cl ++ cu
    /\ length (closedK d) <= S (length cl).

(* ---- a write on an active writer with a budget: every kill point ---- *)
Lemma write_active_kt q wr keys closed ts roll b n :
  TsInvB c e lo q wr keys closed ts -> (wnow q <= hi)%Z -> (N.of_nat (length closed) <= usize_max)%N ->
  exists r w' s' rot', write_buffer (st_ts c ts roll wr) (kw q (S n)) b = (r, w', s', rot') /\
  ( (exists q' n' wr' roll' keys' closed' ts', w' = kw q' (S n') /\ r = Ok tt /\ s' = st_ts c ts' roll' wr'
       /\ rot' = rotation_necessary q roll
       /\ TsInvB c e lo q' wr' keys' closed' ts' /\ same_env q q'
       /\ (keys', closed', cur_view q' wr', ts')
          = (if rotation_necessary q roll then (keys ++ [(ts, count ts keys)], closed ++ [cur_view q wr], b, wnow q)
             else (keys, closed, cur_view q wr ++ b, ts)))
    \/ died_k q w' closed (cur_view q wr) ).
Proof.
  intros IB Hhi Hmax. destruct (direct_wr_t q wr keys closed ts IB) as [Hp Hc0]. pose proof (ti_quiet _ _ _ _ _ _ _ _ (proj1 IB)) as Q.
  pose proof (ti_off _ _ _ _ _ _ _ _ (proj1 IB)) as Hoff.
  unfold write_buffer, st_ts. cbn [f_cfg f_inner f_poisoned mk_rs rs_roll]. rewrite rot_nec_kw.
  destruct (rotation_necessary q roll) eqn:Er.
  - (* the write rotates first *)
    destruct (mount_next_kt q wr keys closed ts roll false n IB Hhi Hmax) as [f1 [Ern M]]; [cbn [orb]; exact Er|]. cbv zeta in Ern, M.
    set (knew := (ts, count ts keys)) in *.
    destruct n as [|[|n']].
    + destruct M as [r1 [st1 E1]]. rewrite E1.
      destruct (wb_tail_dead {| f_cfg := c; f_inner := Active (Some (mk_rs (NSTs ts (Some cur_infix) std_fmt) roll)) wr (cname c); f_poisoned := false |}
                  b r1 (kw q 0) st1 true (dead_kw q Q)) as [r [s' ET]].
      exists r, (kw q 0), s', true. split; [exact ET|]. right.
      exists q, (KCur keys closed (cur_view q wr) ts). split; [reflexivity|]. split; [apply same_env_refl; exact Q|].
      split; [exact Hoff|]. split; [exact (tsinvb_dirk q wr keys closed ts IB)|].
      split; [reflexivity | cbn [closedK]; lia].
    + destruct M as [r1 [st1 E1]]. rewrite E1.
      destruct (wb_tail_dead {| f_cfg := c; f_inner := Active (Some (mk_rs (NSTs ts (Some cur_infix) std_fmt) roll)) wr (cname c); f_poisoned := false |}
                  b r1 (kw (set_fs q f1) 0) st1 true (dead_kw _ (quiet_set_fs q f1 Q))) as [r [s' ET]].
      exists r, (kw (set_fs q f1) 0), s', true. split; [exact ET|]. right.
      exists (set_fs q f1), (KNoCur (keys ++ [knew]) (closed ++ [cur_view q wr])).
      split; [reflexivity|]. split; [apply same_env_set_fs; exact Q|]. split; [exact Hoff|].
      split. { exact (rename_nocur c e lo hi q wr keys closed ts f1 (proj1 IB) Hp Hyears Hhi Ern (set_fs q f1) (quiet_set_fs q f1 Q) eq_refl Hoff eq_refl). }
      split.
      * unfold flatK. cbn [closedK ocurK]. rewrite concat_app. cbn [concat]. rewrite !app_nil_r. reflexivity.
      * cbn [closedK]. rewrite app_length. cbn [length]. lia.
    + destruct M as [q1 [wr1 [roll1 [E1 [I1 [V1 S1]]]]]]. rewrite E1. cbv beta iota zeta.
      destruct (w_write_kt q1 wr1 (keys ++ [knew]) (closed ++ [cur_view q wr]) (wnow q) b n' I1) as [w2 [Ew Out]]. rewrite Ew.
      eexists _, w2, _, true. split; [reflexivity|].
      destruct Out as [[q2 [n2 [-> [I2 [V2 S2]]]]] | ->].
      * left. exists q2, n2, wr1, (increase_size roll1 (N.of_nat (length b))), (keys ++ [knew]), (closed ++ [cur_view q wr]), (wnow q).
        split; [reflexivity|]. split; [reflexivity|]. split; [reflexivity|]. split; [reflexivity|].
        split; [exact I2|]. rewrite V1 in V2. cbn [app] in V2.
        split; [eapply same_env_trans; eassumption|]. rewrite V2. reflexivity.
      * right. exists q1, (KCur (keys ++ [knew]) (closed ++ [cur_view q wr]) (cur_view q1 wr1) (wnow q)).
        split; [reflexivity|]. split; [exact S1|]. split; [exact (ti_off _ _ _ _ _ _ _ _ (proj1 I1))|].
        split; [exact (tsinvb_dirk q1 wr1 _ _ _ I1)|].
        split.
        -- unfold flatK. cbn [closedK ocurK]. rewrite V1, concat_app. cbn [concat]. rewrite !app_nil_r. reflexivity.
        -- cbn [closedK]. rewrite app_length. cbn [length]. lia.
  - (* no rotation *)
    unfold mount_next. cbn [mk_rs rs_roll orb]. rewrite rot_nec_kw, Er.
    destruct (w_write_kt q wr keys closed ts b n IB) as [w2 [Ew Out]]. rewrite Ew.
    eexists _, w2, _, false. split; [reflexivity|].
    destruct Out as [[q2 [n2 [-> [I2 [V2 S2]]]]] | ->].
    + left. exists q2, n2, wr, (increase_size roll (N.of_nat (length b))), keys, closed, ts.
      split; [reflexivity|]. split; [reflexivity|]. split; [reflexivity|]. split; [reflexivity|].
      split; [exact I2|]. split; [exact S2|]. rewrite V2. reflexivity.
    + right. exists q, (KCur keys closed (cur_view q wr) ts). split; [reflexivity|]. split; [apply same_env_refl; exact Q|].
      split; [exact Hoff|]. split; [exact (tsinvb_dirk q wr keys closed ts IB)|].
      split; [reflexivity | cbn [closedK]; lia].
Qed.

(* ---- the first write: initialisation in the empty directory with a budget ---- *)
Lemma nocur_empty q : quiet q -> names (wfs q) = [] -> eoff c q = e -> (lo <= wnow q)%Z -> NoCurInv c e lo q [] [].
Proof.
  intros Q Hn Hoff Hlo. constructor; try assumption.
  - split; intros; rewrite lookup_empty in * by assumption; discriminate.
  - unfold dir_names. rewrite Hn. constructor.
  - apply lookup_empty. exact Hn.
  - reflexivity.
  - intros i Hi. cbn in Hi. lia.
  - intros n j L. rewrite lookup_empty in L by assumption. discriminate.
  - constructor.
  - intros k [].
Qed.

Lemma initialize_empty_kt q n :
  quiet q -> names (wfs q) = [] -> inodes (wfs q) = [] -> eoff c q = e -> (lo <= wnow q)%Z ->
  match n with
  | 0 => exists r, initialize c (kw q 1) = (r, kw q 0)
  | S n' => exists q' wr roll,
      initialize c (kw q (S (S n'))) = (Ok (Active (Some (mk_rs (NSTs (wnow q) (Some cur_infix) std_fmt) roll)) wr (cname c)), kw q' (S n'))
      /\ TsInvB c e lo q' wr [] [] (wnow q) /\ cur_view q' wr = [] /\ same_env q q'
  end.
Proof.
  intros Q Hn Hi Hoff Hlo. pose proof Hcfg as [Hrot [Hts [Hlink _]]].
  assert (Eb : forall K, birth_or_now (kw q K) (cname c) = wnow q).
  { intros K. unfold birth_or_now, file_of. cbn [kw set_kill wfs wnow]. rewrite lookup_empty by assumption. reflexivity. }
  assert (E0 : forall K, creation_ts_of_current c (kw q K) cur_infix (negb (c_append c)) None std_fmt = (Ok (wnow q), kw q K)).
  { intros K. unfold creation_ts_of_current. rewrite (name_of_fixed c (kw q K)) by assumption. fold (nm c cur_infix) (cname c).
    cbv zeta. rewrite Eb. destruct (negb (c_append c)); [|reflexivity].
    unfold collision_free. rewrite tick_kw by exact Q. cbv beta iota. rewrite tick_kw by exact Q. cbv beta iota.
    change (wfs (kw q K)) with (wfs q). rewrite collision_free_infix_empty by assumption. cbv beta iota.
    rewrite p_rename_kw by exact Q. rewrite rename_none by (apply lookup_empty; assumption). rewrite Eb. reflexivity. }
  assert (Hnd : match file_of (wfs q) (cname c) with Some fl => fdir fl | None => false end = false).
  { unfold file_of. rewrite lookup_empty by assumption. reflexivity. }
  assert (Eopen : (if c_append c then open_append (wfs q) (cname c) (wnow q) else open_trunc (wfs q) (cname c) 0%N (wnow q))
                  = create_file (wfs q) (cname c) 0%N (wnow q)).
  { destruct (c_append c); [apply open_append_fresh | apply open_trunc_fresh]; apply lookup_empty; assumption. }
  destruct n as [|n'].
  - unfold initialize. rewrite Hrot. unfold init_naming. rewrite E0. cbn [bind].
    unfold open_log_file. rewrite (name_of_fixed c (kw q 1)) by assumption. fold (nm c cur_infix) (cname c).
    unfold do_symlink. rewrite Hlink. rewrite p_open_kw by exact Q. rewrite Hnd. cbn [eff bind fst snd].
    destruct (roll_new_dead (kw q 0) crit (c_append c) (cname c) (dead_kw q Q)) as [r3 E3]. rewrite E3.
    destruct r3; cbn [bind]; eauto.
  - unfold initialize. rewrite Hrot. unfold init_naming. rewrite E0. cbn [bind].
    unfold open_log_file. rewrite (name_of_fixed c (kw q (S (S n')))) by assumption. fold (nm c cur_infix) (cname c).
    unfold do_symlink. rewrite Hlink. rewrite p_open_kw by exact Q. rewrite Hnd. cbn [eff bind fst snd].
    rewrite !Eopen.
    set (q2 := set_fs q (fst (create_file (wfs q) (cname c) 0%N (wnow q)))).
    assert (Q2 : quiet q2) by (apply quiet_set_fs; exact Q).
    destruct (create_nocur c e lo q [] [] (nocur_empty q Q Hn Hoff Hlo) q2 Q2 Hoff eq_refl eq_refl) as [I2 V2].
    assert (Lc : lookup (wfs q2) (cname c) = Some (snd (create_file (wfs q) (cname c) 0%N (wnow q)))) by exact (ti_cur _ _ _ _ _ _ _ _ (proj1 I2)).
    assert (Fo : file_of (wfs q2) (cname c) = Some (fresh_file (wnow q))).
    { unfold file_of. rewrite Lc. f_equal. unfold q2, create_file. cbn [set_fs wfs fst snd inode]. rewrite Hi. reflexivity. }
    assert (RN : exists roll, roll_new (kw q2 (S n')) crit (c_append c) (cname c) = (Ok roll, kw q2 (S n'))).
    { unfold roll_new. destruct (c_append c).
      - rewrite tick_kw by exact Q2. cbn [kw set_kill wfs]. rewrite Fo. eexists. reflexivity.
      - eexists. reflexivity. }
    destruct RN as [roll Ern]. rewrite Ern. cbn [bind].
    eexists q2, _, roll. split; [reflexivity|].
    split; [exact I2|]. split; [exact V2|]. apply same_env_set_fs; exact Q.
Qed.

(* ---- a dead outcome as the world of a dead process ---- *)
Lemma died_k_dead q w' cl cu : died_k q w' cl cu ->
  exists d, DeadT c e lo (S (length cl)) (wnow q) w' d /\ flatK d = concat cl ++ cu.
Proof.
  intros [qd [d [-> [S [Ho [D [F L]]]]]]]. exists d. split; [|exact F].
  pose proof (deadt_of_quiet c e lo qd d _ (proj1 S) Ho D L) as X. destruct S as [_ [N _]]. rewrite N in X. exact X.
Qed.

(* ---- a write, from either kind of state ---- *)
Lemma write_rel_kt n x a b q m :
  s_w x = kw q (S m) -> GRelT c e lo n (with_w x q) None a -> (wnow q <= hi)%Z -> (N.of_nat n <= usize_max)%N ->
  exists s r w' s' rot, s_flw x = Some s /\ f_poisoned s = false /\
    write_buffer s (s_w x) b = (r, w', s', rot) /\
    ( (r = Ok tt /\ exists a', KRelT c e lo (S n) (wnow q) {| s_flw := Some s'; s_w := w'; s_tl := []; s_dead := s_dead x |} a'
                               /\ flatT a' = flatT a ++ b)
      \/ (exists d, DeadT c e lo (S n) (wnow q) w' d /\ flatK d = flatT a) ).
Proof.
  intros Ew G Hhi Hmax. rewrite Ew. destruct a as [[[[keys cl] cu] ts]|]; cbn [GRelT] in G.
  - destruct G as [E0 [wr [roll [Es [I [V Hn]]]]]]. cbn [with_w s_flw s_w] in Es, I, V. pose proof E0 as [Ht [Ha [Q Ho]]].
    cbn [with_w s_tl s_w] in Ht, Ha, Q, Ho.
    destruct (write_active_kt q wr keys cl ts roll b m I Hhi ltac:(lia)) as [r [w' [s' [rot' [E Out]]]]].
    exists (st_ts c ts roll wr), r, w', s', rot'. split; [exact Es|]. split; [reflexivity|]. split; [exact E|].
    destruct Out as [[q' [n' [wr' [roll' [keys' [cl' [ts' [-> [-> [-> [-> [I' [S' V']]]]]]]]]]]]] | D].
    + left. split; [reflexivity|]. exists (Some (keys', cl', cur_view q' wr', ts')). split.
      * exists q', n'. split; [reflexivity|]. split; [exact (same_env_now _ _ S')|]. cbn [GRelT].
        split. { split; [reflexivity|]. split; [cbn [with_w s_w]; exact (same_env_acts _ _ S' Ha)|]. split; [apply S'|].
                 cbn [with_w s_w]. rewrite (eoff_same_env c _ _ S'). exact Ho. }
        exists wr', roll'. cbn [with_w s_flw s_w]. split; [reflexivity|]. split; [exact I'|]. split; [reflexivity|].
        destruct (rotation_necessary q roll); injection V' as _ -> _ _; rewrite ?app_length; cbn [length]; lia.
      * rewrite V in V'. destruct (rotation_necessary q roll); injection V' as -> -> -> ->; cbn [flatT].
        -- rewrite concat_app. cbn [concat]. rewrite app_nil_r. reflexivity.
        -- rewrite app_assoc. reflexivity.
    + right. destruct (died_k_dead q w' _ _ D) as [d [Dd Fl]]. exists d.
      split; [apply (deadt_mono c e lo (S (length cl))); [lia | exact Dd]|]. rewrite Fl, V. reflexivity.
  - destruct G as [E0 [Es [D Hn]]]. cbn [with_w s_flw s_w dir_ts] in Es, D. pose proof E0 as [Ht [Ha [Q Ho]]].
    cbn [with_w s_tl s_w] in Ht, Ha, Q, Ho. destruct D as [Hnm [Hi Hlo]].
    pose proof (initialize_empty_kt q m Q Hnm Hi Ho Hlo) as IE. destruct m as [|m'].
    + destruct IE as [r0 Ei].
      destruct (wb_initial_dead_e (new_flw c) (kw q 1) b r0 (kw q 0) eq_refl Ei (dead_kw q Q)) as [r [w' [s' [rot [E F]]]]].
      exists (new_flw c), r, w', s', rot. split; [exact Es|]. split; [reflexivity|]. split; [exact E|].
      right. exists KEmpty. split; [|reflexivity].
      assert (D0 : DeadT c e lo (S n) (wnow q) (kw q 0) KEmpty).
      { apply deadt_of_quiet; [exact Q | exact Ho | cbn [dir_k dir_ts]; auto | cbn [closedK length]; lia]. }
      replace (wnow q) with (wnow q + 0)%Z by lia.
      apply (deadt_after c e lo (S n) (wnow q) (kw q 0) w' KEmpty 0 D0); [apply frozen_e_after; exact F | lia].
    + destruct IE as [q1 [wr [roll [Ei [I [V S1]]]]]].
      assert (Hhi1 : (wnow q1 <= hi)%Z) by (rewrite (same_env_now _ _ S1); exact Hhi).
      destruct (write_active_kt q1 wr [] [] (wnow q) roll b m' I Hhi1 ltac:(cbn [length]; lia)) as [r [w' [s' [rot' [E Out]]]]].
      exists (new_flw c), r, w', s', rot'. split; [exact Es|]. split; [reflexivity|].
      split. { rewrite (write_buffer_init c (kw q (S (S m'))) b _ _ _ (kw q1 (S m')) Ei). exact E. }
      destruct Out as [[q' [n2 [wr' [roll' [keys' [cl' [ts' [-> [-> [-> [-> [I' [S' V']]]]]]]]]]]]] | D].
      * left. split; [reflexivity|]. exists (Some (keys', cl', cur_view q' wr', ts')).
        pose proof (same_env_trans _ _ _ S1 S') as S2. split.
        -- exists q', n2. split; [reflexivity|]. split; [exact (same_env_now _ _ S2)|]. cbn [GRelT].
           split. { split; [reflexivity|]. split; [cbn [with_w s_w]; exact (same_env_acts _ _ S2 Ha)|]. split; [apply S2|].
                    cbn [with_w s_w]. rewrite (eoff_same_env c _ _ S2). exact Ho. }
           exists wr', roll'. cbn [with_w s_flw s_w]. split; [reflexivity|]. split; [exact I'|]. split; [reflexivity|].
           destruct (rotation_necessary q1 roll); injection V' as _ -> _ _; cbn [app length]; lia.
        -- rewrite V in V'. cbn [app] in V'. destruct (rotation_necessary q1 roll); injection V' as -> -> -> ->; reflexivity.
      * right. destruct (died_k_dead q1 w' _ _ D) as [d [Dd Fl]]. exists d.
        rewrite (same_env_now _ _ S1) in Dd.
        split; [apply (deadt_mono c e lo 1); [lia | exact Dd]|]. rewrite Fl, V. reflexivity.
Qed.

Lemma krel_flw_t n t x a : KRelT c e lo n t x a -> exists s, s_flw x = Some s /\ f_cfg s = c.
Proof.
  intros [q [m [_ [_ G]]]]. destruct a as [[[[keys cl] cu] ts]|]; cbn [GRelT] in G.
  - destruct G as [_ [wr [roll [Es _]]]]. cbn [with_w s_flw] in Es. rewrite Es. eexists. split; reflexivity.
  - destruct G as [_ [Es _]]. cbn [with_w s_flw] in Es. rewrite Es. eexists. split; reflexivity.
Qed.

Lemma step_sync_kt n t x a o : KRelT c e lo n t x a -> step x o = sync_step x o.
Proof. intros K. destruct (krel_flw_t n t x a K) as [s [Es Ec]]. exact (TsRestart.step_sync_cfg c crit x s o Hcfg Es Ec). Qed.

Lemma krel_tl n t x a : KRelT c e lo n t x a -> s_tl x = [].
Proof.
  intros [q [m [_ [_ G]]]]. destruct a as [[[[keys cl] cu] ts]|]; cbn [GRelT] in G; destruct G as [[Ht _] _]; exact Ht.
Qed.

(* ---- one basic operation of a process with a budget: it either completes (and is acknowledged), or the process
        dies in it, and then the directory holds exactly what was acknowledged before ---- *)
Lemma kstep_kt n t x a o : KRelT c e lo n t x a -> basic_op o -> tick_ok o -> (t <= hi)%Z -> (N.of_nat n <= usize_max)%N ->
  let '(x', ob) := step x o in
  (alive (s_w x') = true /\ exists a', KRelT c e lo (S n) (t + dt_of o) x' a' /\ flatT a' = flatT a ++ written [o])
  \/ (alive (s_w x') = false /\ exists d, DeadT c e lo (S n) (t + dt_of o) (s_w x') d /\ flatK d = flatT a).
Proof.
  intros K Hb Htk Hhi Hmax. rewrite (step_sync_kt n t x a o K). pose proof (krel_tl n t x a K) as Ht.
  destruct K as [q [m [Ew [Hn G]]]]. rewrite <- Hn in Hhi.
  destruct o; try contradiction; cbn [sync_step dt_of written]; rewrite ?Z.add_0_r, ?app_nil_r.
  - (* OWrite *)
    destruct (write_rel_kt n x a b q m Ew G Hhi Hmax) as [s [r [w' [s' [rot [Es [Hp [E Out]]]]]]]]. rewrite Hn in Out.
    rewrite Es, Hp, Ht. cbn [app]. rewrite E.
    destruct Out as [[-> [a' [K' F']]] | [d [D Fl]]].
    + left. split; [|exists a'; split; [exact K' | exact F']].
      destruct K' as [q' [n' [E' _]]]. cbn [s_w] in E' |- *. rewrite E'. reflexivity.
    + right. cbn [s_w].
      assert (Ew' : match r with Err => report EWrite w' | _ => w' end = w') by (destruct r; try reflexivity; apply report_dead; apply D).
      rewrite Ew'. split; [apply dead_not_alive; apply D|]. exists d. split; [exact D | exact Fl].
  - (* OPlain *)
    destruct (write_rel_kt n x a b q m Ew G Hhi Hmax) as [s [r [w' [s' [rot [Es [Hp [E Out]]]]]]]]. rewrite Hn in Out.
    rewrite Es, Hp, E. rewrite Ht.
    destruct Out as [[-> [a' [K' F']]] | [d [D Fl]]].
    + left. split; [|exists a'; split; [exact K' | exact F']].
      destruct K' as [q' [n' [E' _]]]. cbn [s_w] in E' |- *. rewrite E'. reflexivity.
    + right. cbn [s_w]. split; [apply dead_not_alive; apply D|]. exists d. split; [exact D | exact Fl].
  - (* OFlush *)
    destruct a as [[[[keys cl] cu] ts]|]; cbn [GRelT] in G.
    + destruct G as [E0 [wr [roll [Es [I [V Hl]]]]]]. cbn [with_w s_flw s_w] in Es, I, V. rewrite Es. cbn [st_ts f_poisoned].
      destruct (direct_wr_t q wr keys cl ts I) as [Pw _].
      unfold flush_state, st_ts. cbn [f_inner]. rewrite w_flush_nop by exact Pw. rewrite (writer_eta wr Pw).
      cbn [s_w]. left. split; [rewrite Ew; reflexivity|]. exists (Some (keys, cl, cu, ts)). split; [|reflexivity].
      exists q, m. split; [exact Ew|]. split; [exact Hn|]. cbn [GRelT]. split; [exact E0|].
      exists wr, roll. cbn [with_w s_flw s_w]. split; [reflexivity|]. split; [exact I|]. split; [exact V | lia].
    + destruct G as [E0 [Es [D Hl]]]. cbn [with_w s_flw] in Es. rewrite Es. cbn [new_flw f_poisoned flush_state f_inner s_w].
      left. split; [rewrite Ew; reflexivity|]. exists None. split; [|reflexivity].
      exists q, m. split; [exact Ew|]. split; [exact Hn|]. cbn [GRelT]. split; [exact E0|]. split; [reflexivity|]. split; [exact D | lia].
  - (* OTrigger *)
    destruct a as [[[[keys cl] cu] ts]|]; cbn [GRelT] in G.
    + destruct G as [E0 [wr [roll [Es [I [V Hl]]]]]]. cbn [with_w s_flw s_w] in Es, I, V. pose proof E0 as [_ [Ha [Q Ho]]].
      cbn [with_w s_w] in Ha, Q, Ho.
      rewrite Es. cbn [st_ts f_poisoned f_cfg f_inner]. rewrite Ew.
      destruct (direct_wr_t q wr keys cl ts I) as [Pw _].
      destruct (mount_next_kt q wr keys cl ts roll true m I Hhi ltac:(lia) eq_refl) as [f1 [Ern M]]. cbv zeta in Ern, M.
      destruct m as [|[|m']].
      * destruct M as [r1 [st1 E1]]. rewrite E1. right. cbn [s_w]. split; [reflexivity|].
        exists (KCur keys cl (cur_view q wr) ts). split; [|unfold flatK; cbn [closedK ocurK flatT]; rewrite V; reflexivity].
        rewrite <- Hn. apply deadt_of_quiet; [exact Q | exact Ho | exact (tsinvb_dirk q wr keys cl ts I) | cbn [closedK]; lia].
      * destruct M as [r1 [st1 E1]]. rewrite E1. right. cbn [s_w]. split; [reflexivity|].
        exists (KNoCur (keys ++ [(ts, count ts keys)]) (cl ++ [cur_view q wr])). split.
        -- rewrite <- Hn. change (wnow q) with (wnow (set_fs q f1)).
           apply deadt_of_quiet; [apply quiet_set_fs; exact Q | exact Ho | | cbn [closedK]; rewrite app_length; cbn [length]; lia].
           exact (rename_nocur c e lo hi q wr keys cl ts f1 (proj1 I) Pw Hyears Hhi Ern (set_fs q f1) (quiet_set_fs q f1 Q) eq_refl Ho eq_refl).
        -- unfold flatK. cbn [closedK ocurK flatT]. rewrite V, concat_app. cbn [concat]. rewrite !app_nil_r. reflexivity.
      * destruct M as [q' [wr' [roll' [E1 [I' [V' S']]]]]]. rewrite E1. left.
        cbn [code_of with_inner f_cfg f_poisoned s_w]. split; [reflexivity|].
        exists (Some (keys ++ [(ts, count ts keys)], cl ++ [cu], [], wnow q)). split.
        -- exists q', m'. split; [reflexivity|]. split; [rewrite <- Hn; exact (same_env_now _ _ S')|]. cbn [GRelT].
           split. { split; [exact Ht|]. split; [cbn [with_w s_w]; exact (same_env_acts _ _ S' Ha)|]. split; [apply S'|].
                    cbn [with_w s_w]. rewrite (eoff_same_env c _ _ S'). exact Ho. }
           rewrite V in I'. exists wr', roll'. cbn [with_w s_flw s_w]. split; [reflexivity|]. split; [exact I'|]. split; [exact V'|].
           rewrite app_length. cbn [length]. lia.
        -- cbn [flatT]. rewrite concat_app. cbn [concat]. rewrite !app_nil_r. reflexivity.
    + destruct G as [E0 [Es [D Hl]]]. cbn [with_w s_flw] in Es. rewrite Es.
      cbn [new_flw f_poisoned f_cfg f_inner mount_next with_inner code_of s_w].
      left. split; [rewrite Ew; reflexivity|]. exists None. split; [|reflexivity].
      exists q, m. split; [exact Ew|]. split; [exact Hn|]. cbn [GRelT]. split; [exact E0|]. split; [reflexivity|]. split; [exact D | lia].
  - (* OTick *)
    cbn [s_w tick_ok] in *. left. rewrite Ew. split; [reflexivity|]. exists a. split; [|reflexivity].
    exists (set_now q (wnow q + dt)%Z), m. split; [reflexivity|]. split; [cbn [set_now wnow]; lia|].
    destruct a as [[[[keys cl] cu] ts]|]; cbn [GRelT] in *.
    + destruct G as [E0 [wr [roll [Es [I [V Hl]]]]]]. pose proof E0 as [_ [Ha [Q Ho]]].
      split. { split; [exact Ht|]. split; [exact Ha|]. split; [apply quiet_set_now; exact Q | exact Ho]. }
      exists wr, roll. cbn [with_w s_flw s_w] in *. split; [exact Es|]. split; [apply tsinvb_tick; assumption|]. split; [exact V | lia].
    + destruct G as [E0 [Es [D Hl]]]. pose proof E0 as [_ [Ha [Q Ho]]].
      split. { split; [exact Ht|]. split; [exact Ha|]. split; [apply quiet_set_now; exact Q | exact Ho]. }
      split; [exact Es|]. split; [apply dir_ts_tick; assumption | lia].
  - (* OSnap *)
    left. split; [rewrite Ew; reflexivity|]. exists a. split; [|reflexivity]. exists q, m. split; [exact Ew|]. split; [exact Hn|].
    destruct a as [[[[keys cl] cu] ts]|]; cbn [GRelT] in *.
    + destruct G as [E0 [wr [roll [Es [I [V Hl]]]]]]. split; [exact E0|]. exists wr, roll. split; [exact Es|]. split; [exact I|]. split; [exact V | lia].
    + destruct G as [E0 [Es [D Hl]]]. split; [exact E0|]. split; [exact Es|]. split; [exact D | lia].
Qed.

(* ---- the operations after the counter has been armed ---- *)
Lemma krun_kt : forall ops n t x a, KRelT c e lo n t x a -> Forall basic_op ops -> Forall tick_ok ops ->
  (t + elapsed ops <= hi)%Z -> (N.of_nat (n + length ops) <= usize_max)%N ->
  (exists a', KRelT c e lo (n + length ops) (t + elapsed ops) (fst (run x ops)) a' /\ flatT a' = flatT a ++ acked x ops)
  \/ (exists d, DeadT c e lo (n + length ops) (t + elapsed ops) (s_w (fst (run x ops))) d /\ flatK d = flatT a ++ acked x ops).
Proof.
  induction ops as [|o r IH]; intros n t x a K Hb Htk Hhi Hmax.
  - left. exists a. cbn [run fst acked length elapsed]. rewrite app_nil_r, Nat.add_0_r, Z.add_0_r. split; [exact K | reflexivity].
  - inversion Hb as [|o' r' Ho Hr]; subst. inversion Htk as [|o' r' Hto Htr]; subst. rewrite fst_run_cons. cbn [acked length elapsed] in *.
    pose proof (elapsed_nonneg r Htr) as Er.
    assert (Hdt : (0 <= dt_of o)%Z) by (destruct o; cbn [dt_of tick_ok] in *; lia).
    pose proof (kstep_kt n t x a o K Ho Hto ltac:(lia) ltac:(lia)) as St. destruct (step x o) as [x1 ob] eqn:Est. cbn [fst].
    replace (n + S (length r)) with (S n + length r) by lia.
    replace (t + (dt_of o + elapsed r))%Z with (t + dt_of o + elapsed r)%Z by lia.
    destruct St as [[Al [a1 [K1 F1]]] | [Al [d [D Fl]]]]; rewrite Al.
    + destruct (IH (S n) (t + dt_of o)%Z x1 a1 K1 Hr Htr ltac:(lia) ltac:(lia)) as [[a' [K' F']] | [d [D F']]].
      * left. exists a'. split; [exact K'|]. rewrite F', F1, app_assoc. reflexivity.
      * right. exists d. split; [exact D|]. rewrite F', F1, app_assoc. reflexivity.
    + cbn [app]. rewrite (acked_dead r x1 (proj1 D) Hr), app_nil_r.
      right. exists d. split; [|exact Fl].
      apply (deadt_mono c e lo (S n)); [lia|].
      exact (deadt_after c e lo (S n) _ _ _ d (elapsed r) D (dead_run_e r x1 (proj1 D) Hr) Er).
Qed.

(* the acknowledged bytes are the bytes written by a prefix of the operations: the process dies once *)
Lemma acked_prefix_kt : forall ops n t x a, KRelT c e lo n t x a -> Forall basic_op ops -> Forall tick_ok ops ->
  (t + elapsed ops <= hi)%Z -> (N.of_nat (n + length ops) <= usize_max)%N ->
  exists j, acked x ops = written (firstn j ops).
Proof.
  induction ops as [|o r IH]; intros n t x a K Hb Htk Hhi Hmax; [exists 0; reflexivity|].
  inversion Hb as [|o' r' Ho Hr]; subst. inversion Htk as [|o' r' Hto Htr]; subst. cbn [acked length elapsed] in *.
  pose proof (elapsed_nonneg r Htr) as Er.
  assert (Hdt : (0 <= dt_of o)%Z) by (destruct o; cbn [dt_of tick_ok] in *; lia).
  pose proof (kstep_kt n t x a o K Ho Hto ltac:(lia) ltac:(lia)) as St. destruct (step x o) as [x1 ob] eqn:Est. cbn [fst].
  destruct St as [[Al [a1 [K1 _]]] | [Al [d [D _]]]]; rewrite Al.
  - destruct (IH (S n) (t + dt_of o)%Z x1 a1 K1 Hr Htr ltac:(lia) ltac:(lia)) as [j E]. exists (S j). cbn [firstn].
    rewrite E, (written_cons o (firstn j r)). reflexivity.
  - exists 0. rewrite (acked_dead r x1 (proj1 D) Hr). reflexivity.
Qed.

Lemma arm_krel_t n x a k : GRelT c e lo n x None a -> KRelT c e lo n (wnow (s_w x)) (fst (step x (OSetKill k))) a.
Proof.
  intros G.
  assert (E : exists s, s_flw x = Some s /\ f_cfg s = c).
  { destruct a as [[[[keys cl] cu] ts]|]; cbn [GRelT] in G.
    - destruct G as [_ [wr [roll [Es _]]]]. rewrite Es. eexists. split; reflexivity.
    - destruct G as [_ [Es _]]. rewrite Es. eexists. split; reflexivity. }
  destruct E as [s [Es Ec]]. rewrite (TsRestart.step_sync_cfg c crit x s _ Hcfg Es Ec). cbn [sync_step fst].
  exists (s_w x), k. split; [reflexivity|]. split; [reflexivity|].
  unfold with_w. cbn [s_flw s_tl s_dead]. destruct x; exact G.
Qed.

End DirectT.

(* ------------------------------------------------------------------ the directory when no writer is there *)
Definition IdleK (c : config) (e lo : Z) (n : nat) (x : sys) (d : kdir) : Prop :=
  envT c e x /\ s_flw x = None /\ dir_k c e lo (s_w x) d /\ length (closedK d) <= n.

Lemma idleK_of c e lo n x d : IdleK c e lo n x (kd_of d) <-> IdleT c e lo n x d.
Proof. unfold IdleK, IdleT. rewrite dir_k_of, closedK_of. reflexivity. Qed.

Lemma crash_alive_kt c e lo n t x a : c_cap c = None -> KRelT c e lo n t x a ->
  IdleK c e lo n (fst (step x OCrash)) (kd_of a) /\ wnow (s_w (fst (step x OCrash))) = t.
Proof.
  intros Hcap [q [m [Ew [Hn G]]]]. rewrite step_crash. cbn [sync_step fst]. unfold IdleK, envT. cbn [s_tl s_w s_flw]. rewrite Ew.
  change (set_acts (set_kill (kw q (S m)) None) 0) with (calm (kw q (S m))).
  split; [|exact Hn].
  destruct a as [[[[keys cl] cu] ts]|]; cbn [GRelT kd_of closedK dir_k] in *.
  - destruct G as [[_ [_ [Q Ho]]] [wr [roll [Es [I [V Hl]]]]]]. cbn [with_w s_flw s_w] in *.
    split. { split; [reflexivity|]. split; [reflexivity|]. split; [apply quiet_calm; apply Q | exact Ho]. }
    split; [reflexivity|]. split; [|exact Hl]. rewrite <- V.
    apply (dir_k_later c e lo q (calm (kw q (S m))) (KCur keys cl (cur_view q wr) ts)); [|reflexivity | apply quiet_calm; apply Q | apply Z.le_refl | exact Ho].
    exists wr. split; [exact I|]. split; [|reflexivity].
    pose proof (ti_wr _ _ _ _ _ _ _ _ (proj1 I)) as Hw. pose proof (ti_cap _ _ _ _ _ _ _ _ (proj1 I)) as Hc. rewrite Hcap in Hc.
    unfold wr_ok in Hw. rewrite Hc in Hw. exact Hw.
  - destruct G as [[_ [_ [Q Ho]]] [Es [D Hl]]]. cbn [with_w s_flw s_w] in *.
    split. { split; [reflexivity|]. split; [reflexivity|]. split; [apply quiet_calm; apply Q | exact Ho]. }
    split; [reflexivity|]. split; [|cbn [length]; lia].
    apply (dir_k_later c e lo q (calm (kw q (S m))) KEmpty); [exact D | reflexivity | apply quiet_calm; apply Q | apply Z.le_refl | exact Ho].
Qed.

Lemma crash_dead_kt c e lo n t x d : DeadT c e lo n t (s_w x) d ->
  IdleK c e lo n (fst (step x OCrash)) d /\ wnow (s_w (fst (step x OCrash))) = t.
Proof.
  intros [Dw [Hn [He [D L]]]]. rewrite step_crash. cbn [sync_step fst]. unfold IdleK, envT. cbn [s_tl s_w s_flw].
  change (set_acts (set_kill (s_w x) None) 0) with (calm (s_w x)).
  split; [|exact Hn].
  split. { split; [reflexivity|]. split; [reflexivity|]. split; [apply quiet_calm; apply Dw | exact He]. }
  split; [reflexivity|]. split; [exact D | exact L].
Qed.

(* ------------------------------------------------------------------ the whole history of the killed process *)
Lemma kill_history_t c crit t0 off ops1 k ops2 :
  tscfg c crit -> c_cap c = None -> tag_ok c ->
  Forall basic_op ops1 -> Forall basic_op ops2 -> Forall tick_ok ops1 -> Forall tick_ok ops2 ->
  (0 <= t0 + ts_e c off)%Z -> (t0 + elapsed ops1 + elapsed ops2 + ts_e c off < sec_max)%Z ->
  (N.of_nat (1 + length ops1 + length ops2) <= usize_max)%N ->
  let x1 := fst (run (sys0 t0 off) (OStart c :: ops1 ++ [OSetKill k])) in
  let xe := fst (run (sys0 t0 off) (OStart c :: ops1 ++ [OSetKill k] ++ ops2 ++ [OCrash])) in
  (exists d, IdleK c (ts_e c off) t0 (1 + length ops1 + length ops2) xe d
     /\ flatK d = written ops1 ++ acked x1 ops2
     /\ wnow (s_w xe) = (t0 + elapsed ops1 + elapsed ops2)%Z)
  /\ exists j, acked x1 ops2 = written (firstn j ops2).
Proof.
  intros Hcfg Hcap T Hb1 Hb2 Htk1 Htk2 Hlo Hhi Hmax x1 xe. unfold x1, xe. clear x1 xe.
  set (e := ts_e c off) in *. set (hi := (t0 + elapsed ops1 + elapsed ops2)%Z).
  assert (Y : years_ok e t0 hi) by (split; assumption).
  pose proof (elapsed_nonneg ops1 Htk1) as E1. pose proof (elapsed_nonneg ops2 Htk2) as E2.
  rewrite !fst_run_cons, !NumKill.fst_run_app, !fst_run_cons. cbn [run fst].
  pose proof (start_ts c e t0 0 (sys0 t0 off) None (idleT0 c t0 off)) as P0. pose proof (start_now (sys0 t0 off) c) as N0.
  set (x0 := fst (step (sys0 t0 off) (OStart c))) in *. cbn [sys0 s_w world0 wnow] in N0.
  assert (G0 : GRelT c e t0 1 x0 None None) by exact P0.
  destruct (grun_ts c crit e t0 hi None Hcfg T Y ops1 x0 None 1 G0 Hb1 Htk1 ltac:(rewrite N0; unfold hi; lia) ltac:(lia))
    as [a1 [G1 [_ [F1 W1]]]]. rewrite N0 in W1.
  assert (F1' : flatT a1 = written ops1).
  { destruct a1; cbn [gviewT flatT app] in F1; exact F1. }
  set (x1 := fst (run x0 ops1)) in *.
  pose proof (arm_krel_t c crit e t0 Hcfg (1 + length ops1) x1 a1 k G1) as K2. rewrite W1 in K2.
  set (x2 := fst (step x1 (OSetKill k))) in *.
  split.
  - destruct (krun_kt c crit e t0 hi Hcfg Hcap T Y ops2 _ _ x2 a1 K2 Hb2 Htk2 ltac:(unfold hi; lia) ltac:(lia))
      as [[a' [K' F']] | [d [D F']]].
    + destruct (crash_alive_kt c e t0 _ _ _ a' Hcap K') as [Id Wd]. exists (kd_of a').
      split; [exact Id|]. split; [rewrite flatK_of, F', F1'; reflexivity | exact Wd].
    + destruct (crash_dead_kt c e t0 _ _ _ d D) as [Id Wd]. exists d.
      split; [exact Id|]. split; [rewrite F', F1'; reflexivity | exact Wd].
  - exact (acked_prefix_kt c crit e t0 hi Hcfg Hcap T Y ops2 _ _ x2 a1 K2 Hb2 Htk2 ltac:(unfold hi; lia) ltac:(lia)).
Qed.

(* ------------------------------------------------------------------ the reader's view, current file optional *)
(* ts_view (TsRun.v) with an optional rCURRENT: a kill between the rename of rCURRENT and the creation of the new one leaves none *)
Definition ts_view_opt (c : config) (e : Z) (f : fs) (keys : list key) (closed : list bytes) (ocur : option bytes) : Prop :=
  length keys = length closed
  /\ (forall i, i < length closed ->
        exists j, lookup f (kname c e (nth i keys kd)) = Some j /\ plain (inode f j) /\ content f j = nth i closed [])
  /\ match ocur with
     | Some cur => exists j, lookup f (cname c) = Some j /\ plain (inode f j) /\ content f j = cur
     | None => lookup f (cname c) = None
     end
  /\ (forall n j, lookup f n = Some j -> n = cname c \/ exists i, i < length closed /\ n = kname c e (nth i keys kd))
  /\ NoDup (dir_names f).

Lemma ts_view_opt_some c e f keys closed cur : ts_view_opt c e f keys closed (Some cur) <-> ts_view c e f keys closed cur.
Proof. unfold ts_view_opt, ts_view. tauto. Qed.

Lemma ts_view_opt_spec c c' e f keys closed ocur : c_spec c = c_spec c' ->
  ts_view_opt c e f keys closed ocur -> ts_view_opt c' e f keys closed ocur.
Proof.
  intros E [Hlen [Hcl [Hcur [Hon Hnd]]]]. pose proof (cname_spec_eq c c' E) as En. unfold ts_view_opt. rewrite <- En.
  split; [exact Hlen|]. split; [|split; [exact Hcur|split; [|exact Hnd]]].
  - intros i Hi. rewrite <- (kname_spec_eq c c' e _ E). exact (Hcl i Hi).
  - intros n j L. destruct (Hon n j L) as [->|[i [Hi ->]]]; [left; reflexivity | right].
    exists i. split; [exact Hi | apply kname_spec_eq; exact E].
Qed.

Lemma idleK_view c0 e lo n x d : IdleK c0 e lo n x d ->
  (forall c, c_spec c = c_spec c0 -> ts_view_opt c e (wfs (s_w x)) (keysK d) (closedK d) (ocurK d))
  /\ keys_ok (keysK d) /\ (forall k, In k (keysK d) -> (lo <= fst k <= wnow (s_w x))%Z).
Proof.
  intros [_ [_ [D _]]].
  assert (X : ts_view_opt c0 e (wfs (s_w x)) (keysK d) (closedK d) (ocurK d)
              /\ keys_ok (keysK d) /\ (forall k, In k (keysK d) -> (lo <= fst k <= wnow (s_w x))%Z)).
  { destruct d as [|keys closed cur ts|keys closed]; cbn [dir_k dir_ts keysK closedK ocurK] in *.
    - destruct D as [Hn _]. split; [|split; [constructor | intros k []]].
      split; [reflexivity|]. split; [intros i Hi; cbn in Hi; lia|]. split; [apply lookup_empty; exact Hn|].
      split; [intros m j L; rewrite lookup_empty in L by assumption; discriminate|]. unfold dir_names. rewrite Hn. constructor.
    - destruct D as [wr [[I B] [Hp V]]]. pose proof I as [Q W Hnd Hoff Hc Hcp Hlen Hcl Hon Hko Hrg Htsr Hwr Hcap].
      split; [|split; [exact Hko | intros k Ik; specialize (Hrg k Ik); lia]].
      split; [exact Hlen|]. split.
      { intros i Hi. destruct (Hcl i Hi) as [j [Lj [Pj [Cj _]]]]. eauto. }
      split; [|split; [exact Hon | exact Hnd]].
      exists (wino wr). split; [exact Hc|]. split; [exact Hcp|]. unfold cur_view in V. rewrite Hp, app_nil_r in V. exact V.
    - destruct D as [Q W Hnd Hoff Hnc Hlen Hcl Hon Hko Hrg Hlo].
      split; [|split; [exact Hko | exact Hrg]].
      split; [exact Hlen|]. split; [exact Hcl|]. split; [exact Hnc|]. split; [|exact Hnd].
      intros m j L. right. exact (Hon m j L). }
  destruct X as [V [K R]]. split; [|split; [exact K | exact R]].
  intros c Ec. apply (ts_view_opt_spec c0 c); [symmetry; exact Ec | exact V].
Qed.

(* ------------------------------------------------------------------ THE THEOREM *)
(* After any history  OStart c :: ops1 ++ [OSetKill k] ++ ops2 ++ [OCrash]  from the empty directory (Timestamps naming, no
   cleanup, direct mode; ops1, ops2 any basic operations, the clock never goes back; any kill point k) the directory consists
   exactly of the closed files named by keys (second of creation, position within the second) - in the order of their closing -
   and rCURRENT IF IT EXISTS (a kill between the rename of rCURRENT and the creation of the new one leaves none: then all
   files are closed files; keys = closed = [] and no rCURRENT: the empty directory).  Read in this order the files hold
   exactly the acknowledged records: the payloads written by ops1 and those written by the operations of ops2 after which
   the process was still alive.  keys_ok keys: pairwise distinct names, increasing in the order of closing. *)
Theorem timestamps_kill_keeps_acked c crit t0 off ops1 k ops2 :
  tscfg c crit -> tag_ok c -> c_cap c = None ->
  Forall basic_op ops1 -> Forall basic_op ops2 -> Forall tick_ok ops1 -> Forall tick_ok ops2 ->
  let e := ts_e c off in
  (0 <= t0 + e)%Z -> (t0 + elapsed ops1 + elapsed ops2 + e < sec_max)%Z ->
  (N.of_nat (1 + length ops1 + length ops2) <= usize_max)%N ->
  let x1 := fst (run (sys0 t0 off) (OStart c :: ops1 ++ [OSetKill k])) in
  let xe := fst (run (sys0 t0 off) (OStart c :: ops1 ++ [OSetKill k] ++ ops2 ++ [OCrash])) in
  exists keys closed ocur,
    ts_view_opt c e (wfs (s_w xe)) keys closed ocur
    /\ keys_ok keys
    /\ (forall key, In key keys -> (t0 <= fst key <= t0 + elapsed ops1 + elapsed ops2)%Z)
    /\ concat closed ++ (match ocur with Some cu => cu | None => [] end) = written ops1 ++ acked x1 ops2.
Proof.
  intros Hcfg T Hcap Hb1 Hb2 Htk1 Htk2 e Hlo Hhi Hmax x1 xe.
  destruct (kill_history_t c crit t0 off ops1 k ops2 Hcfg Hcap T Hb1 Hb2 Htk1 Htk2 Hlo Hhi Hmax) as [[d [Id [F W]]] _].
  fold xe in Id, W. fold x1 in F. fold e in Id.
  destruct (idleK_view c e t0 _ xe d Id) as [V [K Rg]].
  exists (keysK d), (closedK d), (ocurK d). split; [exact (V c eq_refl)|]. split; [exact K|].
  split; [intros key Ik; specialize (Rg key Ik); rewrite W in Rg; exact Rg | exact F].
Qed.
Print Assumptions timestamps_kill_keeps_acked.

(* what is acknowledged is what a prefix of ops2 wrote *)
Theorem acked_is_prefix_ts c crit t0 off ops1 k ops2 :
  tscfg c crit -> tag_ok c -> c_cap c = None ->
  Forall basic_op ops1 -> Forall basic_op ops2 -> Forall tick_ok ops1 -> Forall tick_ok ops2 ->
  (0 <= t0 + ts_e c off)%Z -> (t0 + elapsed ops1 + elapsed ops2 + ts_e c off < sec_max)%Z ->
  (N.of_nat (1 + length ops1 + length ops2) <= usize_max)%N ->
  exists j, acked (fst (run (sys0 t0 off) (OStart c :: ops1 ++ [OSetKill k]))) ops2 = written (firstn j ops2).
Proof.
  intros Hcfg T Hcap Hb1 Hb2 Htk1 Htk2 Hlo Hhi Hmax.
  exact (proj2 (kill_history_t c crit t0 off ops1 k ops2 Hcfg Hcap T Hb1 Hb2 Htk1 Htk2 Hlo Hhi Hmax)).
Qed.
Print Assumptions acked_is_prefix_ts.

(* ------------------------------------------------------------------ examples (non-vacuity): every kill point of a small history *)
Open Scope string_scope.
(* direct mode, size criterion 3 *)
Definition tsk_cfg (app : bool) : config := ext_cfg (ex_sp "log") app (CSize 3) None false.
Definition tsk_ops1 : list op := [OWrite (bs "abcd"); OWrite (bs "ef")].
Definition tsk_ops2 : list op := [OTrigger; OWrite (bs "gh"); OTick 1; OSnap; OWrite (bs "ijkl"); OWrite (bs "m")].
Definition tsk_hist (app : bool) (k : nat) : list op := OStart (tsk_cfg app) :: tsk_ops1 ++ [OSetKill k] ++ tsk_ops2 ++ [OCrash].
Definition tsk_armed (app : bool) (k : nat) : sys := fst (run (sys0 0 0) (OStart (tsk_cfg app) :: tsk_ops1 ++ [OSetKill k])).

Lemma tsk_cfg_ok app : tscfg (tsk_cfg app) (CSize 3).
Proof. apply ext_cfg_ok. reflexivity. Qed.
Lemma tsk_tag_ok app : tag_ok (tsk_cfg app).
Proof. apply tag_free_ok. split; vm_compute; reflexivity. Qed.
Lemma tsk_basic1 : Forall basic_op tsk_ops1.
Proof. repeat constructor. Qed.
Lemma tsk_basic2 : Forall basic_op tsk_ops2.
Proof. repeat constructor. Qed.
Lemma tsk_ticks1 : Forall tick_ok tsk_ops1.
Proof. repeat constructor. Qed.
Lemma tsk_ticks2 : Forall tick_ok tsk_ops2.
Proof. repeat (apply Forall_cons; [cbn [tick_ok]; first [exact Logic.I | lia]|]); apply Forall_nil. Qed.

(* the kill points of this history (before it: "abcd" closed as <00>, rCURRENT = "ef", born in second 0):
   0 - the rename of rCURRENT (the trigger) is the kill point: nothing changes;
   1 - rCURRENT is renamed to <00>.restart-0000, the creation of the new one is the kill point: NO rCURRENT;
   2 - the trigger is completed (acknowledged, it writes nothing), the write of "gh" is the kill point: rCURRENT is empty;
   3 - "gh" is written, the write of "ijkl" is the kill point;  4 - "ijkl" is written; the write of "m" rotates (6 > 3), its
   rename is the kill point;  5 - renamed (to <00>.restart-0001: rCURRENT was born in second 0, the clock shows 1), the creation
   is the kill point: NO rCURRENT;  6 - created, the write of "m" is the kill point;  7 - everything happens *)
Example tsk_kill_points_dirs :
  List.map (fun k => snap_of (fst (run (sys0 0 0) (tsk_hist false k)))) [0; 1; 2; 3; 4; 5; 6; 7]
  = [ [ (bs "app_r1970-01-01_00-00-00.log", 0%N, bs "abcd"); (bs "app_rCURRENT.log", 0%N, bs "ef") ];
      [ (bs "app_r1970-01-01_00-00-00.log", 0%N, bs "abcd"); (bs "app_r1970-01-01_00-00-00.restart-0000.log", 0%N, bs "ef") ];
      [ (bs "app_r1970-01-01_00-00-00.log", 0%N, bs "abcd"); (bs "app_r1970-01-01_00-00-00.restart-0000.log", 0%N, bs "ef");
        (bs "app_rCURRENT.log", 0%N, []) ];
      [ (bs "app_r1970-01-01_00-00-00.log", 0%N, bs "abcd"); (bs "app_r1970-01-01_00-00-00.restart-0000.log", 0%N, bs "ef");
        (bs "app_rCURRENT.log", 0%N, bs "gh") ];
      [ (bs "app_r1970-01-01_00-00-00.log", 0%N, bs "abcd"); (bs "app_r1970-01-01_00-00-00.restart-0000.log", 0%N, bs "ef");
        (bs "app_rCURRENT.log", 0%N, bs "ghijkl") ];
      [ (bs "app_r1970-01-01_00-00-00.log", 0%N, bs "abcd"); (bs "app_r1970-01-01_00-00-00.restart-0000.log", 0%N, bs "ef");
        (bs "app_r1970-01-01_00-00-00.restart-0001.log", 0%N, bs "ghijkl") ];
      [ (bs "app_r1970-01-01_00-00-00.log", 0%N, bs "abcd"); (bs "app_r1970-01-01_00-00-00.restart-0000.log", 0%N, bs "ef");
        (bs "app_r1970-01-01_00-00-00.restart-0001.log", 0%N, bs "ghijkl"); (bs "app_rCURRENT.log", 0%N, []) ];
      [ (bs "app_r1970-01-01_00-00-00.log", 0%N, bs "abcd"); (bs "app_r1970-01-01_00-00-00.restart-0000.log", 0%N, bs "ef");
        (bs "app_r1970-01-01_00-00-00.restart-0001.log", 0%N, bs "ghijkl"); (bs "app_rCURRENT.log", 0%N, bs "m") ] ]
  /\ List.map (fun k => acked (tsk_armed false k) tsk_ops2) [0; 1; 2; 3; 4; 5; 6; 7]
     = [ []; []; []; bs "gh"; bs "ghijkl"; bs "ghijkl"; bs "ghijkl"; bs "ghijklm" ]
  (* the append flag makes no difference for the killed writer *)
  /\ List.map (fun k => snap_of (fst (run (sys0 0 0) (tsk_hist true k)))) [0; 1; 2; 3; 4; 5; 6; 7]
     = List.map (fun k => snap_of (fst (run (sys0 0 0) (tsk_hist false k)))) [0; 1; 2; 3; 4; 5; 6; 7].
Proof. vm_compute. repeat split; reflexivity. Qed.

(* kill point 5: the directory without rCURRENT *)
Example tsk_kill_instance :
  exists keys closed ocur,
    ts_view_opt (tsk_cfg false) 0 (wfs (s_w (fst (run (sys0 0 0) (tsk_hist false 5))))) keys closed ocur /\ keys_ok keys
    /\ concat closed ++ (match ocur with Some cu => cu | None => [] end) = bs "abcdefghijkl".
Proof.
  destruct (timestamps_kill_keeps_acked (tsk_cfg false) (CSize 3) 0 0 tsk_ops1 5 tsk_ops2 (tsk_cfg_ok false) (tsk_tag_ok false)
              eq_refl tsk_basic1 tsk_basic2 tsk_ticks1 tsk_ticks2) as [keys [closed [ocur [V [K [_ E]]]]]];
    [change (0 <= 0)%Z; lia | change (1 + 0 < sec_max)%Z; unfold sec_max; lia | vm_compute; discriminate |].
  exists keys, closed, ocur. split; [exact V|]. split; [exact K|]. rewrite E. vm_compute. reflexivity.
Qed.

(* a kill in the very first write: the creation of rCURRENT is the kill point (nothing is renamed in the empty directory), the
   directory stays empty; one effect later the empty rCURRENT is there *)
Example tsk_kill_in_first_write :
  List.map (fun k => snap_of (fst (run (sys0 0 0) (OStart (tsk_cfg true) :: [] ++ [OSetKill k] ++ [OWrite (bs "a")] ++ [OCrash])))) [0; 1; 2]
  = [ []; [ (bs "app_rCURRENT.log", 0%N, []) ]; [ (bs "app_rCURRENT.log", 0%N, bs "a") ] ].
Proof. vm_compute. reflexivity. Qed.

Print Assumptions timestamps_kill_keeps_acked.
Print Assumptions acked_is_prefix_ts.
