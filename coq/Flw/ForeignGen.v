(* Foreign files, the run level, generic in the naming: if, on the states that the run in the clean directory passes
   through (good), writing a buffer and a forced rotation commute with the embedding into a directory with foreign
   files, then so does every history OStart c :: ops ++ [OStop] of basic operations, snapshots included.
   (NumForeign.v does this for Numbers naming; the definitions embedx, strip_obs, fs0f, sys0f, foreign_ignored and
   the lemma about the snapshot are taken from there.) *)
Require Import FL.Base.Bytes FL.Base.BytesFacts FL.Base.PathName FL.Fs.Fs FL.Fs.FsFacts FL.Time.Civil FL.Time.TsFormat
  FL.Names.FileSpec FL.Names.NamesFacts FL.Names.SortFacts FL.Names.FamilyFacts
  FL.Flw.Model FL.Flw.ModelFacts FL.Flw.NumFs FL.Flw.NumInv FL.Flw.Run FL.Flw.RunFacts FL.Flw.NumRun FL.Flw.NumTheorems
  FL.Flw.NumListing FL.Flw.ForeignFs FL.Flw.ForeignSort FL.Flw.ForeignModel FL.Flw.NumForeign.
From Coq Require Import ZifyN ZifyNat ZifyBool.
Open Scope nat_scope.

(* the snapshot needs no writer *)
Lemma step_snap x : step x OSnap = (x, snapshot (s_w x)).
Proof.
  unfold step, apply_start. cbn [names_computed andb].
  assert (E : match s_flw x with Some _ => x | None => x end = x) by (destruct (s_flw x); reflexivity).
  rewrite E. unfold step_core. destruct (s_flw x) as [s|]; [|reflexivity]. destruct (is_async s); reflexivity.
Qed.

Section GenRun.
Variable fn : list (bytes * nat).
Variable fi : list file.
Variable c : config.
Variable good : sys -> Prop.          (* the states of the run in the clean directory *)
Hypothesis Hts : fts (c_spec c) = false.
Hypothesis Hasync : c_async c = false.
Hypothesis Hgood_cfg : forall x s, good x -> s_flw x = Some s -> f_cfg s = c /\ f_poisoned s = false.
Hypothesis HW : forall x s b, good x -> s_flw x = Some s ->
  write_buffer (embeds fi s) (embedw fn fi (s_w x)) b = lwb fn fi (write_buffer s (s_w x) b).
Hypothesis HM : forall x s, good x -> s_flw x = Some s ->
  mount_next c (embedw fn fi (s_w x)) (shin fi (f_inner s)) true = lm fn fi (mount_next c (s_w x) (f_inner s) true).
Notation fnm := (fnames fn).
Notation embw := (embedw fn fi).
Notation embs := (embeds fi).
Notation embx := (embedx fn fi).

Lemma step_sync_cfg x o : (forall s, s_flw x = Some s -> f_cfg s = c) -> step x o = sync_step x o.
Proof.
  intros G.
  rewrite step_plain by (intros s Es; rewrite (G s Es); exact Hts).
  unfold step_core. destruct (s_flw x) as [s|] eqn:Es; [|reflexivity].
  unfold is_async. rewrite (G s eq_refl), Hasync. reflexivity.
Qed.

Lemma step_sync_clean x o : good x -> step x o = sync_step x o.
Proof. intros G. apply step_sync_cfg. intros s Es. apply (Hgood_cfg x s G Es). Qed.

Lemma step_sync_emb x o : good x -> step (embx x) o = sync_step (embx x) o.
Proof.
  intros G. apply step_sync_cfg. intros s Es. unfold embedx in Es. cbn [s_flw] in Es.
  destruct (s_flw x) as [s0|] eqn:E0; [|discriminate]. injection Es as <-. cbn [embeds f_cfg]. apply (Hgood_cfg x s0 G E0).
Qed.

Lemma sync_step_embed_g x o : good x -> run_op o ->
  sync_step (embx x) o = (embx (fst (sync_step x o)), snd (sync_step x o)).
Proof.
  intros G Ho. destruct o; try contradiction; cbn [sync_step embedx s_flw s_w s_tl s_dead].
  - (* OWrite *)
    destruct (s_flw x) as [s|] eqn:Es; [|reflexivity]. destruct (Hgood_cfg x s G Es) as [Ec Hp].
    change (f_poisoned (embs s)) with (f_poisoned s). rewrite Hp.
    rewrite (HW x s _ G Es).
    destruct (write_buffer s (s_w x) (s_tl x ++ b)) as [[[r w1] s1] rot]. cbn [lwb].
    destruct r; cbn [fst snd embedx s_flw s_w s_tl s_dead]; try reflexivity. rewrite report_embed. reflexivity.
  - (* OPlain *)
    destruct (s_flw x) as [s|] eqn:Es; [|reflexivity]. destruct (Hgood_cfg x s G Es) as [Ec Hp].
    change (f_poisoned (embs s)) with (f_poisoned s). rewrite Hp.
    rewrite (HW x s _ G Es).
    destruct (write_buffer s (s_w x) b) as [[[r w1] s1] rot]. reflexivity.
  - (* OFlush *)
    destruct (s_flw x) as [s|] eqn:Es; [|reflexivity]. destruct (Hgood_cfg x s G Es) as [Ec Hp].
    change (f_poisoned (embs s)) with (f_poisoned s). rewrite Hp.
    rewrite flush_state_embed. destruct (flush_state s (s_w x)) as [[ok w1] s1]. reflexivity.
  - (* OTrigger *)
    destruct (s_flw x) as [s|] eqn:Es; [|reflexivity]. destruct (Hgood_cfg x s G Es) as [Ec Hp].
    change (f_poisoned (embs s)) with (f_poisoned s). rewrite Hp.
    change (f_cfg (embs s)) with (f_cfg s). change (f_inner (embs s)) with (shin fi (f_inner s)). rewrite Ec.
    rewrite (HM x s G Es).
    destruct (mount_next c (s_w x) (f_inner s) true) as [[r w1] st1]. cbn [lm]. destruct r; reflexivity.
  - (* OStop *)
    destruct (s_flw x) as [s|] eqn:Es; [|reflexivity]. destruct (Hgood_cfg x s G Es) as [Ec Hp].
    change (f_poisoned (embs s)) with (f_poisoned s). rewrite Hp. rewrite drop_state_embed. reflexivity.
  - (* OTick *) reflexivity.
Qed.

Lemma step_embed_g x o : good x -> run_op o ->
  step (embx x) o = (embx (fst (step x o)), snd (step x o)).
Proof.
  intros G Ho. rewrite (step_sync_emb x o G), (step_sync_clean x o G). apply sync_step_embed_g; assumption.
Qed.

(* a state of the clean run whose directory holds no name of the stock *)
Definition fam_g (x : sys) : Prop := good x /\ forall n, In n (dir_names (wfs (s_w x))) -> ~ In n fnm.

Lemma step_embed_fam_g x o : fam_g x -> basic_op o ->
  fst (step (embx x) o) = embx (fst (step x o))
  /\ strip_obs fnm (snd (step (embx x) o)) = snd (step x o)
  /\ (o <> OSnap -> snd (step (embx x) o) = snd (step x o)).
Proof.
  intros [G Hown] Hb. destruct o; try contradiction;
    try (rewrite step_embed_g by (try exact G; exact Logic.I); cbn [fst snd]; split; [reflexivity|]; split; [|reflexivity];
         rewrite (step_sync_clean x _ G); cbn [sync_step];
         repeat match goal with
                | |- context [match ?X with _ => _ end] => destruct X
                end; reflexivity).
  (* OSnap *)
  rewrite !step_snap. cbn [fst snd]. split; [reflexivity|]. split; [|congruence].
  cbn [embedx s_w]. apply snapshot_embed. exact Hown.
Qed.

Lemma run_embed_g : forall ops x, (forall i, fam_g (fst (run x (firstn i ops)))) -> Forall basic_op ops ->
  fst (run (embx x) ops) = embx (fst (run x ops))
  /\ List.map (strip_obs fnm) (snd (run (embx x) ops)) = snd (run x ops)
  /\ (Forall (fun o => o <> OSnap) ops -> snd (run (embx x) ops) = snd (run x ops)).
Proof.
  induction ops as [|o r IH]; intros x F Hb; [repeat split|].
  inversion Hb as [|o' r' Ho Hr]; subst. cbn [run].
  pose proof (step_embed_fam_g x o (F 0) Ho) as [E1 [E2 E3]].
  assert (F1 : forall i, fam_g (fst (run (fst (step x o)) (firstn i r)))).
  { intros i. specialize (F (S i)). cbn [firstn run] in F. destruct (step x o) as [x1 ob]. cbn [fst].
    destruct (run x1 (firstn i r)) as [x2 obs]. exact F. }
  destruct (step (embx x) o) as [xf1 obf] eqn:Ef. destruct (step x o) as [x1 ob] eqn:Ex. cbn [fst snd] in *.
  subst xf1. specialize (IH x1 F1 Hr).
  destruct (run (embx x1) r) as [xf2 obsf]. destruct (run x1 r) as [x2 obs]. cbn [fst snd] in *.
  destruct IH as [I1 [I2 I3]]. split; [exact I1|]. split.
  - cbn [List.map]. rewrite E2, I2. reflexivity.
  - intros Hs. inversion Hs as [|o'' r'' Hso Hsr]. rewrite (E3 Hso), (I3 Hsr). reflexivity.
Qed.

Lemma run_full_embed_g t0 off ops : Forall basic_op ops ->
  (forall i, fam_g (fst (run (fst (step (sys0 t0 off) (OStart c))) (firstn i ops)))) ->
  let ops' := OStart c :: ops ++ [OStop] in
  fst (run (embx (sys0 t0 off)) ops') = embx (fst (run (sys0 t0 off) ops'))
  /\ List.map (strip_obs fnm) (snd (run (embx (sys0 t0 off)) ops')) = snd (run (sys0 t0 off) ops')
  /\ (Forall (fun o => o <> OSnap) ops -> snd (run (embx (sys0 t0 off)) ops') = snd (run (sys0 t0 off) ops')).
Proof.
  intros Hb F ops'. subst ops'. cbn [run].
  assert (E0 : step (embx (sys0 t0 off)) (OStart c) = (embx (fst (step (sys0 t0 off) (OStart c))), ObsRes 0 false)) by reflexivity.
  rewrite E0. clear E0.
  destruct (step (sys0 t0 off) (OStart c)) as [x0 ob0] eqn:Ex0.
  assert (Eob : ob0 = ObsRes 0 false) by (cbn in Ex0; congruence).
  cbn [fst] in *. rewrite !run_app.
  pose proof (run_embed_g ops x0 F Hb) as [E1 [E2 E3]].
  pose proof (F (length ops)) as [G1 _]. rewrite firstn_all in G1.
  destruct (run (embx x0) ops) as [xf1 obsf1]. destruct (run x0 ops) as [x1 obs1]. cbn [fst snd] in *. subst xf1.
  cbn [run]. pose proof (step_embed_g x1 OStop G1 Logic.I) as ES.
  assert (Eob2 : strip_obs fnm (snd (step x1 OStop)) = snd (step x1 OStop)).
  { rewrite (step_sync_clean x1 _ G1). cbn [sync_step]. destruct (s_flw x1); reflexivity. }
  destruct (step (embx x1) OStop) as [xf2 obf2]. destruct (step x1 OStop) as [x2 ob2]. cbn [fst snd] in *.
  injection ES as -> ->.
  split; [reflexivity|]. split.
  - cbn [List.map]. rewrite map_app, E2, Eob. cbn [List.map]. rewrite Eob2. reflexivity.
  - intros Hs. rewrite (E3 Hs), Eob. reflexivity.
Qed.

End GenRun.

(* the common part of the end-to-end theorems: it suffices that the states of the run in the empty directory are of the
   kind considered (on which a write and a forced rotation commute with the embedding) and that no directory of the run
   holds a foreign name *)
Lemma foreign_ignored_g c (good : sys -> Prop) t0 off foreign ops :
  fts (c_spec c) = false -> c_async c = false ->
  (forall x s, good x -> s_flw x = Some s -> f_cfg s = c /\ f_poisoned s = false) ->
  (forall x s b, good x -> s_flw x = Some s ->
     write_buffer (embeds (inodes (fs0f t0 foreign)) s) (embedw (names (fs0f t0 foreign)) (inodes (fs0f t0 foreign)) (s_w x)) b
     = lwb (names (fs0f t0 foreign)) (inodes (fs0f t0 foreign)) (write_buffer s (s_w x) b)) ->
  (forall x s, good x -> s_flw x = Some s ->
     mount_next c (embedw (names (fs0f t0 foreign)) (inodes (fs0f t0 foreign)) (s_w x)) (shin (inodes (fs0f t0 foreign)) (f_inner s)) true
     = lm (names (fs0f t0 foreign)) (inodes (fs0f t0 foreign)) (mount_next c (s_w x) (f_inner s) true)) ->
  Forall basic_op ops -> NoDup (List.map fst foreign) ->
  (forall i, fam_g (names (fs0f t0 foreign)) good (fst (run (fst (step (sys0 t0 off) (OStart c))) (firstn i ops)))) ->
  (forall n, In n (List.map fst foreign) ->
     lookup (wfs (s_w (fst (run (sys0 t0 off) (OStart c :: ops ++ [OStop]))))) n = None) ->
  foreign_ignored c t0 off foreign ops.
Proof.
  intros Hts Hasync Hcfg HW HM Hb ND F E4. unfold foreign_ignored. cbv zeta.
  set (ops' := OStart c :: ops ++ [OStop]) in *.
  destruct (fs0f_spec t0 foreign ND) as [Hd [Hbd Hf]].
  set (fn := names (fs0f t0 foreign)) in *. set (fi := inodes (fs0f t0 foreign)) in *.
  assert (Hfn : fnames fn = List.map fst foreign) by exact Hd.
  rewrite sys0f_embed. fold fn fi.
  destruct (run_full_embed_g fn fi c good Hts Hasync Hcfg HW HM t0 off ops Hb F) as [E1 [E2 E3]].
  fold ops' in E1, E2, E3. rewrite Hfn in E2.
  assert (Est : stock fn fi = fs0f t0 foreign) by (unfold stock, fn, fi; destruct (fs0f t0 foreign); reflexivity).
  split; [exact E2|]. split; [exact E3|]. rewrite E1. cbn [embedx s_w]. unfold embedw. cbn [set_fs wfs].
  split; [|split; [|split; [|reflexivity]]].
  - intros n d Hin. rewrite file_of_embed_stock.
    + rewrite Est. apply Hf. exact Hin.
    + apply E4. apply (in_map fst) in Hin. exact Hin.
    + rewrite Est. intros j Hj. apply Hbd in Hj. exact Hj.
  - intros n Hn. apply file_of_embed_own. rewrite Hfn. exact Hn.
  - intros n Hn. unfold file_of. rewrite (E4 n Hn). reflexivity.
Qed.

(* ------------------------------------------------------------------ shared facts about the listing *)
Section GenList.
Variable fn : list (bytes * nat).
Variable fi : list file.
Notation emb := (embed fn fi).
Notation fnm := (fnames fn).

(* one listing with a filter that rejects the foreign names *)
Lemma filter_files_embed off sp_sfx fixed f flt o :
  (forall n, In n fnm -> qf off sp_sfx fixed flt o n = false) ->
  filter_files off sp_sfx fixed (related_files (emb f) sp_sfx fixed) flt o
  = filter_files off sp_sfx fixed (related_files f sp_sfx fixed) flt o.
Proof.
  intros H. rewrite !filter_files_total. f_equal. apply filter_related_embed. exact H.
Qed.

Lemma lookup_is_some_embed f n : ~ In n fnm ->
  match lookup (emb f) n with Some _ => true | None => false end = match lookup f n with Some _ => true | None => false end.
Proof. intros H. rewrite lookup_embed_own by exact H. destruct (lookup f n); reflexivity. Qed.
End GenList.

Section GenList2.
Variable fn : list (bytes * nat).
Variable fi : list file.
Notation emb := (embed fn fi).
Notation fnm := (fnames fn).

(* the listing of the rotated files, plain and compressed *)
Lemma list_log_gz_embed_g off sp fixed f flt :
  (forall n, In n fnm -> qf off (fsfx sp) fixed flt (fsfx sp) n = false) ->
  (forall n, In n fnm -> qf off (fsfx sp) fixed flt (Some gz_sfx) n = false) ->
  list_log_gz off sp fixed (emb f) flt = list_log_gz off sp fixed f flt.
Proof.
  intros Hp Hg. unfold list_log_gz, existing_rot, sel_log_gz. cbn [sel_plain sel_gz sel_rcur sel_custom].
  rewrite !(filter_files_embed fn fi) by assumption. reflexivity.
Qed.

(* writing a buffer, from the two steps that depend on the naming: the initialisation of a new writer and the
   rotation check of the state that is there after it *)
Lemma write_buffer_embed_pt c s w b : f_cfg s = c ->
  (f_inner s = Initial ->
     initialize c (embedw fn fi w) = (shres fi (fst (initialize c w)), embedw fn fi (snd (initialize c w)))) ->
  (forall w0 st0,
     match f_inner s with
     | Initial => match initialize c w with (Ok i, w') => Some (w', i) | _ => None end
     | i => Some (w, i)
     end = Some (w0, st0) ->
     mount_next c (embedw fn fi w0) (shin fi st0) false = lm fn fi (mount_next c w0 st0 false)) ->
  write_buffer (embeds fi s) (embedw fn fi w) b = lwb fn fi (write_buffer s w b).
Proof.
  intros Ec HI HMn. destruct s as [c0 st p]. cbn [f_cfg f_inner f_poisoned] in *. subst c0.
  unfold write_buffer. cbn [embeds f_cfg f_inner f_poisoned].
  match goal with |- (match ?Y with _ => _ end) = lwb _ _ (match ?X with _ => _ end) => set (Y0 := Y); set (X0 := X) end.
  assert (E0 : Y0 = lm fn fi X0 /\ forall w0 st0, X0 = (Ok tt, w0, st0) ->
                 mount_next c (embedw fn fi w0) (shin fi st0) false = lm fn fi (mount_next c w0 st0 false)).
  { subst Y0 X0. destruct st as [|o wr path].
    - cbn [shin]. rewrite (HI eq_refl). destruct (initialize c w) as [r w'] eqn:Ei. cbn [fst snd].
      destruct r as [i| |]; cbn [shres lm]; (split; [reflexivity|]); intros w0 st0 H; try discriminate.
      injection H as <- <-. apply HMn. reflexivity.
    - cbn [shin lm]. split; [reflexivity|]. intros w0 st0 H. injection H as <- <-. apply HMn. reflexivity. }
  destruct E0 as [E0 G0]. rewrite E0. clearbody X0. clear E0 Y0. destruct X0 as [[r0 w0] st0].
  cbn [lm].
  destruct r0 as [u| |]; [|reflexivity|reflexivity]. destruct u.
  specialize (G0 w0 st0 eq_refl).
  assert (Erot : match shin fi st0 with Active (Some rs) _ _ => rotation_necessary (embedw fn fi w0) (rs_roll rs) | _ => false end
               = match st0 with Active (Some rs) _ _ => rotation_necessary w0 (rs_roll rs) | _ => false end).
  { destruct st0 as [|[rs|] wr path]; reflexivity. }
  rewrite Erot. clear Erot.
  rewrite G0. destruct (mount_next c w0 st0 false) as [[r1 w1] st1]. cbn [lm].
  destruct r1 as [u1| |]; try reflexivity.
  - destruct st1 as [|o_rot wr path]; [reflexivity|]. cbn [shin]. rewrite w_write_embed.
    destruct (w_write w1 wr b) as [[ok w3] wr']. cbn [lw3]. destruct ok; reflexivity.
  - rewrite report_embed. destruct st1 as [|o_rot wr path]; [reflexivity|]. cbn [shin]. rewrite w_write_embed.
    destruct (w_write (report ELogFile w1) wr b) as [[ok w3] wr']. cbn [lw3]. destruct ok; reflexivity.
Qed.
End GenList2.
