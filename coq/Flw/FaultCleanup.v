(* C19 with rotation and cleanup: the model does what the specification FaultCleanupSpec.simk says - for EVERY fault
   oracle and EVERY list of records (Numbers naming, size criterion, direct mode, cleanup KeepLogFiles n in the
   caller's thread, synchronous, no symlink, no start-time part in the name; both with and without append; empty
   records included). *)
Require Import FL.Base.Bytes FL.Base.BytesFacts FL.Base.PathName FL.Fs.Fs FL.Fs.FsFacts FL.Time.Civil FL.Time.TsFormat
  FL.Names.FileSpec FL.Names.NamesFacts FL.Names.SortFacts FL.Names.FamilyFacts FL.Flw.Model FL.Flw.ModelFacts FL.Flw.NumFs
  FL.Flw.NumInv FL.Flw.Run FL.Flw.RunFacts FL.Flw.NumRun FL.Flw.NumListing FL.Oracles.O_Flw FL.Flw.NumTheorems FL.Flw.NumRestart
  FL.Flw.KillFacts FL.Flw.NumKill FL.Flw.NumKillRestart FL.Flw.FaultFacts FL.Flw.FaultRotSpec FL.Flw.FaultRotation
  FL.Flw.CleanupFacts FL.Flw.NumCleanupNames FL.Flw.NumCleanupStep FL.Flw.NumCleanupRun FL.Flw.FaultCleanupSpec.
From Coq Require Import ZifyN ZifyNat ZifyBool Permutation Sorted.
Open Scope nat_scope.

(* ------------------------------------------------------------------ ascending lists of (index, content) *)
Definition asc (cl : cdir) : Prop := StronglySorted lt (List.map fst cl).

Lemma ssorted_app {A} (R : A -> A -> Prop) (a b : list A) :
  StronglySorted R (a ++ b) <-> StronglySorted R a /\ StronglySorted R b /\ (forall x y, In x a -> In y b -> R x y).
Proof.
  induction a as [|x a IH]; cbn [app].
  - split; [intros H; split; [constructor | split; [exact H | intros x y []]] | intros [_ [H _]]; exact H].
  - split.
    + intros H. inversion H as [|? ? H1 H2]; subst. apply IH in H1. destruct H1 as [Sa [Sb Hab]].
      rewrite Forall_forall in H2. split.
      * constructor; [exact Sa|]. apply Forall_forall. intros y Hy. apply H2. apply in_or_app. left. exact Hy.
      * split; [exact Sb|]. intros u v [<-|Hu] Hv; [apply H2; apply in_or_app; right; exact Hv | apply Hab; assumption].
    + intros [Sa [Sb Hab]]. inversion Sa as [|? ? H1 H2]; subst. constructor.
      * apply IH. split; [exact H1|]. split; [exact Sb|]. intros u v Hu Hv. apply Hab; [right; exact Hu | exact Hv].
      * rewrite Forall_forall in *. intros y Hy. apply in_app_or in Hy. destruct Hy as [Hy|Hy]; [apply H2; exact Hy | apply Hab; [left; reflexivity | exact Hy]].
Qed.

Lemma ssorted_map {A B} (R : A -> A -> Prop) (Q : B -> B -> Prop) (g : A -> B) l :
  (forall x y, R x y -> Q (g x) (g y)) -> StronglySorted R l -> StronglySorted Q (List.map g l).
Proof.
  intros H. induction 1 as [|x l S IH F]; cbn [List.map]; constructor; [exact IH|].
  rewrite Forall_forall in *. intros y Hy. apply in_map_iff in Hy. destruct Hy as [z [<- Hz]]. apply H, F, Hz.
Qed.

Lemma asc_nodup cl : asc cl -> NoDup (List.map fst cl).
Proof.
  unfold asc. induction 1 as [|x l S IH F]; constructor; [|exact IH].
  intros Hin. rewrite Forall_forall in F. specialize (F x Hin). lia.
Qed.

Lemma asc_unique cl i d d' : asc cl -> In (i, d) cl -> In (i, d') cl -> d = d'.
Proof.
  intros A. apply asc_nodup in A. induction cl as [|[j e] cl IH]; intros H1 H2; [destruct H1|].
  cbn [List.map fst] in A. inversion A as [|? ? Hn Hr]; subst.
  destruct H1 as [E1|H1], H2 as [E2|H2].
  - congruence.
  - injection E1 as -> ->. exfalso. apply Hn. apply in_map_iff. exists (i, d'). split; [reflexivity | exact H2].
  - injection E2 as -> ->. exfalso. apply Hn. apply in_map_iff. exists (i, d). split; [reflexivity | exact H1].
  - apply IH; assumption.
Qed.

Lemma asc_snoc cl idx d : asc cl -> (forall i e, In (i, e) cl -> i < idx) -> asc (cl ++ [(idx, d)]).
Proof.
  intros A H. unfold asc. rewrite map_app. apply ssorted_app. split; [exact A|]. split; [repeat constructor|].
  intros x y Hx [<-|[]]. apply in_map_iff in Hx. destruct Hx as [[i e] [<- Hi]]. exact (H i e Hi).
Qed.

Lemma asc_drop A x B : asc (A ++ x :: B) -> asc (A ++ B).
Proof.
  unfold asc. rewrite !map_app. cbn [List.map]. rewrite !ssorted_app. intros [SA [SB H]].
  inversion SB as [|? ? SB' _]; subst. split; [exact SA|]. split; [exact SB'|].
  intros u v Hu Hv. apply H; [exact Hu | right; exact Hv].
Qed.

Lemma asc_mid_notin A (i : nat) (d : bytes) B e : asc (A ++ (i, d) :: B) -> ~ In (i, e) (A ++ B).
Proof.
  intros S H. apply asc_nodup in S. rewrite map_app in S. cbn [List.map fst] in S. apply NoDup_remove_2 in S. apply S.
  rewrite <- map_app. apply in_map_iff. exists (i, e). split; [reflexivity | exact H].
Qed.

Lemma next_idx_snoc cl i d : next_idx (cl ++ [(i, d)]) = S i.
Proof. unfold next_idx. rewrite fold_left_app. reflexivity. Qed.

(* every index is below the next one *)
Lemma asc_below_next cl : asc cl -> forall i d, In (i, d) cl -> i < next_idx cl.
Proof.
  destruct cl as [|p cl] using rev_ind; [intros _ i d []|]. destruct p as [j e]. intros A i d Hin.
  rewrite next_idx_snoc. unfold asc in A. rewrite map_app in A. apply ssorted_app in A. destruct A as [_ [_ H]].
  apply in_app_or in Hin. destruct Hin as [Hin|[E|[]]]; [|injection E as -> _; lia].
  assert (i < j); [|lia]. apply H; [|left; reflexivity]. apply in_map_iff. exists (i, d). split; [reflexivity | exact Hin].
Qed.

(* ------------------------------------------------------------------ the directory *)
Section Dir.
Variable c : config.
Hypothesis Hsfx : sfx_ok (c_spec c).

(* the directory holds exactly: the closed files r<i> (plain, with their content), and rCURRENT iff ocur names its inode *)
Record gdir (f : fs) (cl : cdir) (ocur : option nat) : Prop := {
  gd_wf : fs_wf f;
  gd_nd : nodup_names f;
  gd_asc : asc cl;
  gd_files : forall i d, In (i, d) cl -> exists j, lookup f (rname c i) = Some j /\ plain (inode f j) /\ content f j = d;
  gd_cur : match ocur with
           | Some j => lookup f (cname c) = Some j /\ plain (inode f j)
           | None => lookup f (cname c) = None
           end;
  gd_only : forall nm j, lookup f nm = Some j -> nm = cname c \/ exists i d, In (i, d) cl /\ nm = rname c i }.

Lemma gdir_fresh f cl o idx : gdir f cl o -> (forall i e, In (i, e) cl -> i < idx) -> lookup f (rname c idx) = None.
Proof.
  intros G H. destruct (lookup f (rname c idx)) as [j|] eqn:E; [exfalso | reflexivity].
  destruct (gd_only _ _ _ G _ _ E) as [X|(i & d & Hi & X)].
  - exact (rname_not_cname _ _ X).
  - apply rname_inj in X. subst i. specialize (H _ _ Hi). lia.
Qed.

Lemma plain_with_data fl d : plain fl -> plain (with_data fl d).
Proof. intros [A B]. split; assumption. Qed.

(* bytes are appended to the file with inode j, which is named nmj *)
Lemma append_other f j b nmj nm k : fs_wf f -> lookup f nmj = Some j -> lookup f nm = Some k -> nm <> nmj ->
  inode (append_ino f j b) k = inode f k.
Proof.
  intros W Lj Lk Hne. rewrite inode_append by (apply (wf_bound _ W _ _ Lj)).
  destruct (Nat.eqb_spec k j) as [->|_]; [|reflexivity]. exfalso. apply Hne. exact (wf_inj _ W _ _ _ Lk Lj).
Qed.
Lemma append_self f j b : j < length (inodes f) ->
  inode (append_ino f j b) j = with_data (inode f j) (content f j ++ b) /\ content (append_ino f j b) j = content f j ++ b.
Proof.
  intros H. split; [rewrite inode_append, Nat.eqb_refl by exact H; reflexivity | rewrite content_append, Nat.eqb_refl by exact H; reflexivity].
Qed.

(* the writer appends to rCURRENT *)
Lemma gdir_append_cur f cl j b : gdir f cl (Some j) ->
  gdir (append_ino f j b) cl (Some j) /\ content (append_ino f j b) j = content f j ++ b.
Proof.
  intros G. pose proof (gd_wf _ _ _ G) as W. destruct (gd_cur _ _ _ G) as [Lc Pc].
  pose proof (wf_bound _ W _ _ Lc) as Hj. destruct (append_self f j b Hj) as [Ij Cj]. split; [|exact Cj]. constructor.
  - apply wf_append. exact W.
  - apply nd_append. exact (gd_nd _ _ _ G).
  - exact (gd_asc _ _ _ G).
  - intros i d Hi. destruct (gd_files _ _ _ G i d Hi) as (k & Lk & Pk & Ck). exists k. rewrite lookup_append.
    split; [exact Lk|]. unfold content. rewrite (append_other f j b (cname c) (rname c i) k W Lc Lk (rname_not_cname c i)). split; assumption.
  - rewrite lookup_append. split; [exact Lc|]. rewrite Ij. apply plain_with_data. exact Pc.
  - intros nm k. rewrite lookup_append. apply (gd_only _ _ _ G).
Qed.

(* the writer appends to the closed file r<idx> (there is no rCURRENT) *)
Lemma gdir_append_old f cl idx d j b : gdir f (cl ++ [(idx, d)]) None -> lookup f (rname c idx) = Some j ->
  gdir (append_ino f j b) (cl ++ [(idx, d ++ b)]) None.
Proof.
  intros G Lj. pose proof (gd_wf _ _ _ G) as W. pose proof (wf_bound _ W _ _ Lj) as Hj.
  destruct (append_self f j b Hj) as [Ij Cj].
  assert (Hd : content f j = d /\ plain (inode f j)).
  { destruct (gd_files _ _ _ G idx d) as (k & Lk & Pk & Ck); [apply in_or_app; right; left; reflexivity|].
    assert (k = j) by congruence. subst k. split; assumption. }
  destruct Hd as [Hd Pj]. constructor.
  - apply wf_append. exact W.
  - apply nd_append. exact (gd_nd _ _ _ G).
  - pose proof (gd_asc _ _ _ G) as A. unfold asc in *. rewrite map_app in *. exact A.
  - intros i e Hi. apply in_app_or in Hi. destruct Hi as [Hi|[E|[]]].
    + destruct (gd_files _ _ _ G i e) as (k & Lk & Pk & Ck); [apply in_or_app; left; exact Hi|]. exists k. rewrite lookup_append.
      split; [exact Lk|]. assert (Hne : rname c i <> rname c idx).
      { intros X. apply rname_inj in X. subst i. apply (asc_mid_notin cl idx d [] e); rewrite ?app_nil_r; [exact (gd_asc _ _ _ G) | exact Hi]. }
      unfold content. rewrite (append_other f j b (rname c idx) (rname c i) k W Lj Lk Hne). split; assumption.
    + injection E as <- <-. exists j. rewrite lookup_append. split; [exact Lj|]. rewrite Ij, Cj, Hd.
      split; [apply plain_with_data; exact Pj | reflexivity].
  - rewrite lookup_append. exact (gd_cur _ _ _ G).
  - intros nm k. rewrite lookup_append. intros L. destruct (gd_only _ _ _ G _ _ L) as [X|(i & e & Hi & X)]; [left; exact X|].
    right. apply in_app_or in Hi. destruct Hi as [Hi|[E|[]]].
    + exists i, e. split; [apply in_or_app; left; exact Hi | exact X].
    + injection E as <- <-. exists idx, (d ++ b). split; [apply in_or_app; right; left; reflexivity | exact X].
Qed.

(* rCURRENT is renamed to r<idx> *)
Lemma gdir_rename f cl j idx : gdir f cl (Some j) -> (forall i e, In (i, e) cl -> i < idx) ->
  exists f1, rename f (cname c) (rname c idx) = Some f1 /\ inodes f1 = inodes f
    /\ gdir f1 (cl ++ [(idx, content f j)]) None /\ lookup f1 (rname c idx) = Some j.
Proof.
  intros G H. pose proof (gd_wf _ _ _ G) as W. destruct (gd_cur _ _ _ G) as [Lc Pc].
  assert (Hne : cname c <> rname c idx) by (intros X; symmetry in X; exact (rname_not_cname _ _ X)).
  destruct (rename_spec f (cname c) (rname c idx) j Hne Lc) as (f1 & Er & Ei & Lb & La & Lo).
  exists f1. split; [exact Er|]. split; [exact Ei|]. split; [|exact Lb].
  assert (In1 : forall k, inode f1 k = inode f k) by (intros k; unfold inode; rewrite Ei; reflexivity).
  constructor.
  - exact (wf_rename _ _ _ _ W Er).
  - exact (nd_rename _ _ _ _ Er (gd_nd _ _ _ G)).
  - apply asc_snoc; [exact (gd_asc _ _ _ G) | exact H].
  - intros i e Hi. apply in_app_or in Hi. destruct Hi as [Hi|[E|[]]].
    + destruct (gd_files _ _ _ G i e Hi) as (k & Lk & Pk & Ck). exists k.
      rewrite Lo; [|apply rname_not_cname | intros X; apply rname_inj in X; specialize (H _ _ Hi); lia].
      unfold content. rewrite In1. split; [exact Lk|]. split; assumption.
    + injection E as <- <-. exists j. unfold content. rewrite In1. split; [exact Lb|]. split; [exact Pc | reflexivity].
  - exact La.
  - intros nm k L. destruct (beq_spec nm (rname c idx)) as [->|N1].
    + right. exists idx, (content f j). split; [apply in_or_app; right; left; reflexivity | reflexivity].
    + destruct (beq_spec nm (cname c)) as [->|N2]; [rewrite La in L; discriminate|].
      rewrite Lo in L by assumption. destruct (gd_only _ _ _ G _ _ L) as [X|(i & e & Hi & X)]; [contradiction|].
      right. exists i, e. split; [apply in_or_app; left; exact Hi | exact X].
Qed.

(* a new rCURRENT is created *)
Lemma gdir_create f cl now : gdir f cl None ->
  gdir (fst (create_file f (cname c) 0%N now)) cl (Some (snd (create_file f (cname c) 0%N now)))
  /\ content (fst (create_file f (cname c) 0%N now)) (snd (create_file f (cname c) 0%N now)) = [].
Proof.
  intros G. pose proof (gd_wf _ _ _ G) as W. pose proof (gd_cur _ _ _ G) as Lc. cbn beta iota in Lc.
  pose proof (create_file_spec f (cname c) 0%N now) as CS. pose proof (wf_create f (cname c) 0%N now W Lc) as W2.
  pose proof (nd_create f (cname c) 0%N now Lc (gd_nd _ _ _ G)) as N2.
  destruct (create_file f (cname c) 0%N now) as [f2 new]. cbn [fst snd] in *. destruct CS as [Enew [Hino [Lnew Lo]]].
  assert (Inew : inode f2 new = {| fdata := []; fgz := 0%N; fborn := now; fdir := false |}).
  { unfold inode. rewrite Hino, Enew, inode_app_new. reflexivity. }
  assert (Iold : forall k, k < length (inodes f) -> inode f2 k = inode f k).
  { intros k Hk. unfold inode. rewrite Hino, inode_app_old by assumption. reflexivity. }
  split; [|unfold content; rewrite Inew; reflexivity]. constructor.
  - exact W2.
  - exact N2.
  - exact (gd_asc _ _ _ G).
  - intros i d Hi. destruct (gd_files _ _ _ G i d Hi) as (k & Lk & Pk & Ck). exists k. rewrite Lo by apply rname_not_cname.
    unfold content. rewrite Iold by (apply (wf_bound _ W _ _ Lk)). split; [exact Lk|]. split; assumption.
  - split; [exact Lnew|]. rewrite Inew. split; reflexivity.
  - intros nm k L. destruct (beq_spec nm (cname c)) as [->|N1]; [left; reflexivity|]. rewrite Lo in L by exact N1.
    exact (gd_only _ _ _ G _ _ L).
Qed.

(* a closed file is removed *)
Lemma gdir_unlink f A i d B o : gdir f (A ++ (i, d) :: B) o -> gdir (unlink f (rname c i)) (A ++ B) o.
Proof.
  intros G. pose proof (gd_wf _ _ _ G) as W. destruct (unlink_spec f (rname c i)) as (UI & UN & UO).
  assert (In1 : forall k, inode (unlink f (rname c i)) k = inode f k) by (intros k; unfold inode; rewrite UI; reflexivity).
  constructor.
  - apply wf_unlink. exact W.
  - apply nd_unlink. exact (gd_nd _ _ _ G).
  - exact (asc_drop _ _ _ (gd_asc _ _ _ G)).
  - intros i' e Hi. assert (Hne : i' <> i) by (intros ->; exact (asc_mid_notin A i d B e (gd_asc _ _ _ G) Hi)).
    destruct (gd_files _ _ _ G i' e) as (k & Lk & Pk & Ck).
    { apply in_app_or in Hi. apply in_or_app. destruct Hi as [Hi|Hi]; [left; exact Hi | right; right; exact Hi]. }
    exists k. rewrite UO by (intros X; apply rname_inj in X; contradiction). unfold content. rewrite In1. split; [exact Lk|]. split; assumption.
  - pose proof (gd_cur _ _ _ G) as Hc. destruct o as [j|].
    + destruct Hc as [Lc Pc]. rewrite UO by (intros X; symmetry in X; exact (rname_not_cname _ _ X)). rewrite In1. split; assumption.
    + rewrite UO by (intros X; symmetry in X; exact (rname_not_cname _ _ X)). exact Hc.
  - intros nm k L. destruct (beq_spec nm (rname c i)) as [->|N1]; [rewrite UN in L; discriminate|]. rewrite UO in L by exact N1.
    destruct (gd_only _ _ _ G _ _ L) as [X|(i' & e & Hi & X)]; [left; exact X|]. right. exists i', e. split; [|exact X].
    apply in_app_or in Hi. apply in_or_app. destruct Hi as [Hi|[E|Hi]]; [left; exact Hi | | right; exact Hi].
    injection E as <- <-. contradiction.
Qed.

(* ------------------------------------------------------------------ the listing of such a directory *)
Section Listing.
Variables (f : fs) (off : Z) (cl : cdir) (ocur : option nat).
Hypothesis G : gdir f cl ocur.

Let sfx := fsfx (c_spec c).
Let S := sort_by_key sfx (filter (fun n => is_reg_file f n && is_prefix (fixed0 c) n) (dir_names f)).

Lemma GS_in n : In n S <-> (exists j, lookup f n = Some j) /\ is_reg_file f n = true /\ is_prefix (fixed0 c) n = true.
Proof. unfold S. rewrite In_sort_by_key, filter_In, andb_true_iff, dir_names_lookup. tauto. Qed.

Lemma g_plain_part : filter (qf off sfx (fixed0 c) IFNum sfx) S = List.map (rname c) (List.map fst cl).
Proof.
  apply (sorted_unique (key_rel sfx)).
  - intros x y. apply key_le_antisym.
  - apply StronglySorted_filter, sort_by_key_strongly_sorted.
  - apply (ssorted_map lt); [|exact (gd_asc _ _ _ G)]. intros i j Hij. unfold key_rel, sfx.
    apply (key_le_number_any c i j false false Hsfx Hij).
  - apply NoDup_filter. eapply Permutation_NoDup; [apply Permutation_sym, sort_by_key_perm|]. apply NoDup_filter. exact (gd_nd _ _ _ G).
  - apply FinFun.Injective_map_NoDup; [intros i j E; exact (rname_inj _ _ _ E) | apply asc_nodup; exact (gd_asc _ _ _ G)].
  - intros x. rewrite filter_In, GS_in, in_map_iff. split.
    + intros [[[j Lj] _] Q]. destruct (gd_only _ _ _ G x j Lj) as [->|(i & d & Hi & ->)].
      * unfold sfx in Q. rewrite qf_cname in Q. discriminate.
      * exists i. split; [reflexivity|]. apply in_map_iff. exists (i, d). split; [reflexivity | exact Hi].
    + intros (i & <- & Hi). apply in_map_iff in Hi. destruct Hi as [[i' d] [E Hi]]. cbn [fst] in E. subst i'.
      destruct (gd_files _ _ _ G i d Hi) as (j & Lj & [_ Dj] & _).
      split; [split; [eauto | split]|].
      * unfold is_reg_file, file_of. rewrite Lj, Dj. reflexivity.
      * rewrite rname_shape. apply is_prefix_under.
      * apply qf_rname.
Qed.

Lemma g_arch_part : filter (qf off sfx (fixed0 c) IFNum (Some gz_sfx)) S = [].
Proof.
  apply filter_all_false. intros x Hx. apply GS_in in Hx. destruct Hx as [[j Lj] _].
  destruct (gd_only _ _ _ G x j Lj) as [->|(i & d & Hi & ->)].
  - unfold sfx. apply qf_cname.
  - unfold sfx. apply qf_rname_gz. exact Hsfx.
Qed.

(* newest first *)
Definition glisting : list bytes := rev (List.map (rname c) (List.map fst cl)).

Theorem list_log_gz_gdir : list_log_gz off (c_spec c) (fixed0 c) f IFNum = Some glisting.
Proof.
  unfold list_log_gz, existing_rot, sel_log_gz. cbn [sel_plain sel_gz sel_rcur sel_custom].
  rewrite !filter_files_total. cbn [app_opt]. rewrite !app_nil_r. unfold related_files.
  fold sfx. fold S. rewrite !filter_rev', g_plain_part, g_arch_part. cbn [rev]. rewrite app_nil_r. reflexivity.
Qed.

Lemma glisting_no_redundant : redundant_gz glisting = [].
Proof.
  unfold redundant_gz. apply filter_all_false. intros x Hx. unfold glisting in Hx. apply in_rev in Hx.
  apply in_map_iff in Hx. destruct Hx as [i [<- _]]. rewrite rname_not_gz by exact Hsfx. reflexivity.
Qed.

(* the index that index_for_rcurrent computes from the listing *)
Theorem highest_index_gdir : (forall i d, In (i, d) cl -> (N.of_nat i <= u32_max)%N) ->
  match get_highest_index off (c_spec c) (fixed0 c) f with
  | None => None
  | Some (Some i) => Some (i + 1)%N
  | Some None => Some 0%N
  end = Some (N.of_nat (next_idx cl)).
Proof.
  intros Hb. unfold get_highest_index. rewrite list_log_gz_gdir.
  set (l := filter_map_opt (index_of_listed (fixed0 c)) glisting).
  assert (Hl : forall v, In v l <-> exists i d, In (i, d) cl /\ v = N.of_nat i).
  { intros v. unfold l. rewrite filter_map_opt_in. unfold glisting. split.
    - intros (x & Hx & Ex). apply in_rev in Hx. apply in_map_iff in Hx. destruct Hx as [i [<- Hi]].
      apply in_map_iff in Hi. destruct Hi as [[i' d] [E Hi]]. cbn [fst] in E. subst i'.
      rewrite index_of_rname in Ex by (exact (Hb _ _ Hi)). injection Ex as <-. eauto.
    - intros (i & d & Hi & ->). exists (rname c i). split; [|apply index_of_rname; exact (Hb _ _ Hi)].
      apply -> in_rev. apply in_map_iff. exists i. split; [reflexivity|]. apply in_map_iff. exists (i, d). split; [reflexivity | exact Hi]. }
  pose proof (max_opt_spec l) as M. destruct (max_opt l) as [mx|].
  - destruct M as [Im Hm]. apply Hl in Im. destruct Im as (i & d & Hi & ->).
    destruct cl as [|p cl'] using rev_ind; [destruct Hi|]. clear IHcl'. destruct p as [j e]. rewrite next_idx_snoc.
    assert (Hj : (N.of_nat j <= N.of_nat i)%N) by (apply Hm, Hl; exists j, e; split; [apply in_or_app; right; left; reflexivity | reflexivity]).
    pose proof (asc_below_next _ (gd_asc _ _ _ G) i d Hi) as Hlt. rewrite next_idx_snoc in Hlt. f_equal. lia.
  - destruct cl as [|[i d] cl']; [reflexivity|]. exfalso.
    assert (Hin : In (N.of_nat i) l) by (apply Hl; exists i, d; split; [left; reflexivity | reflexivity]). rewrite M in Hin. destruct Hin.
Qed.
End Listing.
End Dir.

(* ------------------------------------------------------------------ remove_file with a fault oracle *)
Lemma p_remove_fw q fl a : quiet q ->
  p_remove (fw q fl) a =
  if fst (pop fl) then (false, fw q (snd (pop fl)))
  else match lookup (wfs q) a with
       | Some _ => (true, fw (set_fs q (unlink (wfs q) a)) (snd (pop fl)))
       | None => (false, fw q (snd (pop fl)))
       end.
Proof.
  intros Q. unfold p_remove. rewrite tick_fw. destruct (pop fl) as [f fl1]. cbn [fst snd]. destruct f; [reflexivity|].
  cbn [fw set_faults wfs]. destruct (lookup (wfs q) a) as [i|] eqn:E; [|reflexivity].
  fold (fw q fl1). rewrite effect_fw by exact Q. reflexivity.
Qed.

Lemma next_idx_incl cl1 cl2 : asc cl1 -> (forall p, In p cl2 -> In p cl1) -> next_idx cl2 <= next_idx cl1.
Proof.
  intros A H. destruct cl2 as [|[j e] cl2] using rev_ind; [unfold next_idx at 1; cbn; lia|]. rewrite next_idx_snoc.
  apply (asc_below_next cl1 A j e). apply H. apply in_or_app. right. left. reflexivity.
Qed.

Section K.
Variables (c : config) (m : N) (n : nat).
Hypothesis Hcfg : numkcfg c (CSize m) (KLog n).
Hypothesis Hcap : c_cap c = None.
Hypothesis Hsfx : sfx_ok (c_spec c).

Let Hts : fts (c_spec c) = false := proj1 (proj2 Hcfg).

(* ---- the loop of the cleanup ---- *)
(* the newest n entries are kept *)
Lemma cleanup_loop_skip : forall a b w idx, idx + length a <= n ->
  cleanup_loop w (a ++ b) idx n (n + 0) None = cleanup_loop w b (idx + length a) n (n + 0) None.
Proof.
  induction a as [|x a IH]; intros b w idx H; cbn [app length]; [rewrite (Nat.add_0_r idx); reflexivity|].
  cbn [length] in H. cbn [cleanup_loop].
  destruct (Nat.leb_spec (n + 0) idx) as [H1|_]; [lia|]. destruct (Nat.leb_spec n idx) as [H2|_]; [lia|].
  rewrite IH by lia. f_equal. lia.
Qed.

(* the older ones are removed, newest first, until a remove_file fails *)
Lemma cleanup_loop_remove : forall desc A B q fl idx o, (desc = [] \/ n <= idx) -> quiet q ->
  gdir c (wfs q) (A ++ rev desc ++ B) o ->
  exists q', cleanup_loop (fw q fl) (List.map (fun p => rname c (fst p)) desc) idx n (n + 0) None
             = (snd (fst (s_remove desc fl)), fw q' (snd (s_remove desc fl)))
    /\ same_env q q' /\ inodes (wfs q') = inodes (wfs q)
    /\ gdir c (wfs q') (A ++ rev (fst (fst (s_remove desc fl))) ++ B) o.
Proof.
  induction desc as [|p r IH]; intros A B q fl idx o Hi Q G.
  - exists q. cbn [List.map cleanup_loop s_remove fst snd]. split; [reflexivity|]. split; [apply same_env_refl; exact Q|]. split; [reflexivity | exact G].
  - destruct Hi as [Hi|Hi]; [discriminate|]. destruct p as [i d]. cbn [List.map fst cleanup_loop s_remove].
    destruct (Nat.leb_spec (n + 0) idx) as [_|H1]; [|lia].
    rewrite p_remove_fw by exact Q. destruct (pop fl) as [f fl1]. cbn [fst snd]. destruct f.
    + exists q. cbn [fst snd]. split; [reflexivity|]. split; [apply same_env_refl; exact Q|]. split; [reflexivity | exact G].
    + cbn [rev] in G. rewrite <- app_assoc in G. cbn [app] in G. rewrite app_assoc in G.
      destruct (gd_files _ _ _ _ G i d) as (j & Lj & _); [apply in_or_app; right; left; reflexivity|]. rewrite Lj.
      pose proof (gdir_unlink c (wfs q) (A ++ rev r) i d B o G) as G1. rewrite <- app_assoc in G1.
      destruct (IH A B (set_fs q (unlink (wfs q) (rname c i))) fl1 (S idx) o (or_intror (Nat.le_trans _ _ _ Hi (Nat.le_succ_diag_r idx)))
                  (quiet_set_fs q _ Q) G1) as (q' & E & S & I & G').
      exists q'. split; [exact E|]. split; [eapply same_env_trans; [apply same_env_set_fs; exact Q | exact S]|].
      split; [rewrite I; reflexivity | exact G'].
Qed.

(* ---- one cleanup ---- *)
Lemma cleanup_impl_fw q fl cl o : quiet q -> gdir c (wfs q) cl o ->
  exists q', cleanup_impl c (fw q fl) (KLog n) IFNum None
             = ((if snd (fst (s_cleanup n cl fl)) then Ok tt else Err), fw q' (snd (s_cleanup n cl fl)))
    /\ same_env q q' /\ inodes (wfs q') = inodes (wfs q) /\ gdir c (wfs q') (fst (fst (s_cleanup n cl fl))) o.
Proof.
  intros Q G. unfold cleanup_impl, s_cleanup. cbn [andb]. rewrite tick_fw. destruct (pop fl) as [f0 fl0]. cbn [fst snd]. destruct f0.
  - exists q. cbn [fst snd]. split; [reflexivity|]. split; [apply same_env_refl; exact Q|]. split; [reflexivity | exact G].
  - rewrite (fixed_of_fixed0 c (fw q fl0) Hts). change (woff (fw q fl0)) with (woff q). change (wfs (fw q fl0)) with (wfs q).
    rewrite (list_log_gz_gdir c Hsfx (wfs q) (woff q) cl o G), (glisting_no_redundant c Hsfx cl). cbn [remove_redundant negb].
    assert (El : glisting c cl = List.map (fun p => rname c (fst p)) (firstn n (rev cl)) ++ List.map (fun p => rname c (fst p)) (skipn n (rev cl))).
    { unfold glisting. rewrite <- map_app, firstn_skipn, map_map, map_rev. reflexivity. }
    rewrite El, cleanup_loop_skip by (rewrite map_length, firstn_length; lia). cbn [Nat.add].
    assert (Hi : skipn n (rev cl) = [] \/ n <= length (List.map (fun p => rname c (fst p)) (firstn n (rev cl)))).
    { rewrite map_length, firstn_length. destruct (Nat.le_gt_cases n (length (rev cl))) as [H|H]; [right; lia|].
      left. apply skipn_all2. lia. }
    assert (G0 : gdir c (wfs q) ([] ++ rev (skipn n (rev cl)) ++ rev (firstn n (rev cl))) o).
    { cbn [app]. rewrite <- rev_app_distr, firstn_skipn, rev_involutive. exact G. }
    destruct (cleanup_loop_remove (skipn n (rev cl)) [] (rev (firstn n (rev cl))) q fl0 _ o Hi Q G0) as (q' & E & S & I & G').
    rewrite E. destruct (s_remove (skipn n (rev cl)) fl0) as [[rest ok] fl1]. cbn [fst snd app] in *.
    exists q'. split; [destruct ok; reflexivity|]. split; [exact S|]. split; [exact I | exact G'].
Qed.

(* ---- the state of an initialised writer ---- *)
Definition actk (idx cur : N) (wr : writer) : inner := Active (Some (mk_rsk (KLog n) (NSNumR idx) (RSize m cur))) wr (cname c).
Definition flwk (i : inner) : flw := {| f_cfg := c; f_inner := i; f_poisoned := false |}.

(* a rotation: the new index (rename), the new file (open), the cleanup *)
Lemma mount_next_k_unfold w idx cur wr : wpend wr = [] -> (m <? cur)%N = true ->
  mount_next c w (actk idx cur wr) false =
  match index_for_rcurrent c w (Some idx) true with
  | (Ok idx', w') =>
    match open_log_file c w' (Some cur_infix) with
    | (Ok (wr', path'), w2) =>
      let '(rc, w4) := cleanup_impl c w2 (KLog n) IFNum None in
      (match rc with Ok _ => Ok tt | Err => Err | Panic => Panic end, w4,
       Active (Some (mk_rsk (KLog n) (NSNumR idx') (RSize m 0))) wr' path')
    | (Err, w2) => (Err, w2, actk idx' cur wr)
    | (Panic, w2) => (Panic, w2, actk idx' cur wr)
    end
  | (Err, w') => (Err, w', actk idx cur wr)
  | (Panic, w') => (Panic, w', actk idx cur wr)
  end.
Proof.
  intros Hp Hm. unfold mount_next, actk. cbn [mk_rsk rs_roll rs_naming rs_cleanup rs_bg orb rotation_necessary].
  unfold size_rotation_necessary. rewrite Hm.
  destruct (index_for_rcurrent c w (Some idx) true) as [[idx'| |] w']; try reflexivity.
  destruct (open_log_file c w' (Some cur_infix)) as [[[wr' path']| |] w2]; try reflexivity.
  rewrite w_flush_nop by exact Hp. cbv beta iota zeta. rewrite w_drop_nop by reflexivity.
  unfold cleanup_or_queue. cbn [reset_size_and_date ns_filter ns_writes_direct].
  destruct (cleanup_impl c w2 (KLog n) IFNum None) as [rc w4]. reflexivity.
Qed.

Lemma mount_next_k_idle w idx cur wr : (m <? cur)%N = false -> mount_next c w (actk idx cur wr) false = (Ok tt, w, actk idx cur wr).
Proof.
  intros Hm. unfold mount_next, actk. cbn [mk_rsk rs_roll orb rotation_necessary]. unfold size_rotation_necessary. rewrite Hm. reflexivity.
Qed.

Lemma index_rotate_fw q fl idx : quiet q ->
  index_for_rcurrent c (fw q fl) (Some idx) true =
  if fst (pop fl) then (Err, fw q (snd (pop fl)))
  else match rename (wfs q) (cname c) (nm c (number_infix idx)) with
       | Some f1 => (Ok (idx + 1)%N, fw (set_fs q f1) (snd (pop fl)))
       | None => (Ok idx, fw q (snd (pop fl)))
       end.
Proof.
  intros Q. unfold index_for_rcurrent. rewrite !(name_of_fixed c (fw q fl)) by exact Hts.
  fold (nm c cur_infix) (nm c (number_infix idx)). fold (cname c). rewrite p_rename_fw by exact Q.
  destruct (pop fl) as [f1 fl1]. cbn [fst snd]. destruct f1; [reflexivity|].
  destruct (rename (wfs q) (cname c) (nm c (number_infix idx))); reflexivity.
Qed.

Lemma open_cur_fresh q fl : quiet q -> lookup (wfs q) (cname c) = None ->
  open_log_file c (fw q fl) (Some cur_infix) =
  if fst (pop fl) then (Err, fw q (snd (pop fl)))
  else (Ok ({| wino := snd (create_file (wfs q) (cname c) 0%N (wnow q)); wpend := []; wcap := c_cap c |}, cname c),
        fw (set_fs q (fst (create_file (wfs q) (cname c) 0%N (wnow q)))) (snd (pop fl))).
Proof.
  intros Q L. pose proof Hcfg as (_ & _ & Hlink & _). unfold open_log_file. rewrite (name_of_fixed c (fw q fl)) by exact Hts.
  fold (nm c cur_infix) (cname c). unfold do_symlink. rewrite Hlink. rewrite p_open_fw by exact Q.
  destruct (pop fl) as [f2 fl2]; cbn [fst snd]. destruct f2; [reflexivity|].
  unfold file_of at 1. rewrite L.
  assert (Eopen : (if c_append c then open_append (wfs q) (cname c) (wnow q) else open_trunc (wfs q) (cname c) 0%N (wnow q))
                  = create_file (wfs q) (cname c) 0%N (wnow q)).
  { destruct (c_append c); [apply open_append_fresh | apply open_trunc_fresh]; exact L. }
  rewrite Eopen. reflexivity.
Qed.

Lemma set_fs_same q : set_fs q (wfs q) = q.
Proof. destruct q; reflexivity. Qed.

Lemma open_cur_existing q fl j : quiet q -> c_append c = true -> lookup (wfs q) (cname c) = Some j -> fdir (inode (wfs q) j) = false ->
  open_log_file c (fw q fl) (Some cur_infix) =
  if fst (pop fl) then (Err, fw q (snd (pop fl)))
  else (Ok ({| wino := j; wpend := []; wcap := c_cap c |}, cname c), fw q (snd (pop fl))).
Proof.
  intros Q Ha L D. pose proof Hcfg as (_ & _ & Hlink & _). unfold open_log_file. rewrite (name_of_fixed c (fw q fl)) by exact Hts.
  fold (nm c cur_infix) (cname c). unfold do_symlink. rewrite Hlink. rewrite p_open_fw by exact Q.
  destruct (pop fl) as [f2 fl2]; cbn [fst snd]. destruct f2; [reflexivity|].
  unfold file_of at 1. rewrite L, D, Ha. unfold open_append. rewrite L. cbn [fst snd]. rewrite set_fs_same. reflexivity.
Qed.

(* ---- the rest of write_buffer after the rotation check ---- *)
Lemma wbk_active q fl idx cur wr r1 q1 fl1 idx1 cur1 wr1 b :
  mount_next c (fw q fl) (actk idx cur wr) false = (r1, fw q1 fl1, actk idx1 cur1 wr1) ->
  r1 <> Panic -> quiet q1 -> wcap wr1 = None ->
  exists q3,
    write_buffer (flwk (actk idx cur wr)) (fw q fl) b
    = ((if fst (wr_pop b fl1) then Err else Ok tt), fw q3 (snd (wr_pop b fl1)),
       flwk (actk idx1 (if fst (wr_pop b fl1) then cur1 else (cur1 + N.of_nat (length b))%N) wr1), (m <? cur)%N)
    /\ reported q1 q3 (match r1 with Err => [ELogFile] | _ => [] end)
    /\ wfs q3 = (if fst (wr_pop b fl1) then wfs q1 else append_ino (wfs q1) (wino wr1) b).
Proof.
  intros M Hr Q1 Hc. unfold actk in *. unfold write_buffer, flwk. cbn [f_cfg f_inner]. rewrite M.
  cbn [mk_rsk rs_roll rotation_necessary]. unfold size_rotation_necessary.
  destruct r1 as [[]| |]; [| |contradiction].
  - destruct (w_write_fw q1 fl1 wr1 b Q1 Hc) as [q3 [E [S F]]]. rewrite E.
    exists q3. split; [|split; [apply same_env_reported; exact S | exact F]].
    destruct (fst (wr_pop b fl1)); cbn [negb with_inner f_cfg f_poisoned mk_rsk rs_naming rs_roll rs_cleanup rs_bg increase_size]; reflexivity.
  - rewrite report_fw by exact Q1. destruct (report_reported ELogFile q1 Q1) as [R1 F1].
    destruct (w_write_fw (report ELogFile q1) fl1 wr1 b (proj1 R1) Hc) as [q3 [E [S F]]]. rewrite E.
    exists q3. split; [|split].
    + destruct (fst (wr_pop b fl1)); cbn [negb with_inner f_cfg f_poisoned mk_rsk rs_naming rs_roll rs_cleanup rs_bg increase_size]; reflexivity.
    + pose proof (reported_trans _ _ _ _ _ R1 (same_env_reported _ _ S)) as R. cbn [app] in R. exact R.
    + rewrite F, F1. reflexivity.
Qed.

(* ---- the log call around write_buffer ---- *)
Lemma stepk_write x i b r w1 i1 rot :
  s_flw x = Some (flwk i) -> s_tl x = [] -> write_buffer (flwk i) (s_w x) b = (r, w1, flwk i1, rot) -> r <> Panic ->
  step x (OWrite b) = ({| s_flw := Some (flwk i1); s_w := match r with Err => report EWrite w1 | _ => w1 end; s_tl := []; s_dead := s_dead x |},
                       ObsRes 0 rot).
Proof.
  intros Es Ht E Hr. pose proof Hcfg as (_ & _ & _ & Ha & _).
  rewrite (step_sync_cfg x (OWrite b) (flwk i) Es Hts Ha). cbn [sync_step]. rewrite Es. cbn [flwk f_poisoned].
  rewrite Ht. cbn [app]. fold (flwk i). rewrite E. destruct r; [reflexivity | reflexivity | contradiction].
Qed.

Lemma stepk_write_eq x x1 i i1 b :
  s_flw x = Some (flwk i) -> s_flw x1 = Some (flwk i1) -> s_tl x = [] -> s_tl x1 = [] -> s_dead x1 = s_dead x ->
  write_buffer (flwk i) (s_w x) b = write_buffer (flwk i1) (s_w x1) b ->
  step x (OWrite b) = step x1 (OWrite b).
Proof.
  intros Es Es1 Ht Ht1 Hd E. pose proof Hcfg as (_ & _ & _ & Ha & _).
  rewrite (step_sync_cfg x (OWrite b) (flwk i) Es Hts Ha), (step_sync_cfg x1 (OWrite b) (flwk i1) Es1 Hts Ha).
  cbn [sync_step]. rewrite Es, Es1. cbn [flwk f_poisoned]. rewrite Ht, Ht1, Hd. cbn [app].
  fold (flwk i) (flwk i1). rewrite E. reflexivity.
Qed.

(* ---- the writer and its file: on rCURRENT (old = false), or on the closed file r<idx> (old = true) ---- *)
Definition KA (old : bool) (q : world) (wr : writer) (cl : cdir) (idx : nat) (d : bytes) : Prop :=
  wpend wr = [] /\ wcap wr = None /\ (forall i e, In (i, e) cl -> i < idx) /\
  if old then gdir c (wfs q) (cl ++ [(idx, d)]) None /\ lookup (wfs q) (rname c idx) = Some (wino wr)
  else gdir c (wfs q) cl (Some (wino wr)) /\ content (wfs q) (wino wr) = d.
Definition kidx_of (old : bool) (idx : nat) : N := if old then (N.of_nat idx + 1)%N else N.of_nat idx.
Definition kst_same (old : bool) (cl : cdir) (idx : nat) (d : bytes) : kst := if old then KOld cl idx d else KCur cl idx d.

Lemma ka_env old q q' wr cl idx d : KA old q wr cl idx d -> wfs q' = wfs q -> KA old q' wr cl idx d.
Proof. unfold KA. intros H F. rewrite F. exact H. Qed.

Lemma ka_append old q q' wr cl idx d b : KA old q wr cl idx d -> wfs q' = append_ino (wfs q) (wino wr) b -> KA old q' wr cl idx (d ++ b).
Proof.
  intros (Hp & Hc & Hb & H) F. split; [exact Hp|]. split; [exact Hc|]. split; [exact Hb|]. rewrite F. destruct old.
  - destruct H as [G L]. split; [apply gdir_append_old; assumption | rewrite lookup_append; exact L].
  - destruct H as [G C]. destruct (gdir_append_cur c (wfs q) cl (wino wr) b G) as [G' C']. split; [exact G' | rewrite C', C; reflexivity].
Qed.

(* what the rename of rCURRENT at a rotation does *)
Lemma ka_rename old q wr cl idx d fl1 : quiet q -> KA old q wr cl idx d ->
  exists q1,
    match rename (wfs q) (cname c) (nm c (number_infix (kidx_of old idx))) with
    | Some f1 => (@Ok N (kidx_of old idx + 1)%N, fw (set_fs q f1) fl1)
    | None => (Ok (kidx_of old idx), fw q fl1)
    end = (Ok (kidx_of true idx), fw q1 fl1)
    /\ quiet q1 /\ wacts q1 = wacts q /\ werrs q1 = werrs q /\ KA true q1 wr cl idx d.
Proof.
  intros Q (Hp & Hc & Hb & H). destruct old; cbn [kidx_of].
  - destruct H as [G L]. pose proof (gd_cur _ _ _ _ G) as Lc. cbn beta iota in Lc. rewrite (rename_none _ _ _ Lc).
    exists q. split; [reflexivity|]. split; [exact Q|]. split; [reflexivity|]. split; [reflexivity|]. split; [exact Hp|]. split; [exact Hc|]. split; [exact Hb|]. split; assumption.
  - destruct H as [G C]. destruct (gdir_rename c (wfs q) cl (wino wr) idx G Hb) as (f1 & Er & Ei & G1 & L1).
    fold (rname c idx). rewrite Er. exists (set_fs q f1). split; [reflexivity|]. split; [apply quiet_set_fs; exact Q|].
    split; [reflexivity|]. split; [reflexivity|]. split; [exact Hp|]. split; [exact Hc|]. split; [exact Hb|].
    cbn [set_fs wfs]. rewrite C in G1. split; assumption.
Qed.

(* ------------------------------------------------------------------ the invariant of the run *)
(* B: the number of log calls still to come (it bounds the index that a later initialisation can reach) *)
Definition FInvK (B : nat) (x : sys) (st : kst) (errs : list ecode) (fl : list bool) : Prop :=
  exists q, s_w x = fw q fl /\ quiet q /\ wacts q = 0 /\ werrs q = errs /\ s_tl x = [] /\
  match st with
  | KInit cl created =>
    s_flw x = Some (flwk Initial)
    /\ (exists o, gdir c (wfs q) cl o /\ (if created then exists j, o = Some j /\ content (wfs q) j = [] else o = None))
    /\ (N.of_nat (next_idx cl + B) <= u32_max)%N
  | KCur cl idx d => exists wr, s_flw x = Some (flwk (actk (kidx_of false idx) (N.of_nat (length d)) wr)) /\ KA false q wr cl idx d
  | KOld cl idx d => exists wr, s_flw x = Some (flwk (actk (kidx_of true idx) (N.of_nat (length d)) wr)) /\ KA true q wr cl idx d
  end.

Lemma finvk_same B x old (cl : cdir) (idx : nat) (d : bytes) errs fl q wr :
  s_w x = fw q fl -> quiet q -> wacts q = 0 -> werrs q = errs -> s_tl x = [] ->
  s_flw x = Some (flwk (actk (kidx_of old idx) (N.of_nat (length d)) wr)) -> KA old q wr cl idx d ->
  FInvK B x (kst_same old cl idx d) errs fl.
Proof. intros. exists q. destruct old; cbn [kst_same]; repeat (split; [assumption|]); exists wr; split; assumption. Qed.

(* the rotation check has been made (result r1, world q1, oracle fl1, writer wr1 on a file that holds d1): the write *)
Lemma tail_stepk B x q fl idx cur wr r1 q1 fl1 old1 (cl1 : cdir) (idx1 : nat) (d1 : bytes) wr1 errs1 (b : bytes) :
  s_w x = fw q fl -> s_tl x = [] -> s_flw x = Some (flwk (actk idx cur wr)) ->
  mount_next c (fw q fl) (actk idx cur wr) false = (r1, fw q1 fl1, actk (kidx_of old1 idx1) (N.of_nat (length d1)) wr1) ->
  r1 <> Panic -> quiet q1 -> wacts q1 = 0 -> werrs q1 = errs1 -> KA old1 q1 wr1 cl1 idx1 d1 ->
  let '(d', e, fl2) := s_write d1 b fl1 in
  exists x' rot, step x (OWrite b) = (x', ObsRes 0 rot)
    /\ FInvK B x' (kst_same old1 cl1 idx1 d') (errs1 ++ (match r1 with Err => [ELogFile] | _ => [] end) ++ e) fl2.
Proof.
  intros Ew Ht Es M Hr Q1 Ha1 He1 A1.
  pose proof A1 as (Hp1 & Hc1 & _).
  destruct (wbk_active q fl idx cur wr r1 q1 fl1 _ _ wr1 b M Hr Q1 Hc1) as [q3 [E [R3 F3]]].
  unfold s_write. destruct (wr_pop b fl1) as [f fl2]. cbn [fst snd] in *.
  rewrite <- Ew in E. pose proof (stepk_write x _ b _ _ _ _ Es Ht E) as S.
  destruct f.
  - (* the write fails: reported by the handle *)
    eexists _, _. split; [apply S; discriminate|].
    destruct (report_reported EWrite q3 (proj1 R3)) as [R4 F4].
    pose proof (reported_trans _ _ _ _ _ R3 R4) as R.
    apply (finvk_same B _ old1 cl1 idx1 d1 _ fl2 (report EWrite q3) wr1); cbn [s_w s_tl s_flw].
    + apply report_fw. apply R3.
    + apply R.
    + exact (reported_acts _ _ _ R Ha1).
    + rewrite (reported_errs _ _ _ _ R He1). reflexivity.
    + reflexivity.
    + reflexivity.
    + apply (ka_env old1 q1); [exact A1 | rewrite F4; exact F3].
  - eexists _, _. split; [apply S; discriminate|].
    apply (finvk_same B _ old1 cl1 idx1 (d1 ++ b) _ fl2 q3 wr1); cbn [s_w s_tl s_flw].
    + reflexivity.
    + apply R3.
    + exact (reported_acts _ _ _ R3 Ha1).
    + rewrite (reported_errs _ _ _ _ R3 He1), app_nil_r. reflexivity.
    + reflexivity.
    + rewrite app_length, Nat2N.inj_add. reflexivity.
    + apply (ka_append old1 q1); [exact A1 | exact F3].
Qed.

(* one record on an initialised writer *)
Lemma active_stepk B x old q fl errs (cl : cdir) (idx : nat) (d : bytes) wr (b : bytes) :
  s_w x = fw q fl -> quiet q -> wacts q = 0 -> werrs q = errs -> s_tl x = [] ->
  s_flw x = Some (flwk (actk (kidx_of old idx) (N.of_nat (length d)) wr)) -> KA old q wr cl idx d ->
  let '(st', e, fl') := k_active m n old cl idx d b fl in
  exists x' rot, step x (OWrite b) = (x', ObsRes 0 rot) /\ FInvK B x' st' (errs ++ e) fl'.
Proof.
  intros Ew Q Ha He Ht Es A. pose proof A as (Hp & Hc & Hb & _).
  unfold k_active. fold (kst_same old cl idx).
  destruct (m <? N.of_nat (length d))%N eqn:Em.
  - pose proof (mount_next_k_unfold (fw q fl) (kidx_of old idx) (N.of_nat (length d)) wr Hp Em) as M.
    rewrite index_rotate_fw in M by exact Q.
    destruct (pop fl) as [f1 fl1]. cbn [fst snd] in M. destruct f1.
    + (* the rename fails *)
      pose proof (tail_stepk B x q fl _ _ wr Err q fl1 old cl idx d wr errs b Ew Ht Es M (fun H => ltac:(discriminate H)) Q Ha He A) as T.
      destruct (s_write d b fl1) as [[d' e] fl2]. exact T.
    + destruct (ka_rename old q wr cl idx d fl1 Q A) as (q1 & Er & Q1 & Ha1 & He1 & A1). rewrite Er in M.
      assert (Lc1 : lookup (wfs q1) (cname c) = None) by (destruct A1 as (_ & _ & _ & G1 & _); exact (gd_cur _ _ _ _ G1)).
      rewrite (open_cur_fresh q1 fl1 Q1 Lc1) in M.
      destruct (pop fl1) as [f2 fl2]. cbn [fst snd] in M. destruct f2.
      * (* the new current file cannot be created *)
        pose proof (tail_stepk B x q fl _ _ wr Err q1 fl2 true cl idx d wr errs b Ew Ht Es M (fun H => ltac:(discriminate H)) Q1
                      (eq_trans Ha1 Ha) (eq_trans He1 He) A1) as T.
        destruct (s_write d b fl2) as [[d' e] fl3]. exact T.
      * (* the rotation is completed: the cleanup *)
        set (q2 := set_fs q1 (fst (create_file (wfs q1) (cname c) 0%N (wnow q1)))) in *.
        set (wr2 := {| wino := snd (create_file (wfs q1) (cname c) 0%N (wnow q1)); wpend := []; wcap := c_cap c |}) in *.
        assert (Q2 : quiet q2) by (apply quiet_set_fs; exact Q1).
        destruct A1 as (_ & _ & _ & G1 & _).
        destruct (gdir_create c (wfs q1) (cl ++ [(idx, d)]) (wnow q1) G1) as [G2 C2].
        destruct (cleanup_impl_fw q2 fl2 (cl ++ [(idx, d)]) (Some (wino wr2)) Q2 G2) as (q3 & Ec & S3 & I3 & G3).
        rewrite Ec in M. pose proof (s_cleanup_incl n (cl ++ [(idx, d)]) fl2) as CI.
        destruct (s_cleanup n (cl ++ [(idx, d)]) fl2) as [[cl2 ok] fl3]. cbn [fst snd] in *.
        assert (A3 : KA false q3 wr2 cl2 (S idx) []).
        { split; [reflexivity|]. split; [exact Hcap|]. split.
          - intros i e Hi. specialize (CI _ Hi). apply in_app_or in CI. destruct CI as [H|[H|[]]]; [specialize (Hb _ _ H); lia|].
            injection H as <- _. lia.
          - split; [exact G3|]. unfold content, inode. rewrite I3. exact C2. }
        assert (Ei3 : kidx_of true idx = kidx_of false (S idx)) by (cbn [kidx_of]; lia).
        assert (M' : mount_next c (fw q fl) (actk (kidx_of old idx) (N.of_nat (length d)) wr) false
                     = ((if ok then Ok tt else Err), fw q3 fl3, actk (kidx_of false (S idx)) (N.of_nat (length (@nil N))) wr2)).
        { rewrite M, <- Ei3. destruct ok; reflexivity. }
        assert (Ha3 : wacts q3 = 0) by (rewrite (same_env_acts _ _ S3); [reflexivity | exact (eq_trans Ha1 Ha)]).
        assert (He3 : werrs q3 = errs). { destruct S3 as (_ & _ & _ & H & _). rewrite H. exact (eq_trans He1 He). }
        pose proof (tail_stepk B x q fl _ _ wr (if ok then Ok tt else Err) q3 fl3 false cl2 (S idx) [] wr2 errs b Ew Ht Es M'
                      ltac:(destruct ok; discriminate) (proj1 S3) Ha3 He3 A3) as T.
        destruct (s_write [] b fl3) as [[d' e] fl4]. destruct T as (x' & rot & St & I'). exists x', rot. split; [exact St|].
        cbn [kst_same] in I'. destruct ok; exact I'.
  - pose proof (mount_next_k_idle (fw q fl) (kidx_of old idx) (N.of_nat (length d)) wr Em) as M.
    pose proof (tail_stepk B x q fl _ _ wr (Ok tt) q fl old cl idx d wr errs b Ew Ht Es M (fun H => ltac:(discriminate H)) Q Ha He A) as T.
    destruct (s_write d b fl) as [[d' e] fl1]. exact T.
Qed.

(* ------------------------------------------------------------------ the initialisation *)
(* the directory of a writer that is not initialised: closed files cl (empty ones, left by failed initialisations), and
   rCURRENT - empty - iff created *)
Definition DI (q : world) (cl : cdir) (created : bool) : Prop :=
  exists o, gdir c (wfs q) cl o /\ (if created then exists j, o = Some j /\ content (wfs q) j = [] else o = None).

(* the oracle entries of one initialisation and what it leaves: closed files, rCURRENT exists, Some idx = it succeeds *)
Definition k_init_tail (ap : bool) (cl1 : cdir) (created1 : bool) (idx1 : nat) (fl2 : list bool)
  : (cdir * bool * option nat) * list bool :=
  let '(f3, fl3) := pop fl2 in
  if f3 then ((cl1, created1, None), fl3) else
  let '(f4, fl4) := if ap then pop fl3 else (false, fl3) in
  if f4 then ((cl1, true, None), fl4) else
  let '(cl2, ok, fl5) := s_cleanup n cl1 fl4 in
  ((cl2, true, if ok then Some idx1 else None), fl5).
Definition k_init_res (ap : bool) (cl : cdir) (created : bool) (fl : list bool) : (cdir * bool * option nat) * list bool :=
  let '(f1, fl1) := pop fl in
  if f1 then ((cl, created, None), fl1) else
  let idx := next_idx cl in
  let '(f2, fl2) := if ap then (false, fl1) else pop fl1 in
  if f2 then ((cl, created, None), fl2) else
  k_init_tail ap (if ap then cl else if created then cl ++ [(idx, [])] else cl)
              (if ap then created else false) (if ap then idx else if created then S idx else idx) fl2.

Lemma k_init_alt ap cl created b fl :
  k_init ap m n cl created b fl
  = match k_init_res ap cl created fl with
    | ((cl', cr, None), fl') => (KInit cl' cr, [EWrite], fl')
    | ((cl', _, Some idx1), fl') => k_active m n false cl' idx1 [] b fl'
    end.
Proof.
  unfold k_init, k_init_res, k_init_tail. destruct (pop fl) as [f1 fl1]. destruct f1; [reflexivity|].
  destruct (if ap then (false, fl1) else pop fl1) as [f2 fl2]. destruct f2; [reflexivity|].
  destruct (pop fl2) as [f3 fl3]. destruct f3; [reflexivity|].
  destruct (if ap then pop fl3 else (false, fl3)) as [f4 fl4]. destruct f4; [reflexivity|].
  destruct (s_cleanup n _ fl4) as [[cl2 ok] fl5]. destruct ok; reflexivity.
Qed.

(* open rCURRENT, read its size (append), clean up *)
Lemma init_tail_fw B q1 fl2 (cl1 : cdir) (created1 : bool) (idx1 : nat) :
  quiet q1 -> DI q1 cl1 created1 -> (created1 = true -> c_append c = true) -> (forall i e, In (i, e) cl1 -> i < idx1) ->
  (N.of_nat (next_idx cl1 + B) <= u32_max)%N ->
  match k_init_tail (c_append c) cl1 created1 idx1 fl2 with
  | ((cl', cr, None), fl') =>
    exists q',
      bind (open_log_file c (fw q1 fl2) (Some cur_infix)) (fun wp w2 =>
        let '(wr, path) := wp in
        bind (roll_new w2 (CSize m) (c_append c) path) (fun roll w3 =>
        bind (cleanup_impl c w3 (KLog n) IFNum None) (fun _ w4 =>
        (Ok (Active (Some {| rs_naming := NSNumR (N.of_nat idx1); rs_roll := roll; rs_cleanup := KLog n; rs_bg := c_bg c |}) wr path),
         if c_bg c then set_acts w4 0 else w4))))
      = (Err, fw q' fl') /\ same_env q1 q' /\ DI q' cl' cr /\ (N.of_nat (next_idx cl' + B) <= u32_max)%N
  | ((cl', _, Some idx'), fl') =>
    exists q' wr,
      bind (open_log_file c (fw q1 fl2) (Some cur_infix)) (fun wp w2 =>
        let '(wr, path) := wp in
        bind (roll_new w2 (CSize m) (c_append c) path) (fun roll w3 =>
        bind (cleanup_impl c w3 (KLog n) IFNum None) (fun _ w4 =>
        (Ok (Active (Some {| rs_naming := NSNumR (N.of_nat idx1); rs_roll := roll; rs_cleanup := KLog n; rs_bg := c_bg c |}) wr path),
         if c_bg c then set_acts w4 0 else w4))))
      = (Ok (actk (N.of_nat idx') 0 wr), fw q' fl') /\ same_env q1 q' /\ KA false q' wr cl' idx' []
  end.
Proof.
  intros Q1 (o & G & Ho) Hca Hb1 Hbd. pose proof Hcfg as (_ & _ & _ & _ & Hbg). unfold k_init_tail.
  (* the open *)
  assert (Op : exists q2 j,
    open_log_file c (fw q1 fl2) (Some cur_infix)
    = (if fst (pop fl2) then (Err, fw q1 (snd (pop fl2)))
       else (Ok ({| wino := j; wpend := []; wcap := c_cap c |}, cname c), fw q2 (snd (pop fl2))))
    /\ same_env q1 q2 /\ gdir c (wfs q2) cl1 (Some j) /\ content (wfs q2) j = []).
  { destruct created1.
    - destruct Ho as (j & -> & Cj). destruct (gd_cur _ _ _ _ G) as [Lc [_ Dc]]. exists q1, j.
      split; [apply (open_cur_existing q1 fl2 j Q1 (Hca eq_refl) Lc Dc)|]. split; [apply same_env_refl; exact Q1|]. split; assumption.
    - subst o. pose proof (gd_cur _ _ _ _ G) as Lc. cbn beta iota in Lc.
      destruct (gdir_create c (wfs q1) cl1 (wnow q1) G) as [G2 C2].
      exists (set_fs q1 (fst (create_file (wfs q1) (cname c) 0%N (wnow q1)))), (snd (create_file (wfs q1) (cname c) 0%N (wnow q1))).
      split; [apply (open_cur_fresh q1 fl2 Q1 Lc)|]. split; [apply same_env_set_fs; exact Q1|]. split; assumption. }
  destruct Op as (q2 & j & Eop & S2 & G2 & C2). rewrite Eop. clear Eop.
  destruct (pop fl2) as [f3 fl3]. cbn [fst snd]. destruct f3; cbn [bind].
  { exists q1. split; [reflexivity|]. split; [apply same_env_refl; exact Q1|]. split; [exists o; split; assumption | exact Hbd]. }
  pose proof (proj1 S2) as Q2. destruct (gd_cur _ _ _ _ G2) as [Lc2 Pc2].
  (* the size *)
  assert (RN : roll_new (fw q2 fl3) (CSize m) (c_append c) (cname c)
               = (let '(f4, fl4) := if c_append c then pop fl3 else (false, fl3) in
                  if f4 then (Err, fw q2 fl4) else (Ok (RSize m 0), fw q2 fl4))).
  { unfold roll_new. destruct (c_append c); [|reflexivity]. rewrite tick_fw. destruct (pop fl3) as [f4 fl4]. cbn [fst snd].
    destruct f4; [reflexivity|]. change (wfs (fw q2 fl4)) with (wfs q2). unfold file_of. rewrite Lc2.
    unfold content in C2. rewrite C2. reflexivity. }
  rewrite RN. clear RN.
  destruct (if c_append c then pop fl3 else (false, fl3)) as [f4 fl4]. destruct f4; cbn [bind].
  { exists q2. split; [reflexivity|]. split; [exact S2|]. split; [|exact Hbd]. exists (Some j). split; [exact G2|]. eauto. }
  (* the cleanup *)
  destruct (cleanup_impl_fw q2 fl4 cl1 (Some j) Q2 G2) as (q3 & Ec & S3 & I3 & G3). rewrite Ec. clear Ec.
  pose proof (s_cleanup_incl n cl1 fl4) as CI.
  destruct (s_cleanup n cl1 fl4) as [[cl2 ok] fl5]. cbn [fst snd] in *.
  assert (C3 : content (wfs q3) j = []) by (unfold content, inode; rewrite I3; exact C2).
  destruct ok; cbn [bind].
  - exists q3, {| wino := j; wpend := []; wcap := c_cap c |}. rewrite Hbg. split; [reflexivity|].
    split; [eapply same_env_trans; eassumption|]. split; [reflexivity|]. split; [exact Hcap|].
    split; [intros i e Hi; apply (Hb1 i e), CI, Hi|]. split; assumption.
  - exists q3. split; [reflexivity|]. split; [eapply same_env_trans; eassumption|]. split; [exists (Some j); split; [exact G3 | eauto]|].
    pose proof (next_idx_incl cl1 cl2 (gd_asc _ _ _ _ G) CI). lia.
Qed.

Lemma initialize_fwk B q fl cl created : quiet q -> DI q cl created -> (N.of_nat (next_idx cl + S B) <= u32_max)%N ->
  match k_init_res (c_append c) cl created fl with
  | ((cl', cr, None), fl') =>
    exists q', initialize c (fw q fl) = (Err, fw q' fl') /\ same_env q q' /\ DI q' cl' cr /\ (N.of_nat (next_idx cl' + B) <= u32_max)%N
  | ((cl', _, Some idx1), fl') =>
    exists q' wr, initialize c (fw q fl) = (Ok (actk (N.of_nat idx1) 0 wr), fw q' fl') /\ same_env q q' /\ KA false q' wr cl' idx1 []
  end.
Proof.
  intros Q D Hbd. pose proof D as (o & G & Ho). pose proof Hcfg as (Hrot & _ & Hlink & Has & Hbg).
  assert (Hlt : forall i d, In (i, d) cl -> i < next_idx cl) by (apply asc_below_next; exact (gd_asc _ _ _ _ G)).
  assert (Hu32 : forall i d, In (i, d) cl -> (N.of_nat i <= u32_max)%N) by (intros i d Hi; specialize (Hlt i d Hi); lia).
  (* a failure before anything is changed *)
  assert (Fail : forall fl', exists q', (Err : res inner, fw q fl') = (Err, fw q' fl') /\ same_env q q' /\ DI q' cl created
                                        /\ (N.of_nat (next_idx cl + B) <= u32_max)%N).
  { intros fl'. exists q. split; [reflexivity|]. split; [apply same_env_refl; exact Q|]. split; [exact D | lia]. }
  unfold initialize. rewrite Hrot. unfold init_naming, index_for_rcurrent, with_listing. rewrite tick_fw.
  unfold k_init_res. destruct (pop fl) as [f1 fl1]. cbn [fst snd]. destruct f1; [cbn [bind]; apply Fail|].
  cbv beta. rewrite (fixed_of_fixed0 c (fw q fl1) Hts). change (woff (fw q fl1)) with (woff q). change (wfs (fw q fl1)) with (wfs q).
  rewrite (highest_index_gdir c Hsfx (wfs q) (woff q) cl o G Hu32).
  set (idx := next_idx cl) in *.
  (* the rename of an old rCURRENT *)
  assert (R : exists q1, same_env q q1 /\
    (if negb (c_append c)
     then let '(r, w1) := p_rename (fw q fl1) (name_of c (fw q fl1) (Some cur_infix)) (name_of c (fw q fl1) (Some (number_infix (N.of_nat idx)))) in
          match r with ROk => (Ok (N.of_nat idx + 1)%N, w1) | RNotFound => (Ok (N.of_nat idx), w1) | RErr => (Err, w1) end
     else (Ok (N.of_nat idx), fw q fl1))
    = (let '(f2, fl2) := if c_append c then (false, fl1) else pop fl1 in
       if f2 then (Err, fw q fl2)
       else (Ok (N.of_nat (if c_append c then idx else if created then S idx else idx)), fw q1 fl2))
    /\ DI q1 (if c_append c then cl else if created then cl ++ [(idx, [])] else cl) (if c_append c then created else false)
    /\ ((if c_append c then created else false) = true -> c_append c = true)
    /\ (forall i e, In (i, e) (if c_append c then cl else if created then cl ++ [(idx, [])] else cl) ->
                    i < (if c_append c then idx else if created then S idx else idx))
    /\ (N.of_nat (next_idx (if c_append c then cl else if created then cl ++ [(idx, [])] else cl) + B) <= u32_max)%N).
  { destruct (c_append c) eqn:Happ; cbn [negb].
    - exists q. split; [apply same_env_refl; exact Q|]. split; [reflexivity|]. split; [exact D|]. split; [intros _; reflexivity|].
      split; [exact Hlt | fold idx; lia].
    - rewrite !(name_of_fixed c (fw q fl1)) by exact Hts. fold (nm c cur_infix) (cname c). fold (nm c (number_infix (N.of_nat idx))).
      rewrite p_rename_fw by exact Q. destruct created.
      + destruct Ho as (j & -> & Cj). destruct (gdir_rename c (wfs q) cl j idx G Hlt) as (f1 & Er & Ei & G1 & L1). rewrite Cj in G1.
        unfold rname in Er. rewrite Er. exists (set_fs q f1). split; [apply same_env_set_fs; exact Q|].
        split. { destruct (pop fl1) as [f2 fl2]. cbn [fst snd]. destruct f2; [reflexivity|]. f_equal. f_equal. lia. }
        split; [exists None; split; [exact G1 | reflexivity]|]. split; [discriminate|].
        split. { intros i e Hi. apply in_app_or in Hi. destruct Hi as [Hi|[E|[]]]; [specialize (Hlt _ _ Hi); lia | injection E as <- _; lia]. }
        rewrite next_idx_snoc. fold idx in Hbd. lia.
      + subst o. pose proof (gd_cur _ _ _ _ G) as Lc. cbn beta iota in Lc. rewrite (rename_none _ _ (nm c (number_infix (N.of_nat idx))) Lc).
        exists q. split; [apply same_env_refl; exact Q|].
        split. { destruct (pop fl1) as [f2 fl2]. cbn [fst snd]. destruct f2; reflexivity. }
        split; [exact D|]. split; [discriminate|]. split; [exact Hlt | fold idx; lia]. }
  destruct R as (q1 & S1 & ER & D1 & Hca1 & Hb1 & Hbd1). rewrite ER. clear ER.
  destruct (if c_append c then (false, fl1) else pop fl1) as [f2 fl2]. destruct f2; [cbn [bind]; apply Fail|]. cbn [bind].
  cbn [ns_filter naming_writes_direct].
  pose proof (init_tail_fw B q1 fl2 _ _ _ (proj1 S1) D1 Hca1 Hb1 Hbd1) as T.
  destruct (k_init_tail (c_append c) _ _ _ fl2) as [[[cl' cr] [idx'|]] fl'].
  - destruct T as (q' & wr & E & S & A). exists q', wr. split; [exact E|]. split; [eapply same_env_trans; eassumption | exact A].
  - destruct T as (q' & E & S & D' & Hbd'). exists q'. split; [exact E|]. split; [eapply same_env_trans; eassumption|]. split; assumption.
Qed.

(* one record on a writer that is not initialised *)
Lemma init_stepk B x cl created errs fl b : FInvK (S B) x (KInit cl created) errs fl ->
  let '(st', e, fl') := k_init (c_append c) m n cl created b fl in
  exists x' rot, step x (OWrite b) = (x', ObsRes 0 rot) /\ FInvK B x' st' (errs ++ e) fl'.
Proof.
  intros [q [Ew [Q [Ha [He [Ht [Es [D Hbd]]]]]]]]. rewrite k_init_alt.
  pose proof (initialize_fwk B q fl cl created Q D Hbd) as IF.
  destruct (k_init_res (c_append c) cl created fl) as [[[cl' cr] [idx1|]] fl'].
  - destruct IF as [q' [wr [Ei [S A]]]].
    set (x1 := {| s_flw := Some (flwk (actk (N.of_nat idx1) 0 wr)); s_w := fw q' fl'; s_tl := []; s_dead := s_dead x |}).
    assert (E : step x (OWrite b) = step x1 (OWrite b)).
    { apply (stepk_write_eq x x1 Initial (actk (N.of_nat idx1) 0 wr) b Es eq_refl Ht eq_refl eq_refl). rewrite Ew. cbn [x1 s_w].
      exact (write_buffer_init c (fw q fl) b _ wr (cname c) (fw q' fl') Ei). }
    rewrite E.
    apply (active_stepk B x1 false q' fl' errs cl' idx1 [] wr b eq_refl (proj1 S)).
    + exact (same_env_acts _ _ S Ha).
    + destruct S as [_ [_ [_ [H _]]]]. congruence.
    + reflexivity.
    + reflexivity.
    + exact A.
  - (* the initialisation fails: the record is lost, the handle reports it, the writer stays uninitialised *)
    destruct IF as [q' [Ei [S [D' Hbd']]]].
    assert (E : write_buffer (flwk Initial) (s_w x) b = (Err, fw q' fl', flwk Initial, false)).
    { rewrite Ew. unfold write_buffer. cbn [flwk f_cfg f_inner]. rewrite Ei. reflexivity. }
    eexists _, _. split; [apply (stepk_write x Initial b Err _ Initial false Es Ht E); discriminate|].
    destruct (report_reported EWrite q' (proj1 S)) as [R4 F4].
    pose proof (reported_trans _ _ _ _ _ (same_env_reported _ _ S) R4) as RR. cbn [app] in RR.
    exists (report EWrite q'). cbn [s_w s_tl s_flw].
    split; [apply report_fw; apply S|]. split; [apply R4|]. split; [exact (reported_acts _ _ _ RR Ha)|].
    split; [exact (reported_errs _ _ _ _ RR He)|]. split; [reflexivity|]. split; [reflexivity|].
    split; [|exact Hbd']. unfold DI in *. rewrite F4. exact D'.
Qed.

Theorem kfstep B x st errs fl b : FInvK (S B) x st errs fl ->
  let '(st', e, fl') := kstep (c_append c) m n st fl b in
  exists x' rot, step x (OWrite b) = (x', ObsRes 0 rot) /\ FInvK B x' st' (errs ++ e) fl'.
Proof.
  intros I. destruct st as [cl created|cl idx d|cl idx d]; cbn [kstep].
  - apply init_stepk. exact I.
  - destruct I as [q [Ew [Q [Ha [He [Ht [wr [Es A]]]]]]]]. exact (active_stepk B x false q fl errs cl idx d wr b Ew Q Ha He Ht Es A).
  - destruct I as [q [Ew [Q [Ha [He [Ht [wr [Es A]]]]]]]]. exact (active_stepk B x true q fl errs cl idx d wr b Ew Q Ha He Ht Es A).
Qed.

Theorem kfrun : forall recs x st errs fl, FInvK (length recs) x st errs fl ->
  let '(st', e, fl') := simk_st (c_append c) m n st fl recs in
  exists x' obs, run x (List.map OWrite recs) = (x', obs) /\ FInvK 0 x' st' (errs ++ e) fl' /\ Forall obs_normal obs.
Proof.
  induction recs as [|b rest IH]; intros x st errs fl I; cbn [simk_st List.map run length] in *.
  - exists x, []. rewrite app_nil_r. split; [reflexivity|]. split; [exact I | constructor].
  - pose proof (kfstep (length rest) x st errs fl b I) as S. destruct (kstep (c_append c) m n st fl b) as [[st1 e1] fl1].
    destruct S as [x1 [rot [S1 I1]]]. specialize (IH x1 st1 (errs ++ e1) fl1 I1).
    destruct (simk_st (c_append c) m n st1 fl1 rest) as [[st2 e2] fl2]. destruct IH as [x2 [obs [R [I2 O]]]].
    exists x2, (ObsRes 0 rot :: obs). rewrite S1, R. split; [reflexivity|]. split; [rewrite app_assoc; exact I2|].
    constructor; [exists rot; reflexivity | exact O].
Qed.

(* what a reader finds: exactly the closed files r<i> with their contents (plain files), rCURRENT with its content
   or no rCURRENT, nothing else *)
Definition kview (f : fs) (cl : cdir) (ocur : option bytes) : Prop :=
  fs_wf f /\ asc cl
  /\ (forall i d, In (i, d) cl -> exists j, lookup f (rname c i) = Some j /\ plain (inode f j) /\ content f j = d)
  /\ match ocur with
     | Some d => exists j, lookup f (cname c) = Some j /\ plain (inode f j) /\ content f j = d
     | None => lookup f (cname c) = None
     end
  /\ (forall nm j, lookup f nm = Some j -> nm = cname c \/ exists i d, In (i, d) cl /\ nm = rname c i).

Lemma gdir_kview f cl o ocur : gdir c f cl o ->
  match ocur, o with
  | Some d, Some j => content f j = d
  | None, None => True
  | _, _ => False
  end -> kview f cl ocur.
Proof.
  intros G H. split; [exact (gd_wf _ _ _ _ G)|]. split; [exact (gd_asc _ _ _ _ G)|]. split; [exact (gd_files _ _ _ _ G)|].
  split; [|exact (gd_only _ _ _ _ G)]. pose proof (gd_cur _ _ _ _ G) as Hc.
  destruct ocur as [d|], o as [j|]; try contradiction; [destruct Hc as [L P]; exists j; auto | exact Hc].
Qed.

Lemma finvk_final B x st errs fl : FInvK B x st errs fl ->
  kview (wfs (s_w x)) (k_closed st) (k_cur st)
  /\ werrs (s_w x) = errs /\ wfaults (s_w x) = fl /\ wkill (s_w x) = None.
Proof.
  intros [q [Ew [Q [Ha [He [Ht I]]]]]]. rewrite Ew. cbn [fw set_faults wfs werrs wfaults wkill].
  split; [|split; [exact He | split; [reflexivity | apply Q]]].
  destruct st as [cl created|cl idx d|cl idx d]; cbn [k_closed k_cur].
  - destruct I as [_ [(o & G & Ho) _]]. apply (gdir_kview _ _ o); [exact G|]. destruct created.
    + destruct Ho as (j & -> & Cj). exact Cj.
    + subst o. exact I.
  - destruct I as [wr [_ (_ & _ & _ & G & C)]]. apply (gdir_kview _ _ (Some (wino wr))); assumption.
  - destruct I as [wr [_ (_ & _ & _ & G & L)]]. apply (gdir_kview _ _ None); [exact G | exact I].
Qed.

Lemma finvk_start B t0 off fl : (N.of_nat B <= u32_max)%N ->
  FInvK B (fst (step {| s_flw := None; s_w := set_faults (world0 t0 off) fl; s_tl := []; s_dead := false |} (OStart c))) (KInit [] false) [] fl.
Proof.
  intros HB. exists (world0 t0 off). split; [reflexivity|]. split; [split; reflexivity|]. split; [reflexivity|]. split; [reflexivity|].
  split; [reflexivity|]. split; [reflexivity|]. split; [|exact HB].
  exists None. split; [|reflexivity]. constructor.
  - exact wf_empty.
  - constructor.
  - constructor.
  - intros i d [].
  - reflexivity.
  - intros nm j H. discriminate H.
Qed.

End K.

(* ------------------------------------------------------------------ the theorems *)
(* (1) For every fault oracle fl and every list of records: after  OStart c :: map OWrite recs  from the empty directory
   with the oracle fl, the directory is exactly what simk says - the closed files r<i> of the list hold the contents
   given there, rCURRENT holds the current content or does not exist, nothing else is there -, the error channel holds
   exactly the errors simk lists (with their codes, in order), the oracle is consumed as simk says, and every log call
   (and the start) returns normally: no panic, no error result.
   (The bound on the number of records: the index that an initialisation reads off the directory is parsed as u32.) *)
Theorem faults_rotation_cleanup c m n t0 off fl recs :
  numkcfg c (CSize m) (KLog n) -> c_cap c = None -> sfx_ok (c_spec c) -> (N.of_nat (length recs) <= u32_max)%N ->
  let r := run (fsys t0 off fl) (OStart c :: List.map OWrite recs) in
  let '(closed, ocur, errs, rest) := simk (c_append c) m n fl recs in
  kview c (wfs (s_w (fst r))) closed ocur
  /\ werrs (s_w (fst r)) = errs
  /\ wfaults (s_w (fst r)) = rest
  /\ (forall o, In o (snd r) -> exists rot, o = ObsRes 0 rot).
Proof.
  intros Hcfg Hcap Hsfx HB. cbv zeta. unfold simk.
  pose proof (finvk_start c m n (length recs) t0 off fl HB) as I0. fold (fsys t0 off fl) in I0.
  pose proof (kfrun c m n Hcfg Hcap Hsfx recs _ _ _ _ I0) as R.
  destruct (simk_st (c_append c) m n (KInit [] false) fl recs) as [[st e] fl'].
  destruct R as [x' [obs [R [I O]]]]. cbn [app] in I.
  assert (Rn : run (fsys t0 off fl) (OStart c :: List.map OWrite recs) = (x', ObsRes 0 false :: obs)).
  { cbn [run]. destruct (step (fsys t0 off fl) (OStart c)) as [x1 ob] eqn:E1.
    assert (ob = ObsRes 0 false) by (unfold fsys in E1; cbv in E1; injection E1 as _ <-; reflexivity).
    cbn [fst] in R. rewrite R. subst ob. reflexivity. }
  rewrite Rn. cbn [fst snd].
  destruct (finvk_final c m n 0 x' st e fl' I) as [V [He [Hf _]]].
  split; [exact V|]. split; [exact He|]. split; [exact Hf|].
  intros o [<-|Ho]; [eexists; reflexivity|]. rewrite Forall_forall in O. exact (O o Ho).
Qed.
Print Assumptions faults_rotation_cleanup.

(* (2), (3) in terms of the run, record by record.  With t = ktrace .. the list of log calls (record, its reports, the
   oracle entries its call consumed - they partition the consumed part of the oracle, and the reports are those on the
   error channel) and lg = klog .. the files that were closed for good, in order: the LOG - the contents of lg, then the
   content of the file the writer writes into - is the concatenation of the records that were kept; every closed file
   in the directory is one of lg (same index, same content) or an empty file left by a failed initialisation - the
   cleanup only deletes whole closed files -; a record whose log call consumed only `false` entries is kept and nothing
   is reported for it; a record that is missing had a failing call in its own log call and was reported with EWrite *)
Theorem faults_rotation_cleanup_trace c m n t0 off fl recs :
  numkcfg c (CSize m) (KLog n) -> c_cap c = None -> sfx_ok (c_spec c) -> (N.of_nat (length recs) <= u32_max)%N ->
  let x := fst (run (fsys t0 off fl) (OStart c :: List.map OWrite recs)) in
  let t := ktrace (c_append c) m n (KInit [] false) fl recs in
  let lg := klog (c_append c) m n (KInit [] false) fl recs in
  exists st,
    kview c (wfs (s_w x)) (k_closed st) (k_cur st)
    /\ concat (List.map snd lg) ++ k_wcur st = concat (List.map t_kept t)
    /\ (forall p, In p (k_cl st) -> In p lg \/ snd p = [])
    /\ List.map t_rec t = recs
    /\ werrs (s_w x) = concat (List.map t_errs t)
    /\ fl = concat (List.map t_used t) ++ wfaults (s_w x)
    /\ (forall e, In e t -> length (t_errs e) = ntrue (t_used e))
    /\ (forall e, In e t -> (forall f, In f (t_used e) -> f = false) -> t_errs e = [] /\ t_kept e = t_rec e)
    /\ (forall e, In e t -> t_kept e <> t_rec e -> In true (t_used e) /\ In EWrite (t_errs e)).
Proof.
  intros Hcfg Hcap Hsfx HB. cbv zeta.
  pose proof (faults_rotation_cleanup c m n t0 off fl recs Hcfg Hcap Hsfx HB) as Fr. cbv zeta in Fr. unfold simk in Fr.
  pose proof (lost_only_around_failures_k (c_append c) m n fl recs) as L.
  destruct (simk_st (c_append c) m n (KInit [] false) fl recs) as [[st e] fl']. cbv zeta in L.
  destruct Fr as [V [He [Hf _]]]. destruct L as [H1 [H2 [H3 [H4 [H5 [H6 [H7 H8]]]]]]].
  exists st. rewrite He, Hf. split; [exact V|]. split; [exact H4|]. split; [exact H5|]. split; [exact H1|]. split; [exact H3|].
  split; [exact H2|]. auto.
Qed.
Print Assumptions faults_rotation_cleanup_trace.

(* the same as a count: the log is the concatenation of a subsequence of the records; each missing record is one
   EWrite on the error channel *)
Theorem faults_rotation_cleanup_stream c m n t0 off fl recs :
  numkcfg c (CSize m) (KLog n) -> c_cap c = None -> sfx_ok (c_spec c) -> (N.of_nat (length recs) <= u32_max)%N ->
  let x := fst (run (fsys t0 off fl) (OStart c :: List.map OWrite recs)) in
  exists st kept,
    kview c (wfs (s_w x)) (k_closed st) (k_cur st)
    /\ concat (List.map snd (klog (c_append c) m n (KInit [] false) fl recs)) ++ k_wcur st = concat kept
    /\ Subseq kept recs
    /\ length recs = length kept + nlost (werrs (s_w x))
    /\ nlost (werrs (s_w x)) <= length (werrs (s_w x)).
Proof.
  intros Hcfg Hcap Hsfx HB. cbv zeta.
  pose proof (faults_rotation_cleanup c m n t0 off fl recs Hcfg Hcap Hsfx HB) as Fr. cbv zeta in Fr. unfold simk in Fr.
  pose proof (loss_is_reported_k (c_append c) m n recs (KInit [] false) fl) as L.
  destruct (simk_st (c_append c) m n (KInit [] false) fl recs) as [[st e] fl'].
  destruct Fr as [V [He _]]. destruct L as [kept [Hs [Hst [Hl Hle]]]].
  exists st, kept. rewrite He. split; [exact V|]. split; [exact Hst|]. auto.
Qed.
Print Assumptions faults_rotation_cleanup_stream.

(* (4) THE LIMIT IS RESTORED, at the level of the run.  When the oracle has been used up by the records recs1 (what is left
   is empty or all `false`) and the next log call initialises or rotates (krotates: it therefore runs the cleanup),
   then after it and whatever records follow: the writer is on rCURRENT, AT MOST n CLOSED FILES exist, and nothing more
   has been reported *)
Theorem cleanup_limit_restored c m n t0 off fl recs1 b recs2 :
  numkcfg c (CSize m) (KLog n) -> c_cap c = None -> sfx_ok (c_spec c) ->
  (N.of_nat (length (recs1 ++ b :: recs2)) <= u32_max)%N ->
  let '(st1, e1, fl1) := simk_st (c_append c) m n (KInit [] false) fl recs1 in
  all_false fl1 -> krotates m st1 = true ->
  let x := fst (run (fsys t0 off fl) (OStart c :: List.map OWrite (recs1 ++ b :: recs2))) in
  exists cl d, kview c (wfs (s_w x)) cl (Some d) /\ length cl <= n /\ werrs (s_w x) = e1.
Proof.
  intros Hcfg Hcap Hsfx HB.
  pose proof (faults_rotation_cleanup c m n t0 off fl (recs1 ++ b :: recs2) Hcfg Hcap Hsfx HB) as Fr. cbv zeta in Fr. unfold simk in Fr.
  rewrite simk_st_app in Fr.
  pose proof (simk_st_pending (c_append c) m n recs1 (KInit [] false) fl I) as P1.
  destruct (simk_st (c_append c) m n (KInit [] false) fl recs1) as [[st1 e1] fl1] eqn:E1. cbn [fst] in P1.
  intros Hf Hk. cbv zeta.
  assert (Hk' : krotates m (fst (fst (simk_st (c_append c) m n st1 fl1 []))) = true) by exact Hk.
  pose proof (cleanup_limit_restored_spec (c_append c) m n [] b recs2 st1 fl1 Hf P1 Hk') as R. cbn [app] in R.
  destruct (simk_st (c_append c) m n st1 fl1 (b :: recs2)) as [[st2 e2] fl2].
  destruct R as [-> [_ [Hl (cl & idx & d & ->)]]]. destruct Fr as [V [He _]].
  exists cl, d. split; [exact V|]. split; [exact Hl|]. rewrite He, app_nil_r. reflexivity.
Qed.
Print Assumptions cleanup_limit_restored.

(* ------------------------------------------------------------------ the statement, computed on examples *)
Import String.StringSyntax.
Open Scope string_scope.
Definition kx_cfg (app : bool) (m : N) (n : nat) : config :=
  {| c_spec := {| fbase := bs "app"; fdisc := None; fts := false; fsfx := Some (bs "log") |};
     c_append := app; c_cap := None; c_rot := Some (CSize m, NNumbers, KLog n); c_utc := false;
     c_symlink := false; c_bg := false; c_async := false; c_start := None |}.
Lemma kx_numkcfg app m n : numkcfg (kx_cfg app m n) (CSize m) (KLog n) /\ c_cap (kx_cfg app m n) = None /\ sfx_ok (c_spec (kx_cfg app m n)).
Proof. repeat split. Qed.

(* the run: the directory (name, kind, content; sorted by name), the error channel, the rest of the oracle, and
   whether every log call returned normally *)
Definition kx_run (app : bool) (m : N) (n : nat) (fl : list bool) (recs : list bytes)
  : list (bytes * N * bytes) * list ecode * list bool * bool :=
  let r := run (fsys 0 0 fl) (OStart (kx_cfg app m n) :: List.map OWrite recs) in
  (snap_of (fst r), werrs (s_w (fst r)), wfaults (s_w (fst r)), forallb obs_normalb (snd r)).
(* the specification, as a directory *)
Definition kx_sim (app : bool) (m : N) (n : nat) (fl : list bool) (recs : list bytes)
  : list (bytes * N * bytes) * list ecode * list bool * bool :=
  let '(cl, ocur, e, rest) := simk app m n fl recs in
  (List.map (fun p => (rname (kx_cfg app m n) (fst p), 0%N, snd p)) cl
   ++ match ocur with Some d => [(cname (kx_cfg app m n), 0%N, d)] | None => [] end, e, rest, true).

Definition recs8 : list bytes := [bs "abcd"; bs "efgh"; bs "ijkl"; bs "mnop"; bs "qrst"; bs "uvwx"; bs "yz"; bs "12"].
Definition recs6 : list bytes := [bs "abcd"; bs "ef"; bs "gh"; bs "ijkl"; bs "mn"; bs "opqr"].
Definition r2 := bs "app_r00002.log".
Definition r3 := bs "app_r00003.log".
Definition r5 := bs "app_r00005.log".

(* size limit 3, KeepLogFiles 1, no append.  The fallible calls: first record  read_dir, rename, open, [cleanup:] read_dir,
   write;  a rotating record  rename, create, [cleanup:] read_dir, remove_file ..., write *)
(* no failure: one closed file is kept *)
Example kx_none : kx_run false 3 1 [] recs8 = ([(r5, 0%N, bs "uvwx"); (rC, 0%N, bs "yz12")], [], [], true)
               /\ kx_sim false 3 1 [] recs8 = kx_run false 3 1 [] recs8.
Proof. split; vm_compute; reflexivity. Qed.

(* (vi) COUNTEREXAMPLE to "a failure inside the cleanup never loses a record": the read_dir of the cleanup that ends the
   INITIALISATION fails (4th call): initialize fails as a whole, "abcd" is lost and reported (EWrite) although its write
   was never attempted, the log call returns normally; rCURRENT has been created and is empty ... *)
Example kx_init_cleanup_fails_loses_record :
  kx_run false 3 1 [F;F;F;T] [bs "abcd"] = ([(rC, 0%N, [])], [EWrite], [], true)
  /\ kx_sim false 3 1 [F;F;F;T] [bs "abcd"] = kx_run false 3 1 [F;F;F;T] [bs "abcd"].
Proof. split; vm_compute; reflexivity. Qed.
(* ... and the next initialisation (no append) renames it: an EMPTY closed file r00000 appears *)
Example kx_init_cleanup_fails_then_recovers :
  kx_run false 3 1 [F;F;F;T] (firstn 2 recs8) = ([(r0, 0%N, []); (rC, 0%N, bs "efgh")], [EWrite], [], true)
  /\ kx_sim false 3 1 [F;F;F;T] (firstn 2 recs8) = kx_run false 3 1 [F;F;F;T] (firstn 2 recs8).
Proof. split; vm_compute; reflexivity. Qed.
(* with append the empty rCURRENT is continued *)
Example kx_init_cleanup_fails_append :
  kx_run true 3 1 [F;F;F;T] (firstn 2 recs8) = ([(rC, 0%N, bs "efgh")], [EWrite], [], true)
  /\ kx_sim true 3 1 [F;F;F;T] (firstn 2 recs8) = kx_run true 3 1 [F;F;F;T] (firstn 2 recs8).
Proof. split; vm_compute; reflexivity. Qed.

(* (v) AT A ROTATION nothing is lost.  The read_dir of the cleanup of the 2nd rotation fails (reported: ELogFile), "ijkl" is
   written into the new rCURRENT; two closed files are there instead of one *)
Example kx_rot_cleanup_listing_fails :
  kx_run false 3 1 [F;F;F;F;F; F;F;F;F; F;F;T] (firstn 3 recs8)
  = ([(r0, 0%N, bs "abcd"); (r1, 0%N, bs "efgh"); (rC, 0%N, bs "ijkl")], [ELogFile], [], true)
  /\ kx_sim false 3 1 [F;F;F;F;F; F;F;F;F; F;F;T] (firstn 3 recs8) = kx_run false 3 1 [F;F;F;F;F; F;F;F;F; F;F;T] (firstn 3 recs8).
Proof. split; vm_compute; reflexivity. Qed.
(* ... at the 3rd rotation the cleanup removes r00001 and then fails to remove r00000 (the removals go from the newest
   surplus file to the oldest): a GAP in the numbers, still one file too many, nothing lost *)
Example kx_rot_cleanup_remove_fails_gap :
  kx_run false 3 1 [F;F;F;F;F; F;F;F;F; F;F;T;F; F;F;F;F;T] (firstn 4 recs8)
  = ([(r0, 0%N, bs "abcd"); (r2, 0%N, bs "ijkl"); (rC, 0%N, bs "mnop")], [ELogFile; ELogFile], [], true)
  /\ kx_sim false 3 1 [F;F;F;F;F; F;F;F;F; F;F;T;F; F;F;F;F;T] (firstn 4 recs8)
     = kx_run false 3 1 [F;F;F;F;F; F;F;F;F; F;F;T;F; F;F;F;F;T] (firstn 4 recs8)
  /\ simk false 3 1 [F;F;F;F;F; F;F;F;F; F;F;T;F; F;F;F;F;T] (firstn 4 recs8)
     = ([(0, bs "abcd"); (2, bs "ijkl")], Some (bs "mnop"), [ELogFile; ELogFile], []).
Proof. split; [vm_compute; reflexivity|]. split; vm_compute; reflexivity. Qed.
(* ... the oracle is used up: the next rotation cleans up everything, the limit holds again *)
Example kx_limit_restored :
  kx_run false 3 1 [F;F;F;F;F; F;F;F;F; F;F;T;F; F;F;F;F;T] (firstn 5 recs8)
  = ([(r3, 0%N, bs "mnop"); (rC, 0%N, bs "qrst")], [ELogFile; ELogFile], [], true)
  /\ kx_sim false 3 1 [F;F;F;F;F; F;F;F;F; F;F;T;F; F;F;F;F;T] (firstn 5 recs8)
     = kx_run false 3 1 [F;F;F;F;F; F;F;F;F; F;F;T;F; F;F;F;F;T] (firstn 5 recs8).
Proof. split; vm_compute; reflexivity. Qed.
(* the hypotheses of cleanup_limit_restored hold for this history: after four records the oracle is used up and the
   fifth rotates *)
Example kx_limit_restored_hyps :
  let '(st1, e1, fl1) := simk_st false 3 1 (KInit [] false) [F;F;F;F;F; F;F;F;F; F;F;T;F; F;F;F;F;T] (firstn 4 recs8) in
  fl1 = [] /\ krotates 3 st1 = true /\ e1 = [ELogFile; ELogFile].
Proof. vm_compute. repeat split. Qed.

(* run and specification agree on ALL fault oracles up to length 8 (511 oracles), for four settings (KeepLogFiles 0, 1, 2;
   with and without append), and - so that the failures reach the later cleanups with their remove_file calls - on all
   oracles of the form  false^k ++ (an oracle up to length 8)  for k = 8, 12, 16 *)
Definition kagree (app : bool) (m : N) (n : nat) (recs : list bytes) (fl : list bool) : bool :=
  let '(d1, e1, f1, ok1) := kx_run app m n fl recs in
  let '(d2, e2, f2, ok2) := kx_sim app m n fl recs in
  leqb ent_eqb d1 d2 && leqb ec_eqb e1 e2 && leqb Bool.eqb f1 f2 && Bool.eqb ok1 ok2.
Definition shifted (k l : nat) : list (list bool) := List.map (Datatypes.app (repeat false k)) (all_lists l).
Example kx_agree_all :
  forallb (kagree false 3 1 recs6) (all_lists 8) = true
  /\ forallb (kagree false 3 0 recs6) (all_lists 8) = true
  /\ forallb (kagree true 3 1 recs6) (all_lists 8) = true
  /\ forallb (kagree false 3 2 recs8) (all_lists 8) = true
  /\ forallb (kagree false 1 1 [bs "abcd"; bs ""; bs "efgh"; bs ""; bs "i"; bs "jk"]) (all_lists 8) = true.
Proof.
  split; [vm_compute; reflexivity|]. split; [vm_compute; reflexivity|]. split; [vm_compute; reflexivity|].
  split; vm_compute; reflexivity.
Qed.
Example kx_agree_shifted :
  forallb (fun k => forallb (kagree false 3 1 recs8) (shifted k 8)) [8; 12; 16]%nat = true
  /\ forallb (fun k => forallb (kagree false 3 2 recs8) (shifted k 8)) [12; 16]%nat = true
  /\ forallb (fun k => forallb (kagree true 3 0 recs8) (shifted k 8)) [8; 12]%nat = true.
Proof. split; [vm_compute; reflexivity|]. split; vm_compute; reflexivity. Qed.
