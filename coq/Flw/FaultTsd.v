(* C19 with rotation, TimestampsDirect naming: the model does what the specification FaultTsdSpec.simt says - for EVERY
   fault oracle and EVERY list of records with clock advances (TimestampsDirect naming, size criterion, direct mode, no
   cleanup, synchronous, no symlink, no start-time part in the name; both with and without append, use_utc either way;
   empty records included). *)
Require Import FL.Base.Bytes FL.Base.BytesFacts FL.Base.PathName FL.Fs.Fs FL.Fs.FsFacts FL.Time.Civil FL.Time.TsFormat
  FL.Names.FileSpec FL.Names.NamesFacts FL.Names.SortFacts FL.Flw.Model FL.Flw.ModelFacts FL.Flw.NumFs FL.Flw.NumInv FL.Flw.Run FL.Flw.RunFacts
  FL.Flw.NumRun FL.Flw.NumListing FL.Oracles.O_Flw FL.Flw.NumTheorems FL.Flw.NumRestart FL.Flw.KillFacts FL.Flw.NumKill
  FL.Flw.NumDInv FL.Flw.TsCal FL.Flw.TsTime FL.Flw.TsMono FL.Flw.TsNames FL.Flw.TsInv FL.Flw.TsRun FL.Flw.TsTheorems
  FL.Flw.TsdInv FL.Flw.TsdRun FL.Flw.TsdTheorems FL.Flw.TsdRestartInv
  FL.Flw.FaultFacts FL.Flw.FaultRotSpec FL.Flw.FaultRotation FL.Flw.FaultTsdSpec.
From Coq Require Import ZifyN ZifyNat ZifyBool.
Open Scope nat_scope.

(* ------------------------------------------------------------------ general: listings and writes with a fault oracle *)
Lemma with_listing_fw {A} q fl (g : world -> option A) :
  with_listing (fw q fl) g =
  if fst (pop fl) then (Err, fw q (snd (pop fl)))
  else match g (fw q (snd (pop fl))) with
       | Some a => (Ok a, fw q (snd (pop fl)))
       | None => (Panic, fw q (snd (pop fl)))
       end.
Proof. unfold with_listing. rewrite tick_fw. destruct (pop fl) as [f fl1]. cbn [fst snd]. destruct f; reflexivity. Qed.

Lemma with_listing_quiet_inv {A} q (g : world -> option A) a w' : quiet q -> with_listing q g = (Ok a, w') -> g q = Some a.
Proof.
  intros Q. unfold with_listing. rewrite tick_quiet by exact Q. destruct (g q) as [x|]; [|discriminate].
  intros E. injection E as -> _. reflexivity.
Qed.

(* the rest of write_buffer after the rotation check, for any naming state and path *)
Lemma wb_active_gen c m q fl ns path cur wr r1 q1 fl1 ns1 path1 cur1 wr1 b :
  mount_next c (fw q fl) (Active (Some (mk_rs ns (RSize m cur))) wr path) false
    = (r1, fw q1 fl1, Active (Some (mk_rs ns1 (RSize m cur1))) wr1 path1) ->
  r1 <> Panic -> quiet q1 -> wcap wr1 = None ->
  exists q3,
    write_buffer (flw_of c (Active (Some (mk_rs ns (RSize m cur))) wr path)) (fw q fl) b
    = ((if fst (wr_pop b fl1) then Err else Ok tt), fw q3 (snd (wr_pop b fl1)),
       flw_of c (Active (Some (mk_rs ns1 (RSize m (if fst (wr_pop b fl1) then cur1 else (cur1 + N.of_nat (length b))%N)))) wr1 path1),
       (m <? cur)%N)
    /\ reported q1 q3 (match r1 with Err => [ELogFile] | _ => [] end)
    /\ wfs q3 = (if fst (wr_pop b fl1) then wfs q1 else append_ino (wfs q1) (wino wr1) b).
Proof.
  intros M Hr Q1 Hc. unfold write_buffer, flw_of. cbn [f_cfg f_inner]. rewrite M.
  cbn [mk_rs rs_roll rotation_necessary]. unfold size_rotation_necessary.
  destruct r1 as [[]| |]; [| |contradiction].
  - destruct (w_write_fw q1 fl1 wr1 b Q1 Hc) as [q3 [E [S F]]]. rewrite E.
    exists q3. split; [|split; [apply same_env_reported; exact S | exact F]].
    destruct (fst (wr_pop b fl1)); cbn [negb with_inner f_cfg f_poisoned mk_rs rs_naming rs_roll rs_cleanup rs_bg increase_size]; reflexivity.
  - rewrite report_fw by exact Q1. destruct (report_reported ELogFile q1 Q1) as [R1 F1].
    destruct (w_write_fw (report ELogFile q1) fl1 wr1 b (proj1 R1) Hc) as [q3 [E [S F]]]. rewrite E.
    exists q3. split; [|split].
    + destruct (fst (wr_pop b fl1)); cbn [negb with_inner f_cfg f_poisoned mk_rs rs_naming rs_roll rs_cleanup rs_bg increase_size]; reflexivity.
    + pose proof (reported_trans _ _ _ _ _ R1 (same_env_reported _ _ S)) as R. cbn [app] in R. exact R.
    + rewrite F, F1. reflexivity.
Qed.

Lemma reported_now q q' e : reported q q' e -> wnow q' = wnow q.
Proof. intros [_ [H _]]. exact H. Qed.
Lemma reported_eoff c q q' e : reported q q' e -> eoff c q' = eoff c q.
Proof. intros [_ [_ [H _]]]. unfold eoff. rewrite H. reflexivity. Qed.

Section Tsd.
Variables (c : config) (m : N) (e lo hi : Z).
Hypothesis Hcfg : tsdcfg c (CSize m).
Hypothesis Hcap : c_cap c = None.
Hypothesis Htag : tag_ok c.
Hypothesis Happ : append_ok c.
Hypothesis Hyears : years_ok e lo hi.

(* the state of an initialised writer on the file with the key k; ts: the time stamp of the naming state (never read) *)
Definition actt (ts : Z) (k : key) (cur : N) (wr : writer) : inner :=
  Active (Some (mk_rs (NSTs ts None std_fmt) (RSize m cur))) wr (kname c e k).

(* ---- the two listings of the collision-free infix ---- *)
Lemma collision_free_fw q fl infix :
  collision_free c (fw q fl) infix =
    if fst (pop fl) then (Err, fw q (snd (pop fl)))
    else if fst (pop (snd (pop fl))) then (Err, fw q (snd (pop (snd (pop fl)))))
    else match collision_free_infix (woff q) (c_spec c) (fixed0 c) (wfs q) infix with
         | Some (Some i) => (Ok i, fw q (snd (pop (snd (pop fl)))))
         | Some None => (Err, fw q (snd (pop (snd (pop fl)))))
         | None => (Panic, fw q (snd (pop (snd (pop fl)))))
         end.
Proof.
  destruct Hcfg as [_ [Hts _]]. unfold collision_free. rewrite tick_fw. destruct (pop fl) as [f1 fl1]. cbn [fst snd].
  destruct f1; [reflexivity|]. rewrite tick_fw. destruct (pop fl1) as [f2 fl2]. cbn [fst snd].
  destruct f2; [reflexivity|]. rewrite (fixed_of_fixed0 c (fw q fl2) Hts). reflexivity.
Qed.

(* ---- the rotation check of one write, computed ---- *)
Lemma mount_next_t_fw q fl ts keys closed cur wr :
  TsdInv c e lo q wr keys closed -> wpend wr = [] -> (wnow q <= hi)%Z -> (N.of_nat (length keys) <= usize_max)%N ->
  let k := nth (length closed) keys kd in
  let knew := (wnow q, count (wnow q) keys) in
  let fl1 := snd (pop fl) in let fl2 := snd (pop fl1) in let fl3 := snd (pop fl2) in
  mount_next c (fw q fl) (actt ts k cur wr) false =
    if (m <? cur)%N then
      if fst (pop fl) then (Err, fw q fl1, actt (wnow q) k cur wr)
      else if fst (pop fl1) then (Err, fw q fl2, actt (wnow q) k cur wr)
      else if fst (pop fl2) then (Err, fw q fl3, actt (wnow q) k cur wr)
      else (Ok tt, fw (set_fs q (fst (create_file (wfs q) (kname c e knew) 0%N (wnow q)))) fl3,
            actt (wnow q) knew 0 {| wino := snd (create_file (wfs q) (kname c e knew) 0%N (wnow q)); wpend := []; wcap := c_cap c |})
    else (Ok tt, fw q fl, actt ts k cur wr).
Proof.
  intros I Hp Hhi Hmax k knew fl1 fl2 fl3. pose proof Hcfg as [Hrot [Hts [Hlink _]]].
  pose proof I as [Q W Hnd Hoff Hlen Hc Hcp Hcl Hon Hko Hrg Hwr Hca].
  pose proof (tsdinv_now _ _ _ _ _ _ _ I) as Hlo.
  assert (Yk : forall k0, In k0 keys -> in_years e (fst k0)).
  { intros k0 Ik. apply (years_in e lo hi); [exact Hyears|]. specialize (Hrg k0 Ik). lia. }
  assert (Ynow : in_years e (wnow q)) by (apply (years_in e lo hi); [exact Hyears | lia]).
  unfold mount_next, actt. cbn [mk_rs rs_roll rs_naming rs_cleanup rs_bg orb rotation_necessary]. unfold size_rotation_necessary.
  destruct (m <? cur)%N; [|reflexivity].
  change (wnow (fw q fl)) with (wnow q).
  rewrite collision_free_fw. unfold fl3, fl2, fl1.
  destruct (pop fl) as [f1 r1]. cbn [fst snd]. destruct f1; [reflexivity|].
  destruct (pop r1) as [f2 r2]. cbn [fst snd]. destruct f2; [reflexivity|].
  rewrite infix_from_ts_tsx. change (eoff c (fw q fl)) with (eoff c q). rewrite Hoff.
  rewrite (collision_free_infix_ts c e (woff q) (wfs q) keys (wnow q) (count (wnow q) keys) Htag Ynow Yk (tsdinv_dir _ _ _ _ _ _ _ I)
             (keys_count keys Hko (wnow q))) by (pose proof (count_le_length (wnow q) keys); lia).
  unfold open_log_file. rewrite (name_of_fixed c (fw q r2)) by assumption.
  change (as_name (c_spec c) (fixed0 c) (Some (infix_of e (wnow q, count (wnow q) keys)))) with (kname c e knew).
  destruct (rotate_tsdinv c e lo hi q wr keys closed I Hyears Hhi) as [Ht _]. fold knew in Ht.
  unfold do_symlink. rewrite Hlink. rewrite p_open_fw by exact Q.
  destruct (pop r2) as [f3 r3]. cbn [fst snd]. destruct f3; [reflexivity|].
  unfold file_of at 1. rewrite Ht.
  assert (Eopen : (if c_append c then open_append (wfs q) (kname c e knew) (wnow q) else open_trunc (wfs q) (kname c e knew) 0%N (wnow q))
                  = create_file (wfs q) (kname c e knew) 0%N (wnow q)).
  { destruct (c_append c); [apply open_append_fresh | apply open_trunc_fresh]; exact Ht. }
  rewrite Eopen. rewrite w_flush_nop by exact Hp. cbv beta iota zeta. rewrite w_drop_nop by reflexivity.
  unfold cleanup_or_queue. cbn [cleanup_impl reset_size_and_date]. reflexivity.
Qed.

(* ---- the invariant of the fault-free development under a change of the environment ---- *)
Lemma tsdinv_env q q' wr keys closed : TsdInv c e lo q wr keys closed ->
  wfs q' = wfs q -> quiet q' -> wnow q' = wnow q -> eoff c q' = e -> TsdInv c e lo q' wr keys closed.
Proof.
  intros [Q W Hnd Hoff Hlen Hc Hcp Hcl Hon Hko Hrg Hwr Hca] F Q' N' E'. constructor; try rewrite F; try assumption.
  rewrite N'. exact Hrg.
Qed.

Lemma tsdinv_append_env q q' wr keys closed x : TsdInv c e lo q wr keys closed ->
  wfs q' = append_ino (wfs q) (wino wr) x -> quiet q' -> wnow q' = wnow q -> eoff c q' = e ->
  TsdInv c e lo q' wr keys closed /\ content (wfs q') (wino wr) = content (wfs q) (wino wr) ++ x.
Proof.
  intros I F Q' N' E'. pose proof (td_quiet _ _ _ _ _ _ _ I) as Q.
  destruct (tsdinv_append c e lo q (set_fs q (append_ino (wfs q) (wino wr) x)) wr wr keys closed x I eq_refl
              (same_env_set_fs q _ Q) eq_refl eq_refl (td_wr _ _ _ _ _ _ _ I)) as [I2 C2].
  split; [apply (tsdinv_env _ q' _ _ _ I2); [rewrite F; reflexivity | exact Q' | rewrite N'; reflexivity | exact E']|].
  rewrite F. exact C2.
Qed.

(* ---- the log call around write_buffer ---- *)
Lemma step_write_t x i b r w1 i1 rot :
  s_flw x = Some (flw_of c i) -> s_tl x = [] -> write_buffer (flw_of c i) (s_w x) b = (r, w1, flw_of c i1, rot) -> r <> Panic ->
  step x (OWrite b) = ({| s_flw := Some (flw_of c i1); s_w := match r with Err => report EWrite w1 | _ => w1 end; s_tl := []; s_dead := s_dead x |},
                       ObsRes 0 rot).
Proof.
  intros Es Ht E Hr. destruct Hcfg as [_ [Hts [_ Ha]]].
  rewrite (step_sync_cfg x (OWrite b) (flw_of c i) Es Hts Ha). cbn [sync_step]. rewrite Es. cbn [flw_of f_poisoned].
  rewrite Ht. cbn [app]. fold (flw_of c i). rewrite E. destruct r; [reflexivity | reflexivity | contradiction].
Qed.

Lemma step_write_eq_t x x1 i i1 b :
  s_flw x = Some (flw_of c i) -> s_flw x1 = Some (flw_of c i1) -> s_tl x = [] -> s_tl x1 = [] -> s_dead x1 = s_dead x ->
  write_buffer (flw_of c i) (s_w x) b = write_buffer (flw_of c i1) (s_w x1) b ->
  step x (OWrite b) = step x1 (OWrite b).
Proof.
  intros Es Es1 Ht Ht1 Hd E. destruct Hcfg as [_ [Hts [_ Ha]]].
  rewrite (step_sync_cfg x (OWrite b) (flw_of c i) Es Hts Ha), (step_sync_cfg x1 (OWrite b) (flw_of c i1) Es1 Hts Ha).
  cbn [sync_step]. rewrite Es, Es1. cbn [flw_of f_poisoned]. rewrite Ht, Ht1, Hd. cbn [app].
  fold (flw_of c i) (flw_of c i1). rewrite E. reflexivity.
Qed.

(* ------------------------------------------------------------------ the invariant of the run *)
(* the directory while the writer is not initialised: empty, or the one empty file (t0, 0) (append; as the file of a
   writer wr0 that does not exist any more) *)
Definition InitDir (q : world) (created : option Z) : Prop :=
  match created with
  | None => names (wfs q) = [] /\ inodes (wfs q) = []
  | Some t0 => c_append c = true /\ exists wr0, TsdInv c e lo q wr0 [(t0, 0)] [] /\ wpend wr0 = [] /\ cur_view q wr0 = []
  end.

(* n bounds the number of files *)
Definition TFInv (x : sys) (st : tst) (errs : list ecode) (fl : list bool) (now : Z) (n : nat) : Prop :=
  exists q, s_w x = fw q fl /\ quiet q /\ wacts q = 0 /\ werrs q = errs /\ s_tl x = [] /\ wnow q = now /\ eoff c q = e /\ (lo <= now)%Z /\
  match st with
  | TInit created => s_flw x = Some (flw_of c Initial) /\ InitDir q created
  | TAct keys closed d =>
    exists wr ts, s_flw x = Some (flw_of c (actt ts (nth (length closed) keys kd) (N.of_nat (length d)) wr))
      /\ TsdInv c e lo q wr keys closed /\ wpend wr = [] /\ cur_view q wr = d /\ length closed <= n
      /\ (ts = fst (nth (length closed) keys kd) \/ (m <? N.of_nat (length d))%N = true)
  end.

(* the rotation check has been made (result r1, world q1, oracle fl1, writer wr1 on the file of the last key, which
   holds d1): the write *)
Lemma tail_step_t x q fl ts k cur wr r1 q1 fl1 keys1 closed1 d1 ts1 wr1 errs1 b n1 :
  s_w x = fw q fl -> s_tl x = [] -> s_flw x = Some (flw_of c (actt ts k cur wr)) ->
  mount_next c (fw q fl) (actt ts k cur wr) false
    = (r1, fw q1 fl1, actt ts1 (nth (length closed1) keys1 kd) (N.of_nat (length d1)) wr1) ->
  r1 <> Panic -> wacts q1 = 0 -> werrs q1 = errs1 -> TsdInv c e lo q1 wr1 keys1 closed1 -> wpend wr1 = [] ->
  cur_view q1 wr1 = d1 -> length closed1 <= n1 ->
  (ts1 = fst (nth (length closed1) keys1 kd) \/ (m <? N.of_nat (length d1))%N = true) ->
  let '(d', e', fl2) := s_write d1 b fl1 in
  exists x' rot, step x (OWrite b) = (x', ObsRes 0 rot)
    /\ TFInv x' (TAct keys1 closed1 d') (errs1 ++ (match r1 with Err => [ELogFile] | _ => [] end) ++ e') fl2 (wnow q1) n1.
Proof.
  intros Ew Ht Es M Hr Ha1 He1 A1 Hp1 V1 Hn1 Hts1. pose proof (td_quiet _ _ _ _ _ _ _ A1) as Q1.
  assert (Hc1 : wcap wr1 = None) by (rewrite (td_cap _ _ _ _ _ _ _ A1); exact Hcap).
  unfold actt in M.
  destruct (wb_active_gen c m q fl _ _ cur wr r1 q1 fl1 _ _ _ wr1 b M Hr Q1 Hc1) as [q3 [E [R3 F3]]].
  fold (actt ts k cur wr) in E.
  unfold s_write. destruct (wr_pop b fl1) as [f fl2]. cbn [fst snd] in *.
  rewrite <- Ew in E. pose proof (step_write_t x _ b _ _ _ _ Es Ht E) as S.
  pose proof (tsdinv_now _ _ _ _ _ _ _ A1) as Hlo1.
  destruct f.
  - (* the write fails: reported by the handle *)
    eexists _, _. split; [apply S; discriminate|].
    destruct (report_reported EWrite q3 (proj1 R3)) as [R4 F4].
    pose proof (reported_trans _ _ _ _ _ R3 R4) as R.
    exists (report EWrite q3). cbn [s_w s_tl s_flw].
    split; [apply report_fw; apply R3|]. split; [apply R|]. split; [exact (reported_acts _ _ _ R Ha1)|].
    split; [rewrite (reported_errs _ _ _ _ R He1); reflexivity|]. split; [reflexivity|].
    split; [exact (reported_now _ _ _ R)|]. split; [rewrite (reported_eoff c _ _ _ R); apply A1|]. split; [exact Hlo1|].
    exists wr1, ts1. split; [reflexivity|].
    assert (I3 : TsdInv c e lo (report EWrite q3) wr1 keys1 closed1).
    { apply (tsdinv_env q1); [exact A1 | rewrite F4; exact F3 | apply R | exact (reported_now _ _ _ R) | rewrite (reported_eoff c _ _ _ R); apply A1]. }
    split; [exact I3|]. split; [exact Hp1|]. split; [|split; [exact Hn1 | exact Hts1]].
    unfold cur_view in *. rewrite F4, F3. exact V1.
  - eexists _, _. split; [apply S; discriminate|].
    exists q3. cbn [s_w s_tl s_flw].
    split; [reflexivity|]. split; [apply R3|]. split; [exact (reported_acts _ _ _ R3 Ha1)|].
    split; [rewrite (reported_errs _ _ _ _ R3 He1), app_nil_r; reflexivity|]. split; [reflexivity|].
    split; [exact (reported_now _ _ _ R3)|]. split; [rewrite (reported_eoff c _ _ _ R3); apply A1|]. split; [exact Hlo1|].
    exists wr1, ts1. split; [rewrite app_length, Nat2N.inj_add; reflexivity|].
    destruct (tsdinv_append_env q1 q3 wr1 keys1 closed1 b A1 F3 (proj1 R3) (reported_now _ _ _ R3)) as [I3 C3];
      [rewrite (reported_eoff c _ _ _ R3); apply A1|].
    split; [exact I3|]. split; [exact Hp1|]. split; [|split; [exact Hn1|]].
    + unfold cur_view in *. rewrite C3, Hp1, !app_nil_r in *. rewrite V1. reflexivity.
    + destruct Hts1 as [Hl|Hr']; [left; exact Hl | right]. rewrite app_length. apply N.ltb_lt in Hr'. apply N.ltb_lt. lia.
Qed.

(* one record on an initialised writer *)
Lemma active_step_t x q fl errs ts keys closed d wr b n :
  s_w x = fw q fl -> wacts q = 0 -> werrs q = errs -> s_tl x = [] ->
  s_flw x = Some (flw_of c (actt ts (nth (length closed) keys kd) (N.of_nat (length d)) wr)) ->
  TsdInv c e lo q wr keys closed -> wpend wr = [] -> cur_view q wr = d -> length closed <= n ->
  (ts = fst (nth (length closed) keys kd) \/ (m <? N.of_nat (length d))%N = true) ->
  (wnow q <= hi)%Z -> (N.of_nat (S n) <= usize_max)%N ->
  let '(st', e', fl') := t_active m (wnow q) keys closed d b fl in
  exists x' rot, step x (OWrite b) = (x', ObsRes 0 rot) /\ TFInv x' st' (errs ++ e') fl' (wnow q) (S n).
Proof.
  intros Ew Ha He Ht Es A Hp V Hn Hts0 Hhi Hmax. pose proof (td_quiet _ _ _ _ _ _ _ A) as Q.
  assert (Hmax' : (N.of_nat (length keys) <= usize_max)%N) by (rewrite (td_len _ _ _ _ _ _ _ A); lia).
  pose proof (mount_next_t_fw q fl ts keys closed (N.of_nat (length d)) wr A Hp Hhi Hmax') as M. cbv zeta in M.
  set (k := nth (length closed) keys kd) in *.
  set (knew := (wnow q, count (wnow q) keys)) in *.
  assert (Hn' : length closed <= S n) by lia.
  (* a failing step of the rotation: the record goes into the old file *)
  assert (Stay : forall fl0, (m <? N.of_nat (length d))%N = true ->
                             mount_next c (fw q fl) (actt ts k (N.of_nat (length d)) wr) false
                             = (Err, fw q fl0, actt (wnow q) k (N.of_nat (length d)) wr) ->
            let '(st', e', fl') := (let '(d', e', fl') := s_write d b fl0 in (TAct keys closed d', ELogFile :: e', fl')) in
            exists x' rot, step x (OWrite b) = (x', ObsRes 0 rot) /\ TFInv x' st' (errs ++ e') fl' (wnow q) (S n)).
  { intros fl0 Em M0.
    pose proof (tail_step_t x q fl ts k _ wr Err q fl0 keys closed d (wnow q) wr errs b (S n) Ew Ht Es M0
                  (fun H => ltac:(discriminate H)) Ha He A Hp V Hn' (or_intror Em)) as T0.
    destruct (s_write d b fl0) as [[d' e'] fl2]. exact T0. }
  unfold t_active.
  destruct (m <? N.of_nat (length d))%N eqn:Em.
  - destruct (pop fl) as [f1 fl1]. cbn [fst snd] in M. destruct f1; [exact (Stay fl1 eq_refl M)|].
    destruct (pop fl1) as [f2 fl2]. cbn [fst snd] in M. destruct f2; [exact (Stay fl2 eq_refl M)|].
    destruct (pop fl2) as [f3 fl3]. cbn [fst snd] in M. destruct f3; [exact (Stay fl3 eq_refl M)|].
    (* the rotation is completed *)
    set (q3 := set_fs q (fst (create_file (wfs q) (kname c e knew) 0%N (wnow q)))) in *.
    set (wr3 := {| wino := snd (create_file (wfs q) (kname c e knew) 0%N (wnow q)); wpend := []; wcap := c_cap c |}) in *.
    assert (Q3 : quiet q3) by (apply quiet_set_fs; exact Q).
    destruct (rotate_tsdinv c e lo hi q wr keys closed A Hyears Hhi) as [_ RI]. fold knew in RI.
    assert (F3 : wfs q3 = append_ino (fst (create_file (wfs q) (kname c e knew) 0%N (wnow q))) (wino wr) (wpend wr))
      by (rewrite Hp, append_ino_nil_id; reflexivity).
    destruct (RI q3 Q3 (td_off _ _ _ _ _ _ _ A) eq_refl F3) as [A3 V3]. fold wr3 in A3, V3. rewrite V in A3.
    assert (En : nth (length (closed ++ [d])) (keys ++ [knew]) kd = knew).
    { apply nth_snoc_last. rewrite app_length. cbn [length]. rewrite (td_len _ _ _ _ _ _ _ A). lia. }
    assert (Hts3 : wnow q = fst (nth (length (closed ++ [d])) (keys ++ [knew]) kd) \/ (m <? N.of_nat (length (@nil N)))%N = true)
      by (left; rewrite En; reflexivity).
    rewrite <- En in M. change 0%N with (N.of_nat (length (@nil N))) in M.
    assert (Hn3 : length (closed ++ [d]) <= S n) by (rewrite app_length; cbn [length]; lia).
    pose proof (tail_step_t x q fl ts k _ wr (Ok tt) q3 fl3 (keys ++ [knew]) (closed ++ [d]) [] (wnow q) wr3 errs b (S n) Ew Ht Es M
                  (fun H => ltac:(discriminate H)) Ha He A3 eq_refl V3 Hn3 Hts3) as T0.
    destruct (s_write [] b fl3) as [[d' e'] fl4]. exact T0.
  - assert (Hts1 : ts = fst k \/ false = true) by (destruct Hts0 as [Hl|Hr']; [left; exact Hl | discriminate Hr']).
    pose proof (tail_step_t x q fl ts k _ wr (Ok tt) q fl keys closed d ts wr errs b (S n) Ew Ht Es M
                  (fun H => ltac:(discriminate H)) Ha He A Hp V Hn' ltac:(destruct Hts1 as [Hl|Hr']; [left; exact Hl | discriminate Hr'])) as T0.
    destruct (s_write d b fl) as [[d' e'] fl1]. exact T0.
Qed.

(* ------------------------------------------------------------------ the initialisation *)
Lemma tsdinv_first q2 f t born : quiet q2 -> names f = [] -> inodes f = [] ->
  wfs q2 = fst (create_file f (kname c e (t, 0)) 0%N born) -> eoff c q2 = e -> (lo <= t <= wnow q2)%Z ->
  TsdInv c e lo q2 {| wino := 0; wpend := []; wcap := c_cap c |} [(t, 0)] []
  /\ cur_view q2 {| wino := 0; wpend := []; wcap := c_cap c |} = []
  /\ file_of (wfs q2) (kname c e (t, 0)) = Some (fresh_file born).
Proof.
  intros Q Hn Hi F2 Hoff Ht. unfold create_file in F2. cbn [fst] in F2. rewrite Hn, Hi in F2. cbn [length app] in F2.
  set (k0 := (t, 0)) in *.
  assert (Lc : lookup (wfs q2) (kname c e k0) = Some 0) by (rewrite F2; unfold lookup; cbn; rewrite beq_refl; reflexivity).
  split; [|split].
  - constructor; cbn [length nth wino wpend wcap].
    + exact Q.
    + rewrite F2. split.
      * intros a j. unfold lookup; cbn. destruct (beq (kname c e k0) a); [|discriminate]. intros E; injection E as <-. lia.
      * intros a b j. unfold lookup; cbn. destruct (beq_spec (kname c e k0) a), (beq_spec (kname c e k0) b); try discriminate. congruence.
    + rewrite F2. unfold dir_names. cbn [names List.map fst]. constructor; [intros [] | constructor].
    + exact Hoff.
    + reflexivity.
    + exact Lc.
    + rewrite F2. split; reflexivity.
    + intros i Hi'. lia.
    + intros n j. rewrite F2. unfold lookup; cbn. destruct (beq_spec (kname c e k0) n) as [<-|]; [|discriminate].
      intros _. exists 0. split; [lia | reflexivity].
    + apply keys_ok_one.
    + intros k [<-|[]]. unfold k0. cbn [fst]. exact Ht.
    + unfold wr_ok. cbn. destruct (c_cap c); [lia | reflexivity].
    + reflexivity.
  - unfold cur_view, content, inode. rewrite F2. reflexivity.
  - unfold file_of. rewrite Lc, F2. reflexivity.
Qed.

(* the name part of the initialisation: the time stamp of the first file and its infix *)
Lemma naming_t_fw q fl created :
  quiet q -> eoff c q = e -> (wnow q <= hi)%Z -> InitDir q created ->
  init_naming c (fw q fl) NTimestampsDirect =
    let '(f0, fl0) := if c_append c then pop fl else (false, fl) in
    if f0 then (Err, fw q fl0) else
    let '(f1, fl1) := pop fl0 in
    if f1 then (Err, fw q fl1) else
    let '(f2, fl2) := pop fl1 in
    if f2 then (Err, fw q fl2) else
    (Ok (NSTs (t_first (wnow q) created) None std_fmt, infix_of e (t_first (wnow q) created, 0)), fw q fl2).
Proof.
  intros Q Hoff Hhi D. pose proof Hcfg as [Hrot [Hts [Hlink _]]].
  unfold init_naming. destruct created as [t0|]; cbn [InitDir t_first] in *.
  - (* the empty file (t0, 0) is there: found as the latest, continued *)
    destruct D as [Ha [wr0 [I0 [Hp0 V0]]]]. rewrite Ha. cbn [negb].
    pose proof (latest_ts_tsd c (CSize m) e lo hi q wr0 [(t0, 0)] [] Hcfg (Happ Ha) Hyears I0 Hhi) as L. cbn [length nth fst] in L.
    unfold latest_timestamp_file in L |- *.
    match type of L with with_listing _ ?g = _ => set (G := g) in * end.
    rewrite with_listing_fw. destruct (pop fl) as [f0 fl0]. cbn [fst snd]. destruct f0; [reflexivity|].
    assert (EG : G (fw q fl0) = G q) by reflexivity.
    rewrite EG, (with_listing_quiet_inv q G t0 q Q L). cbn [bind].
    rewrite collision_free_fw.
    destruct (pop fl0) as [f1 fl1]. cbn [fst snd]. destruct f1; [reflexivity|].
    destruct (pop fl1) as [f2 fl2]. cbn [fst snd]. destruct f2; [reflexivity|].
    rewrite infix_from_ts_tsx. change (eoff c (fw q fl0)) with (eoff c q). rewrite Hoff.
    pose proof (td_range _ _ _ _ _ _ _ I0 (t0, 0) (or_introl eq_refl)) as Rg. cbn [fst] in Rg.
    assert (Y0 : in_years e t0) by (apply (years_in e lo hi); [exact Hyears | lia]).
    assert (Yk : forall k, In k [(t0, 0)] -> in_years e (fst k)) by (intros k [<-|[]]; exact Y0).
    assert (C1 : count t0 [(t0, 0)] = 1) by (rewrite count_one; cbn [fst]; rewrite Z.eqb_refl; reflexivity).
    pose proof (keys_count [(t0, 0)] (keys_ok_one t0) t0) as KC. rewrite C1 in KC.
    rewrite (collision_free_infix_ts c e (woff q) (wfs q) [(t0, 0)] t0 1 Htag Y0 Yk (tsdinv_dir _ _ _ _ _ _ _ I0) KC)
      by (change (N.of_nat 1) with 1%N; unfold usize_max; lia).
    cbn [bind]. rewrite (newest_of_next_kname e t0 0) by apply N.le_0_l.
    rewrite (name_of_fixed c (fw q fl2)) by assumption.
    change (as_name (c_spec c) (fixed0 c) (Some (infix_of e (t0, 0)))) with (kname c e (t0, 0)).
    change (wfs (fw q fl2)) with (wfs q).
    pose proof (td_cur _ _ _ _ _ _ _ I0) as Lc. cbn [length nth] in Lc. rewrite Lc. reflexivity.
  - destruct D as [Hn Hi].
    destruct (c_append c) eqn:Ha; cbn [negb].
    + (* append, empty directory: nothing is listed, the clock is read *)
      unfold latest_timestamp_file. rewrite with_listing_fw.
      destruct (pop fl) as [f0 fl0]. cbn [fst snd]. destruct f0; [reflexivity|].
      rewrite related_files_empty by exact Hn. cbn [filter_files filter_opt map_opt List.map filter_some max_z].
      change (wnow (fw q fl0)) with (wnow q). cbn [bind].
      rewrite collision_free_fw.
      destruct (pop fl0) as [f1 fl1]. cbn [fst snd]. destruct f1; [reflexivity|].
      destruct (pop fl1) as [f2 fl2]. cbn [fst snd]. destruct f2; [reflexivity|].
      rewrite collision_free_infix_empty by exact Hn. cbn [bind]. rewrite newest_of_next_same.
      rewrite infix_from_ts_tsx. change (eoff c (fw q fl0)) with (eoff c q). rewrite Hoff. reflexivity.
    + unfold latest_timestamp_file. cbn [bind]. change (wnow (fw q fl)) with (wnow q).
      rewrite collision_free_fw.
      destruct (pop fl) as [f1 fl1]. cbn [fst snd]. destruct f1; [reflexivity|].
      destruct (pop fl1) as [f2 fl2]. cbn [fst snd]. destruct f2; [reflexivity|].
      rewrite collision_free_infix_empty by exact Hn. cbn [bind].
      rewrite infix_from_ts_tsx. change (eoff c (fw q fl)) with (eoff c q). rewrite Hoff. reflexivity.
Qed.

(* the open/create of the first file by a writer that is being initialised *)
Lemma open_init_t q fl created :
  quiet q -> eoff c q = e -> (lo <= wnow q)%Z -> InitDir q created ->
  let t := t_first (wnow q) created in
  exists f2 ino fil,
    open_log_file c (fw q fl) (Some (infix_of e (t, 0)))
    = (if fst (pop fl) then (Err, fw q (snd (pop fl)))
       else (Ok ({| wino := ino; wpend := []; wcap := c_cap c |}, kname c e (t, 0)), fw (set_fs q f2) (snd (pop fl))))
    /\ TsdInv c e lo (set_fs q f2) {| wino := ino; wpend := []; wcap := c_cap c |} [(t, 0)] []
    /\ cur_view (set_fs q f2) {| wino := ino; wpend := []; wcap := c_cap c |} = []
    /\ file_of f2 (kname c e (t, 0)) = Some fil /\ fdata fil = [].
Proof.
  intros Q Hoff Hlo D t. destruct Hcfg as [Hrot [Hts [Hlink _]]].
  unfold open_log_file. rewrite (name_of_fixed c (fw q fl)) by assumption.
  change (as_name (c_spec c) (fixed0 c) (Some (infix_of e (t, 0)))) with (kname c e (t, 0)).
  unfold do_symlink. rewrite Hlink. rewrite p_open_fw by exact Q.
  destruct created as [t0|]; cbn [InitDir t_first] in *; unfold t in *; clear t.
  - destruct D as [Ha [wr0 [I0 [Hp0 V0]]]].
    pose proof (td_cur _ _ _ _ _ _ _ I0) as Lc. cbn [length nth] in Lc.
    pose proof (td_curplain _ _ _ _ _ _ _ I0) as [_ Pd].
    assert (Ewr : {| wino := wino wr0; wpend := []; wcap := c_cap c |} = wr0).
    { pose proof (td_cap _ _ _ _ _ _ _ I0) as Hc0. destruct wr0 as [i p k]. cbn [wino wpend wcap] in *. subst. reflexivity. }
    exists (wfs q), (wino wr0), (inode (wfs q) (wino wr0)).
    split.
    { unfold file_of. rewrite Lc, Pd, Ha. unfold open_append. rewrite Lc. cbn [fst snd]. destruct (fst (pop fl)); reflexivity. }
    rewrite Ewr.
    split; [apply (tsdinv_env q); [exact I0 | reflexivity | apply quiet_set_fs; exact Q | reflexivity | exact Hoff]|].
    split; [exact V0|]. split; [unfold file_of; rewrite Lc; reflexivity|].
    unfold cur_view in V0. rewrite Hp0, app_nil_r in V0. exact V0.
  - destruct D as [Hn Hi].
    pose proof (lookup_empty (wfs q) (kname c e (wnow q, 0)) Hn) as Lc.
    assert (Eopen : (if c_append c then open_append (wfs q) (kname c e (wnow q, 0)) (wnow q) else open_trunc (wfs q) (kname c e (wnow q, 0)) 0%N (wnow q))
                    = create_file (wfs q) (kname c e (wnow q, 0)) 0%N (wnow q)).
    { destruct (c_append c); [apply open_append_fresh | apply open_trunc_fresh]; exact Lc. }
    rewrite Eopen. unfold file_of at 1. rewrite Lc.
    set (q2 := set_fs q (fst (create_file (wfs q) (kname c e (wnow q, 0)) 0%N (wnow q)))).
    assert (Q2 : quiet q2) by (apply quiet_set_fs; exact Q).
    destruct (tsdinv_first q2 (wfs q) (wnow q) (wnow q) Q2 Hn Hi eq_refl Hoff) as [I2 [V2 Fo]]; [cbn [q2 set_fs wnow]; lia|].
    exists (fst (create_file (wfs q) (kname c e (wnow q, 0)) 0%N (wnow q))), 0, (fresh_file (wnow q)).
    assert (Esnd : snd (create_file (wfs q) (kname c e (wnow q, 0)) 0%N (wnow q)) = 0)
      by (unfold create_file; cbn [snd]; rewrite Hi; reflexivity).
    split. { rewrite Esnd. destruct (fst (pop fl)); reflexivity. }
    split; [exact I2|]. split; [exact V2|]. split; [exact Fo | reflexivity].
Qed.

Lemma initialize_t_fw q fl created :
  quiet q -> eoff c q = e -> (lo <= wnow q <= hi)%Z -> InitDir q created ->
  let t := t_first (wnow q) created in
  match t_init_pops (c_append c) fl with
  | (Some k, fl') =>
    exists q', initialize c (fw q fl) = (Err, fw q' fl') /\ same_env q q'
      /\ InitDir q' (if k then Some t else created)
  | (None, fl') =>
    exists q' wr, initialize c (fw q fl) = (Ok (actt t (t, 0) 0 wr), fw q' fl') /\ same_env q q'
      /\ TsdInv c e lo q' wr [(t, 0)] [] /\ wpend wr = [] /\ cur_view q' wr = []
  end.
Proof.
  intros Q Hoff [Hlo Hhi] D t. pose proof Hcfg as [Hrot [Hts [Hlink _]]].
  assert (Fail : forall fl', exists q', (Err : res inner, fw q fl') = (Err, fw q' fl') /\ same_env q q' /\ InitDir q' created).
  { intros fl'. exists q. split; [reflexivity|]. split; [apply same_env_refl; exact Q | exact D]. }
  unfold initialize. rewrite Hrot. rewrite (naming_t_fw q fl created Q Hoff Hhi D). fold t.
  unfold t_init_pops.
  destruct (if c_append c then pop fl else (false, fl)) as [f0 fl0]. destruct f0; [cbn [bind]; apply Fail|].
  destruct (pop fl0) as [f1 fl1]. destruct f1; [cbn [bind]; apply Fail|].
  destruct (pop fl1) as [f2 fl2]. destruct f2; [cbn [bind]; apply Fail|].
  cbn [bind].
  destruct (open_init_t q fl2 created Q Hoff Hlo D) as [f2 [ino [fil [Eop [I2 [V2 [Fo Fd]]]]]]]. fold t in Eop, I2, V2, Fo.
  rewrite Eop. destruct (pop fl2) as [f3 fl3]. cbn [fst snd]. destruct f3; [cbn [bind]; apply Fail|]. cbn [bind].
  set (q2 := set_fs q f2) in *. assert (Q2 : quiet q2) by (apply quiet_set_fs; exact Q).
  assert (RN : roll_new (fw q2 fl3) (CSize m) (c_append c) (kname c e (t, 0))
               = (let '(f4, fl4) := if c_append c then pop fl3 else (false, fl3) in
                  if f4 then (Err, fw q2 fl4) else (Ok (RSize m 0), fw q2 fl4))).
  { unfold roll_new. destruct (c_append c); [|reflexivity]. rewrite tick_fw. destruct (pop fl3) as [f4 fl4]. cbn [fst snd].
    destruct f4; [reflexivity|]. change (wfs (fw q2 fl4)) with f2. rewrite Fo, Fd. reflexivity. }
  rewrite RN. clear RN.
  destruct (if c_append c then pop fl3 else (false, fl3)) as [f4 fl4] eqn:E4. destruct f4; cbn [bind].
  - (* the metadata call fails: the file has been created *)
    exists q2. split; [reflexivity|]. split; [apply same_env_set_fs; exact Q|].
    cbn [InitDir]. split; [destruct (c_append c); [reflexivity | discriminate E4]|].
    exists {| wino := ino; wpend := []; wcap := c_cap c |}. auto.
  - exists q2, {| wino := ino; wpend := []; wcap := c_cap c |}. split; [reflexivity|]. split; [apply same_env_set_fs; exact Q|].
    auto.
Qed.

(* one record on a writer that is not initialised *)
Lemma init_step_t x created errs fl b now n : TFInv x (TInit created) errs fl now n ->
  (now <= hi)%Z -> (N.of_nat (S n) <= usize_max)%N ->
  let '(st', e', fl') := t_init (c_append c) m now created b fl in
  exists x' rot, step x (OWrite b) = (x', ObsRes 0 rot) /\ TFInv x' st' (errs ++ e') fl' now (S n).
Proof.
  intros [q [Ew [Q [Ha [He [Ht [Hnow [Hoff [Hlo [Es D]]]]]]]]]] Hhi Hmax. rewrite t_init_alt.
  assert (Hr : (lo <= wnow q <= hi)%Z) by lia.
  pose proof (initialize_t_fw q fl created Q Hoff Hr D) as IF. cbv zeta in IF. rewrite Hnow in IF.
  destruct (t_init_pops (c_append c) fl) as [[k|] fl'].
  - (* the initialisation fails: the record is lost, the handle reports it, the writer stays uninitialised *)
    destruct IF as [q' [Ei [S D']]].
    assert (E : write_buffer (flw_of c Initial) (s_w x) b = (Err, fw q' fl', flw_of c Initial, false)).
    { rewrite Ew. unfold write_buffer. cbn [flw_of f_cfg f_inner]. rewrite Ei. reflexivity. }
    eexists _, _. split; [apply (step_write_t x Initial b Err _ Initial false Es Ht E); discriminate|].
    destruct (report_reported EWrite q' (proj1 S)) as [R4 F4].
    pose proof (reported_trans _ _ _ _ _ (same_env_reported _ _ S) R4) as RR. cbn [app] in RR.
    exists (report EWrite q'). cbn [s_w s_tl s_flw].
    split; [apply report_fw; apply S|]. split; [apply R4|]. split; [exact (reported_acts _ _ _ RR Ha)|].
    split; [exact (reported_errs _ _ _ _ RR He)|]. split; [reflexivity|].
    split; [rewrite (reported_now _ _ _ RR); exact Hnow|]. split; [rewrite (reported_eoff c _ _ _ RR); exact Hoff|]. split; [exact Hlo|].
    split; [reflexivity|].
    (* the directory is that of q' *)
    assert (N4 : wnow (report EWrite q') = wnow q') by exact (reported_now _ _ _ R4).
    assert (E4 : eoff c (report EWrite q') = e) by (rewrite (reported_eoff c _ _ _ RR); exact Hoff).
    destruct (if k then Some (t_first now created) else created) as [t1|]; cbn [InitDir] in *.
    + destruct D' as [Ha' [wr0 [I0 [Hp0 V0]]]]. split; [exact Ha'|]. exists wr0.
      split; [apply (tsdinv_env q'); [exact I0 | exact F4 | apply R4 | exact N4 | exact E4]|]. split; [exact Hp0|].
      unfold cur_view in *. rewrite F4. exact V0.
    + rewrite F4. exact D'.
  - destruct IF as [q' [wr [Ei [S [A [Hp V]]]]]].
    set (t := t_first now created) in *.
    set (x1 := {| s_flw := Some (flw_of c (actt t (t, 0) 0 wr)); s_w := fw q' fl'; s_tl := []; s_dead := s_dead x |}).
    assert (E : step x (OWrite b) = step x1 (OWrite b)).
    { apply (step_write_eq_t x x1 Initial (actt t (t, 0) 0 wr) b Es eq_refl Ht eq_refl eq_refl). rewrite Ew. cbn [x1 s_w].
      exact (write_buffer_init c (fw q fl) b _ wr (kname c e (t, 0)) (fw q' fl') Ei). }
    rewrite E.
    assert (Nq' : wnow q' = now) by (destruct S as [_ [H _]]; congruence).
    pose proof (active_step_t x1 q' fl' errs t [(t, 0)] [] [] wr b n eq_refl) as AS. rewrite Nq' in AS.
    apply AS.
    + exact (same_env_acts _ _ S Ha).
    + destruct S as [_ [_ [_ [H _]]]]. congruence.
    + reflexivity.
    + reflexivity.
    + exact A.
    + exact Hp.
    + exact V.
    + cbn [length]. lia.
    + left. reflexivity.
    + exact Hhi.
    + exact Hmax.
Qed.

(* the clock advances *)
Lemma tick_step_t x st errs fl now n dt : TFInv x st errs fl now n -> (0 <= dt)%Z ->
  exists x', step x (OTick dt) = (x', ObsRes 0 false) /\ TFInv x' st errs fl (now + dt) n.
Proof.
  intros [q [Ew [Q [Ha [He [Ht [Hnow [Hoff [Hlo I]]]]]]]]] Hdt. destruct Hcfg as [_ [Hts [_ Has]]].
  assert (Es : exists s, s_flw x = Some s /\ f_cfg s = c).
  { destruct st as [created|keys closed d]; [destruct I as [Es _] | destruct I as [wr [ts [Es _]]]]; rewrite Es; eexists; split; reflexivity. }
  destruct Es as [s [Es Ec]].
  rewrite (step_sync_cfg x (OTick dt) s Es) by (rewrite Ec; assumption). cbn [sync_step].
  eexists. split; [reflexivity|].
  exists (set_now q (wnow q + dt)%Z). cbn [s_w s_tl s_flw]. rewrite Ew.
  split; [reflexivity|]. split; [exact Q|]. split; [exact Ha|]. split; [exact He|]. split; [exact Ht|].
  split; [cbn [set_now wnow]; rewrite Hnow; reflexivity|]. split; [exact Hoff|]. split; [lia|].
  destruct st as [created|keys closed d].
  - destruct I as [Es' D]. split; [exact Es'|]. destruct created as [t0|]; cbn [InitDir] in *; [|exact D].
    destruct D as [Ha' [wr0 [I0 [Hp0 V0]]]]. split; [exact Ha'|]. exists wr0.
    split; [apply tsdinv_tick; assumption | split; assumption].
  - destruct I as [wr [ts [Es' [A [Hp [V Hn]]]]]]. exists wr, ts. split; [exact Es'|].
    split; [apply tsdinv_tick; assumption|]. split; [exact Hp|]. split; [exact V | exact Hn].
Qed.

Lemma tfinv_mono x st errs fl now n n' : TFInv x st errs fl now n -> n <= n' -> TFInv x st errs fl now n'.
Proof.
  intros [q [Ew [Q [Ha [He [Ht [Hnow [Hoff [Hlo I]]]]]]]]] Hn. exists q. repeat (split; [assumption|]).
  destruct st as [created|keys closed d]; [exact I|]. destruct I as [wr [ts [Es [A [Hp [V [Hc Hts]]]]]]].
  exists wr, ts. repeat (split; [assumption|]). split; [lia | exact Hts].
Qed.

(* one record: the clock advances, then the record is logged *)
Theorem tfstep x st errs fl now n r : TFInv x st errs fl now n ->
  (0 <= fst r)%Z -> (now + fst r <= hi)%Z -> (N.of_nat (S n) <= usize_max)%N ->
  let '(st', e', fl') := tstep (c_append c) m now st fl r in
  exists x' rot, run x (tops [r]) = (x', [ObsRes 0 false; ObsRes 0 rot]) /\ TFInv x' st' (errs ++ e') fl' (now + fst r) (S n).
Proof.
  intros I Hdt Hhi Hmax. destruct (tick_step_t x st errs fl now n (fst r) I Hdt) as [x1 [S1 I1]].
  assert (W : let '(st', e', fl') := tstep (c_append c) m now st fl r in
              exists x' rot, step x1 (OWrite (snd r)) = (x', ObsRes 0 rot) /\ TFInv x' st' (errs ++ e') fl' (now + fst r) (S n)).
  { destruct st as [created|keys closed d]; cbn [tstep].
    - apply (init_step_t x1 created errs fl (snd r) (now + fst r)%Z n I1 Hhi Hmax).
    - destruct I1 as [q [Ew [Q [Ha [He [Ht [Hnow [Hoff [Hlo [wr [ts [Es [A [Hp [V [Hn Hts]]]]]]]]]]]]]]]].
      pose proof (active_step_t x1 q fl errs ts keys closed d wr (snd r) n Ew Ha He Ht Es A Hp V Hn Hts) as AS.
      rewrite Hnow in AS. apply AS; assumption. }
  destruct (tstep (c_append c) m now st fl r) as [[st' e'] fl']. destruct W as [x' [rot [S2 I2]]].
  exists x', rot. split; [|exact I2].
  cbn [tops flat_map app run]. rewrite S1, S2. reflexivity.
Qed.

Definition obs_normal_t (o : obs) : Prop := exists rot, o = ObsRes 0 rot.

Theorem tfrun : forall recs x st errs fl now n, TFInv x st errs fl now n ->
  ticks_ok recs -> (now + telapsed recs <= hi)%Z -> (N.of_nat (n + length recs) <= usize_max)%N ->
  let '(st', e', fl') := simt_st (c_append c) m now st fl recs in
  exists x' obs, run x (tops recs) = (x', obs) /\ TFInv x' st' (errs ++ e') fl' (now + telapsed recs) (n + length recs)
    /\ Forall obs_normal_t obs.
Proof.
  induction recs as [|r rest IH]; intros x st errs fl now n I Ht Hhi Hmax; cbn [simt_st telapsed length].
  - exists x, []. rewrite app_nil_r, Z.add_0_r, Nat.add_0_r. split; [reflexivity|]. split; [exact I | constructor].
  - inversion Ht as [|r' rest' Hr Hrest]; subst. pose proof (telapsed_nonneg rest Hrest) as Hnn.
    cbn [telapsed length] in Hhi, Hmax.
    pose proof (tfstep x st errs fl now n r I Hr ltac:(lia) ltac:(lia)) as S.
    destruct (tstep (c_append c) m now st fl r) as [[st1 e1] fl1].
    destruct S as [x1 [rot [S1 I1]]].
    specialize (IH x1 st1 (errs ++ e1) fl1 (now + fst r)%Z (S n) I1 Hrest ltac:(lia) ltac:(lia)).
    destruct (simt_st (c_append c) m (now + fst r) st1 fl1 rest) as [[st2 e2] fl2]. destruct IH as [x2 [obs [R [I2 O]]]].
    exists x2, (ObsRes 0 false :: ObsRes 0 rot :: obs).
    change (tops (r :: rest)) with (tops [r] ++ tops rest). rewrite run_app, S1. cbn [fst snd]. rewrite R. cbn [fst snd app].
    split; [reflexivity|]. split.
    + rewrite app_assoc, Z.add_assoc. replace (n + S (length rest)) with (S n + length rest) by lia. exact I2.
    + constructor; [exists false; reflexivity|]. constructor; [exists rot; reflexivity | exact O].
Qed.

(* what the invariant says about the world *)
Lemma names_nil_wf f : names f = [] -> fs_wf f.
Proof. intros H. split; intros; rewrite lookup_empty in * by assumption; discriminate. Qed.

Lemma tfinv_final x st errs fl now n : TFInv x st errs fl now n ->
  fs_wf (wfs (s_w x)) /\ tsd_view c e (wfs (s_w x)) (t_keys st) (t_conts st)
  /\ werrs (s_w x) = errs /\ wfaults (s_w x) = fl /\ wkill (s_w x) = None.
Proof.
  intros [q [Ew [Q [Ha [He [Ht [Hnow [Hoff [Hlo I]]]]]]]]]. rewrite Ew. cbn [fw set_faults wfs werrs wfaults wkill].
  assert (V : fs_wf (wfs q) /\ tsd_view c e (wfs q) (t_keys st) (t_conts st)).
  { destruct st as [[t0|]|keys closed d]; cbn [t_keys t_conts].
    - destruct I as [_ [_ [wr0 [I0 [Hp0 V0]]]]]. split; [apply I0|].
      pose proof (tsdinv_view c e lo q wr0 _ _ I0 Hp0) as TV. rewrite V0 in TV. exact TV.
    - destruct I as [_ [Hn _]]. split; [apply names_nil_wf; exact Hn | apply tsd_view_nil; auto].
    - destruct I as [wr [ts [_ [A [Hp [V _]]]]]]. split; [apply A|].
      pose proof (tsdinv_view c e lo q wr _ _ A Hp) as TV. rewrite V in TV. exact TV. }
  destruct V as [W V]. split; [exact W|]. split; [exact V|]. split; [exact He|]. split; [reflexivity | apply Q].
Qed.

Lemma tfinv_start t0 off fl : ts_e c off = e -> (lo <= t0)%Z ->
  TFInv (fst (step {| s_flw := None; s_w := set_faults (world0 t0 off) fl; s_tl := []; s_dead := false |} (OStart c))) (TInit None) [] fl t0 0.
Proof.
  intros He Hlo. exists (world0 t0 off). split; [reflexivity|]. split; [split; reflexivity|]. split; [reflexivity|]. split; [reflexivity|].
  split; [reflexivity|]. split; [reflexivity|]. split; [exact He|]. split; [exact Hlo|]. split; [reflexivity|]. split; reflexivity.
Qed.

(* when the oracle is used up and no rotation is pending, the state is related to the view (closed contents, current
   content) by the very relation of the fault-free development *)
Theorem tfinv_reltd x keys closed d errs now n : TFInv x (TAct keys closed d) errs [] now n ->
  (m <? N.of_nat (length d))%N = false -> RelTd c (CSize m) e lo n x (Some (closed, d)).
Proof.
  intros [q [Ew [Q [Ha [He [Ht [Hnow [Hoff [Hlo [wr [ts [Es [A [Hp [V [Hn Hts]]]]]]]]]]]]]]]] Em.
  destruct Hts as [Hts|Hts]; [|congruence].
  assert (Eq : s_w x = q). { rewrite Ew. destruct q. destruct Q as [F K]. cbn in F, K. subst. reflexivity. }
  split; [exact Ht|]. split; [rewrite Eq; exact Ha|].
  exists keys, wr, (RSize m (N.of_nat (length d))). rewrite Eq.
  split; [rewrite Es, Hts; reflexivity|]. split; [exact A|]. split; [exact V|]. split; [exact Hn|].
  split; [reflexivity|]. intros m' E'. injection E' as <-. eauto.
Qed.

End Tsd.


(* ------------------------------------------------------------------ the theorems *)
(* (1) For every fault oracle fl and every list of records with clock advances: after  OStart c :: tops recs  (before each
   record the clock advances by the given number of seconds) from the empty directory with the oracle fl, the directory is
   exactly what simt says - the plain files named by the keys, with the contents listed, nothing else (tsd_view); the
   keys are those of keys_ok (seconds non-decreasing, within a second <ts>, <ts>.restart-0000, <ts>.restart-0001, ...:
   all names different), each key carrying the second at which its file was started -, the error channel holds exactly the
   errors simt lists (with their codes, in order), the oracle is consumed as simt says, and every operation returns
   normally: no panic, no error result, the state is never poisoned. *)
Theorem faults_timestampsdirect c m t0 off fl recs :
  tsdcfg c (CSize m) -> c_cap c = None -> tag_ok c -> append_ok c -> ticks_ok recs ->
  (0 <= t0 + ts_e c off)%Z -> (t0 + telapsed recs + ts_e c off < sec_max)%Z -> (N.of_nat (length recs) <= usize_max)%N ->
  let r := run (fsys t0 off fl) (OStart c :: tops recs) in
  let '(keys, conts, errs, rest) := simt (c_append c) m t0 fl recs in
  fs_wf (wfs (s_w (fst r)))
  /\ tsd_view c (ts_e c off) (wfs (s_w (fst r))) keys conts
  /\ keys_ok keys /\ (forall k, In k keys -> (t0 <= fst k <= t0 + telapsed recs)%Z)
  /\ werrs (s_w (fst r)) = errs
  /\ wfaults (s_w (fst r)) = rest
  /\ (forall o, In o (snd r) -> exists rot, o = ObsRes 0 rot).
Proof.
  intros Hcfg Hcap T Happ Ht Hlo Hhi Hmax. cbv zeta. unfold simt.
  assert (Y : years_ok (ts_e c off) t0 (t0 + telapsed recs)) by (split; assumption).
  pose proof (tfinv_start c m (ts_e c off) t0 t0 off fl eq_refl (Z.le_refl _)) as I0. fold (fsys t0 off fl) in I0.
  pose proof (tfrun c m (ts_e c off) t0 (t0 + telapsed recs) Hcfg Hcap T Happ Y recs _ _ _ _ _ _ I0 Ht (Z.le_refl _) Hmax) as R.
  pose proof (simt_keys (c_append c) m t0 recs t0 (TInit None) fl (Z.le_refl _) Ht) as SK.
  destruct (simt_st (c_append c) m t0 (TInit None) fl recs) as [[st e'] fl']. cbn [fst] in SK.
  destruct R as [x' [obs [R [I O]]]]. cbn [app] in I.
  assert (Rn : run (fsys t0 off fl) (OStart c :: tops recs) = (x', ObsRes 0 false :: obs)).
  { cbn [run]. destruct (step (fsys t0 off fl) (OStart c)) as [x1 ob] eqn:E1.
    assert (ob = ObsRes 0 false) by (unfold fsys in E1; cbv in E1; injection E1 as _ <-; reflexivity).
    cbn [fst] in R. rewrite R. subst ob. reflexivity. }
  rewrite Rn. cbn [fst snd].
  destruct (tfinv_final c m (ts_e c off) t0 x' st e' fl' _ _ I) as [W [V [He [Hf _]]]].
  destruct SK as [SK _]. destruct (SK (t_ok_init t0 t0)) as [_ [K Rg]].
  split; [exact W|]. split; [exact V|]. split; [exact K|]. split; [exact Rg|]. split; [exact He|]. split; [exact Hf|].
  intros o [<-|Ho]; [eexists; reflexivity|]. rewrite Forall_forall in O. exact (O o Ho).
Qed.
Print Assumptions faults_timestampsdirect.

(* the state-level form *)
Lemma faults_timestampsdirect_st c m t0 off fl recs :
  tsdcfg c (CSize m) -> c_cap c = None -> tag_ok c -> append_ok c -> ticks_ok recs ->
  (0 <= t0 + ts_e c off)%Z -> (t0 + telapsed recs + ts_e c off < sec_max)%Z -> (N.of_nat (length recs) <= usize_max)%N ->
  let r := run (fsys t0 off fl) (OStart c :: tops recs) in
  let '(st, errs, rest) := simt_st (c_append c) m t0 (TInit None) fl recs in
  tsd_view c (ts_e c off) (wfs (s_w (fst r))) (t_keys st) (t_conts st)
  /\ werrs (s_w (fst r)) = errs /\ wfaults (s_w (fst r)) = rest
  /\ (forall o, In o (snd r) -> exists rot, o = ObsRes 0 rot).
Proof.
  intros Hcfg Hcap T Happ Ht Hlo Hhi Hmax.
  pose proof (faults_timestampsdirect c m t0 off fl recs Hcfg Hcap T Happ Ht Hlo Hhi Hmax) as F. cbv zeta in F |- *. unfold simt in F.
  destruct (simt_st (c_append c) m t0 (TInit None) fl recs) as [[st e'] fl']. tauto.
Qed.

(* (2) in terms of the run, record by record *)
Theorem tsd_lost_only_around_failures_run c m t0 off fl recs :
  tsdcfg c (CSize m) -> c_cap c = None -> tag_ok c -> append_ok c -> ticks_ok recs ->
  (0 <= t0 + ts_e c off)%Z -> (t0 + telapsed recs + ts_e c off < sec_max)%Z -> (N.of_nat (length recs) <= usize_max)%N ->
  let x := fst (run (fsys t0 off fl) (OStart c :: tops recs)) in
  let t := tracet (c_append c) m t0 (TInit None) fl recs in
  exists keys conts,
    tsd_view c (ts_e c off) (wfs (s_w x)) keys conts /\ keys_ok keys
    /\ concat conts = concat (List.map t_kept t)
    /\ List.map t_rec t = List.map snd recs
    /\ werrs (s_w x) = concat (List.map t_errs t)
    /\ fl = concat (List.map t_used t) ++ wfaults (s_w x)
    /\ (forall e, In e t -> length (t_errs e) = ntrue (t_used e))
    /\ (forall e, In e t -> (forall f, In f (t_used e) -> f = false) -> t_errs e = [] /\ t_kept e = t_rec e)
    /\ (forall e, In e t -> t_kept e <> t_rec e -> In true (t_used e) /\ In EWrite (t_errs e)).
Proof.
  intros Hcfg Hcap T Happ Ht Hlo Hhi Hmax. cbv zeta.
  pose proof (faults_timestampsdirect c m t0 off fl recs Hcfg Hcap T Happ Ht Hlo Hhi Hmax) as Fr. cbv zeta in Fr. unfold simt in Fr.
  pose proof (tsd_lost_only_around_failures (c_append c) m t0 fl recs) as L.
  destruct (simt_st (c_append c) m t0 (TInit None) fl recs) as [[st e'] fl']. cbv zeta in L.
  destruct Fr as [_ [V [K [_ [He [Hf _]]]]]]. destruct L as [H1 [H2 [H3 [H4 [H5 [H6 H7]]]]]].
  exists (t_keys st), (t_conts st). rewrite He, Hf.
  split; [exact V|]. split; [exact K|]. split; [exact H4|]. split; [exact H1|]. split; [exact H3|]. split; [exact H2|]. auto.
Qed.
Print Assumptions tsd_lost_only_around_failures_run.

(* (2), (3) in terms of the run only: the directory reads (files in the order of the keys) as the concatenation of a
   subsequence `kept` of the records; each missing record is announced by one EWrite: #missing = #EWrite <= #reports; the
   only other code that occurs is ELogFile (a failed step of a rotation; the record of that call is not lost) *)
Theorem tsd_loss_is_reported_run c m t0 off fl recs :
  tsdcfg c (CSize m) -> c_cap c = None -> tag_ok c -> append_ok c -> ticks_ok recs ->
  (0 <= t0 + ts_e c off)%Z -> (t0 + telapsed recs + ts_e c off < sec_max)%Z -> (N.of_nat (length recs) <= usize_max)%N ->
  let x := fst (run (fsys t0 off fl) (OStart c :: tops recs)) in
  exists keys conts kept,
    tsd_view c (ts_e c off) (wfs (s_w x)) keys conts /\ keys_ok keys
    /\ concat conts = concat kept /\ Subseq kept (List.map snd recs)
    /\ length recs = length kept + nlost (werrs (s_w x))
    /\ nlost (werrs (s_w x)) <= length (werrs (s_w x))
    /\ (forall e, In e (werrs (s_w x)) -> e = EWrite \/ e = ELogFile).
Proof.
  intros Hcfg Hcap T Happ Ht Hlo Hhi Hmax. cbv zeta.
  pose proof (faults_timestampsdirect c m t0 off fl recs Hcfg Hcap T Happ Ht Hlo Hhi Hmax) as F. cbv zeta in F. unfold simt in F.
  pose proof (tsd_loss_is_reported (c_append c) m recs t0 (TInit None) fl) as L.
  destruct (simt_st (c_append c) m t0 (TInit None) fl recs) as [[st e'] fl'].
  destruct F as [_ [V [K [_ [He _]]]]]. destruct L as [kept [Hs [Hst [Hl [Hle Hco]]]]].
  exists (t_keys st), (t_conts st), kept. rewrite He. split; [exact V|]. split; [exact K|]. split; [exact Hst|]. auto.
Qed.
Print Assumptions tsd_loss_is_reported_run.

(* (4) recovery at the level of the run.  x1: after recs1; r2: after recs1 ++ recs2.  When the oracle that is left after
   recs1 holds no failure any more: nothing more is reported, every record of recs2 is in the stream, the contents (closed
   files, current file) develop by the fault-free size rule s_run - a rotation whose steps failed is carried out with the
   first record -, keys and closed files are only extended (a file that was closed keeps name and content), all keys are
   different (keys_ok): no file is overwritten; every call returns normally *)
Theorem tsd_recovery_run c m t0 off fl recs1 recs2 :
  tsdcfg c (CSize m) -> c_cap c = None -> tag_ok c -> append_ok c -> ticks_ok (recs1 ++ recs2) ->
  (0 <= t0 + ts_e c off)%Z -> (t0 + telapsed (recs1 ++ recs2) + ts_e c off < sec_max)%Z ->
  (N.of_nat (length (recs1 ++ recs2)) <= usize_max)%N ->
  let x1 := fst (run (fsys t0 off fl) (OStart c :: tops recs1)) in
  let r2 := run (fsys t0 off fl) (OStart c :: tops (recs1 ++ recs2)) in
  let '(st1, _, _) := simt_st (c_append c) m t0 (TInit None) fl recs1 in
  let '(st2, _, _) := simt_st (c_append c) m t0 (TInit None) fl (recs1 ++ recs2) in
  all_false (wfaults (s_w x1)) ->
  tsd_view c (ts_e c off) (wfs (s_w x1)) (t_keys st1) (t_conts st1)
  /\ tsd_view c (ts_e c off) (wfs (s_w (fst r2))) (t_keys st2) (t_conts st2)
  /\ werrs (s_w (fst r2)) = werrs (s_w x1)
  /\ concat (t_conts st2) = concat (t_conts st1) ++ concat (List.map snd recs2)
  /\ taview st2 = s_run m (taview st1) (tops recs2)
  /\ textends st1 st2
  /\ keys_ok (t_keys st2)
  /\ (recs2 <> [] -> exists keys closed d, st2 = TAct keys closed d)
  /\ (forall o, In o (snd r2) -> exists rot, o = ObsRes 0 rot).
Proof.
  intros Hcfg Hcap T Happ Ht Hlo Hhi Hmax. cbv zeta.
  pose proof Ht as Ht'. apply Forall_app in Ht'. destruct Ht' as [Ht1 Ht2].
  pose proof (telapsed_nonneg recs2 Ht2) as Hn2. rewrite telapsed_app in Hhi. rewrite app_length in Hmax.
  pose proof (faults_timestampsdirect_st c m t0 off fl recs1 Hcfg Hcap T Happ Ht1 Hlo ltac:(lia) ltac:(lia)) as F1.
  pose proof (faults_timestampsdirect_st c m t0 off fl (recs1 ++ recs2) Hcfg Hcap T Happ Ht Hlo
                ltac:(rewrite telapsed_app; lia) ltac:(rewrite app_length; lia)) as F2.
  pose proof (tsd_recovery (c_append c) m t0 fl recs1 recs2 Ht) as R.
  cbv zeta in F1, F2.
  destruct (simt_st (c_append c) m t0 (TInit None) fl recs1) as [[st1 e1] fl1].
  destruct (simt_st (c_append c) m t0 (TInit None) fl (recs1 ++ recs2)) as [[st2 e2] fl2].
  destruct F1 as [V1 [He1 [Hf1 _]]]. destruct F2 as [V2 [He2 [_ O2]]].
  intros Hf. rewrite Hf1 in Hf. destruct (R Hf) as [-> [Hs [Hv [Hx [[_ [K _]] Hc]]]]].
  split; [exact V1|]. split; [exact V2|]. split; [congruence|]. split; [exact Hs|]. split; [exact Hv|].
  split; [exact Hx|]. split; [exact K|]. split; [exact Hc | exact O2].
Qed.
Print Assumptions tsd_recovery_run.

(* (4) for arbitrary further operations - restricted: the states in which a rotation is pending are left out.  When the
   oracle has been used up and the file of the writer is not over-full (the rotation check of the next write will not
   rotate; in particular no rotation has failed without having been made up for), the state is related to the view (closed
   contents, current content) by RelTd, the invariant of the fault-free development: whatever basic operations follow
   (writes, flushes, rotate(), clock ticks), they behave exactly as in a run without failures from that directory.
   MISSING: the states with an over-full file (there the time stamp in the naming state may differ from the one RelTd
   prescribes - it is never read, but RelTd fixes it); for further RECORDS tsd_recovery_run covers them too. *)
Theorem tsd_recovery_run_ops_partial c m t0 off fl recs ops :
  tsdcfg c (CSize m) -> c_cap c = None -> tag_ok c -> append_ok c -> ticks_ok recs ->
  Forall basic_op ops -> Forall tick_ok ops ->
  (0 <= t0 + ts_e c off)%Z -> (t0 + telapsed recs + elapsed ops + ts_e c off < sec_max)%Z ->
  (N.of_nat (length recs + length ops) <= usize_max)%N ->
  let x := fst (run (fsys t0 off fl) (OStart c :: tops recs)) in
  let '(st, _, rest) := simt_st (c_append c) m t0 (TInit None) fl recs in
  rest = [] -> forall keys closed d, st = TAct keys closed d -> (m <? N.of_nat (length d))%N = false ->
    RelTd c (CSize m) (ts_e c off) t0 (length recs) x (Some (closed, d))
    /\ RelTd c (CSize m) (ts_e c off) t0 (length recs + length ops) (fst (run x ops)) (s_run m (Some (closed, d)) ops)
    /\ (forall i o b, nth_error ops i = Some o -> (o = OWrite b \/ o = OPlain b) ->
          nth_error (snd (run x ops)) i
          = Some (ObsRes 0 (m <? N.of_nat (length (cur_of (s_run m (Some (closed, d)) (firstn i ops)))))%N)).
Proof.
  intros Hcfg Hcap T Happ Ht Hb Htk Hlo Hhi Hmax. cbv zeta.
  pose proof (telapsed_nonneg recs Ht) as Hn1. pose proof (elapsed_nonneg ops Htk) as Hn2.
  assert (Y : years_ok (ts_e c off) t0 (t0 + telapsed recs)) by (split; [assumption | lia]).
  pose proof (tfinv_start c m (ts_e c off) t0 t0 off fl eq_refl (Z.le_refl _)) as I0. fold (fsys t0 off fl) in I0.
  pose proof (tfrun c m (ts_e c off) t0 (t0 + telapsed recs) Hcfg Hcap T Happ Y recs _ _ _ _ _ _ I0 Ht (Z.le_refl _) ltac:(lia)) as R.
  destruct (simt_st (c_append c) m t0 (TInit None) fl recs) as [[st e'] fl'].
  destruct R as [x' [obs [R [I O]]]]. intros -> keys closed d -> Em.
  assert (Ex : fst (run (fsys t0 off fl) (OStart c :: tops recs)) = x').
  { cbn [run]. destruct (step (fsys t0 off fl) (OStart c)) as [x1 ob]. cbn [fst] in R. rewrite R. reflexivity. }
  rewrite Ex. cbn [Nat.add] in I.
  pose proof (tfinv_reltd c m (ts_e c off) t0 x' keys closed d _ _ _ I Em) as Rl.
  split; [exact Rl|].
  assert (Wn : wnow (s_w x') = (t0 + telapsed recs)%Z).
  { destruct I as [q [Ew [_ [_ [_ [_ [Hnow _]]]]]]]. rewrite Ew. exact Hnow. }
  assert (Y2 : years_ok (ts_e c off) t0 (t0 + telapsed recs + elapsed ops)) by (split; [assumption | lia]).
  pose proof (run_rel_tsd c (CSize m) _ _ _ Hcfg T Y2 ops x' _ (length recs) Rl Hb Htk ltac:(lia) ltac:(lia)) as [R1 [W1 Z1]].
  destruct (Z1 m eq_refl) as [E2 O2]. rewrite E2 in R1.
  split; [exact R1|]. intros i o b Hi Hw. exact (O2 i o Hi b Hw).
Qed.
Print Assumptions tsd_recovery_run_ops_partial.

(* ------------------------------------------------------------------ the statement, computed on examples *)
Import String.StringSyntax.
Open Scope string_scope.
Definition tx_cfg (app : bool) (m : N) : config := tsd_cfg (ex_sp "log") app (CSize m) None false.
Lemma tx_cfg_ok app m : tsdcfg (tx_cfg app m) (CSize m) /\ c_cap (tx_cfg app m) = None /\ tag_ok (tx_cfg app m) /\ append_ok (tx_cfg app m).
Proof.
  split; [apply tsd_cfg_ok; reflexivity|]. split; [reflexivity|].
  split; [apply tag_free_ok; split; vm_compute; reflexivity|].
  intros _. apply probe_free_ok. vm_compute. reflexivity.
Qed.

(* the run: the directory (name, kind, content; sorted by name), the error channel, the rest of the oracle, and
   whether every operation returned normally *)
Definition tx_run (app : bool) (m : N) (fl : list bool) (recs : list (Z * bytes))
  : list (bytes * N * bytes) * list ecode * list bool * bool :=
  let r := run (fsys 0 0 fl) (OStart (tx_cfg app m) :: tops recs) in
  (snap_of (fst r), werrs (s_w (fst r)), wfaults (s_w (fst r)), forallb obs_normalb (snd r)).
(* the specification, as a directory *)
Definition tx_sim (app : bool) (m : N) (fl : list bool) (recs : list (Z * bytes))
  : list (bytes * N * bytes) * list ecode * list bool * bool :=
  let '(keys, conts, e, rest) := simt app m 0 fl recs in
  (List.map (fun p => (kname (tx_cfg app m) 0 (fst p), 0%N, snd p)) (combine keys conts), e, rest, true).
Definition tagree (app : bool) (m : N) (recs : list (Z * bytes)) (fl : list bool) : bool :=
  let '(d1, e1, f1, ok1) := tx_run app m fl recs in
  let '(d2, e2, f2, ok2) := tx_sim app m fl recs in
  leqb ent_eqb d1 d2 && leqb ec_eqb e1 e2 && leqb Bool.eqb f1 f2 && Bool.eqb ok1 ok2.

(* "abcd" and "ef" in second 0, "gh" and "ijkl" in second 1, "mn" in second 3 *)
Definition trecs5 : list (Z * bytes) := [(0%Z, bs "abcd"); (0%Z, bs "ef"); (1%Z, bs "gh"); (0%Z, bs "ijkl"); (2%Z, bs "mn")].
Definition trecs0 : list (Z * bytes) := [(0%Z, bs "a"); (0%Z, bs "b"); (0%Z, bs "c"); (1%Z, bs "d"); (0%Z, bs "e"); (0%Z, bs "f")].
Lemma trecs5_ticks : ticks_ok trecs5 /\ ticks_ok trecs0.
Proof. split; repeat constructor; cbn; lia. Qed.

(* size limit 3, no append: the first log call makes four fallible calls (read_dir, read_dir, open, write); a rotation
   makes three (read_dir, read_dir, open) *)
(* no failure *)
Example tx_none :
  simt false 3 0 [] trecs5 = ([(0%Z, 0); (0%Z, 1); (1%Z, 0); (3%Z, 0)], [bs "abcd"; bs "efgh"; bs "ijkl"; bs "mn"], [], [])
  /\ tx_run false 3 [] trecs5
     = ([(bs "app_r1970-01-01_00-00-00.log", 0%N, bs "abcd"); (bs "app_r1970-01-01_00-00-00.restart-0000.log", 0%N, bs "efgh");
         (bs "app_r1970-01-01_00-00-01.log", 0%N, bs "ijkl"); (bs "app_r1970-01-01_00-00-03.log", 0%N, bs "mn")], [], [], true)
  /\ tx_sim false 3 [] trecs5 = tx_run false 3 [] trecs5.
Proof. repeat split; vm_compute; reflexivity. Qed.
(* (i) the second listing of the rotation before "ef" fails: reported (ELogFile), "ef" goes into the over-full first file; the
   next record ("gh", second 1) rotates: the new file carries the second of THAT record; no name is skipped *)
Example tx_listing_of_rotation_fails :
  simt false 3 0 [F;F;F;F; F;T] trecs5 = ([(0%Z, 0); (1%Z, 0); (3%Z, 0)], [bs "abcdef"; bs "ghijkl"; bs "mn"], [ELogFile], [])
  /\ tx_sim false 3 [F;F;F;F; F;T] trecs5 = tx_run false 3 [F;F;F;F; F;T] trecs5.
Proof. split; vm_compute; reflexivity. Qed.
(* ... the same when the open fails; as long as a step fails the file grows, each time reported, nothing lost *)
Example tx_open_of_rotation_keeps_failing :
  simt false 3 0 [F;F;F;F; F;F;T;F; T;F; F;T;F] trecs5 = ([(0%Z, 0); (3%Z, 0)], [bs "abcdefghijkl"; bs "mn"], [ELogFile; ELogFile; ELogFile], [])
  /\ tx_sim false 3 [F;F;F;F; F;F;T;F; T;F; F;T;F] trecs5 = tx_run false 3 [F;F;F;F; F;F;T;F; T;F; F;T;F] trecs5.
Proof. split; vm_compute; reflexivity. Qed.
(* (iii) a listing of the initialisation fails: "abcd" is lost and reported (EWrite); the next record initialises again *)
Example tx_init_fails :
  simt false 3 0 [T] trecs5 = ([(0%Z, 0); (1%Z, 0); (3%Z, 0)], [bs "efgh"; bs "ijkl"; bs "mn"], [EWrite], [])
  /\ tx_sim false 3 [T] trecs5 = tx_run false 3 [T] trecs5.
Proof. split; vm_compute; reflexivity. Qed.
(* with append the calls are read_dir, read_dir, read_dir, open, metadata: when metadata fails the created (empty) file
   stays; the next initialisation - five seconds later - finds it as the latest file and continues it under ITS time stamp *)
Example tx_metadata_fails :
  simt true 3 0 [F;F;F;F;T] [(0%Z, bs "abcd")] = ([(0%Z, 0)], [[]], [EWrite], [])
  /\ simt true 3 0 [F;F;F;F;T] [(0%Z, bs "abcd"); (5%Z, bs "ef")] = ([(0%Z, 0)], [bs "ef"], [EWrite], [])
  /\ tx_run true 3 [F;F;F;F;T] [(0%Z, bs "abcd"); (5%Z, bs "ef")] = ([(bs "app_r1970-01-01_00-00-00.log", 0%N, bs "ef")], [EWrite], [], true)
  /\ tx_sim true 3 [F;F;F;F;T] [(0%Z, bs "abcd"); (5%Z, bs "ef")] = tx_run true 3 [F;F;F;F;T] [(0%Z, bs "abcd"); (5%Z, bs "ef")].
Proof. repeat split; vm_compute; reflexivity. Qed.
(* (iv) the write fails: the record is lost and reported (EWrite) *)
Example tx_write_fails :
  simt false 3 0 [F;F;F;T] trecs5 = ([(0%Z, 0); (1%Z, 0); (3%Z, 0)], [bs "efgh"; bs "ijkl"; bs "mn"], [EWrite], [])
  /\ tx_sim false 3 [F;F;F;T] trecs5 = tx_run false 3 [F;F;F;T] trecs5.
Proof. split; vm_compute; reflexivity. Qed.
(* one log call, two reports: the rotation fails (ELogFile) and then the write fails (EWrite): one record lost *)
Example tx_two_reports :
  simt false 3 0 [F;F;F;F; T;T] trecs5 = ([(0%Z, 0); (1%Z, 0); (3%Z, 0)], [bs "abcd"; bs "ghijkl"; bs "mn"], [ELogFile; EWrite], [])
  /\ tx_sim false 3 [F;F;F;F; T;T] trecs5 = tx_run false 3 [F;F;F;F; T;T] trecs5.
Proof. split; vm_compute; reflexivity. Qed.
(* an instance of the hypotheses of tsd_recovery_run_ops_partial *)
Example tx_ops_instance :
  let '(st, e, rest) := simt_st false 3 0 (TInit None) [F;F;F;F; T;T] trecs5 in
  rest = [] /\ st = TAct [(0%Z, 0); (1%Z, 0); (3%Z, 0)] [bs "abcd"; bs "ghijkl"] (bs "mn") /\ (3 <? N.of_nat (length (bs "mn")))%N = false.
Proof. vm_compute. repeat split. Qed.

(* run and specification agree on ALL fault oracles up to length 8 (511 oracles) for three settings, up to length 7 (255)
   for two more; limit 0: every record rotates (several files per second); empty records included *)
Example tx_agree_all :
  forallb (tagree false 3 trecs5) (all_lists 8) = true
  /\ forallb (tagree true 3 trecs5) (all_lists 8) = true
  /\ forallb (tagree true 0 trecs0) (all_lists 8) = true
  /\ forallb (tagree false 0 trecs0) (all_lists 7) = true
  /\ forallb (tagree true 1 [(0%Z, bs "abcd"); (3%Z, bs ""); (0%Z, bs "efgh"); (0%Z, bs ""); (1%Z, bs "i")]) (all_lists 7) = true.
Proof. repeat split; vm_compute; reflexivity. Qed.
