(* Numbers naming with a size criterion: the greedy partition over SEQUENCES of runs on one directory, i.e. for every
   start state (fresh directory; a directory left behind by earlier writers, continued with or without append).

   - with append the content found in rCURRENT counts for the limit from the first write on: the files of the run are
     expected_files m (Some cur) items, cur being the content found;
   - without append rCURRENT is closed under the next number - NOT when the writer is built but when it writes for the
     first time (the writer opens its file lazily) - and the run's own files are expected_files m None items;
   - a writer that never writes leaves the directory as it is (also without append: rCURRENT is not rotated).

   The abstract side (init_view, g_step, g_run, gview) is the one of NumRestart.v; what is added here is the size rule
   for g_run (gs_run) and its reading in terms of the oracle expected_files / s_run. *)
Require Import FL.Base.Bytes FL.Base.BytesFacts FL.Base.PathName FL.Fs.Fs FL.Fs.FsFacts FL.Time.Civil FL.Time.TsFormat
  FL.Names.FileSpec FL.Names.NamesFacts FL.Flw.Model FL.Flw.ModelFacts FL.Flw.NumFs FL.Flw.NumInv FL.Flw.Run FL.Flw.RunFacts
  FL.Flw.NumRun FL.Flw.NumListing FL.Oracles.O_Flw FL.Flw.NumTheorems FL.Flw.NumRestart.
From Coq Require Import ZifyN ZifyNat ZifyBool.
Import String.StringSyntax.
Open Scope nat_scope.

(* ================================================================== the abstract side *)
(* the bytes that count for the limit before the next write: before the first write of a run, what the writer will
   find (append) or nothing (no append: the file found is closed first) *)
Definition gcur (c : config) (v a : aview) : bytes :=
  match a with None => snd (init_view c v) | Some (_, cu) => cu end.

(* one run under the size rule *)
Fixpoint gs_run (m : N) (c : config) (v a : aview) (ops : list op) : aview :=
  match ops with
  | [] => a
  | o :: r => gs_run m c v (g_step c v a o (m <? N.of_nat (length (gcur c v a)))%N) r
  end.

(* the operations of a run from its first write on: nothing happens before it (flush and trigger on a writer that has
   not opened its file do nothing) *)
Fixpoint from_first_write (ops : list op) : list op :=
  match ops with
  | [] => []
  | OWrite b :: r => OWrite b :: r
  | OPlain b :: r => OPlain b :: r
  | _ :: r => from_first_write r
  end.

Lemma ffw_basic ops : Forall basic_op ops -> Forall basic_op (from_first_write ops).
Proof.
  induction ops as [|o r IH]; intros Hb; [constructor|]. inversion Hb as [|o' r' Ho Hr]; subst.
  destruct o; cbn [from_first_write]; try (apply IH; assumption); exact Hb.
Qed.

Lemma ffw_head ops : match from_first_write ops with
                     | [] => True
                     | o :: _ => exists b, o = OWrite b \/ o = OPlain b
                     end.
Proof. induction ops as [|o r IH]; [exact Logic.I|]. destruct o; cbn [from_first_write]; try exact IH; eauto. Qed.

Lemma items_false_ffw ops : items false ops = items true (from_first_write ops).
Proof. induction ops as [|o r IH]; [reflexivity|]. destruct o; cbn [items from_first_write]; try exact IH; reflexivity. Qed.

Lemma gs_run_some m c v ops : forall p, gs_run m c v (Some p) ops = s_run m (Some p) ops.
Proof.
  induction ops as [|o r IH]; intros p; [reflexivity|]. destruct p as [cl cu]. cbn [gs_run s_run g_step gcur cur_of].
  destruct (a_step_some (cl, cu) o (m <? N.of_nat (length cu))%N) as [q Eq]. rewrite Eq. apply IH.
Qed.

Lemma gs_run_none m c v ops :
  gs_run m c v None ops = match from_first_write ops with [] => None | _ :: _ => s_run m (Some (init_view c v)) (from_first_write ops) end.
Proof.
  induction ops as [|o r IH]; [reflexivity|].
  destruct o; cbn [gs_run g_step from_first_write]; try exact IH.
  - cbn [gcur]. destruct (init_view c v) as [cl cu]. cbn [snd s_run cur_of].
    destruct (a_step_some (cl, cu) (OWrite b) (m <? N.of_nat (length cu))%N) as [q Eq]. rewrite Eq. apply gs_run_some.
  - cbn [gcur]. destruct (init_view c v) as [cl cu]. cbn [snd s_run cur_of].
    destruct (a_step_some (cl, cu) (OPlain b) (m <? N.of_nat (length cu))%N) as [q Eq]. rewrite Eq. apply gs_run_some.
Qed.

Lemma s_run_some m ops : forall p, exists q, s_run m (Some p) ops = Some q.
Proof.
  induction ops as [|o r IH]; intros p; [exists p; reflexivity|]. cbn [s_run].
  destruct (a_step_some p o (m <? N.of_nat (length (cur_of (Some p))))%N) as [q Eq]. rewrite Eq. apply IH.
Qed.

(* the current content does not depend on the files closed before *)
Lemma s_run_cur_indep m ops : forall cl cl' cu,
  cur_of (s_run m (Some (cl, cu)) ops) = cur_of (s_run m (Some (cl', cu)) ops).
Proof.
  induction ops as [|o r IH]; intros cl cl' cu; [reflexivity|].
  destruct o; cbn [s_run a_step cur_of]; try apply IH; destruct (m <? N.of_nat (length cu))%N; apply IH.
Qed.

Lemma s_run_none_cur m ops : forall cl,
  cur_of (s_run m None ops) = cur_of (s_run m (Some (cl, [])) (from_first_write ops)).
Proof.
  induction ops as [|o r IH]; intros cl; [reflexivity|].
  destruct o; cbn [s_run a_step from_first_write cur_of]; try apply IH.
  - change (m <? N.of_nat (length (@nil N)))%N with (m <? 0)%N. rewrite (proj2 (N.ltb_ge m 0)) by lia.
    cbn [app]. apply s_run_cur_indep.
  - change (m <? N.of_nat (length (@nil N)))%N with (m <? 0)%N. rewrite (proj2 (N.ltb_ge m 0)) by lia.
    cbn [app]. apply s_run_cur_indep.
Qed.

Lemma partition_closed' m items : forall cl cu, partition m cl cu items = cl ++ partition m [] cu items.
Proof.
  induction items as [|[r|] rest IH]; intros cl cu; cbn [partition app].
  - reflexivity.
  - destruct (m <? N.of_nat (length cu))%N.
    + rewrite (IH (cl ++ [cu])), (IH [cu]), <- app_assoc. reflexivity.
    + apply IH.
  - rewrite (IH (cl ++ [cu])), (IH [cu]), <- app_assoc. reflexivity.
Qed.

(* ------------------------------------------------------------------ in terms of the oracle *)
(* the files after one more run (limit m, operations ops) on a directory that reads `files` (closed files in order,
   rCURRENT last; [] = empty directory) *)
Definition files_after (files : list bytes) (append : bool) (m : N) (ops : list op) : list bytes :=
  if append then
    match files with
    | [] => expected_files m None (items false ops)
    | _ :: _ => removelast files ++ expected_files m (Some (last files [])) (items false ops)
    end
  else files ++ expected_files m None (items false ops).

(* the content found at start that counts *)
Definition start_of (files : list bytes) (append : bool) : option bytes :=
  if append then match files with [] => None | _ :: _ => Some (last files []) end else None.

(* the bytes counted for the current file after the operations ops of a run that found `start` *)
Definition cur_before (m : N) (start : option bytes) (ops : list op) : bytes :=
  match start with
  | None => cur_of (s_run m None ops)
  | Some s => cur_of (s_run m (Some ([], s)) (from_first_write ops))
  end.

Lemma files_of_nonnil cl cu : files_of (Some (cl, cu)) <> [].
Proof. cbn [files_of]. destruct cl; discriminate. Qed.

Lemma gview_files m c v ops : Forall basic_op ops ->
  files_of (gview v (gs_run m c v None ops)) = files_after (files_of v) (c_append c) m ops.
Proof.
  intros Hb. rewrite gs_run_none. unfold files_after. rewrite items_false_ffw.
  pose proof (ffw_basic ops Hb) as Hl. pose proof (ffw_head ops) as Hh.
  destruct (from_first_write ops) as [|o l] eqn:El.
  - (* no write: the directory stays as it is *)
    cbn [gview items]. unfold expected_files. cbn [has_rec].
    destruct v as [[cl cu]|]; cbn [files_of].
    + destruct (c_append c).
      * destruct (cl ++ [cu]) eqn:E0; [destruct cl; discriminate|]. rewrite <- E0.
        rewrite removelast_last, last_last. reflexivity.
      * rewrite app_nil_r. reflexivity.
    + destruct (c_append c); reflexivity.
  - destruct Hh as [b Ho].
    assert (Hr : has_rec (items true (o :: l)) = true) by (destruct Ho as [->| ->]; reflexivity).
    destruct (init_view c v) as [icl icu] eqn:Ei.
    destruct (s_run_some m (o :: l) (icl, icu)) as [q Eq].
    assert (F : files_of (s_run m (Some (icl, icu)) (o :: l)) = icl ++ partition m [] icu (items true (o :: l))).
    { rewrite s_run_partition by exact Hl. apply partition_closed'. }
    rewrite Eq in *. cbn [gview]. rewrite F. unfold expected_files. rewrite Hr.
    destruct v as [[cl cu]|]; cbn [init_view files_of] in *.
    + destruct (c_append c).
      * injection Ei as <- <-. destruct (cl ++ [cu]) eqn:E0; [destruct cl; discriminate|]. rewrite <- E0.
        rewrite removelast_last, last_last. reflexivity.
      * injection Ei as <- <-. reflexivity.
    + injection Ei as <- <-. destruct (c_append c); reflexivity.
Qed.

Lemma gcur_before m c v l :
  gcur c v (gs_run m c v None l) = cur_before m (start_of (files_of v) (c_append c)) l.
Proof.
  rewrite gs_run_none.
  assert (X : gcur c v (match from_first_write l with [] => None | _ :: _ => s_run m (Some (init_view c v)) (from_first_write l) end)
              = cur_of (s_run m (Some (init_view c v)) (from_first_write l))).
  { destruct (from_first_write l) as [|o r] eqn:El.
    - cbn [gcur s_run]. destruct (init_view c v); reflexivity.
    - destruct (s_run_some m (o :: r) (init_view c v)) as [[cl cu] Eq]. rewrite Eq. reflexivity. }
  rewrite X. clear X. unfold start_of, cur_before.
  destruct v as [[cl cu]|]; cbn [init_view files_of].
  - destruct (c_append c).
    + destruct (cl ++ [cu]) eqn:E0; [destruct cl; discriminate|]. rewrite <- E0, last_last. apply s_run_cur_indep.
    + symmetry. apply s_run_none_cur.
  - assert (Y : (if c_append c then @None bytes else None) = None) by (destruct (c_append c); reflexivity).
    rewrite Y. symmetry. apply s_run_none_cur.
Qed.

(* ================================================================== the concrete side: the size rule of one run *)
(* the first write of a run: the rotation flag is decided by what the writer finds *)
Lemma first_write_size c m x v b :
  numcfg c (CSize m) -> (N.of_nat (length (closed_of v)) <= u32_max)%N -> Pre c x v ->
  exists w' s',
    write_buffer (new_flw c) (s_w x) b = (Ok tt, w', s', (m <? N.of_nat (length (snd (init_view c v))))%N).
Proof.
  intros Hcfg Hb [Ht [Ha [Es [Q D]]]]. destruct v as [[cl cu]|].
  - destruct D as [W R]. cbn [closed_of] in Hb.
    destruct (initialize_view c (CSize m) (s_w x) cl cu Hcfg Q W R Hb) as [w1 [wr [roll [Ei [I [V [Z [S1 RS]]]]]]]].
    destruct (RS m eq_refl) as [k Ek]. subst roll. cbn [roll_size_ok] in Z. subst k.
    destruct (init_view c (Some (cl, cu))) as [cl1 cu1]. cbn [fst snd] in *.
    assert (Z0 : roll_size_ok (RSize m (N.of_nat (length cu1))) (length (cur_view w1 wr))) by (rewrite V; reflexivity).
    destruct (write_active c (CSize m) w1 wr cl1 _ b Hcfg I Z0) as [w' [wr' [roll' [closed' [E _]]]]].
    exists w', (st_of c (length closed') roll' wr').
    rewrite (write_buffer_init c (s_w x) b _ _ _ w1 Ei). exact E.
  - assert (R0 : Rel c (CSize m) x None) by (split; [exact Ht|]; split; [exact Ha|]; split; [exact Es|]; split; [exact Q | exact D]).
    destruct (write_rel c (CSize m) x None b Hcfg R0) as [s [w' [s' [rot [Es' [Hp [E [_ C]]]]]]]].
    rewrite Es in Es'. injection Es' as <-. exists w', s'. rewrite E, (C m eq_refl). reflexivity.
Qed.

Lemma gstep_size c m x v a o b :
  numcfg c (CSize m) -> (N.of_nat (length (closed_of v)) <= u32_max)%N ->
  GRel c (CSize m) x v a -> (o = OWrite b \/ o = OPlain b) ->
  snd (step x o) = ObsRes 0 (m <? N.of_nat (length (gcur c v a)))%N.
Proof.
  intros Hcfg Hb G Hw.
  assert (Ho : basic_op o) by (destruct Hw as [->| ->]; exact Logic.I).
  destruct a as [p|].
  - cbn [GRel] in G. pose proof (step_rel c (CSize m) x (Some p) o Hcfg G Ho) as S.
    destruct (step x o) as [x' ob]. destruct S as [_ [C _]]. cbn [snd]. rewrite (C b m Hw eq_refl).
    destruct p as [cl cu]. reflexivity.
  - cbn [GRel] in G. rewrite (step_sync_pre c (CSize m) x v o Hcfg G).
    pose proof G as [Ht [Ha [Es [Q D]]]]. cbn [gcur].
    destruct Hw as [->| ->]; cbn [sync_step].
    + destruct (first_write_size c m x v (s_tl x ++ b) Hcfg Hb G) as [w' [s' E]].
      rewrite Es. cbn [new_flw f_poisoned]. fold (new_flw c). rewrite E. reflexivity.
    + destruct (first_write_size c m x v b Hcfg Hb G) as [w' [s' E]].
      rewrite Es. cbn [new_flw f_poisoned]. fold (new_flw c). rewrite E. reflexivity.
Qed.

Lemma grun_size c m v : numcfg c (CSize m) -> (N.of_nat (length (closed_of v)) <= u32_max)%N ->
  forall ops x a, GRel c (CSize m) x v a -> Forall basic_op ops ->
  g_run c v a ops (snd (run x ops)) = gs_run m c v a ops
  /\ (forall i o, nth_error ops i = Some o -> forall b, (o = OWrite b \/ o = OPlain b) ->
        nth_error (snd (run x ops)) i
        = Some (ObsRes 0 (m <? N.of_nat (length (gcur c v (gs_run m c v a (firstn i ops)))))%N)).
Proof.
  intros Hcfg Hbd. induction ops as [|o r IH]; intros x a G Hb.
  - split; [reflexivity|]. intros i o H. destruct i; discriminate.
  - cbn [run]. inversion Hb as [|o' r' Ho Hr]; subst.
    pose proof (gstep_rel c (CSize m) x v a o Hcfg Hbd G Ho) as S.
    pose proof (fun b Hw => gstep_size c m x v a o b Hcfg Hbd G Hw) as C1.
    destruct (step x o) as [x1 ob] eqn:Est. cbn [snd] in C1.
    specialize (IH x1 _ S Hr). destruct (run x1 r) as [x2 obs] eqn:Er. cbn [snd] in *.
    assert (Erot : g_step c v a o (rot_of ob) = g_step c v a o (m <? N.of_nat (length (gcur c v a)))%N).
    { destruct o; try (destruct a; reflexivity).
      - rewrite (C1 b (or_introl eq_refl)). reflexivity.
      - rewrite (C1 b (or_intror eq_refl)). reflexivity. }
    cbn [g_run gs_run]. rewrite <- Erot. destruct IH as [IH1 IH2]. split; [exact IH1|].
    intros i o0 Hi b Hw. destruct i as [|i].
    + cbn in Hi. injection Hi as <-. cbn [nth_error firstn gs_run]. f_equal. apply (C1 b Hw).
    + cbn [nth_error firstn gs_run] in *. rewrite <- Erot. apply (IH2 i o0 Hi b Hw).
Qed.

(* ---- one whole run ---- *)
Lemma one_run_size c m x v ops :
  numcfg c (CSize m) -> (N.of_nat (length (closed_of v)) <= u32_max)%N ->
  Forall basic_op ops -> Idle c x v ->
  exists v', Idle c (fst (run x (OStart c :: ops ++ [OStop]))) v'
    /\ files_of v' = files_after (files_of v) (c_append c) m ops
    /\ length (closed_of v') <= length (closed_of v) + S (length ops).
Proof.
  intros Hcfg Hb Hops Id. cbn [run]. pose proof (start_pre c x v Id) as P0.
  destruct (step x (OStart c)) as [x0 ob0]. cbn [fst] in P0.
  rewrite run_app.
  pose proof (grun_rel c (CSize m) v Hcfg Hb ops x0 None P0 Hops) as G1.
  pose proof (grun_size c m v Hcfg Hb ops x0 None P0 Hops) as [Hs _].
  destruct (run x0 ops) as [x1 obs1]. cbn [fst snd] in *.
  pose proof (stop_idle c (CSize m) x1 v _ Hcfg G1) as S. cbn [run]. destruct (step x1 OStop) as [x2 ob2]. cbn [fst] in *.
  exists (gview v (g_run c v None ops obs1)). split; [exact S|]. split.
  - rewrite Hs. apply gview_files. exact Hops.
  - pose proof (gview_pot v (g_run c v None ops obs1)). pose proof (g_run_pot c v ops None obs1). cbn [gpot] in *. lia.
Qed.

Lemma one_run_flags c m x v ops i o b :
  numcfg c (CSize m) -> (N.of_nat (length (closed_of v)) <= u32_max)%N ->
  Forall basic_op ops -> Idle c x v ->
  nth_error ops i = Some o -> (o = OWrite b \/ o = OPlain b) ->
  nth_error (snd (run x (OStart c :: ops))) (S i)
  = Some (ObsRes 0 (m <? N.of_nat (length (cur_before m (start_of (files_of v) (c_append c)) (firstn i ops))))%N).
Proof.
  intros Hcfg Hb Hops Id Hi Hw. cbn [run]. pose proof (start_pre c x v Id) as P0.
  destruct (step x (OStart c)) as [x0 ob0]. cbn [fst] in P0.
  pose proof (grun_size c m v Hcfg Hb ops x0 None P0 Hops) as [_ Hr].
  destruct (run x0 ops) as [x1 obs1]. cbn [snd nth_error] in *.
  rewrite (Hr i o Hi b Hw), gcur_before. reflexivity.
Qed.

(* ================================================================== sequences of runs *)
Fixpoint runs_files (files : list bytes) (rs : list (config * list op)) : list bytes :=
  match rs with
  | [] => files
  | (c, ops) :: r =>
    runs_files (files_after files (c_append c)
                  (match c_rot c with Some (CSize m, _, _) => m | _ => 0%N end) ops) r
  end.

Definition srun_ok (sp : file_spec) (r : config * list op) : Prop :=
  c_spec (fst r) = sp /\ (exists m, numcfg (fst r) (CSize m)) /\ Forall basic_op (snd r).

Lemma runs_size_rel sp : forall rs x v c0, c_spec c0 = sp -> Forall (srun_ok sp) rs -> Idle c0 x v ->
  (N.of_nat (length (closed_of v) + length (runs_ops rs)) <= u32_max)%N ->
  exists v', Idle c0 (fst (run x (runs_ops rs))) v' /\ files_of v' = runs_files (files_of v) rs
    /\ length (closed_of v') <= length (closed_of v) + length (runs_ops rs).
Proof.
  induction rs as [|[c ops] r IH]; intros x v c0 Ec0 Hrs Id Hb.
  - exists v. split; [exact Id|]. split; [reflexivity|]. cbn [runs_ops length]. lia.
  - inversion Hrs as [|r0 r' [Ec [[m Hcfg] Hops]] Hr]; subst. cbn [fst snd] in *.
    rewrite runs_ops_cons in *.
    assert (Esp : c_spec c0 = c_spec c) by congruence.
    assert (Hb1 : (N.of_nat (length (closed_of v)) <= u32_max)%N) by lia.
    destruct (one_run_size c m x v ops Hcfg Hb1 Hops (idle_spec c0 c x v Esp Id)) as [v1 [Id1 [F1 P1]]].
    rewrite run_app. destruct (run x (OStart c :: ops ++ [OStop])) as [x1 obs1]. cbn [fst] in Id1.
    assert (Hb2 : (N.of_nat (length (closed_of v1) + length (runs_ops r)) <= u32_max)%N).
    { rewrite app_length in Hb. cbn [length] in Hb. rewrite app_length in Hb. cbn [length] in Hb. lia. }
    destruct (IH x1 v1 c0 eq_refl Hr (idle_spec c c0 x1 v1 (eq_sym Esp) Id1) Hb2) as [v2 [Id2 [F2 P2]]].
    destruct (run x1 (runs_ops r)) as [x2 obs2]. cbn [fst] in *.
    exists v2. split; [exact Id2|]. split.
    + rewrite F2, F1. cbn [runs_files]. destruct Hcfg as [-> _]. reflexivity.
    + rewrite app_length. cbn [length]. rewrite app_length. cbn [length]. lia.
Qed.

(* C08 for any number of runs on one directory, each with its own limit, buffer capacity and append setting:
   the directory reads the fold of files_after over the runs. *)
Theorem numbers_runs_partition sp t0 off rs :
  (N.of_nat (length (runs_ops rs)) <= u32_max)%N ->
  Forall (fun r => c_spec (fst r) = sp /\ (exists m, numcfg (fst r) (CSize m)) /\ Forall basic_op (snd r)) rs ->
  forall c, c_spec c = sp ->
    reads c (wfs (s_w (fst (run (sys0 t0 off) (runs_ops rs))))) (runs_files [] rs).
Proof.
  intros Hb Hrs c Ec.
  destruct (runs_size_rel sp rs (sys0 t0 off) None (sp_config sp) eq_refl Hrs (idle0 _ t0 off) Hb) as [v' [Id [F _]]].
  destruct (idle_reads sp (sp_config sp) _ v' eq_refl Id) as [R _].
  cbn [files_of] in F. rewrite <- F. apply R. exact Ec.
Qed.
Print Assumptions numbers_runs_partition.

(* the rotation flag of every write of a run that follows any number of runs: the bytes counted are those of the
   reader's view of this run, which starts with the content found in rCURRENT iff the run appends *)
Theorem numbers_runs_rotates_iff sp t0 off rs c m ops i o b :
  (N.of_nat (length (runs_ops rs)) <= u32_max)%N ->
  Forall (fun r => c_spec (fst r) = sp /\ (exists m, numcfg (fst r) (CSize m)) /\ Forall basic_op (snd r)) rs ->
  c_spec c = sp -> numcfg c (CSize m) -> Forall basic_op ops ->
  nth_error ops i = Some o -> (o = OWrite b \/ o = OPlain b) ->
  nth_error (snd (run (fst (run (sys0 t0 off) (runs_ops rs))) (OStart c :: ops))) (S i)
  = Some (ObsRes 0 (m <? N.of_nat (length (cur_before m (start_of (runs_files [] rs) (c_append c)) (firstn i ops))))%N).
Proof.
  intros Hb Hrs Ec Hcfg Hops Hi Hw.
  destruct (runs_size_rel sp rs (sys0 t0 off) None (sp_config sp) eq_refl Hrs (idle0 _ t0 off) Hb) as [v' [Id [F P]]].
  cbn [files_of closed_of length] in F, P. rewrite <- F.
  apply (one_run_flags c m _ v' ops i o b); try assumption; [lia|].
  apply (idle_spec (sp_config sp) c); [symmetry; exact Ec | exact Id].
Qed.
Print Assumptions numbers_runs_rotates_iff.

(* ================================================================== two runs *)
Lemma two_runs_split c1 c2 (ops1 ops2 : list op) (tl : list op) :
  OStart c1 :: ops1 ++ [OStop] ++ OStart c2 :: ops2 ++ tl = (OStart c1 :: ops1 ++ [OStop]) ++ (OStart c2 :: ops2 ++ tl).
Proof. cbn [app]. rewrite <- app_assoc. reflexivity. Qed.

(* the first run, from the empty directory *)
Lemma first_run_idle c1 m1 t0 off ops1 :
  numcfg c1 (CSize m1) -> Forall basic_op ops1 ->
  exists v1, Idle c1 (fst (run (sys0 t0 off) (OStart c1 :: ops1 ++ [OStop]))) v1
    /\ files_of v1 = expected_files m1 None (items false ops1).
Proof.
  intros Hcfg Hops.
  assert (Hb0 : (N.of_nat (length (closed_of None)) <= u32_max)%N) by (cbn; lia).
  destruct (one_run_size c1 m1 (sys0 t0 off) None ops1 Hcfg Hb0 Hops (idle0 c1 t0 off)) as [v1 [Id1 [F1 _]]].
  exists v1. split; [exact Id1|]. rewrite F1. unfold files_after. cbn [files_of app]. destruct (c_append c1); reflexivity.
Qed.

Lemma files_of_some_inv v cl cu : files_of v = cl ++ [cu] -> v = Some (cl, cu).
Proof.
  destruct v as [[cl' cu']|]; cbn [files_of]; intros E; [|destruct cl; discriminate].
  apply app_inj_tail in E. destruct E as [-> ->]. reflexivity.
Qed.

(* 1. Two runs, the second one appending: the content found in rCURRENT counts from the first write on. *)
Theorem numbers_append_partition c1 c2 m1 m2 t0 off ops1 ops2 closed1 cur1 :
  numcfg c1 (CSize m1) -> numcfg c2 (CSize m2) -> c_spec c1 = c_spec c2 -> c_append c2 = true ->
  Forall basic_op ops1 -> Forall basic_op ops2 ->
  expected_files m1 None (items false ops1) = closed1 ++ [cur1] -> (N.of_nat (length closed1) <= u32_max)%N ->
  reads c2 (wfs (s_w (fst (run (sys0 t0 off) (OStart c1 :: ops1 ++ [OStop] ++ OStart c2 :: ops2 ++ [OStop])))))
        (closed1 ++ expected_files m2 (Some cur1) (items false ops2)).
Proof.
  intros Hcfg1 Hcfg2 Esp Happ Hops1 Hops2 E1 Hb.
  destruct (first_run_idle c1 m1 t0 off ops1 Hcfg1 Hops1) as [v1 [Id1 F1]].
  rewrite E1 in F1. apply files_of_some_inv in F1. subst v1.
  rewrite two_runs_split, run_app. destruct (run (sys0 t0 off) (OStart c1 :: ops1 ++ [OStop])) as [x1 obs1]. cbn [fst] in Id1.
  destruct (one_run_size c2 m2 x1 (Some (closed1, cur1)) ops2 Hcfg2 Hb Hops2 (idle_spec c1 c2 x1 _ Esp Id1)) as [v2 [Id2 [F2 _]]].
  destruct (run x1 (OStart c2 :: ops2 ++ [OStop])) as [x2 obs2]. cbn [fst] in *.
  destruct (idle_reads (c_spec c2) c2 x2 v2 eq_refl Id2) as [R _].
  unfold files_after in F2. rewrite Happ in F2. cbn [files_of] in F2.
  destruct (closed1 ++ [cur1]) eqn:E0; [destruct closed1; discriminate|]. rewrite <- E0 in F2.
  rewrite removelast_last, last_last in F2. rewrite <- F2. apply R. reflexivity.
Qed.
Print Assumptions numbers_append_partition.

(* the rotation flags of the appending run.  The operations before the first write of the run do not count
   (from_first_write): the writer opens rCURRENT at its first write, a trigger before that does nothing. *)
Theorem numbers_append_rotates_iff c1 c2 m1 m2 t0 off ops1 ops2 closed1 cur1 i o b :
  numcfg c1 (CSize m1) -> numcfg c2 (CSize m2) -> c_spec c1 = c_spec c2 -> c_append c2 = true ->
  Forall basic_op ops1 -> Forall basic_op ops2 ->
  expected_files m1 None (items false ops1) = closed1 ++ [cur1] -> (N.of_nat (length closed1) <= u32_max)%N ->
  nth_error ops2 i = Some o -> (o = OWrite b \/ o = OPlain b) ->
  nth_error (snd (run (fst (run (sys0 t0 off) (OStart c1 :: ops1 ++ [OStop]))) (OStart c2 :: ops2))) (S i)
  = Some (ObsRes 0 (m2 <? N.of_nat (length (cur_of (s_run m2 (Some ([], cur1)) (from_first_write (firstn i ops2))))))%N).
Proof.
  intros Hcfg1 Hcfg2 Esp Happ Hops1 Hops2 E1 Hb Hi Hw.
  destruct (first_run_idle c1 m1 t0 off ops1 Hcfg1 Hops1) as [v1 [Id1 F1]].
  rewrite E1 in F1. apply files_of_some_inv in F1. subst v1.
  rewrite (one_run_flags c2 m2 _ (Some (closed1, cur1)) ops2 i o b Hcfg2 Hb Hops2 (idle_spec c1 c2 _ _ Esp Id1) Hi Hw).
  unfold start_of. rewrite Happ. cbn [files_of].
  destruct (closed1 ++ [cur1]) eqn:E0; [destruct closed1; discriminate|]. rewrite <- E0, last_last. reflexivity.
Qed.
Print Assumptions numbers_append_rotates_iff.

(* 2. Two runs, the second one NOT appending: whatever the first run left (also nothing) stays; rCURRENT of run 1 is
   closed under the next number when run 2 writes for the first time; the files of run 2 are those of a fresh start. *)
Theorem numbers_noappend_partition c1 c2 m1 m2 t0 off ops1 ops2 :
  numcfg c1 (CSize m1) -> numcfg c2 (CSize m2) -> c_spec c1 = c_spec c2 -> c_append c2 = false ->
  Forall basic_op ops1 -> Forall basic_op ops2 ->
  (N.of_nat (length (expected_files m1 None (items false ops1))) <= u32_max)%N ->
  reads c2 (wfs (s_w (fst (run (sys0 t0 off) (OStart c1 :: ops1 ++ [OStop] ++ OStart c2 :: ops2 ++ [OStop])))))
        (expected_files m1 None (items false ops1) ++ expected_files m2 None (items false ops2)).
Proof.
  intros Hcfg1 Hcfg2 Esp Happ Hops1 Hops2 Hb.
  destruct (first_run_idle c1 m1 t0 off ops1 Hcfg1 Hops1) as [v1 [Id1 F1]].
  rewrite two_runs_split, run_app. destruct (run (sys0 t0 off) (OStart c1 :: ops1 ++ [OStop])) as [x1 obs1]. cbn [fst] in Id1.
  assert (Hb1 : (N.of_nat (length (closed_of v1)) <= u32_max)%N).
  { rewrite <- F1 in Hb. destruct v1 as [[cl cu]|]; cbn [closed_of files_of length] in *; [|lia].
    rewrite app_length in Hb. lia. }
  destruct (one_run_size c2 m2 x1 v1 ops2 Hcfg2 Hb1 Hops2 (idle_spec c1 c2 x1 _ Esp Id1)) as [v2 [Id2 [F2 _]]].
  destruct (run x1 (OStart c2 :: ops2 ++ [OStop])) as [x2 obs2]. cbn [fst] in *.
  destruct (idle_reads (c_spec c2) c2 x2 v2 eq_refl Id2) as [R _].
  unfold files_after in F2. rewrite Happ, F1 in F2. rewrite <- F2. apply R. reflexivity.
Qed.
Print Assumptions numbers_noappend_partition.

(* ... and its flags are those of a fresh start: nothing found counts *)
Theorem numbers_noappend_rotates_iff c1 c2 m1 m2 t0 off ops1 ops2 i o b :
  numcfg c1 (CSize m1) -> numcfg c2 (CSize m2) -> c_spec c1 = c_spec c2 -> c_append c2 = false ->
  Forall basic_op ops1 -> Forall basic_op ops2 ->
  (N.of_nat (length (expected_files m1 None (items false ops1))) <= u32_max)%N ->
  nth_error ops2 i = Some o -> (o = OWrite b \/ o = OPlain b) ->
  nth_error (snd (run (fst (run (sys0 t0 off) (OStart c1 :: ops1 ++ [OStop]))) (OStart c2 :: ops2))) (S i)
  = Some (ObsRes 0 (m2 <? N.of_nat (length (cur_of (s_run m2 None (firstn i ops2)))))%N).
Proof.
  intros Hcfg1 Hcfg2 Esp Happ Hops1 Hops2 Hb Hi Hw.
  destruct (first_run_idle c1 m1 t0 off ops1 Hcfg1 Hops1) as [v1 [Id1 F1]].
  assert (Hb1 : (N.of_nat (length (closed_of v1)) <= u32_max)%N).
  { rewrite <- F1 in Hb. destruct v1 as [[cl cu]|]; cbn [closed_of files_of length] in *; [|lia].
    rewrite app_length in Hb. lia. }
  rewrite (one_run_flags c2 m2 _ v1 ops2 i o b Hcfg2 Hb1 Hops2 (idle_spec c1 c2 _ _ Esp Id1) Hi Hw).
  unfold start_of. rewrite Happ. reflexivity.
Qed.
Print Assumptions numbers_noappend_rotates_iff.

(* ================================================================== examples (non-vacuity) and findings *)
Open Scope string_scope.
Definition ap_c1 : config := ex_cfg (ex_sp "log") false (CSize 3) None.
Definition ap_c2 : config := ex_cfg (ex_sp "log") true (CSize 5) (Some 3%nat).       (* appending, buffered *)
Definition ap_c2n : config := ex_cfg (ex_sp "log") false (CSize 5) (Some 3%nat).     (* not appending *)
Definition ap_ops1 : list op := [OWrite (bs "abcd"); OWrite (bs "ef"); OTrigger; OWrite (bs "ghij")].
Definition ap_ops2 : list op := [OFlush; OWrite (bs "kl"); OTick 7; OWrite (bs "mn"); OPlain (bs "op")].

Lemma ap_cfg_ok sp app m cap : fts sp = false -> numcfg (ex_cfg sp app (CSize m) cap) (CSize m).
Proof. intros H. repeat split. exact H. Qed.
Lemma ap_ops1_basic : Forall basic_op ap_ops1. Proof. repeat constructor. Qed.
Lemma ap_ops2_basic : Forall basic_op ap_ops2. Proof. repeat constructor. Qed.

(* run 1 leaves abcd | ef | ghij (rCURRENT = ghij, 4 bytes); run 2 (limit 5, append): "kl" is appended to the 4 bytes
   found (no rotation: 4 <= 5), "mn" rotates because the 4 bytes found count (6 > 5); a fresh start would not rotate
   here (2 <= 5) *)
Example append_partition_instance :
  expected_files 3 None (items false ap_ops1) = [bs "abcd"; bs "ef"] ++ [bs "ghij"]
  /\ expected_files 5 (Some (bs "ghij")) (items false ap_ops2) = [bs "ghijkl"; bs "mnop"]
  /\ expected_files 5 None (items false ap_ops2) = [bs "klmnop"]
  /\ reads ap_c2 (wfs (s_w (fst (run (sys0 0 0) (OStart ap_c1 :: ap_ops1 ++ [OStop] ++ OStart ap_c2 :: ap_ops2 ++ [OStop])))))
           ([bs "abcd"; bs "ef"] ++ [bs "ghijkl"; bs "mnop"]).
Proof.
  split; [vm_compute; reflexivity|]. split; [vm_compute; reflexivity|]. split; [vm_compute; reflexivity|].
  change [bs "ghijkl"; bs "mnop"] with (expected_files 5 (Some (bs "ghij")) (items false ap_ops2)).
  apply (numbers_append_partition ap_c1 ap_c2 3 5 0 0 ap_ops1 ap_ops2 [bs "abcd"; bs "ef"] (bs "ghij")).
  - apply ap_cfg_ok. reflexivity.
  - apply ap_cfg_ok. reflexivity.
  - reflexivity.
  - reflexivity.
  - exact ap_ops1_basic.
  - exact ap_ops2_basic.
  - vm_compute. reflexivity.
  - vm_compute. discriminate.
Qed.

Example append_partition_dir :
  snap_of (fst (run (sys0 0 0) (OStart ap_c1 :: ap_ops1 ++ [OStop] ++ OStart ap_c2 :: ap_ops2 ++ [OStop])))
  = [ (bs "app_r00000.log", 0%N, bs "abcd"); (bs "app_r00001.log", 0%N, bs "ef"); (bs "app_r00002.log", 0%N, bs "ghijkl");
      (bs "app_rCURRENT.log", 0%N, bs "mnop") ].
Proof. vm_compute. reflexivity. Qed.

(* the flags of run 2 as observed, and as the theorem computes them (operation 3 of run 2 is OWrite "mn") *)
Example append_rotates_instance :
  List.map rot_of (snd (run (fst (run (sys0 0 0) (OStart ap_c1 :: ap_ops1 ++ [OStop]))) (OStart ap_c2 :: ap_ops2)))
  = [false; false; false; false; true; false]
  /\ (5 <? N.of_nat (length (cur_of (s_run 5 (Some ([], bs "ghij")) (from_first_write (firstn 3 ap_ops2))))))%N = true
  /\ (5 <? N.of_nat (length (cur_of (s_run 5 None (firstn 3 ap_ops2)))))%N = false.
Proof. vm_compute. repeat split. Qed.

(* FINDING: the statement with the plain s_run (without from_first_write) is false.  A trigger (rotate()) issued on the
   appending writer before its first write does nothing - the writer has not opened rCURRENT yet -, so the content
   found still counts at the first write; s_run started on (Some cur1) would let the trigger close cur1 and predict
   "no rotation".  Limit 3, content found "ghij" (4 bytes): the first write rotates. *)
Definition ap_c2t : config := ex_cfg (ex_sp "log") true (CSize 3) (Some 3%nat).
Definition ap_ops2t : list op := [OTrigger; OWrite (bs "kl")].
Example append_trigger_before_first_write :
  nth_error (snd (run (fst (run (sys0 0 0) (OStart ap_c1 :: ap_ops1 ++ [OStop]))) (OStart ap_c2t :: ap_ops2t))) 2
  = Some (ObsRes 0 true)
  /\ (3 <? N.of_nat (length (cur_of (s_run 3 (Some ([], bs "ghij")) (firstn 1 ap_ops2t)))))%N = false
  /\ (3 <? N.of_nat (length (cur_of (s_run 3 (Some ([], bs "ghij")) (from_first_write (firstn 1 ap_ops2t))))))%N = true
  /\ snap_of (fst (run (sys0 0 0) (OStart ap_c1 :: ap_ops1 ++ [OStop] ++ OStart ap_c2t :: ap_ops2t ++ [OStop])))
     = [ (bs "app_r00000.log", 0%N, bs "abcd"); (bs "app_r00001.log", 0%N, bs "ef"); (bs "app_r00002.log", 0%N, bs "ghij");
         (bs "app_rCURRENT.log", 0%N, bs "kl") ]
  /\ expected_files 3 (Some (bs "ghij")) (items false ap_ops2t) = [bs "ghij"; bs "kl"].
Proof. vm_compute. repeat split. Qed.

(* without append: rCURRENT of run 1 is closed as r00002 and run 2 partitions as from a fresh start *)
Example noappend_partition_instance :
  reads ap_c2n (wfs (s_w (fst (run (sys0 0 0) (OStart ap_c1 :: ap_ops1 ++ [OStop] ++ OStart ap_c2n :: ap_ops2 ++ [OStop])))))
        ([bs "abcd"; bs "ef"; bs "ghij"] ++ [bs "klmnop"]).
Proof.
  change [bs "abcd"; bs "ef"; bs "ghij"] with (expected_files 3 None (items false ap_ops1)).
  change [bs "klmnop"] with (expected_files 5 None (items false ap_ops2)).
  apply (numbers_noappend_partition ap_c1 ap_c2n 3 5 0 0 ap_ops1 ap_ops2).
  - apply ap_cfg_ok. reflexivity.
  - apply ap_cfg_ok. reflexivity.
  - reflexivity.
  - reflexivity.
  - exact ap_ops1_basic.
  - exact ap_ops2_basic.
  - vm_compute. discriminate.
Qed.

Example noappend_partition_dir :
  snap_of (fst (run (sys0 0 0) (OStart ap_c1 :: ap_ops1 ++ [OStop] ++ OStart ap_c2n :: ap_ops2 ++ [OStop])))
  = [ (bs "app_r00000.log", 0%N, bs "abcd"); (bs "app_r00001.log", 0%N, bs "ef"); (bs "app_r00002.log", 0%N, bs "ghij");
      (bs "app_rCURRENT.log", 0%N, bs "klmnop") ]
  /\ List.map rot_of (snd (run (fst (run (sys0 0 0) (OStart ap_c1 :: ap_ops1 ++ [OStop]))) (OStart ap_c2n :: ap_ops2)))
     = [false; false; false; false; false; false].
Proof. vm_compute. split; reflexivity. Qed.

(* WHEN is rCURRENT of the earlier run closed by a run that does not append?  Not when the writer is built, and not by
   flush or rotate(): a run without a write leaves the directory exactly as it found it (first conjunct: rCURRENT still
   holds "ghij"); it is closed at the first write (second conjunct). *)
Example noappend_rotates_at_first_write :
  snap_of (fst (run (sys0 0 0) (OStart ap_c1 :: ap_ops1 ++ [OStop] ++ OStart ap_c2n :: [OFlush; OTrigger; OTick 1] ++ [OStop])))
  = [ (bs "app_r00000.log", 0%N, bs "abcd"); (bs "app_r00001.log", 0%N, bs "ef"); (bs "app_rCURRENT.log", 0%N, bs "ghij") ]
  /\ snap_of (fst (run (sys0 0 0) (OStart ap_c1 :: ap_ops1 ++ [OStop] ++ OStart ap_c2n :: [OFlush; OTrigger; OTick 1; OWrite (bs "k")] ++ [OStop])))
  = [ (bs "app_r00000.log", 0%N, bs "abcd"); (bs "app_r00001.log", 0%N, bs "ef"); (bs "app_r00002.log", 0%N, bs "ghij");
      (bs "app_rCURRENT.log", 0%N, bs "k") ]
  /\ expected_files 5 None (items false [OFlush; OTrigger; OTick 1]) = [].
Proof. vm_compute. repeat split. Qed.

(* four runs: fresh / append / no write at all / no append *)
Definition ap_rs : list (config * list op) :=
  [ (ap_c1, ap_ops1); (ap_c2, ap_ops2); (ap_c2n, [OTrigger; OFlush]); (ex_cfg (ex_sp "log") false (CSize 1) None, [OPlain (bs "qr"); OWrite (bs "s")]) ].

Example runs_partition_instance :
  runs_files [] ap_rs = [bs "abcd"; bs "ef"; bs "ghijkl"; bs "mnop"; bs "qr"; bs "s"]
  /\ forall c, c_spec c = ex_sp "log" ->
       reads c (wfs (s_w (fst (run (sys0 0 0) (runs_ops ap_rs))))) [bs "abcd"; bs "ef"; bs "ghijkl"; bs "mnop"; bs "qr"; bs "s"].
Proof.
  split; [vm_compute; reflexivity|].
  change [bs "abcd"; bs "ef"; bs "ghijkl"; bs "mnop"; bs "qr"; bs "s"] with (runs_files [] ap_rs).
  apply (numbers_runs_partition (ex_sp "log") 0 0 ap_rs).
  - vm_compute. discriminate.
  - unfold ap_rs. repeat (apply Forall_cons; [split; [reflexivity|]; split; [eexists; apply ap_cfg_ok; reflexivity|]; repeat constructor|]).
    apply Forall_nil.
Qed.

Example runs_partition_dir :
  snap_of (fst (run (sys0 0 0) (runs_ops ap_rs)))
  = [ (bs "app_r00000.log", 0%N, bs "abcd"); (bs "app_r00001.log", 0%N, bs "ef"); (bs "app_r00002.log", 0%N, bs "ghijkl");
      (bs "app_r00003.log", 0%N, bs "mnop"); (bs "app_r00004.log", 0%N, bs "qr"); (bs "app_rCURRENT.log", 0%N, bs "s") ].
Proof. vm_compute. reflexivity. Qed.

(* ================================================================== any start state *)
(* The same for ANY directory a writer may find (Idle: no writer, the directory reads files_of v - closed files of any
   number and content, rCURRENT of any size - or is empty), not only one produced by a particular earlier run. *)
Theorem numbers_partition_any_start c m x v ops :
  numcfg c (CSize m) -> (N.of_nat (length (closed_of v)) <= u32_max)%N -> Forall basic_op ops -> Idle c x v ->
  reads c (wfs (s_w (fst (run x (OStart c :: ops ++ [OStop]))))) (files_after (files_of v) (c_append c) m ops).
Proof.
  intros Hcfg Hb Hops Id. destruct (one_run_size c m x v ops Hcfg Hb Hops Id) as [v' [Id' [F _]]].
  destruct (idle_reads (c_spec c) c _ v' eq_refl Id') as [R _]. rewrite <- F. apply R. reflexivity.
Qed.
Print Assumptions numbers_partition_any_start.

Theorem numbers_rotates_iff_any_start c m x v ops i o b :
  numcfg c (CSize m) -> (N.of_nat (length (closed_of v)) <= u32_max)%N -> Forall basic_op ops -> Idle c x v ->
  nth_error ops i = Some o -> (o = OWrite b \/ o = OPlain b) ->
  nth_error (snd (run x (OStart c :: ops))) (S i)
  = Some (ObsRes 0 (m <? N.of_nat (length (cur_before m (start_of (files_of v) (c_append c)) (firstn i ops))))%N).
Proof. exact (one_run_flags c m x v ops i o b). Qed.
Print Assumptions numbers_rotates_iff_any_start.

(* non-vacuity: the state after run 1 of the examples is such a start state *)
Example any_start_instance :
  exists v, Idle ap_c2 (fst (run (sys0 0 0) (OStart ap_c1 :: ap_ops1 ++ [OStop]))) v
            /\ files_of v = [bs "abcd"; bs "ef"; bs "ghij"]
            /\ files_after (files_of v) (c_append ap_c2) 5 ap_ops2 = [bs "abcd"; bs "ef"; bs "ghijkl"; bs "mnop"].
Proof.
  destruct (first_run_idle ap_c1 3 0 0 ap_ops1 (ap_cfg_ok (ex_sp "log") false 3 None eq_refl) ap_ops1_basic) as [v [Id F]].
  exists v. split; [apply (idle_spec ap_c1 ap_c2); [reflexivity | exact Id]|].
  rewrite F. split; vm_compute; reflexivity.
Qed.
