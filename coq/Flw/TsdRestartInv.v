(* TimestampsDirect naming (r<time stamp>[.restart-NNNN], no rCURRENT) over several runs, part 1: what a NEW writer makes of a
   directory that earlier writers left behind (initialize).
   - without append: the time stamp is the present second, made collision-free: the next free restart counter of this
     second (a restart in the same second as the last file included); the file is created, nothing else changes;
   - with append: the directory is listed, the first 20 bytes of every listed infix are parsed as a time stamp, the NEWEST one is
     taken - it may be older than the present second -, and the newest file with that time stamp (the predecessor of the next
     free infix) is continued under its old name.
   The time stamp read back from a file name is interpreted the way the infix was written: as UTC when use_utc is set, as
   local time otherwise (ts_from_infix; before the repair it was always read as local time, and with append, use_utc and a
   zone offset <> 0 the writer did not find its newest file). *)
Require Import FL.Base.Bytes FL.Base.BytesFacts FL.Base.PathName FL.Fs.Fs FL.Fs.FsFacts FL.Time.Civil FL.Time.TsFormat
  FL.Names.FileSpec FL.Names.NamesFacts FL.Names.SortFacts FL.Names.FamilyFacts FL.Flw.Model FL.Flw.ModelFacts FL.Flw.NumFs
  FL.Flw.NumInv FL.Flw.Run FL.Flw.RunFacts FL.Flw.NumRun FL.Flw.NumListing FL.Flw.NumRestart FL.Flw.NumDInv
  FL.Flw.TsCal FL.Flw.TsTime FL.Flw.TsNames FL.Flw.TsInv FL.Flw.TsRun FL.Flw.TsParse FL.Flw.TsdInv FL.Flw.TsdRun.
From Coq Require Import ZifyN ZifyNat ZifyBool.
Open Scope nat_scope.

(* ------------------------------------------------------------------ where the infix starts *)
(* ts_infix_from_path finds the position of the infix by looking for "rXXXXX" in the name built with this infix.  This is
   the right position when the fixed name part does not contain "rXXXXX" itself (probe_free_ok) *)
Definition probe : bytes := [114; 88; 88; 88; 88; 88]%N.
Definition probe_ok (c : config) : Prop := find_sub probe (nm c probe) = Some (length (under (fixed0 c))).

Lemma find_sub_here p r : find_sub p (p ++ r) = Some 0.
Proof.
  assert (E : is_prefix p (p ++ r) = true) by apply sk_is_prefix_app.
  destruct (p ++ r) as [|y s]; cbn [find_sub]; rewrite E; reflexivity.
Qed.

Lemma probe_free_ok c : contains probe (fixed0 c) = false -> probe_ok c.
Proof.
  intros Hc. unfold probe_ok, nm. rewrite sk_as_name_some by discriminate.
  rewrite with_suffix_sfxs, <- app_assoc.
  rewrite find_sub_app_skip; [rewrite find_sub_here, Nat.add_0_r; reflexivity|].
  intros a b EU Hb.
  destruct (is_prefix probe (b ++ probe ++ sfxs (c_spec c))) eqn:E; [exfalso | reflexivity].
  apply is_prefix_iff in E. destruct E as [rest E].
  assert (EU' : exists b', b = b' ++ [uscore] /\ fixed0 c = a ++ b').
  { destruct (exists_last Hb) as [b' [z ->]]. unfold under in EU. destruct (fixed0 c) as [|f0 fr].
    - cbn [app] in EU. symmetry in EU. apply app_eq_nil in EU. destruct EU as [_ EU]. apply app_eq_nil in EU. destruct EU as [_ EU]. discriminate EU.
    - rewrite app_assoc in EU. apply app_inj_tail in EU. destruct EU as [EF <-]. exists b'. split; [reflexivity | exact EF]. }
  destruct EU' as [b' [-> EF]]. rewrite <- app_assoc in E. unfold probe, uscore in E.
  destruct b' as [|x0 [|x1 [|x2 [|x3 [|x4 [|x5 b'']]]]]]; cbn [app] in E; try (injection E; intros; discriminate).
  injection E as -> -> -> -> -> -> _.
  rewrite EF in Hc. change (contains probe (a ++ probe ++ b'') = false) in Hc. rewrite contains_intro in Hc. discriminate.
Qed.

Lemma ts_infix_kname c e k : probe_ok c -> in_years e (fst k) ->
  ts_infix_from_name (c_spec c) (fixed0 c) (kname c e k) = Some (tsx e (fst k)).
Proof.
  intros P Y. unfold ts_infix_from_name.
  change (as_name (c_spec c) (fixed0 c) (Some [114; 88; 88; 88; 88; 88]%N)) with (nm c probe).
  change [114; 88; 88; 88; 88; 88]%N with probe. rewrite P. rewrite kname_shape by exact Y.
  assert (L : Nat.leb (length (under (fixed0 c)) + 20)
                (length (under (fixed0 c) ++ tsx e (fst k) ++ ktail (snd k) ++ sfxs (c_spec c))) = true).
  { apply Nat.leb_le. rewrite !app_length, tsx_length by exact Y. lia. }
  rewrite L. f_equal. rewrite skipn_length_app. rewrite <- (tsx_length e (fst k) Y). apply firstn_length_app.
Qed.

(* ------------------------------------------------------------------ small facts about the list functions of the model *)
Lemma map_opt_some {A B} (g : A -> option B) (h : A -> B) l :
  (forall x, In x l -> g x = Some (h x)) -> map_opt g l = Some (List.map h l).
Proof.
  induction l as [|x l IH]; intros H; cbn [map_opt List.map]; [reflexivity|].
  rewrite (H x (or_introl eq_refl)), IH by (intros y Iy; apply H; right; exact Iy). reflexivity.
Qed.

Lemma max_z_spec l : match max_z l with
                     | None => l = []
                     | Some m => In m l /\ forall v, In v l -> (v <= m)%Z
                     end.
Proof.
  induction l as [|x l IH]; cbn [max_z]; [reflexivity|].
  destruct (max_z l) as [m|].
  - destruct IH as [Im Hm]. split.
    + cbn [In]. destruct (Z.max_spec x m) as [[_ ->]|[_ ->]]; auto.
    + intros v [<-|Hv]; [lia|]. specialize (Hm v Hv). lia.
  - subst l. split; [left; reflexivity|]. intros v [<-|[]]. lia.
Qed.

Lemma filter_some_in {A} (l : list (option A)) y : In y (filter_some l) <-> In (Some y) l.
Proof.
  induction l as [|[x|] l IH]; cbn [filter_some In].
  - tauto.
  - rewrite IH. split; [intros [->|H]; auto | intros [H|H]; [injection H as ->; auto | auto]].
  - rewrite IH. split; [auto | intros [H|H]; [discriminate | exact H]].
Qed.

(* ------------------------------------------------------------------ the listing of latest_timestamp_file *)
(* (the listing filters with the time-stamp parser, as the other listings of the time-stamp namings do; before the repair
   of the code it was the - then lax - number filter: qf_num_kname) *)
Lemma qf_ts_kname off c e k : in_years e (fst k) ->
  qf off (fsfx (c_spec c)) (fixed0 c) (IFTs std_fmt) (fsfx (c_spec c)) (kname c e k) = true.
Proof.
  intros Y. unfold qf. rewrite (family_is_candidate (c_spec c) (fixed0 c) (kname c e k) (tsx e (fst k))).
  - cbn [filter_infix]. rewrite (canonical_tsx e _ Y). reflexivity.
  - apply family_plain_alt. exists (ktail (snd k)). split; [apply ktail_restart_part|].
    split; [apply tsx_nonempty; exact Y|]. split; [exact (tsx_no_dot e _ Y)|].
    rewrite kname_shape by exact Y. fold (sfxs (c_spec c)). rewrite <- !app_assoc. reflexivity.
Qed.

Lemma ts_from_infix_tsx c w e t : in_years e t -> eoff c w = e -> ts_from_infix c w std_fmt (tsx e t) = Some t.
Proof. intros Y E. unfold ts_from_infix. rewrite (parse_tsx e t Y). unfold eoff in E. destruct (c_utc c); f_equal; lia. Qed.

(* the last key carries the latest second, and it is the newest file of that second *)
Lemma keys_last_max keys n : keys_ok keys -> length keys = S n -> forall k, In k keys -> (fst k <= fst (nth n keys kd))%Z.
Proof.
  intros K L k Ik. destruct (In_nth keys k kd Ik) as [i [Hi <-]].
  destruct (Nat.eq_dec i n) as [->|Hne]; [lia|].
  pose proof (keys_sorted keys K i n ltac:(lia)) as X. unfold klt in X. lia.
Qed.

Lemma keys_last_count keys n : keys_ok keys -> length keys = S n ->
  count (fst (nth n keys kd)) keys = S (snd (nth n keys kd)).
Proof.
  intros K L. inversion K as [E|l t Hl Hle E]; [rewrite <- E in L; discriminate L|].
  rewrite <- E in L. rewrite app_length in L. cbn [length] in L.
  rewrite nth_snoc_last by lia. cbn [fst snd]. rewrite count_app, count_one. cbn [fst]. rewrite Z.eqb_refl. lia.
Qed.

Lemma latest_ts_tsd c crit e lo hi w wr keys closed :
  tsdcfg c crit -> probe_ok c -> years_ok e lo hi -> TsdInv c e lo w wr keys closed -> (wnow w <= hi)%Z ->
  latest_timestamp_file c w false std_fmt = (Ok (fst (nth (length closed) keys kd)), w).
Proof.
  intros [_ [Hts _]] P Y I Hhi.
  pose proof I as [Q W Hnd Hoff Hlen Hc Hcp Hcl Hon Hko Hrg Hwr Hcap].
  assert (Yk : forall k, In k keys -> in_years e (fst k)).
  { intros k Ik. apply (years_in e lo hi); [exact Y|]. specialize (Hrg k Ik). lia. }
  pose proof (tsdinv_dir _ _ _ _ _ _ _ I) as [Din Don].
  unfold latest_timestamp_file, with_listing. rewrite tick_quiet by assumption.
  rewrite (fixed_of_fixed0 c w Hts), filter_files_total.
  set (files := filter (qf (woff w) (fsfx (c_spec c)) (fixed0 c) (IFTs std_fmt) (fsfx (c_spec c)))
                       (related_files (wfs w) (fsfx (c_spec c)) (fixed0 c))).
  assert (A : forall x, In x files -> exists k, In k keys /\ x = kname c e k).
  { intros x Ix. apply filter_In in Ix. destruct Ix as [Ix _]. apply related_files_in in Ix. destruct Ix as [Id _].
    apply dir_names_lookup in Id. destruct Id as [j Lj]. destruct (Hon x j Lj) as [i [Hi ->]].
    exists (nth i keys kd). split; [apply nth_In; lia | reflexivity]. }
  assert (B : forall k, In k keys -> In (kname c e k) files).
  { intros k Ik. apply filter_In. split; [|apply qf_ts_kname; apply Yk; exact Ik].
    destruct (Din k Ik) as [j [Lj Pd]]. apply related_files_in. split; [apply dir_names_lookup; eauto|]. split.
    - unfold is_reg_file, file_of. rewrite Lj, Pd. reflexivity.
    - rewrite kname_shape by (apply Yk; exact Ik). apply is_prefix_under. }
  set (h := fun x => match ts_infix_from_name (c_spec c) (fixed0 c) x with Some i => i | None => [] end).
  rewrite (map_opt_some _ h).
  2:{ intros x Ix. destruct (A x Ix) as [k [Ik ->]]. unfold h. rewrite (ts_infix_kname c e k P (Yk k Ik)). reflexivity. }
  set (L := filter_some (List.map (ts_from_infix c w std_fmt) (List.map h files))).
  assert (HL : forall v, In v L <-> exists k, In k keys /\ v = fst k).
  { intros v. unfold L. rewrite filter_some_in, map_map, in_map_iff. split.
    - intros [x [Ex Ix]]. destruct (A x Ix) as [k [Ik ->]]. exists k. split; [exact Ik|].
      unfold h in Ex. rewrite (ts_infix_kname c e k P (Yk k Ik)), (ts_from_infix_tsx c w e _ (Yk k Ik) Hoff) in Ex. congruence.
    - intros [k [Ik ->]]. exists (kname c e k). split; [|apply B; exact Ik].
      unfold h. rewrite (ts_infix_kname c e k P (Yk k Ik)). apply ts_from_infix_tsx; [apply Yk; exact Ik | exact Hoff]. }
  pose proof (max_z_spec L) as M.
  assert (Il : In (nth (length closed) keys kd) keys) by (apply nth_In; lia).
  destruct (max_z L) as [m|].
  - destruct M as [Im Hm]. apply HL in Im. destruct Im as [k [Ik ->]].
    pose proof (keys_last_max keys (length closed) Hko Hlen k Ik) as X1.
    pose proof (Hm (fst (nth (length closed) keys kd)) (proj2 (HL _) (ex_intro _ _ (conj Il eq_refl)))) as X2.
    do 2 f_equal. lia.
  - exfalso. assert (X : In (fst (nth (length closed) keys kd)) L) by (apply HL; eauto). rewrite M in X. exact X.
Qed.

(* ------------------------------------------------------------------ the predecessor of the next free infix *)
Lemma newest_of_next_kname e t n : (N.of_nat n <= usize_max)%N ->
  newest_of_next (tsx e t) (infix_of e (t, S n)) = Some (infix_of e (t, n)).
Proof.
  intros Hn. unfold newest_of_next, infix_of. cbn [fst snd]. unfold restart_infix.
  rewrite app_assoc, strip_prefix_app.
  change (pad_left 4 48 (dec (N.of_nat n))) with (restart_digits (N.of_nat n)).
  rewrite parse_uint_digits by (apply restart_digits_nonempty || apply restart_digits_all).
  assert (V : dec_value (restart_digits (N.of_nat n)) = N.of_nat n).
  { unfold restart_digits, pad_left. rewrite dec_value_zeros. apply dec_value_dec. }
  rewrite V. destruct (N.leb_spec (N.of_nat n) usize_max) as [_|X]; [|lia].
  destruct n as [|n']; [reflexivity|].
  destruct (N.of_nat (S n')) as [|p] eqn:E; [lia|].
  replace (N.pos p - 1)%N with (N.of_nat n') by lia. reflexivity.
Qed.

(* ------------------------------------------------------------------ a new file on the level of the invariant *)
(* the file for the key (present second, number of files of this second) is created, the old writer flushes into its own
   inode (the step of mount_next_rotates_tsd, here for any world w3 that differs from w by this effect) *)
Lemma rotate_tsdinv c e lo hi w wr keys closed :
  TsdInv c e lo w wr keys closed -> years_ok e lo hi -> (wnow w <= hi)%Z ->
  let knew := (wnow w, count (wnow w) keys) in
  lookup (wfs w) (kname c e knew) = None /\
  forall w3, quiet w3 -> eoff c w3 = e -> wnow w3 = wnow w ->
    wfs w3 = append_ino (fst (create_file (wfs w) (kname c e knew) 0%N (wnow w))) (wino wr) (wpend wr) ->
    TsdInv c e lo w3 {| wino := snd (create_file (wfs w) (kname c e knew) 0%N (wnow w)); wpend := []; wcap := c_cap c |}
           (keys ++ [knew]) (closed ++ [cur_view w wr])
    /\ cur_view w3 {| wino := snd (create_file (wfs w) (kname c e knew) 0%N (wnow w)); wpend := []; wcap := c_cap c |} = [].
Proof.
  intros I Y Hhi knew.
  pose proof I as [Q W Hnd Hoff Hlen Hc Hcp Hcl Hon Hko Hrg Hwr Hcap].
  pose proof (tsdinv_now _ _ _ _ _ _ _ I) as Hlo.
  assert (Yk : forall k, In k keys -> in_years e (fst k)).
  { intros k Ik. apply (years_in e lo hi); [exact Y|]. specialize (Hrg k Ik). lia. }
  assert (Ynow : in_years e (wnow w)) by (apply (years_in e lo hi); [exact Y | lia]).
  set (kold := nth (length closed) keys kd) in *.
  assert (Hnk : ~ In knew keys).
  { intros Ik. apply (keys_count keys Hko) in Ik. lia. }
  assert (Ht : lookup (wfs w) (kname c e knew) = None).
  { destruct (lookup (wfs w) (kname c e knew)) as [j|] eqn:E; [|reflexivity].
    destruct (Hon _ _ E) as [i [Hi E1]].
    apply kname_inj in E1; [|exact Ynow | apply Yk, nth_In; lia].
    exfalso. apply Hnk. rewrite E1. apply nth_In. lia. }
  split; [exact Ht|]. intros w3 Q3 Hoff3 Hnow3 F3.
  pose proof (wf_bound _ W _ _ Hc) as Hold.
  pose proof (direct_fs_spec (wfs w) (kname c e knew) (wino wr) (wpend wr) (wnow w) W Hold Ht) as R.
  cbn zeta in R. destruct R as [W3 [Hnew [L3t [L3o [Inew [Iold Ioth]]]]]].
  set (new := snd (create_file (wfs w) (kname c e knew) 0%N (wnow w))) in *.
  set (f3 := append_ino (fst (create_file (wfs w) (kname c e knew) 0%N (wnow w))) (wino wr) (wpend wr)) in *.
  set (wr' := {| wino := new; wpend := []; wcap := c_cap c |}).
  assert (Elen : length (closed ++ [cur_view w wr]) = S (length closed)) by (rewrite app_length; cbn [length]; lia).
  assert (Hneq : forall i, i <= length closed -> kname c e (nth i keys kd) <> kname c e knew).
  { intros i Hi E. apply kname_inj in E; [|apply Yk, nth_In; lia | exact Ynow]. apply Hnk. rewrite <- E. apply nth_In. lia. }
  split.
  { constructor.
    - exact Q3.
    - rewrite F3. exact W3.
    - rewrite F3. unfold f3. change (dir_names (append_ino ?g _ _)) with (dir_names g).
      apply create_nodup; [exact Hnd | exact Ht].
    - exact Hoff3.
    - rewrite !app_length, Hlen. cbn [length]. lia.
    - rewrite Elen. rewrite nth_snoc_last by exact Hlen. rewrite F3. exact L3t.
    - rewrite F3. cbn [wr' wino]. rewrite Inew. split; reflexivity.
    - intros i Hi. rewrite Elen in Hi. rewrite F3. rewrite (app_nth1 keys _ kd) by lia.
      destruct (Nat.eq_dec i (length closed)) as [->|Hne].
      + exists (wino wr). fold kold. rewrite L3o by (apply Hneq; lia). split; [exact Hc|]. split.
        * rewrite Iold. exact Hcp.
        * split; [|cbn [wr' wino]; rewrite Hnew; lia].
          unfold content at 1. rewrite Iold. cbn [with_data fdata]. rewrite app_nth2, Nat.sub_diag by lia. reflexivity.
      + assert (Hi' : i < length closed) by lia. destruct (Hcl i Hi') as [j [Lj [Pj [Cj Hj2]]]].
        exists j. rewrite L3o by (apply Hneq; lia). split; [exact Lj|].
        assert (Hj1 : j <> new). { pose proof (wf_bound _ W _ _ Lj). rewrite Hnew. lia. }
        unfold content. rewrite Ioth by assumption. split; [exact Pj|]. rewrite app_nth1 by assumption. split; [exact Cj | exact Hj1].
    - intros n j Hn. rewrite F3 in Hn. rewrite Elen.
      destruct (beq_spec n (kname c e knew)) as [->|Hn2].
      + exists (S (length closed)). split; [lia|]. rewrite nth_snoc_last by exact Hlen. reflexivity.
      + rewrite L3o in Hn by assumption. destruct (Hon _ _ Hn) as [i [Hi E]].
        exists i. split; [lia|]. rewrite (app_nth1 keys _ kd) by lia. exact E.
    - apply ko_snoc; [exact Hko|]. intros k Ik. specialize (Hrg k Ik). lia.
    - rewrite Hnow3. intros k Ik. apply in_app_or in Ik. destruct Ik as [Ik|[<-|[]]].
      + exact (Hrg k Ik).
      + unfold knew. cbn [fst]. lia.
    - unfold wr_ok, wr'. cbn. destruct (c_cap c); [lia | reflexivity].
    - reflexivity. }
  unfold cur_view. rewrite F3. cbn [wr' wino wpend]. unfold content. rewrite Inew. reflexivity.
Qed.

(* ------------------------------------------------------------------ the first write of a writer: a directory left behind *)
(* the hypothesis for a writer with append: the infix is found in the names *)
Definition append_ok (c : config) : Prop := c_append c = true -> probe_ok c.

Lemma initialize_view_tsd c crit e lo hi w wr keys closed :
  tsdcfg c crit -> tag_ok c -> years_ok e lo hi -> TsdInv c e lo w wr keys closed -> wpend wr = [] ->
  (wnow w <= hi)%Z -> (N.of_nat (length keys) <= usize_max)%N -> append_ok c ->
  exists w' wr' roll keys' closed',
    initialize c w = (Ok (Active (Some (mk_rs (NSTs (fst (nth (length closed') keys' kd)) None std_fmt) roll)) wr'
                                 (kname c e (nth (length closed') keys' kd))), w')
    /\ TsdInv c e lo w' wr' keys' closed' /\ same_env w w' /\ roll_size_ok roll (length (cur_view w' wr'))
    /\ (keys', closed', cur_view w' wr')
       = (if c_append c then (keys, closed, cur_view w wr)
          else (keys ++ [(wnow w, count (wnow w) keys)], closed ++ [cur_view w wr], [])).
Proof.
  intros Hcfg T Y I Hp Hhi Hmax Happ. pose proof Hcfg as [Hrot [Hts [Hlink _]]].
  pose proof I as [Q W Hnd Hoff Hlen Hc Hcp Hcl Hon Hko Hrg Hwr Hcap].
  pose proof (tsdinv_now _ _ _ _ _ _ _ I) as Hlo.
  assert (Yk : forall k, In k keys -> in_years e (fst k)).
  { intros k Ik. apply (years_in e lo hi); [exact Y|]. specialize (Hrg k Ik). lia. }
  unfold initialize. rewrite Hrot. unfold init_naming.
  destruct (c_append c) eqn:Ha; cbn [negb].
  - (* append: the newest file of the newest second is continued *)
    pose proof (Happ Ha) as P.
    set (kl := nth (length closed) keys kd) in *.
    assert (Ikl : In kl keys) by (apply nth_In; lia).
    rewrite (latest_ts_tsd c crit e lo hi w wr keys closed Hcfg P Y I Hhi). cbn [bind]. fold kl.
    unfold collision_free. rewrite !tick_quiet by assumption.
    rewrite (fixed_of_fixed0 c w Hts), infix_from_ts_tsx, Hoff.
    pose proof (keys_last_count keys (length closed) Hko Hlen) as Ecnt. fold kl in Ecnt.
    pose proof (count_le_length (fst kl) keys) as Hcl'.
    rewrite (collision_free_infix_ts c e (woff w) (wfs w) keys (fst kl) (count (fst kl) keys) T (Yk kl Ikl) Yk
               (tsdinv_dir _ _ _ _ _ _ _ I) (keys_count keys Hko (fst kl))) by lia.
    cbn [bind]. rewrite Ecnt, newest_of_next_kname by lia.
    rewrite (name_of_fixed c w) by assumption.
    assert (Ekl : (fst kl, snd kl) = kl) by (destruct kl; reflexivity). rewrite Ekl.
    change (as_name (c_spec c) (fixed0 c) (Some (infix_of e kl))) with (kname c e kl). rewrite Hc.
    cbn [bind]. unfold open_log_file. rewrite (name_of_fixed c w) by assumption.
    change (as_name (c_spec c) (fixed0 c) (Some (infix_of e kl))) with (kname c e kl).
    unfold do_symlink. rewrite Hlink, Ha.
    assert (Fo : file_of (wfs w) (kname c e kl) = Some (inode (wfs w) (wino wr))) by (unfold file_of; rewrite Hc; reflexivity).
    assert (D1 : match file_of (wfs w) (kname c e kl) with Some fl => fdir fl = false | None => True end).
    { rewrite Fo. apply Hcp. }
    destruct (p_open_quiet w (kname c e kl) true Q D1) as [w2 [Eop [F2 S2]]]. rewrite Eop.
    assert (Eopen : open_append (wfs w) (kname c e kl) (wnow w) = (wfs w, wino wr)) by (unfold open_append; rewrite Hc; reflexivity).
    rewrite Eopen in *. cbn [fst snd] in *. cbn [bind].
    assert (Fo2 : file_of (wfs w2) (kname c e kl) = Some (inode (wfs w) (wino wr))) by (rewrite F2; exact Fo).
    destruct (roll_new_append w2 crit (kname c e kl) _ (proj1 S2) Fo2) as [roll [Ern [Z _]]]. rewrite Ern. cbn [bind].
    assert (Ewr : {| wino := wino wr; wpend := []; wcap := c_cap c |} = wr).
    { destruct wr as [i p k]. cbn [wino wpend wcap] in *. subst. reflexivity. }
    rewrite Ewr.
    exists w2, wr, roll, keys, closed. fold kl. split; [reflexivity|].
    assert (I2 : TsdInv c e lo w2 wr keys closed).
    { destruct (tsdinv_append c e lo w w2 wr wr keys closed [] I) as [I2 _];
        [rewrite append_ino_nil_id; exact F2 | exact S2 | reflexivity | reflexivity | exact Hwr | exact I2]. }
    split; [exact I2|]. split; [exact S2|].
    assert (V2 : cur_view w2 wr = cur_view w wr) by (unfold cur_view; rewrite F2; reflexivity).
    split; [|rewrite V2; reflexivity].
    rewrite V2. unfold cur_view. rewrite Hp, app_nil_r. exact Z.
  - (* no append: the next free name of the present second *)
    unfold latest_timestamp_file. cbn [bind].
    assert (Ynow : in_years e (wnow w)) by (apply (years_in e lo hi); [exact Y | lia]).
    unfold collision_free. rewrite !tick_quiet by assumption.
    rewrite (fixed_of_fixed0 c w Hts), infix_from_ts_tsx, Hoff.
    pose proof (count_le_length (wnow w) keys) as Hcl'.
    rewrite (collision_free_infix_ts c e (woff w) (wfs w) keys (wnow w) (count (wnow w) keys) T Ynow Yk
               (tsdinv_dir _ _ _ _ _ _ _ I) (keys_count keys Hko (wnow w))) by lia.
    cbn [bind]. unfold open_log_file. rewrite (name_of_fixed c w) by assumption.
    set (knew := (wnow w, count (wnow w) keys)).
    change (as_name (c_spec c) (fixed0 c) (Some (infix_of e knew))) with (kname c e knew).
    destruct (rotate_tsdinv c e lo hi w wr keys closed I Y Hhi) as [Ht RI]. fold knew in Ht, RI.
    destruct (open_fresh_quiet c w (kname c e knew) Q Hlink Ht) as [w2 [Eop [F2 S2]]]. rewrite Eop. cbn [bind].
    destruct (roll_new_fresh w2 crit (kname c e knew)) as [roll [Ern [Z _]]]. rewrite Ern. cbn [bind].
    assert (F3 : wfs w2 = append_ino (fst (create_file (wfs w) (kname c e knew) 0%N (wnow w))) (wino wr) (wpend wr)).
    { rewrite Hp, append_ino_nil_id. exact F2. }
    assert (Hoff2 : eoff c w2 = e). { unfold eoff in *. destruct S2 as [_ [_ [-> _]]]. exact Hoff. }
    destruct (RI w2 (proj1 S2) Hoff2 (same_env_now _ _ S2) F3) as [I2 V2].
    eexists w2, _, roll, (keys ++ [knew]), (closed ++ [cur_view w wr]).
    assert (En : nth (length (closed ++ [cur_view w wr])) (keys ++ [knew]) kd = knew).
    { apply nth_snoc_last. rewrite app_length. cbn [length]. lia. }
    rewrite En. split; [reflexivity|]. split; [exact I2|]. split; [exact S2|]. rewrite V2. split; [exact Z | reflexivity].
Qed.
Print Assumptions initialize_view_tsd.

(* ------------------------------------------------------------------ write and shutdown, with the keys *)
(* write_active_tsd, and what becomes of the keys: a rotation adds the key (present second, number of files of this second) *)
Lemma write_active_tsd_k c crit e lo hi w wr keys closed roll b :
  tsdcfg c crit -> tag_ok c -> years_ok e lo hi -> TsdInv c e lo w wr keys closed ->
  (wnow w <= hi)%Z -> (N.of_nat (length keys) <= usize_max)%N -> roll_size_ok roll (length (cur_view w wr)) ->
  let rot := rotation_necessary w roll in
  exists w' wr' roll' keys' closed',
    write_buffer (st_tsd c e (nth (length closed) keys kd) roll wr) w b
      = (Ok tt, w', st_tsd c e (nth (length closed') keys' kd) roll' wr', rot)
    /\ TsdInv c e lo w' wr' keys' closed' /\ roll_size_ok roll' (length (cur_view w' wr')) /\ same_env w w'
    /\ (keys', closed', cur_view w' wr')
       = (if rot then (keys ++ [(wnow w, count (wnow w) keys)], closed ++ [cur_view w wr], b)
          else (keys, closed, cur_view w wr ++ b)).
Proof.
  intros Hcfg T Y I Hhi Hmax Hsz rot.
  unfold write_buffer, st_tsd. cbn [f_cfg f_inner f_poisoned mk_rs rs_roll]. fold rot.
  assert (M : exists w1 wr1 roll1 keys1 closed1,
            mount_next c w (Active (Some (mk_rs (NSTs (fst (nth (length closed) keys kd)) None std_fmt) roll)) wr
                                   (kname c e (nth (length closed) keys kd))) false
            = (Ok tt, w1, Active (Some (mk_rs (NSTs (fst (nth (length closed1) keys1 kd)) None std_fmt) roll1)) wr1
                                 (kname c e (nth (length closed1) keys1 kd)))
            /\ TsdInv c e lo w1 wr1 keys1 closed1 /\ roll_size_ok roll1 (length (cur_view w1 wr1)) /\ same_env w w1
            /\ (keys1, closed1, cur_view w1 wr1)
               = (if rot then (keys ++ [(wnow w, count (wnow w) keys)], closed ++ [cur_view w wr], []) else (keys, closed, cur_view w wr))).
  { destruct rot eqn:Er.
    - destruct (mount_next_rotates_tsd c crit e lo hi w wr keys closed roll false Hcfg T Y I Hhi Hmax)
        as [w1 [wr1 [roll1 [E [I1 [V1 [Z1 [S1 R1]]]]]]]]; [exact Er|].
      exists w1, wr1, roll1, (keys ++ [(wnow w, count (wnow w) keys)]), (closed ++ [cur_view w wr]). rewrite V1.
      assert (En : nth (length (closed ++ [cur_view w wr])) (keys ++ [(wnow w, count (wnow w) keys)]) kd = (wnow w, count (wnow w) keys)).
      { apply nth_snoc_last. rewrite app_length. cbn [length]. rewrite (td_len _ _ _ _ _ _ _ I). lia. }
      rewrite En. cbn [fst].
      split; [exact E|]. split; [exact I1|]. split; [exact Z1|]. split; [exact S1 | reflexivity].
    - exists w, wr, roll, keys, closed. split.
      + unfold mount_next. cbn [mk_rs rs_roll orb]. unfold rot in Er. rewrite Er. reflexivity.
      + split; [exact I|]. split; [exact Hsz|]. split; [apply same_env_refl; apply I | reflexivity]. }
  destruct M as [w1 [wr1 [roll1 [keys1 [closed1 [E [I1 [Z1 [S1 V1]]]]]]]]].
  rewrite E.
  destruct (w_write_quiet w1 wr1 b (td_quiet _ _ _ _ _ _ _ I1) (td_wr _ _ _ _ _ _ _ I1)) as [w2 [wr2 [fl [Ew [S2 [F2 [Ei [Ec [Ep Hok]]]]]]]]].
  rewrite Ew.
  destruct (tsdinv_append c e lo w1 w2 wr1 wr2 keys1 closed1 fl I1 F2 S2 Ei Ec Hok) as [I2 C2].
  exists w2, wr2, (increase_size roll1 (N.of_nat (length b))), keys1, closed1.
  assert (V2 : cur_view w2 wr2 = cur_view w1 wr1 ++ b).
  { unfold cur_view. rewrite C2, <- !app_assoc, Ep. reflexivity. }
  split; [reflexivity|]. split; [exact I2|].
  split. { rewrite V2, app_length. apply roll_size_increase. exact Z1. }
  split; [eapply same_env_trans; eassumption|].
  rewrite V2. destruct rot; injection V1 as -> -> ->; reflexivity.
Qed.

Lemma shutdown_active_tsd_env c e lo w wr keys closed roll k : TsdInv c e lo w wr keys closed ->
  exists w' wr', shutdown_state (st_tsd c e k roll wr) w = (w', st_tsd c e k roll wr')
    /\ TsdInv c e lo w' wr' keys closed /\ cur_view w' wr' = cur_view w wr /\ wpend wr' = [] /\ same_env w w'.
Proof.
  intros I. unfold shutdown_state, st_tsd, drain_acts. cbn [f_inner f_cfg mk_rs rs_cleanup rs_naming].
  destruct (w_flush_quiet w wr (td_quiet _ _ _ _ _ _ _ I)) as [w1 [E [F S]]]. rewrite E.
  set (wr' := {| wino := wino wr; wpend := []; wcap := wcap wr |}).
  assert (Hok : wr_ok wr') by (unfold wr_ok, wr'; cbn; destruct (wcap wr); [lia | reflexivity]).
  destruct (tsdinv_append c e lo w w1 wr wr' keys closed (wpend wr) I F S eq_refl eq_refl Hok) as [I1 C1].
  exists w1, wr'. split; [reflexivity|]. split; [exact I1|]. split; [|split; [reflexivity | exact S]].
  unfold cur_view. rewrite C1. cbn [wr' wpend]. rewrite app_nil_r. reflexivity.
Qed.
