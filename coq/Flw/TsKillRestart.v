(* Timestamps naming: a new writer on the directory that a KILLED writer left behind (TsKill.v): the closed files and rCURRENT
   (then the restart is the one of TsRestart.v), or the closed files WITHOUT rCURRENT (a kill between the rename and the
   creation of a rotation): the new writer - with or without append - finds nothing to rename or to continue and creates a
   fresh rCURRENT; the closed files keep their names and contents.  Every operation of the new writer succeeds. *)
Require Import FL.Base.Bytes FL.Base.BytesFacts FL.Base.PathName FL.Fs.Fs FL.Fs.FsFacts FL.Time.Civil FL.Time.TsFormat
  FL.Names.FileSpec FL.Names.NamesFacts FL.Names.SortFacts FL.Flw.Model FL.Flw.ModelFacts FL.Flw.NumFs FL.Flw.NumInv
  FL.Flw.Run FL.Flw.RunFacts FL.Flw.NumRun FL.Flw.NumListing FL.Oracles.O_Flw FL.Flw.NumTheorems FL.Flw.NumRestart
  FL.Flw.KillFacts FL.Flw.NumKill FL.Flw.NumKillRestart FL.Flw.NumDInv FL.Flw.NumDTheorems
  FL.Flw.TsCal FL.Flw.TsTime FL.Flw.TsNames FL.Flw.TsInv FL.Flw.TsRun FL.Flw.TsTheorems FL.Flw.TsRestartInv FL.Flw.TsRestart
  FL.Flw.KillEnv FL.Flw.TsKill.
From Coq Require Import ZifyN ZifyNat ZifyBool.
Import String.StringSyntax.
Open Scope nat_scope.

(* ------------------------------------------------------------------ initialize on a directory without rCURRENT *)
(* nothing to rename (without append) or to continue (with append): a fresh rCURRENT is created, born now *)
Lemma initialize_nocur_ts c crit e lo hi w keys closed :
  tscfg c crit -> tag_ok c -> years_ok e lo hi -> NoCurInv c e lo w keys closed ->
  (wnow w <= hi)%Z -> (N.of_nat (length closed) <= usize_max)%N ->
  exists w' wr' roll,
    initialize c w = (Ok (Active (Some (mk_rs (NSTs (wnow w) (Some cur_infix) std_fmt) roll)) wr' (cname c)), w')
    /\ TsInvB c e lo w' wr' keys closed (wnow w) /\ cur_view w' wr' = [] /\ same_env w w'.
Proof.
  intros [Hrot [Hts [Hlink _]]] T Y NC Hhi Hmax.
  pose proof NC as [Q W Hnd Hoff Hnc Hlen Hcl Hon Hko Hrg Hlo].
  assert (Yk : forall k, In k keys -> in_years e (fst k)).
  { intros k Ik. apply (years_in e lo hi); [exact Y|]. specialize (Hrg k Ik). lia. }
  assert (Ynow : in_years e (wnow w)) by (apply (years_in e lo hi); [exact Y | lia]).
  assert (Eb : birth_or_now w (cname c) = wnow w) by (unfold birth_or_now, file_of; rewrite Hnc; reflexivity).
  unfold initialize. rewrite Hrot. unfold init_naming.
  assert (E0 : creation_ts_of_current c w cur_infix (negb (c_append c)) None std_fmt = (Ok (wnow w), w)).
  { unfold creation_ts_of_current. rewrite (name_of_fixed c w) by assumption. fold (nm c cur_infix) (cname c).
    cbv zeta. rewrite Eb. destruct (negb (c_append c)); [|reflexivity].
    unfold collision_free. rewrite !tick_quiet by assumption.
    rewrite (fixed_of_fixed0 c w Hts), infix_from_ts_tsx, Hoff.
    pose proof (count_le_length (wnow w) keys) as Hc'.
    rewrite (collision_free_infix_ts c e (woff w) (wfs w) keys (wnow w) (count (wnow w) keys) T Ynow Yk (nocur_dir _ _ _ _ _ _ NC)
               (keys_count keys Hko (wnow w))) by lia.
    pose proof (p_rename_quiet w (cname c) (name_of c w (Some (infix_of e (wnow w, count (wnow w) keys)))) Q) as PR.
    rewrite rename_none in PR by exact Hnc. rewrite PR, Eb. reflexivity. }
  rewrite E0. cbn [bind].
  unfold open_log_file. rewrite (name_of_fixed c w) by assumption. fold (nm c cur_infix) (cname c).
  destruct (open_fresh_quiet c w (cname c) Q Hlink Hnc) as [w2 [Eop [F2 S2]]]. rewrite Eop. cbn [bind].
  assert (Hoff2 : eoff c w2 = e). { rewrite (eoff_same_env c _ _ S2). exact Hoff. }
  destruct (create_nocur c e lo w keys closed NC w2 (proj1 S2) Hoff2 (same_env_now _ _ S2) F2) as [I2 V2].
  assert (RN : exists roll, roll_new w2 crit (c_append c) (cname c) = (Ok roll, w2)).
  { destruct (c_append c).
    - assert (Fo : file_of (wfs w2) (cname c) = Some (inode (wfs w2) (snd (create_file (wfs w) (cname c) 0%N (wnow w))))).
      { unfold file_of. rewrite (ti_cur _ _ _ _ _ _ _ _ (proj1 I2)). reflexivity. }
      destruct (roll_new_append w2 crit (cname c) _ (proj1 S2) Fo) as [roll [Ern _]]. eauto.
    - destruct (roll_new_fresh w2 crit (cname c)) as [roll [Ern _]]. eauto. }
  destruct RN as [roll Ern]. rewrite Ern. cbn [bind].
  eexists w2, _, roll. split; [reflexivity|]. split; [exact I2|]. split; [exact V2 | exact S2].
Qed.

(* ------------------------------------------------------------------ one run on a directory of the kind a kill leaves *)
(* a writer that has not written yet: it has not looked at the directory *)
Definition PreK (c : config) (e lo : Z) (n : nat) (x : sys) (d : kdir) : Prop :=
  envT c e x /\ s_flw x = Some (new_flw c) /\ dir_k c e lo (s_w x) d /\ S (length (closedK d)) <= n.
(* the state of a run: None as long as nothing has been written (the directory is still d0) *)
Definition GRelK (c : config) (e lo : Z) (n : nat) (x : sys) (d0 : kdir) (a : tview) : Prop :=
  match a with None => PreK c e lo n x d0 | Some _ => ActT c e lo n x a end.
Definition gviewK (d0 : kdir) (a : tview) : kdir := match a with None => d0 | Some _ => kd_of a end.

(* the closed files of d are closed files of d', with their keys *)
Definition keepK (d d' : kdir) : Prop := exists mk mc, keysK d' = keysK d ++ mk /\ closedK d' = closedK d ++ mc.
Lemma keepK_refl d : keepK d d.
Proof. exists [], []. rewrite !app_nil_r. split; reflexivity. Qed.
Lemma keepK_trans d1 d2 d3 : keepK d1 d2 -> keepK d2 d3 -> keepK d1 d3.
Proof.
  intros [mk [mc [A B]]] [mk' [mc' [A' B']]]. exists (mk ++ mk'), (mc ++ mc'). rewrite A', B', A, B, !app_assoc. split; reflexivity.
Qed.
Lemma ExtT_keep d d' : ExtT d (Some d') -> keepK (kd_of d) (kd_of (Some d')).
Proof.
  destruct d as [[[[k cl] cu] ts]|]; destruct d' as [[[k' cl'] cu'] ts']; cbn [ExtT kd_of].
  - intros [[-> [-> _]]|[t [mk [mc [-> ->]]]]]; [exists [], []; cbn [keysK closedK]; rewrite !app_nil_r; split; reflexivity|].
    eexists _, _. split; reflexivity.
  - intros _. exists k', cl'. split; reflexivity.
Qed.

Lemma preK_of c e lo n x d : PreK c e lo n x (kd_of d) <-> PreT c e lo n x d.
Proof. unfold PreK, PreT. rewrite dir_k_of, closedK_of. reflexivity. Qed.

(* ---- the first write ---- *)
Lemma first_write_k c crit e lo hi n x d0 b :
  tscfg c crit -> tag_ok c -> years_ok e lo hi -> PreK c e lo n x d0 ->
  (wnow (s_w x) <= hi)%Z -> (N.of_nat n <= usize_max)%N ->
  exists w' s' rot D', write_buffer (new_flw c) (s_w x) b = (Ok tt, w', s', rot)
    /\ ActT c e lo (S n) {| s_flw := Some s'; s_w := w'; s_tl := []; s_dead := s_dead x |} (Some D')
    /\ keepK d0 (kd_of (Some D')) /\ flatT (Some D') = flatK d0 ++ b /\ wnow w' = wnow (s_w x).
Proof.
  intros Hcfg T Y P Hhi Hmax.
  assert (TV : forall d, d0 = kd_of d -> exists w' s' rot D', write_buffer (new_flw c) (s_w x) b = (Ok tt, w', s', rot)
    /\ ActT c e lo (S n) {| s_flw := Some s'; s_w := w'; s_tl := []; s_dead := s_dead x |} (Some D')
    /\ keepK d0 (kd_of (Some D')) /\ flatT (Some D') = flatK d0 ++ b /\ wnow w' = wnow (s_w x)).
  { intros d ->. apply preK_of in P.
    destruct (first_write_ts c crit e lo hi n x d b Hcfg T Y P Hhi Hmax) as [w' [s' [rot [D' [E [A' [X' [F' W']]]]]]]].
    exists w', s', rot, D'. split; [exact E|]. split; [exact A'|]. split; [exact (ExtT_keep d D' X')|].
    split; [rewrite flatK_of; exact F' | exact W']. }
  destruct d0 as [|keys closed cur ts|keys closed].
  - exact (TV None eq_refl).
  - exact (TV (Some (keys, closed, cur, ts)) eq_refl).
  - destruct P as [E0 [Es [NC Hn]]]. cbn [dir_k closedK] in NC, Hn. pose proof E0 as [Ht [Ha [Q Ho]]].
    destruct (initialize_nocur_ts c crit e lo hi (s_w x) keys closed Hcfg T Y NC Hhi ltac:(lia)) as [w1 [wr1 [roll1 [Ei [I1 [V1 S1]]]]]].
    assert (Hhi1 : (wnow w1 <= hi)%Z) by (rewrite (same_env_now _ _ S1); exact Hhi).
    destruct (write_active_tsb c crit e lo hi w1 wr1 keys closed (wnow (s_w x)) roll1 b Hcfg T Y I1 Hhi1 ltac:(lia))
      as [w' [wr' [roll' [keys' [closed' [ts' [E [I' [S' V']]]]]]]]].
    exists w', (st_ts c ts' roll' wr'), (rotation_necessary w1 roll1), (keys', closed', cur_view w' wr', ts').
    split. { rewrite (write_buffer_init c (s_w x) b _ _ _ w1 Ei). exact E. }
    assert (S2 : same_env (s_w x) w') by (eapply same_env_trans; eassumption).
    rewrite V1 in V'. cbn [app] in V'.
    split; [|split; [|split; [|exact (same_env_now _ _ S2)]]].
    + split; [apply (envT_env c e x _ E0); [reflexivity | exact S2]|].
      exists wr', roll'. cbn [s_flw s_w]. split; [reflexivity|]. split; [exact I'|]. split; [reflexivity|].
      destruct (rotation_necessary w1 roll1); injection V' as _ -> _ _; rewrite ?app_length; cbn [length]; lia.
    + cbn [kd_of]. destruct (rotation_necessary w1 roll1); injection V' as -> -> _ _.
      * eexists _, _. cbn [keysK closedK]. split; reflexivity.
      * exists [], []. cbn [keysK closedK]. rewrite !app_nil_r. split; reflexivity.
    + unfold flatK. cbn [closedK ocurK]. rewrite app_nil_r.
      destruct (rotation_necessary w1 roll1); injection V' as -> -> -> ->; cbn [flatT].
      * rewrite concat_app. cbn [concat]. rewrite !app_nil_r. reflexivity.
      * reflexivity.
Qed.

(* ---- one operation of a writer that has written: the observation is a normal result ---- *)
Lemma act_step_ok c crit e lo hi n x D o :
  tscfg c crit -> tag_ok c -> years_ok e lo hi -> ActT c e lo n x (Some D) -> basic_op o -> tick_ok o ->
  (wnow (s_w x) <= hi)%Z -> (N.of_nat n <= usize_max)%N -> obs_ok (snd (step x o)).
Proof.
  intros Hcfg T Y A Hb Htk Hhi Hmax. destruct D as [[[keys closed] cur] ts].
  destruct A as [E0 [wr [roll [Es [I [V Hn]]]]]]. pose proof E0 as [Ht _].
  rewrite (TsRestart.step_sync_cfg c crit x _ o Hcfg Es eq_refl).
  set (s := st_ts c ts roll wr) in *.
  assert (Hp : f_poisoned s = false) by reflexivity.
  destruct o; try contradiction; cbn [sync_step].
  - rewrite Es, Hp, Ht. cbn [app].
    destruct (write_active_tsb c crit e lo hi (s_w x) wr keys closed ts roll b Hcfg T Y I Hhi ltac:(lia))
      as [w' [wr' [roll' [keys' [closed' [ts' [E _]]]]]]].
    fold s in E. rewrite E. reflexivity.
  - rewrite Es, Hp.
    destruct (write_active_tsb c crit e lo hi (s_w x) wr keys closed ts roll b Hcfg T Y I Hhi ltac:(lia))
      as [w' [wr' [roll' [keys' [closed' [ts' [E _]]]]]]].
    fold s in E. rewrite E. reflexivity.
  - rewrite Es, Hp.
    destruct (flush_active_tsb c e lo (s_w x) wr keys closed ts roll I) as [w' [wr' [E _]]].
    fold s in E. rewrite E. reflexivity.
  - rewrite Es, Hp. unfold s. cbn [st_ts f_cfg f_inner].
    destruct (mount_next_rotates_tsb c crit e lo hi (s_w x) wr keys closed ts roll true Hcfg T Y I Hhi ltac:(lia) eq_refl)
      as [w' [wr' [roll' [E _]]]].
    rewrite E. reflexivity.
  - reflexivity.
  - cbn [snd snapshot obs_ok]. exact Logic.I.
Qed.

(* ---- one operation of a run ---- *)
Lemma gstep_k c crit e lo hi n x d0 a o :
  tscfg c crit -> tag_ok c -> years_ok e lo hi -> GRelK c e lo n x d0 a -> basic_op o -> tick_ok o ->
  (wnow (s_w x) <= hi)%Z -> (N.of_nat n <= usize_max)%N ->
  obs_ok (snd (step x o))
  /\ exists a', GRelK c e lo (S n) (fst (step x o)) d0 a' /\ keepK (gviewK d0 a) (gviewK d0 a')
    /\ flatK (gviewK d0 a') = flatK (gviewK d0 a) ++ written [o]
    /\ wnow (s_w (fst (step x o))) = (wnow (s_w x) + dt_of o)%Z.
Proof.
  intros Hcfg T Y G Hb Htk Hhi Hmax. destruct a as [D|].
  - cbn [GRelK gviewK] in *. split; [exact (act_step_ok c crit e lo hi n x D o Hcfg T Y G Hb Htk Hhi Hmax)|].
    destruct (act_step c crit e lo hi n x D o Hcfg T Y G Hb Htk Hhi Hmax) as [D' [A' [X' [F' W']]]].
    exists (Some D'). cbn [GRelK gviewK]. split; [exact A'|]. split; [exact (ExtT_keep (Some D) D' X')|].
    split; [rewrite !flatK_of; exact F' | exact W'].
  - cbn [GRelK gviewK] in *. pose proof G as [[Ht [Ha [Q Ho]]] [Es [D Hn]]].
    rewrite (TsRestart.step_sync_cfg c crit x _ o Hcfg Es eq_refl).
    destruct o; try contradiction; cbn [sync_step dt_of written].
    + (* OWrite *)
      destruct (first_write_k c crit e lo hi n x d0 (s_tl x ++ b) Hcfg T Y G Hhi Hmax) as [w' [s' [rot [D' [E [A' [X' [F' W']]]]]]]].
      rewrite Es. cbn [new_flw f_poisoned]. fold (new_flw c). rewrite E. cbn [fst snd s_w].
      rewrite Ht in F'. cbn [app] in F'. split; [reflexivity|].
      exists (Some D'). cbn [GRelK gviewK]. rewrite app_nil_r. split; [exact A'|]. split; [exact X'|].
      split; [rewrite flatK_of; exact F' | lia].
    + (* OPlain *)
      destruct (first_write_k c crit e lo hi n x d0 b Hcfg T Y G Hhi Hmax) as [w' [s' [rot [D' [E [A' [X' [F' W']]]]]]]].
      rewrite Es. cbn [new_flw f_poisoned]. fold (new_flw c). rewrite E. cbn [fst snd s_w]. rewrite Ht. split; [reflexivity|].
      exists (Some D'). cbn [GRelK gviewK]. rewrite app_nil_r. split; [exact A'|]. split; [exact X'|].
      split; [rewrite flatK_of; exact F' | lia].
    + (* OFlush *)
      rewrite Es. cbn [new_flw f_poisoned flush_state f_inner fst snd s_w]. split; [reflexivity|]. exists None. cbn [GRelK gviewK].
      split; [|split; [apply keepK_refl|]; split; [rewrite app_nil_r; reflexivity | lia]].
      split; [repeat split; try assumption; apply Q|]. split; [reflexivity|]. split; [exact D | lia].
    + (* OTrigger *)
      rewrite Es. cbn [new_flw f_poisoned f_cfg f_inner mount_next with_inner code_of fst snd s_w]. split; [reflexivity|].
      exists None. cbn [GRelK gviewK].
      split; [|split; [apply keepK_refl|]; split; [rewrite app_nil_r; reflexivity | lia]].
      split; [repeat split; try assumption; apply Q|]. split; [reflexivity|]. split; [exact D | lia].
    + (* OTick *)
      cbn [fst snd s_w set_now wnow tick_ok] in *. split; [reflexivity|]. exists None. cbn [GRelK gviewK].
      split; [|split; [apply keepK_refl|]; split; [rewrite app_nil_r; reflexivity | reflexivity]].
      split; [repeat split; try assumption; apply Q|]. split; [exact Es|]. split; [|lia].
      apply (dir_k_later c e lo (s_w x)); [exact D | reflexivity | apply quiet_set_now; exact Q | cbn [s_w set_now wnow]; lia | exact Ho].
    + (* OSnap *)
      cbn [fst snd]. split; [exact Logic.I|]. exists None. cbn [GRelK gviewK].
      split; [|split; [apply keepK_refl|]; split; [rewrite app_nil_r; reflexivity | lia]].
      split; [repeat split; try assumption; apply Q|]. split; [exact Es|]. split; [exact D | lia].
Qed.

Lemma grun_k c crit e lo hi d0 : tscfg c crit -> tag_ok c -> years_ok e lo hi ->
  forall ops x a n, GRelK c e lo n x d0 a -> Forall basic_op ops -> Forall tick_ok ops ->
  (wnow (s_w x) + elapsed ops <= hi)%Z -> (N.of_nat (n + length ops) <= usize_max)%N ->
  Forall obs_ok (snd (run x ops))
  /\ exists a', GRelK c e lo (n + length ops) (fst (run x ops)) d0 a' /\ keepK (gviewK d0 a) (gviewK d0 a')
    /\ flatK (gviewK d0 a') = flatK (gviewK d0 a) ++ written ops
    /\ wnow (s_w (fst (run x ops))) = (wnow (s_w x) + elapsed ops)%Z.
Proof.
  intros Hcfg T Y. induction ops as [|o r IH]; intros x a n G Hb Htk Hhi Hmax.
  - cbn [run fst snd length elapsed written]. rewrite Nat.add_0_r, app_nil_r. split; [constructor|]. exists a.
    split; [exact G|]. split; [apply keepK_refl|]. split; [reflexivity | lia].
  - cbn [run]. inversion Hb as [|o' r' Ho Hr]; subst. inversion Htk as [|o' r' Hto Htr]; subst.
    cbn [elapsed length] in *. pose proof (elapsed_nonneg r Htr) as Er.
    assert (Hdt : (0 <= dt_of o)%Z) by (destruct o; cbn [dt_of tick_ok] in *; lia).
    destruct (gstep_k c crit e lo hi n x d0 a o Hcfg T Y G Ho Hto ltac:(lia) ltac:(lia)) as [K0 [a1 [G1 [X1 [F1 W1]]]]].
    destruct (step x o) as [x1 ob]. cbn [fst snd] in *.
    destruct (IH x1 a1 (S n) G1 Hr Htr ltac:(lia) ltac:(lia)) as [K1 [a2 [G2 [X2 [F2 W2]]]]].
    destruct (run x1 r) as [x2 obs]. cbn [fst snd] in *.
    split; [constructor; assumption|].
    exists a2. replace (n + S (length r)) with (S n + length r) by lia.
    split; [exact G2|]. split; [exact (keepK_trans _ _ _ X1 X2)|].
    split; [rewrite F2, F1, (written_cons o r), app_assoc; reflexivity | lia].
Qed.

(* ---- start and stop ---- *)
Lemma start_k c e lo n x d : IdleK c e lo n x d -> PreK c e lo (S n) (fst (step x (OStart c))) d /\ obs_ok (snd (step x (OStart c))).
Proof.
  intros [[Ht [Ha [Q Ho]]] [Es [D Hn]]]. rewrite (step_sync_none x _ Es). cbn [sync_step fst snd]. split; [|reflexivity].
  split; [repeat split; try assumption; apply Q|]. split; [reflexivity|]. split; [exact D | lia].
Qed.

Lemma stop_k c crit e lo n x d0 a : tscfg c crit -> GRelK c e lo n x d0 a ->
  IdleK c e lo n (fst (step x OStop)) (gviewK d0 a) /\ wnow (s_w (fst (step x OStop))) = wnow (s_w x) /\ obs_ok (snd (step x OStop)).
Proof.
  intros Hcfg G. destruct a as [D|]; cbn [GRelK gviewK] in *.
  - destruct (stop_ts c crit e lo n x None (Some D) Hcfg G) as [Id W]. cbn [gviewT] in Id.
    split; [apply idleK_of; exact Id|]. split; [exact W|].
    destruct D as [[[keys closed] cur] ts]. destruct G as [_ [wr [roll [Es _]]]].
    rewrite (TsRestart.step_sync_cfg c crit x _ OStop Hcfg Es eq_refl). cbn [sync_step]. rewrite Es. reflexivity.
  - destruct G as [[Ht [Ha [Q Ho]]] [Es [D Hn]]].
    rewrite (TsRestart.step_sync_cfg c crit x _ OStop Hcfg Es eq_refl). cbn [sync_step].
    rewrite Es. cbn [new_flw f_poisoned drop_state shutdown_state f_inner fst snd s_w]. split; [|split; reflexivity].
    split; [repeat split; try assumption; apply Q|]. split; [reflexivity|]. split; [exact D | lia].
Qed.

Lemma idle_tick_k c e lo n x d dt : (0 <= dt)%Z -> IdleK c e lo n x d ->
  IdleK c e lo n (fst (step x (OTick dt))) d /\ wnow (s_w (fst (step x (OTick dt)))) = (wnow (s_w x) + dt)%Z
  /\ obs_ok (snd (step x (OTick dt))).
Proof.
  intros Hdt [[Ht [Ha [Q Ho]]] [Es [D Hn]]]. rewrite (step_sync_none x _ Es). cbn [sync_step fst snd s_w set_now wnow].
  split; [|split; reflexivity].
  split; [repeat split; try assumption; apply Q|]. split; [exact Es|]. split; [|exact Hn].
  apply (dir_k_later c e lo (s_w x)); [exact D | reflexivity | apply quiet_set_now; exact Q | cbn [s_w set_now wnow]; lia | exact Ho].
Qed.

Lemma idleK_spec c c' e lo n x d : c_spec c = c_spec c' -> c_utc c = c_utc c' -> IdleK c e lo n x d -> IdleK c' e lo n x d.
Proof.
  intros E U Id. destruct d as [|keys closed cur ts|keys closed].
  - apply (idleK_of c' e lo n x None). apply (idleT_spec c c'); [exact E | exact U|]. apply (idleK_of c e lo n x None). exact Id.
  - apply (idleK_of c' e lo n x (Some (keys, closed, cur, ts))). apply (idleT_spec c c'); [exact E | exact U|].
    apply (idleK_of c e lo n x (Some (keys, closed, cur, ts))). exact Id.
  - destruct Id as [[Ht [Ha [Q Ho]]] [Es [D Hn]]]. cbn [dir_k] in D.
    assert (Ho' : eoff c' (s_w x) = e) by (rewrite <- (eoff_utc c c' _ U); exact Ho).
    split; [repeat split; try assumption; apply Q|]. split; [exact Es|]. split; [|exact Hn]. cbn [dir_k].
    destruct D as [Q' W Hnd Hoff Hnc Hlen Hcl Hon Hko Hrg Hlo]. pose proof (cname_spec_eq c c' E) as En.
    constructor; try assumption.
    + rewrite <- En. exact Hnc.
    + intros i Hi. rewrite <- (kname_spec_eq c c' e _ E). exact (Hcl i Hi).
    + intros m j L. destruct (Hon m j L) as [i [Hi ->]]. exists i. split; [exact Hi | apply kname_spec_eq; exact E].
Qed.

(* one whole run OStart c :: ops ++ [OStop] on a directory of the kind a kill leaves *)
Lemma start_run_k c crit e lo hi n x d ops :
  tscfg c crit -> tag_ok c -> years_ok e lo hi -> IdleK c e lo n x d ->
  Forall basic_op ops -> Forall tick_ok ops ->
  (wnow (s_w x) + elapsed ops <= hi)%Z -> (N.of_nat (S n + length ops) <= usize_max)%N ->
  Forall obs_ok (snd (run x (OStart c :: ops ++ [OStop])))
  /\ exists d', IdleK c e lo (S n + length ops) (fst (run x (OStart c :: ops ++ [OStop]))) d'
       /\ keepK d d' /\ flatK d' = flatK d ++ written ops
       /\ wnow (s_w (fst (run x (OStart c :: ops ++ [OStop])))) = (wnow (s_w x) + elapsed ops)%Z.
Proof.
  intros Hcfg T Y Id Hb Htk Hhi Hmax. pose proof (elapsed_nonneg ops Htk) as Eo.
  cbn [run].
  destruct (start_k c e lo n x d Id) as [P0 K0]. pose proof (start_now x c) as W1.
  destruct (step x (OStart c)) as [x0 ob0]. cbn [fst snd] in P0, W1, K0.
  assert (G0 : GRelK c e lo (S n) x0 d None) by exact P0.
  destruct (grun_k c crit e lo hi d Hcfg T Y ops x0 None (S n) G0 Hb Htk ltac:(lia) ltac:(lia)) as [K1 [a1 [G1 [X1 [F1 W2]]]]].
  rewrite run_app. destruct (run x0 ops) as [x1 obs1]. cbn [fst snd] in G1, K1, W2.
  destruct (stop_k c crit e lo (S n + length ops) x1 d a1 Hcfg G1) as [Id2 [W3 K2]].
  cbn [run]. destruct (step x1 OStop) as [x2 ob2]. cbn [fst snd] in *.
  split. { constructor; [exact K0|]. apply Forall_app. split; [exact K1 | constructor; [exact K2 | constructor]]. }
  exists (gviewK d a1). cbn [gviewK] in X1, F1.
  split; [exact Id2|]. split; [exact X1|]. split; [exact F1 | lia].
Qed.

(* ------------------------------------------------------------------ the killed run and the restart, put together *)
Definition restart_ops (tick : option Z) (c' : config) (ops3 : list op) : list op :=
  match tick with Some dt => [OTick dt] | None => [] end ++ OStart c' :: ops3 ++ [OStop].
Definition tick_dt (tick : option Z) : Z := match tick with Some dt => dt | None => 0%Z end.

Lemma tag_ok_spec c c' : c_spec c' = c_spec c -> tag_ok c -> tag_ok c'.
Proof. intros E. unfold tag_ok, fixed0. rewrite E. exact (fun H => H). Qed.

Lemma kill_restart_t c crit c' crit' t0 off ops1 k ops2 tick ops3 :
  tscfg c crit -> tag_ok c -> c_cap c = None ->
  tscfg c' crit' -> c_spec c' = c_spec c -> c_utc c' = c_utc c ->
  Forall basic_op ops1 -> Forall basic_op ops2 -> Forall basic_op ops3 ->
  Forall tick_ok ops1 -> Forall tick_ok ops2 -> Forall tick_ok ops3 -> (0 <= tick_dt tick)%Z ->
  let e := ts_e c off in
  let hi := (t0 + elapsed ops1 + elapsed ops2 + tick_dt tick + elapsed ops3)%Z in
  (0 <= t0 + e)%Z -> (hi + e < sec_max)%Z ->
  (N.of_nat (length ops1 + length ops2 + length ops3 + 2) <= usize_max)%N ->
  let x1 := fst (run (sys0 t0 off) (OStart c :: ops1 ++ [OSetKill k])) in
  let xk := fst (run (sys0 t0 off) (OStart c :: ops1 ++ [OSetKill k] ++ ops2 ++ [OCrash])) in
  let r2 := run xk (restart_ops tick c' ops3) in
  Forall obs_ok (snd r2)
  /\ exists n d d',
       IdleK c e t0 n xk d /\ flatK d = written ops1 ++ acked x1 ops2
       /\ IdleK c' e t0 (S n + length ops3) (fst r2) d' /\ flatK d' = written ops1 ++ acked x1 ops2 ++ written ops3
       /\ wnow (s_w (fst r2)) = hi
       /\ keepK d d'.
Proof.
  intros Hcfg T Hcap Hcfg' Hsp Hutc Hb1 Hb2 Hb3 Htk1 Htk2 Htk3 Hdt e hi Hlo Hhi Hmax x1 xk r2.
  pose proof (elapsed_nonneg ops1 Htk1) as E1. pose proof (elapsed_nonneg ops2 Htk2) as E2. pose proof (elapsed_nonneg ops3 Htk3) as E3.
  destruct (kill_history_t c crit t0 off ops1 k ops2 Hcfg Hcap T Hb1 Hb2 Htk1 Htk2 Hlo ltac:(fold e; unfold hi in Hhi; lia) ltac:(lia))
    as [[d [Id [F W]]] _].
  fold xk in Id, W. fold x1 in F. fold e in Id.
  assert (Y : years_ok e t0 hi) by (split; assumption).
  pose proof (tag_ok_spec c c' Hsp T) as T'.
  set (n := 1 + length ops1 + length ops2) in *.
  assert (Id' : IdleK c' e t0 n xk d) by (apply (idleK_spec c c'); [congruence | congruence | exact Id]).
  (* the clock tick between the crash and the restart *)
  assert (TK : exists xa, fst (run xk (match tick with Some dt => [OTick dt] | None => [] end)) = xa
                 /\ Forall obs_ok (snd (run xk (match tick with Some dt => [OTick dt] | None => [] end)))
                 /\ IdleK c' e t0 n xa d /\ wnow (s_w xa) = (wnow (s_w xk) + tick_dt tick)%Z).
  { destruct tick as [dt|]; cbn [tick_dt] in *.
    - cbn [run]. destruct (idle_tick_k c' e t0 n xk d dt Hdt Id') as [Id0 [W0 Ka]].
      destruct (step xk (OTick dt)) as [xa oba]. cbn [fst snd] in *. exists xa.
      split; [reflexivity|]. split; [constructor; [exact Ka | constructor]|]. split; [exact Id0 | exact W0].
    - exists xk. cbn [run fst snd]. split; [reflexivity|]. split; [constructor|]. split; [exact Id' | lia]. }
  destruct TK as [xa [Exa [Ka [Ida Wa]]]].
  unfold r2, restart_ops. rewrite run_app. rewrite <- Exa in Ida, Wa.
  destruct (run xk (match tick with Some dt => [OTick dt] | None => [] end)) as [xa' obsa]. cbn [fst snd] in *. clear Exa xa.
  destruct (start_run_k c' crit' e t0 hi n xa' d ops3 Hcfg' T' Y Ida Hb3 Htk3 ltac:(rewrite Wa, W; unfold hi; lia) ltac:(unfold n; lia))
    as [K3 [d' [Id2 [X [F2 W2]]]]].
  destruct (run xa' (OStart c' :: ops3 ++ [OStop])) as [x3 obs3]. cbn [fst snd] in *.
  split; [apply Forall_app; split; assumption|].
  exists n, d, d'. split; [exact Id|]. split; [exact F|]. split; [exact Id2|].
  split; [rewrite F2, F, <- app_assoc; reflexivity|]. split; [rewrite W2, Wa, W; unfold hi; lia | exact X].
Qed.

(* ------------------------------------------------------------------ THE THEOREMS *)
(* The killed writer: Timestamps naming, direct mode (TsKill.v), any history, any kill point.  After the crash the clock
   advances by dt >= 0, then a new writer with the same file spec and the same choice of use_utc - its own criterion, buffer
   capacity and append flag - runs ops3 and is stopped.
   - Every operation of the new writer succeeds (Forall obs_ok: no error result, no panic) - also on the directory WITHOUT
     rCURRENT that a kill between the rename and the creation of a rotation leaves.
   - The final directory consists exactly of the closed files named by keys, in the order of their closing, and rCURRENT (if the
     new writer never writes and the kill left none, there is still none); read in this order they hold exactly acknowledged ++
     the new writer's records.
   - keys_ok keys: over BOTH runs the names are pairwise distinct and increasing in the order of closing - no name is used twice *)
Theorem timestamps_kill_restart c crit c' crit' t0 off ops1 k ops2 dt ops3 :
  tscfg c crit -> tag_ok c -> c_cap c = None ->
  tscfg c' crit' -> c_spec c' = c_spec c -> c_utc c' = c_utc c ->
  Forall basic_op ops1 -> Forall basic_op ops2 -> Forall basic_op ops3 ->
  Forall tick_ok ops1 -> Forall tick_ok ops2 -> Forall tick_ok ops3 -> (0 <= dt)%Z ->
  let e := ts_e c off in
  (0 <= t0 + e)%Z -> (t0 + elapsed ops1 + elapsed ops2 + dt + elapsed ops3 + e < sec_max)%Z ->
  (N.of_nat (length ops1 + length ops2 + length ops3 + 2) <= usize_max)%N ->
  let x1 := fst (run (sys0 t0 off) (OStart c :: ops1 ++ [OSetKill k])) in
  let xk := fst (run (sys0 t0 off) (OStart c :: ops1 ++ [OSetKill k] ++ ops2 ++ [OCrash])) in
  let r2 := run xk (OTick dt :: OStart c' :: ops3 ++ [OStop]) in
  Forall obs_ok (snd r2)
  /\ exists keys closed ocur,
       ts_view_opt c' e (wfs (s_w (fst r2))) keys closed ocur
       /\ keys_ok keys
       /\ (forall key, In key keys -> (t0 <= fst key <= t0 + elapsed ops1 + elapsed ops2 + dt + elapsed ops3)%Z)
       /\ concat closed ++ (match ocur with Some cu => cu | None => [] end) = written ops1 ++ acked x1 ops2 ++ written ops3.
Proof.
  intros Hcfg T Hcap Hcfg' Hsp Hutc Hb1 Hb2 Hb3 Htk1 Htk2 Htk3 Hdt e Hlo Hhi Hmax x1 xk r2.
  destruct (kill_restart_t c crit c' crit' t0 off ops1 k ops2 (Some dt) ops3 Hcfg T Hcap Hcfg' Hsp Hutc Hb1 Hb2 Hb3 Htk1 Htk2 Htk3
              Hdt Hlo Hhi Hmax) as [K [n [d [d' [_ [_ [Id2 [F2 [W2 _]]]]]]]]].
  split; [exact K|]. cbn [tick_dt] in W2.
  destruct (idleK_view c' (ts_e c off) t0 _ _ d' Id2) as [V [Ko Rg]].
  exists (keysK d'), (closedK d'), (ocurK d'). split; [exact (V c' eq_refl)|]. split; [exact Ko|].
  split; [|exact F2]. intros key Ik. specialize (Rg key Ik).
  change (restart_ops (Some dt) c' ops3) with (OTick dt :: OStart c' :: ops3 ++ [OStop]) in Rg, W2. rewrite W2 in Rg. exact Rg.
Qed.
Print Assumptions timestamps_kill_restart.

(* the same without an operation between the crash and the restart (the form of the theorems for Numbers / NumbersDirect naming) *)
Theorem timestamps_kill_restart_now c crit c' crit' t0 off ops1 k ops2 ops3 :
  tscfg c crit -> tag_ok c -> c_cap c = None ->
  tscfg c' crit' -> c_spec c' = c_spec c -> c_utc c' = c_utc c ->
  Forall basic_op ops1 -> Forall basic_op ops2 -> Forall basic_op ops3 ->
  Forall tick_ok ops1 -> Forall tick_ok ops2 -> Forall tick_ok ops3 ->
  let e := ts_e c off in
  (0 <= t0 + e)%Z -> (t0 + elapsed ops1 + elapsed ops2 + elapsed ops3 + e < sec_max)%Z ->
  (N.of_nat (length ops1 + length ops2 + length ops3 + 2) <= usize_max)%N ->
  let x1 := fst (run (sys0 t0 off) (OStart c :: ops1 ++ [OSetKill k])) in
  let xk := fst (run (sys0 t0 off) (OStart c :: ops1 ++ [OSetKill k] ++ ops2 ++ [OCrash])) in
  let r2 := run xk (OStart c' :: ops3 ++ [OStop]) in
  Forall obs_ok (snd r2)
  /\ exists keys closed ocur,
       ts_view_opt c' e (wfs (s_w (fst r2))) keys closed ocur
       /\ keys_ok keys
       /\ concat closed ++ (match ocur with Some cu => cu | None => [] end) = written ops1 ++ acked x1 ops2 ++ written ops3.
Proof.
  intros Hcfg T Hcap Hcfg' Hsp Hutc Hb1 Hb2 Hb3 Htk1 Htk2 Htk3 e Hlo Hhi Hmax x1 xk r2.
  destruct (kill_restart_t c crit c' crit' t0 off ops1 k ops2 None ops3 Hcfg T Hcap Hcfg' Hsp Hutc Hb1 Hb2 Hb3 Htk1 Htk2 Htk3
              ltac:(cbn [tick_dt]; lia) Hlo ltac:(cbn [tick_dt]; fold e; lia) Hmax) as [K [n [d [d' [_ [_ [Id2 [F2 _]]]]]]]].
  split; [exact K|].
  destruct (idleK_view c' (ts_e c off) t0 _ _ d' Id2) as [V [Ko _]].
  exists (keysK d'), (closedK d'), (ocurK d'). split; [exact (V c' eq_refl)|]. split; [exact Ko | exact F2].
Qed.
Print Assumptions timestamps_kill_restart_now.

(* the closed files that the killed writer left are closed files of the final directory, under their names and with their contents
   (rCURRENT, if the kill left one, is continued - with append - or closed under the key of its birth second) *)
Theorem timestamps_kill_restart_keep c crit c' crit' t0 off ops1 k ops2 dt ops3 :
  tscfg c crit -> tag_ok c -> c_cap c = None ->
  tscfg c' crit' -> c_spec c' = c_spec c -> c_utc c' = c_utc c ->
  Forall basic_op ops1 -> Forall basic_op ops2 -> Forall basic_op ops3 ->
  Forall tick_ok ops1 -> Forall tick_ok ops2 -> Forall tick_ok ops3 -> (0 <= dt)%Z ->
  let e := ts_e c off in
  (0 <= t0 + e)%Z -> (t0 + elapsed ops1 + elapsed ops2 + dt + elapsed ops3 + e < sec_max)%Z ->
  (N.of_nat (length ops1 + length ops2 + length ops3 + 2) <= usize_max)%N ->
  let xk := fst (run (sys0 t0 off) (OStart c :: ops1 ++ [OSetKill k] ++ ops2 ++ [OCrash])) in
  let x2 := fst (run xk (OTick dt :: OStart c' :: ops3 ++ [OStop])) in
  exists keys1 closed1 ocur1 keys2 closed2 ocur2 mk mc,
    ts_view_opt c e (wfs (s_w xk)) keys1 closed1 ocur1
    /\ ts_view_opt c' e (wfs (s_w x2)) keys2 closed2 ocur2 /\ keys_ok keys2
    /\ keys2 = keys1 ++ mk /\ closed2 = closed1 ++ mc.
Proof.
  intros Hcfg T Hcap Hcfg' Hsp Hutc Hb1 Hb2 Hb3 Htk1 Htk2 Htk3 Hdt e Hlo Hhi Hmax xk x2.
  destruct (kill_restart_t c crit c' crit' t0 off ops1 k ops2 (Some dt) ops3 Hcfg T Hcap Hcfg' Hsp Hutc Hb1 Hb2 Hb3 Htk1 Htk2 Htk3
              Hdt Hlo Hhi Hmax) as [_ [n [d1 [d2 [Id1 [_ [Id2 [_ [_ [mk [mc [Ek Ec]]]]]]]]]]]].
  destruct (idleK_view c (ts_e c off) t0 _ _ d1 Id1) as [V1 _].
  destruct (idleK_view c' (ts_e c off) t0 _ _ d2 Id2) as [V2 [Ko2 _]].
  exists (keysK d1), (closedK d1), (ocurK d1), (keysK d2), (closedK d2), (ocurK d2), mk, mc.
  split; [exact (V1 c eq_refl)|]. split; [exact (V2 c' eq_refl)|]. split; [exact Ko2|]. split; [exact Ek | exact Ec].
Qed.
Print Assumptions timestamps_kill_restart_keep.

(* ------------------------------------------------------------------ examples (non-vacuity) *)
Open Scope string_scope.
(* the new writer: buffered, size criterion 100 *)
Definition tskr_cfg2 (app : bool) : config := ext_cfg (ex_sp "log") app (CSize 100) (Some 8%nat) false.
Definition tskr_ops3 : list op := [OWrite (bs "xy"); OFlush; OTick 5; OTrigger; OWrite (bs "z")].

(* the killed writer of TsKill.v (tsk_hist; the clock shows 1 at the crash).
   Kill point 1: NO rCURRENT ("ef" was renamed, the creation was killed).  The new writer - with or without append - creates
   rCURRENT (born in second 1) and writes "xy"; its trigger (clock 6) closes it as <01>.
   Kill point 2: an empty rCURRENT, born in second 0.  With append it is continued ("xy", closed as <00>.restart-0001, the next
   free name of its birth second); without append the empty file is closed under that name and a new rCURRENT, born in second 1,
   takes "xy" (closed as <01>).
   Kill point 0 (nothing happened): rCURRENT = "ef" *)
Example tskr_dirs :
  List.map (fun ka : nat * bool => snap_of (fst (run (fst (run (sys0 0 0) (tsk_hist false (fst ka)))) (OStart (tskr_cfg2 (snd ka)) :: tskr_ops3 ++ [OStop]))))
           [(1, true); (1, false); (2, true); (2, false); (0, true); (0, false)]
  = [ [ (bs "app_r1970-01-01_00-00-00.log", 0%N, bs "abcd"); (bs "app_r1970-01-01_00-00-00.restart-0000.log", 0%N, bs "ef");
        (bs "app_r1970-01-01_00-00-01.log", 0%N, bs "xy"); (bs "app_rCURRENT.log", 0%N, bs "z") ];
      [ (bs "app_r1970-01-01_00-00-00.log", 0%N, bs "abcd"); (bs "app_r1970-01-01_00-00-00.restart-0000.log", 0%N, bs "ef");
        (bs "app_r1970-01-01_00-00-01.log", 0%N, bs "xy"); (bs "app_rCURRENT.log", 0%N, bs "z") ];
      [ (bs "app_r1970-01-01_00-00-00.log", 0%N, bs "abcd"); (bs "app_r1970-01-01_00-00-00.restart-0000.log", 0%N, bs "ef");
        (bs "app_r1970-01-01_00-00-00.restart-0001.log", 0%N, bs "xy"); (bs "app_rCURRENT.log", 0%N, bs "z") ];
      [ (bs "app_r1970-01-01_00-00-00.log", 0%N, bs "abcd"); (bs "app_r1970-01-01_00-00-00.restart-0000.log", 0%N, bs "ef");
        (bs "app_r1970-01-01_00-00-00.restart-0001.log", 0%N, []); (bs "app_r1970-01-01_00-00-01.log", 0%N, bs "xy");
        (bs "app_rCURRENT.log", 0%N, bs "z") ];
      [ (bs "app_r1970-01-01_00-00-00.log", 0%N, bs "abcd"); (bs "app_r1970-01-01_00-00-00.restart-0000.log", 0%N, bs "efxy");
        (bs "app_rCURRENT.log", 0%N, bs "z") ];
      [ (bs "app_r1970-01-01_00-00-00.log", 0%N, bs "abcd"); (bs "app_r1970-01-01_00-00-00.restart-0000.log", 0%N, bs "ef");
        (bs "app_r1970-01-01_00-00-01.log", 0%N, bs "xy"); (bs "app_rCURRENT.log", 0%N, bs "z") ] ].
Proof. vm_compute. reflexivity. Qed.

(* a new writer that does not write leaves the directory without rCURRENT as it is *)
Example tskr_no_write :
  snap_of (fst (run (fst (run (sys0 0 0) (tsk_hist false 1))) (OStart (tskr_cfg2 true) :: [OFlush; OTrigger] ++ [OStop])))
  = [ (bs "app_r1970-01-01_00-00-00.log", 0%N, bs "abcd"); (bs "app_r1970-01-01_00-00-00.restart-0000.log", 0%N, bs "ef") ].
Proof. vm_compute. reflexivity. Qed.

Lemma tskr_basic3 : Forall basic_op tskr_ops3.
Proof. repeat constructor. Qed.
Lemma tskr_ticks3 : Forall tick_ok tskr_ops3.
Proof. repeat (apply Forall_cons; [cbn [tick_ok]; first [exact Logic.I | lia]|]); apply Forall_nil. Qed.
Lemma tskr_cfg2_ok app : tscfg (tskr_cfg2 app) (CSize 100).
Proof. apply ext_cfg_ok. reflexivity. Qed.

(* the theorems applied: the restart on the directory without rCURRENT *)
Example tskr_restart_now_instance :
  let r2 := run (fst (run (sys0 0 0) (tsk_hist false 1))) (OStart (tskr_cfg2 true) :: tskr_ops3 ++ [OStop]) in
  Forall obs_ok (snd r2)
  /\ exists keys closed ocur, ts_view_opt (tskr_cfg2 true) 0 (wfs (s_w (fst r2))) keys closed ocur /\ keys_ok keys
       /\ concat closed ++ (match ocur with Some cu => cu | None => [] end) = bs "abcdefxyz".
Proof.
  destruct (timestamps_kill_restart_now (tsk_cfg false) (CSize 3) (tskr_cfg2 true) (CSize 100) 0 0 tsk_ops1 1 tsk_ops2 tskr_ops3
              (tsk_cfg_ok false) (tsk_tag_ok false) eq_refl (tskr_cfg2_ok true) eq_refl eq_refl
              tsk_basic1 tsk_basic2 tskr_basic3 tsk_ticks1 tsk_ticks2 tskr_ticks3) as [K [keys [closed [ocur [V [Ko E]]]]]];
    [change (0 <= 0)%Z; lia | change (6 + 0 < sec_max)%Z; unfold sec_max; lia | vm_compute; discriminate |].
  split; [exact K|]. exists keys, closed, ocur. split; [exact V|]. split; [exact Ko|]. rewrite E. vm_compute. reflexivity.
Qed.

(* ... and two seconds after the crash, without append, after the kill in the rotating write (kill point 6: rCURRENT empty) *)
Example tskr_restart_instance :
  let r2 := run (fst (run (sys0 0 0) (tsk_hist false 6))) (OTick 2 :: OStart (tskr_cfg2 false) :: tskr_ops3 ++ [OStop]) in
  Forall obs_ok (snd r2)
  /\ exists keys closed ocur, ts_view_opt (tskr_cfg2 false) 0 (wfs (s_w (fst r2))) keys closed ocur /\ keys_ok keys
       /\ concat closed ++ (match ocur with Some cu => cu | None => [] end) = bs "abcdefghijklxyz".
Proof.
  destruct (timestamps_kill_restart (tsk_cfg false) (CSize 3) (tskr_cfg2 false) (CSize 100) 0 0 tsk_ops1 6 tsk_ops2 2 tskr_ops3
              (tsk_cfg_ok false) (tsk_tag_ok false) eq_refl (tskr_cfg2_ok false) eq_refl eq_refl
              tsk_basic1 tsk_basic2 tskr_basic3 tsk_ticks1 tsk_ticks2 tskr_ticks3 ltac:(lia))
    as [K [keys [closed [ocur [V [Ko [_ E]]]]]]];
    [change (0 <= 0)%Z; lia | change (8 + 0 < sec_max)%Z; unfold sec_max; lia | vm_compute; discriminate |].
  split; [exact K|]. exists keys, closed, ocur. split; [exact V|]. split; [exact Ko|]. rewrite E. vm_compute. reflexivity.
Qed.

Print Assumptions timestamps_kill_restart.
Print Assumptions timestamps_kill_restart_now.
Print Assumptions timestamps_kill_restart_keep.
