(* Timestamps naming (rCURRENT + r<time stamp>[.restart-NNNN]) with a size criterion: the partition theorem, the rotation
   flags and the C08 oracle for whole runs from an empty directory.
   The relation RelT of TsRun.v does not say anything about the roll state; here it is strengthened (RelTz) by the two
   facts that the size rule needs: the size counted in the roll state is the length of the reader's view of the current
   file (disk + buffer), and a size criterion stays a size criterion.  The roll state that the lemmas of TsInv.v hide
   behind an existential is recovered from the equations they give (mount_next and initialize are functions). *)
Require Import FL.Base.Bytes FL.Base.BytesFacts FL.Base.PathName FL.Fs.Fs FL.Fs.FsFacts FL.Time.Civil FL.Time.TsFormat
  FL.Names.FileSpec FL.Names.NamesFacts FL.Names.SortFacts FL.Names.FamilyFacts FL.Flw.Model FL.Flw.ModelFacts FL.Flw.NumFs
  FL.Flw.NumInv FL.Flw.Run FL.Flw.RunFacts FL.Flw.NumRun FL.Oracles.O_Flw FL.Oracles.ReaderOrder FL.Flw.NumTheorems FL.Flw.NumListing
  FL.Flw.NumRestart FL.Flw.NumDTheorems
  FL.Flw.TsCal FL.Flw.TsTime FL.Flw.TsMono FL.Flw.TsNames FL.Flw.TsInv FL.Flw.TsRun FL.Flw.TsTheorems FL.Flw.TsReader
  FL.Flw.TsdInv FL.Flw.TsdRun FL.Flw.TsdTheorems.
From Coq Require Import ZifyN ZifyNat ZifyBool Sorted.
Open Scope nat_scope.

(* ------------------------------------------------------------------ the roll state after a rotation, an initialisation *)
(* whatever the naming: a rotation that succeeds resets the roll state *)
Lemma mount_next_roll c w rs wr path force w' st' :
  mount_next c w (Active (Some rs) wr path) force = (Ok tt, w', st') ->
  force || rotation_necessary w (rs_roll rs) = true ->
  exists rs' wr' path' w3, st' = Active (Some rs') wr' path' /\ rs_roll rs' = reset_size_and_date w3 (rs_roll rs) path'.
Proof.
  intros E H. unfold mount_next in E. rewrite H in E.
  assert (Fin : forall infix w1 ns1,
    match open_log_file c w1 (Some infix) with
    | (Ok (wr', path'), w2) =>
      let '(okf, w2a, wra) := w_flush w2 wr in
      let w2b := if okf then w2a else report EFlush w2a in
      let w3 := w_drop w2b wra in
      let roll' := reset_size_and_date w3 (rs_roll rs) path' in
      let '(rc, w4) := cleanup_or_queue c w3 (rs_bg rs) (rs_cleanup rs) (ns_filter ns1) (if ns_writes_direct ns1 then Some path' else None) in
      let st' := Active (Some {| rs_naming := ns1; rs_roll := roll'; rs_cleanup := rs_cleanup rs; rs_bg := rs_bg rs |}) wr' path' in
      (match rc with Ok _ => Ok tt | Err => Err | Panic => Panic end, w4, st')
    | (Err, w2) => (Err, w2, Active (Some {| rs_naming := ns1; rs_roll := rs_roll rs; rs_cleanup := rs_cleanup rs; rs_bg := rs_bg rs |}) wr path)
    | (Panic, w2) => (Panic, w2, Active (Some {| rs_naming := ns1; rs_roll := rs_roll rs; rs_cleanup := rs_cleanup rs; rs_bg := rs_bg rs |}) wr path)
    end = (Ok tt, w', st') ->
    exists rs' wr' path' w3, st' = Active (Some rs') wr' path' /\ rs_roll rs' = reset_size_and_date w3 (rs_roll rs) path').
  { intros infix w1 ns1 E1.
    destruct (open_log_file c w1 (Some infix)) as [[[wr' path']| |] w2]; try discriminate.
    destruct (w_flush w2 wr) as [[okf w2a] wra].
    cbv zeta in E1.
    match type of E1 with context [cleanup_or_queue ?a ?b ?d ?e ?g ?h] => destruct (cleanup_or_queue a b d e g h) as [rc w4] end.
    destruct rc; try discriminate. injection E1 as <- <-.
    eexists _, wr', path', _. split; reflexivity. }
  destruct (rs_naming rs) as [ts [cur|] fmt | idx | idx].
  - destruct (creation_ts_of_current c w cur true (Some ts) fmt) as [[ts'| |] w1]; try discriminate. exact (Fin _ _ _ E).
  - destruct (collision_free c w (infix_from_ts c w fmt (wnow w))) as [[i| |] w1]; try discriminate. exact (Fin _ _ _ E).
  - destruct (index_for_rcurrent c w (Some idx) true) as [[idx'| |] w1]; try discriminate. exact (Fin _ _ _ E).
  - exact (Fin _ _ _ E).
Qed.

Lemma reset_size_ok w roll p : roll_size_ok (reset_size_and_date w roll p) 0.
Proof. destruct roll; cbn; auto. Qed.
Lemma reset_keeps_size w roll p m cur : roll = RSize m cur -> exists cur', reset_size_and_date w roll p = RSize m cur'.
Proof. intros ->. cbn. eauto. Qed.

(* the roll state of a freshly initialised writer is the one that roll_new computes in the world that is returned *)
Lemma initialize_roll c w crit nam rs wr p w' :
  c_rot c = Some (crit, nam, KNever) -> initialize c w = (Ok (Active (Some rs) wr p), w') ->
  exists w2, roll_new w2 crit (c_append c) p = (Ok (rs_roll rs), w').
Proof.
  intros Hrot E. unfold initialize in E. rewrite Hrot in E.
  destruct (init_naming c w nam) as [[[ns infix]| |] w1]; cbn [bind] in E; try discriminate.
  destruct (open_log_file c w1 (Some infix)) as [[[wr0 path]| |] w2]; cbn [bind] in E; try discriminate.
  destruct (roll_new w2 crit (c_append c) path) as [[roll| |] w3] eqn:ER; cbn [bind] in E; try discriminate.
  injection E as <- <- <- <-. exists w2. exact ER.
Qed.

Lemma roll_new_size w crit app p roll w' : roll_new w crit app p = (Ok roll, w') ->
  exists size created,
    roll = match crit with CSize n => RSize n size | CAge a => RAge a created | CAgeOrSize a n => RAgeSize a created n size end
    /\ (if app then exists f, file_of (wfs w') p = Some f /\ size = N.of_nat (length (fdata f)) else size = 0%N).
Proof.
  unfold roll_new. destruct app.
  - destruct (tick w) as [fl w1]. destruct fl; [discriminate|].
    destruct (file_of (wfs w1) p) as [f|] eqn:Ef; [|discriminate].
    intros E. injection E as <- <-. eexists _, _. split; [reflexivity|]. exists f. split; [exact Ef | reflexivity].
  - intros E. injection E as <- <-. eexists _, _. split; reflexivity.
Qed.

(* ------------------------------------------------------------------ the lemmas of TsInv.v with the roll state *)
Lemma mount_next_rotates_tz c crit e lo hi w wr keys closed ts roll force :
  tscfg c crit -> tag_ok c -> years_ok e lo hi -> TsInv c e lo w wr keys closed ts ->
  (wnow w <= hi)%Z -> (N.of_nat (length closed) <= usize_max)%N ->
  force || rotation_necessary w roll = true ->
  exists w' wr' roll',
    mount_next c w (Active (Some (mk_rs (NSTs ts (Some cur_infix) std_fmt) roll)) wr (cname c)) force
      = (Ok tt, w', Active (Some (mk_rs (NSTs (wnow w) (Some cur_infix) std_fmt) roll')) wr' (cname c))
    /\ TsInv c e lo w' wr' (keys ++ [(ts, count ts keys)]) (closed ++ [cur_view w wr]) (wnow w)
    /\ cur_view w' wr' = [] /\ same_env w w'
    /\ roll_size_ok roll' 0 /\ (forall m cur, roll = RSize m cur -> exists cur', roll' = RSize m cur').
Proof.
  intros Hcfg T Y I Hhi Hmax Hnec.
  destruct (mount_next_rotates_ts c crit e lo hi w wr keys closed ts roll force Hcfg T Y I Hhi Hmax Hnec) as [w' [wr' [roll' [E [I' [V' S']]]]]].
  exists w', wr', roll'. split; [exact E|]. split; [exact I'|]. split; [exact V'|]. split; [exact S'|].
  destruct (mount_next_roll _ _ _ _ _ _ _ _ E Hnec) as [rs' [wr'' [p' [w3 [Est Er]]]]].
  injection Est as Ers _ _. rewrite <- Ers in Er. cbn [mk_rs rs_roll] in Er. rewrite Er.
  split; [apply reset_size_ok | apply reset_keeps_size].
Qed.

Lemma write_active_tz c crit e lo hi w wr keys closed ts roll b :
  tscfg c crit -> tag_ok c -> years_ok e lo hi -> TsInv c e lo w wr keys closed ts ->
  (wnow w <= hi)%Z -> (N.of_nat (length closed) <= usize_max)%N -> roll_size_ok roll (length (cur_view w wr)) ->
  let rot := rotation_necessary w roll in
  exists w' wr' roll' keys' closed' ts',
    write_buffer (st_ts c ts roll wr) w b = (Ok tt, w', st_ts c ts' roll' wr', rot)
    /\ TsInv c e lo w' wr' keys' closed' ts' /\ same_env w w'
    /\ (closed', cur_view w' wr') = (if rot then (closed ++ [cur_view w wr], b) else (closed, cur_view w wr ++ b))
    /\ roll_size_ok roll' (length (cur_view w' wr'))
    /\ (forall m cur, roll = RSize m cur -> exists cur', roll' = RSize m cur').
Proof.
  intros Hcfg T Y I Hhi Hmax Hsz rot.
  unfold write_buffer, st_ts. cbn [f_cfg f_inner f_poisoned mk_rs rs_roll]. fold rot.
  assert (M : exists w1 wr1 roll1 keys1 closed1 ts1,
            mount_next c w (Active (Some (mk_rs (NSTs ts (Some cur_infix) std_fmt) roll)) wr (cname c)) false
            = (Ok tt, w1, Active (Some (mk_rs (NSTs ts1 (Some cur_infix) std_fmt) roll1)) wr1 (cname c))
            /\ TsInv c e lo w1 wr1 keys1 closed1 ts1 /\ same_env w w1
            /\ (closed1, cur_view w1 wr1) = (if rot then (closed ++ [cur_view w wr], []) else (closed, cur_view w wr))
            /\ roll_size_ok roll1 (length (cur_view w1 wr1))
            /\ (forall m cur, roll = RSize m cur -> exists cur', roll1 = RSize m cur')).
  { destruct rot eqn:Er.
    - destruct (mount_next_rotates_tz c crit e lo hi w wr keys closed ts roll false Hcfg T Y I Hhi Hmax)
        as [w1 [wr1 [roll1 [E [I1 [V1 [S1 [Z1 R1]]]]]]]]; [exact Er|].
      exists w1, wr1, roll1, (keys ++ [(ts, count ts keys)]), (closed ++ [cur_view w wr]), (wnow w). rewrite V1.
      split; [exact E|]. split; [exact I1|]. split; [exact S1|]. split; [reflexivity|]. split; [exact Z1 | exact R1].
    - exists w, wr, roll, keys, closed, ts. split.
      + unfold mount_next. cbn [mk_rs rs_roll orb]. unfold rot in Er. rewrite Er. reflexivity.
      + split; [exact I|]. split; [apply same_env_refl; apply I|]. split; [reflexivity|]. split; [exact Hsz | eauto]. }
  destruct M as [w1 [wr1 [roll1 [keys1 [closed1 [ts1 [E [I1 [S1 [V1 [Z1 R1]]]]]]]]]]].
  rewrite E.
  destruct (w_write_quiet w1 wr1 b (ti_quiet _ _ _ _ _ _ _ _ I1) (ti_wr _ _ _ _ _ _ _ _ I1)) as [w2 [wr2 [fl [Ew [S2 [F2 [Ei [Ec [Ep Hok]]]]]]]]].
  rewrite Ew.
  destruct (tsinv_append c e lo w1 w2 wr1 wr2 keys1 closed1 ts1 fl I1 F2 S2 Ei Ec Hok) as [I2 C2].
  exists w2, wr2, (increase_size roll1 (N.of_nat (length b))), keys1, closed1, ts1.
  assert (V2 : cur_view w2 wr2 = cur_view w1 wr1 ++ b).
  { unfold cur_view. rewrite C2, <- !app_assoc, Ep. reflexivity. }
  split; [reflexivity|]. split; [exact I2|].
  split; [eapply same_env_trans; eassumption|].
  split. { rewrite V2. destruct rot; injection V1 as -> ->; reflexivity. }
  split. { rewrite V2, app_length. apply roll_size_increase. exact Z1. }
  intros m cur Hr. destruct (R1 m cur Hr) as [cur' ->]. cbn. eauto.
Qed.

Lemma initialize_empty_tz c crit e lo w :
  tscfg c crit -> quiet w -> names (wfs w) = [] -> inodes (wfs w) = [] -> eoff c w = e -> (lo <= wnow w)%Z ->
  exists w' wr roll,
    initialize c w = (Ok (Active (Some (mk_rs (NSTs (wnow w) (Some cur_infix) std_fmt) roll)) wr (cname c)), w')
    /\ TsInv c e lo w' wr [] [] (wnow w) /\ cur_view w' wr = [] /\ same_env w w'
    /\ roll_size_ok roll 0 /\ (forall m, crit = CSize m -> roll = RSize m 0).
Proof.
  intros Hcfg Q Hn Hi Hoff Hlo.
  destruct (initialize_empty_ts c crit e lo w Hcfg Q Hn Hi Hoff Hlo) as [w' [wr [roll [E [I [V S]]]]]].
  exists w', wr, roll. split; [exact E|]. split; [exact I|]. split; [exact V|]. split; [exact S|].
  destruct (initialize_roll c w crit NTimestamps _ _ _ _ (proj1 Hcfg) E) as [w2 ER]. cbn [mk_rs rs_roll] in ER.
  destruct (roll_new_size _ _ _ _ _ _ ER) as [size [created [Er Hs]]].
  assert (Z : size = 0%N).
  { destruct (c_append c); [|exact Hs]. destruct Hs as [f [Ef ->]].
    unfold file_of in Ef. rewrite (ti_cur _ _ _ _ _ _ _ _ I) in Ef. injection Ef as <-.
    unfold cur_view in V. apply app_eq_nil in V. destruct V as [V _]. unfold content in V. rewrite V. reflexivity. }
  subst size. rewrite Er. split; [destruct crit; reflexivity | intros m ->; reflexivity].
Qed.

(* ------------------------------------------------------------------ the relation of TsRun.v with the roll state *)
Definition RelTz (c : config) (crit : criterion) (e lo : Z) (n : nat) (x : sys) (a : aview) : Prop :=
  s_tl x = [] /\ wacts (s_w x) = 0 /\
  match a with
  | None => s_flw x = Some (new_flw c) /\ quiet (s_w x) /\ names (wfs (s_w x)) = [] /\ inodes (wfs (s_w x)) = []
            /\ eoff c (s_w x) = e /\ (lo <= wnow (s_w x))%Z
  | Some (closed, cur) =>
    exists keys wr roll ts, s_flw x = Some (st_ts c ts roll wr) /\ TsInv c e lo (s_w x) wr keys closed ts
      /\ cur_view (s_w x) wr = cur /\ length closed <= n
      /\ roll_size_ok roll (length cur) /\ (forall m, crit = CSize m -> exists k, roll = RSize m k)
  end.

Lemma RelTz_RelT c crit e lo n x a : RelTz c crit e lo n x a -> RelT c e lo n x a.
Proof.
  intros [Ht [Ha R]]. split; [exact Ht|]. split; [exact Ha|]. destruct a as [[closed cur]|]; [|exact R].
  destruct R as [keys [wr [roll [ts [Es [I [V [Hn _]]]]]]]]. exists keys, wr, roll, ts. auto.
Qed.

Lemma start_rel_tz c crit t0 off : RelTz c crit (ts_e c off) t0 0 (fst (step (sys0 t0 off) (OStart c))) None.
Proof. cbn. repeat split. cbn. lia. Qed.

(* what a write does, from either kind of state *)
Lemma write_rel_tz c crit e lo hi n x a b :
  tscfg c crit -> tag_ok c -> years_ok e lo hi -> RelTz c crit e lo n x a ->
  (wnow (s_w x) <= hi)%Z -> (N.of_nat n <= usize_max)%N ->
  exists s w' s' rot, s_flw x = Some s /\ f_poisoned s = false /\
    write_buffer s (s_w x) b = (Ok tt, w', s', rot)
    /\ RelTz c crit e lo (S n) {| s_flw := Some s'; s_w := w'; s_tl := []; s_dead := s_dead x |} (a_step a (OWrite b) rot)
    /\ wnow w' = wnow (s_w x)
    /\ (forall m, crit = CSize m ->
          rot = (m <? N.of_nat (length (match a with Some (_, cu) => cu | None => [] end)))%N).
Proof.
  intros Hcfg T Y [Ht [Ha R]] Hhi Hmax. destruct a as [[closed cur]|].
  - destruct R as [keys [wr [roll [ts [Es [I [V [Hn [Z RS]]]]]]]]].
    rewrite <- V in Z.
    destruct (write_active_tz c crit e lo hi (s_w x) wr keys closed ts roll b Hcfg T Y I Hhi ltac:(lia) Z)
      as [w' [wr' [roll' [keys' [closed' [ts' [E [I' [S' [V' [Z' R']]]]]]]]]]].
    exists (st_ts c ts roll wr), w', (st_ts c ts' roll' wr'), (rotation_necessary (s_w x) roll).
    split; [exact Es|]. split; [reflexivity|]. split; [exact E|].
    split; [|split; [exact (same_env_now _ _ S')|]].
    + split; [reflexivity|]. split; [cbn [s_w]; exact (same_env_acts _ _ S' Ha)|].
      cbn [a_step]. rewrite V in V'.
      destruct (rotation_necessary (s_w x) roll); injection V' as -> V''; (exists keys', wr', roll', ts'; cbn [s_flw s_w];
        split; [reflexivity|]; split; [exact I'|]; split; [exact V''|]; split; [rewrite ?app_length; cbn [length]; lia|];
        split; [rewrite <- V''; exact Z'|];
        intros m Hm; destruct (RS m Hm) as [k ->]; destruct (R' m k eq_refl) as [k' ->]; eauto).
    + intros m Hm. destruct (RS m Hm) as [k ->]. cbn in Z. subst k. rewrite V. reflexivity.
  - destruct R as [Es [Q [Hn [Hi [Hoff Hlo]]]]].
    destruct (initialize_empty_tz c crit e lo (s_w x) Hcfg Q Hn Hi Hoff Hlo) as [w1 [wr [roll [Ei [I [V [S1 [Z RS]]]]]]]].
    assert (Hhi1 : (wnow w1 <= hi)%Z) by (rewrite (same_env_now _ _ S1); exact Hhi).
    assert (Z0 : roll_size_ok roll (length (cur_view w1 wr))) by (rewrite V; exact Z).
    destruct (write_active_tz c crit e lo hi w1 wr [] [] (wnow (s_w x)) roll b Hcfg T Y I Hhi1 ltac:(cbn [length]; lia) Z0)
      as [w' [wr' [roll' [keys' [closed' [ts' [E [I' [S' [V' [Z' R']]]]]]]]]]].
    exists (new_flw c), w', (st_ts c ts' roll' wr'), (rotation_necessary w1 roll).
    split; [exact Es|]. split; [reflexivity|].
    split. { rewrite (write_buffer_init c (s_w x) b _ _ _ w1 Ei). exact E. }
    split; [|split; [rewrite (same_env_now _ _ S'); exact (same_env_now _ _ S1)|]].
    + split; [reflexivity|]. split; [cbn [s_w]; exact (same_env_acts _ _ (same_env_trans _ _ _ S1 S') Ha)|].
      cbn [a_step]. rewrite V in V'. cbn [app] in V'.
      destruct (rotation_necessary w1 roll); injection V' as -> V''; (exists keys', wr', roll', ts'; cbn [s_flw s_w];
        split; [reflexivity|]; split; [exact I'|]; split; [exact V''|]; split; [cbn [app length]; lia|];
        split; [rewrite <- V''; exact Z'|]).
      * intros m Hm. rewrite (RS m Hm) in R'. destruct (R' m 0%N eq_refl) as [k' ->]; eauto.
      * intros m Hm. rewrite (RS m Hm) in R'. destruct (R' m 0%N eq_refl) as [k' ->]; eauto.
    + intros m Hm. rewrite (RS m Hm). reflexivity.
Qed.

Lemma RelTz_mono c crit e lo n x a : RelTz c crit e lo n x a -> RelTz c crit e lo (S n) x a.
Proof.
  intros [Ht [Ha R]]. split; [exact Ht|]. split; [exact Ha|]. destruct a as [[closed cur]|]; [|exact R].
  destruct R as [keys [wr [roll [ts [Es [I [V [Hn ZR]]]]]]]]. exists keys, wr, roll, ts.
  split; [exact Es|]. split; [exact I|]. split; [exact V|]. split; [lia | exact ZR].
Qed.

(* one basic operation *)
Lemma step_rel_tz c crit e lo hi n x a o :
  tscfg c crit -> tag_ok c -> years_ok e lo hi -> RelTz c crit e lo n x a -> basic_op o -> tick_ok o ->
  (wnow (s_w x) <= hi)%Z -> (N.of_nat n <= usize_max)%N ->
  let '(x', ob) := step x o in
  RelTz c crit e lo (S n) x' (a_step a o (rot_of ob)) /\ wnow (s_w x') = (wnow (s_w x) + dt_of o)%Z
  /\ (forall b m, (o = OWrite b \/ o = OPlain b) -> crit = CSize m ->
        ob = ObsRes 0 (m <? N.of_nat (length (match a with Some (_, cu) => cu | None => [] end)))%N).
Proof.
  intros Hcfg T Y R Hb Htk Hhi Hmax. rewrite (step_sync_rel_ts c crit e lo n x a o Hcfg (RelTz_RelT _ _ _ _ _ _ _ R)).
  destruct o; try contradiction; cbn [sync_step dt_of].
  - (* OWrite *)
    destruct (write_rel_tz c crit e lo hi n x a b Hcfg T Y R Hhi Hmax) as [s [w' [s' [rot [Es [Hp [E [R' [Hw C]]]]]]]]].
    rewrite Es, Hp. rewrite (proj1 R). cbn [app]. rewrite E. cbn [rot_of s_w]. split; [exact R'|]. split; [lia|].
    intros b0 m _ Hm. rewrite (C m Hm). reflexivity.
  - (* OPlain *)
    destruct (write_rel_tz c crit e lo hi n x a b Hcfg T Y R Hhi Hmax) as [s [w' [s' [rot [Es [Hp [E [R' [Hw C]]]]]]]]].
    rewrite Es, Hp, E. cbn [rot_of code_of s_w]. rewrite (proj1 R). split; [exact R'|]. split; [lia|].
    intros b0 m _ Hm. rewrite (C m Hm). reflexivity.
  - (* OFlush *)
    destruct R as [Ht [Ha R]]. destruct a as [[closed cur]|].
    + destruct R as [keys [wr [roll [ts [Es [I [V [Hn ZR]]]]]]]]. rewrite Es. cbn [st_ts f_poisoned].
      destruct (flush_active_ts c e lo (s_w x) wr keys closed ts roll I) as [w' [wr' [E [I' [V' [P' S']]]]]].
      fold (st_ts c ts roll wr). rewrite E. cbn [rot_of a_step s_w].
      split; [|split; [rewrite (same_env_now _ _ S'); lia | intros b m [H|H]; discriminate]].
      split; [exact Ht|]. split; [exact (same_env_acts _ _ S' Ha)|]. exists keys, wr', roll, ts. cbn [s_flw s_w].
      split; [reflexivity|]. split; [exact I'|]. split; [congruence|]. split; [lia | exact ZR].
    + destruct R as [Es R]. rewrite Es. cbn [new_flw f_poisoned flush_state f_inner rot_of a_step s_w].
      split; [|split; [lia | intros b m [H|H]; discriminate]].
      split; [exact Ht|]. split; [exact Ha|]. split; [reflexivity | exact R].
  - (* OTrigger *)
    destruct R as [Ht [Ha R]]. destruct a as [[closed cur]|].
    + destruct R as [keys [wr [roll [ts [Es [I [V [Hn [Z RS]]]]]]]]]. rewrite Es. cbn [st_ts f_poisoned f_cfg f_inner].
      destruct (mount_next_rotates_tz c crit e lo hi (s_w x) wr keys closed ts roll true Hcfg T Y I Hhi ltac:(lia) eq_refl)
        as [w' [wr' [roll' [E [I' [V' [S' [Z' R']]]]]]]].
      rewrite E. cbn [rot_of a_step code_of with_inner f_cfg f_poisoned s_w].
      split; [|split; [rewrite (same_env_now _ _ S'); lia | intros b m [H|H]; discriminate]].
      split; [exact Ht|]. split; [exact (same_env_acts _ _ S' Ha)|]. rewrite V in *.
      exists (keys ++ [(ts, count ts keys)]), wr', roll', (wnow (s_w x)). cbn [s_flw s_w].
      split; [reflexivity|]. split; [exact I'|]. split; [exact V'|]. split; [rewrite app_length; cbn [length]; lia|]. split; [exact Z'|].
      intros m Hm. destruct (RS m Hm) as [k ->]. destruct (R' m k eq_refl) as [k' ->]. eauto.
    + destruct R as [Es R]. rewrite Es. cbn [new_flw f_poisoned f_cfg f_inner mount_next with_inner rot_of a_step code_of s_w].
      split; [|split; [lia | intros b m [H|H]; discriminate]].
      split; [exact Ht|]. split; [exact Ha|]. split; [reflexivity | exact R].
  - (* OTick *)
    cbn [rot_of a_step s_w set_now wnow tick_ok] in *. split; [|split; [reflexivity | intros b m [H|H]; discriminate]].
    destruct R as [Ht [Ha R]]. split; [exact Ht|]. split; [exact Ha|]. destruct a as [[closed cur]|].
    + destruct R as [keys [wr [roll [ts [Es [I [V [Hn ZR]]]]]]]]. exists keys, wr, roll, ts. cbn [s_flw s_w].
      split; [exact Es|]. split; [apply tsinv_tick; assumption|]. split; [exact V|]. split; [lia | exact ZR].
    + cbn [s_flw s_w]. destruct R as [Es [Q [Hn [Hi [Hoff Hlo]]]]]. repeat split; try assumption; try apply Q. cbn [set_now wnow]. lia.
  - (* OSnap *)
    cbn [rot_of a_step]. split; [apply RelTz_mono; exact R|]. split; [lia | intros b m [H|H]; discriminate].
Qed.

(* a run: the relation, the clock, and - for a size criterion - the rotation flags *)
Lemma run_rel_tz c crit e lo hi : tscfg c crit -> tag_ok c -> years_ok e lo hi ->
  forall ops x a n, RelTz c crit e lo n x a -> Forall basic_op ops -> Forall tick_ok ops ->
  (wnow (s_w x) + elapsed ops <= hi)%Z -> (N.of_nat (n + length ops) <= usize_max)%N ->
  RelTz c crit e lo (n + length ops) (fst (run x ops)) (a_run a ops (snd (run x ops)))
  /\ wnow (s_w (fst (run x ops))) = (wnow (s_w x) + elapsed ops)%Z
  /\ (forall m, crit = CSize m ->
        a_run a ops (snd (run x ops)) = s_run m a ops
        /\ (forall i o, nth_error ops i = Some o -> forall b, (o = OWrite b \/ o = OPlain b) ->
              nth_error (snd (run x ops)) i = Some (ObsRes 0 (m <? N.of_nat (length (cur_of (s_run m a (firstn i ops)))))%N))).
Proof.
  intros Hcfg T Y. induction ops as [|o r IH]; intros x a n R Hb Htk Hhi Hmax.
  - cbn [run fst snd a_run length elapsed]. rewrite Nat.add_0_r. split; [exact R|]. split; [lia|].
    intros m _. split; [reflexivity|]. intros i o H. destruct i; discriminate.
  - cbn [run]. inversion Hb as [|o' r' Ho Hr]; subst. inversion Htk as [|o' r' Hto Htr]; subst.
    cbn [elapsed length] in *. pose proof (elapsed_nonneg r Htr) as Er.
    assert (Hdt : (0 <= dt_of o)%Z) by (destruct o; cbn [dt_of tick_ok] in *; lia).
    pose proof (step_rel_tz c crit e lo hi n x a o Hcfg T Y R Ho Hto ltac:(lia) ltac:(lia)) as S. destruct (step x o) as [x1 ob].
    destruct S as [R1 [W1 C1]]. specialize (IH x1 _ (S n) R1 Hr Htr ltac:(lia) ltac:(lia)). destruct (run x1 r) as [x2 obs].
    cbn [fst snd a_run] in *. replace (n + S (length r)) with (S n + length r) by lia. destruct IH as [IH1 [IH2 IH3]].
    split; [exact IH1|]. split; [lia|].
    intros m Hm. destruct (IH3 m Hm) as [IHa IHb].
    assert (Erot : a_step a o (rot_of ob) = a_step a o (m <? N.of_nat (length (cur_of a)))%N).
    { destruct o; try reflexivity.
      - rewrite (C1 b m (or_introl eq_refl) Hm). reflexivity.
      - rewrite (C1 b m (or_intror eq_refl) Hm). reflexivity. }
    cbn [s_run]. rewrite <- Erot. split; [exact IHa|].
    intros i o0 Hi b Hw. destruct i as [|i].
    + cbn in Hi. injection Hi as <-. cbn [nth_error firstn s_run]. f_equal. apply (C1 b m Hw Hm).
    + cbn [nth_error firstn s_run] in *. rewrite <- Erot. apply (IHb i o0 Hi b Hw).
Qed.

(* ------------------------------------------------------------------ the view of a whole run *)
Lemma run_view_ts c crit t0 off ops :
  tscfg c crit -> tag_ok c -> Forall basic_op ops -> Forall tick_ok ops ->
  (0 <= t0 + ts_e c off)%Z -> (t0 + elapsed ops + ts_e c off < sec_max)%Z -> (N.of_nat (length ops) <= usize_max)%N ->
  exists x0 ob0, step (sys0 t0 off) (OStart c) = (x0, ob0) /\
    let a := a_run None ops (snd (run x0 ops)) in
    let f := wfs (s_w (fst (run (sys0 t0 off) (OStart c :: ops ++ [OStop])))) in
    match a with
    | None => names f = []
    | Some (closed, cur) => exists keys, ts_view c (ts_e c off) f keys closed cur /\ keys_ok keys
                                         /\ (forall k, In k keys -> (t0 <= fst k <= t0 + elapsed ops)%Z)
    end
    /\ flat a = written ops
    /\ (forall m, crit = CSize m ->
          a = s_run m None ops
          /\ (forall i o, nth_error ops i = Some o -> forall b, (o = OWrite b \/ o = OPlain b) ->
                nth_error (snd (run x0 ops)) i = Some (ObsRes 0 (m <? N.of_nat (length (cur_of (s_run m None (firstn i ops)))))%N))).
Proof.
  intros Hcfg T Hb Htk Hlo Hhi Hmax. cbn [run]. destruct (step (sys0 t0 off) (OStart c)) as [x0 ob0] eqn:E0.
  exists x0, ob0. split; [reflexivity|].
  pose proof (start_rel_tz c crit t0 off) as R0. rewrite E0 in R0. cbn [fst] in R0.
  assert (W0 : wnow (s_w x0) = t0) by (cbn in E0; injection E0 as <- _; reflexivity).
  assert (Y : years_ok (ts_e c off) t0 (t0 + elapsed ops)) by (split; assumption).
  rewrite run_app.
  pose proof (run_rel_tz c crit _ _ _ Hcfg T Y ops x0 None 0 R0 Hb Htk ltac:(lia) ltac:(cbn [Nat.add]; exact Hmax)) as [R1 [W1 Z1]].
  pose proof (run_length ops x0) as L.
  destruct (run x0 ops) as [x1 obs1]. cbn [fst snd] in *.
  pose proof (stop_rel_ts c crit _ _ _ x1 _ Hcfg (RelTz_RelT _ _ _ _ _ _ _ R1)) as S. cbn [run]. destruct (step x1 OStop) as [x2 ob2]. cbn [fst].
  pose proof (a_run_flat ops None obs1 Hb L) as F. cbn [flat app] in F.
  split; [|split; [exact F | exact Z1]].
  destruct (a_run None ops obs1) as [[cl cu]|].
  - destruct S as [keys [V [K Rg]]]. exists keys. split; [exact V|]. split; [exact K|].
    intros k Ik. specialize (Rg k Ik). lia.
  - exact S.
Qed.

(* ------------------------------------------------------------------ facts about the abstract run and the oracle *)
Lemma s_run_app m : forall ops1 ops2 a, s_run m a (ops1 ++ ops2) = s_run m (s_run m a ops1) ops2.
Proof. induction ops1 as [|o r IH]; intros ops2 a; cbn [s_run app]; [reflexivity | apply IH]. Qed.

Lemma s_run_some m : forall ops p, exists q, s_run m (Some p) ops = Some q.
Proof.
  induction ops as [|o r IH]; intros p; cbn [s_run]; [eauto|].
  destruct (a_step_some p o (m <? N.of_nat (length (cur_of (Some p))))%N) as [q ->]. apply IH.
Qed.

Lemma s_run_none_iff m ops : Forall basic_op ops -> (s_run m None ops = None <-> has_write ops = false).
Proof.
  induction ops as [|o r IH]; intros Hb; [cbn; tauto|].
  inversion Hb as [|o' r' Ho Hr]; subst.
  destruct o; try contradiction; cbn [s_run has_write]; try (cbn [a_step]; apply IH; exact Hr).
  - assert (X : exists p, a_step None (OWrite b) (m <? N.of_nat (length (cur_of None)))%N = Some p)
      by exact (a_step_some ([], []) (OWrite b) _).
    destruct X as [p ->]. destruct (s_run_some m r p) as [q ->]. split; discriminate.
  - assert (X : exists p, a_step None (OPlain b) (m <? N.of_nat (length (cur_of None)))%N = Some p)
      by exact (a_step_some ([], []) (OPlain b) _).
    destruct X as [p ->]. destruct (s_run_some m r p) as [q ->]. split; discriminate.
Qed.

(* nothing is expected exactly when no record was written *)
Lemma expected_nil_iff m ops : Forall basic_op ops -> (expected_files m None (items false ops) = [] <-> has_write ops = false).
Proof.
  intros Hb. rewrite <- s_run_none by exact Hb. rewrite <- (s_run_none_iff m ops Hb).
  destruct (s_run m None ops) as [[cl cu]|]; cbn [files_of]; split; try discriminate; try reflexivity.
  intros H. destruct cl; discriminate.
Qed.

(* a trigger at the end of a history with a record: one more file, an empty one *)
Lemma expected_trigger_end m ops : Forall basic_op ops -> has_write ops = true ->
  expected_files m None (items false (ops ++ [OTrigger])) = expected_files m None (items false ops) ++ [[]].
Proof.
  intros Hb Hw.
  assert (Hb' : Forall basic_op (ops ++ [OTrigger])) by (apply Forall_app; split; [exact Hb | repeat constructor]).
  rewrite <- !s_run_none by assumption. rewrite s_run_app.
  destruct (s_run m None ops) as [[cl cu]|] eqn:E.
  - reflexivity.
  - apply (s_run_none_iff m ops Hb) in E. congruence.
Qed.

(* ------------------------------------------------------------------ the theorems *)
(* C08 for Timestamps naming with a size criterion: any size limit, buffer capacity, append flag, use_utc.
   After the writer is stopped
   - either no record was written: nothing is expected, and the directory is empty (a trigger, a flush, a clock tick before
     the first record leave no trace: no file has been opened yet);
   - or the expected files - the greedy partition of the records (Oracles/O_Flw.v), the very same lists as for Numbers,
     NumbersDirect and TimestampsDirect naming - are  closed ++ [cur]  with: the directory consists exactly (ts_view) of the
     closed files, named by their keys r<second>[.restart-NNNN] in the order of their closing, with the contents closed, and of
     rCURRENT with the content cur.  In particular there are exactly as many r<time stamp> files as rotations, rCURRENT always
     exists, and it holds the last list of the partition.
   When the history ends right after a rotation: a rotation by size happens in a write and the record goes into the new
   rCURRENT, which then holds just this record; a trigger at the end leaves an EMPTY rCURRENT and all records in the closed
   files (timestamps_partition_trigger_end).
   The keys are those of keys_ok (seconds non-decreasing, positions 0, 1, 2.. within a second; TsTheorems.keys_ok_order,
   ts_names_distinct); the second of a key is the one in which the file was CREATED, it lies in t0 .. t0 + elapsed ops. *)
Theorem timestamps_partition c m t0 off ops :
  tscfg c (CSize m) -> tag_ok c -> Forall basic_op ops -> Forall tick_ok ops ->
  (0 <= t0 + ts_e c off)%Z -> (t0 + elapsed ops + ts_e c off < sec_max)%Z -> (N.of_nat (length ops) <= usize_max)%N ->
  let f := wfs (s_w (fst (run (sys0 t0 off) (OStart c :: ops ++ [OStop])))) in
  let files := expected_files m None (items false ops) in
  (has_write ops = false /\ files = [] /\ names f = [])
  \/ exists keys closed cur,
       has_write ops = true
       /\ files = closed ++ [cur]
       /\ ts_view c (ts_e c off) f keys closed cur
       /\ keys_ok keys
       /\ (forall k, In k keys -> (t0 <= fst k <= t0 + elapsed ops)%Z).
Proof.
  intros Hcfg T Hb Htk Hlo Hhi Hmax.
  destruct (run_view_ts c (CSize m) t0 off ops Hcfg T Hb Htk Hlo Hhi Hmax) as [x0 [ob0 [E0 [V [_ Z]]]]].
  cbv zeta in *. destruct (Z m eq_refl) as [Hs _]. rewrite Hs in V. rewrite <- s_run_none by assumption.
  destruct (s_run m None ops) as [[cl cu]|] eqn:E; cbn [files_of].
  - right. destruct V as [keys [V [K Rg]]]. exists keys, cl, cu.
    split; [|split; [reflexivity|]; split; [exact V|]; split; [exact K | exact Rg]].
    destruct (has_write ops) eqn:Hw; [reflexivity|]. apply (s_run_none_iff m ops Hb) in Hw. congruence.
  - left. split; [apply (s_run_none_iff m ops Hb); exact E|]. split; [reflexivity | exact V].
Qed.
Print Assumptions timestamps_partition.

(* the same with the two parts named: closed = all but the last list of the partition, current = the last one *)
Corollary timestamps_partition_last c m t0 off ops :
  tscfg c (CSize m) -> tag_ok c -> Forall basic_op ops -> Forall tick_ok ops ->
  (0 <= t0 + ts_e c off)%Z -> (t0 + elapsed ops + ts_e c off < sec_max)%Z -> (N.of_nat (length ops) <= usize_max)%N ->
  has_write ops = true ->
  let files := expected_files m None (items false ops) in
  exists keys,
    ts_view c (ts_e c off) (wfs (s_w (fst (run (sys0 t0 off) (OStart c :: ops ++ [OStop]))))) keys (removelast files) (last files [])
    /\ length keys = length files - 1
    /\ keys_ok keys /\ (forall k, In k keys -> (t0 <= fst k <= t0 + elapsed ops)%Z).
Proof.
  intros Hcfg T Hb Htk Hlo Hhi Hmax Hw.
  destruct (timestamps_partition c m t0 off ops Hcfg T Hb Htk Hlo Hhi Hmax) as [[Hw' _]|[keys [cl [cu [_ [Ef [V [K Rg]]]]]]]]; [congruence|].
  cbv zeta in *. rewrite Ef, removelast_last, last_last. exists keys. split; [exact V|]. split; [|split; assumption].
  rewrite app_length. cbn [length]. destruct V as [Hl _]. lia.
Qed.

(* a trigger as the last operation (after at least one record): rCURRENT is empty, the closed files hold everything *)
Corollary timestamps_partition_trigger_end c m t0 off ops :
  tscfg c (CSize m) -> tag_ok c -> Forall basic_op ops -> Forall tick_ok ops ->
  (0 <= t0 + ts_e c off)%Z -> (t0 + elapsed ops + ts_e c off < sec_max)%Z -> (N.of_nat (S (length ops)) <= usize_max)%N ->
  has_write ops = true ->
  exists keys,
    ts_view c (ts_e c off) (wfs (s_w (fst (run (sys0 t0 off) (OStart c :: (ops ++ [OTrigger]) ++ [OStop]))))) keys
            (expected_files m None (items false ops)) []
    /\ keys_ok keys /\ (forall k, In k keys -> (t0 <= fst k <= t0 + elapsed ops)%Z).
Proof.
  intros Hcfg T Hb Htk Hlo Hhi Hmax Hw.
  assert (Hb' : Forall basic_op (ops ++ [OTrigger])) by (apply Forall_app; split; [exact Hb | repeat constructor]).
  assert (Htk' : Forall tick_ok (ops ++ [OTrigger])) by (apply Forall_app; split; [exact Htk | repeat constructor]).
  assert (El : elapsed (ops ++ [OTrigger]) = elapsed ops).
  { clear. induction ops as [|o r IH]; [reflexivity|]. cbn [app elapsed]. rewrite IH. reflexivity. }
  assert (Hl : (N.of_nat (length (ops ++ [OTrigger])) <= usize_max)%N) by (rewrite app_length; cbn [length]; lia).
  destruct (timestamps_partition c m t0 off (ops ++ [OTrigger]) Hcfg T Hb' Htk' Hlo ltac:(rewrite El; exact Hhi) Hl)
    as [[_ [Hn _]]|[keys [cl [cu [_ [Ef [V [K Rg]]]]]]]].
  - rewrite expected_trigger_end in Hn by assumption. destruct (expected_files m None (items false ops)); discriminate.
  - cbv zeta in *. rewrite expected_trigger_end in Ef by assumption. apply app_inj_tail in Ef. destruct Ef as [<- <-].
    exists keys. split; [exact V|]. split; [exact K|]. rewrite El in Rg. exact Rg.
Qed.

(* each write reports a rotation exactly when the current file (disk + buffer) already exceeds the limit *)
Theorem timestamps_rotates_iff c m t0 off ops i o b :
  tscfg c (CSize m) -> tag_ok c -> Forall basic_op ops -> Forall tick_ok ops ->
  (0 <= t0 + ts_e c off)%Z -> (t0 + elapsed ops + ts_e c off < sec_max)%Z -> (N.of_nat (length ops) <= usize_max)%N ->
  nth_error ops i = Some o -> (o = OWrite b \/ o = OPlain b) ->
  nth_error (snd (run (sys0 t0 off) (OStart c :: ops))) (S i)
  = Some (ObsRes 0 (m <? N.of_nat (length (cur_of (s_run m None (firstn i ops)))))%N).
Proof.
  intros Hcfg T Hb Htk Hlo Hhi Hmax Hi Ho.
  destruct (run_view_ts c (CSize m) t0 off ops Hcfg T Hb Htk Hlo Hhi Hmax) as [x0 [ob0 [E0 [_ [_ Z]]]]].
  destruct (Z m eq_refl) as [_ Hr]. cbn [run]. rewrite E0. destruct (run x0 ops) as [x1 obs1]. cbn [snd nth_error] in *.
  exact (Hr i o Hi b Ho).
Qed.
Print Assumptions timestamps_rotates_iff.

(* the flag in terms of the oracle: the current file is the last list of the partition of the records so far *)
Corollary timestamps_rotates_last c m t0 off ops i o b :
  tscfg c (CSize m) -> tag_ok c -> Forall basic_op ops -> Forall tick_ok ops ->
  (0 <= t0 + ts_e c off)%Z -> (t0 + elapsed ops + ts_e c off < sec_max)%Z -> (N.of_nat (length ops) <= usize_max)%N ->
  nth_error ops i = Some o -> (o = OWrite b \/ o = OPlain b) ->
  nth_error (snd (run (sys0 t0 off) (OStart c :: ops))) (S i)
  = Some (ObsRes 0 (m <? N.of_nat (length (last (expected_files m None (items false (firstn i ops))) [])))%N).
Proof.
  intros Hcfg T Hb Htk Hlo Hhi Hmax Hi Ho. rewrite (timestamps_rotates_iff c m t0 off ops i o b Hcfg T Hb Htk Hlo Hhi Hmax Hi Ho).
  rewrite s_run_cur_last by (apply firstn_Forall; exact Hb). reflexivity.
Qed.

(* nothing is in the directory exactly when no record was written (any criterion) *)
Theorem timestamps_empty_iff c crit t0 off ops :
  tscfg c crit -> tag_ok c -> Forall basic_op ops -> Forall tick_ok ops ->
  (0 <= t0 + ts_e c off)%Z -> (t0 + elapsed ops + ts_e c off < sec_max)%Z -> (N.of_nat (length ops) <= usize_max)%N ->
  (names (wfs (s_w (fst (run (sys0 t0 off) (OStart c :: ops ++ [OStop]))))) = [] <-> has_write ops = false).
Proof.
  intros Hcfg T Hb Htk Hlo Hhi Hmax.
  destruct (run_view_ts c crit t0 off ops Hcfg T Hb Htk Hlo Hhi Hmax) as [x0 [ob0 [E0 [V _]]]]. cbv zeta in V.
  rewrite <- (a_run_none_iff ops (snd (run x0 ops)) (run_length ops x0) Hb).
  destruct (a_run None ops (snd (run x0 ops))) as [[cl cu]|].
  - split; [|discriminate]. intros Hn. exfalso. destruct V as [keys [[_ [_ [[j [L _]] _]]] _]].
    rewrite lookup_empty in L by assumption. discriminate.
  - split; [reflexivity|]. intros _. exact V.
Qed.
Print Assumptions timestamps_empty_iff.

(* the reader (Oracles/ReaderOrder.v: time stamp, then restart counter, rCURRENT last) applied to the snapshot of the final
   directory finds the greedy partition: the executable oracle of C08 accepts *)
Corollary timestamps_oracle_C08 c m t0 off ops :
  tscfg c (CSize m) -> tag_ok c -> not_gz c -> Forall basic_op ops -> Forall tick_ok ops ->
  (0 <= t0 + ts_e c off)%Z -> (t0 + elapsed ops + ts_e c off < sec_max)%Z -> (N.of_nat (length ops) <= usize_max)%N ->
  oracle_C08 m None (items false ops) (family_in_order c (snap_of (fst (run (sys0 t0 off) (OStart c :: ops ++ [OStop]))))) = true.
Proof.
  intros Hcfg T G Hb Htk Hlo Hhi Hmax. unfold oracle_C08.
  destruct (timestamps_partition c m t0 off ops Hcfg T Hb Htk Hlo Hhi Hmax) as [[_ [Ef Hn]]|[keys [cl [cu [_ [Ef [V [K Rg]]]]]]]];
    cbv zeta in *; rewrite Ef.
  - rewrite snap_of_list. unfold snap_list, dir_names. rewrite Hn. reflexivity.
  - assert (Y : years_ok (ts_e c off) t0 (t0 + elapsed ops)) by (split; assumption).
    pose proof (ts_reader_order c (CSize m) _ _ _ _ keys cl cu Hcfg G Y Rg K V) as E. rewrite <- snap_of_list in E.
    rewrite E. apply list_beq_refl.
Qed.
Print Assumptions timestamps_oracle_C08.

(* what the reader finds IS the partition (the oracle is the comparison with expected_files) *)
Corollary timestamps_reader_partition c m t0 off ops :
  tscfg c (CSize m) -> tag_ok c -> not_gz c -> Forall basic_op ops -> Forall tick_ok ops ->
  (0 <= t0 + ts_e c off)%Z -> (t0 + elapsed ops + ts_e c off < sec_max)%Z -> (N.of_nat (length ops) <= usize_max)%N ->
  family_in_order c (snap_of (fst (run (sys0 t0 off) (OStart c :: ops ++ [OStop])))) = expected_files m None (items false ops).
Proof.
  intros Hcfg T G Hb Htk Hlo Hhi Hmax.
  destruct (timestamps_partition c m t0 off ops Hcfg T Hb Htk Hlo Hhi Hmax) as [[_ [Ef Hn]]|[keys [cl [cu [_ [Ef [V [K Rg]]]]]]]];
    cbv zeta in *; rewrite Ef.
  - rewrite snap_of_list. unfold snap_list, dir_names. rewrite Hn. reflexivity.
  - assert (Y : years_ok (ts_e c off) t0 (t0 + elapsed ops)) by (split; assumption).
    pose proof (ts_reader_order c (CSize m) _ _ _ _ keys cl cu Hcfg G Y Rg K V) as E. rewrite <- snap_of_list in E. exact E.
Qed.

(* ------------------------------------------------------------------ examples (non-vacuity) *)
Import String.StringSyntax.
Open Scope string_scope.

(* a size limit of 3 bytes, a buffer of 3 bytes, append; the history of NumDTheorems.exd_ops: a trigger before the first
   record, buffered records, a clock tick, a rotation by size, a trigger at the end *)
Definition tsz_c : config := ext_cfg (ex_sp "log") true (CSize 3) (Some 3%nat) false.
Lemma tsz_c_ok : tscfg tsz_c (CSize 3).
Proof. apply ext_cfg_ok. reflexivity. Qed.
Lemma tsz_c_tag_ok : tag_ok tsz_c.
Proof. apply tag_free_ok. split; vm_compute; reflexivity. Qed.
Lemma tsz_c_not_gz : not_gz tsz_c.
Proof. vm_compute. reflexivity. Qed.

(* the directory that the model computes, and what the oracle expects: the write of "ef" finds "abcd" (4 > 3) and rotates -
   "abcd" gets the second of its creation, 0 -, the write of "hi" finds "g" and does not; the first trigger (before the first
   record) leaves no trace, the second one closes "ef" (created in second 3), the last one closes "ghi" (created in second 3 as
   well: restart-0000) and leaves an empty rCURRENT *)
Example ts_partition_dir :
  snap_of (fst (run (sys0 0 0) (OStart tsz_c :: exd_ops ++ [OStop])))
  = [ (bs "app_r1970-01-01_00-00-00.log", 0%N, bs "abcd");
      (bs "app_r1970-01-01_00-00-03.log", 0%N, bs "ef");
      (bs "app_r1970-01-01_00-00-03.restart-0000.log", 0%N, bs "ghi");
      (bs "app_rCURRENT.log", 0%N, bs "") ]
  /\ expected_files 3 None (items false exd_ops) = [bs "abcd"; bs "ef"; bs "ghi"; bs ""].
Proof. split; vm_compute; reflexivity. Qed.

(* the theorem applies: its hypotheses can be met, and it yields this view *)
Example ts_partition_instance :
  exists keys,
    ts_view tsz_c 0 (wfs (s_w (fst (run (sys0 0 0) (OStart tsz_c :: exd_ops ++ [OStop]))))) keys [bs "abcd"; bs "ef"; bs "ghi"] (bs "")
    /\ length keys = 3 /\ keys_ok keys /\ (forall k, In k keys -> (0 <= fst k <= 3)%Z).
Proof.
  apply (timestamps_partition_last tsz_c 3 0 0 exd_ops tsz_c_ok tsz_c_tag_ok exd_ops_basic exd_ops_ticks).
  - change (0 <= 0)%Z. lia.
  - change (3 < sec_max)%Z. unfold sec_max. lia.
  - vm_compute. discriminate.
  - reflexivity.
Qed.

(* the rotation flags of the writes, as computed: only the write of "ef" rotates; and by the theorem *)
Example ts_partition_flags :
  List.map rot_of (snd (run (sys0 0 0) (OStart tsz_c :: exd_ops)))
  = [false; false; false; false; true; false; false; false; false; false; false].
Proof. vm_compute. reflexivity. Qed.

Example ts_rotates_instance :
  nth_error (snd (run (sys0 0 0) (OStart tsz_c :: exd_ops))) 4 = Some (ObsRes 0 true).
Proof.
  rewrite (timestamps_rotates_iff tsz_c 3 0 0 exd_ops 3 (OWrite (bs "ef")) (bs "ef") tsz_c_ok tsz_c_tag_ok exd_ops_basic exd_ops_ticks).
  - vm_compute. reflexivity.
  - change (0 <= 0)%Z. lia.
  - change (3 < sec_max)%Z. unfold sec_max. lia.
  - vm_compute. discriminate.
  - reflexivity.
  - left. reflexivity.
Qed.

(* the oracle accepts the reader's view of this directory: computed, and by the theorem *)
Example ts_oracle_C08_computed :
  family_in_order tsz_c (snap_of (fst (run (sys0 0 0) (OStart tsz_c :: exd_ops ++ [OStop]))))
  = [bs "abcd"; bs "ef"; bs "ghi"; bs ""]
  /\ oracle_C08 3 None (items false exd_ops)
       (family_in_order tsz_c (snap_of (fst (run (sys0 0 0) (OStart tsz_c :: exd_ops ++ [OStop]))))) = true.
Proof. split; vm_compute; reflexivity. Qed.

Example ts_oracle_C08_instance :
  oracle_C08 3 None (items false exd_ops)
    (family_in_order tsz_c (snap_of (fst (run (sys0 0 0) (OStart tsz_c :: exd_ops ++ [OStop]))))) = true.
Proof.
  apply (timestamps_oracle_C08 tsz_c 3 0 0 exd_ops tsz_c_ok tsz_c_tag_ok tsz_c_not_gz exd_ops_basic exd_ops_ticks).
  - change (0 <= 0)%Z. lia.
  - change (3 < sec_max)%Z. unfold sec_max. lia.
  - vm_compute. discriminate.
Qed.

(* a history that ends right after a rotation by size: the record that caused it is alone in rCURRENT.  The closed file
   "efghij" was created in second 0 (by the rotation in the write of "ef") and closed in second 2: its name carries second 0,
   and since "abcd" carries it too, the restart counter 0000 *)
Definition tsz_ops2 : list op := [OWrite (bs "abcd"); OWrite (bs "ef"); OTick 2; OWrite (bs "ghij"); OPlain (bs "k")].
Example ts_partition_ends_with_rotation :
  snap_of (fst (run (sys0 0 0) (OStart tsz_c :: tsz_ops2 ++ [OStop])))
  = [ (bs "app_r1970-01-01_00-00-00.log", 0%N, bs "abcd");
      (bs "app_r1970-01-01_00-00-00.restart-0000.log", 0%N, bs "efghij");
      (bs "app_rCURRENT.log", 0%N, bs "k") ]
  /\ expected_files 3 None (items false tsz_ops2) = [bs "abcd"; bs "efghij"; bs "k"]
  /\ List.map rot_of (snd (run (sys0 0 0) (OStart tsz_c :: tsz_ops2))) = [false; false; true; false; false; true].
Proof. repeat split; vm_compute; reflexivity. Qed.

(* a history without a record: nothing is expected, nothing is created *)
Example ts_partition_no_write :
  snap_of (fst (run (sys0 0 0) (OStart tsz_c :: [OTrigger; OFlush; OTick 5; OTrigger] ++ [OStop]))) = []
  /\ expected_files 3 None (items false [OTrigger; OFlush; OTick 5; OTrigger]) = [].
Proof. split; vm_compute; reflexivity. Qed.
