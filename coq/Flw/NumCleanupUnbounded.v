(* Cleanup under the Numbers and NumbersDirect namings WITHOUT A BOUND ON THE NUMBER OF ROTATIONS.

   The directory listing that the cleanup works on is sorted by the key of FileSpec.sort_key and reversed.  Since the repair
   of the listing order the key carries the NUMBER behind the last "_r" of the name - in a name without any "_r" (no
   basename, no discriminant) behind the leading "r" - (length of the digits without leading zeros, then the digits), so
   r100000 is newer than r99999, and the theorems of NumCleanup*.v / NumDCleanup*.v hold for every history and every fixed
   name part; the only side condition left is sfx_ok (the suffix is not "gz" and does not end with ".gz").  Here:
     - the side conditions kside / dside spelled out (kside_iff, dside_iff): they do not depend on the number of closed files;
     - numbers_cleanup_unbounded, numbersdirect_cleanup_unbounded: the end-to-end theorems with sfx_ok as only side condition;
     - examples (hypotheses satisfiable, conclusion computed), with and without a fixed name part. *)
Require Import FL.Base.Bytes FL.Base.BytesFacts FL.Base.PathName FL.Fs.Fs FL.Fs.FsFacts FL.Time.Civil FL.Time.TsFormat
  FL.Names.FileSpec FL.Names.NamesFacts FL.Names.SortFacts FL.Names.FamilyFacts FL.Flw.Model FL.Flw.ModelFacts FL.Flw.NumFs
  FL.Flw.NumInv FL.Flw.Run FL.Flw.RunFacts FL.Flw.NumRun FL.Oracles.O_Flw FL.Flw.NumTheorems FL.Flw.NumListing FL.Flw.CleanupFacts
  FL.Flw.NumCleanupNames FL.Flw.NumCleanupStep FL.Flw.NumCleanupRun FL.Flw.NumCleanup
  FL.Flw.NumDInv FL.Flw.NumDRun FL.Flw.NumDCleanupStep FL.Flw.NumDCleanupRun FL.Flw.NumDCleanup FL.Flw.NumKillRestart FL.Flw.NoPanic.
From Coq Require Import ZifyN ZifyNat ZifyBool.
Open Scope nat_scope.

(* ------------------------------------------------------------------ the side conditions *)
Lemma kside_iff c k L : kside c k L <-> (klim k <> None -> sfx_ok (c_spec c)).
Proof. unfold kside. destruct (klim k); split; intros H; try exact I; try (intros _; exact H); [apply H; discriminate | congruence]. Qed.

Lemma dside_iff c k L : dside c k L <-> (klimd k <> None -> sfx_ok (c_spec c)).
Proof. unfold dside. destruct (klimd k); split; intros H; try exact I; try (intros _; exact H); [apply H; discriminate | congruence]. Qed.

Lemma kside_sfx c k L : sfx_ok (c_spec c) -> kside c k L.
Proof. intros Hs. unfold kside. destruct (klim k); [exact Hs | exact I]. Qed.

Lemma dside_sfx c k L : sfx_ok (c_spec c) -> dside c k L.
Proof. intros Hs. unfold dside. destruct (klimd k); [exact Hs | exact I]. Qed.

(* ------------------------------------------------------------------ Numbers *)
(* every history, however many rotations: in the end the directory holds the current file, the newest n closed files as
   they were closed and the next m as archives, and nothing else; what they hold is what was written *)
Theorem numbers_cleanup_unbounded c crit k t0 off ops :
  numkcfg c crit k -> Forall basic_op ops ->
  sfx_ok (c_spec c) ->
  let x0 := fst (step (sys0 t0 off) (OStart c)) in
  let a := a_run None ops (snd (run x0 ops)) in
  let r := run (sys0 t0 off) (OStart c :: ops ++ [OStop]) in
  let f := wfs (s_w (fst r)) in
  flat a = written ops
  /\ match a with
     | None => names f = []
     | Some (closed, cur) => kreader_view c f closed cur (k_lo k (length closed)) (k_mid k (length closed))
     end
  /\ Forall obs_ok (snd r).
Proof.
  intros Hcfg Hb Hs x0 a r f.
  destruct (numbers_cleanup_stream c crit k t0 off ops Hcfg Hb (kside_sfx c k _ Hs)) as [A B].
  split; [exact A|]. split; [exact B|].
  exact (numbers_cleanup_no_panic c crit k t0 off ops Hcfg Hb (kside_sfx c k _ Hs)).
Qed.

(* the next cleanup would see the files in the right order: newest first, whatever the indices are *)
Theorem numbers_listing_unbounded c f off lo mid L :
  sfx_ok (c_spec c) -> dir_shape c f lo mid L ->
  list_log_gz off (c_spec c) (fixed0 c) f IFNum = Some (listing c lo mid L).
Proof. intros Hs DS. apply list_log_gz_numbers; [exact Hs | exact DS]. Qed.

(* ------------------------------------------------------------------ NumbersDirect *)
(* every history, however many rotations: in the end the directory holds the file being written r<L>, the newest n - 1
   closed files as they were closed and the next m as archives, and nothing else; the file being written is never
   removed or compressed; no operation fails or panics *)
Theorem numbersdirect_cleanup_unbounded c crit k t0 off ops :
  numdkcfg c crit k -> Forall basic_op ops ->
  sfx_ok (c_spec c) ->
  let x0 := fst (step (sys0 t0 off) (OStart c)) in
  let a := a_run None ops (snd (run x0 ops)) in
  let r := run (sys0 t0 off) (OStart c :: ops ++ [OStop]) in
  let f := wfs (s_w (fst r)) in
  flat a = written ops
  /\ match a with
     | None => names f = []
     | Some (closed, cur) => dkreader_view c f closed cur (d_lo k (length closed)) (d_mid k (length closed))
     end
  /\ Forall obs_ok (snd r).
Proof.
  intros Hcfg Hb Hs x0 a r f.
  exact (numbersdirect_cleanup_stream c crit k t0 off ops Hcfg Hb (dside_sfx c k _ Hs)).
Qed.

Print Assumptions numbers_cleanup_unbounded.
Print Assumptions numbers_listing_unbounded.
Print Assumptions numbersdirect_cleanup_unbounded.

(* ------------------------------------------------------------------ examples *)
Import String.StringSyntax.
Local Open Scope string_scope.

(* Numbers, KLogGz 1 1, six records and five rotations: the hypotheses hold, the conclusion is the view (lo, mid) = (3, 4) *)
Example numbers_cleanup_unbounded_instance :
  let c := NumCleanup.ex_cfg (KLogGz 1 1) log_sfx in
  let r := run (sys0 0 0) (OStart c :: ex_ops ++ [OStop]) in
  fixed0 c = bs "a" /\
  kreader_view c (wfs (s_w (fst r))) (map (fun i => bs "abcd" ++ [N.of_nat i]) (seq 0 5)) (bs "abcd" ++ [5%N]) 3 4
  /\ Forall obs_ok (snd r).
Proof.
  intros c r. split; [reflexivity|].
  pose proof (numbers_cleanup_unbounded c (CSize 3) (KLogGz 1 1) 0 0 ex_ops (ex_numkcfg _ _) ex_ops_basic ex_sfx_ok) as T.
  cbv zeta in T.
  assert (Ea : a_run None ex_ops (snd (run (fst (step (sys0 0 0) (OStart c))) ex_ops))
               = Some (map (fun i => bs "abcd" ++ [N.of_nat i]) (seq 0 5), bs "abcd" ++ [5%N])) by (vm_compute; reflexivity).
  rewrite Ea in T. destruct T as (_ & V & K). split; [exact V | exact K].
Qed.

(* NumbersDirect, KLogGz 2 2: the view (lo, mid) = (2, 4) with L = 5 *)
Example numbersdirect_cleanup_unbounded_instance :
  let c := exd_kcfg (KLogGz 2 2) log_sfx in
  let r := run (sys0 0 0) (OStart c :: ex_ops ++ [OStop]) in
  dkreader_view c (wfs (s_w (fst r))) exd_closed (rec5 5) 2 4 /\ Forall obs_ok (snd r).
Proof.
  intros c r.
  pose proof (numbersdirect_cleanup_unbounded (exd_kcfg (KLogGz 2 2) log_sfx) (CSize 3) (KLogGz 2 2) 0 0 ex_ops (exd_numdkcfg _ _) ex_ops_basic (exd_sfx_ok _)) as T.
  cbv zeta in T. rewrite exd_view in T. destruct T as (_ & V & K). split; [exact V | exact K].
Qed.

(* beyond the old bound: a directory with the closed files 99999 (archive), 100000, 100001 (plain) and rCURRENT is listed
   newest first, by the theorem and by computation *)
Definition big3_fs : fs :=
  mkfile (mkfile (mkfile (mkfile empty_fs (gname big_c (N.to_nat 99999)) (bs "x") 1 10)
                         (rname big_c (N.to_nat 100001)) (bs "z") 0 30)
                 (rname big_c (N.to_nat 100000)) (bs "y") 0 20)
         (cname big_c) (bs "cur") 0 40.
Example numbers_listing_unbounded_instance :
  list_log_gz 0 (c_spec big_c) (fixed0 big_c) big3_fs IFNum
  = Some [bs "a_r100001.log"; bs "a_r100000.log"; bs "a_r99999.log.gz"]
  /\ listing big_c (N.to_nat 99999) (N.to_nat 100000) (N.to_nat 100002) = [bs "a_r100001.log"; bs "a_r100000.log"; bs "a_r99999.log.gz"].
Proof. vm_compute. split; reflexivity. Qed.

(* without basename and discriminant: the same history under the names r<number>.log; the view is the same *)
Definition nofix_k (k : cleanup) : config :=
  {| c_spec := {| fbase := []; fdisc := None; fts := false; fsfx := log_sfx |};
     c_append := false; c_cap := None; c_rot := Some (CSize 3, NNumbers, k); c_utc := false; c_symlink := false;
     c_bg := false; c_async := false; c_start := None |}.
Example numbers_cleanup_unbounded_instance_empty_fixed :
  let c := nofix_k (KLogGz 1 1) in
  let r := run (sys0 0 0) (OStart c :: ex_ops ++ [OStop]) in
  fixed0 c = [] /\
  kreader_view c (wfs (s_w (fst r))) (map (fun i => bs "abcd" ++ [N.of_nat i]) (seq 0 5)) (bs "abcd" ++ [5%N]) 3 4
  /\ Forall obs_ok (snd r)
  /\ sort_names (dir_names (wfs (s_w (fst r)))) = [bs "r00003.log.gz"; bs "r00004.log"; bs "rCURRENT.log"].
Proof.
  intros c r. split; [reflexivity|].
  pose proof (numbers_cleanup_unbounded (nofix_k (KLogGz 1 1)) (CSize 3) (KLogGz 1 1) 0 0 ex_ops ltac:(repeat split) ex_ops_basic
                ltac:(vm_compute; reflexivity)) as T.
  cbv zeta in T.
  assert (Ea : a_run None ex_ops (snd (run (fst (step (sys0 0 0) (OStart (nofix_k (KLogGz 1 1))))) ex_ops))
               = Some (map (fun i => bs "abcd" ++ [N.of_nat i]) (seq 0 5), bs "abcd" ++ [5%N])) by (vm_compute; reflexivity).
  rewrite Ea in T. destruct T as (_ & V & K). split; [exact V|]. split; [exact K|]. vm_compute. reflexivity.
Qed.

(* beyond the old bound without fixed name part: archive 99999, plain 100000 and 100001, rCURRENT *)
Definition big3_nofix_fs : fs :=
  mkfile (mkfile (mkfile (mkfile empty_fs (gname nofix_c (N.to_nat 99999)) (bs "x") 1 10)
                         (rname nofix_c (N.to_nat 100001)) (bs "z") 0 30)
                 (rname nofix_c (N.to_nat 100000)) (bs "y") 0 20)
         (cname nofix_c) (bs "cur") 0 40.
Example numbers_listing_unbounded_instance_empty_fixed :
  list_log_gz 0 (c_spec nofix_c) (fixed0 nofix_c) big3_nofix_fs IFNum
  = Some [bs "r100001.log"; bs "r100000.log"; bs "r99999.log.gz"]
  /\ listing nofix_c (N.to_nat 99999) (N.to_nat 100000) (N.to_nat 100002) = [bs "r100001.log"; bs "r100000.log"; bs "r99999.log.gz"].
Proof. vm_compute. split; reflexivity. Qed.
