(* Numbers naming with a cleanup strategy: sequences of runs on one directory where EVERY RUN HAS ITS OWN CLEANUP STRATEGY
   (KNever included), part 1: one run.  The directory between two writers is kreader_view c f closed cur lo mid with a
   window (lo, mid) that is no longer a function of the number of closed files: a cleanup with limits (n, m) at L closed
   files moves it to (max lo (L - (n+m)), max mid (L - n)) - it never moves back, so a strategy with larger limits
   does not bring back anything, and an archive never becomes a plain file again.
   What is known of the window: A and B are lower bounds of n + m and of n over all strategies used (1 <= A: every
   strategy keeps at least one closed file - otherwise the numbering starts again and numbers are reused, see
   NumCleanupRestartEx.v), then at least min(L, A) closed files survive, at least min(L, B) of them plain;
   and after a run that has written something, its own limits hold (at most n plain, at most n + m in all). *)
Require Import FL.Base.Bytes FL.Base.BytesFacts FL.Base.PathName FL.Fs.Fs FL.Fs.FsFacts FL.Time.Civil FL.Time.TsFormat
  FL.Names.FileSpec FL.Names.NamesFacts FL.Names.SortFacts FL.Names.FamilyFacts FL.Flw.Model FL.Flw.ModelFacts FL.Flw.NumFs
  FL.Flw.NumInv FL.Flw.Run FL.Flw.RunFacts FL.Flw.NumRun FL.Flw.NumListing FL.Oracles.O_Flw FL.Flw.NumTheorems FL.Flw.CleanupFacts
  FL.Flw.NumCleanupNames FL.Flw.NumCleanupStep FL.Flw.NumCleanupRun FL.Flw.NumRestart FL.Flw.KillFacts FL.Flw.NumKill
  FL.Flw.NumKillRestart FL.Flw.NoPanic FL.Flw.NumCleanupKillDir FL.Flw.NumCleanupKillStep FL.Flw.NumCleanupKill
  FL.Flw.NumCleanupKillListing FL.Flw.NumCleanupKillRestart FL.Flw.NumCleanupRestart.
From Coq Require Import ZifyN ZifyNat ZifyBool.
Open Scope nat_scope.

(* ------------------------------------------------------------------ the window *)
(* the strategy keeps at least A closed files, at least B of them plain (KNever keeps everything) *)
Definition kok (A B : nat) (k : cleanup) : Prop :=
  match klim k with None => True | Some (n, m) => A <= n + m /\ B <= n end.
(* at least min(L, A) closed files are there, at least min(L, B) of them plain *)
Definition WinOK (A B lo mid L : nat) : Prop := Nat.min L A <= L - lo /\ Nat.min L B <= L - mid.
(* the limits of the strategy are respected *)
Definition kup (k : cleanup) (lo mid L : nat) : Prop :=
  match klim k with None => True | Some (n, m) => L - mid <= n /\ L - lo <= n + m end.

Lemma knew_lo_ge k lo L : lo <= knew_lo k lo L.
Proof. unfold knew_lo. destruct (klim k) as [[n m]|]; lia. Qed.
Lemma knew_mid_ge k mid L : mid <= knew_mid k mid L.
Proof. unfold knew_mid. destruct (klim k) as [[n m]|]; lia. Qed.
Lemma kup_knew k lo mid L : kup k (knew_lo k lo L) (knew_mid k mid L) L.
Proof. unfold kup, knew_lo, knew_mid. destruct (klim k) as [[n m]|]; lia. Qed.
Lemma winok_knew A B k lo mid L : kok A B k -> WinOK A B lo mid L -> WinOK A B (knew_lo k lo L) (knew_mid k mid L) L.
Proof. unfold kok, WinOK, knew_lo, knew_mid. destruct (klim k) as [[n m]|]; lia. Qed.
Lemma winok_S A B lo mid L : lo <= L -> mid <= L -> WinOK A B lo mid L -> WinOK A B lo mid (S L).
Proof. unfold WinOK. lia. Qed.
Lemma winok_based A B lo mid L : 1 <= A -> WinOK A B lo mid L -> lo < L \/ L = 0.
Proof. unfold WinOK. lia. Qed.

(* ------------------------------------------------------------------ the directory between two writers *)
Definition kdir_view_v (A B : nat) (c : config) (f : fs) (v : aview) (lo mid : nat) : Prop :=
  match v with
  | None => names f = [] /\ inodes f = [] /\ lo = 0 /\ mid = 0
  | Some (cl, cu) => fs_wf f /\ kreader_view c f cl cu lo mid /\ WinOK A B lo mid (length cl)
  end.
Definition IdleV (A B : nat) (c : config) (x : sys) (v : aview) (lo mid : nat) : Prop :=
  s_tl x = [] /\ wacts (s_w x) = 0 /\ s_flw x = None /\ quiet (s_w x) /\ kdir_view_v A B c (wfs (s_w x)) v lo mid.
Definition PreV (A B : nat) (c : config) (x : sys) (v : aview) (lo mid : nat) : Prop :=
  s_tl x = [] /\ wacts (s_w x) = 0 /\ s_flw x = Some (new_flw c) /\ quiet (s_w x) /\ kdir_view_v A B c (wfs (s_w x)) v lo mid.

Lemma kdir_view_v_spec A B c c' f v lo mid : c_spec c = c_spec c' -> kdir_view_v A B c f v lo mid -> kdir_view_v A B c' f v lo mid.
Proof.
  intros E. destruct v as [[cl cu]|]; cbn [kdir_view_v]; [|tauto].
  intros (W & R & X). split; [exact W|]. split; [exact (kreader_view_spec c c' f cl cu _ _ E R) | exact X].
Qed.
Lemma idlev_spec A B c c' x v lo mid : c_spec c = c_spec c' -> IdleV A B c x v lo mid -> IdleV A B c' x v lo mid.
Proof.
  intros E (H1 & H2 & H3 & H4 & H5). split; [exact H1|]. split; [exact H2|]. split; [exact H3|]. split; [exact H4|].
  exact (kdir_view_v_spec A B c c' _ v lo mid E H5).
Qed.

Lemma empty_kst c f : names f = [] -> kst c f f [] None 0 0 None.
Proof.
  intros Hn. destruct (empty_view c f Hn) as [W _].
  assert (E : forall y, file_of f y = None) by (intros y; apply file_of_none; apply lookup_empty; exact Hn).
  constructor; [exact W | unfold nodup_names, dir_names; rewrite Hn; constructor | | apply same_at_refl].
  constructor.
  - cbn [length]. lia.
  - cbn [length]. intros i Hi. lia.
  - intros i Hi. lia.
  - apply E.
  - exact I.
  - intros x fl Hx. rewrite E in Hx. discriminate.
Qed.

Section OneRunV.
Variables (A B : nat) (c : config) (crit : criterion) (k : cleanup).
Hypothesis HA : 1 <= A.
Hypothesis Hcfg : numkcfg c crit k.
Hypothesis Hkok : kok A B k.
Hypothesis Hsfx : sfx_ok (c_spec c).

Lemma kside_v L : kside c k L.
Proof. unfold kside. destruct (klim k); [exact Hsfx | exact I]. Qed.

(* ------------------------------------------------------------------ one rotation, any window *)
Lemma mount_next_rotates_v w wr closed lo mid roll force :
  NumKInv c w wr closed lo mid ->
  force || rotation_necessary w roll = true ->
  exists w' wr' roll',
    mount_next c w (Active (Some (mk_rsk k (NSNumR (N.of_nat (length closed))) roll)) wr (cname c)) force
      = (Ok tt, w', Active (Some (mk_rsk k (NSNumR (N.of_nat (length (closed ++ [cur_view w wr])))) roll')) wr' (cname c))
    /\ NumKInv c w' wr' (closed ++ [cur_view w wr]) (knew_lo k lo (S (length closed))) (knew_mid k mid (S (length closed)))
    /\ cur_view w' wr' = [] /\ roll_size_ok roll' 0 /\ same_env w w'.
Proof.
  intros I Hnec. pose proof Hcfg as (Hrot & Hts & Hlink & Has & Hbg).
  pose proof I as [Q W Hc Hcp KD Hwr Hcap].
  unfold mount_next. cbn [mk_rsk rs_roll rs_naming rs_cleanup rs_bg]. rewrite Hnec.
  unfold index_for_rcurrent. rewrite !(name_of_fixed c w) by assumption.
  fold (nm c cur_infix) (nm c (number_infix (N.of_nat (length closed)))).
  fold (cname c) (rname c (length closed)).
  destruct (kdir_rotate c (wfs w) closed _ _ (wino wr) (wpend wr) (wnow w) W KD Hc Hcp) as (Ht & f1 & Er & L1c & R).
  cbn zeta in R. destruct R as (W3 & L3c & Inew & KD3).
  pose proof (p_rename_quiet w (cname c) (rname c (length closed)) Q) as PR. rewrite Er in PR.
  destruct PR as [w1 [Epr [F1 S1]]]. rewrite Epr.
  unfold open_log_file. rewrite (name_of_fixed c w1) by assumption. fold (nm c cur_infix) (cname c).
  unfold do_symlink. rewrite Hlink.
  assert (D1 : match file_of (wfs w1) (cname c) with Some fl => fdir fl = false | None => True end).
  { unfold file_of. rewrite F1, L1c. exact Logic.I. }
  destruct (p_open_quiet w1 (cname c) (c_append c) (proj1 S1) D1) as [w2 [Eop [F2 S2]]]. rewrite Eop.
  assert (Eopen : (if c_append c then open_append (wfs w1) (cname c) (wnow w1) else open_trunc (wfs w1) (cname c) 0%N (wnow w1))
                  = create_file f1 (cname c) 0%N (wnow w)).
  { rewrite F1. destruct S1 as [_ [-> _]]. destruct (c_append c); [apply open_append_fresh | apply open_trunc_fresh]; exact L1c. }
  rewrite Eopen in *. clear Eopen.
  unfold w_drop. destruct (w_flush_quiet w2 wr (proj1 S2)) as [w3 [Efl [F3 S3]]]. rewrite Efl. cbn [fst snd].
  change (w_flush w3 {| wino := wino wr; wpend := []; wcap := wcap wr |})
    with (true, w3, {| wino := wino wr; wpend := []; wcap := wcap wr |}). cbn [fst snd].
  unfold cleanup_or_queue. cbn [ns_filter ns_writes_direct].
  set (new := snd (create_file f1 (cname c) 0%N (wnow w))) in *.
  set (f3 := append_ino (fst (create_file f1 (cname c) 0%N (wnow w))) (wino wr) (wpend wr)) in *.
  assert (F3' : wfs w3 = f3) by (rewrite F3, F2; reflexivity).
  set (wr' := {| wino := new; wpend := []; wcap := c_cap c |}).
  assert (SE : same_env w w3) by (eapply same_env_trans; [eapply same_env_trans|]; eassumption).
  assert (I3 : NumKInv c w3 wr' (closed ++ [cur_view w wr]) lo mid).
  { constructor.
    - exact (proj1 S3).
    - rewrite F3'. exact W3.
    - rewrite F3'. exact L3c.
    - rewrite F3'. cbn [wr' wino]. rewrite Inew. split; reflexivity.
    - rewrite F3'. exact KD3.
    - unfold wr_ok, wr'. cbn. destruct (c_cap c); [lia | reflexivity].
    - reflexivity. }
  assert (Elen : length (closed ++ [cur_view w wr]) = S (length closed)) by (rewrite app_length; cbn [length]; lia).
  destruct (cleanup_k c crit k w3 wr' _ _ _ Hcfg (kside_v _) I3) as (w4 & Ecl & S4 & I4 & V4).
  rewrite Ecl. rewrite Elen in I4.
  exists w4, wr', (reset_size_and_date w3 roll (cname c)).
  split. { rewrite Elen. replace (N.of_nat (S (length closed))) with (N.of_nat (length closed) + 1)%N by lia. reflexivity. }
  split; [exact I4|].
  split. { rewrite V4. unfold cur_view. rewrite F3'. cbn [wr' wino wpend]. unfold content. rewrite Inew. reflexivity. }
  split. { destruct roll; cbn; auto. }
  eapply same_env_trans; eassumption.
Qed.

(* ---- a write on an active writer ---- *)
Lemma write_active_v w wr closed lo mid roll b :
  NumKInv c w wr closed lo mid -> roll_size_ok roll (length (cur_view w wr)) ->
  let rot := rotation_necessary w roll in
  exists w' wr' roll' closed' lo' mid',
    write_buffer (st_ofk c k (length closed) roll wr) w b = (Ok tt, w', st_ofk c k (length closed') roll' wr', rot)
    /\ NumKInv c w' wr' closed' lo' mid'
    /\ roll_size_ok roll' (length (cur_view w' wr')) /\ same_env w w'
    /\ (closed', cur_view w' wr') = (if rot then (closed ++ [cur_view w wr], b) else (closed, cur_view w wr ++ b))
    /\ (lo', mid') = (if rot then (knew_lo k lo (S (length closed)), knew_mid k mid (S (length closed))) else (lo, mid)).
Proof.
  intros I Hsz rot.
  unfold write_buffer, st_ofk. cbn [f_cfg f_inner f_poisoned mk_rsk rs_roll]. fold rot.
  assert (M : exists w1 wr1 roll1 closed1 lo1 mid1,
            mount_next c w (Active (Some (mk_rsk k (NSNumR (N.of_nat (length closed))) roll)) wr (cname c)) false
            = (Ok tt, w1, Active (Some (mk_rsk k (NSNumR (N.of_nat (length closed1))) roll1)) wr1 (cname c))
            /\ NumKInv c w1 wr1 closed1 lo1 mid1
            /\ roll_size_ok roll1 (length (cur_view w1 wr1)) /\ same_env w w1
            /\ (closed1, cur_view w1 wr1) = (if rot then (closed ++ [cur_view w wr], []) else (closed, cur_view w wr))
            /\ (lo1, mid1) = (if rot then (knew_lo k lo (S (length closed)), knew_mid k mid (S (length closed))) else (lo, mid))).
  { destruct rot eqn:Er.
    - destruct (mount_next_rotates_v w wr closed lo mid roll false I) as [w1 [wr1 [roll1 [E [I1 [V1 [Z1 S1]]]]]]]; [exact Er|].
      exists w1, wr1, roll1, (closed ++ [cur_view w wr]), (knew_lo k lo (S (length closed))), (knew_mid k mid (S (length closed))).
      rewrite V1. split; [exact E|]. split; [exact I1|]. split; [exact Z1|]. split; [exact S1|]. split; reflexivity.
    - exists w, wr, roll, closed, lo, mid. split.
      + unfold mount_next. cbn [mk_rsk rs_roll orb]. unfold rot in Er. rewrite Er. reflexivity.
      + split; [exact I|]. split; [exact Hsz|]. split; [apply same_env_refl; apply I|]. split; reflexivity. }
  destruct M as (w1 & wr1 & roll1 & closed1 & lo1 & mid1 & E & I1 & Z1 & S1 & V1 & X1).
  rewrite E.
  destruct (w_write_quiet w1 wr1 b (nk_quiet _ _ _ _ _ _ I1) (nk_wr _ _ _ _ _ _ I1)) as [w2 [wr2 [fl [Ew [S2 [F2 [Ei [Ec [Ep Hok]]]]]]]]].
  rewrite Ew.
  destruct (numkinv_append c w1 w2 wr1 wr2 closed1 _ _ fl I1 F2 S2 Ei Ec Hok) as [I2 C2].
  exists w2, wr2, (increase_size roll1 (N.of_nat (length b))), closed1, lo1, mid1.
  assert (V2 : cur_view w2 wr2 = cur_view w1 wr1 ++ b).
  { unfold cur_view. rewrite C2, <- !app_assoc, Ep. reflexivity. }
  split; [reflexivity|]. split; [exact I2|].
  split. { rewrite V2, app_length. apply roll_size_increase. exact Z1. }
  split; [eapply same_env_trans; eassumption|].
  split; [|exact X1]. rewrite V2. destruct rot; injection V1 as -> ->; reflexivity.
Qed.

(* ------------------------------------------------------------------ initialisation on a directory with any window *)
Lemma initialize_v w closed ocur lo mid :
  quiet w -> kst c (wfs w) (wfs w) closed ocur lo mid None ->
  (lo < length closed \/ length closed = 0) -> (N.of_nat (length closed) <= u32_max)%N ->
  exists w' wr roll,
    initialize c w = (Ok (Active (Some (mk_rsk k (NSNumR (N.of_nat (length (fst (init_view_k c closed ocur))))) roll)) wr (cname c)), w')
    /\ NumKInv c w' wr (fst (init_view_k c closed ocur))
         (knew_lo k lo (length (fst (init_view_k c closed ocur)))) (knew_mid k mid (length (fst (init_view_k c closed ocur))))
    /\ cur_view w' wr = snd (init_view_k c closed ocur)
    /\ roll_size_ok roll (length (snd (init_view_k c closed ocur)))
    /\ same_env w w'.
Proof.
  intros Q K Hlo HL. pose proof Hcfg as (Hrot & Hts & Hlink & Has & Hbg).
  (* the naming step: index, rename *)
  assert (N1 : exists w1 cl1 oc1,
            init_naming c w NNumbers = (Ok (NSNumR (N.of_nat (length cl1)), cur_infix), w1) /\ same_env w w1
            /\ kst c (wfs w1) (wfs w1) cl1 oc1 lo mid None
            /\ (cl1, ocb oc1) = init_view_k c closed ocur /\ (oc1 <> None -> c_append c = true)).
  { unfold init_naming, index_for_rcurrent. rewrite (init_listing c crit k Hcfg Hsfx w closed ocur lo mid None Q K Hlo HL).
    unfold init_view_k, init_view_o. cbn [fst snd].
    destruct (c_append c) eqn:Happ; cbn [negb bind].
    - exists w, closed, ocur. split; [reflexivity|]. split; [apply same_env_refl; exact Q|]. split; [exact K|].
      split; [destruct ocur; reflexivity | auto].
    - rewrite !(name_of_fixed c w) by assumption. fold (nm c cur_infix) (nm c (number_infix (N.of_nat (length closed)))).
      fold (cname c) (rname c (length closed)).
      pose proof (p_rename_quiet w (cname c) (rname c (length closed)) Q) as PR.
      destruct ocur as [cu|].
      + destruct (xdir_cur_lookup c _ closed cu lo mid None (ks_x _ _ _ _ _ _ _ _ K)) as (j & Lj & _).
        destruct (rename_spec (wfs w) (cname c) (rname c (length closed)) j (fun E => rname_not_cname c _ (eq_sym E)) Lj)
          as (f1 & Er & _).
        rewrite Er in PR. destruct PR as (w1 & Epr & F1 & S1). rewrite Epr. cbn [bind].
        exists w1, (closed ++ [cu]), None.
        assert (EL : length (closed ++ [cu]) = S (length closed)) by (rewrite app_length; cbn [length]; lia).
        split. { rewrite EL. replace (N.of_nat (length closed) + 1)%N with (N.of_nat (S (length closed))) by lia. reflexivity. }
        split; [exact S1|]. split; [rewrite F1; exact (kst_rename_cur c _ _ _ _ _ _ _ _ K Er)|].
        split; [reflexivity | congruence].
      + assert (Lc : lookup (wfs w) (cname c) = None) by (apply file_of_none; exact (xd_cur _ _ _ _ _ _ _ (ks_x _ _ _ _ _ _ _ _ K))).
        rewrite rename_none in PR by exact Lc. rewrite PR. cbn [bind].
        exists w, closed, None. split; [reflexivity|]. split; [apply same_env_refl; exact Q|]. split; [exact K|].
        split; [reflexivity | congruence]. }
  destruct N1 as (w1 & cl1 & oc1 & En & S1 & K1 & Ev & Happ1).
  (* the current file is opened *)
  assert (O2 : exists w2 ino fl,
            open_log_file c w1 (Some cur_infix) = (Ok ({| wino := ino; wpend := []; wcap := c_cap c |}, cname c), w2) /\ same_env w1 w2
            /\ kst c (wfs w2) (wfs w2) cl1 (Some (ocb oc1)) lo mid None /\ lookup (wfs w2) (cname c) = Some ino
            /\ file_of (wfs w2) (cname c) = Some fl /\ fdata fl = ocb oc1).
  { unfold open_log_file. rewrite (name_of_fixed c w1) by assumption. fold (nm c cur_infix) (cname c).
    unfold do_symlink. rewrite Hlink. pose proof (proj1 S1) as Q1.
    destruct oc1 as [cu|].
    - rewrite (Happ1 ltac:(discriminate)).
      destruct (xdir_cur_lookup c _ cl1 cu lo mid None (ks_x _ _ _ _ _ _ _ _ K1)) as (j & Lj & [Gj Dj] & Cj).
      assert (Fo : file_of (wfs w1) (cname c) = Some (inode (wfs w1) j)) by (unfold file_of; rewrite Lj; reflexivity).
      assert (D1 : match file_of (wfs w1) (cname c) with Some fl => fdir fl = false | None => True end) by (rewrite Fo; exact Dj).
      destruct (p_open_quiet w1 (cname c) true Q1 D1) as [w2 [Eop [F2 S2]]]. rewrite Eop.
      assert (Eopen : open_append (wfs w1) (cname c) (wnow w1) = (wfs w1, j)) by (unfold open_append; rewrite Lj; reflexivity).
      rewrite Eopen in *. cbn [fst snd] in *.
      exists w2, j, (inode (wfs w1) j). split; [reflexivity|]. split; [exact S2|]. rewrite F2.
      split; [exact K1|]. split; [exact Lj|]. split; [exact Fo | exact Cj].
    - assert (Lc : lookup (wfs w1) (cname c) = None) by (apply file_of_none; exact (xd_cur _ _ _ _ _ _ _ (ks_x _ _ _ _ _ _ _ _ K1))).
      assert (D1 : match file_of (wfs w1) (cname c) with Some fl => fdir fl = false | None => True end).
      { unfold file_of. rewrite Lc. exact I. }
      destruct (p_open_quiet w1 (cname c) (c_append c) Q1 D1) as [w2 [Eop [F2 S2]]]. rewrite Eop.
      assert (Eopen : (if c_append c then open_append (wfs w1) (cname c) (wnow w1) else open_trunc (wfs w1) (cname c) 0%N (wnow w1))
                      = create_file (wfs w1) (cname c) 0%N (wnow w1)).
      { destruct (c_append c); [apply open_append_fresh | apply open_trunc_fresh]; exact Lc. }
      rewrite Eopen in *. clear Eopen.
      destruct (kst_create_cur c _ _ _ _ _ _ (wnow w1) K1) as (K2 & L2 & F2').
      exists w2, (length (inodes (wfs w1))), (fresh_file (wnow w1)). split; [reflexivity|]. split; [exact S2|]. rewrite F2.
      split; [exact K2|]. split; [exact L2|]. split; [exact F2' | reflexivity]. }
  destruct O2 as (w2 & ino & fl & Eo & S2 & K2 & L2 & Ff2 & Dfl).
  set (wr := {| wino := ino; wpend := []; wcap := c_cap c |}) in *.
  pose proof (proj1 S2) as Q2.
  (* the rotation state *)
  assert (RN : exists roll, roll_new w2 crit (c_append c) (cname c) = (Ok roll, w2) /\ roll_size_ok roll (length (ocb oc1))).
  { destruct (c_append c) eqn:Happ.
    - destruct (roll_new_append w2 crit (cname c) fl Q2 Ff2) as [roll [E [Z RS]]]. rewrite Dfl in Z. eauto.
    - assert (oc1 = None) by (destruct oc1; [exfalso; assert (false = true) by (apply Happ1; discriminate); discriminate | reflexivity]).
      subst oc1. destruct (roll_new_fresh w2 crit (cname c)) as [roll [E [Z RS]]]. eauto. }
  destruct RN as (roll & Ern & Z).
  (* the cleanup *)
  destruct (kst_numkinv c w2 (wfs w2) (wfs w2) wr cl1 lo mid (ocb oc1) Q2 K2 L2) as [I2 V2].
  { unfold wr_ok, wr. cbn. destruct (c_cap c); [lia | reflexivity]. } { reflexivity. } { reflexivity. }
  assert (I2' : NumKInv c w2 wr cl1 lo mid)
    by (apply (numkinv_env c (set_fs w2 (wfs w2))); [exact I2 | reflexivity | exact Q2]).
  assert (V2' : cur_view w2 wr = ocb oc1) by exact V2.
  destruct (cleanup_k c crit k w2 wr cl1 lo mid Hcfg (kside_v _) I2') as (w4 & Ec & S4 & I4 & V4).
  assert (Ecl : forall d, match k with KNever => (Ok tt, w2) | _ => cleanup_impl c w2 k (ns_filter (NSNumR (N.of_nat (length cl1)))) (if naming_writes_direct NNumbers then Some d else None) end
                = cleanup_impl c w2 k IFNum None) by (intros d; destruct k; reflexivity).
  assert (Ebg : match k with KNever => false | _ => c_bg c end = false) by (destruct k; auto).
  unfold initialize. rewrite Hrot, En. cbn [bind]. rewrite Eo. cbn [bind]. rewrite Ern. cbn [bind]. rewrite Ecl, Ec. cbn [bind]. rewrite Ebg.
  assert (E1 : fst (init_view_k c closed ocur) = cl1) by (rewrite <- Ev; reflexivity).
  assert (E2 : snd (init_view_k c closed ocur) = ocb oc1) by (rewrite <- Ev; reflexivity).
  rewrite E1, E2. exists w4, wr, roll. split; [reflexivity|]. split; [exact I4|]. split; [congruence|]. split; [exact Z|].
  eapply same_env_trans; [exact S1|]. eapply same_env_trans; eassumption.
Qed.

(* ------------------------------------------------------------------ the run *)
(* the writer after its first write: p = (everything closed so far, current file), (lo0, mid0) the window that the run found *)
Definition RelV (x : sys) (p : list bytes * bytes) (lo0 mid0 : nat) : Prop :=
  s_tl x = [] /\ wacts (s_w x) = 0 /\
  exists lo mid wr roll, s_flw x = Some (st_ofk c k (length (fst p)) roll wr)
    /\ NumKInv c (s_w x) wr (fst p) lo mid
    /\ cur_view (s_w x) wr = snd p /\ roll_size_ok roll (length (snd p))
    /\ lo0 <= lo /\ mid0 <= mid /\ WinOK A B lo mid (length (fst p)) /\ kup k lo mid (length (fst p)).

Definition GRelV (x : sys) (v : aview) (lo0 mid0 : nat) (a : aview) : Prop :=
  match a with None => PreV A B c x v lo0 mid0 | Some p => RelV x p lo0 mid0 end.

Lemma win_rot lo mid L : lo <= mid <= L -> WinOK A B lo mid L ->
  WinOK A B (knew_lo k lo (S L)) (knew_mid k mid (S L)) (S L).
Proof. intros Hle X. apply winok_knew; [exact Hkok|]. apply winok_S; [lia | lia | exact X]. Qed.

(* a write on an active writer, on the level of the relation *)
Lemma write_rel_v x p lo0 mid0 b :
  RelV x p lo0 mid0 ->
  exists s, s_flw x = Some s /\ f_poisoned s = false /\
    let '(r, w', s', rot) := write_buffer s (s_w x) b in
    r = Ok tt /\ exists q, a_step (Some p) (OWrite b) rot = Some q
                 /\ RelV {| s_flw := Some s'; s_w := w'; s_tl := []; s_dead := s_dead x |} q lo0 mid0.
Proof.
  intros (Ht & Ha & lo & mid & wr & roll & Es & I & V & Z & Hlo & Hmid & X & U). destruct p as [closed cur]. cbn [fst snd] in *.
  exists (st_ofk c k (length closed) roll wr). split; [exact Es|]. split; [reflexivity|].
  rewrite <- V in Z.
  destruct (write_active_v (s_w x) wr closed lo mid roll b I Z) as (w1 & wr' & roll' & closed' & lo' & mid' & E & I' & Z' & S' & V' & W').
  rewrite E. split; [reflexivity|]. cbn [a_step]. rewrite V in V'.
  pose proof (kd_le _ _ _ _ _ (nk_dir _ _ _ _ _ _ I)) as Hle.
  destruct (rotation_necessary (s_w x) roll); injection V' as -> V''; injection W' as -> ->; cbv iota; eexists; (split; [reflexivity|]);
    (split; [reflexivity|]); (split; [cbn [s_w]; exact (same_env_acts _ _ S' Ha)|]); cbn [fst snd s_flw s_w].
  - exists (knew_lo k lo (S (length closed))), (knew_mid k mid (S (length closed))), wr', roll'.
    assert (Elen : length (closed ++ [cur]) = S (length closed)) by (rewrite app_length; cbn [length]; lia).
    split; [reflexivity|]. split; [exact I'|]. split; [exact V''|]. split; [rewrite <- V''; exact Z'|].
    rewrite Elen. split; [pose proof (knew_lo_ge k lo (S (length closed))); lia|].
    split; [pose proof (knew_mid_ge k mid (S (length closed))); lia|].
    split; [apply win_rot; assumption | apply kup_knew].
  - exists lo, mid, wr', roll'.
    split; [reflexivity|]. split; [exact I'|]. split; [exact V''|]. split; [rewrite <- V''; exact Z'|].
    split; [exact Hlo|]. split; [exact Hmid|]. split; [exact X | exact U].
Qed.

Lemma step_sync_relv x p lo0 mid0 o : RelV x p lo0 mid0 -> step x o = sync_step x o.
Proof.
  intros (_ & _ & lo & mid & wr & roll & Es & _). destruct Hcfg as (_ & Hts & _ & Ha & _).
  apply (step_sync_cfg x o _ Es); assumption.
Qed.

Lemma step_rel_v x p lo0 mid0 o :
  RelV x p lo0 mid0 -> basic_op o ->
  let '(x', ob) := step x o in exists q, a_step (Some p) o (rot_of ob) = Some q /\ RelV x' q lo0 mid0.
Proof.
  intros R Hb. rewrite (step_sync_relv x p lo0 mid0 o R).
  destruct o; try contradiction; cbn [sync_step].
  - (* OWrite *)
    rewrite (proj1 R). cbn [app].
    destruct (write_rel_v x p lo0 mid0 b R) as [s [Es [Hp WR]]].
    rewrite Es, Hp. destruct (write_buffer s (s_w x) b) as [[[r w'] s'] rot]. cbn [rot_of].
    destruct WR as (-> & q & Eq & R'). exists q. split; [|exact R'].
    destruct p as [cl cu]. exact Eq.
  - (* OPlain *)
    destruct (write_rel_v x p lo0 mid0 b R) as [s [Es [Hp WR]]].
    rewrite Es, Hp. destruct (write_buffer s (s_w x) b) as [[[r w'] s'] rot]. cbn [rot_of].
    destruct WR as (-> & q & Eq & R'). cbn [code_of]. rewrite (proj1 R). exists q. split; [|exact R'].
    destruct p as [cl cu]. exact Eq.
  - (* OFlush *)
    destruct R as (Ht & Ha & lo & mid & wr & roll & Es & I & V & Z & Hlo & Hmid & X & U). destruct p as [closed cur]. cbn [fst snd] in *.
    rewrite Es. cbn [st_ofk f_poisoned].
    destruct (flush_active_k c k (s_w x) wr closed _ _ roll I) as [w' [wr' [E [I' [V' [P' S']]]]]].
    fold (st_ofk c k (length closed) roll wr). rewrite E. cbn [rot_of a_step].
    exists (closed, cur). split; [reflexivity|].
    split; [exact Ht|]. split; [exact (same_env_acts _ _ S' Ha)|]. exists lo, mid, wr', roll. cbn [s_flw s_w fst snd].
    split; [reflexivity|]. split; [exact I'|]. split; [congruence|]. repeat (split; [assumption|]). assumption.
  - (* OTrigger *)
    destruct R as (Ht & Ha & lo & mid & wr & roll & Es & I & V & Z & Hlo & Hmid & X & U). destruct p as [closed cur]. cbn [fst snd] in *.
    rewrite Es. cbn [st_ofk f_poisoned f_cfg f_inner].
    destruct (mount_next_rotates_v (s_w x) wr closed lo mid roll true I eq_refl) as [w' [wr' [roll' [E [I' [V' [Z' S']]]]]]].
    rewrite E. cbn [code_of with_inner f_cfg f_poisoned rot_of a_step].
    exists (closed ++ [cur], []). split; [reflexivity|].
    pose proof (kd_le _ _ _ _ _ (nk_dir _ _ _ _ _ _ I)) as Hle.
    split; [exact Ht|]. split; [exact (same_env_acts _ _ S' Ha)|]. rewrite V in *.
    exists (knew_lo k lo (S (length closed))), (knew_mid k mid (S (length closed))), wr', roll'. cbn [s_flw s_w fst snd].
    assert (Elen : length (closed ++ [cur]) = S (length closed)) by (rewrite app_length; cbn [length]; lia).
    split; [reflexivity|]. split; [exact I'|]. split; [exact V'|]. split; [exact Z'|].
    rewrite Elen. split; [pose proof (knew_lo_ge k lo (S (length closed))); lia|].
    split; [pose proof (knew_mid_ge k mid (S (length closed))); lia|].
    split; [apply win_rot; assumption | apply kup_knew].
  - (* OTick *)
    cbn [rot_of a_step]. exists p. split; [reflexivity|].
    destruct R as (Ht & Ha & lo & mid & wr & roll & Es & I & V & Z & Hlo & Hmid & X & U).
    split; [exact Ht|]. split; [exact Ha|]. exists lo, mid, wr, roll. cbn [s_flw s_w].
    split; [exact Es|]. split; [apply (numkinv_env c (s_w x)); [exact I | reflexivity | apply I]|].
    split; [exact V|]. repeat (split; [assumption|]). assumption.
  - (* OSnap *)
    cbn [rot_of a_step]. exists p. split; [reflexivity | exact R].
Qed.

(* ---- the first write ---- *)
Lemma first_write_v x v lo0 mid0 b :
  PreV A B c x v lo0 mid0 -> (N.of_nat (length (closed_of v)) <= u32_max)%N ->
  exists w' s' rot,
    write_buffer (new_flw c) (s_w x) b = (Ok tt, w', s', rot)
    /\ exists q, a_step (Some (init_view c v)) (OWrite b) rot = Some q
         /\ RelV {| s_flw := Some s'; s_w := w'; s_tl := []; s_dead := s_dead x |} q lo0 mid0.
Proof.
  intros (Ht & Ha & Es & Q & D) HL.
  assert (K0 : kst c (wfs (s_w x)) (wfs (s_w x)) (closed_of v) (oc_of v) lo0 mid0 None
               /\ (lo0 < length (closed_of v) \/ length (closed_of v) = 0)
               /\ lo0 <= mid0 <= length (closed_of v) /\ WinOK A B lo0 mid0 (length (closed_of v))).
  { destruct v as [[cl cu]|]; cbn [kdir_view_v closed_of oc_of] in *.
    - destruct D as (W & [KD Hc] & X). split.
      + constructor; [exact W | exact (kd_nodup _ _ _ _ _ KD) | exact (kdir_xdir c _ cl _ _ (Some cu) KD Hc) | apply same_at_refl].
      + split; [exact (winok_based A B _ _ _ HA X)|]. split; [exact (kd_le _ _ _ _ _ KD) | exact X].
    - destruct D as (Hn & Hi & -> & ->). split; [exact (empty_kst c _ Hn)|]. split; [right; reflexivity|].
      split; [cbn; lia | unfold WinOK; cbn; lia]. }
  destruct K0 as (K & Hlo & Hle & X).
  destruct (initialize_v (s_w x) (closed_of v) (oc_of v) lo0 mid0 Q K Hlo HL) as (w1 & wr & roll & Ei & I & V & Z & S1).
  assert (Eiv : init_view_k c (closed_of v) (oc_of v) = init_view c v).
  { destruct v as [[cl cu]|]; reflexivity. }
  rewrite Eiv in *. destruct (init_view c v) as [cl1 cu1] eqn:Ev. cbn [fst snd] in *.
  assert (Hl1 : length cl1 = length (closed_of v) \/ length cl1 = S (length (closed_of v))).
  { destruct v as [[cl cu]|]; cbn [init_view closed_of] in *.
    - destruct (c_append c); injection Ev as <- _; [left; reflexivity | right; rewrite app_length; cbn [length]; lia].
    - injection Ev as <- _. left. reflexivity. }
  assert (X1 : WinOK A B (knew_lo k lo0 (length cl1)) (knew_mid k mid0 (length cl1)) (length cl1)).
  { apply winok_knew; [exact Hkok|]. destruct Hl1 as [->| ->]; [exact X | apply winok_S; [lia | lia | exact X]]. }
  assert (R1 : RelV {| s_flw := Some (st_ofk c k (length cl1) roll wr); s_w := w1; s_tl := []; s_dead := s_dead x |} (cl1, cu1) lo0 mid0).
  { split; [reflexivity|]. split; [cbn [s_w]; exact (same_env_acts _ _ S1 Ha)|].
    exists (knew_lo k lo0 (length cl1)), (knew_mid k mid0 (length cl1)), wr, roll. cbn [s_flw s_w fst snd].
    split; [reflexivity|]. split; [exact I|]. split; [exact V|]. split; [exact Z|].
    split; [apply knew_lo_ge|]. split; [apply knew_mid_ge|]. split; [exact X1 | apply kup_knew]. }
  destruct (write_rel_v _ (cl1, cu1) lo0 mid0 b R1) as (s & Es1 & _ & WR). cbn [s_flw s_w s_dead] in *.
  injection Es1 as <-.
  rewrite (write_buffer_init c (s_w x) b _ _ _ w1 Ei).
  change {| f_cfg := c; f_inner := Active (Some (mk_rsk k (NSNumR (N.of_nat (length cl1))) roll)) wr (cname c); f_poisoned := false |}
    with (st_ofk c k (length cl1) roll wr).
  destruct (write_buffer (st_ofk c k (length cl1) roll wr) w1 b) as [[[r w'] s'] rot].
  destruct WR as (-> & q & Eq & R'). exists w', s', rot. split; [reflexivity|]. exists q. split; [exact Eq | exact R'].
Qed.

Lemma step_sync_prev x v lo0 mid0 o : PreV A B c x v lo0 mid0 -> step x o = sync_step x o.
Proof.
  intros (_ & _ & Es & _). destruct Hcfg as (_ & Hts & _ & Ha & _). apply (step_sync_cfg x o (new_flw c) Es); assumption.
Qed.

Lemma gstep_rel_v x v lo0 mid0 a o :
  GRelV x v lo0 mid0 a -> basic_op o -> (N.of_nat (length (closed_of v)) <= u32_max)%N ->
  let '(x', ob) := step x o in GRelV x' v lo0 mid0 (g_step c v a o (rot_of ob)).
Proof.
  intros G Ho HL. destruct a as [p|].
  - cbn [GRelV g_step] in *. pose proof (step_rel_v x p lo0 mid0 o G Ho) as S.
    destruct (step x o) as [x' ob]. destruct S as (q & Eq & R1). rewrite Eq. exact R1.
  - cbn [GRelV] in G. rewrite (step_sync_prev x v lo0 mid0 o G).
    pose proof G as (Ht & Ha & Es & Q & D).
    destruct o; try contradiction; cbn [sync_step].
    + (* OWrite *)
      destruct (first_write_v x v lo0 mid0 (s_tl x ++ b) G HL) as (w' & s' & rot & E & q & Eq & R').
      rewrite Es. cbn [new_flw f_poisoned]. fold (new_flw c). rewrite E. cbn [rot_of g_step].
      rewrite Ht in Eq. cbn [app] in Eq.
      change (a_step (Some (init_view c v)) (OWrite ([] ++ b)) rot) with (a_step (Some (init_view c v)) (OWrite b) rot) in Eq.
      rewrite Eq. exact R'.
    + (* OPlain *)
      destruct (first_write_v x v lo0 mid0 b G HL) as (w' & s' & rot & E & q & Eq & R').
      rewrite Es. cbn [new_flw f_poisoned]. fold (new_flw c). rewrite E. cbn [rot_of g_step code_of]. rewrite Ht.
      change (a_step (Some (init_view c v)) (OPlain b) rot) with (a_step (Some (init_view c v)) (OWrite b) rot).
      rewrite Eq. exact R'.
    + (* OFlush *)
      rewrite Es. cbn [new_flw f_poisoned flush_state f_inner rot_of g_step GRelV].
      split; [exact Ht|]. split; [exact Ha|]. split; [reflexivity|]. split; [exact Q | exact D].
    + (* OTrigger *)
      rewrite Es. cbn [new_flw f_poisoned f_cfg f_inner mount_next with_inner rot_of g_step code_of GRelV].
      split; [exact Ht|]. split; [exact Ha|]. split; [reflexivity|]. split; [exact Q | exact D].
    + (* OTick *)
      cbn [rot_of g_step GRelV]. split; [exact Ht|]. split; [exact Ha|]. split; [exact Es|].
      split; [apply quiet_set_now; exact Q | exact D].
    + (* OSnap *)
      cbn [rot_of g_step GRelV]. exact G.
Qed.

Lemma grun_rel_v v lo0 mid0 : (N.of_nat (length (closed_of v)) <= u32_max)%N ->
  forall ops x a, GRelV x v lo0 mid0 a -> Forall basic_op ops ->
  GRelV (fst (run x ops)) v lo0 mid0 (g_run c v a ops (snd (run x ops))).
Proof.
  intros HL. induction ops as [|o r IH]; intros x a G Hbo; [exact G|].
  cbn [run]. inversion Hbo as [|o' r' Ho Hr]; subst.
  pose proof (gstep_rel_v x v lo0 mid0 a o G Ho HL) as S. destruct (step x o) as [x1 ob].
  specialize (IH x1 _ S Hr). destruct (run x1 r) as [x2 obs]. exact IH.
Qed.

(* ------------------------------------------------------------------ start and stop *)
Lemma start_prev x v lo mid : IdleV A B c x v lo mid -> PreV A B c (fst (step x (OStart c))) v lo mid.
Proof.
  intros (Ht & Ha & Es & Q & D). unfold step, apply_start. rewrite Es. unfold step_core. rewrite Es. cbn [sync_step fst].
  split; [exact Ht|]. split; [exact Ha|]. split; [reflexivity|]. split; [exact Q | exact D].
Qed.

Lemma stop_idlev x v lo0 mid0 a : GRelV x v lo0 mid0 a ->
  exists lo mid, IdleV A B c (fst (step x OStop)) (gview v a) lo mid /\ lo0 <= lo /\ mid0 <= mid
    /\ (a <> None -> kup k lo mid (length (closed_of (gview v a)))).
Proof.
  intros G. destruct a as [[closed cur]|]; cbn [GRelV gview] in *.
  - rewrite (step_sync_relv x _ lo0 mid0 OStop G).
    destruct G as (Ht & Ha & lo & mid & wr & roll & Es & I & V & Z & Hlo & Hmid & X & U). cbn [fst snd] in *. cbn [sync_step].
    rewrite Es. cbn [st_ofk f_poisoned]. unfold drop_state.
    destruct (shutdown_active_k c k (s_w x) wr closed _ _ roll I Ha) as [w1 [wr1 [E1 [I1 [V1 [P1 A1]]]]]].
    fold (st_ofk c k (length closed) roll wr). rewrite E1.
    destruct (shutdown_active_k c k w1 wr1 closed _ _ roll I1 A1) as [w2 [wr2 [E2 [I2 [V2 [P2 A2]]]]]]. rewrite E2.
    cbn [st_ofk f_inner s_w]. unfold w_drop.
    destruct (w_flush_quiet w2 wr2 (nk_quiet _ _ _ _ _ _ I2)) as [w3 [E3 [F3 S3]]]. rewrite E3. cbn [fst snd].
    rewrite P2, append_ino_nil_id in F3. exists lo, mid. split; [|split; [exact Hlo|]; split; [exact Hmid|]; intros _; exact U].
    unfold IdleV. cbn [s_tl s_w s_flw].
    split; [exact Ht|]. split; [exact (same_env_acts _ _ S3 A2)|]. split; [reflexivity|]. split; [apply S3|].
    cbn [kdir_view_v]. rewrite F3.
    destruct I2 as [Q W Hc Hcp KD Hwr Hcap]. split; [exact W|]. split; [|exact X]. split; [exact KD|].
    exists (wino wr2). split; [exact Hc|]. split; [exact Hcp|].
    unfold cur_view in *. rewrite P2, app_nil_r in V2. congruence.
  - rewrite (step_sync_prev x v lo0 mid0 OStop G). destruct G as (Ht & Ha & Es & Q & D). cbn [sync_step].
    rewrite Es. cbn [new_flw f_poisoned drop_state shutdown_state f_inner fst]. exists lo0, mid0.
    split; [|split; [lia|]; split; [lia|]; intros H; congruence].
    unfold IdleV. cbn [s_tl s_w s_flw].
    split; [exact Ht|]. split; [exact Ha|]. split; [reflexivity|]. split; [exact Q | exact D].
Qed.

(* a record was written: the run has looked at the directory *)
Lemma g_run_some v : forall ops p obs, exists q, g_run c v (Some p) ops obs = Some q.
Proof.
  induction ops as [|o r IH]; intros p obs; [cbn; eauto|]. destruct obs as [|ob robs]; [cbn; eauto|].
  cbn [g_run g_step]. destruct (a_step_some p o (rot_of ob)) as [q ->]. apply IH.
Qed.
Lemma g_run_written v : forall ops obs, length obs = length ops -> existsb is_wr ops = true ->
  exists q, g_run c v None ops obs = Some q.
Proof.
  induction ops as [|o r IH]; intros obs Hl Hw; [discriminate|]. destruct obs as [|ob robs]; [discriminate|].
  cbn [g_run]. cbn [existsb] in Hw. destruct (is_wr o) eqn:Eo.
  - assert (E : exists q, g_step c v None o (rot_of ob) = Some q).
    { destruct o; try discriminate; cbn [g_step]; apply a_step_some. }
    destruct E as [q ->]. apply g_run_some.
  - assert (E : g_step c v None o (rot_of ob) = None) by (destruct o; try discriminate; reflexivity).
    rewrite E. apply IH; [cbn in Hl; lia | exact Hw].
Qed.

(* ------------------------------------------------------------------ one whole run *)
Lemma one_run_v x v lo0 mid0 ops :
  (N.of_nat (length (closed_of v)) <= u32_max)%N -> Forall basic_op ops -> IdleV A B c x v lo0 mid0 ->
  exists v' lo mid, IdleV A B c (fst (run x (OStart c :: ops ++ [OStop]))) v' lo mid
    /\ flat v' = flat v ++ written ops
    /\ length (closed_of v') <= length (closed_of v) + S (length ops)
    /\ extends v v' /\ lo0 <= lo /\ mid0 <= mid
    /\ (existsb is_wr ops = true -> kup k lo mid (length (closed_of v'))).
Proof.
  intros Hb Hops Id. cbn [run]. pose proof (start_prev x v lo0 mid0 Id) as P0.
  destruct (step x (OStart c)) as [x0 ob0]. cbn [fst] in P0.
  rewrite run_app.
  pose proof (grun_rel_v v lo0 mid0 Hb ops x0 None P0 Hops) as G1. pose proof (run_length ops x0) as L.
  destruct (run x0 ops) as [x1 obs1]. cbn [fst snd] in *.
  destruct (stop_idlev x1 v lo0 mid0 _ G1) as (lo & mid & S & Hlo & Hmid & U). cbn [run].
  destruct (step x1 OStop) as [x2 ob2]. cbn [fst] in *.
  exists (gview v (g_run c v None ops obs1)), lo, mid. split; [exact S|]. split.
  { rewrite gview_flat, (g_run_flat c v ops None obs1 Hops L). reflexivity. }
  split. { pose proof (gview_pot v (g_run c v None ops obs1)); pose proof (g_run_pot c v ops None obs1); cbn [gpot] in *; lia. }
  split. { apply g_run_extends. apply extends_refl. }
  split; [exact Hlo|]. split; [exact Hmid|].
  intros Hw. apply U. destruct (g_run_written v ops obs1 L Hw) as [q ->]. discriminate.
Qed.

End OneRunV.
