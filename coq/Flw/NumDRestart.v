(* NumbersDirect naming: sequences of runs on the same directory.  A writer that starts on the directory that earlier
   writers left behind continues the numbering: with append it continues the file with the highest number, without
   append it starts the next number; nothing that was written before is lost, overwritten or duplicated.
   The abstract side (init_view, g_step, g_run, gflat, gpot, gview, extends, runs_ops, runs_written) is the one of
   Numbers naming (NumRestart.v). *)
Require Import FL.Base.Bytes FL.Base.BytesFacts FL.Base.PathName FL.Fs.Fs FL.Fs.FsFacts FL.Time.Civil FL.Time.TsFormat
  FL.Names.FileSpec FL.Names.NamesFacts FL.Names.FamilyFacts FL.Flw.Model FL.Flw.ModelFacts FL.Flw.NumFs FL.Flw.NumInv
  FL.Flw.Run FL.Flw.RunFacts FL.Flw.NumRun FL.Flw.NumListing FL.Oracles.O_Flw FL.Flw.NumTheorems FL.Flw.NumRestart
  FL.Flw.NumDInv FL.Flw.NumDRun FL.Flw.NumDTheorems.
From Coq Require Import ZifyN ZifyNat ZifyBool.
Import String.StringSyntax.
Open Scope nat_scope.

(* ------------------------------------------------------------------ the listing *)
(* on a directory that consists exactly of r00000 .. r(n), the highest index found is n *)
Lemma highest_index_direct c off f files :
  direct_view c f files ->
  (N.of_nat (pred (length files)) <= u32_max)%N ->
  get_highest_index off (c_spec c) (fixed0 c) f = Some (match length files with O => None | S k => Some (N.of_nat k) end).
Proof.
  intros [Hcl Hon] Hb.
  unfold get_highest_index, list_log_gz, existing_rot, sel_log_gz. cbn [sel_plain sel_gz sel_rcur sel_custom].
  rewrite !filter_files_total. cbn [app_opt]. rewrite !app_nil_r.
  set (rel := related_files f (fsfx (c_spec c)) (fixed0 c)).
  set (L := filter (qf off (fsfx (c_spec c)) (fixed0 c) IFNum (fsfx (c_spec c))) rel
            ++ filter (qf off (fsfx (c_spec c)) (fixed0 c) IFNum (Some gz_sfx)) rel).
  (* every listed name is a numbered file of the view *)
  assert (A : forall n, In n L -> exists i, i < length files /\ n = rname c i).
  { intros n I. unfold L in I. apply in_app_or in I.
    assert (X : In n rel) by (destruct I as [I|I]; apply filter_In in I; tauto).
    apply related_files_in in X. destruct X as [Id _].
    apply dir_names_lookup in Id. destruct Id as [j Lj]. exact (Hon n j Lj). }
  (* every numbered file of the view is listed *)
  assert (B : forall i, i < length files -> In (rname c i) L).
  { intros i Hi. unfold L. apply in_or_app. left. apply filter_In. split; [|apply qf_rname].
    destruct (Hcl i Hi) as [j [Lj [[_ Pd] _]]]. apply related_files_in. split; [apply dir_names_lookup; eauto|]. split.
    - unfold is_reg_file, file_of. rewrite Lj, Pd. reflexivity.
    - rewrite rname_shape. apply is_prefix_under. }
  f_equal. apply max_opt_range. intros v. rewrite filter_map_opt_in. split.
  - intros [n [Hn En]]. destruct (A n Hn) as [i [Hi ->]]. rewrite index_of_rname in En by lia.
    injection En as <-. eauto.
  - intros [i [Hi ->]]. exists (rname c i). split; [apply B; exact Hi | apply index_of_rname; lia].
Qed.

(* the listing of initialize *)
Lemma listing_direct c w cl cu : fts (c_spec c) = false -> quiet w ->
  direct_view c (wfs w) (cl ++ [cu]) -> (N.of_nat (length cl) <= u32_max)%N ->
  with_listing w (fun w' => get_highest_index (woff w') (c_spec c) (fixed_of c w') (wfs w'))
  = (Ok (Some (N.of_nat (length cl))), w).
Proof.
  intros Hts Q R Hb. unfold with_listing. rewrite tick_quiet by assumption.
  rewrite fixed_of_fixed by assumption.
  assert (El : length (cl ++ [cu]) = S (length cl)) by (rewrite app_length; cbn [length]; lia).
  rewrite (highest_index_direct c (woff w) (wfs w) (cl ++ [cu]) R) by (rewrite El; cbn [pred]; exact Hb).
  rewrite El. reflexivity.
Qed.

(* ------------------------------------------------------------------ the directory between two writers *)
Definition dir_view_d (c : config) (f : fs) (v : aview) : Prop :=
  match v with
  | None => names f = [] /\ inodes f = []
  | Some (cl, cu) => fs_wf f /\ direct_view c f (cl ++ [cu])
  end.

(* no writer *)
Definition IdleD (c : config) (x : sys) (v : aview) : Prop :=
  s_tl x = [] /\ wacts (s_w x) = 0 /\ s_flw x = None /\ quiet (s_w x) /\ dir_view_d c (wfs (s_w x)) v.
(* a writer that has not written yet: it has not looked at the directory *)
Definition PreD (c : config) (x : sys) (v : aview) : Prop :=
  s_tl x = [] /\ wacts (s_w x) = 0 /\ s_flw x = Some (new_flw c) /\ quiet (s_w x) /\ dir_view_d c (wfs (s_w x)) v.

Lemma direct_view_spec c c' f files : c_spec c = c_spec c' -> direct_view c f files -> direct_view c' f files.
Proof.
  intros E [H1 H2]. split.
  - intros i Hi. rewrite <- (rname_spec_eq c c' i E). apply H1. exact Hi.
  - intros n j L. destruct (H2 n j L) as [i [Hi ->]]. exists i. split; [exact Hi | apply rname_spec_eq; exact E].
Qed.

Lemma dir_view_d_spec c c' f v : c_spec c = c_spec c' -> dir_view_d c f v -> dir_view_d c' f v.
Proof.
  intros E. destruct v as [[cl cu]|]; cbn [dir_view_d]; [|tauto].
  intros [W R]. split; [exact W | exact (direct_view_spec c c' f _ E R)].
Qed.

Lemma idle_d_spec c c' x v : c_spec c = c_spec c' -> IdleD c x v -> IdleD c' x v.
Proof. intros E [H1 [H2 [H3 [H4 H5]]]]. repeat split; try assumption; try apply H4. exact (dir_view_d_spec c c' _ v E H5). Qed.

(* ------------------------------------------------------------------ the directory seen as the state of a writer *)
Lemma numdinv_of_view c w cl cu : quiet w -> fs_wf (wfs w) -> direct_view c (wfs w) (cl ++ [cu]) ->
  exists j, lookup (wfs w) (rname c (length cl)) = Some j /\ plain (inode (wfs w) j)
            /\ NumDInv c w {| wino := j; wpend := []; wcap := c_cap c |} cl
            /\ cur_view w {| wino := j; wpend := []; wcap := c_cap c |} = cu.
Proof.
  intros Q W [Hcl Hon].
  assert (El : length (cl ++ [cu]) = S (length cl)) by (rewrite app_length; cbn [length]; lia).
  assert (Hl : length cl < length (cl ++ [cu])) by lia.
  destruct (Hcl (length cl) Hl) as [j [Lj [Pj Cj]]]. rewrite app_nth2, Nat.sub_diag in Cj by lia. cbn [nth] in Cj.
  exists j. split; [exact Lj|]. split; [exact Pj|]. split.
  - constructor; cbn [wino wpend wcap]; try assumption.
    + intros i Hi. assert (Hi' : i < length (cl ++ [cu])) by lia. destruct (Hcl i Hi') as [k [Lk [Pk Ck]]].
      exists k. split; [exact Lk|]. split; [exact Pk|]. rewrite app_nth1 in Ck by assumption. exact Ck.
    + intros n k L. destruct (Hon n k L) as [i [Hi E]]. exists i. split; [lia | exact E].
    + unfold wr_ok. cbn. destruct (c_cap c); [lia | reflexivity].
    + reflexivity.
  - unfold cur_view. cbn [wino wpend]. rewrite app_nil_r. exact Cj.
Qed.

(* ---- the first write initialises the writer: a directory left behind by earlier writers ---- *)
Lemma initialize_view_d c crit w cl cu :
  numdcfg c crit -> quiet w -> fs_wf (wfs w) -> direct_view c (wfs w) (cl ++ [cu]) ->
  (N.of_nat (length cl) <= u32_max)%N ->
  exists w' wr roll,
    initialize c w = (Ok (Active (Some (mk_rs (NSNumD (N.of_nat (length (fst (init_view c (Some (cl, cu))))))) roll)) wr
                                 (rname c (length (fst (init_view c (Some (cl, cu))))))), w')
    /\ NumDInv c w' wr (fst (init_view c (Some (cl, cu))))
    /\ cur_view w' wr = snd (init_view c (Some (cl, cu)))
    /\ roll_size_ok roll (length (snd (init_view c (Some (cl, cu)))))
    /\ same_env w w'
    /\ (forall m, crit = CSize m -> exists k, roll = RSize m k).
Proof.
  intros [Hrot [Hts [Hlink _]]] Q W R Hb.
  destruct (numdinv_of_view c w cl cu Q W R) as [j [Lj [Pj [I V]]]].
  set (wr0 := {| wino := j; wpend := []; wcap := c_cap c |}) in *.
  unfold initialize. rewrite Hrot. unfold init_naming.
  rewrite (listing_direct c w cl cu Hts Q R Hb). cbn [bind].
  rewrite (name_of_fixed c w) by assumption. fold (nm c (number_infix (N.of_nat (length cl)))). fold (rname c (length cl)).
  rewrite Lj. cbn [init_view]. destruct (c_append c) eqn:Happ; cbn [andb fst snd].
  - (* append: the file with the highest number is continued *)
    unfold open_log_file. rewrite (name_of_fixed c w) by assumption.
    fold (nm c (number_infix (N.of_nat (length cl)))). fold (rname c (length cl)).
    unfold do_symlink. rewrite Hlink, Happ.
    assert (Fo : file_of (wfs w) (rname c (length cl)) = Some (inode (wfs w) j)) by (unfold file_of; rewrite Lj; reflexivity).
    assert (D1 : match file_of (wfs w) (rname c (length cl)) with Some fl => fdir fl = false | None => True end).
    { rewrite Fo. apply Pj. }
    destruct (p_open_quiet w (rname c (length cl)) true Q D1) as [w2 [Eop [F2 S2]]]. rewrite Eop.
    assert (Eopen : open_append (wfs w) (rname c (length cl)) (wnow w) = (wfs w, j)) by (unfold open_append; rewrite Lj; reflexivity).
    rewrite Eopen in *. cbn [fst snd] in *. cbn [bind].
    assert (Fo2 : file_of (wfs w2) (rname c (length cl)) = Some (inode (wfs w) j)) by (rewrite F2; exact Fo).
    destruct (roll_new_append w2 crit (rname c (length cl)) _ (proj1 S2) Fo2) as [roll [Ern [Z RS]]]. rewrite Ern. cbn [bind].
    exists w2, wr0, roll. split; [reflexivity|].
    split; [apply (numdinv_env c w); [exact I | exact F2 | apply S2]|].
    split; [unfold cur_view; rewrite F2; exact V|].
    split. { rewrite <- V. unfold cur_view. cbn [wr0 wino wpend]. rewrite app_nil_r. exact Z. }
    split; [exact S2 | exact RS].
  - (* no append: the next number is started *)
    assert (Elen : length (cl ++ [cu]) = S (length cl)) by (rewrite app_length; cbn [length]; lia).
    rewrite Elen.
    unfold open_log_file. rewrite (name_of_fixed c w) by assumption.
    fold (nm c (number_infix (N.of_nat (length cl) + 1))). rewrite rname_S.
    destruct (rotate_numdinv c w wr0 cl (wnow w) I) as [Ht RI].
    destruct (open_fresh_quiet c w (rname c (S (length cl))) Q Hlink Ht) as [w2 [Eop [F2 S2]]].
    rewrite Eop. cbn [bind].
    destruct (roll_new_fresh w2 crit (rname c (S (length cl)))) as [roll [Ern [Z RS]]]. rewrite Ern. cbn [bind].
    assert (F3 : wfs w2 = append_ino (fst (create_file (wfs w) (rname c (S (length cl))) 0%N (wnow w))) (wino wr0) (wpend wr0)).
    { cbn [wr0 wpend]. rewrite append_ino_nil_id. exact F2. }
    destruct (RI w2 (proj1 S2) F3) as [I2 [V2 _]]. rewrite V in I2.
    eexists w2, _, roll.
    split. { replace (N.of_nat (S (length cl))) with (N.of_nat (length cl) + 1)%N by lia. reflexivity. }
    split; [exact I2|]. split; [exact V2|]. split; [exact Z|]. split; [exact S2 | exact RS].
Qed.

(* ------------------------------------------------------------------ the first write *)
Lemma first_write_d c crit x v b :
  numdcfg c crit -> (N.of_nat (length (closed_of v)) <= u32_max)%N -> PreD c x v ->
  exists w' s' rot,
    write_buffer (new_flw c) (s_w x) b = (Ok tt, w', s', rot)
    /\ RelD c crit {| s_flw := Some s'; s_w := w'; s_tl := []; s_dead := s_dead x |}
            (a_step (Some (init_view c v)) (OWrite b) rot).
Proof.
  intros Hcfg Hb [Ht [Ha [Es [Q D]]]]. destruct v as [[cl cu]|].
  - destruct D as [W R]. cbn [closed_of] in Hb.
    destruct (initialize_view_d c crit (s_w x) cl cu Hcfg Q W R Hb) as [w1 [wr [roll [Ei [I [V [Z [S1 RS]]]]]]]].
    destruct (init_view c (Some (cl, cu))) as [cl1 cu1]. cbn [fst snd] in *.
    assert (Z0 : roll_size_ok roll (length (cur_view w1 wr))) by (rewrite V; exact Z).
    destruct (write_active_d c crit w1 wr cl1 roll b Hcfg I Z0) as [w' [wr' [roll' [closed' [E [I' [Z' [S' [V' R']]]]]]]]].
    exists w', (st_of_d c (length closed') roll' wr'), (rotation_necessary w1 roll).
    split. { rewrite (write_buffer_init c (s_w x) b _ _ _ w1 Ei). exact E. }
    split; [reflexivity|]. split; [cbn [s_w]; exact (same_env_acts _ _ (same_env_trans _ _ _ S1 S') Ha)|].
    cbn [a_step]. rewrite V in V'.
    destruct (rotation_necessary w1 roll); injection V' as <- V''; (exists wr', roll'; cbn [s_flw s_w];
      split; [reflexivity|]; split; [exact I'|]; split; [exact V''|]; split; [rewrite <- V''; exact Z'|];
      intros m Hm; destruct (RS m Hm) as [k ->]; destruct (R' m k eq_refl) as [k' ->]; eauto).
  - assert (R0 : RelD c crit x None) by (split; [exact Ht|]; split; [exact Ha|]; split; [exact Es|]; split; [exact Q | exact D]).
    destruct (write_rel_d c crit x None b Hcfg R0) as [s [w' [s' [rot [Es' [Hp [E [R' _]]]]]]]].
    rewrite Es in Es'. injection Es' as <-. exists w', s', rot. split; [exact E | exact R'].
Qed.

(* ------------------------------------------------------------------ one run *)
(* the view of one run: None as long as nothing has been written *)
Definition GRelD (c : config) (crit : criterion) (x : sys) (v a : aview) : Prop :=
  match a with None => PreD c x v | Some _ => RelD c crit x a end.

Lemma step_sync_pre_d c crit x v o : numdcfg c crit -> PreD c x v -> step x o = sync_step x o.
Proof.
  intros [_ [Hts [_ Ha]]] [_ [_ [Es _]]].
  rewrite step_plain by (intros s' Es'; rewrite Es in Es'; injection Es' as <-; exact Hts).
  unfold step_core. rewrite Es. unfold is_async. cbn [new_flw f_cfg]. rewrite Ha. reflexivity.
Qed.

Lemma gstep_rel_d c crit x v a o :
  numdcfg c crit -> (N.of_nat (length (closed_of v)) <= u32_max)%N ->
  GRelD c crit x v a -> basic_op o ->
  let '(x', ob) := step x o in GRelD c crit x' v (g_step c v a o (rot_of ob)).
Proof.
  intros Hcfg Hb G Ho. destruct a as [p|].
  - cbn [GRelD g_step] in *. pose proof (step_rel_d c crit x (Some p) o Hcfg G Ho) as S.
    destruct (step x o) as [x' ob]. destruct S as [R1 _].
    destruct (a_step_some p o (rot_of ob)) as [q Eq]. rewrite Eq in *. exact R1.
  - cbn [GRelD] in G. rewrite (step_sync_pre_d c crit x v o Hcfg G).
    pose proof G as [Ht [Ha [Es [Q D]]]].
    destruct o; try contradiction; cbn [sync_step].
    + (* OWrite *)
      destruct (first_write_d c crit x v (s_tl x ++ b) Hcfg Hb G) as [w' [s' [rot [E R']]]].
      rewrite Es. cbn [new_flw f_poisoned]. fold (new_flw c). rewrite E. cbn [rot_of g_step].
      rewrite Ht in R'. cbn [app] in R'.
      destruct (a_step_some (init_view c v) (OWrite b) rot) as [q Eq]. rewrite Eq in *. exact R'.
    + (* OPlain *)
      destruct (first_write_d c crit x v b Hcfg Hb G) as [w' [s' [rot [E R']]]].
      rewrite Es. cbn [new_flw f_poisoned]. fold (new_flw c). rewrite E. cbn [rot_of g_step code_of]. rewrite Ht.
      change (a_step (Some (init_view c v)) (OPlain b) rot) with (a_step (Some (init_view c v)) (OWrite b) rot).
      destruct (a_step_some (init_view c v) (OWrite b) rot) as [q Eq]. rewrite Eq in *. exact R'.
    + (* OFlush *)
      rewrite Es. cbn [new_flw f_poisoned flush_state f_inner rot_of g_step GRelD].
      split; [exact Ht|]. split; [exact Ha|]. split; [reflexivity|]. split; [exact Q | exact D].
    + (* OTrigger *)
      rewrite Es. cbn [new_flw f_poisoned f_cfg f_inner mount_next with_inner rot_of g_step code_of GRelD].
      split; [exact Ht|]. split; [exact Ha|]. split; [reflexivity|]. split; [exact Q | exact D].
    + (* OTick *)
      cbn [rot_of g_step GRelD]. split; [exact Ht|]. split; [exact Ha|]. split; [exact Es|].
      split; [apply quiet_set_now; exact Q | exact D].
    + (* OSnap *)
      cbn [rot_of g_step GRelD]. exact G.
Qed.

Lemma grun_rel_d c crit v : numdcfg c crit -> (N.of_nat (length (closed_of v)) <= u32_max)%N ->
  forall ops x a, GRelD c crit x v a -> Forall basic_op ops ->
  GRelD c crit (fst (run x ops)) v (g_run c v a ops (snd (run x ops))).
Proof.
  intros Hcfg Hb. induction ops as [|o r IH]; intros x a G Hbo; [exact G|].
  cbn [run]. inversion Hbo as [|o' r' Ho Hr]; subst.
  pose proof (gstep_rel_d c crit x v a o Hcfg Hb G Ho) as S. destruct (step x o) as [x1 ob].
  specialize (IH x1 _ S Hr). destruct (run x1 r) as [x2 obs]. exact IH.
Qed.

(* ---- start and stop ---- *)
Lemma start_pre_d c x v : IdleD c x v -> PreD c (fst (step x (OStart c))) v.
Proof.
  intros [Ht [Ha [Es [Q D]]]]. unfold step, apply_start. rewrite Es. unfold step_core. rewrite Es. cbn [sync_step fst].
  split; [exact Ht|]. split; [exact Ha|]. split; [reflexivity|]. split; [exact Q | exact D].
Qed.

Lemma stop_idle_d c crit x v a : numdcfg c crit -> GRelD c crit x v a ->
  IdleD c (fst (step x OStop)) (gview v a).
Proof.
  intros Hcfg G. destruct a as [[closed cur]|]; cbn [GRelD gview] in *.
  - rewrite (step_sync_rel_d c crit x _ OStop Hcfg G). destruct G as [Ht [Ha R]]. cbn [sync_step].
    destruct R as [wr [roll [Es [I [V [Z RS]]]]]]. rewrite Es. cbn [st_of_d f_poisoned].
    fold (st_of_d c (length closed) roll wr).
    destruct (drop_active_d c (s_w x) wr closed roll I Ha) as [w3 [E3 [Q3 [A3 [W3 D3]]]]]. rewrite E3.
    unfold IdleD. cbn [fst s_tl s_w s_flw].
    split; [exact Ht|]. split; [exact A3|]. split; [reflexivity|]. split; [exact Q3|].
    cbn [dir_view_d]. rewrite <- V. split; [exact W3 | exact D3].
  - rewrite (step_sync_pre_d c crit x v OStop Hcfg G). destruct G as [Ht [Ha [Es [Q D]]]]. cbn [sync_step].
    rewrite Es. cbn [new_flw f_poisoned drop_state shutdown_state f_inner fst]. unfold IdleD. cbn [s_tl s_w s_flw].
    split; [exact Ht|]. split; [exact Ha|]. split; [reflexivity|]. split; [exact Q | exact D].
Qed.

(* ---- one whole run ---- *)
Lemma one_run_d c crit x v ops :
  numdcfg c crit -> (N.of_nat (length (closed_of v)) <= u32_max)%N ->
  Forall basic_op ops -> IdleD c x v ->
  exists v', IdleD c (fst (run x (OStart c :: ops ++ [OStop]))) v'
    /\ flat v' = flat v ++ written ops
    /\ length (closed_of v') <= length (closed_of v) + S (length ops)
    /\ extends v v'
    /\ (has_write ops = false -> v' = v).
Proof.
  intros Hcfg Hb Hops Id. cbn [run]. pose proof (start_pre_d c x v Id) as P0.
  destruct (step x (OStart c)) as [x0 ob0]. cbn [fst] in P0.
  rewrite run_app.
  pose proof (grun_rel_d c crit v Hcfg Hb ops x0 None P0 Hops) as G1. pose proof (run_length ops x0) as L.
  destruct (run x0 ops) as [x1 obs1]. cbn [fst snd] in *.
  pose proof (stop_idle_d c crit x1 v _ Hcfg G1) as S. cbn [run]. destruct (step x1 OStop) as [x2 ob2]. cbn [fst] in *.
  exists (gview v (g_run c v None ops obs1)). split; [exact S|]. split.
  - rewrite gview_flat, (g_run_flat c v ops None obs1 Hops L). reflexivity.
  - split; [pose proof (gview_pot v (g_run c v None ops obs1)); pose proof (g_run_pot c v ops None obs1); cbn [gpot] in *; lia|].
    split; [apply g_run_extends; apply extends_refl|].
    (* a run without a write never leaves the state "nothing written" *)
    clear - Hops. revert obs1. induction ops as [|o r IH]; intros obs1 Hw; [reflexivity|].
    inversion Hops as [|o' r' Ho Hr]; subst. destruct obs1 as [|ob robs]; [reflexivity|].
    destruct o; try contradiction; cbn [has_write] in Hw; try discriminate; cbn [g_run g_step]; apply IH; assumption.
Qed.

(* ------------------------------------------------------------------ sequences of runs *)
Definition run_ok_d (sp : file_spec) (r : config * list op) : Prop :=
  c_spec (fst r) = sp /\ (exists crit, numdcfg (fst r) crit) /\ Forall basic_op (snd r).

Lemma runs_rel_d sp : forall rs x v c0, c_spec c0 = sp -> Forall (run_ok_d sp) rs -> IdleD c0 x v ->
  (N.of_nat (length (closed_of v) + length (runs_ops rs)) <= u32_max)%N ->
  exists v', IdleD c0 (fst (run x (runs_ops rs))) v' /\ flat v' = flat v ++ runs_written rs /\ extends v v'
    /\ length (closed_of v') <= length (closed_of v) + length (runs_ops rs).
Proof.
  induction rs as [|[c ops] r IH]; intros x v c0 Ec0 Hrs Id Hb.
  - exists v. split; [exact Id|]. cbn [runs_written runs_ops length]. rewrite app_nil_r.
    split; [reflexivity|]. split; [apply extends_refl | lia].
  - inversion Hrs as [|r0 r' [Ec [[crit Hcfg] Hops]] Hr]; subst. cbn [fst snd] in *.
    rewrite runs_ops_cons in *.
    assert (Esp : c_spec c0 = c_spec c) by congruence.
    assert (Hb1 : (N.of_nat (length (closed_of v)) <= u32_max)%N) by lia.
    destruct (one_run_d c crit x v ops Hcfg Hb1 Hops (idle_d_spec c0 c x v Esp Id)) as [v1 [Id1 [F1 [P1 [X1 _]]]]].
    rewrite run_app. destruct (run x (OStart c :: ops ++ [OStop])) as [x1 obs1]. cbn [fst] in Id1.
    assert (Hb2 : (N.of_nat (length (closed_of v1) + length (runs_ops r)) <= u32_max)%N).
    { rewrite app_length in Hb. cbn [length] in Hb. rewrite app_length in Hb. cbn [length] in Hb. lia. }
    destruct (IH x1 v1 c0 eq_refl Hr (idle_d_spec c c0 x1 v1 (eq_sym Esp) Id1) Hb2) as [v2 [Id2 [F2 [X2 P2]]]].
    destruct (run x1 (runs_ops r)) as [x2 obs2]. cbn [fst] in *.
    exists v2. split; [exact Id2|]. split; [rewrite F2, F1; cbn [runs_written]; rewrite app_assoc; reflexivity|].
    split; [exact (extends_trans _ _ _ X1 X2)|].
    rewrite app_length. cbn [length]. rewrite app_length. cbn [length]. lia.
Qed.

Lemma idle_d0 c t0 off : IdleD c (sys0 t0 off) None.
Proof. cbn. repeat split. Qed.

Lemma idle_d_reads sp c0 x v : c_spec c0 = sp -> IdleD c0 x v ->
  (forall c, c_spec c = sp -> direct_view c (wfs (s_w x)) (files_of v)) /\ concat (files_of v) = flat v.
Proof.
  intros E0 [_ [_ [_ [_ D]]]]. split.
  - intros c Ec. apply (dir_view_d_spec c0 c) in D; [|congruence].
    destruct v as [[cl cu]|]; cbn [dir_view_d files_of] in *; [tauto | apply direct_view_nil; tauto].
  - destruct v as [[cl cu]|]; cbn [files_of flat concat]; [|reflexivity].
    rewrite concat_app. cbn [concat]. rewrite app_nil_r. reflexivity.
Qed.

(* Any number of runs on the same directory, each with its own configuration (append or not, any criterion, any buffer
   capacity; the same file spec), runs without a write included: afterwards the directory consists exactly of
   r00000 .. r(n), and these files hold, in number order, everything that all runs have written.
   The bound on the length of the history is needed for the same reason as for Numbers naming (numbers_restarts_partial):
   the index read back from a listed file name is parsed as u32 and counts as 0 when it does not fit
   (NumRestart.index_beyond_u32_reads_as_0). *)
Theorem numbersdirect_restarts_partial sp t0 off rs :
  (N.of_nat (length (runs_ops rs)) <= u32_max)%N ->
  Forall (fun r => c_spec (fst r) = sp /\ (exists crit, numdcfg (fst r) crit) /\ Forall basic_op (snd r)) rs ->
  exists files,
    (forall c, c_spec c = sp -> direct_view c (wfs (s_w (fst (run (sys0 t0 off) (runs_ops rs))))) files)
    /\ concat files = runs_written rs.
Proof.
  intros Hb Hrs.
  destruct (runs_rel_d sp rs (sys0 t0 off) None (sp_config sp) eq_refl Hrs (idle_d0 _ t0 off) Hb) as [v' [Id [F _]]].
  destruct (idle_d_reads sp (sp_config sp) _ v' eq_refl Id) as [R C].
  exists (files_of v'). split; [exact R|]. rewrite C, F. reflexivity.
Qed.

(* No file name is reused, no earlier file is touched: whatever further runs follow, every file keeps its number; all
   files but the newest keep their content, the newest one is at most appended to (by a run with append). *)
Theorem numbersdirect_restarts_keep sp t0 off rs1 rs2 :
  (N.of_nat (length (runs_ops (rs1 ++ rs2))) <= u32_max)%N ->
  Forall (fun r => c_spec (fst r) = sp /\ (exists crit, numdcfg (fst r) crit) /\ Forall basic_op (snd r)) (rs1 ++ rs2) ->
  exists files1 files2,
    (forall c, c_spec c = sp -> direct_view c (wfs (s_w (fst (run (sys0 t0 off) (runs_ops rs1))))) files1)
    /\ concat files1 = runs_written rs1
    /\ (forall c, c_spec c = sp -> direct_view c (wfs (s_w (fst (run (sys0 t0 off) (runs_ops (rs1 ++ rs2)))))) files2)
    /\ concat files2 = runs_written (rs1 ++ rs2)
    /\ (files1 = [] \/ exists closed cur t more, files1 = closed ++ [cur] /\ files2 = closed ++ [cur ++ t] ++ more).
Proof.
  intros Hb Hrs. apply Forall_app in Hrs. destruct Hrs as [Hrs1 Hrs2].
  rewrite runs_ops_app, app_length in Hb.
  assert (Hb1 : (N.of_nat (length (closed_of None) + length (runs_ops rs1)) <= u32_max)%N) by (cbn [closed_of length]; lia).
  destruct (runs_rel_d sp rs1 (sys0 t0 off) None (sp_config sp) eq_refl Hrs1 (idle_d0 _ t0 off) Hb1) as [v1 [Id1 [F1 [_ P1]]]].
  rewrite runs_ops_app, run_app. destruct (run (sys0 t0 off) (runs_ops rs1)) as [x1 obs1]. cbn [fst] in *.
  assert (Hb2 : (N.of_nat (length (closed_of v1) + length (runs_ops rs2)) <= u32_max)%N) by (cbn [closed_of length] in P1; lia).
  destruct (runs_rel_d sp rs2 x1 v1 (sp_config sp) eq_refl Hrs2 Id1 Hb2) as [v2 [Id2 [F2 [X2 _]]]].
  destruct (run x1 (runs_ops rs2)) as [x2 obs2]. cbn [fst] in *.
  destruct (idle_d_reads sp (sp_config sp) _ v1 eq_refl Id1) as [R1 C1]. destruct (idle_d_reads sp (sp_config sp) _ v2 eq_refl Id2) as [R2 C2].
  exists (files_of v1), (files_of v2). split; [exact R1|]. split; [rewrite C1, F1; reflexivity|].
  split; [exact R2|]. split; [rewrite C2, F2, F1, runs_written_app; reflexivity|].
  destruct v1 as [[cl cu]|]; [right | left; reflexivity]. cbn [extends] in X2. destruct X2 as [t [more E]].
  exists cl, cu, t, more. split; [reflexivity | exact E].
Qed.

(* what one more run does to a directory left behind by earlier runs, in terms of the files:
   without a write nothing changes; otherwise the newest file is continued (append) or a new number is started *)
Theorem numbersdirect_one_more_run sp t0 off rs c ops :
  (N.of_nat (length (runs_ops (rs ++ [(c, ops)]))) <= u32_max)%N ->
  Forall (fun r => c_spec (fst r) = sp /\ (exists crit, numdcfg (fst r) crit) /\ Forall basic_op (snd r)) (rs ++ [(c, ops)]) ->
  exists files1 files2,
    direct_view c (wfs (s_w (fst (run (sys0 t0 off) (runs_ops rs))))) files1
    /\ direct_view c (wfs (s_w (fst (run (sys0 t0 off) (runs_ops (rs ++ [(c, ops)])))))) files2
    /\ concat files2 = concat files1 ++ written ops
    /\ (has_write ops = false -> files2 = files1).
Proof.
  intros Hb Hrs. apply Forall_app in Hrs. destruct Hrs as [Hrs1 Hrs2].
  inversion Hrs2 as [|r0 r' [Ec [[crit Hcfg] Hops]] _]; subst. cbn [fst snd] in *.
  rewrite runs_ops_app, app_length in Hb.
  assert (Hb1 : (N.of_nat (length (closed_of None) + length (runs_ops rs)) <= u32_max)%N) by (cbn [closed_of length]; lia).
  destruct (runs_rel_d (c_spec c) rs (sys0 t0 off) None c eq_refl Hrs1 (idle_d0 _ t0 off) Hb1) as [v1 [Id1 [F1 [_ P1]]]].
  rewrite runs_ops_app, run_app. destruct (run (sys0 t0 off) (runs_ops rs)) as [x1 obs1]. cbn [fst] in *.
  assert (Hb2 : (N.of_nat (length (closed_of v1)) <= u32_max)%N) by (cbn [closed_of length] in P1; lia).
  destruct (one_run_d c crit x1 v1 ops Hcfg Hb2 Hops Id1) as [v2 [Id2 [F2 [_ [_ Hno]]]]].
  cbn [runs_ops]. rewrite app_nil_r.
  replace (OStart c :: ops ++ OStop :: []) with (OStart c :: ops ++ [OStop]) by reflexivity.
  destruct (run x1 (OStart c :: ops ++ [OStop])) as [x2 obs2]. cbn [fst] in *.
  destruct (idle_d_reads (c_spec c) c _ v1 eq_refl Id1) as [R1 C1]. destruct (idle_d_reads (c_spec c) c _ v2 eq_refl Id2) as [R2 C2].
  exists (files_of v1), (files_of v2). split; [apply R1; reflexivity|]. split; [apply R2; reflexivity|].
  split; [rewrite C1, C2; exact F2|]. intros Hw. rewrite (Hno Hw). reflexivity.
Qed.

Print Assumptions numbersdirect_restarts_partial.
Print Assumptions numbersdirect_restarts_keep.
Print Assumptions numbersdirect_one_more_run.

(* ------------------------------------------------------------------ examples *)
Open Scope string_scope.

(* the hypotheses of the theorems can be met: four runs with different configurations, one of them appending, one
   without a write *)
Definition exd_rs : list (config * list op) :=
  [ (exd_cfg (ex_sp "log") false (CSize 3) None, [OWrite (bs "abcd"); OWrite (bs "ef"); OTrigger; OWrite (bs "g")]);
    (exd_cfg (ex_sp "log") true (CSize 1) (Some 8%nat), [OTick 5; OFlush; OWrite (bs "hi"); OWrite (bs "j")]);
    (exd_cfg (ex_sp "log") false (CAge ADay) None, [OSnap]);
    (exd_cfg (ex_sp "log") false (CAgeOrSize AHour 100) (Some 2%nat), [OPlain (bs "k")]) ].

Lemma exd_rs_ok : Forall (fun r => c_spec (fst r) = ex_sp "log" /\ (exists crit, numdcfg (fst r) crit) /\ Forall basic_op (snd r)) exd_rs.
Proof.
  unfold exd_rs. repeat (apply Forall_cons; [split; [reflexivity|]; split; [eexists; repeat split|]; repeat constructor|]).
  apply Forall_nil.
Qed.

Example direct_restarts_instance :
  exists files,
    (forall c, c_spec c = ex_sp "log" -> direct_view c (wfs (s_w (fst (run (sys0 0 0) (runs_ops exd_rs))))) files)
    /\ concat files = bs "abcdefghijk".
Proof.
  apply (numbersdirect_restarts_partial (ex_sp "log") 0 0 exd_rs); [vm_compute; discriminate | exact exd_rs_ok].
Qed.

(* the directory of that history: abcd | ef | g, the appending run continues "g" in r00002 and then rotates ("ghi" is
   larger than 1), the run without a write changes nothing, the last run (no append) starts r00004 *)
Example direct_restarts_instance_dir :
  snap_of (fst (run (sys0 0 0) (runs_ops exd_rs)))
  = [ (bs "app_r00000.log", 0%N, bs "abcd"); (bs "app_r00001.log", 0%N, bs "ef"); (bs "app_r00002.log", 0%N, bs "ghi");
      (bs "app_r00003.log", 0%N, bs "j"); (bs "app_r00004.log", 0%N, bs "k") ].
Proof. vm_compute. reflexivity. Qed.

(* a suffix that contains "_r", no append: every run starts the next number *)
Definition exd_ur : list (config * list op) :=
  [ (exd_cfg (ex_sp "x_r5") false (CSize 100) None, [OWrite (bs "a"); OTrigger; OWrite (bs "b")]);
    (exd_cfg (ex_sp "x_r5") false (CSize 100) None, [OWrite (bs "c")]);
    (exd_cfg (ex_sp "x_r5") true (CSize 100) None, [OWrite (bs "d")]) ].

Example direct_suffix_with_ur_dir :
  snap_of (fst (run (sys0 0 0) (runs_ops exd_ur)))
  = [ (bs "app_r00000.x_r5", 0%N, bs "a"); (bs "app_r00001.x_r5", 0%N, bs "b"); (bs "app_r00002.x_r5", 0%N, bs "cd") ].
Proof. vm_compute. reflexivity. Qed.
