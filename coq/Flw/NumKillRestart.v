(* Numbers naming: a new writer on the directory that a KILLED writer left behind.  The directory may lack the current
   file (kill between the rename of rCURRENT and the creation of the new one), or hold a freshly created empty one.
   The new writer starts cleanly, loses nothing and overwrites nothing. *)
Require Import FL.Base.Bytes FL.Base.BytesFacts FL.Base.PathName FL.Fs.Fs FL.Fs.FsFacts FL.Time.Civil FL.Time.TsFormat
  FL.Names.FileSpec FL.Names.NamesFacts FL.Names.FamilyFacts FL.Flw.Model FL.Flw.ModelFacts FL.Flw.NumFs FL.Flw.NumInv
  FL.Flw.Run FL.Flw.RunFacts FL.Flw.NumRun FL.Flw.NumListing FL.Oracles.O_Flw FL.Flw.NumTheorems FL.Flw.NumRestart
  FL.Flw.KillFacts FL.Flw.NumKill.
From Coq Require Import ZifyN ZifyNat ZifyBool.
Import String.StringSyntax.
Open Scope nat_scope.

(* ------------------------------------------------------------------ the listing does not need the current file *)
Lemma highest_index_view_opt c off f cl ocu :
  reader_view_opt c f cl ocu ->
  (N.of_nat (length cl) <= u32_max)%N ->
  get_highest_index off (c_spec c) (fixed0 c) f = Some (match length cl with O => None | S k => Some (N.of_nat k) end).
Proof.
  intros [Hcl [Hcur Hon]] Hb.
  unfold get_highest_index, list_log_gz, existing_rot, sel_log_gz. cbn [sel_plain sel_gz sel_rcur sel_custom].
  rewrite !filter_files_total. cbn [app_opt]. rewrite !app_nil_r.
  set (rel := related_files f (fsfx (c_spec c)) (fixed0 c)).
  set (L := filter (qf off (fsfx (c_spec c)) (fixed0 c) IFNum (fsfx (c_spec c))) rel
            ++ filter (qf off (fsfx (c_spec c)) (fixed0 c) IFNum (Some gz_sfx)) rel).
  assert (A : forall n, In n L -> exists i, i < length cl /\ n = rname c i).
  { intros n I. unfold L in I. apply in_app_or in I.
    assert (X : exists o, In n rel /\ qf off (fsfx (c_spec c)) (fixed0 c) IFNum o n = true).
    { destruct I as [I|I]; apply filter_In in I; destruct I; eauto. }
    destruct X as [o [Ir Q]]. apply related_files_in in Ir. destruct Ir as [Id _].
    apply dir_names_lookup in Id. destruct Id as [j Lj].
    destruct (Hon n j Lj) as [->|X]; [rewrite qf_cname in Q; discriminate | exact X]. }
  assert (B : forall i, i < length cl -> In (rname c i) L).
  { intros i Hi. unfold L. apply in_or_app. left. apply filter_In. split; [|apply qf_rname].
    destruct (Hcl i Hi) as [j [Lj [[_ Pd] _]]]. apply related_files_in. split; [apply dir_names_lookup; eauto|]. split.
    - unfold is_reg_file, file_of. rewrite Lj, Pd. reflexivity.
    - rewrite rname_shape. apply is_prefix_under. }
  f_equal. apply max_opt_range. intros v. rewrite filter_map_opt_in. split.
  - intros [n [Hn En]]. destruct (A n Hn) as [i [Hi ->]]. rewrite index_of_rname in En by lia.
    injection En as <-. eauto.
  - intros [i [Hi ->]]. exists (rname c i). split; [apply B; exact Hi | apply index_of_rname; lia].
Qed.

Lemma listing_view_opt c w cl ocu : fts (c_spec c) = false -> quiet w ->
  reader_view_opt c (wfs w) cl ocu -> (N.of_nat (length cl) <= u32_max)%N ->
  with_listing w (fun w' =>
     match get_highest_index (woff w') (c_spec c) (fixed_of c w') (wfs w') with
     | None => None
     | Some (Some i) => Some (i + 1)%N
     | Some None => Some 0%N
     end) = (Ok (N.of_nat (length cl)), w).
Proof.
  intros Hts Q R Hb. unfold with_listing. rewrite tick_quiet by assumption.
  rewrite fixed_of_fixed by assumption. rewrite (highest_index_view_opt c (woff w) (wfs w) cl ocu R Hb).
  destruct (length cl) as [|k]; [reflexivity|]. do 2 f_equal. lia.
Qed.

(* ------------------------------------------------------------------ the first write on a directory without rCURRENT *)
(* index_for_rcurrent tolerates NotFound on the rename: the index is the number of closed files, a new current file
   is created, nothing is renamed *)
Lemma initialize_nocur c crit w cl :
  numcfg c crit -> quiet w -> fs_wf (wfs w) -> reader_view_opt c (wfs w) cl None ->
  (N.of_nat (length cl) <= u32_max)%N ->
  exists w' wr roll,
    initialize c w = (Ok (Active (Some (mk_rs (NSNumR (N.of_nat (length cl))) roll)) wr (cname c)), w')
    /\ NumInv c w' wr cl /\ cur_view w' wr = [] /\ roll_size_ok roll 0 /\ same_env w w'
    /\ (forall m, crit = CSize m -> exists k, roll = RSize m k).
Proof.
  intros [Hrot [Hts [Hlink _]]] Q W R Hb. pose proof R as [Hcl [Hnc Hon]].
  unfold initialize. rewrite Hrot. unfold init_naming, index_for_rcurrent.
  rewrite (listing_view_opt c w cl None Hts Q R Hb).
  assert (E0 : (if negb (c_append c)
                then let '(r, w1) := p_rename w (name_of c w (Some cur_infix)) (name_of c w (Some (number_infix (N.of_nat (length cl))))) in
                     match r with
                     | ROk => (Ok (N.of_nat (length cl) + 1)%N, w1)
                     | RNotFound => (Ok (N.of_nat (length cl)), w1)
                     | RErr => (Err, w1) end
                else (Ok (N.of_nat (length cl)), w)) = (Ok (N.of_nat (length cl)), w)).
  { destruct (negb (c_append c)); [|reflexivity].
    rewrite !(name_of_fixed c w) by assumption. fold (nm c cur_infix) (nm c (number_infix (N.of_nat (length cl)))).
    fold (cname c) (rname c (length cl)).
    pose proof (p_rename_quiet w (cname c) (rname c (length cl)) Q) as PR.
    rewrite rename_none in PR by exact Hnc. rewrite PR. reflexivity. }
  rewrite E0. cbn [bind].
  unfold open_log_file. rewrite (name_of_fixed c w) by assumption. fold (nm c cur_infix) (cname c).
  unfold do_symlink. rewrite Hlink.
  assert (D1 : match file_of (wfs w) (cname c) with Some fl => fdir fl = false | None => True end).
  { unfold file_of. rewrite Hnc. exact Logic.I. }
  destruct (p_open_quiet w (cname c) (c_append c) Q D1) as [w2 [Eop [F2 S2]]]. rewrite Eop.
  assert (Eopen : (if c_append c then open_append (wfs w) (cname c) (wnow w) else open_trunc (wfs w) (cname c) 0%N (wnow w))
                  = create_file (wfs w) (cname c) 0%N (wnow w)).
  { destruct (c_append c); [apply open_append_fresh | apply open_trunc_fresh]; exact Hnc. }
  rewrite Eopen in *. clear Eopen. cbn [bind fst snd].
  pose proof (create_file_spec (wfs w) (cname c) 0%N (wnow w)) as CS.
  pose proof (wf_create (wfs w) (cname c) 0%N (wnow w) W Hnc) as W2.
  destruct (create_file (wfs w) (cname c) 0%N (wnow w)) as [f2 new] eqn:Ecf. cbn [fst snd] in *.
  destruct CS as [Enew [Hino [Lc Lo]]].
  assert (Inew : inode f2 new = fresh_file (wnow w)).
  { unfold inode. rewrite Hino, Enew, inode_app_new. reflexivity. }
  assert (Iold : forall j, j < length (inodes (wfs w)) -> inode f2 j = inode (wfs w) j).
  { intros j Hj. unfold inode. rewrite Hino, inode_app_old by assumption. reflexivity. }
  assert (Fo : file_of (wfs w2) (cname c) = Some (fresh_file (wnow w))).
  { unfold file_of. rewrite F2, Lc, Inew. reflexivity. }
  assert (RN : exists roll, roll_new w2 crit (c_append c) (cname c) = (Ok roll, w2) /\ roll_size_ok roll 0
               /\ (forall m, crit = CSize m -> exists k, roll = RSize m k)).
  { destruct (c_append c).
    - destruct (roll_new_append w2 crit (cname c) _ (proj1 S2) Fo) as [roll [E [Z RS]]]. exists roll. auto.
    - apply roll_new_fresh. }
  destruct RN as [roll [Ern [Z RS]]]. rewrite Ern. cbn [bind].
  set (wr := {| wino := new; wpend := []; wcap := c_cap c |}).
  exists w2, wr, roll. split; [reflexivity|].
  split.
  { constructor.
    - apply S2.
    - rewrite F2. exact W2.
    - rewrite F2. exact Lc.
    - rewrite F2. cbn [wr wino]. rewrite Inew. split; reflexivity.
    - intros i Hi. destruct (Hcl i Hi) as [j [Lj [Pj Cj]]]. exists j. rewrite F2.
      rewrite Lo by apply rname_not_cname. split; [exact Lj|].
      pose proof (wf_bound _ W _ _ Lj) as Hj. unfold content. rewrite Iold by exact Hj. split; [exact Pj | exact Cj].
    - intros n j. rewrite F2. intros Hn.
      destruct (beq_spec n (cname c)) as [->|Hne]; [left; reflexivity|].
      rewrite Lo in Hn by exact Hne. exact (Hon n j Hn).
    - unfold wr_ok, wr. cbn. destruct (c_cap c); [lia | reflexivity].
    - reflexivity. }
  split. { unfold cur_view. cbn [wr wino wpend]. rewrite F2. unfold content. rewrite Inew. reflexivity. }
  split; [exact Z|]. split; [exact S2 | exact RS].
Qed.

(* ------------------------------------------------------------------ a writer that has not written yet *)
Definition PreO (c : config) (x : sys) (v : oview) : Prop :=
  s_tl x = [] /\ wacts (s_w x) = 0 /\ s_flw x = Some (new_flw c) /\ quiet (s_w x) /\ fs_wf (wfs (s_w x))
  /\ reader_view_opt c (wfs (s_w x)) (fst v) (snd v).

(* what the writer makes of the directory it finds, before anything is written *)
Definition init_view_o (c : config) (v : oview) : list bytes * bytes :=
  match snd v with
  | Some cu => if c_append c then (fst v, cu) else (fst v ++ [cu], [])
  | None => (fst v, [])
  end.

Lemma init_view_o_flat c v : flat (Some (init_view_o c v)) = oflat v.
Proof.
  destruct v as [cl [cu|]]; unfold init_view_o, oflat; cbn [fst snd flat]; [|reflexivity].
  destruct (c_append c); [reflexivity|]. rewrite concat_app. cbn [concat]. rewrite !app_nil_r. reflexivity.
Qed.

Lemma first_write_o c crit x v b :
  numcfg c crit -> (N.of_nat (length (fst v)) <= u32_max)%N -> PreO c x v ->
  exists w' s' rot,
    write_buffer (new_flw c) (s_w x) b = (Ok tt, w', s', rot)
    /\ Rel c crit {| s_flw := Some s'; s_w := w'; s_tl := []; s_dead := s_dead x |}
           (a_step (Some (init_view_o c v)) (OWrite b) rot).
Proof.
  intros Hcfg Hb [Ht [Ha [Es [Q [W R]]]]]. destruct v as [cl [cu|]]; cbn [fst snd] in *.
  - (* the current file is there: the restart of a stopped run *)
    assert (P : Pre c x (Some (cl, cu))).
    { split; [exact Ht|]. split; [exact Ha|]. split; [exact Es|]. split; [exact Q|]. split; [exact W|].
      apply reader_view_opt_some. exact R. }
    exact (first_write c crit x (Some (cl, cu)) b Hcfg Hb P).
  - destruct (initialize_nocur c crit (s_w x) cl Hcfg Q W R Hb) as [w1 [wr [roll [Ei [I [V [Z [S1 RS]]]]]]]].
    assert (Z0 : roll_size_ok roll (length (cur_view w1 wr))) by (rewrite V; exact Z).
    destruct (write_active c crit w1 wr cl roll b Hcfg I Z0) as [w' [wr' [roll' [closed' [E [I' [Z' [S' [V' R']]]]]]]]].
    exists w', (st_of c (length closed') roll' wr'), (rotation_necessary w1 roll).
    split. { rewrite (write_buffer_init c (s_w x) b _ _ _ w1 Ei). exact E. }
    split; [reflexivity|]. split; [cbn [s_w]; exact (same_env_acts _ _ (same_env_trans _ _ _ S1 S') Ha)|].
    unfold init_view_o. cbn [fst snd a_step]. rewrite V in V'.
    destruct (rotation_necessary w1 roll); injection V' as <- V''; (exists wr', roll'; cbn [s_flw s_w];
      split; [reflexivity|]; split; [exact I'|]; split; [exact V''|]; split; [rewrite <- V''; exact Z'|];
      intros m Hm; destruct (RS m Hm) as [k ->]; destruct (R' m k eq_refl) as [k' ->]; eauto).
Qed.

(* ------------------------------------------------------------------ one run; every operation succeeds *)
Definition obs_ok (ob : obs) : Prop :=
  match ob with ObsRes code _ => code = 0%N | ObsList code _ => code = 0%N | ObsSnap _ _ _ => True end.

Lemma step_rel_ok c crit x a o : numcfg c crit -> Rel c crit x a -> basic_op o -> obs_ok (snd (step x o)).
Proof.
  intros Hcfg R Hb. rewrite (step_sync_rel c crit x a o Hcfg R). destruct o; try contradiction; cbn [sync_step].
  - destruct (write_rel c crit x a b Hcfg R) as [s [w' [s' [rot [Es [Hp [E _]]]]]]].
    rewrite Es, Hp. rewrite (proj1 R). cbn [app]. rewrite E. reflexivity.
  - destruct (write_rel c crit x a b Hcfg R) as [s [w' [s' [rot [Es [Hp [E _]]]]]]].
    rewrite Es, Hp, E. reflexivity.
  - destruct R as [Ht [Ha R]]. destruct a as [[closed cur]|].
    + destruct R as [wr [roll [Es [I _]]]]. rewrite Es. cbn [st_of f_poisoned].
      destruct (flush_active c (s_w x) wr closed roll I) as [w' [wr' [E _]]]. rewrite E. reflexivity.
    + destruct R as [Es R]. rewrite Es. reflexivity.
  - destruct R as [Ht [Ha R]]. destruct a as [[closed cur]|].
    + destruct R as [wr [roll [Es [I _]]]]. rewrite Es. cbn [st_of f_poisoned f_cfg f_inner].
      destruct (mount_next_rotates c crit (s_w x) wr closed roll true Hcfg I eq_refl) as [w' [wr' [roll' [E _]]]].
      rewrite E. reflexivity.
    + destruct R as [Es R]. rewrite Es. reflexivity.
  - reflexivity.
  - cbn [snd snapshot obs_ok]. exact Logic.I.
Qed.

Definition GRelO (c : config) (crit : criterion) (x : sys) (v : oview) (a : aview) : Prop :=
  match a with None => PreO c x v | Some _ => Rel c crit x a end.

Definition g_step_o (c : config) (v : oview) (a : aview) (o : op) (rot : bool) : aview :=
  match a with
  | None => match o with
            | OWrite _ | OPlain _ => a_step (Some (init_view_o c v)) o rot
            | _ => None
            end
  | Some _ => a_step a o rot
  end.

Lemma step_sync_preo c crit x v o : numcfg c crit -> PreO c x v -> step x o = sync_step x o.
Proof.
  intros [_ [Hts [_ Ha]]] [_ [_ [Es _]]]. apply (step_sync_cfg x o (new_flw c) Es); assumption.
Qed.

Lemma gstep_rel_o c crit x v a o :
  numcfg c crit -> (N.of_nat (length (fst v)) <= u32_max)%N ->
  GRelO c crit x v a -> basic_op o ->
  let '(x', ob) := step x o in GRelO c crit x' v (g_step_o c v a o (rot_of ob)) /\ obs_ok ob.
Proof.
  intros Hcfg Hb G Ho. destruct a as [p|].
  - cbn [GRelO g_step_o] in *. pose proof (step_rel c crit x (Some p) o Hcfg G Ho) as S.
    pose proof (step_rel_ok c crit x (Some p) o Hcfg G Ho) as K.
    destruct (step x o) as [x' ob]. destruct S as [R1 _]. cbn [snd] in K. split; [|exact K].
    destruct (a_step_some p o (rot_of ob)) as [q Eq]. rewrite Eq in *. exact R1.
  - cbn [GRelO] in G. rewrite (step_sync_preo c crit x v o Hcfg G).
    pose proof G as [Ht [Ha [Es [Q [W D]]]]].
    destruct o; try contradiction; cbn [sync_step].
    + (* OWrite *)
      destruct (first_write_o c crit x v (s_tl x ++ b) Hcfg Hb G) as [w' [s' [rot [E R']]]].
      rewrite Es. cbn [new_flw f_poisoned]. fold (new_flw c). rewrite E. cbn [rot_of g_step_o].
      split; [|reflexivity].
      rewrite Ht in R'. cbn [app] in R'.
      destruct (a_step_some (init_view_o c v) (OWrite b) rot) as [q Eq]. rewrite Eq in *. exact R'.
    + (* OPlain *)
      destruct (first_write_o c crit x v b Hcfg Hb G) as [w' [s' [rot [E R']]]].
      rewrite Es. cbn [new_flw f_poisoned]. fold (new_flw c). rewrite E. cbn [rot_of g_step_o code_of]. rewrite Ht.
      split; [|reflexivity].
      change (a_step (Some (init_view_o c v)) (OPlain b) rot) with (a_step (Some (init_view_o c v)) (OWrite b) rot).
      destruct (a_step_some (init_view_o c v) (OWrite b) rot) as [q Eq]. rewrite Eq in *. exact R'.
    + (* OFlush *)
      rewrite Es. cbn [new_flw f_poisoned flush_state f_inner rot_of g_step_o GRelO].
      split; [|reflexivity]. split; [exact Ht|]. split; [exact Ha|]. split; [reflexivity|]. split; [exact Q|]. split; [exact W | exact D].
    + (* OTrigger *)
      rewrite Es. cbn [new_flw f_poisoned f_cfg f_inner mount_next with_inner rot_of g_step_o code_of GRelO].
      split; [|reflexivity]. split; [exact Ht|]. split; [exact Ha|]. split; [reflexivity|]. split; [exact Q|]. split; [exact W | exact D].
    + (* OTick *)
      cbn [rot_of g_step_o GRelO]. split; [|reflexivity]. split; [exact Ht|]. split; [exact Ha|]. split; [exact Es|].
      split; [apply quiet_set_now; exact Q|]. split; [exact W | exact D].
    + (* OSnap *)
      cbn [rot_of g_step_o GRelO]. split; [exact G | exact Logic.I].
Qed.

Fixpoint g_run_o (c : config) (v : oview) (a : aview) (ops : list op) (obs : list obs) : aview :=
  match ops, obs with
  | o :: r, ob :: robs => g_run_o c v (g_step_o c v a o (rot_of ob)) r robs
  | _, _ => a
  end.

Lemma grun_rel_o c crit v : numcfg c crit -> (N.of_nat (length (fst v)) <= u32_max)%N ->
  forall ops x a, GRelO c crit x v a -> Forall basic_op ops ->
  GRelO c crit (fst (run x ops)) v (g_run_o c v a ops (snd (run x ops))) /\ Forall obs_ok (snd (run x ops)).
Proof.
  intros Hcfg Hb. induction ops as [|o r IH]; intros x a G Hbo; [split; [exact G | constructor]|].
  cbn [run]. inversion Hbo as [|o' r' Ho Hr]; subst.
  pose proof (gstep_rel_o c crit x v a o Hcfg Hb G Ho) as S. destruct (step x o) as [x1 ob]. destruct S as [S K].
  specialize (IH x1 _ S Hr). destruct (run x1 r) as [x2 obs]. cbn [fst snd g_run_o] in *.
  split; [apply IH | constructor; [exact K | apply IH]].
Qed.

(* ---- the bytes of the view ---- *)
Definition gflat_o (v : oview) (a : aview) : bytes := match a with None => oflat v | Some _ => flat a end.

Lemma g_step_o_flat c v a o rot : basic_op o -> gflat_o v (g_step_o c v a o rot) = gflat_o v a ++ written [o].
Proof.
  intros Ho. destruct a as [p|].
  - cbn [g_step_o gflat_o]. destruct (a_step_some p o rot) as [q Eq]. rewrite <- (a_step_flat (Some p) o rot Ho), Eq. reflexivity.
  - destruct o; try contradiction; cbn [g_step_o gflat_o written]; rewrite ?app_nil_r; try reflexivity.
    + destruct (a_step_some (init_view_o c v) (OWrite b) rot) as [q Eq].
      assert (X : gflat_o v (a_step (Some (init_view_o c v)) (OWrite b) rot) = flat (a_step (Some (init_view_o c v)) (OWrite b) rot))
        by (rewrite Eq; reflexivity).
      rewrite X, (a_step_flat _ (OWrite b) rot Logic.I), init_view_o_flat. cbn [written]. rewrite app_nil_r. reflexivity.
    + destruct (a_step_some (init_view_o c v) (OPlain b) rot) as [q Eq].
      assert (X : gflat_o v (a_step (Some (init_view_o c v)) (OPlain b) rot) = flat (a_step (Some (init_view_o c v)) (OPlain b) rot))
        by (rewrite Eq; reflexivity).
      rewrite X, (a_step_flat _ (OPlain b) rot Logic.I), init_view_o_flat. cbn [written]. rewrite app_nil_r. reflexivity.
Qed.

Lemma g_run_o_flat c v ops : forall a obs, Forall basic_op ops -> length obs = length ops ->
  gflat_o v (g_run_o c v a ops obs) = gflat_o v a ++ written ops.
Proof.
  induction ops as [|o r IH]; intros a obs Hb Hl; [cbn; rewrite app_nil_r; reflexivity|].
  destruct obs as [|ob robs]; [discriminate|]. inversion Hb as [|o' r' Ho Hr]; subst.
  cbn [g_run_o]. rewrite IH by (auto; cbn in Hl; lia). rewrite g_step_o_flat by assumption.
  rewrite (written_cons o r), app_assoc. reflexivity.
Qed.

(* ---- start and stop ---- *)
Lemma idleo_spec c c' x v : c_spec c = c_spec c' -> IdleO c x v -> IdleO c' x v.
Proof.
  intros E [H1 [H2 [H3 [H4 [H5 H6]]]]].
  split; [exact H1|]. split; [exact H2|]. split; [exact H3|]. split; [exact H4|]. split; [exact H5|].
  exact (reader_view_opt_spec c c' _ _ _ E H6).
Qed.

Lemma start_preo c x v : IdleO c x v -> PreO c (fst (step x (OStart c))) v /\ obs_ok (snd (step x (OStart c))).
Proof.
  intros [Ht [Ha [Es [Q [W D]]]]]. unfold step, apply_start. rewrite Es. unfold step_core. rewrite Es. cbn [sync_step fst snd].
  split; [|reflexivity]. split; [exact Ht|]. split; [exact Ha|]. split; [reflexivity|]. split; [exact Q|]. split; [exact W | exact D].
Qed.

(* the directory after the run *)
Definition gview_o (v : oview) (a : aview) : oview :=
  match a with None => v | Some (cl, cu) => (cl, Some cu) end.

Lemma gview_o_flat v a : oflat (gview_o v a) = gflat_o v a.
Proof. destruct a as [[cl cu]|]; reflexivity. Qed.

Lemma stop_o c crit x v a : numcfg c crit -> GRelO c crit x v a ->
  reader_view_opt c (wfs (s_w (fst (step x OStop)))) (fst (gview_o v a)) (snd (gview_o v a))
  /\ obs_ok (snd (step x OStop)).
Proof.
  intros Hcfg G. destruct a as [[closed cur]|]; cbn [GRelO gview_o fst snd] in *.
  - pose proof (stop_rel c crit x _ Hcfg G) as S.
    assert (K : obs_ok (snd (step x OStop))).
    { rewrite (step_sync_rel c crit x _ OStop Hcfg G). cbn [sync_step].
      destruct G as [_ [_ [wr [roll [Es _]]]]]. rewrite Es. reflexivity. }
    destruct (step x OStop) as [x' ob]. cbn [fst snd] in *. split; [|exact K].
    apply reader_view_opt_some. exact S.
  - rewrite (step_sync_preo c crit x v OStop Hcfg G). destruct G as [Ht [Ha [Es [Q [W D]]]]]. cbn [sync_step].
    rewrite Es. cbn [new_flw f_poisoned drop_state shutdown_state f_inner fst snd s_w]. split; [exact D | reflexivity].
Qed.

(* ---- one whole run on the directory of a killed writer ---- *)
Lemma one_run_o c crit x v ops :
  numcfg c crit -> (N.of_nat (length (fst v)) <= u32_max)%N ->
  Forall basic_op ops -> IdleO c x v ->
  Forall obs_ok (snd (run x (OStart c :: ops ++ [OStop])))
  /\ exists closed ocur, reader_view_opt c (wfs (s_w (fst (run x (OStart c :: ops ++ [OStop]))))) closed ocur
       /\ concat closed ++ (match ocur with Some cu => cu | None => [] end) = oflat v ++ written ops.
Proof.
  intros Hcfg Hb Hops Id. cbn [run]. pose proof (start_preo c x v Id) as [P0 K0].
  destruct (step x (OStart c)) as [x0 ob0]. cbn [fst snd] in P0, K0.
  rewrite run_app.
  pose proof (grun_rel_o c crit v Hcfg Hb ops x0 None P0 Hops) as [G1 K1]. pose proof (run_length ops x0) as L.
  destruct (run x0 ops) as [x1 obs1]. cbn [fst snd] in *.
  pose proof (stop_o c crit x1 v _ Hcfg G1) as [S K2]. cbn [run]. destruct (step x1 OStop) as [x2 ob2]. cbn [fst snd] in *.
  split.
  - constructor; [exact K0|]. apply Forall_app. split; [exact K1 | constructor; [exact K2 | constructor]].
  - exists (fst (gview_o v (g_run_o c v None ops obs1))), (snd (gview_o v (g_run_o c v None ops obs1))).
    split; [exact S|].
    pose proof (gview_o_flat v (g_run_o c v None ops obs1)) as F. unfold oflat in F at 1. rewrite F.
    rewrite (g_run_o_flat c v ops None obs1 Hops L). reflexivity.
Qed.

(* ------------------------------------------------------------------ Theorem B *)
(* The statement asked for, with one side condition that the model needs (as in numbers_restarts_partial):

   Theorem numbers_kill_restart c crit c' crit' t0 off ops1 k ops2 ops3 :
     numcfg c crit -> c_cap c = None -> numcfg c' crit' -> c_spec c' = c_spec c ->
     Forall basic_op ops1 -> Forall basic_op ops2 -> Forall basic_op ops3 ->
     ... every observation of the second run is a success, and the final directory reads (r00000.., rCURRENT if it
     exists) exactly  written ops1 ++ acked .. ops2 ++ written ops3.

   - the bound on the length of the first history is needed because the index that the restarting writer reads back
     from a listed file name is parsed as u32 and counts as 0 when it does not fit (index_beyond_u32_reads_as_0 in
     NumRestart.v).  Nothing else is missing: any kill point, any history, any capacity / append flag / criterion
     for the second writer.
   - rCURRENT is absent from the final directory only when the second run writes nothing and the kill fell between
     the rename and the creation. *)
Theorem numbers_kill_restart_partial c crit c' crit' t0 off ops1 k ops2 ops3 :
  numcfg c crit -> c_cap c = None -> numcfg c' crit' -> c_spec c' = c_spec c ->
  Forall basic_op ops1 -> Forall basic_op ops2 -> Forall basic_op ops3 ->
  (N.of_nat (S (length ops1 + length ops2)) <= u32_max)%N ->
  let x1 := fst (run (sys0 t0 off) (OStart c :: ops1 ++ [OSetKill k])) in
  let xk := fst (run (sys0 t0 off) (OStart c :: ops1 ++ [OSetKill k] ++ ops2 ++ [OCrash])) in
  let r2 := run xk (OStart c' :: ops3 ++ [OStop]) in
  Forall obs_ok (snd r2)
  /\ exists closed ocur,
       reader_view_opt c' (wfs (s_w (fst r2))) closed ocur
       /\ concat closed ++ (match ocur with Some cu => cu | None => [] end)
          = written ops1 ++ acked x1 ops2 ++ written ops3.
Proof.
  intros Hcfg Hcap Hcfg' Hsp Hb1 Hb2 Hb3 Hbound x1 xk r2.
  destruct (kill_history c crit Hcfg Hcap t0 off ops1 k ops2 Hb1 Hb2) as [v [Id [F Len]]].
  fold xk in Id. fold x1 in F.
  assert (Hb : (N.of_nat (length (fst v)) <= u32_max)%N) by lia.
  destruct (one_run_o c' crit' xk v ops3 Hcfg' Hb Hb3 (idleo_spec c c' xk v (eq_sym Hsp) Id)) as [K [cl [ocu [R E]]]].
  split; [exact K|]. exists cl, ocu. split; [exact R|]. rewrite E, F, <- app_assoc. reflexivity.
Qed.
Print Assumptions numbers_kill_restart_partial.

(* the two runs as one history *)
Lemma two_runs_one_history x h1 h2 :
  run x (h1 ++ h2) = (fst (run (fst (run x h1)) h2), snd (run x h1) ++ snd (run (fst (run x h1)) h2)).
Proof. rewrite run_app. destruct (run x h1) as [xa oa]. cbn [fst snd]. destruct (run xa h2). reflexivity. Qed.

(* ------------------------------------------------------------------ examples (non-vacuity) *)
Open Scope string_scope.
(* first writer: direct mode, size criterion 3 *)
Definition kx_cfg : config := ex_cfg (ex_sp "log") false (CSize 3) None.
Definition kx_ops1 : list op := [OWrite (bs "abcd"); OWrite (bs "ef")].
Definition kx_ops2 : list op := [OTrigger; OWrite (bs "gh"); OSnap].
Definition kx_hist (k : nat) : list op := OStart kx_cfg :: kx_ops1 ++ [OSetKill k] ++ kx_ops2 ++ [OCrash].
Definition kx_armed (k : nat) : sys := fst (run (sys0 0 0) (OStart kx_cfg :: kx_ops1 ++ [OSetKill k])).

Lemma kx_numcfg : numcfg kx_cfg (CSize 3).
Proof. repeat split. Qed.
Lemma kx_basic1 : Forall basic_op kx_ops1.
Proof. repeat constructor. Qed.
Lemma kx_basic2 : Forall basic_op kx_ops2.
Proof. repeat constructor. Qed.

(* kill point 1: the trigger renames rCURRENT to r00001 (one effect), the creation of the new rCURRENT is the kill
   point.  The directory has no current file; nothing of ops2 is acknowledged *)
Example kill_in_rotation_dir :
  snap_of (fst (run (sys0 0 0) (kx_hist 1)))
  = [ (bs "app_r00000.log", 0%N, bs "abcd"); (bs "app_r00001.log", 0%N, bs "ef") ].
Proof. vm_compute. reflexivity. Qed.

Example kill_in_rotation_alive :
  List.map (fun j => alive (s_w (fst (run (kx_armed 1) (firstn j kx_ops2))))) [0; 1; 2; 3] = [true; false; false; false]
  /\ acked (kx_armed 1) kx_ops2 = [].
Proof. vm_compute. split; reflexivity. Qed.

Example kill_in_rotation_instance :
  exists closed ocur,
    reader_view_opt kx_cfg (wfs (s_w (fst (run (sys0 0 0) (kx_hist 1))))) closed ocur
    /\ concat closed ++ (match ocur with Some cu => cu | None => [] end) = bs "abcdef".
Proof.
  destruct (numbers_kill_keeps_acked kx_cfg (CSize 3) 0 0 kx_ops1 1 kx_ops2 kx_numcfg eq_refl kx_basic1 kx_basic2)
    as [cl [ocu [R E]]].
  exists cl, ocu. split; [exact R|]. rewrite E. vm_compute. reflexivity.
Qed.

(* the other kill points of the same history: 0 - the rename is the kill point, nothing changes; 2 - the rotation is
   completed (acknowledged, it writes nothing), the write of "gh" is the kill point: the new current file is empty;
   3 - everything happens *)
Example kill_points_dirs :
  snap_of (fst (run (sys0 0 0) (kx_hist 0)))
  = [ (bs "app_r00000.log", 0%N, bs "abcd"); (bs "app_rCURRENT.log", 0%N, bs "ef") ]
  /\ snap_of (fst (run (sys0 0 0) (kx_hist 2)))
  = [ (bs "app_r00000.log", 0%N, bs "abcd"); (bs "app_r00001.log", 0%N, bs "ef"); (bs "app_rCURRENT.log", 0%N, []) ]
  /\ snap_of (fst (run (sys0 0 0) (kx_hist 3)))
  = [ (bs "app_r00000.log", 0%N, bs "abcd"); (bs "app_r00001.log", 0%N, bs "ef"); (bs "app_rCURRENT.log", 0%N, bs "gh") ]
  /\ acked (kx_armed 0) kx_ops2 = [] /\ acked (kx_armed 2) kx_ops2 = [] /\ acked (kx_armed 3) kx_ops2 = bs "gh".
Proof. vm_compute. repeat split; reflexivity. Qed.

(* a kill inside a write that rotates: "ghij" is written and acknowledged, the next write rotates (6 > 3: rename,
   create) and is killed at its write effect *)
Example kill_in_rotating_write :
  let ops2 := [OWrite (bs "ghij"); OWrite (bs "kl")] in
  snap_of (fst (run (sys0 0 0) (OStart kx_cfg :: kx_ops1 ++ [OSetKill 3] ++ ops2 ++ [OCrash])))
  = [ (bs "app_r00000.log", 0%N, bs "abcd"); (bs "app_r00001.log", 0%N, bs "efghij"); (bs "app_rCURRENT.log", 0%N, []) ]
  /\ acked (kx_armed 3) ops2 = bs "ghij".
Proof. vm_compute. split; reflexivity. Qed.

(* a kill in the very first write: the creation of rCURRENT is the kill point, the directory stays empty *)
Example kill_in_first_write :
  snap_of (fst (run (sys0 0 0) (OStart kx_cfg :: [] ++ [OSetKill 0] ++ [OWrite (bs "a")] ++ [OCrash]))) = [].
Proof. vm_compute. reflexivity. Qed.

(* the restart: a buffered, appending writer on the directory without rCURRENT; and a non-appending writer on the
   directory with the freshly created empty rCURRENT (it closes the empty file under the next number) *)
Definition kx_cfg2 (app : bool) : config := ex_cfg (ex_sp "log") app (CSize 100) (Some 8%nat).
Definition kx_ops3 : list op := [OWrite (bs "ij"); OFlush; OTick 5; OWrite (bs "k")].

Example restart_after_kill_dirs :
  snap_of (fst (run (fst (run (sys0 0 0) (kx_hist 1))) (OStart (kx_cfg2 true) :: kx_ops3 ++ [OStop])))
  = [ (bs "app_r00000.log", 0%N, bs "abcd"); (bs "app_r00001.log", 0%N, bs "ef"); (bs "app_rCURRENT.log", 0%N, bs "ijk") ]
  /\ snap_of (fst (run (fst (run (sys0 0 0) (kx_hist 2))) (OStart (kx_cfg2 false) :: kx_ops3 ++ [OStop])))
  = [ (bs "app_r00000.log", 0%N, bs "abcd"); (bs "app_r00001.log", 0%N, bs "ef"); (bs "app_r00002.log", 0%N, []);
      (bs "app_rCURRENT.log", 0%N, bs "ijk") ].
Proof. vm_compute. split; reflexivity. Qed.

Example restart_after_kill_instance :
  let r2 := run (fst (run (sys0 0 0) (kx_hist 1))) (OStart (kx_cfg2 true) :: kx_ops3 ++ [OStop]) in
  Forall obs_ok (snd r2)
  /\ exists closed ocur,
       reader_view_opt (kx_cfg2 true) (wfs (s_w (fst r2))) closed ocur
       /\ concat closed ++ (match ocur with Some cu => cu | None => [] end) = bs "abcdefijk".
Proof.
  assert (H : numcfg (kx_cfg2 true) (CSize 100)) by (repeat split).
  assert (H3 : Forall basic_op kx_ops3) by (repeat constructor).
  assert (Hb : (N.of_nat (S (length kx_ops1 + length kx_ops2)) <= u32_max)%N) by (vm_compute; discriminate).
  destruct (numbers_kill_restart_partial kx_cfg (CSize 3) (kx_cfg2 true) (CSize 100) 0 0 kx_ops1 1 kx_ops2 kx_ops3
              kx_numcfg eq_refl H eq_refl kx_basic1 kx_basic2 H3 Hb) as [K [cl [ocu [R E]]]].
  split; [exact K|]. exists cl, ocu. split; [exact R|]. rewrite E. vm_compute. reflexivity.
Qed.

Print Assumptions numbers_kill_keeps_acked.
Print Assumptions numbers_kill_restart_partial.
