(* NumbersDirect naming with a cleanup strategy: "the cleanup keeps exactly the newest files, compresses losslessly and
   spares the file that is being written", end to end, for every history  OStart c :: ops ++ [OStop]  of basic operations
   from the empty directory.  Parts: NumDCleanupStep.v (the effective limits klimd, one cleanup), NumDCleanupRun.v
   (invariant, rotation, run; theorem numbersdirect_cleanup_stream).  Here: the properties spelled out
   (numbersdirect_cleanup), the relation to the run without cleanup (numbersdirect_cleanup_vs_never), no operation
   fails or panics (numbersdirect_cleanup_no_panic), the version for a size criterion, examples, and the counterexamples
   that show that the side conditions are necessary.

   WHAT THE MODEL DOES (determined by vm_compute, see the examples at the end; L = number of closed files, the file
   being written is r<L>):  there is no rCURRENT, the file being written is the first entry of the listing that the
   cleanup works on, and it COUNTS for the first limit; cleanup_impl raises a first limit of 0 to 1 for the direct
   namings; besides (repaired code) the cleanup is told which file it is and skips it - see CurrentSpared.v.  So, with (n, m) = klimd k = (max 1 n0, m) for KeepLogAndCompressedFiles(n0, m):
     - the plain files are r<L+1-n> .. r<L>: the current file and the newest n - 1 closed files (NOT n closed files as with
       Numbers naming: KeepLogFiles(2) keeps rCURRENT + 2 closed files there, r<L> + 1 closed file here);
     - the archives are the m closed files before them;
     - KeepLogFiles(0), KeepCompressedFiles(m), KeepLogAndCompressedFiles(0, m) never compress or remove the current
       file: they behave like first limit 1. *)
Require Import FL.Base.Bytes FL.Base.BytesFacts FL.Base.PathName FL.Fs.Fs FL.Fs.FsFacts FL.Time.Civil FL.Time.TsFormat
  FL.Names.FileSpec FL.Names.NamesFacts FL.Names.SortFacts FL.Names.FamilyFacts FL.Flw.Model FL.Flw.ModelFacts FL.Flw.NumFs
  FL.Flw.NumInv FL.Flw.Run FL.Flw.RunFacts FL.Flw.NumRun FL.Oracles.O_Flw FL.Flw.NumTheorems FL.Flw.NumListing FL.Flw.CleanupFacts
  FL.Flw.NumKillRestart FL.Flw.NumDInv FL.Flw.NumDRun FL.Flw.NumDTheorems
  FL.Flw.NumCleanupNames FL.Flw.NumCleanupStep FL.Flw.NumCleanupRun FL.Flw.NumCleanup
  FL.Flw.NumDCleanupStep FL.Flw.NumDCleanupRun.
From Coq Require Import ZifyN ZifyNat ZifyBool.
Open Scope nat_scope.

(* ------------------------------------------------------------------ the final directory, name by name *)
Lemma dkview_names c f closed cur lo mid : dkreader_view c f closed cur lo mid ->
  forall x, (exists j, lookup f x = Some j) <->
    (exists i, mid <= i <= length closed /\ x = rname c i) \/ (exists i, lo <= i < mid /\ x = gname c i).
Proof.
  intros [[Hle Hnd Hp Ha Hon] [Hmid Hnc]] x. rewrite len_snoc in Hle, Hp, Hon. split.
  - intros [j Lj]. destruct (Hon _ _ Lj) as [->|[(i & Hi & ->)|(i & Hi & ->)]].
    + congruence.
    + left. exists i. split; [lia | reflexivity].
    + right. exists i. split; [lia | reflexivity].
  - intros [(i & Hi & ->)|(i & Hi & ->)].
    + destruct (Hp i ltac:(lia)) as (j & Lj & _). eauto.
    + destruct (Ha i Hi) as (j & Lj & _). eauto.
Qed.

(* ------------------------------------------------------------------ 1. THE PROPERTIES *)
(* (n, m) = klimd k: n = number of plain files kept, the file being written INCLUDED (n >= 1); m = number of files kept
   as archives.  closed, cur: the reader's view that the run would leave without cleanup (numbersdirect_cleanup_vs_never):
   the contents of r<0> .. r<L-1> and of the file being written, r<L>. *)
Theorem numbersdirect_cleanup c crit k n m t0 off ops closed cur :
  numdkcfg c crit k -> klimd k = Some (n, m) -> Forall basic_op ops ->
  sfx_ok (c_spec c) ->
  a_run None ops (snd (run (fst (step (sys0 t0 off) (OStart c))) ops)) = Some (closed, cur) ->
  let f := wfs (s_w (fst (run (sys0 t0 off) (OStart c :: ops ++ [OStop])))) in
  let L := length closed in let lo := S L - (n + m) in let mid := S L - n in
  (* what was written *)
  concat closed ++ cur = written ops
  (* exactly these names exist, each once: the current file r<L> is among the plain ones; there is no rCURRENT *)
  /\ (forall x, (exists j, lookup f x = Some j) <->
        (exists i, mid <= i <= L /\ x = rname c i) \/ (exists i, lo <= i < mid /\ x = gname c i))
  /\ NoDup (dir_names f)
  /\ lookup f (cname c) = None
  (* (a) the limits: at most n plain files, the current one included (so at most n - 1 closed ones), at most m archives;
         the next cleanup would see them like this *)
  /\ 1 <= n /\ mid <= L /\ S L - mid <= n /\ mid - lo <= m
  /\ (forall off', list_log_gz off' (c_spec c) (fixed0 c) f IFNum = Some (listing c lo mid (S L)))
  /\ (forall off', get_highest_index off' (c_spec c) (fixed0 c) f <> None)
  (* the newest n - 1 closed files are there as they were closed *)
  /\ (forall i, mid <= i < L -> lookup f (gname c i) = None /\
        exists fl, file_of f (rname c i) = Some fl /\ fdata fl = nth i closed [] /\ fgz fl = 0%N /\ fdir fl = false)
  (* (c) the next m are complete archives of what the file held when it was closed; the original is gone *)
  /\ (forall i, lo <= i < mid -> lookup f (rname c i) = None /\
        exists fl, file_of f (gname c i) = Some fl /\ fdata fl = nth i closed [] /\ fgz fl = 1%N /\ fdir fl = false)
  (* older files are gone *)
  /\ (forall i, i < lo -> lookup f (rname c i) = None /\ lookup f (gname c i) = None)
  (* (b) the survivors, read by index (the last one is the current file): a suffix of what was written *)
  /\ written ops = concat (firstn lo closed) ++ concat (map (fun i => data_at f (entry c mid i)) (seq lo (S L - lo)))
  (* (d) the current file is never compressed or removed: it is plain and holds what it would hold without cleanup *)
  /\ lookup f (gname c L) = None
  /\ (exists fl, file_of f (rname c L) = Some fl /\ fdata fl = cur /\ fgz fl = 0%N /\ fdir fl = false).
Proof.
  intros Hcfg Hk Hb Hsfx Ea f L lo mid.
  pose proof (numbersdirect_cleanup_stream c crit k t0 off ops Hcfg Hb) as T. cbv zeta in T. rewrite Ea in T. fold f in T.
  destruct T as [Fl [V _]]. { unfold dside. rewrite Hk. exact Hsfx. }
  cbn [flat] in Fl. unfold d_lo, d_mid in V. rewrite Hk in V. fold L lo mid in V.
  pose proof (klimd_pos _ _ _ Hk) as Hn.
  pose proof (dkview_names _ _ _ _ _ _ V) as Names. fold L in Names.
  destruct V as [KD [Hmid Hnc]]. pose proof KD as [Hle Hnd Hp Ha Hon]. rewrite len_snoc in Hle, Hp, Hon. fold L in Hle, Hp, Hon, Hmid.
  set (all := closed ++ [cur]) in *.
  assert (Elen : length all = S L) by (unfold all; apply len_snoc).
  assert (Nth1 : forall i, i < L -> nth i all [] = nth i closed []) by (intros i Hi; unfold all; apply app_nth1; exact Hi).
  assert (NthL : nth L all [] = cur) by (unfold all, L; rewrite app_nth2, Nat.sub_diag by lia; reflexivity).
  assert (NoName : forall x, ~ ((exists i, mid <= i <= L /\ x = rname c i) \/ (exists i, lo <= i < mid /\ x = gname c i)) ->
                   lookup f x = None).
  { intros x H. destruct (lookup f x) as [j|] eqn:E; [|reflexivity]. exfalso. apply H, Names. eauto. }
  assert (Data : forall i, lo <= i < S L -> data_at f (entry c mid i) = nth i all []).
  { intros i Hi. unfold data_at, file_of. destruct (Nat.le_gt_cases mid i) as [H|H].
    - rewrite entry_plain by exact H. destruct (Hp i ltac:(lia)) as (j & -> & _ & Cj). exact Cj.
    - rewrite entry_arch by exact H. destruct (Ha i ltac:(lia)) as (j & -> & Dj & _). exact Dj. }
  assert (LG : forall off', list_log_gz off' (c_spec c) (fixed0 c) f IFNum = Some (listing c lo mid (S L))).
  { intros off'. apply list_log_gz_numbers; [exact Hsfx|]. rewrite <- Elen. apply kdir_shape. exact KD. }
  split; [exact Fl|]. split; [exact Names|]. split; [exact Hnd|]. split; [exact Hnc|].
  split; [exact Hn|]. split; [exact Hmid|]. split; [unfold mid; lia|]. split; [unfold lo, mid; lia|].
  split; [exact LG|].
  split. { intros off'. unfold get_highest_index. rewrite LG. discriminate. }
  split.
  { intros i Hi. split.
    - apply NoName. intros [(j & Hj & X)|(j & Hj & X)].
      + exact (gname_ne_rname _ _ _ X).
      + apply gname_inj in X. lia.
    - destruct (Hp i ltac:(lia)) as (j & Lj & [Gj Dj] & Cj). exists (inode f j). unfold file_of. rewrite Lj.
      rewrite Nth1 in Cj by lia. auto. }
  split.
  { intros i Hi. split.
    - apply NoName. intros [(j & Hj & X)|(j & Hj & X)].
      + apply rname_inj in X. lia.
      + symmetry in X. exact (gname_ne_rname _ _ _ X).
    - destruct (Ha i Hi) as (j & Lj & Dj & Gj & Fj). exists (inode f j). unfold file_of. rewrite Lj.
      rewrite Nth1 in Dj by lia. auto. }
  split.
  { intros i Hi. split; apply NoName; intros [(j & Hj & X)|(j & Hj & X)].
    - apply rname_inj in X. lia.
    - symmetry in X. exact (gname_ne_rname _ _ _ X).
    - exact (gname_ne_rname _ _ _ X).
    - apply gname_inj in X. lia. }
  split.
  { rewrite (map_seq_skipn (fun i => data_at f (entry c mid i)) all [] (S L - lo) lo); [|rewrite Elen; unfold lo; lia | rewrite Elen; exact Data].
    replace (firstn lo closed) with (firstn lo all) by (unfold all; rewrite firstn_app; replace (lo - length closed) with 0 by (fold L; lia); cbn [firstn]; apply app_nil_r).
    rewrite <- concat_app, firstn_skipn. unfold all. rewrite concat_app. cbn [concat]. rewrite app_nil_r. symmetry. exact Fl. }
  split.
  { apply NoName. intros [(j & Hj & X)|(j & Hj & X)].
    - exact (gname_ne_rname _ _ _ X).
    - apply gname_inj in X. lia. }
  destruct (Hp L ltac:(lia)) as (j & Lj & [Gj Dj] & Cj). exists (inode f j). unfold file_of. rewrite Lj.
  rewrite NthL in Cj. auto.
Qed.
Print Assumptions numbersdirect_cleanup.

(* KNever: everything stays - the reader's view of NumDRun.v, without side conditions *)
Lemma dkview_direct c f closed cur : dkreader_view c f closed cur 0 0 -> direct_view c f (closed ++ [cur]).
Proof.
  intros V. pose proof (dkview_names _ _ _ _ _ _ V) as Names. destruct V as [[Hle Hnd Hp Ha Hon] [Hmid Hnc]]. split.
  - intros i Hi. apply Hp. lia.
  - intros x j Lx. destruct (proj1 (Names x) (ex_intro _ j Lx)) as [(i & Hi & ->)|(i & Hi & _)]; [|lia].
    exists i. rewrite len_snoc. split; [lia | reflexivity].
Qed.

Corollary numbersdirect_cleanup_never c crit t0 off ops :
  numdkcfg c crit KNever -> Forall basic_op ops ->
  match a_run None ops (snd (run (fst (step (sys0 t0 off) (OStart c))) ops)) with
  | None => names (wfs (s_w (fst (run (sys0 t0 off) (OStart c :: ops ++ [OStop]))))) = []
  | Some (closed, cur) => direct_view c (wfs (s_w (fst (run (sys0 t0 off) (OStart c :: ops ++ [OStop]))))) (closed ++ [cur])
  end.
Proof.
  intros Hcfg Hb. pose proof (numbersdirect_cleanup_stream c crit KNever t0 off ops Hcfg Hb) as T. cbv zeta in T.
  destruct T as [_ [V _]]; [exact I|].
  destruct (a_run None ops (snd (run (fst (step (sys0 t0 off) (OStart c))) ops))) as [[closed cur]|]; [|exact V].
  apply dkview_direct. exact V.
Qed.

(* ------------------------------------------------------------------ 2. THE SAME HISTORY WITHOUT CLEANUP *)
(* The rotation flags - and with them the view (closed, cur) - do not depend on the cleanup strategy: they are decided by
   the clock and the rotation state alone (trace_ok).  So the view of the run with cleanup IS what the same history
   leaves in the directory when the strategy is KNever. *)
Lemma runs_agree_d c c' crit k k' : numdkcfg c crit k -> numdkcfg c' crit k' -> (forall L, dside c' k' L) ->
  forall ops x x' a, RelDK c crit k x a -> RelDK c' crit k' x' a ->
  wnow (s_w x') = wnow (s_w x) -> woff (s_w x') = woff (s_w x) -> roll_of_sys x' = roll_of_sys x ->
  Forall basic_op ops ->
  dside c k (nclosed (a_run a ops (snd (run x ops)))) ->
  a_run a ops (snd (run x' ops)) = a_run a ops (snd (run x ops)).
Proof.
  intros Hcfg Hcfg' Hside'. induction ops as [|o r IH]; intros x x' a R R' Hn Ho Hr Hb Hside; [reflexivity|].
  inversion Hb as [|o' r' Hbo Hbr]; subst. cbn [run] in *.
  pose proof (step_rel_dk c crit k x a o Hcfg R Hbo) as S. pose proof (step_rel_dk c' crit k' x' a o Hcfg' R' Hbo) as S'.
  destruct (step x o) as [x1 ob]. destruct (step x' o) as [x1' ob'].
  specialize (IH x1 x1'). destruct (run x1 r) as [x2 obs]. destruct (run x1' r) as [x2' obs']. cbn [snd a_run] in *.
  destruct S as (R1 & _ & (F1 & G1 & N1 & O1) & _); [eapply dside_le; [apply nclosed_run | exact Hside]|].
  destruct (S' (Hside' _)) as (R1' & _ & (F1' & G1' & N1' & O1') & _).
  assert (Ef : rot_of ob' = rot_of ob) by (rewrite F1, F1', Hr; apply flag_of_env; assumption).
  rewrite Ef in *. apply IH; auto; congruence.
Qed.

Definition never_cfg_d (c : config) (crit : criterion) : config :=
  {| c_spec := c_spec c; c_append := c_append c; c_cap := c_cap c; c_rot := Some (crit, NNumbersDirect, KNever); c_utc := c_utc c;
     c_symlink := c_symlink c; c_bg := c_bg c; c_async := c_async c; c_start := c_start c |}.

Lemma never_cfg_d_ok c crit k : numdkcfg c crit k -> numdcfg (never_cfg_d c crit) crit.
Proof. intros (_ & A & B & C & _). repeat split; assumption. Qed.

(* the configuration of the comparison run is one of NumDInv.v / NumDTheorems.v (numdcfg): the run without cleanup leaves
   r<0> .. r<L> with the contents closed ++ [cur] (direct_view), or nothing *)
Theorem numbersdirect_cleanup_vs_never c crit k t0 off ops :
  numdkcfg c crit k -> Forall basic_op ops ->
  let a := a_run None ops (snd (run (fst (step (sys0 t0 off) (OStart c))) ops)) in
  dside c k (nclosed a) ->
  let f0 := wfs (s_w (fst (run (sys0 t0 off) (OStart (never_cfg_d c crit) :: ops ++ [OStop])))) in
  numdcfg (never_cfg_d c crit) crit
  /\ match a with
     | None => names f0 = []
     | Some (closed, cur) => direct_view c f0 (closed ++ [cur])
     end.
Proof.
  intros Hcfg Hb a Hside f0. split; [exact (never_cfg_d_ok c crit k Hcfg)|].
  assert (Hcfg0 : numdkcfg (never_cfg_d c crit) crit KNever) by (destruct Hcfg as (_ & ? & ? & ? & ?); repeat split; assumption).
  pose proof (numbersdirect_cleanup_never (never_cfg_d c crit) crit t0 off ops Hcfg0 Hb) as T. fold f0 in T.
  assert (Ea : a_run None ops (snd (run (fst (step (sys0 t0 off) (OStart (never_cfg_d c crit)))) ops)) = a).
  { apply (runs_agree_d c (never_cfg_d c crit) crit k KNever Hcfg Hcfg0); auto.
    - intros L. exact I.
    - apply start_rel_dk.
    - apply start_rel_dk. }
  rewrite Ea in T. destruct a as [[closed cur]|]; exact T.
Qed.
Print Assumptions numbersdirect_cleanup_vs_never.

(* ------------------------------------------------------------------ 3. NO OPERATION FAILS OR PANICS *)
Theorem numbersdirect_cleanup_no_panic c crit k t0 off ops :
  numdkcfg c crit k -> Forall basic_op ops ->
  dside c k (nclosed (a_run None ops (snd (run (fst (step (sys0 t0 off) (OStart c))) ops)))) ->
  Forall obs_ok (snd (run (sys0 t0 off) (OStart c :: ops ++ [OStop]))).
Proof.
  intros Hcfg Hb Hside. pose proof (numbersdirect_cleanup_stream c crit k t0 off ops Hcfg Hb) as T. cbv zeta in T.
  destruct (T Hside) as [_ [_ K]]. exact K.
Qed.
Print Assumptions numbersdirect_cleanup_no_panic.

(* ------------------------------------------------------------------ size criterion: the view is a function of the operations *)
Lemma step_flag_dk c k m x a o b :
  numdkcfg c (CSize m) k -> RelDK c (CSize m) k x a -> dside c k 0 -> (o = OWrite b \/ o = OPlain b) ->
  rot_of (snd (step x o)) = (m <? N.of_nat (length (cur_of a)))%N.
Proof.
  intros Hcfg R Hs0 Ho. rewrite (step_sync_rel_dk c (CSize m) k x a o Hcfg R). destruct R as [Ht [Ha R]].
  assert (G : forall buf, exists s, s_flw x = Some s /\ f_poisoned s = false /\
              snd (write_buffer s (s_w x) buf) = (m <? N.of_nat (length (cur_of a)))%N).
  { intros buf. destruct a as [[closed cur]|].
    - destruct R as [wr [roll [Es [I [V [Z RS]]]]]]. exists (st_ofdk c k (length closed) roll wr).
      split; [exact Es|]. split; [reflexivity|]. rewrite write_buffer_rotflag_d.
      destruct (RS m eq_refl) as [z ->]. cbn in Z. subst z. reflexivity.
    - destruct R as [Es [Q [Hn Hi]]]. exists (new_flw c). split; [exact Es|]. split; [reflexivity|].
      destruct (initialize_empty_dk c (CSize m) k (s_w x) Hcfg Hs0 Q Hn Hi) as [w1 [wr [roll [Ei [I [V [Z [S1 [RS _]]]]]]]]].
      rewrite (write_buffer_init c (s_w x) buf _ _ _ w1 Ei).
      change {| f_cfg := c; f_inner := Active (Some (mk_rsk k (NSNumD 0) roll)) wr (rname c 0); f_poisoned := false |}
        with (st_ofdk c k 0 roll wr).
      rewrite write_buffer_rotflag_d, (RS m eq_refl). reflexivity. }
  destruct Ho as [-> | ->]; cbn [sync_step].
  - destruct (G (s_tl x ++ b)) as (s & Es & Hp & Hr). rewrite Es, Hp.
    destruct (write_buffer s (s_w x) (s_tl x ++ b)) as [[[r w'] s'] rot]. exact Hr.
  - destruct (G b) as (s & Es & Hp & Hr). rewrite Es, Hp.
    destruct (write_buffer s (s_w x) b) as [[[r w'] s'] rot]. exact Hr.
Qed.

Lemma run_size_dk' c k m : numdkcfg c (CSize m) k -> forall ops x a, RelDK c (CSize m) k x a -> Forall basic_op ops ->
  dside c k (nclosed (s_run m a ops)) ->
  a_run a ops (snd (run x ops)) = s_run m a ops.
Proof.
  intros Hcfg. induction ops as [|o r IH]; intros x a R Hb Hside; [reflexivity|].
  inversion Hb as [|o' r' Ho Hr]; subst. cbn [s_run] in Hside.
  assert (Hs1 : dside c k (nclosed (a_step a o (m <? N.of_nat (length (cur_of a)))%N)))
    by (eapply dside_le; [apply nclosed_s_run | exact Hside]).
  assert (Hs0 : dside c k 0) by (eapply dside_le; [|exact Hs1]; lia).
  assert (Erot : a_step a o (rot_of (snd (step x o))) = a_step a o (m <? N.of_nat (length (cur_of a)))%N).
  { destruct o; try reflexivity.
    - rewrite (step_flag_dk c k m x a (OWrite b) b Hcfg R Hs0 (or_introl eq_refl)). reflexivity.
    - rewrite (step_flag_dk c k m x a (OPlain b) b Hcfg R Hs0 (or_intror eq_refl)). reflexivity. }
  pose proof (step_rel_dk c (CSize m) k x a o Hcfg R Ho) as S. cbn [run].
  destruct (step x o) as [x1 ob]. cbn [snd] in Erot. rewrite Erot in S. destruct (S Hs1) as [R1 _].
  specialize (IH x1 _ R1 Hr Hside). destruct (run x1 r) as [x2 obs]. cbn [snd a_run s_run] in *. rewrite Erot. exact IH.
Qed.

(* C08 + cleanup: the closed files and the current file are the greedy partition of what was written (the side condition
   is a condition on the operations alone); the directory holds the current file and the newest n - 1 closed files plain,
   the next m as archives *)
Theorem numbersdirect_cleanup_partition c k m t0 off ops :
  numdkcfg c (CSize m) k -> Forall basic_op ops ->
  dside c k (nclosed (s_run m None ops)) ->
  let f := wfs (s_w (fst (run (sys0 t0 off) (OStart c :: ops ++ [OStop])))) in
  match s_run m None ops with
  | None => names f = []
  | Some (closed, cur) =>
    closed ++ [cur] = expected_files m None (items false ops)
    /\ dkreader_view c f closed cur (d_lo k (length closed)) (d_mid k (length closed))
  end.
Proof.
  intros Hcfg Hb Hside f.
  pose proof (start_rel_dk c (CSize m) k t0 off) as R0.
  pose proof (run_size_dk' c k m Hcfg ops _ None R0 Hb Hside) as Es.
  pose proof (numbersdirect_cleanup_stream c (CSize m) k t0 off ops Hcfg Hb) as T. cbv zeta in T. rewrite Es in T.
  destruct (T Hside) as [_ [V _]]. fold f in V.
  pose proof (s_run_none m ops Hb) as P.
  destruct (s_run m None ops) as [[closed cur]|]; [|exact V]. split; [exact P | exact V].
Qed.
Print Assumptions numbersdirect_cleanup_partition.

(* ------------------------------------------------------------------ examples *)
Import String.StringSyntax.
Delimit Scope string_scope with string.

Definition exd_kcfg (k : cleanup) (sfx : option bytes) : config :=
  {| c_spec := {| fbase := bs "a"%string; fdisc := None; fts := false; fsfx := sfx |};
     c_append := false; c_cap := None; c_rot := Some (CSize 3, NNumbersDirect, k); c_utc := false; c_symlink := false;
     c_bg := false; c_async := false; c_start := None |}.
(* ex_ops (NumCleanup.v): six records of five bytes, limit 3: a rotation before each record but the first.
   Without cleanup: r00000 .. r00005, the last one is the file being written *)
Definition exd_final (k : cleanup) (sfx : option bytes) : obs :=
  snapshot (s_w (fst (run (sys0 0 0) (OStart (exd_kcfg k sfx) :: ex_ops ++ [OStop])))).
Definition rec5 (i : N) : bytes := bs "abcd"%string ++ [i].

Example exd_never :
  exd_final KNever log_sfx =
  ObsSnap [(bs "a_r00000.log"%string, 0%N, rec5 0); (bs "a_r00001.log"%string, 0%N, rec5 1);
           (bs "a_r00002.log"%string, 0%N, rec5 2); (bs "a_r00003.log"%string, 0%N, rec5 3);
           (bs "a_r00004.log"%string, 0%N, rec5 4); (bs "a_r00005.log"%string, 0%N, rec5 5)] None [].
Proof. vm_compute. reflexivity. Qed.

(* KLog 2: TWO plain files in total - the current file and ONE closed file (Numbers naming: rCURRENT and two closed
   files, ex_log_2 in NumCleanup.v) *)
Example exd_log_2 :
  exd_final (KLog 2) log_sfx =
  ObsSnap [(bs "a_r00004.log"%string, 0%N, rec5 4); (bs "a_r00005.log"%string, 0%N, rec5 5)] None [].
Proof. vm_compute. reflexivity. Qed.

(* KLog 1 and KLog 0: the current file only *)
Example exd_log_1_0 :
  exd_final (KLog 1) log_sfx = ObsSnap [(bs "a_r00005.log"%string, 0%N, rec5 5)] None []
  /\ exd_final (KLog 0) log_sfx = ObsSnap [(bs "a_r00005.log"%string, 0%N, rec5 5)] None [].
Proof. split; vm_compute; reflexivity. Qed.

(* KGz 2 = KLogGz 0 2 = KLogGz 1 2: the current file stays PLAIN (it is neither compressed nor removed although the first
   limit is 0), the two closed files before it are archives *)
Example exd_gz_2 :
  let d := ObsSnap [(bs "a_r00003.log.gz"%string, 1%N, rec5 3); (bs "a_r00004.log.gz"%string, 1%N, rec5 4);
                    (bs "a_r00005.log"%string, 0%N, rec5 5)] None [] in
  exd_final (KGz 2) log_sfx = d /\ exd_final (KLogGz 0 2) log_sfx = d /\ exd_final (KLogGz 1 2) log_sfx = d.
Proof. repeat split; vm_compute; reflexivity. Qed.

Example exd_loggz_2_2 :
  exd_final (KLogGz 2 2) log_sfx =
  ObsSnap [(bs "a_r00002.log.gz"%string, 1%N, rec5 2); (bs "a_r00003.log.gz"%string, 1%N, rec5 3);
           (bs "a_r00004.log"%string, 0%N, rec5 4); (bs "a_r00005.log"%string, 0%N, rec5 5)] None [].
Proof. vm_compute. reflexivity. Qed.

(* both limits 0: only the current file is left - it is never touched *)
Example exd_loggz_0_0 :
  exd_final (KLogGz 0 0) log_sfx = ObsSnap [(bs "a_r00005.log"%string, 0%N, rec5 5)] None []
  /\ exd_final (KGz 0) log_sfx = ObsSnap [(bs "a_r00005.log"%string, 0%N, rec5 5)] None [].
Proof. split; vm_compute; reflexivity. Qed.

(* the hypotheses of the theorems hold for this history (they are not vacuous), and the conclusion is what was computed *)
Lemma exd_numdkcfg k sfx : numdkcfg (exd_kcfg k sfx) (CSize 3) k.
Proof. repeat split. Qed.
Lemma exd_sfx_ok k : sfx_ok (c_spec (exd_kcfg k log_sfx)).
Proof. vm_compute. reflexivity. Qed.

Definition exd_closed : list bytes := map (fun i => rec5 (N.of_nat i)) (seq 0 5).

Example exd_view :
  a_run None ex_ops (snd (run (fst (step (sys0 0 0) (OStart (exd_kcfg (KLogGz 2 2) log_sfx)))) ex_ops)) = Some (exd_closed, rec5 5).
Proof. vm_compute. reflexivity. Qed.

(* numbersdirect_cleanup for KLogGz 2 2 and five rotations: L = 5, n = 2, m = 2, lo = 2, mid = 4 *)
Example exd_instance :
  let c := exd_kcfg (KLogGz 2 2) log_sfx in
  let f := wfs (s_w (fst (run (sys0 0 0) (OStart c :: ex_ops ++ [OStop])))) in
  (forall x, (exists j, lookup f x = Some j) <->
        (exists i, 4 <= i <= 5 /\ x = rname c i) \/ (exists i, 2 <= i < 4 /\ x = gname c i))
  /\ (exists fl, file_of f (rname c 4) = Some fl /\ fdata fl = rec5 4 /\ fgz fl = 0%N /\ fdir fl = false)
  /\ (exists fl, file_of f (gname c 3) = Some fl /\ fdata fl = rec5 3 /\ fgz fl = 1%N /\ fdir fl = false)
  /\ lookup f (rname c 3) = None /\ lookup f (rname c 1) = None /\ lookup f (gname c 1) = None
  /\ lookup f (gname c 5) = None
  /\ (exists fl, file_of f (rname c 5) = Some fl /\ fdata fl = rec5 5 /\ fgz fl = 0%N /\ fdir fl = false).
Proof.
  intros c f.
  pose proof (numbersdirect_cleanup c (CSize 3) (KLogGz 2 2) 2 2 0 0 ex_ops exd_closed (rec5 5)
                (exd_numdkcfg _ _) eq_refl ex_ops_basic (exd_sfx_ok _) exd_view) as T.
  cbv zeta in T. fold f in T. change (length exd_closed) with 5 in T. cbn [Nat.sub Nat.add] in T.
  destruct T as (_ & Names & _ & _ & _ & _ & _ & _ & _ & _ & Pl & Ar & Old & _ & NoG & Cur).
  split; [exact Names|].
  split; [exact (proj2 (Pl 4 ltac:(lia)))|].
  split; [exact (proj2 (Ar 3 ltac:(lia)))|].
  split; [exact (proj1 (Ar 3 ltac:(lia)))|].
  split; [exact (proj1 (Old 1 ltac:(lia)))|].
  split; [exact (proj2 (Old 1 ltac:(lia)))|].
  split; [exact NoG | exact Cur].
Qed.

(* the comparison run of numbersdirect_cleanup_vs_never for this history: r00000 .. r00005 *)
Example exd_vs_never_instance :
  let c := exd_kcfg (KLogGz 2 2) log_sfx in
  direct_view c (wfs (s_w (fst (run (sys0 0 0) (OStart (never_cfg_d c (CSize 3)) :: ex_ops ++ [OStop]))))) (exd_closed ++ [rec5 5]).
Proof.
  intros c. subst c.
  pose proof (numbersdirect_cleanup_vs_never (exd_kcfg (KLogGz 2 2) log_sfx) (CSize 3) (KLogGz 2 2) 0 0 ex_ops (exd_numdkcfg _ _) ex_ops_basic) as T.
  cbv zeta in T. rewrite exd_view in T. apply T. exact (exd_sfx_ok _).
Qed.

Example exd_no_panic_instance :
  Forall obs_ok (snd (run (sys0 0 0) (OStart (exd_kcfg (KGz 2) log_sfx) :: ex_ops ++ [OStop]))).
Proof.
  apply (numbersdirect_cleanup_no_panic _ (CSize 3) (KGz 2)); [apply exd_numdkcfg | exact ex_ops_basic|].
  exact (exd_sfx_ok _).
Qed.

(* a history with buffering, append, flushes, triggers (also before the first record), clock ticks and an age-or-size
   criterion *)
Definition exd_c2 : config :=
  {| c_spec := {| fbase := bs "srv"%string; fdisc := Some (bs "a1"%string); fts := false; fsfx := None |};
     c_append := true; c_cap := Some 4; c_rot := Some (CAgeOrSize ADay 6, NNumbersDirect, KLogGz 1 1); c_utc := false; c_symlink := false;
     c_bg := false; c_async := false; c_start := None |}.
Definition exd_ops2 : list op :=
  [OTrigger; OWrite (bs "abcd"%string); OTick 3; OWrite (bs "ef"%string); OFlush; OTrigger; OPlain (bs "g"%string); OSnap;
   OTick 90000; OWrite (bs "hi"%string); OWrite (bs "jklmnop"%string); OWrite (bs "q"%string); OTrigger].
Example exd2_dir :
  snapshot (s_w (fst (run (sys0 0 0) (OStart exd_c2 :: exd_ops2 ++ [OStop]))))
  = ObsSnap [(bs "srv_a1_r00003.gz"%string, 1%N, bs "q"%string); (bs "srv_a1_r00004"%string, 0%N, [])] None [].
Proof. vm_compute. reflexivity. Qed.
Example exd2_view :
  a_run None exd_ops2 (snd (run (fst (step (sys0 0 0) (OStart exd_c2))) exd_ops2))
  = Some ([bs "abcdef"%string; bs "g"%string; bs "hijklmnop"%string; bs "q"%string], []).
Proof. vm_compute. reflexivity. Qed.
Example exd2_instance :
  let f := wfs (s_w (fst (run (sys0 0 0) (OStart exd_c2 :: exd_ops2 ++ [OStop])))) in
  (forall x, (exists j, lookup f x = Some j) <-> (exists i, 4 <= i <= 4 /\ x = rname exd_c2 i) \/ (exists i, 3 <= i < 4 /\ x = gname exd_c2 i))
  /\ Forall obs_ok (snd (run (sys0 0 0) (OStart exd_c2 :: exd_ops2 ++ [OStop]))).
Proof.
  intros f. assert (Hcfg : numdkcfg exd_c2 (CAgeOrSize ADay 6) (KLogGz 1 1)) by (repeat split).
  assert (Hb : Forall basic_op exd_ops2) by (repeat constructor).
  assert (Hsfx : sfx_ok (c_spec exd_c2)) by exact I.
  split.
  - pose proof (numbersdirect_cleanup exd_c2 _ (KLogGz 1 1) 1 1 0 0 exd_ops2
                  [bs "abcdef"%string; bs "g"%string; bs "hijklmnop"%string; bs "q"%string] []
                  Hcfg eq_refl Hb Hsfx exd2_view) as T.
    cbv zeta in T. fold f in T. cbn [length Nat.sub Nat.add] in T. exact (proj1 (proj2 T)).
  - apply (numbersdirect_cleanup_no_panic _ _ (KLogGz 1 1) 0 0 exd_ops2 Hcfg Hb). rewrite exd2_view.
    exact Hsfx.
Qed.

(* ------------------------------------------------------------------ the side conditions are necessary (findings) *)
(* 1. The suffix "gz": every file is listed twice (as a log file and as an archive), the current file included.  With
      KLogGz 2 1 one expects the current file, one closed file plain and one archive; what is left is the current file only. *)
Example d_sfx_gz_counterexample :
  ~ sfx_ok (c_spec (exd_kcfg (KLogGz 2 1) (Some (bs "gz"%string))))
  /\ exd_final (KLogGz 2 1) (Some (bs "gz"%string)) = ObsSnap [(bs "a_r00005.gz"%string, 0%N, rec5 5)] None [].
Proof. split; [vm_compute; discriminate | vm_compute; reflexivity]. Qed.

(* 2. A suffix that ends with ".gz": the closed files are taken for archives and are never compressed; with KGz 2 the two
      files before the current one are kept PLAIN (kind 0) and there is no archive. *)
Example d_sfx_log_gz_counterexample :
  ~ sfx_ok (c_spec (exd_kcfg (KGz 2) (Some (bs "log.gz"%string))))
  /\ exd_final (KGz 2) (Some (bs "log.gz"%string)) =
     ObsSnap [(bs "a_r00003.log.gz"%string, 0%N, rec5 3); (bs "a_r00004.log.gz"%string, 0%N, rec5 4);
              (bs "a_r00005.log.gz"%string, 0%N, rec5 5)] None [].
Proof. split; [vm_compute; discriminate | vm_compute; reflexivity]. Qed.

(* 3. Index 100000, REPAIRED (this was the counterexample d_index_100000_counterexample: the listing was sorted by name,
      "r100000" sorted before "r99999", so r99999 was taken for the file that is being written; the cleanup with KLog 1
      REMOVED r100000, THE FILE THAT IS BEING WRITTEN, and with KGz 1 compressed it).  The sort key now compares the number
      behind the last "_r" numerically: r100000 is listed first and spared; KLog 1 removes the closed file r99999, KGz 1
      compresses it. *)
Definition dbig_c (k : cleanup) : config := exd_kcfg k log_sfx.
Definition dbig_fs : fs :=
  mkfile (mkfile empty_fs (rname (dbig_c (KLog 1)) (N.to_nat 99999)) (bs "closed"%string) 0 10)
         (rname (dbig_c (KLog 1)) (N.to_nat 100000)) (bs "current"%string) 0 20.
Example d_index_100000_repaired :
  rname (dbig_c (KLog 1)) (N.to_nat 99999) = bs "a_r99999.log"%string
  /\ rname (dbig_c (KLog 1)) (N.to_nat 100000) = bs "a_r100000.log"%string
  /\ list_log_gz 0 (c_spec (dbig_c (KLog 1))) (fixed0 (dbig_c (KLog 1))) dbig_fs IFNum
     = Some [bs "a_r100000.log"%string; bs "a_r99999.log"%string]
  /\ (let r := cleanup_impl (dbig_c (KLog 1)) (world_of dbig_fs) (KLog 1) IFNum (Some (bs "a_r100000.log"%string)) in
      fst r = Ok tt
      /\ map (data_at (wfs (snd r))) [bs "a_r99999.log"%string; bs "a_r100000.log"%string] = [[]; bs "current"%string]
      /\ lookup (wfs (snd r)) (bs "a_r99999.log"%string) = None)
  /\ (let r := cleanup_impl (dbig_c (KGz 1)) (world_of dbig_fs) (KGz 1) IFNum (Some (bs "a_r100000.log"%string)) in
      fst r = Ok tt
      /\ lookup (wfs (snd r)) (bs "a_r99999.log"%string) = None /\ lookup (wfs (snd r)) (bs "a_r100000.log.gz"%string) = None
      /\ map (data_at (wfs (snd r))) [bs "a_r99999.log.gz"%string; bs "a_r100000.log"%string] = [bs "closed"%string; bs "current"%string]).
Proof. vm_compute. repeat split; reflexivity. Qed.

(* 4. AN EMPTY FIXED NAME PART (basename suppressed, no discriminant), REPAIRED (this was the counterexample
      d_index_100000_counterexample_empty_fixed to the first version of the repair, which split the name at "_r" only): the
      names are r<digits>.<suffix> without "_"; the sort key reads the number behind the leading "r": r100000, the file
      that is being written, is listed first and spared; KLog 1 removes the closed file r99999, KGz 1 compresses it. *)
Definition dnofix_c (k : cleanup) : config :=
  {| c_spec := {| fbase := []; fdisc := None; fts := false; fsfx := log_sfx |};
     c_append := false; c_cap := None; c_rot := Some (CSize 3, NNumbersDirect, k); c_utc := false; c_symlink := false;
     c_bg := false; c_async := false; c_start := None |}.
Definition dnofix_fs : fs :=
  mkfile (mkfile empty_fs (rname (dnofix_c (KLog 1)) (N.to_nat 99999)) (bs "closed"%string) 0 10)
         (rname (dnofix_c (KLog 1)) (N.to_nat 100000)) (bs "current"%string) 0 20.
Example d_index_100000_empty_fixed_repaired :
  numdkcfg (dnofix_c (KLog 1)) (CSize 3) (KLog 1) /\ sfx_ok (c_spec (dnofix_c (KLog 1))) /\ fixed0 (dnofix_c (KLog 1)) = []
  /\ rname (dnofix_c (KLog 1)) (N.to_nat 99999) = bs "r99999.log"%string
  /\ rname (dnofix_c (KLog 1)) (N.to_nat 100000) = bs "r100000.log"%string
  /\ list_log_gz 0 (c_spec (dnofix_c (KLog 1))) (fixed0 (dnofix_c (KLog 1))) dnofix_fs IFNum
     = Some [bs "r100000.log"%string; bs "r99999.log"%string]
  /\ (let r := cleanup_impl (dnofix_c (KLog 1)) (world_of dnofix_fs) (KLog 1) IFNum (Some (bs "r100000.log"%string)) in
      fst r = Ok tt
      /\ map (data_at (wfs (snd r))) [bs "r99999.log"%string; bs "r100000.log"%string] = [[]; bs "current"%string]
      /\ lookup (wfs (snd r)) (bs "r99999.log"%string) = None)
  /\ (let r := cleanup_impl (dnofix_c (KGz 1)) (world_of dnofix_fs) (KGz 1) IFNum (Some (bs "r100000.log"%string)) in
      fst r = Ok tt
      /\ lookup (wfs (snd r)) (bs "r99999.log"%string) = None /\ lookup (wfs (snd r)) (bs "r100000.log.gz"%string) = None
      /\ map (data_at (wfs (snd r))) [bs "r99999.log.gz"%string; bs "r100000.log"%string] = [bs "closed"%string; bs "current"%string]).
Proof.
  split; [repeat split|]. split; [vm_compute; reflexivity|]. split; [reflexivity|].
  vm_compute. repeat split; reflexivity.
Qed.
