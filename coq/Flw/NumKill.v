(* Numbers naming, direct mode (no user-space buffer), a process that is killed at an arbitrary effect:
   no acknowledged record is lost, nothing else is in the files.

   The kill counter is consumed by `effect` only (one unit per file-system effect: rename, create/open, write);
   `tick` (the fault oracle) does not touch it.  The observations of the model carry no "dead" marker: the harness
   recognises the operations of a dead process by `alive (s_w x) = false` after the step (`alive` is extracted for
   that).  An operation is ACKNOWLEDGED when the process is still alive after it. *)
Require Import FL.Base.Bytes FL.Base.BytesFacts FL.Base.PathName FL.Fs.Fs FL.Fs.FsFacts FL.Time.Civil FL.Time.TsFormat
  FL.Names.FileSpec FL.Names.NamesFacts FL.Flw.Model FL.Flw.ModelFacts FL.Flw.NumFs FL.Flw.NumInv FL.Flw.Run FL.Flw.RunFacts
  FL.Flw.NumRun FL.Flw.NumListing FL.Oracles.O_Flw FL.Flw.NumTheorems FL.Flw.NumRestart FL.Flw.KillFacts.
From Coq Require Import ZifyN ZifyNat ZifyBool.
Open Scope nat_scope.

(* ------------------------------------------------------------------ the reader's view, current file optional *)
(* a kill between the rename of rCURRENT and the creation of the new one leaves no current file *)
Definition reader_view_opt (c : config) (f : fs) (closed : list bytes) (ocur : option bytes) : Prop :=
  (forall i, i < length closed ->
     exists j, lookup f (rname c i) = Some j /\ plain (inode f j) /\ content f j = nth i closed [])
  /\ match ocur with
     | Some cur => exists j, lookup f (cname c) = Some j /\ plain (inode f j) /\ content f j = cur
     | None => lookup f (cname c) = None
     end
  /\ (forall n j, lookup f n = Some j -> n = cname c \/ exists i, i < length closed /\ n = rname c i).

Lemma reader_view_opt_some c f cl cu : reader_view_opt c f cl (Some cu) <-> reader_view c f cl cu.
Proof. unfold reader_view_opt, reader_view. tauto. Qed.

Definition oview := (list bytes * option bytes)%type.
Definition oflat (v : oview) : bytes := concat (fst v) ++ match snd v with Some cu => cu | None => [] end.

Lemma reader_view_opt_spec c c' f cl ocu : c_spec c = c_spec c' -> reader_view_opt c f cl ocu -> reader_view_opt c' f cl ocu.
Proof.
  intros E [H1 [H2 H3]]. unfold reader_view_opt. rewrite <- (cname_spec_eq c c' E).
  split; [|split].
  - intros i Hi. rewrite <- (rname_spec_eq c c' i E). apply H1. exact Hi.
  - exact H2.
  - intros n j L. destruct (H3 n j L) as [->|[i [Hi ->]]]; [left; reflexivity|]. right. exists i.
    split; [exact Hi | apply rname_spec_eq; exact E].
Qed.

(* the directory of a dead process *)
Definition DeadDir (c : config) (w : world) (v : oview) : Prop :=
  dead w /\ fs_wf (wfs w) /\ reader_view_opt c (wfs w) (fst v) (snd v).

Lemma numinv_view c q wr cl : NumInv c q wr cl -> wpend wr = [] ->
  fs_wf (wfs q) /\ reader_view_opt c (wfs q) cl (Some (cur_view q wr)).
Proof.
  intros [Q W Hc Hcp Hcl Hon Hwr Hcap] P. split; [exact W|]. split; [exact Hcl|]. split; [|exact Hon].
  exists (wino wr). split; [exact Hc|]. split; [exact Hcp|]. unfold cur_view. rewrite P, app_nil_r. reflexivity.
Qed.

(* after the rename, before the new current file exists *)
Lemma rename_view c q wr cl f1 : NumInv c q wr cl -> rename (wfs q) (cname c) (rname c (length cl)) = Some f1 ->
  fs_wf f1 /\ reader_view_opt c f1 (cl ++ [content (wfs q) (wino wr)]) None.
Proof.
  intros [Q W Hc Hcp Hcl Hon Hwr Hcap] Er.
  destruct (rename_spec (wfs q) (cname c) (rname c (length cl)) (wino wr) (fun E => rname_not_cname c _ (eq_sym E)) Hc)
    as [f' [E [Hino [Lt [Lc Lo]]]]].
  rewrite Er in E. injection E as <-.
  split; [exact (wf_rename _ _ _ _ W Er)|].
  assert (In1 : forall j, inode f1 j = inode (wfs q) j) by (intros j; unfold inode; rewrite Hino; reflexivity).
  split; [|split].
  - intros i Hi. rewrite app_length in Hi. cbn [length] in Hi.
    destruct (Nat.eq_dec i (length cl)) as [->|Hne].
    + exists (wino wr). split; [exact Lt|]. split; [rewrite In1; exact Hcp|].
      unfold content. rewrite In1, app_nth2, Nat.sub_diag by lia. reflexivity.
    + assert (Hi' : i < length cl) by lia. destruct (Hcl i Hi') as [j [Lj [Pj Cj]]]. exists j.
      rewrite Lo; [|apply rname_not_cname | intros E; apply rname_inj in E; lia].
      split; [exact Lj|]. split; [rewrite In1; exact Pj|]. unfold content. rewrite In1, app_nth1 by assumption. exact Cj.
  - exact Lc.
  - intros n j Hn.
    destruct (beq_spec n (rname c (length cl))) as [->|Hn2].
    + right. exists (length cl). rewrite app_length. cbn [length]. split; [lia | reflexivity].
    + destruct (beq_spec n (cname c)) as [->|Hn1]; [rewrite Lc in Hn; discriminate|].
      rewrite Lo in Hn by assumption. destruct (Hon _ _ Hn) as [E|[i [Hi E]]]; [contradiction|].
      right. exists i. rewrite app_length. cbn [length]. split; [lia | exact E].
Qed.

(* ------------------------------------------------------------------ the clock does not look at the counter *)
Lemma rot_nec_kw q k roll : rotation_necessary (kw q k) roll = rotation_necessary q roll.
Proof. destruct roll; reflexivity. Qed.
Lemma reset_kw q k roll path : reset_size_and_date (kw q k) roll path = reset_size_and_date q roll path.
Proof. destruct roll; reflexivity. Qed.

Lemma alive_kw q n : alive (kw q (S n)) = true.
Proof. reflexivity. Qed.
Lemma alive_kw0 q : alive (kw q 0) = false.
Proof. reflexivity. Qed.

Lemma w_flush_nop w wr : wpend wr = [] -> w_flush w wr = (true, w, {| wino := wino wr; wpend := []; wcap := wcap wr |}).
Proof. intros P. unfold w_flush. rewrite P. reflexivity. Qed.
Lemma w_drop_nop w wr : wpend wr = [] -> w_drop w wr = w.
Proof. intros P. unfold w_drop. rewrite w_flush_nop by assumption. reflexivity. Qed.

(* ------------------------------------------------------------------ the relation for a process with a budget *)
Definition with_w (x : sys) (q : world) : sys := {| s_flw := s_flw x; s_w := q; s_tl := s_tl x; s_dead := s_dead x |}.
(* the world of x is a quiet world q with the counter at S n (alive, n effects left); apart from the counter the
   state is related to the abstract view as in a run without kill *)
Definition KRel (c : config) (crit : criterion) (x : sys) (a : aview) : Prop :=
  exists q n, s_w x = kw q (S n) /\ Rel c crit (with_w x q) a.
Definition apot (a : aview) : nat := match a with Some (cl, _) => length cl | None => 0 end.

Lemma empty_view c f : names f = [] -> fs_wf f /\ reader_view_opt c f [] None.
Proof.
  intros Hn. split.
  - split; intros; rewrite lookup_empty in * by assumption; discriminate.
  - split; [intros i Hi; cbn in Hi; lia|]. split; [apply lookup_empty; assumption|].
    intros n j L. rewrite lookup_empty in L by assumption. discriminate.
Qed.

Lemma step_sync_cfg x o s : s_flw x = Some s -> fts (c_spec (f_cfg s)) = false -> c_async (f_cfg s) = false ->
  step x o = sync_step x o.
Proof.
  intros Es Hts Ha. rewrite step_plain by (intros s' Es'; rewrite Es in Es'; injection Es' as <-; exact Hts).
  unfold step_core. rewrite Es. unfold is_async. rewrite Ha. reflexivity.
Qed.

Lemma writer_eta wr : wpend wr = [] -> {| wino := wino wr; wpend := []; wcap := wcap wr |} = wr.
Proof. destruct wr; cbn. intros ->. reflexivity. Qed.

Lemma a_step_apot a o rot : apot (a_step a o rot) <= S (apot a).
Proof.
  destruct a as [[cl cu]|]; destruct o; cbn [a_step apot]; try lia; try destruct rot; cbn [apot]; rewrite ?app_length; cbn [length]; lia.
Qed.

(* ------------------------------------------------------------------ acknowledged records *)
(* the payloads of the writes after which the process is still alive *)
Fixpoint acked (x : sys) (ops : list op) : bytes :=
  match ops with
  | [] => []
  | o :: r => let x' := fst (step x o) in (if alive (s_w x') then written [o] else []) ++ acked x' r
  end.

Lemma fst_run_cons x o r : fst (run x (o :: r)) = fst (run (fst (step x o)) r).
Proof. cbn [run]. destruct (step x o) as [x1 ob]. cbn [fst]. destruct (run x1 r). reflexivity. Qed.
Lemma fst_run_app x a b : fst (run x (a ++ b)) = fst (run (fst (run x a)) b).
Proof. rewrite run_app. destruct (run x a) as [x1 o1]. cbn [fst]. destruct (run x1 b). reflexivity. Qed.

Lemma acked_dead : forall ops x, dead (s_w x) -> Forall basic_op ops -> acked x ops = [].
Proof.
  induction ops as [|o r IH]; intros x H Hb; [reflexivity|]. inversion Hb as [|o' r' Ho Hr]; subst. cbn [acked].
  pose proof (dead_step x o H Ho) as [D _]. rewrite (dead_not_alive _ D). cbn [app]. apply IH; assumption.
Qed.

Lemma a_run_apot : forall ops a obs, apot (a_run a ops obs) <= apot a + length ops.
Proof.
  induction ops as [|o r IH]; intros a obs; cbn [a_run length]; [lia|].
  destruct obs as [|ob robs]; [lia|]. specialize (IH (a_step a o (rot_of ob)) robs).
  pose proof (a_step_apot a o (rot_of ob)). lia.
Qed.

(* the directory when no writer is there; the current file may be missing *)
Definition IdleO (c : config) (x : sys) (v : oview) : Prop :=
  s_tl x = [] /\ wacts (s_w x) = 0 /\ s_flw x = None /\ quiet (s_w x) /\ fs_wf (wfs (s_w x))
  /\ reader_view_opt c (wfs (s_w x)) (fst v) (snd v).

Lemma step_crash x : step x OCrash = sync_step x OCrash.
Proof.
  unfold step, apply_start. destruct (s_flw x) as [s|] eqn:Es; cbn [names_computed andb]; unfold step_core; rewrite Es; [|reflexivity].
  destruct (is_async s); reflexivity.
Qed.

Section Direct.
Variables (c : config) (crit : criterion).
Hypothesis Hcfg : numcfg c crit.
Hypothesis Hcap : c_cap c = None.

Lemma direct_wr q wr cl : NumInv c q wr cl -> wpend wr = [] /\ wcap wr = None.
Proof.
  intros I. pose proof (ni_wr _ _ _ _ I) as Hw. pose proof (ni_cap _ _ _ _ I) as Hc. rewrite Hcap in Hc.
  unfold wr_ok in Hw. rewrite Hc in Hw. split; assumption.
Qed.

(* ---- one rotation with a budget: rename, create ---- *)
Lemma mount_next_k q wr cl roll force n :
  NumInv c q wr cl -> force || rotation_necessary q roll = true ->
  exists f1, rename (wfs q) (cname c) (rname c (length cl)) = Some f1 /\
  match n with
  | 0 => exists r st',
      mount_next c (kw q 1) (Active (Some (mk_rs (NSNumR (N.of_nat (length cl))) roll)) wr (cname c)) force = (r, kw q 0, st')
  | 1 => exists r st',
      mount_next c (kw q 2) (Active (Some (mk_rs (NSNumR (N.of_nat (length cl))) roll)) wr (cname c)) force
      = (r, kw (set_fs q f1) 0, st')
  | S (S n') => exists q' wr' roll',
      mount_next c (kw q (S (S (S n')))) (Active (Some (mk_rs (NSNumR (N.of_nat (length cl))) roll)) wr (cname c)) force
      = (Ok tt, kw q' (S n'),
         Active (Some (mk_rs (NSNumR (N.of_nat (length (cl ++ [cur_view q wr])))) roll')) wr' (cname c))
      /\ NumInv c q' wr' (cl ++ [cur_view q wr]) /\ cur_view q' wr' = [] /\ roll_size_ok roll' 0 /\ same_env q q'
      /\ (forall m cur, roll = RSize m cur -> exists cur', roll' = RSize m cur')
  end.
Proof.
  intros I Hnec. destruct Hcfg as [Hrot [Hts [Hlink _]]].
  destruct (direct_wr q wr cl I) as [Hp Hc0]. pose proof (ni_quiet _ _ _ _ I) as Q.
  destruct (rotate_numinv c q wr cl (wnow q) I) as [f1 [Er [L1c RI]]].
  exists f1. split; [exact Er|].
  assert (Hcur : match file_of (wfs q) (cname c) with Some fl => fdir fl | None => false end = false).
  { unfold file_of. rewrite (ni_cur _ _ _ _ I). apply (ni_curplain _ _ _ _ I). }
  destruct n as [|[|n']].
  - (* killed at the rename *)
    unfold mount_next. cbn [mk_rs rs_roll rs_naming rs_cleanup rs_bg]. rewrite rot_nec_kw, Hnec.
    unfold index_for_rcurrent. rewrite !(name_of_fixed c (kw q 1)) by assumption.
    fold (nm c cur_infix) (nm c (number_infix (N.of_nat (length cl)))). fold (cname c) (rname c (length cl)).
    rewrite p_rename_kw by exact Q. rewrite Er. cbn [eff]. cbv beta iota zeta.
    pose proof (dead_kw q Q) as Hd.
    destruct (open_log_file_dead c (kw q 0) (Some cur_infix) Hd) as [r2 E2]. rewrite E2.
    destruct r2 as [[wr' path']| |]; [|eauto|eauto].
    destruct (w_flush_dead (kw q 0) wr Hd) as [wra Ef]. rewrite Ef. cbv beta iota zeta. rewrite w_drop_dead by assumption.
    unfold cleanup_or_queue. cbn [cleanup_impl]. eauto.
  - (* killed at the creation of the new current file *)
    unfold mount_next. cbn [mk_rs rs_roll rs_naming rs_cleanup rs_bg]. rewrite rot_nec_kw, Hnec.
    unfold index_for_rcurrent. rewrite !(name_of_fixed c (kw q 2)) by assumption.
    fold (nm c cur_infix) (nm c (number_infix (N.of_nat (length cl)))). fold (cname c) (rname c (length cl)).
    rewrite p_rename_kw by exact Q. rewrite Er. cbn [eff]. rewrite Er. cbv beta iota zeta.
    unfold open_log_file. rewrite (name_of_fixed c (kw (set_fs q f1) 1)) by assumption. fold (nm c cur_infix) (cname c).
    unfold do_symlink. rewrite Hlink.
    rewrite p_open_kw by (apply quiet_set_fs; exact Q). cbn [set_fs wfs]. unfold file_of at 1. rewrite L1c. cbn [eff].
    pose proof (dead_kw (set_fs q f1) (quiet_set_fs q f1 Q)) as Hd.
    destruct (w_flush_dead (kw (set_fs q f1) 0) wr Hd) as [wra Ef]. rewrite Ef. cbv beta iota zeta. rewrite w_drop_dead by assumption.
    unfold cleanup_or_queue. cbn [cleanup_impl]. eauto.
  - (* the rotation is completed *)
    unfold mount_next. cbn [mk_rs rs_roll rs_naming rs_cleanup rs_bg]. rewrite rot_nec_kw, Hnec.
    unfold index_for_rcurrent. rewrite !(name_of_fixed c (kw q (S (S (S n'))))) by assumption.
    fold (nm c cur_infix) (nm c (number_infix (N.of_nat (length cl)))). fold (cname c) (rname c (length cl)).
    rewrite p_rename_kw by exact Q. rewrite Er. cbn [eff]. rewrite Er. cbv beta iota zeta.
    unfold open_log_file. rewrite (name_of_fixed c (kw (set_fs q f1) (S (S n')))) by assumption. fold (nm c cur_infix) (cname c).
    unfold do_symlink. rewrite Hlink.
    rewrite p_open_kw by (apply quiet_set_fs; exact Q). cbn [set_fs wfs wnow]. unfold file_of at 1. rewrite L1c. cbn [eff].
    cbn [set_fs wfs wnow].
    assert (Eopen : (if c_append c then open_append f1 (cname c) (wnow q) else open_trunc f1 (cname c) 0%N (wnow q))
                    = create_file f1 (cname c) 0%N (wnow q)).
    { destruct (c_append c); [apply open_append_fresh | apply open_trunc_fresh]; exact L1c. }
    rewrite Eopen. cbv beta iota zeta.
    rewrite w_flush_nop by exact Hp. cbv beta iota zeta. rewrite w_drop_nop by reflexivity.
    unfold cleanup_or_queue. cbn [cleanup_impl].
    set (q2 := set_fs (set_fs q f1) (fst (create_file f1 (cname c) 0%N (wnow q)))).
    assert (Q2 : quiet q2) by (apply quiet_set_fs, quiet_set_fs; exact Q).
    assert (F3 : wfs q2 = append_ino (fst (create_file f1 (cname c) 0%N (wnow q))) (wino wr) (wpend wr)).
    { rewrite Hp, append_ino_nil_id. reflexivity. }
    destruct (RI q2 Q2 F3) as [I2 [V2 _]].
    assert (Elen : N.of_nat (length (cl ++ [cur_view q wr])) = (N.of_nat (length cl) + 1)%N).
    { rewrite app_length. cbn [length]. lia. }
    eexists q2, _, (reset_size_and_date q2 roll (cname c)).
    split. { rewrite Elen, reset_kw. reflexivity. }
    split; [exact I2|]. split; [exact V2|].
    split. { destruct roll; cbn; auto. }
    split. { eapply same_env_trans; [apply same_env_set_fs; exact Q | apply same_env_set_fs; apply quiet_set_fs; exact Q]. }
    intros m cur ->. cbn. eauto.
Qed.

(* ---- one write(2) of the unbuffered writer with a budget ---- *)
Lemma w_write_k q wr cl b n :
  NumInv c q wr cl ->
  exists w', w_write (kw q (S n)) wr b = (true, w', wr) /\
   ( (exists q' n', w' = kw q' (S n') /\ NumInv c q' wr cl /\ cur_view q' wr = cur_view q wr ++ b /\ same_env q q')
     \/ w' = kw q 0 ).
Proof.
  intros I. destruct (direct_wr q wr cl I) as [Hp Hc0]. pose proof (ni_quiet _ _ _ _ I) as Q.
  unfold w_write. rewrite Hc0. rewrite p_write_kw by exact Q.
  destruct b as [|x b].
  - eexists. split; [reflexivity|]. left. exists q, n. split; [reflexivity|]. split; [exact I|].
    split; [rewrite app_nil_r; reflexivity | apply same_env_refl; exact Q].
  - destruct n as [|n']; cbn [eff].
    + eexists. split; [reflexivity|]. right. reflexivity.
    + eexists. split; [reflexivity|]. left. exists (set_fs q (append_ino (wfs q) (wino wr) (x :: b))), n'.
      split; [reflexivity|].
      destruct (numinv_append c q (set_fs q (append_ino (wfs q) (wino wr) (x :: b))) wr wr cl (x :: b) I eq_refl
                  (same_env_set_fs q _ Q) eq_refl eq_refl (ni_wr _ _ _ _ I)) as [I2 C2].
      split; [exact I2|]. split; [|apply same_env_set_fs; exact Q].
      unfold cur_view. rewrite C2, Hp, !app_nil_r. reflexivity.
Qed.

(* ---- a write on an active writer with a budget: every kill point ---- *)
Lemma write_active_k q wr cl roll b n :
  NumInv c q wr cl -> roll_size_ok roll (length (cur_view q wr)) ->
  exists r w' s' rot', write_buffer (st_of c (length cl) roll wr) (kw q (S n)) b = (r, w', s', rot') /\
  ( (exists q' n' wr' roll' cl', w' = kw q' (S n') /\ r = Ok tt /\ s' = st_of c (length cl') roll' wr'
       /\ rot' = rotation_necessary q roll
       /\ NumInv c q' wr' cl' /\ roll_size_ok roll' (length (cur_view q' wr')) /\ same_env q q'
       /\ (cl', cur_view q' wr') = (if rotation_necessary q roll then (cl ++ [cur_view q wr], b) else (cl, cur_view q wr ++ b))
       /\ (forall m cur, roll = RSize m cur -> exists cur', roll' = RSize m cur'))
    \/ (exists qd v, w' = kw qd 0 /\ quiet qd /\ fs_wf (wfs qd) /\ reader_view_opt c (wfs qd) (fst v) (snd v)
          /\ oflat v = concat cl ++ cur_view q wr /\ length (fst v) <= S (length cl)) ).
Proof.
  intros I Hsz. destruct (direct_wr q wr cl I) as [Hp Hc0]. pose proof (ni_quiet _ _ _ _ I) as Q.
  unfold write_buffer, st_of. cbn [f_cfg f_inner f_poisoned mk_rs rs_roll]. rewrite rot_nec_kw.
  destruct (rotation_necessary q roll) eqn:Er.
  - (* the write rotates first *)
    destruct (mount_next_k q wr cl roll false n I) as [f1 [Ern M]]; [cbn [orb]; exact Er|].
    destruct n as [|[|n']].
    + destruct M as [r1 [st1 E1]]. rewrite E1.
      destruct (wb_tail_dead {| f_cfg := c; f_inner := Active (Some (mk_rs (NSNumR (N.of_nat (length cl))) roll)) wr (cname c); f_poisoned := false |}
                  b r1 (kw q 0) st1 true (dead_kw q Q)) as [r [s' ET]].
      exists r, (kw q 0), s', true. split; [exact ET|]. right.
      destruct (numinv_view c q wr cl I Hp) as [W V].
      exists q, (cl, Some (cur_view q wr)). split; [reflexivity|]. split; [exact Q|]. split; [exact W|]. split; [exact V|].
      split; [reflexivity | cbn [fst]; lia].
    + destruct M as [r1 [st1 E1]]. rewrite E1.
      destruct (wb_tail_dead {| f_cfg := c; f_inner := Active (Some (mk_rs (NSNumR (N.of_nat (length cl))) roll)) wr (cname c); f_poisoned := false |}
                  b r1 (kw (set_fs q f1) 0) st1 true (dead_kw _ (quiet_set_fs q f1 Q))) as [r [s' ET]].
      exists r, (kw (set_fs q f1) 0), s', true. split; [exact ET|]. right.
      destruct (rename_view c q wr cl f1 I Ern) as [W V].
      exists (set_fs q f1), (cl ++ [content (wfs q) (wino wr)], None).
      split; [reflexivity|]. split; [apply quiet_set_fs; exact Q|]. split; [exact W|]. split; [exact V|].
      split.
      * unfold oflat, cur_view. cbn [fst snd]. rewrite concat_app, Hp. cbn [concat]. rewrite !app_nil_r. reflexivity.
      * cbn [fst]. rewrite app_length. cbn [length]. lia.
    + destruct M as [q1 [wr1 [roll1 [E1 [I1 [V1 [Z1 [S1 R1]]]]]]]]. rewrite E1. cbv beta iota zeta.
      destruct (w_write_k q1 wr1 (cl ++ [cur_view q wr]) b n' I1) as [w2 [Ew Out]]. rewrite Ew.
      eexists _, w2, _, true. split; [reflexivity|].
      destruct Out as [[q2 [n2 [-> [I2 [V2 S2]]]]] | ->].
      * left. exists q2, n2, wr1, (increase_size roll1 (N.of_nat (length b))), (cl ++ [cur_view q wr]).
        split; [reflexivity|]. split; [reflexivity|]. split; [reflexivity|]. split; [reflexivity|].
        split; [exact I2|]. rewrite V1 in V2. cbn [app] in V2.
        split. { rewrite V2. apply (roll_size_increase roll1 0 (length b)). exact Z1. }
        split; [eapply same_env_trans; eassumption|].
        split; [rewrite V2; reflexivity|].
        intros m cur Hr. destruct (R1 m cur Hr) as [cur' ->]. cbn. eauto.
      * right. destruct (direct_wr q1 wr1 _ I1) as [Hp1 _]. destruct (numinv_view c q1 wr1 _ I1 Hp1) as [W V].
        exists q1, (cl ++ [cur_view q wr], Some (cur_view q1 wr1)).
        split; [reflexivity|]. split; [apply I1|]. split; [exact W|]. split; [exact V|].
        split.
        -- unfold oflat. cbn [fst snd]. rewrite V1, concat_app. cbn [concat]. rewrite !app_nil_r. reflexivity.
        -- cbn [fst]. rewrite app_length. cbn [length]. lia.
  - (* no rotation *)
    unfold mount_next. cbn [mk_rs rs_roll orb]. rewrite rot_nec_kw, Er.
    destruct (w_write_k q wr cl b n I) as [w2 [Ew Out]]. rewrite Ew.
    eexists _, w2, _, false. split; [reflexivity|].
    destruct Out as [[q2 [n2 [-> [I2 [V2 S2]]]]] | ->].
    + left. exists q2, n2, wr, (increase_size roll (N.of_nat (length b))), cl.
      split; [reflexivity|]. split; [reflexivity|]. split; [reflexivity|]. split; [reflexivity|].
      split; [exact I2|].
      split. { rewrite V2, app_length. apply roll_size_increase. exact Hsz. }
      split; [exact S2|]. split; [rewrite V2; reflexivity|].
      intros m cur ->. cbn. eauto.
    + right. destruct (numinv_view c q wr cl I Hp) as [W V].
      exists q, (cl, Some (cur_view q wr)). split; [reflexivity|]. split; [exact Q|]. split; [exact W|]. split; [exact V|].
      split; [reflexivity | cbn [fst]; lia].
Qed.

(* ---- the first write: initialisation in the empty directory with a budget ---- *)
Lemma initialize_empty_k q n :
  quiet q -> names (wfs q) = [] -> inodes (wfs q) = [] ->
  match n with
  | 0 => exists r, initialize c (kw q 1) = (r, kw q 0)
  | S n' => exists q' wr roll,
      initialize c (kw q (S (S n'))) = (Ok (Active (Some (mk_rs (NSNumR 0) roll)) wr (cname c)), kw q' (S n'))
      /\ NumInv c q' wr [] /\ cur_view q' wr = [] /\ roll_size_ok roll 0 /\ same_env q q'
      /\ (forall m, crit = CSize m -> roll = RSize m 0)
  end.
Proof.
  intros Q Hn Hi. destruct Hcfg as [Hrot [Hts [Hlink _]]].
  assert (E0 : forall k, (if negb (c_append c)
                then let '(r, w1) := p_rename (kw q k) (name_of c (kw q k) (Some cur_infix)) (name_of c (kw q k) (Some (number_infix 0))) in
                     match r with ROk => (Ok (0 + 1)%N, w1) | RNotFound => (Ok 0%N, w1) | RErr => (Err, w1) end
                else (Ok 0%N, kw q k)) = (Ok 0%N, kw q k)).
  { intros k. destruct (negb (c_append c)); [|reflexivity]. rewrite p_rename_kw by exact Q.
    rewrite rename_none by (apply lookup_empty; assumption). reflexivity. }
  assert (Hnd : match file_of (wfs q) (cname c) with Some fl => fdir fl | None => false end = false).
  { unfold file_of. rewrite lookup_empty by assumption. reflexivity. }
  assert (Eopen : (if c_append c then open_append (wfs q) (cname c) (wnow q) else open_trunc (wfs q) (cname c) 0%N (wnow q))
                  = create_file (wfs q) (cname c) 0%N (wnow q)).
  { destruct (c_append c); [apply open_append_fresh | apply open_trunc_fresh]; apply lookup_empty; assumption. }
  destruct n as [|n'].
  - unfold initialize. rewrite Hrot. unfold init_naming, index_for_rcurrent, with_listing.
    rewrite tick_kw by assumption.
    unfold get_highest_index, list_log_gz. rewrite existing_rot_empty by exact Hn. cbn [filter_map_opt max_opt bind].
    rewrite E0. cbn [bind].
    unfold open_log_file. rewrite (name_of_fixed c (kw q 1)) by assumption. fold (nm c cur_infix) (cname c).
    unfold do_symlink. rewrite Hlink. rewrite p_open_kw by exact Q. rewrite Hnd. cbn [eff bind fst snd].
    destruct (roll_new_dead (kw q 0) crit (c_append c) (cname c) (dead_kw q Q)) as [r3 E3]. rewrite E3.
    destruct r3; cbn [bind]; eauto.
  - unfold initialize. rewrite Hrot. unfold init_naming, index_for_rcurrent, with_listing.
    rewrite tick_kw by assumption.
    unfold get_highest_index, list_log_gz. rewrite existing_rot_empty by exact Hn. cbn [filter_map_opt max_opt bind].
    rewrite E0. cbn [bind].
    unfold open_log_file. rewrite (name_of_fixed c (kw q (S (S n')))) by assumption. fold (nm c cur_infix) (cname c).
    unfold do_symlink. rewrite Hlink. rewrite p_open_kw by exact Q. rewrite Hnd. cbn [eff bind fst snd].
    rewrite !Eopen.
    set (q2 := set_fs q (fst (create_file (wfs q) (cname c) 0%N (wnow q)))).
    assert (Q2 : quiet q2) by (apply quiet_set_fs; exact Q).
    assert (F2 : wfs q2 = {| names := [(cname c, 0)]; inodes := [fresh_file (wnow q)] |}).
    { unfold q2. cbn [set_fs wfs]. unfold create_file. cbn [fst]. rewrite Hn, Hi. reflexivity. }
    assert (Eino : snd (create_file (wfs q) (cname c) 0%N (wnow q)) = 0) by (unfold create_file; cbn [snd]; rewrite Hi; reflexivity).
    rewrite Eino.
    set (wr := {| wino := 0; wpend := []; wcap := c_cap c |}).
    assert (Lc : lookup (wfs q2) (cname c) = Some 0) by (rewrite F2; unfold lookup; cbn; rewrite beq_refl; reflexivity).
    assert (Fo : file_of (wfs q2) (cname c) = Some (fresh_file (wnow q))) by (unfold file_of; rewrite Lc, F2; reflexivity).
    assert (RN : exists roll, roll_new (kw q2 (S n')) crit (c_append c) (cname c) = (Ok roll, kw q2 (S n')) /\ roll_size_ok roll 0
                 /\ (forall m, crit = CSize m -> roll = RSize m 0)).
    { unfold roll_new. destruct (c_append c).
      - rewrite tick_kw by exact Q2. cbn [kw set_kill wfs]. rewrite Fo. cbn [fresh_file fdata length].
        eexists. split; [reflexivity|]. split; [destruct crit; reflexivity|]. intros m ->. reflexivity.
      - eexists. split; [reflexivity|]. split; [destruct crit; reflexivity|]. intros m ->. reflexivity. }
    destruct RN as [roll [Ern [Z R]]]. rewrite Ern. cbn [bind].
    exists q2, wr, roll. split; [reflexivity|].
    split.
    { constructor.
      - exact Q2.
      - rewrite F2. split.
        + intros a j. unfold lookup; cbn. destruct (beq (cname c) a); [|discriminate]. intros E; injection E as <-. lia.
        + intros a b j. unfold lookup; cbn. destruct (beq_spec (cname c) a), (beq_spec (cname c) b); try discriminate. congruence.
      - exact Lc.
      - rewrite F2. split; reflexivity.
      - cbn [length]. intros i Hi'. lia.
      - intros n j. rewrite F2. unfold lookup; cbn. destruct (beq_spec (cname c) n); [auto | discriminate].
      - unfold wr_ok, wr. cbn. destruct (c_cap c); [lia | reflexivity].
      - reflexivity. }
    split. { unfold cur_view, content, inode. rewrite F2. reflexivity. }
    split; [exact Z|]. split; [apply same_env_set_fs; exact Q | exact R].
Qed.

(* ---- a write, from either kind of state ---- *)
Lemma write_rel_k x a b q n :
  s_w x = kw q (S n) -> Rel c crit (with_w x q) a ->
  exists s r w' s' rot, s_flw x = Some s /\ f_poisoned s = false /\
    write_buffer s (s_w x) b = (r, w', s', rot) /\
    ( (r = Ok tt /\ KRel c crit {| s_flw := Some s'; s_w := w'; s_tl := []; s_dead := s_dead x |} (a_step a (OWrite b) rot))
      \/ (exists v, DeadDir c w' v /\ oflat v = flat a /\ length (fst v) <= S (apot a)) ).
Proof.
  intros Ew [Ht [Ha R]]. cbn [with_w s_tl s_w s_flw] in Ht, Ha, R. rewrite Ew. destruct a as [[cl cu]|].
  - destruct R as [wr [roll [Es [I [V [Z RS]]]]]]. rewrite <- V in Z.
    destruct (write_active_k q wr cl roll b n I Z) as [r [w' [s' [rot' [E Out]]]]].
    exists (st_of c (length cl) roll wr), r, w', s', rot'. split; [exact Es|]. split; [reflexivity|]. split; [exact E|].
    destruct Out as [[q' [n' [wr' [roll' [cl' [-> [-> [-> [-> [I' [Z' [S' [V' R']]]]]]]]]]]]] | [qd [v [-> [Qd [W [Vw [Fl Len]]]]]]]].
    + left. split; [reflexivity|]. exists q', n'. split; [reflexivity|].
      split; [reflexivity|]. split; [cbn [with_w s_w]; exact (same_env_acts _ _ S' Ha)|].
      cbn [a_step]. rewrite V in V'.
      destruct (rotation_necessary q roll); injection V' as <- V''; (exists wr', roll'; cbn [with_w s_flw s_w];
        split; [reflexivity|]; split; [exact I'|]; split; [exact V''|]; split; [rewrite <- V''; exact Z'|];
        intros m Hm; destruct (RS m Hm) as [k ->]; destruct (R' m k eq_refl) as [k' ->]; eauto).
    + right. exists v. split; [split; [apply dead_kw; exact Qd | split; [exact W | exact Vw]]|].
      split; [rewrite Fl, V; reflexivity | exact Len].
  - destruct R as [Es [Q [Hn Hi]]].
    pose proof (initialize_empty_k q n Q Hn Hi) as IE. destruct n as [|n'].
    + destruct IE as [r0 Ei].
      destruct (wb_initial_dead (new_flw c) (kw q 1) b r0 (kw q 0) eq_refl Ei (dead_kw q Q)) as [r [w' [s' [rot [E F]]]]].
      exists (new_flw c), r, w', s', rot. split; [exact Es|]. split; [reflexivity|]. split; [exact E|].
      right. exists ([], None). destruct F as [D F]. cbn [kw set_kill wfs] in F.
      destruct (empty_view c (wfs w')) as [W V]; [rewrite F; exact Hn|].
      split; [split; [exact D | split; [exact W | exact V]]|]. split; [reflexivity | cbn; lia].
    + destruct IE as [q1 [wr [roll [Ei [I [V [Z [S1 RS]]]]]]]].
      assert (Z0 : roll_size_ok roll (length (cur_view q1 wr))) by (rewrite V; exact Z).
      destruct (write_active_k q1 wr [] roll b n' I Z0) as [r [w' [s' [rot' [E Out]]]]].
      exists (new_flw c), r, w', s', rot'. split; [exact Es|]. split; [reflexivity|].
      split. { rewrite (write_buffer_init c (kw q (S (S n'))) b _ _ _ (kw q1 (S n')) Ei). exact E. }
      destruct Out as [[q' [n2 [wr' [roll' [cl' [-> [-> [-> [-> [I' [Z' [S' [V' R']]]]]]]]]]]]] | [qd [v [-> [Qd [W [Vw [Fl Len]]]]]]]].
      * left. split; [reflexivity|]. exists q', n2. split; [reflexivity|].
        split; [reflexivity|]. split; [cbn [with_w s_w]; exact (same_env_acts _ _ (same_env_trans _ _ _ S1 S') Ha)|].
        cbn [a_step]. rewrite V in V'. cbn [app] in V'.
        destruct (rotation_necessary q1 roll); injection V' as <- V''; (exists wr', roll'; cbn [with_w s_flw s_w];
          split; [reflexivity|]; split; [exact I'|]; split; [exact V''|]; split; [rewrite <- V''; exact Z'|]).
        -- intros m Hm. rewrite (RS m Hm) in R'. destruct (R' m 0%N eq_refl) as [k' ->]; eauto.
        -- intros m Hm. rewrite (RS m Hm) in R'. destruct (R' m 0%N eq_refl) as [k' ->]; eauto.
      * right. exists v. split; [split; [apply dead_kw; exact Qd | split; [exact W | exact Vw]]|].
        split; [rewrite Fl, V; reflexivity | exact Len].
Qed.

Lemma krel_flw x a : KRel c crit x a -> exists s, s_flw x = Some s /\ f_cfg s = c.
Proof.
  intros [q [n [_ [_ [_ R]]]]]. cbn [with_w s_flw] in R.
  destruct a as [[cl cu]|]; [destruct R as [wr [roll [Es _]]] | destruct R as [Es _]]; rewrite Es; eexists; split; reflexivity.
Qed.

Lemma step_sync_k x a o : KRel c crit x a -> step x o = sync_step x o.
Proof.
  intros K. destruct (krel_flw x a K) as [s [Es Ec]]. destruct Hcfg as [_ [Hts [_ Ha]]].
  apply (step_sync_cfg x o s Es); rewrite Ec; assumption.
Qed.

(* ---- one basic operation of a process with a budget: it either completes (and is acknowledged), or the process
        dies in it, and then the directory holds exactly what was acknowledged before ---- *)
Lemma kstep x a o : KRel c crit x a -> basic_op o ->
  let '(x', ob) := step x o in
  (alive (s_w x') = true /\ KRel c crit x' (a_step a o (rot_of ob)))
  \/ (alive (s_w x') = false /\ exists v, DeadDir c (s_w x') v /\ oflat v = flat a /\ length (fst v) <= S (apot a)).
Proof.
  intros K Hb. rewrite (step_sync_k x a o K). destruct K as [q [n [Ew R]]].
  destruct o; try contradiction; cbn [sync_step].
  - (* OWrite *)
    destruct (write_rel_k x a b q n Ew R) as [s [r [w' [s' [rot [Es [Hp [E Out]]]]]]]].
    rewrite Es, Hp. pose proof (proj1 R) as Ht. cbn [with_w s_tl] in Ht. rewrite Ht. cbn [app]. rewrite E. cbn [rot_of].
    destruct Out as [[-> K'] | [v [D [Fl Len]]]].
    + left. split; [|exact K']. destruct K' as [q' [n' [E' _]]]. cbn [s_w] in E' |- *. rewrite E'. reflexivity.
    + right. cbn [s_w].
      assert (Ew' : match r with Err => report EWrite w' | _ => w' end = w') by (destruct r; try reflexivity; apply report_dead; apply D).
      rewrite Ew'. split; [apply dead_not_alive; apply D|]. exists v. auto.
  - (* OPlain *)
    destruct (write_rel_k x a b q n Ew R) as [s [r [w' [s' [rot [Es [Hp [E Out]]]]]]]].
    rewrite Es, Hp, E. cbn [rot_of]. pose proof (proj1 R) as Ht. cbn [with_w s_tl] in Ht. rewrite Ht.
    destruct Out as [[-> K'] | [v [D [Fl Len]]]].
    + left. split; [|exact K']. destruct K' as [q' [n' [E' _]]]. cbn [s_w] in E' |- *. rewrite E'. reflexivity.
    + right. cbn [s_w]. split; [apply dead_not_alive; apply D|]. exists v. auto.
  - (* OFlush *)
    destruct R as [Ht [Ha R]]. cbn [with_w s_tl s_w s_flw] in Ht, Ha, R. destruct a as [[cl cu]|].
    + destruct R as [wr [roll [Es [I [V [Z RS]]]]]]. rewrite Es. cbn [st_of f_poisoned].
      destruct (direct_wr q wr cl I) as [Pw _].
      unfold flush_state, st_of. cbn [f_inner]. rewrite w_flush_nop by exact Pw. rewrite (writer_eta wr Pw).
      cbn [rot_of a_step s_w]. left. split; [rewrite Ew; reflexivity|].
      exists q, n. split; [exact Ew|]. split; [exact Ht|]. split; [exact Ha|].
      exists wr, roll. cbn [with_w s_flw s_w]. split; [reflexivity|]. split; [exact I|]. split; [exact V|]. split; assumption.
    + destruct R as [Es R]. rewrite Es. cbn [new_flw f_poisoned flush_state f_inner rot_of a_step s_w].
      left. split; [rewrite Ew; reflexivity|]. exists q, n. split; [exact Ew|]. split; [exact Ht|]. split; [exact Ha|].
      split; [reflexivity | exact R].
  - (* OTrigger *)
    destruct R as [Ht [Ha R]]. cbn [with_w s_tl s_w s_flw] in Ht, Ha, R. destruct a as [[cl cu]|].
    + destruct R as [wr [roll [Es [I [V [Z RS]]]]]]. rewrite Es. cbn [st_of f_poisoned f_cfg f_inner]. rewrite Ew.
      destruct (direct_wr q wr cl I) as [Pw _]. pose proof (ni_quiet _ _ _ _ I) as Q.
      destruct (mount_next_k q wr cl roll true n I eq_refl) as [f1 [Ern M]].
      destruct n as [|[|n']].
      * destruct M as [r1 [st1 E1]]. rewrite E1. right. cbn [s_w]. split; [reflexivity|].
        destruct (numinv_view c q wr cl I Pw) as [W Vw].
        exists (cl, Some (cur_view q wr)). split; [split; [apply dead_kw; exact Q | split; [exact W | exact Vw]]|].
        split; [rewrite V; reflexivity | cbn; lia].
      * destruct M as [r1 [st1 E1]]. rewrite E1. right. cbn [s_w]. split; [reflexivity|].
        destruct (rename_view c q wr cl f1 I Ern) as [W Vw].
        exists (cl ++ [content (wfs q) (wino wr)], None).
        split; [split; [apply dead_kw; apply quiet_set_fs; exact Q | split; [exact W | exact Vw]]|].
        split.
        -- unfold oflat. cbn [fst snd flat]. rewrite <- V. unfold cur_view. rewrite concat_app, Pw. cbn [concat]. rewrite !app_nil_r. reflexivity.
        -- cbn [fst apot]. rewrite app_length. cbn [length]. lia.
      * destruct M as [q' [wr' [roll' [E1 [I' [V' [Z' [S' R']]]]]]]]. rewrite E1. left.
        cbn [rot_of a_step code_of with_inner f_cfg f_poisoned s_w]. split; [reflexivity|].
        exists q', n'. split; [reflexivity|]. split; [exact Ht|]. split; [cbn [with_w s_w]; exact (same_env_acts _ _ S' Ha)|].
        rewrite V in *. exists wr', roll'. cbn [with_w s_flw s_w].
        split; [reflexivity|]. split; [exact I'|]. split; [exact V'|]. split; [exact Z'|].
        intros m Hm. destruct (RS m Hm) as [k ->]. destruct (R' m k eq_refl) as [k' ->]. eauto.
    + destruct R as [Es R]. rewrite Es. cbn [new_flw f_poisoned f_cfg f_inner mount_next with_inner rot_of a_step code_of s_w].
      left. split; [rewrite Ew; reflexivity|]. exists q, n. split; [exact Ew|]. split; [exact Ht|]. split; [exact Ha|].
      split; [reflexivity | exact R].
  - (* OTick *)
    cbn [rot_of a_step s_w]. left. rewrite Ew. split; [reflexivity|].
    exists (set_now q (wnow q + dt)%Z), n. split; [reflexivity|].
    destruct R as [Ht [Ha R]]. cbn [with_w s_tl s_w s_flw] in Ht, Ha, R.
    split; [exact Ht|]. split; [exact Ha|]. destruct a as [[cl cu]|].
    + destruct R as [wr [roll [Es [I [V [Z RS]]]]]]. exists wr, roll. cbn [with_w s_flw s_w].
      split; [exact Es|]. split; [apply (numinv_env c q); [exact I | reflexivity | apply quiet_set_now; apply I]|].
      split; [exact V|]. split; assumption.
    + cbn [with_w s_flw s_w]. destruct R as [Es [Q [Hn Hi]]]. split; [exact Es|]. split; [apply quiet_set_now; exact Q|]. split; assumption.
  - (* OSnap *)
    cbn [rot_of a_step]. left. split; [rewrite Ew; reflexivity|]. exists q, n. split; [exact Ew | exact R].
Qed.

(* ---- the operations after the counter has been armed ---- *)
Lemma krun : forall ops x a, KRel c crit x a -> Forall basic_op ops ->
  (exists a', KRel c crit (fst (run x ops)) a' /\ flat a' = flat a ++ acked x ops /\ apot a' <= apot a + length ops)
  \/ (exists v, DeadDir c (s_w (fst (run x ops))) v /\ oflat v = flat a ++ acked x ops
                /\ length (fst v) <= S (apot a + length ops)).
Proof.
  induction ops as [|o r IH]; intros x a K Hb.
  - left. exists a. cbn [run fst acked length]. rewrite app_nil_r. split; [exact K|]. split; [reflexivity | lia].
  - inversion Hb as [|o' r' Ho Hr]; subst. rewrite fst_run_cons. cbn [acked length].
    pose proof (kstep x a o K Ho) as S. destruct (step x o) as [x1 ob] eqn:Est. cbn [fst].
    destruct S as [[Al K1] | [Al [v [D [Fl Len]]]]]; rewrite Al.
    + destruct (IH x1 _ K1 Hr) as [[a' [K' [F' P']]] | [v [D [F' P']]]].
      * left. exists a'. split; [exact K'|]. split.
        -- rewrite F', a_step_flat by exact Ho. rewrite app_assoc. reflexivity.
        -- pose proof (a_step_apot a o (rot_of ob)). lia.
      * right. exists v. split; [exact D|]. split.
        -- rewrite F', a_step_flat by exact Ho. rewrite app_assoc. reflexivity.
        -- pose proof (a_step_apot a o (rot_of ob)). lia.
    + cbn [app]. destruct D as [D [W V]].
      pose proof (dead_run r x1 D Hr) as [D2 F2]. rewrite (acked_dead r x1 D Hr), app_nil_r.
      right. exists v. split; [split; [exact D2 | rewrite F2; split; assumption]|]. split; [exact Fl | lia].
Qed.

Lemma crash_alive x a : KRel c crit x a ->
  exists v, IdleO c (fst (step x OCrash)) v /\ oflat v = flat a /\ length (fst v) = apot a.
Proof.
  intros [q [n [Ew [Ht [Ha R]]]]]. rewrite step_crash. cbn [sync_step fst]. cbn [with_w s_tl s_w s_flw] in Ht, Ha, R.
  unfold IdleO. cbn [s_tl s_w s_flw]. rewrite Ew. cbn [kw set_kill set_acts wfs wacts].
  destruct a as [[cl cu]|].
  - destruct R as [wr [roll [Es [I [V [Z RS]]]]]]. destruct (direct_wr q wr cl I) as [Pw _].
    destruct (numinv_view c q wr cl I Pw) as [W Vw]. rewrite V in Vw. pose proof (ni_quiet _ _ _ _ I) as [Qf _].
    exists (cl, Some cu). split; [|split; reflexivity].
    split; [reflexivity|]. split; [reflexivity|]. split; [reflexivity|]. split; [split; [exact Qf | reflexivity]|].
    split; [exact W | exact Vw].
  - destruct R as [Es [[Qf _] [Hn Hi]]]. destruct (empty_view c (wfs q) Hn) as [W Vw].
    exists ([], None). split; [|split; reflexivity].
    split; [reflexivity|]. split; [reflexivity|]. split; [reflexivity|]. split; [split; [exact Qf | reflexivity]|].
    split; [exact W | exact Vw].
Qed.

Lemma crash_dead x v : DeadDir c (s_w x) v -> IdleO c (fst (step x OCrash)) v.
Proof.
  intros [[_ Df] [W V]]. rewrite step_crash. cbn [sync_step fst]. unfold IdleO. cbn [s_tl s_w s_flw set_kill set_acts wfs wacts].
  split; [reflexivity|]. split; [reflexivity|]. split; [reflexivity|]. split; [split; [exact Df | reflexivity]|].
  split; [exact W | exact V].
Qed.

Lemma arm_krel x a k : Rel c crit x a -> KRel c crit (fst (step x (OSetKill k))) a.
Proof.
  intros R. rewrite (step_sync_rel c crit x a _ Hcfg R). cbn [sync_step fst].
  exists (s_w x), k. split; [reflexivity|]. unfold with_w. cbn [s_flw s_tl s_dead]. destruct x; exact R.
Qed.

(* ---- the whole history of the killed process ---- *)
Lemma kill_history t0 off ops1 k ops2 : Forall basic_op ops1 -> Forall basic_op ops2 ->
  exists v, IdleO c (fst (run (sys0 t0 off) (OStart c :: ops1 ++ [OSetKill k] ++ ops2 ++ [OCrash]))) v
    /\ oflat v = written ops1 ++ acked (fst (run (sys0 t0 off) (OStart c :: ops1 ++ [OSetKill k]))) ops2
    /\ length (fst v) <= S (length ops1 + length ops2).
Proof.
  intros Hb1 Hb2. rewrite !fst_run_cons, !fst_run_app, !fst_run_cons. cbn [run fst].
  pose proof (start_rel c crit t0 off) as R0. set (x0 := fst (step (sys0 t0 off) (OStart c))) in *.
  pose proof (run_rel c crit Hcfg ops1 x0 None R0 Hb1) as R1. pose proof (run_length ops1 x0) as L1.
  pose proof (a_run_flat ops1 None (snd (run x0 ops1)) Hb1 L1) as F1.
  pose proof (a_run_apot ops1 None (snd (run x0 ops1))) as P1. cbn [apot flat app] in F1, P1.
  set (x1 := fst (run x0 ops1)) in *. set (a1 := a_run None ops1 (snd (run x0 ops1))) in *.
  pose proof (arm_krel x1 a1 k R1) as K2. set (x2 := fst (step x1 (OSetKill k))) in *.
  destruct (krun ops2 x2 a1 K2 Hb2) as [[a' [K' [F' P']]] | [v [D [F' P']]]].
  - destruct (crash_alive _ a' K') as [v [Id [Fv Lv]]]. exists v. split; [exact Id|].
    split; [rewrite Fv, F', F1; reflexivity | lia].
  - exists v. split; [apply crash_dead; exact D|]. split; [rewrite F', F1; reflexivity | lia].
Qed.

(* the acknowledged bytes are the bytes written by a prefix of the operations: the process dies once *)
Lemma acked_prefix_k : forall ops x a, KRel c crit x a -> Forall basic_op ops ->
  exists j, acked x ops = written (firstn j ops).
Proof.
  induction ops as [|o r IH]; intros x a K Hb; [exists 0; reflexivity|].
  inversion Hb as [|o' r' Ho Hr]; subst. cbn [acked].
  pose proof (kstep x a o K Ho) as S. destruct (step x o) as [x1 ob] eqn:Est. cbn [fst].
  destruct S as [[Al K1] | [Al [v [D _]]]]; rewrite Al.
  - destruct (IH x1 _ K1 Hr) as [j E]. exists (S j). cbn [firstn]. rewrite E, (written_cons o (firstn j r)). reflexivity.
  - exists 0. rewrite (acked_dead r x1 (proj1 D) Hr). reflexivity.
Qed.

Lemma kill_history_prefix t0 off ops1 k ops2 : Forall basic_op ops1 -> Forall basic_op ops2 ->
  exists j, acked (fst (run (sys0 t0 off) (OStart c :: ops1 ++ [OSetKill k]))) ops2 = written (firstn j ops2).
Proof.
  intros Hb1 Hb2. rewrite !fst_run_cons, !fst_run_app, !fst_run_cons. cbn [run fst].
  pose proof (start_rel c crit t0 off) as R0. set (x0 := fst (step (sys0 t0 off) (OStart c))) in *.
  pose proof (run_rel c crit Hcfg ops1 x0 None R0 Hb1) as R1.
  exact (acked_prefix_k ops2 _ _ (arm_krel _ _ k R1) Hb2).
Qed.

End Direct.

(* The statement asked for (Theorem A), proved without restriction.

   After any history  OStart c :: ops1 ++ [OSetKill k] ++ ops2 ++ [OCrash]  from the empty directory
   (Numbers naming, no cleanup, direct mode; ops1, ops2 any basic operations; any kill point k), the directory read as
   r00000, r00001, ..., then rCURRENT if it exists, holds exactly the acknowledged records: the payloads written
   by ops1 and those written by the operations of ops2 after which the process was still alive.  Nothing is lost,
   nothing else is there (in the model a write effect is atomic: the record whose write was killed is not in the file). *)
Theorem numbers_kill_keeps_acked c crit t0 off ops1 k ops2 :
  numcfg c crit -> c_cap c = None -> Forall basic_op ops1 -> Forall basic_op ops2 ->
  let x1 := fst (run (sys0 t0 off) (OStart c :: ops1 ++ [OSetKill k])) in
  let xe := fst (run (sys0 t0 off) (OStart c :: ops1 ++ [OSetKill k] ++ ops2 ++ [OCrash])) in
  exists closed ocur,
    reader_view_opt c (wfs (s_w xe)) closed ocur
    /\ concat closed ++ (match ocur with Some cu => cu | None => [] end) = written ops1 ++ acked x1 ops2.
Proof.
  intros Hcfg Hcap Hb1 Hb2 x1 xe.
  destruct (kill_history c crit Hcfg Hcap t0 off ops1 k ops2 Hb1 Hb2) as [[cl ocu] [Id [F _]]].
  exists cl, ocu. split; [apply Id | exact F].
Qed.
Print Assumptions numbers_kill_keeps_acked.

(* what is acknowledged is what a prefix of ops2 wrote *)
Theorem acked_is_prefix c crit t0 off ops1 k ops2 :
  numcfg c crit -> c_cap c = None -> Forall basic_op ops1 -> Forall basic_op ops2 ->
  exists j, acked (fst (run (sys0 t0 off) (OStart c :: ops1 ++ [OSetKill k]))) ops2 = written (firstn j ops2).
Proof. intros Hcfg Hcap. apply (kill_history_prefix c crit Hcfg Hcap). Qed.
Print Assumptions acked_is_prefix.
